(* C08: binary64 facts about UpdateSimpleMovingAvg, proved through Flocq's PrimFloat bridge.
   R_of x is the real value of a finite float; rnd is round-to-nearest-even into binary64. *)
From Coq Require Import ZArith Reals Lra Lia Psatz Floats Uint63.
From Flocq Require Import Core Plus_error Relative BinarySingleNaN.
From Flocq Require PrimFloat.
From F2G Require Import Go.GoFloat Model.Util Model.Sensor.
Import Flocq.IEEE754.PrimFloat.
Open Scope R_scope.


Notation fexp64 := (FLT_exp (-1074) 53).
Notation format := (generic_format radix2 fexp64).
Notation rnd := (round radix2 fexp64 ZnearestE).

Definition R_of (x : f64) : R := B2R (Prim2B x).
Definition fin (x : f64) : Prop := BinarySingleNaN.is_finite (Prim2B x) = true.

Lemma format_R_of x : format (R_of x).
Proof. apply (generic_format_B2R prec emax). Qed.

Lemma fin_is_finite x : GoFloat.is_finite x = true <-> fin x.
Proof.
  unfold GoFloat.is_finite, fin. rewrite <- B2SF_Prim2B.
  destruct (Prim2B x); cbn; split; congruence.
Qed.

Notation bmax := (bpow radix2 1024).

Lemma add_R x y : fin x -> fin y -> Rabs (rnd (R_of x + R_of y)) < bmax ->
  fin (x + y) /\ R_of (x + y) = rnd (R_of x + R_of y).
Proof.
  intros Fx Fy H. unfold fin, R_of. rewrite add_equiv.
  generalize (@Bplus_correct prec emax (@eq_refl _ Lt) (@eq_refl _ Lt) mode_NE (Prim2B x) (Prim2B y) Fx Fy).
  rewrite Rlt_bool_true by exact H. intros [E [F _]]. split; assumption.
Qed.

Lemma sub_R x y : fin x -> fin y -> Rabs (rnd (R_of x - R_of y)) < bmax ->
  fin (x - y) /\ R_of (x - y) = rnd (R_of x - R_of y).
Proof.
  intros Fx Fy H. unfold fin, R_of. rewrite sub_equiv.
  generalize (@Bminus_correct prec emax (@eq_refl _ Lt) (@eq_refl _ Lt) mode_NE (Prim2B x) (Prim2B y) Fx Fy).
  rewrite Rlt_bool_true by exact H. intros [E [F _]]. split; assumption.
Qed.

Lemma mul_R x y : fin x -> fin y -> Rabs (rnd (R_of x * R_of y)) < bmax ->
  fin (x * y) /\ R_of (x * y) = rnd (R_of x * R_of y).
Proof.
  intros Fx Fy H. unfold fin, R_of. rewrite mul_equiv.
  generalize (@Bmult_correct prec emax (@eq_refl _ Lt) (@eq_refl _ Lt) mode_NE (Prim2B x) (Prim2B y)).
  rewrite Rlt_bool_true by exact H. intros [E [F _]]. split; [|assumption].
  unfold fin in *. etransitivity; [exact F|]. now rewrite Fx, Fy.
Qed.

Lemma div_R x y : fin x -> R_of y <> 0 -> Rabs (rnd (R_of x / R_of y)) < bmax ->
  fin (x / y) /\ R_of (x / y) = rnd (R_of x / R_of y).
Proof.
  intros Fx Ny H. unfold fin, R_of. rewrite div_equiv.
  generalize (@Bdiv_correct prec emax (@eq_refl _ Lt) (@eq_refl _ Lt) mode_NE (Prim2B x) (Prim2B y) Ny).
  rewrite Rlt_bool_true by exact H. intros [E [F _]]. split; [|assumption].
  etransitivity; [exact F|]. exact Fx.
Qed.

Global Instance Hp53 : Prec_gt_0 53. Proof. reflexivity. Qed.



Notation DN := (round radix2 fexp64 Zfloor).
Notation UP := (round radix2 fexp64 Zceil).

Lemma rnd_le x y : x <= y -> rnd x <= rnd y.
Proof. apply round_le; auto with typeclass_instances. Qed.
Lemma rnd_id x : format x -> rnd x = x.
Proof. apply round_generic; auto with typeclass_instances. Qed.
Lemma rnd_0 : rnd 0 = 0.
Proof. apply round_0; auto with typeclass_instances. Qed.
Lemma rnd_ge0 x : 0 <= x -> 0 <= rnd x.
Proof. intros H. rewrite <- rnd_0. now apply rnd_le. Qed.

(* the rounded half-or-less of a rounded difference never exceeds the exact difference *)
Lemma part_le_diff A X r :
  format A -> format X -> A <= X -> 0 <= r <= 1/2 ->
  rnd (r * rnd (X - A)) <= X - A.
Proof.
  intros FA FX HAX Hr.
  set (u := X - A). assert (Hu : 0 <= u) by (unfold u; lra).
  assert (Hd0 : 0 <= rnd u) by now apply rnd_ge0.
  destruct (generic_format_EM radix2 fexp64 u) as [Fu|NFu].
  - rewrite (rnd_id u Fu). rewrite <- (rnd_id u Fu) at 2. apply rnd_le. nra.
  - (* u is not representable: it is beyond the range where sums are exact *)
    assert (Hbig : bpow radix2 (53 + -1074) < u).
    { apply Rnot_le_lt. intros Hs. apply NFu. unfold u.
      replace (X - A) with (X + - A) by ring.
      apply FLT_format_plus_small; auto with typeclass_instances.
      - now apply generic_format_opp.
      - replace (X + - A) with u by (unfold u; ring). rewrite Rabs_pos_eq; auto. }
    set (f := DN u).
    assert (Ff : format f) by (apply generic_format_round; auto with typeclass_instances).
    assert (Hfu : f <= u) by (apply round_DN_pt; auto with typeclass_instances).
    assert (Hfpos : bpow radix2 (53 + -1074) <= f).
    { apply round_ge_generic; auto with typeclass_instances.
      - apply generic_format_FLT_bpow; auto with typeclass_instances. lia.
      - lra. }
    assert (Hf0 : 0 < f) by (pose proof (bpow_gt_0 radix2 (53 + -1074)); lra).
    assert (Hup : UP u = f + ulp radix2 fexp64 u) by (apply round_UP_DN_ulp; auto).
    assert (Hulp : ulp radix2 fexp64 u <= f).
    { rewrite <- (ulp_DN radix2 fexp64 u Hu). fold f.
      rewrite <- (Rabs_pos_eq f) at 2 by lra. apply ulp_le_abs; auto. lra. }
    assert (Hd : rnd u <= 2 * f).
    { destruct (round_DN_or_UP radix2 fexp64 ZnearestE u) as [E|E]; rewrite E; fold f; lra. }
    apply Rle_trans with f; auto.
    rewrite <- (rnd_id f Ff). apply rnd_le. nra.
Qed.

Lemma upd_between_le A X r :
  format A -> format X -> A <= X -> 0 <= r <= 1/2 ->
  A <= rnd (A + rnd (r * rnd (X - A))) <= X.
Proof.
  intros FA FX HAX Hr.
  pose proof (part_le_diff A X r FA FX HAX Hr) as Hp1.
  assert (Hp0 : 0 <= rnd (r * rnd (X - A))).
  { apply rnd_ge0. apply Rmult_le_pos; [lra|]. apply rnd_ge0. lra. }
  split.
  - rewrite <- (rnd_id A FA) at 1. apply rnd_le. lra.
  - rewrite <- (rnd_id X FX) at 2. apply rnd_le. lra.
Qed.

Lemma rnd_opp x : rnd (- x) = - rnd x.
Proof. apply round_NE_opp. Qed.

Lemma upd_between_ge A X r :
  format A -> format X -> X <= A -> 0 <= r <= 1/2 ->
  X <= rnd (A + rnd (r * rnd (X - A))) <= A.
Proof.
  intros FA FX HXA Hr.
  assert (FA' : format (- A)) by now apply generic_format_opp.
  assert (FX' : format (- X)) by now apply generic_format_opp.
  pose proof (upd_between_le (- A) (- X) r FA' FX' ltac:(lra) Hr) as H.
  replace (- X - - A) with (- (X - A)) in H by ring.
  rewrite rnd_opp in H.
  replace (r * - rnd (X - A)) with (- (r * rnd (X - A))) in H by ring.
  rewrite rnd_opp in H.
  replace (- A + - rnd (r * rnd (X - A))) with (- (A + rnd (r * rnd (X - A)))) in H by ring.
  rewrite rnd_opp in H. lra.
Qed.



Lemma format_bpow e : (-1074 <= e)%Z -> format (bpow radix2 e).
Proof. intros. apply generic_format_FLT_bpow; auto. reflexivity. Qed.

Lemma rnd_abs_le_bpow x e : (-1074 <= e)%Z -> Rabs x <= bpow radix2 e -> Rabs (rnd x) <= bpow radix2 e.
Proof. intros He H. apply (abs_round_le_generic radix2 fexp64 ZnearestE); auto. now apply format_bpow. Qed.

Lemma bpow_lt_max e : (e < 1024)%Z -> bpow radix2 e < bmax.
Proof. intros. apply bpow_lt. assumption. Qed.

(* float64(int) *)
Lemma of_uint63_R z : (0 <= z < 2^63)%Z ->
  fin (of_uint63 (Uint63.of_Z z)) /\ R_of (of_uint63 (Uint63.of_Z z)) = rnd (IZR z).
Proof.
  intros Hz. unfold fin, R_of. rewrite of_int63_equiv.
  assert (E : Uint63.to_Z (Uint63.of_Z z) = z).
  { rewrite Uint63.of_Z_spec. apply Z.mod_small. exact Hz. }
  rewrite E.
  generalize (@binary_normalize_correct prec emax (@eq_refl _ Lt) (@eq_refl _ Lt) mode_NE z 0 false).
  cbv zeta.
  assert (EF : F2R (Float radix2 z 0) = IZR z) by (unfold F2R; simpl; ring).
  rewrite EF.
  rewrite Rlt_bool_true.
  - intros [A [B _]]. split; assumption.
  - apply Rle_lt_trans with (bpow radix2 63); [|now apply bpow_lt_max].
    apply rnd_abs_le_bpow; [lia|].
    rewrite Rabs_pos_eq by (apply IZR_le; lia).
    change (bpow radix2 63) with (IZR (2 ^ 63)). apply IZR_le. lia.
Qed.

Lemma i2f_R z : (Z.abs z < 2^63)%Z -> fin (i2f z) /\ R_of (i2f z) = rnd (IZR z).
Proof.
  intros Hz. unfold i2f. destruct (z <? 0)%Z eqn:E.
  - apply Z.ltb_lt in E. destruct (of_uint63_R (- z)) as [F R]; [lia|].
    unfold fin, R_of in *. rewrite opp_equiv. rewrite is_finite_Bopp, B2R_Bopp. split; auto.
    rewrite R. rewrite opp_IZR. rewrite (round_NE_opp radix2 fexp64). ring.
  - apply Z.ltb_ge in E. apply of_uint63_R. lia.
Qed.


Definition B1021 := bpow radix2 1021.
Definition bnd (x : f64) : Prop := fin x /\ Rabs (R_of x) <= B1021.

Lemma one_R : fin 1%float /\ R_of 1%float = 1.
Proof. split; [reflexivity|]. unfold R_of. cbv -[IZR Rmult Rinv]. lra. Qed.

Lemma b1022 : bpow radix2 1022 = 2 * B1021.
Proof. unfold B1021. change 1022%Z with (1021 + 1)%Z. rewrite bpow_plus. change (bpow radix2 1) with 2. ring. Qed.
Lemma b1023 : bpow radix2 1023 = 4 * B1021.
Proof. unfold B1021. change 1023%Z with (1021 + 2)%Z. rewrite bpow_plus. change (bpow radix2 2) with 4. ring. Qed.
Lemma B1021_pos : 0 < B1021.
Proof. apply bpow_gt_0. Qed.

Lemma rnd_1 : rnd 1 = 1.
Proof. apply round_generic; auto with typeclass_instances. change 1 with (bpow radix2 0). apply format_bpow. lia. Qed.

Lemma upd_R a n x : bnd a -> bnd x -> (1 <= n < 2^63)%Z ->
  let r := rnd (1 / rnd (IZR n)) in
  fin (upd_avg a n x) /\
  R_of (upd_avg a n x) = rnd (R_of a + rnd (r * rnd (R_of x - R_of a))) /\
  0 <= r <= 1 /\ ((2 <= n)%Z -> r <= 1/2).
Proof.
  intros [Fa Ba] [Fx Bx] Hn r.
  pose proof B1021_pos as HB.
  destruct (i2f_R n) as [Fn Rn]; [lia|].
  set (N := rnd (IZR n)) in *.
  assert (HN1 : 1 <= N).
  { unfold N. rewrite <- rnd_1. apply rnd_le. apply IZR_le. lia. }
  assert (Hr : 0 <= r <= 1).
  { unfold r. split.
    - apply rnd_ge0. apply Rmult_le_pos; [lra|]. apply Rlt_le, Rinv_0_lt_compat. lra.
    - rewrite <- rnd_1 at 2. apply rnd_le. apply Rmult_le_reg_r with N; [lra|]. field_simplify; lra. }
  assert (Hr2 : (2 <= n)%Z -> r <= 1/2).
  { intros H2. assert (HN2 : 2 <= N).
    { unfold N. replace 2 with (rnd 2). apply rnd_le. apply IZR_le. lia.
      apply round_generic; auto with typeclass_instances. change 2 with (bpow radix2 1). apply format_bpow. lia. }
    unfold r. replace (1/2) with (rnd (1/2)).
    - apply rnd_le. apply Rmult_le_reg_r with N; [lra|]. field_simplify; lra.
    - apply round_generic; auto with typeclass_instances. replace (1/2) with (bpow radix2 (-1)). apply format_bpow. lia.
      change (bpow radix2 (-1)) with (/ 2). lra. }
  destruct one_R as [F1 R1].
  (* 1 / float64(n) *)
  destruct (div_R 1%float (i2f n)) as [Fq Rq]; auto.
  { rewrite Rn. lra. }
  { rewrite R1, Rn. fold N. fold r. apply Rle_lt_trans with 1; [|change 1 with (bpow radix2 0); now apply bpow_lt_max].
    rewrite Rabs_pos_eq; lra. }
  rewrite R1, Rn in Rq. fold N in Rq. fold r in Rq.
  (* x - a *)
  apply Rabs_le_inv in Ba, Bx.
  set (A := R_of a) in *. set (X := R_of x) in *.
  assert (Hd : Rabs (rnd (X - A)) <= bpow radix2 1022).
  { apply rnd_abs_le_bpow; [lia|]. rewrite b1022. apply Rabs_le. lra. }
  destruct (sub_R x a) as [Fd Rd]; auto.
  { fold X A. apply Rle_lt_trans with (1 := Hd). now apply bpow_lt_max. }
  fold X A in Rd. set (d := rnd (X - A)) in *.
  (* r * d *)
  assert (Hp : Rabs (rnd (r * d)) <= bpow radix2 1022).
  { apply rnd_abs_le_bpow; [lia|]. rewrite Rabs_mult. rewrite (Rabs_pos_eq r) by lra.
    pose proof (Rabs_pos d). nra. }
  destruct (mul_R (1 / i2f n)%float (x - a)%float) as [Fp Rp]; auto.
  { rewrite Rq, Rd. apply Rle_lt_trans with (1 := Hp). now apply bpow_lt_max. }
  rewrite Rq, Rd in Rp. set (p := rnd (r * d)) in *.
  (* a + p *)
  assert (Hs : Rabs (rnd (A + p)) <= bpow radix2 1023).
  { apply rnd_abs_le_bpow; [lia|]. rewrite b1023. rewrite b1022 in Hp. apply Rabs_le_inv in Hp. apply Rabs_le. lra. }
  destruct (add_R a ((1 / i2f n) * (x - a))%float) as [Fs Rs]; auto.
  { fold A. rewrite Rp. apply Rle_lt_trans with (1 := Hs). now apply bpow_lt_max. }
  fold A in Rs. rewrite Rp in Rs.
  unfold upd_avg. repeat split; auto; lra.
Qed.


Lemma leb_R a b : fin a -> fin b -> (PrimFloat.leb a b = true <-> R_of a <= R_of b).
Proof.
  intros Fa Fb. rewrite leb_equiv. rewrite Bleb_correct by assumption.
  unfold R_of. case Rle_bool_spec; intros H; split; intros; auto; try discriminate; lra.
Qed.


Lemma c1021_R : fin 0x1p1021%float /\ R_of 0x1p1021%float = B1021.
Proof.
  split; [reflexivity|]. unfold R_of, B1021.
  change 1021%Z with (52 + 969)%Z. rewrite bpow_plus.
  cbv -[IZR Rmult Rinv bpow]. reflexivity.
Qed.

Lemma boundedb_bnd v : boundedb v = true -> bnd v.
Proof.
  unfold boundedb. intros H. destruct c1021_R as [Fc Rc].
  rewrite leb_equiv, abs_equiv in H. unfold bnd, fin, R_of. unfold fin, R_of in Fc, Rc.
  destruct (Prim2B v) as [s|s| |s m e Hb] eqn:E.
  - split; [reflexivity|]. simpl. rewrite Rabs_R0. apply Rlt_le, B1021_pos.
  - exfalso. unfold Bleb in H. rewrite B2SF_Prim2B in H. vm_compute in H. discriminate.
  - exfalso. unfold Bleb in H. rewrite B2SF_Prim2B in H. vm_compute in H. discriminate.
  - split; [reflexivity|]. rewrite Bleb_correct in H; [|reflexivity|exact Fc].
    rewrite Rc in H. rewrite B2R_Babs in H. revert H. case Rle_bool_spec; intros; auto; discriminate.
Qed.

(* ------------------------------------------------------------------ contraction with rounding slack *)


Definition uu : R := / 2 * bpow radix2 (- 53 + 1).
Definition eta0 : R := / 2 * bpow radix2 (-1074).

Lemma uu_bounds : 0 < uu <= / 1000000.
Proof.
  unfold uu. change (bpow radix2 (-53 + 1)) with (/ IZR (Z.pow_pos 2 52)).
  assert (1000000 <= IZR (Z.pow_pos 2 52)) by (apply IZR_le; vm_compute; discriminate).
  assert (0 < / IZR (Z.pow_pos 2 52) <= / 1000000).
  { split; [apply Rinv_0_lt_compat; lra|apply Rinv_le_contravar; lra]. }
  lra.
Qed.

Lemma eta0_pos : 0 < eta0.
Proof. unfold eta0. pose proof (bpow_gt_0 radix2 (-1074)). lra. Qed.

Lemma err_mul x : exists e h, Rabs e <= uu /\ Rabs h <= eta0 /\ rnd x = x * (1 + e) + h.
Proof.
  destruct (error_N_FLT radix2 (-1074) 53 eq_refl (fun z => negb (Z.even z)) x) as [e [h [He [Hh [_ E]]]]].
  exists e, h. repeat split; auto.
Qed.

Lemma err_add x y : format x -> format y -> exists e, Rabs e <= uu /\ rnd (x + y) = (x + y) * (1 + e).
Proof.
  intros Fx Fy.
  destruct (FLT_plus_error_N_ex radix2 (-1074) 53 (fun z => negb (Z.even z)) x y Fx Fy) as [e [He E]].
  exists e. split; auto. apply Rle_trans with (1 := He).
  fold uu. pose proof uu_bounds.
  apply Rle_trans with (uu * / (1 + uu)); [apply Rle_refl|].
  apply Rle_trans with (uu * 1); [|lra]. apply Rmult_le_compat_l; [lra|].
  rewrite <- Rinv_1. apply Rinv_le_contravar; lra.
Qed.

Lemma p_abs_le A X r : format A -> format X -> 0 <= r <= 1/2 ->
  Rabs (rnd (r * rnd (X - A))) <= Rabs (X - A).
Proof.
  intros FA FX Hr. destruct (Rle_or_lt A X) as [H|H].
  - pose proof (part_le_diff A X r FA FX H Hr).
    assert (0 <= rnd (r * rnd (X - A))).
    { apply rnd_ge0. apply Rmult_le_pos; [lra|]. apply rnd_ge0. lra. }
    rewrite !Rabs_pos_eq by lra. lra.
  - assert (FA' : format (- A)) by now apply generic_format_opp.
    assert (FX' : format (- X)) by now apply generic_format_opp.
    pose proof (part_le_diff (- A) (- X) r FA' FX' ltac:(lra) Hr) as P.
    replace (- X - - A) with (- (X - A)) in P by ring. rewrite rnd_opp in P.
    replace (r * - rnd (X - A)) with (- (r * rnd (X - A))) in P by ring. rewrite rnd_opp in P.
    assert (D : rnd (X - A) <= 0) by (rewrite <- rnd_0; apply rnd_le; lra).
    assert (rnd (r * rnd (X - A)) <= 0) by (rewrite <- rnd_0; apply rnd_le; nra).
    rewrite !Rabs_left1 by lra. lra.
Qed.

Lemma abs5 a b c d e : Rabs (a - b - c - d - e) <= Rabs a + Rabs b + Rabs c + Rabs d + Rabs e.
Proof. unfold Rabs. repeat destruct Rcase_abs; lra. Qed.

Lemma prod3 e0 e1 e2 : Rabs e0 <= uu -> Rabs e1 <= uu -> Rabs e2 <= uu ->
  Rabs ((1 + e0) * (1 + e1) * (1 + e2) - 1) <= 4 * uu /\ Rabs ((1 + e1) * (1 + e2)) <= 2.
Proof.
  intros H0 H1 H2. pose proof uu_bounds as Hu.
  apply Rabs_le_inv in H0, H1, H2.
  assert (P1 : 1 - 2 * uu <= (1 + e0) * (1 + e1) <= 1 + 2.5 * uu) by nra.
  assert (P2 : 1 - 2 * uu <= (1 + e1) * (1 + e2) <= 1 + 2.5 * uu) by nra.
  split; apply Rabs_le; nra.
Qed.

Lemma contraction_R A X N r : format A -> format X -> 2 <= N -> r = rnd (1 / N) -> 0 <= r <= 1/2 ->
  Rabs (X - rnd (A + rnd (r * rnd (X - A)))) <=
  (1 - 1 / N) * Rabs (X - A) + 8 * uu * (Rabs A + Rabs X) + 2 * eta0.
Proof.
  intros FA FX HN Er Hr.
  pose proof uu_bounds as Hu. pose proof eta0_pos as He.
  assert (Heu : eta0 <= uu).
  { unfold eta0, uu. apply Rmult_le_compat_l; [lra|]. apply bpow_le. lia. }
  set (U := X - A).
  destruct (err_add X (- A) FX (generic_format_opp _ _ _ FA)) as [e1 [He1 Ed]].
  replace (X + - A) with U in Ed by (unfold U; ring).
  destruct (err_mul (1 / N)) as [e0 [h0 [He0 [Hh0 Err]]]]. rewrite <- Er in Err.
  destruct (err_mul (r * rnd U)) as [e2 [h2 [He2 [Hh2 Ep]]]].
  assert (Fp : format (rnd (r * rnd U))) by (apply generic_format_round; auto with typeclass_instances).
  destruct (err_add A (rnd (r * rnd U)) FA Fp) as [e3 [He3 Es]].
  pose proof (p_abs_le A X r FA FX Hr) as Hp. fold U in Hp.
  set (p := rnd (r * rnd U)) in *.
  destruct (prod3 e0 e1 e2 He0 He1 He2) as [HE HF].
  set (E := (1 + e0) * (1 + e1) * (1 + e2) - 1) in *.
  set (F := (1 + e1) * (1 + e2)) in *.
  assert (Ep' : p = U / N * (1 + E) + h0 * U * F + h2).
  { rewrite Ep, Ed, Err. unfold E, F, Rdiv. ring. }
  rewrite Es.
  replace (X - (A + p) * (1 + e3)) with (U - p - (A + p) * e3) by (unfold U; ring).
  replace (U - p) with (U * (1 - 1 / N) - U / N * E - h0 * U * F - h2) by (rewrite Ep'; unfold Rdiv; ring).
  eapply Rle_trans; [apply abs5|].
  rewrite !Rabs_mult.
  assert (HU : Rabs U <= Rabs A + Rabs X).
  { unfold U. replace (X - A) with (X + - A) by ring. eapply Rle_trans; [apply Rabs_triang|]. rewrite Rabs_Ropp. lra. }
  assert (HAp : Rabs (A + p) <= 2 * (Rabs A + Rabs X)).
  { eapply Rle_trans; [apply Rabs_triang|]. pose proof (Rabs_pos X). pose proof (Rabs_pos A). lra. }
  assert (HN1 : Rabs (1 - 1 / N) = 1 - 1 / N).
  { apply Rabs_pos_eq. assert (0 < / N <= / 2) by (split; [apply Rinv_0_lt_compat; lra|apply Rinv_le_contravar; lra]). lra. }
  assert (HUN : Rabs (U / N) <= (Rabs A + Rabs X) / 2).
  { unfold Rdiv. rewrite Rabs_mult. rewrite (Rabs_pos_eq (/ N)) by (apply Rlt_le, Rinv_0_lt_compat; lra).
    assert (0 < / N <= / 2) by (split; [apply Rinv_0_lt_compat; lra|apply Rinv_le_contravar; lra]).
    pose proof (Rabs_pos U). nra. }
  rewrite HN1.
  pose proof (Rabs_pos U). pose proof (Rabs_pos A). pose proof (Rabs_pos X). pose proof (Rabs_pos (U / N)).
  pose proof (Rabs_pos E). pose proof (Rabs_pos h0). pose proof (Rabs_pos F). pose proof (Rabs_pos (A + p)). pose proof (Rabs_pos e3).
  set (S := Rabs A + Rabs X) in *.
  assert (T2 : Rabs (U / N) * Rabs E <= S / 2 * (4 * uu)) by (apply Rmult_le_compat; lra).
  assert (T3 : Rabs h0 * Rabs U * Rabs F <= eta0 * S * 2).
  { apply Rmult_le_compat; try lra. apply Rmult_le_pos; lra. apply Rmult_le_compat; lra. }
  assert (T5 : Rabs (A + p) * Rabs e3 <= 2 * S * uu) by (apply Rmult_le_compat; lra).
  assert (T3' : eta0 * S * 2 <= uu * S * 2) by nra.
  assert (0 <= uu * S) by (apply Rmult_le_pos; lra).
  rewrite (Rmult_comm (Rabs U)). lra.
Qed.
