(* C08 observer link: the boolean observer of Drv/Sensor.v (skip-on-fault, finite, hull, contraction --
   walkb / in_hullb / contractsb) demands nothing the verified model does not deliver: inside the magnitude
   guard the model's own averages pass it, so where implementation and model agree the observer can only
   fail on the recorded finding D20. Includes the bridge fz = Flocq real value (closing the "by inspection"
   gap between contractsb and theorem C08_converges). *)
From Coq Require Import ZArith Bool List Floats Lia Reals Lra Psatz SpecFloat.
From Flocq Require Import Core BinarySingleNaN.
From Flocq Require PrimFloat.
From F2G Require Import Go.GoFloat Model.Util Model.Sensor Proofs.SensorFloat Proofs.Sensor Proofs.CtrlLinks Drv.Sensor.
Import ListNotations.
Open Scope Z_scope.


(* ---- fz is Flocq's real value: for a finite float, fz v = Some V with V = R_of v * 2^1074 ---- *)
Lemma bounded_emin m e : bounded FloatOps.prec FloatOps.emax m e = true -> -1074 <= e.
Proof.
  unfold bounded, canonical_mantissa. intros H. apply andb_true_iff in H. destruct H as [H _].
  apply Zeq_bool_eq in H. unfold fexp, FLT_exp, emin, FloatOps.prec, FloatOps.emax in H. lia.
Qed.

Lemma fz_R v : fin v -> exists V, fz v = Some V /\ IZR V = (R_of v * bpow radix2 1074)%R.
Proof.
  unfold fin, R_of, fz. rewrite <- PrimFloat.B2SF_Prim2B.
  destruct (PrimFloat.Prim2B v) as [s|s| |s m e Hb]; cbn [B2SF BinarySingleNaN.is_finite B2R]; intros F; try discriminate.
  - exists 0. split; [reflexivity|]. lra.
  - pose proof (bounded_emin m e Hb) as He. cbv zeta.
    exists (if s then - (Z.pos m * 2 ^ (e + 1074)) else Z.pos m * 2 ^ (e + 1074)). split; [reflexivity|].
    unfold F2R. cbn [Fnum Fexp].
    assert (E : IZR (Z.pos m * 2 ^ (e + 1074)) = (IZR (Z.pos m) * bpow radix2 e * bpow radix2 1074)%R).
    { rewrite mult_IZR. rewrite (IZR_Zpower radix2) by lia. rewrite bpow_plus. ring. }
    destruct s; cbn [cond_Zopp]; [rewrite opp_IZR, E, opp_IZR; ring|rewrite E; ring].
Qed.

Lemma fz_fin v V : fz v = Some V -> fin v.
Proof.
  unfold fin, fz. rewrite <- PrimFloat.B2SF_Prim2B.
  destruct (PrimFloat.Prim2B v); cbn; intros H; try discriminate; reflexivity.
Qed.


Lemma s1074_pos : (0 < bpow radix2 1074)%R.
Proof. apply bpow_gt_0. Qed.

Lemma small_intb_sint v : small_intb v = true -> sint v.
Proof.
  unfold small_intb. destruct (fz v) as [V|] eqn:EV; [|discriminate].
  intros H. apply andb_true_iff in H. destruct H as [Hm Hb].
  apply Z.eqb_eq in Hm. apply Z.ltb_lt in Hb.
  pose proof (fz_fin v V EV) as F. split; [exact F|].
  destruct (fz_R v F) as [V' [EV' RV]]. rewrite EV in EV'. inversion EV'; subst V'.
  assert (P2 : 2 ^ 1126 = 2 ^ 52 * 2 ^ 1074) by (rewrite <- Z.pow_add_r by lia; reflexivity).
  assert (PP : 0 < 2 ^ 1074) by (apply Z.pow_pos_nonneg; lia).
  set (P := 2 ^ 1074) in *.
  exists (V / P). apply Z_div_exact_full_2 in Hm; [|lia].
  split.
  - rewrite P2 in Hb. rewrite Hm in Hb. rewrite Z.abs_mul in Hb. rewrite (Z.abs_eq P) in Hb by lia.
    apply Z.mul_lt_mono_pos_l with P; lia.
  - pose proof s1074_pos as Hs.
    assert (EP : IZR P = bpow radix2 1074) by (unfold P; apply (IZR_Zpower radix2); lia).
    rewrite Hm in RV at 1. rewrite mult_IZR, EP in RV.
    apply Rmult_eq_reg_r with (bpow radix2 1074); [|lra]. rewrite <- RV. ring.
Qed.

Lemma in_guardb_okv n v : in_guardb n v = true -> okv n v.
Proof.
  unfold in_guardb, okv. destruct (n =? 1); [apply small_intb_sint|apply boundedb_bnd].
Qed.

Lemma feqb_refl x : feqb x x = true.
Proof.
  unfold feqb. destruct (Prim2SF x) as [s|s| |s m e]; auto using eqb_reflx.
  rewrite eqb_reflx, Pos.eqb_refl, Z.eqb_refl. reflexivity.
Qed.

(* one valid poll keeps the invariant (copy of the step inside Proofs/Sensor.v hull_run) *)
Lemma step_inv n a v seen : 1 <= n < 2 ^ 63 -> okv n a -> okv n v -> Forall (okv n) seen -> in_hull seen a ->
  okv n (upd_avg a n v) /\ in_hull (v :: seen) (upd_avg a n v).
Proof.
  intros Hn Oa Hv Os Hh. unfold okv in *. destruct (n =? 1) eqn:E1.
  - apply Z.eqb_eq in E1. subst n.
    destruct (step_one a v Oa Hv) as [F R]. split.
    + split; [exact F|]. destruct Hv as [_ [z [Hz Rz]]]. exists z. split; [exact Hz|]. now rewrite R.
    + destruct Hv as [Fv _].
      split; exists v; (split; [now left|]); apply fle_R; auto; rewrite R; apply Rle_refl.
  - apply Z.eqb_neq in E1.
    destruct (step_between a n v ltac:(lia) Oa Hv) as [B Hb]. split; [exact B|].
    destruct Hh as [[v1 [I1 L1]] [v2 [I2 L2]]].
    assert (F1 : fin v1).
    { rewrite Forall_forall in Os. specialize (Os v1 I1). apply Os. }
    assert (F2 : fin v2).
    { rewrite Forall_forall in Os. specialize (Os v2 I2). apply Os. }
    destruct Oa as [Fa _]. destruct Hv as [Fv _]. destruct B as [Fa' _].
    apply fle_R in L1; auto. apply fle_R in L2; auto.
    destruct Hb as [Hb|Hb].
    + split; [exists v1; split; [now right|]|exists v; split; [now left|]]; apply fle_R; auto; lra.
    + split; [exists v; split; [now left|]|exists v2; split; [now right|]]; apply fle_R; auto; lra.
Qed.

Lemma converges_upd a n v : 2 <= n < 2 ^ 53 -> bnd a -> bnd v ->
  (Rabs (R_of v - R_of (upd_avg a n v)) <=
   (1 - 1 / IZR n) * Rabs (R_of v - R_of a) + 8 * uu * (Rabs (R_of a) + Rabs (R_of v)) + 2 * eta0)%R.
Proof.
  intros Hn Ha Hv.
  destruct (upd_R a n v Ha Hv ltac:(lia)) as [_ [E [Hr Hr2]]]. cbv zeta in *.
  specialize (Hr2 ltac:(lia)).
  assert (EN : round radix2 (FLT_exp (-1074) 53) ZnearestE (IZR n) = IZR n).
  { apply round_generic; auto with typeclass_instances. apply format_IZR. lia. }
  rewrite EN in *. rewrite E.
  apply contraction_R.
  - apply format_R_of.
  - apply format_R_of.
  - apply IZR_le. lia.
  - reflexivity.
  - lra.
Qed.

Lemma slack_consts : (8 * uu * bpow radix2 50 = 1)%R /\ (2 * eta0 * bpow radix2 1074 = 1)%R.
Proof.
  unfold uu, eta0. split.
  - replace (8 * (/ 2 * bpow radix2 (-53 + 1)) * bpow radix2 50)%R with (bpow radix2 2 * bpow radix2 (-52) * bpow radix2 50)%R.
    + rewrite <- !bpow_plus. reflexivity.
    + change (bpow radix2 2) with 4%R. change (-53 + 1) with (-52). field.
  - replace (2 * (/ 2 * bpow radix2 (-1074)) * bpow radix2 1074)%R with (bpow radix2 (-1074) * bpow radix2 1074)%R by field.
    rewrite <- bpow_plus. reflexivity.
Qed.

(* the observer's exact integer inequality follows from the real inequality of C08_converges *)
Lemma contractsb_model n a x : 1 <= n < 2 ^ 53 -> okv n a -> okv n x -> contractsb n a x (upd_avg a n x) = true.
Proof.
  intros Hn Oa Ox.
  assert (Oa' : okv n (upd_avg a n x)).
  { refine (proj1 (step_inv n a x [a] ltac:(lia) Oa Ox _ _)).
    - constructor; [exact Oa|constructor].
    - pose proof (okv_fin n a Oa) as F. split; exists a; (split; [now left|]); apply fle_R; auto; apply Rle_refl. }
  destruct (fz_R a (okv_fin n a Oa)) as [A [EA RA]].
  destruct (fz_R x (okv_fin n x Ox)) as [X [EX RX]].
  destruct (fz_R _ (okv_fin n _ Oa')) as [A' [EA' RA']].
  unfold contractsb. rewrite EA, EX, EA'. apply Z.leb_le.
  pose proof s1074_pos as Hs.
  destruct (Z.eq_dec n 1) as [->|N1].
  - unfold okv in Oa, Ox. cbn in Oa, Ox.
    destruct (step_one a x Oa Ox) as [_ R].
    assert (A' = X).
    { apply eq_IZR. rewrite RA', RX, R. reflexivity. }
    subst A'. rewrite Z.sub_diag. cbn [Z.abs]. lia.
  - assert (H := converges_upd a n x ltac:(lia) (okv_bnd n a Oa) (okv_bnd n x Ox)).
    destruct slack_consts as [C1 C2].
    set (s := bpow radix2 1074) in *. set (c := bpow radix2 50) in *.
    assert (Hc : (0 < c)%R) by apply bpow_gt_0.
    assert (HN : (2 <= IZR n)%R) by (apply IZR_le; lia).
    apply le_IZR.
    rewrite plus_IZR, !mult_IZR, !abs_IZR, !minus_IZR, !plus_IZR, !abs_IZR.
    replace (IZR (2 ^ 50)) with c by (unfold c; symmetry; apply (IZR_Zpower radix2); lia).
    rewrite RA, RX, RA'. change (IZR 1) with 1%R.
    set (Ra := R_of a) in *. set (Rx := R_of x) in *. set (Ra' := R_of (upd_avg a n x)) in *.
    replace (Rx * s - Ra' * s)%R with ((Rx - Ra') * s)%R by ring.
    replace (Rx * s - Ra * s)%R with ((Rx - Ra) * s)%R by ring.
    rewrite !Rabs_mult, (Rabs_pos_eq s) by lra.
    set (p := Rabs (Rx - Ra')) in *. set (q := Rabs (Rx - Ra)) in *.
    set (m := (Rabs Ra + Rabs Rx)%R) in *.
    set (N := IZR n) in *.
    apply (Rmult_le_compat_l (N * s * c)) in H; [|apply Rmult_le_pos; [apply Rmult_le_pos|]; lra].
    replace (N * s * c * ((1 - 1 / N) * q + 8 * uu * m + 2 * eta0))%R
      with ((N - 1) * q * s * c + N * s * m * (8 * uu * c) + N * c * (2 * eta0 * s))%R in H by (field; lra).
    rewrite C1, C2 in H. unfold m in H. lra.
Qed.


Lemma pvalue_value_of k r : pvalue k r = value_of k r.
Proof.
  unfold pvalue, value_of, get_value. destruct k, r as [|z|f]; try reflexivity. destruct (is_finite f); reflexivity.
Qed.

(* the model's own averages pass the observer's walk, inside the guard *)
Lemma walk_model k n : 1 <= n < 2 ^ 53 -> forall rs seen a,
  okv n a -> Forall (okv n) seen -> in_hull seen a -> Forall (okv n) (pvalues k rs) ->
  walkb k n seen a rs (avgs k n a rs) = true.
Proof.
  intros Hn. induction rs as [|r rest IH]; intros seen a Oa Os Hh Hv; [reflexivity|].
  cbn [walkb avgs pvalues] in *. cbv zeta.
  destruct (pvalue k r) as [x|] eqn:E.
  - rewrite pvalue_value_of in E. rewrite (poll_value k n a r x E).
    apply Forall_cons_iff in Hv. destruct Hv as [Ox Hrest].
    destruct (step_inv n a x seen ltac:(lia) Oa Ox Os Hh) as [Oa' Hh'].
    rewrite !andb_true_iff. repeat split.
    + apply fin_is_finite. exact (okv_fin n _ Oa').
    + apply in_hullb_spec. exact Hh'.
    + apply contractsb_model; auto.
    + apply IH; auto.
  - rewrite pvalue_value_of in E. rewrite (poll_novalue k n a r E).
    rewrite feqb_refl. cbn [andb]. apply IH; auto.
Qed.

Lemma model_run_avgs k n : forall rs a, map fst (model_run k n a rs) = avgs k n a rs.
Proof.
  induction rs as [|r rest IH]; intros a; [reflexivity|].
  cbn [model_run avgs map]. cbv zeta. unfold gv in *. f_equal. apply IH.
Qed.

Lemma model_run_errs k n : forall rs a, map snd (model_run k n a rs) = errs k rs.
Proof.
  induction rs as [|r rest IH]; intros a; [reflexivity|].
  cbn [model_run errs map]. cbv zeta. f_equal; [|apply IH].
  unfold gv, update_sensor_with. destruct (get_value k r); reflexivity.
Qed.

Lemma list_eqb_bool_eq l1 l2 : list_eqb Bool.eqb l1 l2 = true -> l1 = l2.
Proof. apply list_eqb_eq. intros a b. apply eqb_prop. Qed.

Lemma mismatch_false c : mismatch c = false ->
  o_ok c = true /\ o_init c = model_init c /\ o_avgs c = avgs (c_kind c) (c_n c) (model_init c) (c_reads c).
Proof.
  unfold mismatch. intros H. apply negb_false_iff in H. rewrite !andb_true_iff in H.
  destruct H as [[[H1 H2] H3] _]. apply feqb_eq in H2. apply (list_eqb_eq feqb feqb_eq) in H3.
  rewrite model_run_avgs in H3. auto.
Qed.

(* ---- well-formed cases: the window fits the contraction theorem (n < 2^53). Every generated case is
   well-formed (windows are 1..50, the hostile stream uses at most 2^40). ---- *)
Definition case_wf (c : case) : Prop := c_n c < 2 ^ 53.
Definition case_wfb (c : case) : bool := c_n c <? 2 ^ 53.
Lemma case_wfb_wf c : case_wfb c = true -> case_wf c.
Proof. apply Z.ltb_lt. Qed.

(* inside the guard, a case whose observations are the model's passes the observer *)
Lemma guarded_agreeing_holds c : case_wf c -> mismatch c = false -> outside_guard c = false -> holdsb c = true.
Proof.
  intros Hwf Hm Hg. destruct (mismatch_false c Hm) as [Hok [Hi Ha]].
  unfold holdsb. destruct (c_n c <? 1) eqn:E1; [reflexivity|]. apply Z.ltb_ge in E1.
  unfold outside_guard in Hg. apply negb_false_iff in Hg. cbn [forallb] in Hg.
  apply andb_true_iff in Hg. destruct Hg as [Gi Gr]. rewrite forallb_app in Gr.
  apply andb_true_iff in Gr. destruct Gr as [Gv _].
  apply in_guardb_okv in Gi.
  assert (Ov : Forall (okv (c_n c)) (pvalues (c_kind c) (c_reads c))).
  { apply Forall_forall. intros v Hv. apply in_guardb_okv. rewrite forallb_forall in Gv. auto. }
  rewrite Hok. cbn [andb]. apply andb_true_iff. split.
  - apply fin_is_finite. exact (okv_fin _ _ Gi).
  - rewrite Ha, <- Hi. apply walk_model; [unfold case_wf in Hwf; lia|exact Gi|constructor; [exact Gi|constructor]| |exact Ov].
    pose proof (okv_fin _ _ Gi) as F. split; exists (o_init c); (split; [now left|]); apply fle_R; auto; apply Rle_refl.
Qed.

(* NO FALSE ALARM: where the implementation's averages equal the model's, the observer can only fail on
   the recorded finding D20 (some value outside the magnitude guard). *)
Theorem no_false_alarm c : case_wf c -> mismatch c = false -> holdsb c = true \/ finding_code c <> 0.
Proof.
  intros Hwf Hm. destruct (holdsb c) eqn:H; [now left|right].
  unfold finding_code. rewrite H, Hm. destruct (outside_guard c) eqn:G; [discriminate|].
  rewrite (guarded_agreeing_holds c Hwf Hm G) in H. discriminate.
Qed.

(* the finding code is given only to failing cases that the model reproduces and that leave the guard *)
Theorem finding_sound c : finding_code c <> 0 ->
  finding_code c = 1 /\ holdsb c = false /\ mismatch c = false /\ outside_guard c = true.
Proof.
  unfold finding_code. destruct (holdsb c), (mismatch c), (outside_guard c); intros H; try (now elim H); auto.
Qed.

(* the model's own observation of a case *)
Definition with_model_obs (c : case) : case :=
  mkCase (c_kind c) (c_n c) (c_init c) (c_reads c) true (model_init c)
         (avgs (c_kind c) (c_n c) (model_init c) (c_reads c)) (errs (c_kind c) (c_reads c)).

Lemma list_eqb_refl {A} (eqb : A -> A -> bool) : (forall a, eqb a a = true) -> forall l, list_eqb eqb l l = true.
Proof. intros H. induction l; cbn; auto. rewrite H, IHl. reflexivity. Qed.

Lemma model_obs_agrees c : mismatch (with_model_obs c) = false.
Proof.
  unfold mismatch, with_model_obs, model_init. cbn [c_kind c_n c_init c_reads o_ok o_init o_avgs o_errs].
  rewrite model_run_avgs, model_run_errs, feqb_refl.
  rewrite (list_eqb_refl feqb feqb_refl), (list_eqb_refl Bool.eqb eqb_reflx). reflexivity.
Qed.

Theorem model_passes c : case_wf c -> outside_guard (with_model_obs c) = false -> holdsb (with_model_obs c) = true.
Proof.
  intros Hwf Hg. apply guarded_agreeing_holds; auto. apply model_obs_agrees.
Qed.

(* monitor-loop cases: the error flags are the model's by construction, so agreement is decided by
   the absence of a panic, the seeded value and the per-poll averages alone *)
Theorem mon_mismatch k n i rs ok oi oa :
  mismatch (mkMonCase k n i rs ok oi oa) =
  negb (ok && feqb (model_init (mkMonCase k n i rs ok oi oa)) oi
        && list_eqb feqb (avgs k n (model_init (mkMonCase k n i rs ok oi oa)) rs) oa).
Proof.
  unfold mismatch, mkMonCase. cbn [c_kind c_n c_init c_reads o_ok o_init o_avgs o_errs].
  rewrite model_run_avgs, model_run_errs, (list_eqb_refl Bool.eqb eqb_reflx), andb_true_r. reflexivity.
Qed.
