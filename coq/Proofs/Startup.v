(* Lemmas behind Props/C15.v: the start-up decision logic of Model/Startup.v
   never analyses a fan whose characterisation is stored, uses a configured PWM
   map as is, skips the RPM measurement for fully configured hwmon fans, and
   stays that way over every command history. *)
From Coq Require Import ZArith Bool List Lia.
From F2G Require Import Go.GoFloat gen.Consts Model.Util Model.Fan Model.Startup.
Import ListNotations.
Open Scope Z_scope.

Lemma in_locked x par a : In x (locked par a) -> x = Lock \/ x = Unlock \/ In x a.
Proof.
  unfold locked. destruct par; [auto|]. cbn. intros [<-|H]; [auto|].
  apply in_app_or in H. destruct H as [H|[<-|[]]]; auto.
Qed.

Ltac inl H :=
  repeat match type of H with
  | In _ (_ ++ _) => apply in_app_or in H; destruct H as [H|H]
  | In _ (locked _ _) => apply in_locked in H; destruct H as [H|[H|H]]; try discriminate H
  | In _ (_ :: _) => destruct H as [H|H]; try discriminate H
  | In _ [] => destruct H
  end.

(* the in-memory map and the actions of computePwmMap, case by case *)
Lemma compute_map_cfg f c mem st m :
  f_map f = Some m -> compute_map f c mem st = ([UseConfigMap], Some m, st).
Proof. unfold compute_map. now intros ->. Qed.

Lemma compute_map_stored f c mem sm :
  f_map f = None -> compute_map f c mem (Some sm) = ([LoadedMap], Some sm, Some sm).
Proof. unfold compute_map. now intros ->. Qed.

Lemma compute_map_no_measure f c mem st :
  ~ In MeasureRpm (fst (fst (compute_map f c mem st))).
Proof.
  unfold compute_map. destruct (f_map f); [cbn; intuition discriminate|].
  destruct st; [cbn; intuition discriminate|]. destruct mem; [cbn; intuition discriminate|].
  destruct (cap_pwm c); cbn; intuition discriminate.
Qed.

Lemma compute_map_sweep_only_if f c mem st :
  In Sweep (fst (fst (compute_map f c mem st))) -> f_map f = None /\ st = None /\ mem = None.
Proof.
  unfold compute_map. destruct (f_map f); [cbn; intuition discriminate|].
  destruct st; [cbn; intuition discriminate|]. destruct mem; [cbn; intuition discriminate|]. auto.
Qed.

(* ---- C15_reuse ---- *)
Lemma start_reuse f c e :
  e_data e = true -> e_map e <> None -> analysis_free (start_actions f c e).
Proof.
  intros Hd Hm. unfold start_actions, startup, start. rewrite Hd. cbn [negb e_data].
  rewrite Hd. cbn [negb].
  destruct (compute_map f c None (e_map e)) as [[a1 mem1] st1] eqn:E. cbn [fst].
  split; intros H; inl H.
  - pose proof (compute_map_sweep_only_if f c None (e_map e)) as S. rewrite E in S. cbn in S.
    destruct (S H) as [_ [S2 _]]. contradiction.
  - pose proof (compute_map_no_measure f c None (e_map e)) as S. rewrite E in S. cbn in S. auto.
Qed.

(* ---- C15_cfg_map ---- *)
Lemma init_seq_cfg f c e m :
  f_map f = Some m ->
  ~ In Sweep (fst (fst (fst (init_seq f c None e)))) /\ snd (fst (init_seq f c None e)) = Some m.
Proof.
  intros Hm. unfold init_seq. rewrite (compute_map_cfg f c None (e_map e) m Hm).
  destruct (cap_rpm c); cbn [negb].
  - destruct (measured c (odflt_map (Some m))).
    + destruct (f_kind f); cbn [fst snd]; (split; [intros H; inl H|reflexivity]).
    + cbn [fst snd]. split; [intros H; inl H|reflexivity].
  - cbn [fst snd]. split; [intros H; inl H|reflexivity].
Qed.

Lemma start_cfg_map f c e m :
  f_map f = Some m -> ~ In Sweep (start_actions f c e) /\ start_map f c e = Some m.
Proof.
  intros Hm. unfold start_actions, start_map, startup, start.
  destruct (e_data e) eqn:Hd.
  - cbn [negb e_data]. rewrite Hd. cbn [negb]. rewrite (compute_map_cfg f c None (e_map e) m Hm).
    cbn [fst snd]. split; [intros H; inl H|reflexivity].
  - destruct (needs_init f).
    + pose proof (init_seq_cfg f c e m Hm) as [S1 S2].
      destruct (init_seq f c None e) as [[[a0 ok0] mem0] e0]. cbn [fst snd] in S1, S2. subst mem0.
      destruct ok0; cbn [negb].
      * destruct (e_data e0); cbn [negb].
        -- rewrite (compute_map_cfg f c (Some m) (e_map e0) m Hm). cbn [fst snd].
           split; [intros H; inl H; auto|reflexivity].
        -- cbn [fst snd]. split; [intros H; inl H; auto|reflexivity].
      * cbn [fst snd]. split; [intros H; inl H; auto|reflexivity].
    + cbn [negb e_data e_map]. rewrite (compute_map_cfg f c None (e_map e) m Hm). cbn [fst snd].
      split; [intros H; inl H|reflexivity].
Qed.

(* ---- C15_minmax ---- *)
Lemma start_minmax f c e lo hi :
  f_kind f = HwMon -> f_min f = Some lo -> f_max f = Some hi ->
  ~ In MeasureRpm (start_actions f c e).
Proof.
  intros Hk Hlo Hhi. unfold start_actions, startup, start, needs_init. rewrite Hk, Hlo, Hhi. cbn [is_some andb negb].
  destruct (e_data e) eqn:Hd.
  - cbn [negb e_data]. rewrite Hd. cbn [negb].
    pose proof (compute_map_no_measure f c None (e_map e)) as S.
    destruct (compute_map f c None (e_map e)) as [[a1 mem1] st1]. cbn [fst] in *.
    intros H; inl H. auto.
  - cbn [negb e_data e_map].
    pose proof (compute_map_no_measure f c None (e_map e)) as S.
    destruct (compute_map f c None (e_map e)) as [[a1 mem1] st1]. cbn [fst] in *.
    intros H; inl H. auto.
Qed.

(* ---- C15_history ---- *)
(* nothing left to analyse for fan [id]: RPM data stored, and a map configured or stored *)
Definition settled (fl : fleet) (d : db) (id : Z) : Prop :=
  exists f c, fl id = Some (f, c) /\ e_data (d id) = true /\ (f_map f <> None \/ e_map (d id) <> None).

Lemma start_settled_noop f c e :
  e_data e = true -> (f_map f <> None \/ e_map e <> None) ->
  analysis_free (start_actions f c e) /\ e_data (snd (startup f c e)) = true
  /\ e_map (snd (startup f c e)) = e_map e.
Proof.
  intros Hd Hm. unfold start_actions, startup, start. rewrite Hd. cbn [negb e_data]. rewrite Hd. cbn [negb].
  destruct (f_map f) as [m|] eqn:Fm.
  - rewrite (compute_map_cfg f c None (e_map e) m Fm). cbn [fst snd e_data e_map].
    repeat split; try (intros H; inl H).
  - destruct Hm as [Hm|Hm]; [congruence|]. destruct (e_map e) as [sm|] eqn:Em; [|congruence].
    rewrite (compute_map_stored f c None sm Fm). cbn [fst snd e_data e_map].
    repeat split; try (intros H; inl H).
Qed.

Lemma compute_map_leaves_map f c mem st :
  f_map f <> None \/ snd (compute_map f c mem st) <> None.
Proof.
  unfold compute_map. destruct (f_map f); [left; discriminate|right].
  destruct st; [cbn; discriminate|]. destruct mem; [cbn; discriminate|].
  destruct (cap_pwm c); cbn; discriminate.
Qed.

Lemma start_completed_settles f c e :
  completed (start_actions f c e) ->
  e_data (snd (startup f c e)) = true /\ (f_map f <> None \/ e_map (snd (startup f c e)) <> None).
Proof.
  unfold completed, start_actions, startup, start.
  destruct (if e_data e then ([LoadedData], true, None, e)
            else if needs_init f then init_seq f c None e
            else ([SavedData], true, None, mkEntry true (e_map e))) as [[[a0 ok0] mem0] e0] eqn:E0.
  assert (N0 : ~ In Regulate a0).
  { destruct (e_data e); [inversion E0; subst; cbn; intuition discriminate|].
    destruct (needs_init f); [|inversion E0; subst; cbn; intuition discriminate].
    unfold init_seq in E0.
    assert (NR : forall mem st, ~ In Regulate (fst (fst (compute_map f c mem st)))).
    { intros mem st. unfold compute_map. destruct (f_map f); [cbn; intuition discriminate|].
      destruct st; [cbn; intuition discriminate|]. destruct mem; [cbn; intuition discriminate|].
      destruct (cap_pwm c); cbn; intuition discriminate. }
    specialize (NR None (e_map e)).
    destruct (compute_map f c None (e_map e)) as [[a1 mem1] st1]. cbn [fst] in NR.
    destruct (cap_rpm c); cbn [negb] in E0.
    - destruct (measured c (odflt_map mem1)).
      + destruct (f_kind f); inversion E0; subst; intros H; inl H; auto.
      + inversion E0; subst; intros H; inl H; auto.
    - inversion E0; subst; intros H; inl H; auto. }
  destruct ok0; cbn [negb].
  - destruct (e_data e0); cbn [negb].
    + pose proof (compute_map_leaves_map f c mem0 (e_map e0)) as L.
      destruct (compute_map f c mem0 (e_map e0)) as [[a1 mem1] st1]. cbn [fst snd e_data e_map] in *.
      intros _. split; [reflexivity|exact L].
    + cbn [fst]. intros H; inl H. contradiction.
  - cbn [fst]. intros H; inl H. contradiction.
Qed.

Lemma settled_after_completed_start fl d id :
  completed (acts fl d (Start id)) -> settled fl (step fl d (Start id)) id.
Proof.
  unfold acts, step, settled. destruct (fl id) as [[f c]|] eqn:F; [|intros []].
  intros H. apply start_completed_settles in H. destruct H as [H1 H2].
  exists f, c. unfold upd. rewrite Z.eqb_refl. auto.
Qed.

Lemma settled_preserved fl d id c :
  c <> Reset id -> c <> Init id -> settled fl d id -> settled fl (step fl d c) id.
Proof.
  intros NR NI [f [cp [F [Hd Hm]]]]. unfold settled.
  destruct c as [j|j|j|j]; cbn [step].
  - destruct (Z.eqb_spec j id) as [->|Ne].
    + rewrite F. exists f, cp. unfold upd. rewrite Z.eqb_refl.
      destruct (start_settled_noop f cp (d id) Hd Hm) as [_ [S1 S2]]. rewrite S1, S2. auto.
    + destruct (fl j) as [[f' c']|]; [|exists f, cp; auto].
      exists f, cp. unfold upd. destruct (Z.eqb_spec id j); [congruence|]. auto.
  - exists f, cp. auto.
  - assert (j <> id) by congruence. exists f, cp. unfold upd. destruct (Z.eqb_spec id j); [congruence|]. auto.
  - assert (j <> id) by congruence. destruct (fl j) as [[f' c']|]; [|exists f, cp; auto].
    exists f, cp. unfold upd. destruct (Z.eqb_spec id j); [congruence|]. auto.
Qed.

Lemma settled_preserved_list fl id cs : forall d,
  (forall c, In c cs -> c <> Reset id /\ c <> Init id) ->
  settled fl d id -> settled fl (exec fl d cs) id.
Proof.
  induction cs as [|c r IH]; intros d H S; [exact S|].
  cbn. apply IH; [intros c' Hc'; apply H; now right|].
  destruct (H c (or_introl eq_refl)). now apply settled_preserved.
Qed.

Lemma settled_no_analysis fl d id :
  settled fl d id -> analysis_free (acts fl d (Start id)).
Proof.
  intros [f [cp [F [Hd Hm]]]]. unfold acts. rewrite F.
  now destruct (start_settled_noop f cp (d id) Hd Hm).
Qed.

Lemma history_no_reanalysis : forall fl d0 pre mid id,
  completed (acts fl (exec fl d0 pre) (Start id)) ->
  (forall c, In c mid -> c <> Reset id /\ c <> Init id) ->
  analysis_free (acts fl (exec fl (exec fl d0 pre) (Start id :: mid)) (Start id)).
Proof.
  intros fl d0 pre mid id C H. apply settled_no_analysis. cbn [exec fold_left].
  apply settled_preserved_list; [exact H|]. now apply settled_after_completed_start.
Qed.

(* ---- after a successful `fan init` (and after a completed start) nothing is left to analyse ---- *)
(* a map is configured or stored, and the RPM curve is stored or cannot be measured at all *)
Definition calm (fl : fleet) (d : db) (id : Z) : Prop :=
  exists f c, fl id = Some (f, c) /\ (f_map f <> None \/ e_map (d id) <> None)
              /\ (e_data (d id) = true \/ cap_rpm c = false).

Lemma settled_calm fl d id : settled fl d id -> calm fl d id.
Proof. intros [f [c [F [Hd Hm]]]]. exists f, c. auto. Qed.

Lemma start_calm_noop f c e :
  (f_map f <> None \/ e_map e <> None) -> (e_data e = true \/ cap_rpm c = false) ->
  analysis_free (start_actions f c e)
  /\ (f_map f <> None \/ e_map (snd (startup f c e)) <> None)
  /\ (e_data (snd (startup f c e)) = true \/ cap_rpm c = false).
Proof.
  intros Hm Hd. destruct (e_data e) eqn:Ed.
  - destruct (start_settled_noop f c e Ed Hm) as [A [S1 S2]]. rewrite S1, S2. auto.
  - destruct Hd as [Hd|Hr]; [discriminate|].
    unfold start_actions, startup, start, init_seq. rewrite Ed, Hr. cbn [negb].
    destruct (f_map f) as [m|] eqn:Fm.
    + rewrite !(compute_map_cfg f c _ _ m Fm).
      destruct (needs_init f); cbn [negb fst snd e_data e_map].
      * repeat split; try (intros H; inl H); auto; try (left; discriminate).
      * rewrite !(compute_map_cfg f c _ _ m Fm). cbn [fst snd e_data e_map].
        repeat split; try (intros H; inl H); auto; try (left; discriminate).
    + destruct Hm as [Hm|Hm]; [congruence|]. destruct (e_map e) as [sm|] eqn:Em; [|congruence].
      rewrite !(compute_map_stored f c _ sm Fm).
      destruct (needs_init f); cbn [negb fst snd e_data e_map].
      * repeat split; try (intros H; inl H); auto; try (right; discriminate).
      * rewrite !(compute_map_stored f c _ sm Fm). cbn [fst snd e_data e_map].
        repeat split; try (intros H; inl H); auto; try (right; discriminate).
Qed.

Lemma calm_after_ok_init fl d id :
  fl id <> None -> ~ In Err (acts fl d (Init id)) -> calm fl (step fl d (Init id)) id.
Proof.
  unfold acts, step, calm. destruct (fl id) as [[f c]|] eqn:F; [|congruence]. intros _ NE.
  exists f, c. split; [reflexivity|]. unfold upd. rewrite Z.eqb_refl.
  unfold init_cmd, init_seq in *.
  assert (L : forall st, snd (fst (compute_map f c None st)) <> None).
  { intros st. unfold compute_map. destruct (f_map f); [cbn; discriminate|].
    destruct st; [cbn; discriminate|]. destruct (cap_pwm c); cbn; discriminate. }
  specialize (L (e_map empty_entry)).
  destruct (compute_map f c None (e_map empty_entry)) as [[a1 mem1] st1]. cbn [fst snd] in L.
  destruct (cap_rpm c) eqn:R; cbn [negb] in *.
  - destruct (measured c (odflt_map mem1)).
    + destruct (f_kind f); cbn [fst snd e_data e_map] in *; auto.
      exfalso. apply NE. apply in_or_app. right. now left.
    + cbn [fst snd e_data e_map]. auto.
  - cbn [fst snd e_data e_map]. auto.
Qed.

Lemma calm_preserved fl d id c :
  c <> Reset id -> c <> Init id -> calm fl d id -> calm fl (step fl d c) id.
Proof.
  intros NR NI [f [cp [F [Hm Hd]]]]. unfold calm.
  destruct c as [j|j|j|j]; cbn [step].
  - destruct (Z.eqb_spec j id) as [->|Ne].
    + rewrite F. exists f, cp. unfold upd. rewrite Z.eqb_refl.
      destruct (start_calm_noop f cp (d id) Hm Hd) as [_ [S1 S2]]. auto.
    + destruct (fl j) as [[f' c']|]; [|exists f, cp; auto].
      exists f, cp. unfold upd. destruct (Z.eqb_spec id j); [congruence|]. auto.
  - exists f, cp. auto.
  - assert (j <> id) by congruence. exists f, cp. unfold upd. destruct (Z.eqb_spec id j); [congruence|]. auto.
  - assert (j <> id) by congruence. destruct (fl j) as [[f' c']|]; [|exists f, cp; auto].
    exists f, cp. unfold upd. destruct (Z.eqb_spec id j); [congruence|]. auto.
Qed.

Lemma calm_preserved_list fl id cs : forall d,
  (forall c, In c cs -> c <> Reset id /\ c <> Init id) ->
  calm fl d id -> calm fl (exec fl d cs) id.
Proof.
  induction cs as [|c r IH]; intros d H S; [exact S|].
  cbn. apply IH; [intros c' Hc'; apply H; now right|].
  destruct (H c (or_introl eq_refl)). now apply calm_preserved.
Qed.

Lemma calm_no_analysis fl d id : calm fl d id -> analysis_free (acts fl d (Start id)).
Proof.
  intros [f [cp [F [Hm Hd]]]]. unfold acts. rewrite F.
  now destruct (start_calm_noop f cp (d id) Hm Hd).
Qed.

(* a start that follows a successful `fan init` of the same fan performs no analysis:
   what `fan init` measured was stored and is reused *)
Lemma init_then_start_no_reanalysis : forall fl d0 pre mid id,
  ~ In Err (acts fl (exec fl d0 pre) (Init id)) ->
  (forall c, In c mid -> c <> Reset id /\ c <> Init id) ->
  analysis_free (acts fl (exec fl (exec fl d0 pre) (Init id :: mid)) (Start id)).
Proof.
  intros fl d0 pre mid id NE H. destruct (fl id) as [x|] eqn:F.
  - apply calm_no_analysis. cbn [exec fold_left]. apply calm_preserved_list; [exact H|].
    apply calm_after_ok_init; [congruence|exact NE].
  - unfold acts. rewrite F. split; intros [].
Qed.

(* `fan reset` and `fan init` really discard: the next start of a fan without configured
   map that can read its PWM sweeps again (so the history theorem is not vacuous) *)
Lemma reset_discards fl d id : step fl d (Reset id) id = empty_entry.
Proof. cbn. unfold upd. now rewrite Z.eqb_refl. Qed.

(* other fans' entries are never touched *)
Lemma step_isolated fl d c id :
  (c <> Start id /\ c <> Stop id /\ c <> Reset id /\ c <> Init id) -> step fl d c id = d id.
Proof.
  intros [H1 [H2 [H3 H4]]]. destruct c as [j|j|j|j]; cbn [step]; try reflexivity.
  - destruct (fl j) as [[f c]|]; [|reflexivity]. unfold upd. destruct (Z.eqb_spec id j); [congruence|reflexivity].
  - unfold upd. destruct (Z.eqb_spec id j); [congruence|reflexivity].
  - destruct (fl j) as [[f c]|]; [|reflexivity]. unfold upd. destruct (Z.eqb_spec id j); [congruence|reflexivity].
Qed.
