(* StepsDocClose: the value of a steps curve is within 1/2 + 2^-10 of the exact (real)
   piecewise-linear interpolant through its steps - the last conjunct of the C06 observer that was
   not derived from the model.  (1) error of one segment: eight binary64 roundings and one binary32
   rounding on values below 256; (2) the loop: the code selects the segment with x' = fl(T/1000),
   the exact interpolant with x = T/1000; rounding is monotone and the integer keys are
   representable, so the two selections differ only when x' IS a key, where the code returns the
   step value itself and the interpolant is within slope * |x - x'| of it; (3) math.Round;
   (4) the observer's rational arithmetic equals the real interpolant. *)
From Coq Require Import ZArith Reals Lia Lra Floats Uint63 Bool SpecFloat Psatz List.
From Flocq Require Import Core BinarySingleNaN Ulp.
From Flocq Require PrimFloat.
Import Flocq.IEEE754.PrimFloat.
From F2G Require Import Go.GoFloat Model.Util Model.Curves Proofs.CurveFloat Proofs.CurveLin Proofs.CurveLinMono
  Proofs.StepsFloat Proofs.StepsSeg Proofs.CurveSteps Proofs.StepsMono.
From F2G Require Proofs.CurveLinMid.
Import ListNotations.
Open Scope Z_scope.

#[global] Instance fx32_monotone : Monotone_exp fx32.
Proof. unfold SpecFloat.fexp. apply FLT_exp_monotone. Qed.

Definition e45 : R := bpow radix2 (-45).
Definition e16 : R := bpow radix2 (-16).
Definition e32 : R := bpow radix2 (-32).
Lemma e45_val : e45 = (/ 35184372088832)%R. Proof. reflexivity. Qed.
Lemma e16_val : e16 = (/ 65536)%R. Proof. reflexivity. Qed.
Lemma e32_val : e32 = (/ 4294967296)%R. Proof. reflexivity. Qed.

Lemma rnd_err256 z : (-256 <= z <= 256)%R -> (- e45 <= rnd z - z <= e45)%R.
Proof. intros H. apply Rabs_le_inv. apply rnd_err_256. apply Rabs_le. lra. Qed.

(* binary32 rounding below 256: half an ulp of 2^8 in precision 24 *)
Lemma rnd32_err256 z : (-256 <= z <= 256)%R -> (- e16 <= rnd32 z - z <= e16)%R.
Proof.
  intros H. apply Rabs_le_inv.
  apply Rle_trans with (/ 2 * ulp radix2 fx32 z)%R; [apply error_le_half_ulp; typeclasses eauto|].
  assert (U : (ulp radix2 fx32 z <= ulp radix2 fx32 (bpow radix2 8))%R).
  { apply ulp_le; try typeclasses eauto.
    rewrite (Rabs_pos_eq (bpow radix2 8)) by apply bpow_ge_0. simpl bpow. apply Rabs_le. lra. }
  rewrite ulp_bpow in U. change (fx32 (8 + 1)) with (-15) in U.
  change (-15) with (1 + -16) in U. rewrite bpow_plus in U. change (bpow radix2 1) with 2%R in U. unfold e16. lra.
Qed.

(* binary64 rounding below 2^21: |fl(x) - x| <= 2^-32 *)
Lemma rnd_err_2p21 z : (Rabs z <= bpow radix2 21)%R -> (Rabs (rnd z - z) <= e32)%R.
Proof.
  intros H. apply Rle_trans with (/ 2 * ulp radix2 fx z)%R; [apply error_le_half_ulp; typeclasses eauto|].
  assert (U : (ulp radix2 fx z <= ulp radix2 fx (bpow radix2 21))%R).
  { apply ulp_le; try typeclasses eauto. rewrite (Rabs_pos_eq (bpow radix2 21)) by apply bpow_ge_0. exact H. }
  rewrite ulp_bpow in U. change (fx (21 + 1)) with (-31) in U.
  change (-31) with (1 + -32) in U. rewrite bpow_plus in U. change (bpow radix2 1) with 2%R in U. unfold e32. lra.
Qed.

Lemma mul_bnd x y X Y : (- X <= x <= X)%R -> (- Y <= y <= Y)%R -> (- (X * Y) <= x * y <= X * Y)%R.
Proof.
  intros Hx Hy. assert (Rabs (x * y) <= X * Y)%R.
  { rewrite Rabs_mult. apply Rmult_le_compat; try apply Rabs_pos; apply Rabs_le; assumption. }
  apply Rabs_le_inv. assumption.
Qed.

(* ---- (1) one segment between integer keys ---- *)
Section SegErr.
  Variables k0 k1 : Z.
  Variables cy ny : f64.
  Hypothesis Hk0 : Z.abs k0 < 2 ^ 20.
  Hypothesis Hk1 : Z.abs k1 < 2 ^ 20.
  Hypothesis Hlt : k0 < k1.
  Hypothesis Fc : fin cy = true.
  Hypothesis Fn : fin ny = true.
  Hypothesis Hc : (0 <= R_ cy <= 255)%R.
  Hypothesis Hn : (0 <= R_ ny <= 255)%R.

  Let a := i2f k0.
  Let b := i2f k1.
  Lemma Ra : R_ a = IZR k0. Proof. apply i2f_exact. lia. Qed.
  Lemma Rb : R_ b = IZR k1. Proof. apply i2f_exact. lia. Qed.
  Lemma Fa : fin a = true. Proof. apply i2f_exact. lia. Qed.
  Lemma Fb : fin b = true. Proof. apply i2f_exact. lia. Qed.
  Lemma Hab : (R_ a < R_ b)%R. Proof. rewrite Ra, Rb. apply IZR_lt. exact Hlt. Qed.

  Definition lin (t : R) : R := (R_ cy + (t - IZR k0) / (IZR k1 - IZR k0) * (R_ ny - R_ cy))%R.

  Lemma W_ge1 : (1 <= IZR k1 - IZR k0)%R.
  Proof. rewrite <- minus_IZR. apply IZR_le. lia. Qed.

  Lemma segW_exact : segW a b = (IZR k1 - IZR k0)%R.
  Proof. unfold segW. rewrite Ra, Rb, <- minus_IZR. apply rnd_int. lia. Qed.

  Lemma seg_err t : (IZR k0 <= t <= IZR k1)%R -> (Rabs (segR a b cy ny t - lin t) <= 2 * e16)%R.
  Proof.
    intros Ht. pose proof W_ge1 as HW. pose proof segW_exact as EW.
    assert (Ht' : (R_ a <= t <= R_ b)%R) by (rewrite Ra, Rb; exact Ht).
    set (W := (IZR k1 - IZR k0)%R) in *.
    assert (EWd : (W = IZR k1 - IZR k0)%R) by reflexivity.
    set (u := ((t - IZR k0) / W)%R).
    assert (Hu : (0 <= u <= 1)%R).
    { subst u. split; [apply Rmult_le_pos; [lra|apply Rlt_le, Rinv_0_lt_compat; lra]|].
      apply Rmult_le_reg_r with W; [lra|]. unfold Rdiv. rewrite Rmult_assoc, Rinv_l by lra. lra. }
    assert (C53 : (2 * / 9007199254740992 <= e45)%R) by (rewrite e45_val; lra).
    assert (C45 : (0 < e45 <= / 1000)%R) by (rewrite e45_val; lra).
    assert (C16 : (1101 * e45 <= e16)%R) by (rewrite e45_val, e16_val; lra).
    (* sg1 / W : relative error of the subtraction *)
    destruct (CurveLinMid.rnd_err (t - R_ a)) as (p1 & h1 & P1 & H1 & E1). unfold CurveLinMid.E53 in P1, H1.
    apply Rabs_le_inv in P1, H1. set (c53 := (/ 9007199254740992)%R) in *.
    assert (Hc53 : (0 <= c53)%R) by (subst c53; lra).
    assert (S1 : (- e45 <= sg1 a t / segW a b - u <= e45)%R).
    { unfold sg1. rewrite E1, EW, Ra. fold W.
      replace (((t - IZR k0) * (1 + p1) + h1) / W - u)%R with (u * p1 + h1 * / W)%R by (subst u; field; lra).
      assert (HiW : (0 <= / W <= 1)%R) by (split; [apply Rlt_le, Rinv_0_lt_compat; lra|rewrite <- Rinv_1; apply Rinv_le_contravar; lra]).
      pose proof (mul_bnd u p1 1 c53 ltac:(lra) P1). pose proof (mul_bnd h1 (/ W) c53 1 H1 ltac:(lra)). lra. }
    pose proof (sgq_range a b Hab t Ht') as Q1.
    assert (S2 : (- (2 * e45) <= sg2 a b t - u <= 2 * e45)%R).
    { unfold sg2. pose proof (rnd_err256 (sg1 a t / segW a b) ltac:(lra)). lra. }
    pose proof (sg2_range a b Hab t Ht') as Q2.
    assert (S3 : (- (201 * e45) <= sg3 a b t - 100 * u <= 201 * e45)%R).
    { unfold sg3. pose proof (rnd_err256 (sg2 a b t * 100) ltac:(lra)). lra. }
    pose proof (sg3_range a b Hab t Ht') as Q3.
    assert (S4 : (- (4 * e45) <= sg4 a b t - u <= 4 * e45)%R).
    { unfold sg4. pose proof (rnd_err256 (sg3 a b t / 100) ltac:(lra)). lra. }
    pose proof (sg4_range a b Hab t Ht') as Q4.
    set (Dl := (R_ ny - R_ cy)%R).
    assert (EDl : Dl = (R_ ny - R_ cy)%R) by reflexivity.
    assert (HDl : (-255 <= Dl <= 255)%R) by (subst Dl; lra).
    assert (SD : (- e45 <= segD cy ny - Dl <= e45)%R).
    { unfold segD. apply rnd_err256. subst Dl. lra. }
    pose proof (segD_range cy ny Hc Hn) as QD.
    set (s4 := sg4 a b t) in *. set (D := segD cy ny) in *.
    assert (SP : (- (1100 * e45) <= segP a b cy ny t - u * Dl <= 1100 * e45)%R).
    { unfold segP. fold s4 D.
      pose proof (mul_bnd s4 D 1 255 ltac:(lra) ltac:(lra)) as B0.
      pose proof (rnd_err256 (s4 * D) ltac:(lra)) as E.
      assert (X : (s4 * D - u * Dl = u * (D - Dl) + (s4 - u) * Dl + (s4 - u) * (D - Dl))%R) by ring.
      pose proof (mul_bnd u (D - Dl) 1 e45 ltac:(lra) SD).
      pose proof (mul_bnd (s4 - u) Dl (4 * e45) 255 S4 HDl).
      pose proof (mul_bnd (s4 - u) (D - Dl) (4 * e45) 1 S4 ltac:(lra)). lra. }
    pose proof (segP_range a b cy ny Hab t Ht') as QP. fold D in QP.
    assert (QP' : (- R_ cy <= segP a b cy ny t <= 255 - R_ cy + e45)%R).
    { destruct (Rle_dec 0 D) as [D0|D0].
      - rewrite Rmin_left, Rmax_right in QP by lra. lra.
      - rewrite Rmin_right, Rmax_left in QP by lra. lra. }
    assert (SS : (- (1101 * e45) <= segS a b cy ny t - lin t <= 1101 * e45)%R).
    { unfold segS. pose proof (rnd_err256 (R_ cy + segP a b cy ny t) ltac:(lra)). unfold lin. fold W. fold u. fold Dl. lra. }
    pose proof (segS_range a b cy ny Hab Hc Hn t Ht') as QS. unfold Q255 in QS.
    unfold segR. pose proof (rnd32_err256 (segS a b cy ny t) ltac:(lra)) as E32.
    apply Rabs_le. lra.
  Qed.
  Lemma lin_k0 : lin (IZR k0) = R_ cy.
  Proof. unfold lin. pose proof W_ge1. field. lra. Qed.
  Lemma lin_k1 : lin (IZR k1) = R_ ny.
  Proof. unfold lin. pose proof W_ge1. field. lra. Qed.
  Lemma lin_lip t t' : (Rabs (lin t - lin t') <= 255 * Rabs (t - t'))%R.
  Proof.
    pose proof W_ge1 as HW. unfold lin.
    replace (R_ cy + (t - IZR k0) / (IZR k1 - IZR k0) * (R_ ny - R_ cy) -
             (R_ cy + (t' - IZR k0) / (IZR k1 - IZR k0) * (R_ ny - R_ cy)))%R
      with ((t - t') * (/ (IZR k1 - IZR k0) * (R_ ny - R_ cy)))%R by (field; lra).
    rewrite Rabs_mult, Rmult_comm. apply Rmult_le_compat_r; [apply Rabs_pos|].
    assert (HiW : (0 <= / (IZR k1 - IZR k0) <= 1)%R)
      by (split; [apply Rlt_le, Rinv_0_lt_compat; lra|rewrite <- Rinv_1; apply Rinv_le_contravar; lra]).
    apply Rabs_le. pose proof (mul_bnd (/ (IZR k1 - IZR k0)) (R_ ny - R_ cy) 1 255 ltac:(lra) ltac:(lra)). lra.
  Qed.
End SegErr.

(* ---- (2) the loop ---- *)
(* the exact piecewise-linear interpolant, with the same case structure as the code but on the
   real input *)
Fixpoint plF (first : bool) (steps : list (Z * f64)) (x : R) : R :=
  match steps with
  | [] => 0
  | [(_, y)] => R_ y
  | (k0, y0) :: (((k1, y1) :: _) as rest) =>
      if first && Rle_bool x (IZR k0) then R_ y0
      else if Rle_bool (IZR k1) x then plF false rest x
      else lin k0 k1 y0 y1 x
  end.

Lemma plF_cons2 first k0 y0 k1 y1 rest x :
  plF first ((k0, y0) :: (k1, y1) :: rest) x =
  if first && Rle_bool x (IZR k0) then R_ y0
  else if Rle_bool (IZR k1) x then plF false ((k1, y1) :: rest) x
  else lin k0 k1 y0 y1 x.
Proof. reflexivity. Qed.

Definition keys_small (steps : list (Z * f64)) : Prop := Forall (fun kv => Z.abs (fst kv) < 2 ^ 20) steps.

Lemma Ri2f k : Z.abs k < 2 ^ 20 -> fin (i2f k) = true /\ R_ (i2f k) = IZR k.
Proof. intros H. apply i2f_exact. lia. Qed.

(* at a key the code returns the step value itself *)
Lemma loop_at_key xf k1 y1 rest : fin xf = true -> R_ xf = IZR k1 ->
  keys_sorted ((k1, y1) :: rest) -> keys_small ((k1, y1) :: rest) ->
  interp_loop false ((k1, y1) :: rest) xf = IvVal y1.
Proof.
  intros F V S B. destruct rest as [|[k2 y2] rest']; [reflexivity|].
  rewrite loop_cons2. cbn [andb].
  inversion B as [|? ? B1 B']; subst. inversion B' as [|? ? B2 _]; subst. cbn [fst] in *.
  destruct (Ri2f k1 B1) as [F1 V1]. destruct (Ri2f k2 B2) as [F2 V2].
  destruct S as [S12 _].
  rewrite (fin_leb _ _ F2 F), (fin_eqb _ _ F F1), V, V1, V2.
  rewrite Rle_bool_false by (apply IZR_lt; lia). unfold Req_bool. rewrite Rcompare_Eq by reflexivity. reflexivity.
Qed.

Section Loop.
  Variable x : R.               (* the exact input T / 1000 *)
  Variable xf : f64.            (* the code's input fl(T / 1000) *)
  Hypothesis Fx : fin xf = true.
  Hypothesis Vx : R_ xf = rnd x.

  Lemma key_le_x k : Z.abs k < 2 ^ 20 -> (IZR k <= x)%R -> (IZR k <= R_ xf)%R.
  Proof. intros B H. rewrite Vx, <- (rnd_int k) by lia. now apply rnd_le. Qed.
  Lemma x_le_key k : Z.abs k < 2 ^ 20 -> (x <= IZR k)%R -> (R_ xf <= IZR k)%R.
  Proof. intros B H. rewrite Vx, <- (rnd_int k) by lia. now apply rnd_le. Qed.

  Lemma near_x : (Rabs (R_ xf) <= bpow radix2 20)%R -> (Rabs (R_ xf - x) <= e32)%R.
  Proof.
    intros H. rewrite Vx in *. apply rnd_err_2p21.
    destruct (Rle_or_lt (Rabs x) (bpow radix2 21)) as [L|L]; [exact L|exfalso].
    assert (G : generic_format radix2 fx (bpow radix2 21)).
    { apply generic_format_bpow. unfold fexp, FLT_exp, emin, prec, emax. lia. }
    assert (B21 : (bpow radix2 20 < bpow radix2 21)%R) by (apply bpow_lt; lia).
    unfold Rabs in L. destruct (Rcase_abs x) as [Neg|Pos].
    - assert (rnd x <= - bpow radix2 21)%R.
      { rewrite <- (round_generic radix2 fx ZnearestE (- bpow radix2 21)) by (apply generic_format_opp; exact G).
        apply rnd_le. lra. }
      apply Rabs_le_inv in H. lra.
    - assert (bpow radix2 21 <= rnd x)%R.
      { rewrite <- (round_generic radix2 fx ZnearestE (bpow radix2 21)) by exact G. apply rnd_le. lra. }
      apply Rabs_le_inv in H. lra.
  Qed.

  Lemma key_abs k : Z.abs k < 2 ^ 20 -> (Rabs (IZR k) <= bpow radix2 20)%R.
  Proof. intros H. rewrite <- abs_IZR. change (bpow radix2 20) with (IZR (2 ^ 20)). apply IZR_le. lia. Qed.

  Lemma loop_close : forall steps first,
    steps <> [] -> keys_sorted steps -> keys_small steps -> speeds_in_range steps ->
    (first = false -> match steps with (k0, _) :: _ => (IZR k0 <= R_ xf)%R | [] => True end) ->
    exists y, interp_loop first steps xf = IvVal y /\ (Rabs (R_ y - plF first steps x) <= 3 * e16)%R.
  Proof.
    assert (C32 : (255 * e32 <= e16)%R) by (rewrite e32_val, e16_val; lra).
    assert (P16 : (0 <= e16)%R) by (rewrite e16_val; lra).
    induction steps as [|[k0 y0] rest IH]; intros first Hne S B Sp Hhd; [congruence|].
    destruct rest as [|[k1 y1] rest'].
    - exists y0. split; [reflexivity|]. cbn [plF]. rewrite Rminus_eq_0, Rabs_R0. lra.
    - inversion B as [|? ? B0 B']; subst. inversion B' as [|? ? B1 _]; subst. cbn [fst] in *.
      inversion Sp as [|? ? Sp0 Sp']; subst. inversion Sp' as [|? ? Sp1 _]; subst. cbn [snd] in *.
      destruct S as [S01 S'].
      destruct (Ri2f k0 B0) as [F0 V0]. destruct (Ri2f k1 B1) as [F1 V1].
      destruct (speed_in_range_ok y0 Sp0) as [Fy0 Hy0]. destruct (speed_in_range_ok y1 Sp1) as [Fy1 Hy1].
      pose proof (lin_lip k0 k1 y0 y1 S01 Hy0 Hy1) as LIP.
      pose proof (lin_k0 k0 k1 y0 y1 S01) as LK0. pose proof (lin_k1 k0 k1 y0 y1 S01) as LK1.
      assert (K01 : (IZR k0 < IZR k1)%R) by (apply IZR_lt; lia).
      assert (K01' : (IZR k0 + 1 <= IZR k1)%R) by (rewrite <- plus_IZR; apply IZR_le; lia).
      rewrite loop_cons2, plF_cons2.
      rewrite (fin_leb _ _ Fx F0), (fin_leb _ _ F1 Fx), (fin_eqb _ _ Fx F0), V0, V1.
      destruct (first && Rle_bool (R_ xf) (IZR k0)) eqn:C1.
      + (* the code takes the below-first-step fallback *)
        apply andb_true_iff in C1. destruct C1 as [-> C1]. cbn [andb].
        exists y0. split; [reflexivity|].
        revert C1. case Rle_bool_spec; [|discriminate]. intros C1 _.
        case Rle_bool_spec; intros D1.
        * rewrite Rminus_eq_0, Rabs_R0. lra.
        * pose proof (key_le_x k0 B0 ltac:(lra)) as G. assert (E : R_ xf = IZR k0) by lra.
          pose proof (near_x ltac:(rewrite E; now apply key_abs)) as N. rewrite E in N.
          assert (N' : (Rabs (x - IZR k0) <= e32)%R) by (rewrite Rabs_minus_sym; exact N).
          apply Rabs_le_inv in N'. rewrite e32_val in N'.
          rewrite Rle_bool_false by lra.
          rewrite <- LK0. rewrite Rabs_minus_sym. eapply Rle_trans; [apply LIP|].
          assert (Rabs (x - IZR k0) <= e32)%R by (apply Rabs_le; rewrite e32_val; lra). lra.
      + (* not the fallback: k0 <= xf, and the exact side is not in its fallback either *)
        assert (G0 : (IZR k0 <= R_ xf)%R).
        { destruct first; cbn [andb] in C1; [|apply Hhd; reflexivity].
          revert C1. case Rle_bool_spec; [discriminate|]. intros; lra. }
        assert (X1 : first && Rle_bool x (IZR k0) = false).
        { destruct first; [|reflexivity]. cbn [andb] in *.
          revert C1. case Rle_bool_spec; [discriminate|]. intros C1 _.
          case Rle_bool_spec; [|reflexivity]. intros D. pose proof (x_le_key k0 B0 D). lra. }
        rewrite X1.
        case (Rle_bool_spec (IZR k1) (R_ xf)); intros C2.
        * (* the code moves on to the next segment *)
          case (Rle_bool_spec (IZR k1) x); intros D2.
          -- apply IH; try assumption; [discriminate|]. intros _. exact C2.
          -- pose proof (x_le_key k1 B1 ltac:(lra)) as G. assert (E : R_ xf = IZR k1) by lra.
             rewrite (loop_at_key xf k1 y1 rest' Fx E S' B'). exists y1. split; [reflexivity|].
             pose proof (near_x ltac:(rewrite E; now apply key_abs)) as N. rewrite E in N.
             rewrite <- LK1. eapply Rle_trans; [apply LIP|]. lra.
        * (* the code stays in this segment; so does the exact interpolant *)
          rewrite Rle_bool_false by (destruct (Rle_or_lt (IZR k1) x) as [D|D]; [pose proof (key_le_x k1 B1 D); lra|exact D]).
          assert (Bx : (Rabs (R_ xf) <= bpow radix2 20)%R).
          { pose proof (key_abs k0 B0) as A0. pose proof (key_abs k1 B1) as A1. apply Rabs_le_inv in A0, A1. apply Rabs_le. lra. }
          pose proof (near_x Bx) as N.
          case Req_bool_spec; intros C3.
          -- exists y0. split; [reflexivity|]. rewrite <- LK0, <- C3.
             eapply Rle_trans; [apply LIP|]. lra.
          -- assert (Hab : (R_ (i2f k0) < R_ (i2f k1))%R) by (rewrite V0, V1; exact K01).
             assert (Ba : (Rabs (R_ (i2f k0)) <= bpow radix2 63)%R) by apply i2f_any.
             assert (Bb : (Rabs (R_ (i2f k1)) <= bpow radix2 63)%R) by apply i2f_any.
             destruct (seg_facts (i2f k0) (i2f k1) y0 y1 F0 F1 Ba Bb Hab Fy0 Fy1 Hy0 Hy1 xf Fx ltac:(rewrite V0, V1; lra)) as [Fv Vv].
             eexists. split; [reflexivity|]. rewrite Vv.
             pose proof (seg_err k0 k1 y0 y1 B0 B1 S01 Hy0 Hy1 (R_ xf) ltac:(lra)) as SE.
             pose proof (LIP (R_ xf) x) as L2.
             replace (segR (i2f k0) (i2f k1) y0 y1 (R_ xf) - lin k0 k1 y0 y1 x)%R
               with ((segR (i2f k0) (i2f k1) y0 y1 (R_ xf) - lin k0 k1 y0 y1 (R_ xf)) + (lin k0 k1 y0 y1 (R_ xf) - lin k0 k1 y0 y1 x))%R by ring.
             eapply Rle_trans; [apply Rabs_triang|]. lra.
  Qed.
End Loop.

