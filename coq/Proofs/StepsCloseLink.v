(* StepsDocClose proved: the observer's exact-rational check of a steps curve
   (|v - exact interpolant| <= 1/2 + 2^-10, Drv/Curves.v near_roundb) follows from the model. *)
From Coq Require Import ZArith Reals Lia Lra Floats Bool List.
From Flocq Require Import Core BinarySingleNaN.
From Flocq Require PrimFloat.
Import Flocq.IEEE754.PrimFloat.
From F2G Require Import Go.GoFloat Model.Util Model.Curves Proofs.CurveFloat Proofs.CurveLin Proofs.CurveLinMono
  Proofs.StepsFloat Proofs.StepsSeg Proofs.CurveSteps Proofs.StepsMono Proofs.StepsClose
  Drv.Common Drv.Curves Proofs.CurveLinks.
Import ListNotations.
Open Scope Z_scope.

Lemma leb_q_ge xn xd k : 0 < xd -> (xn <=? k * xd) = Rle_bool (IZR xn / IZR xd) (IZR k).
Proof.
  intros H. destruct (xn <=? k * xd) eqn:E.
  - apply Z.leb_le in E. symmetry. apply Rle_bool_true. now apply (proj1 (q_ge k xn xd H)).
  - apply Z.leb_gt in E. symmetry. apply Rle_bool_false. now apply (proj1 (q_lt k xn xd H)).
Qed.
Lemma leb_q_le xn xd k : 0 < xd -> (k * xd <=? xn) = Rle_bool (IZR k) (IZR xn / IZR xd).
Proof.
  intros H. destruct (k * xd <=? xn) eqn:E.
  - apply Z.leb_le in E. symmetry. apply Rle_bool_true. now apply (proj1 (q_le k xn xd H)).
  - apply Z.leb_gt in E. symmetry. apply Rle_bool_false. now apply (proj1 (q_gt k xn xd H)).
Qed.

(* the observer's rational interpolant IS the real piecewise-linear interpolant *)
Lemma interp_q_plF xn xd : 0 < xd -> forall steps sq first rn rd,
  keys_sorted steps -> steps_q steps = Some sq -> interp_q first sq xn xd = Some (rn, rd) ->
  0 < rd /\ (IZR rn / IZR rd = plF first steps (IZR xn / IZR xd))%R.
Proof.
  intros Hxd. induction steps as [|[k0 y0] rest IH]; intros sq first rn rd S Q I.
  - cbn in Q. inversion Q; subst. discriminate.
  - cbn [steps_q] in Q. destruct (f2q y0) as [[y0n y0d]|] eqn:Q0; [|discriminate].
    destruct (steps_q rest) as [rq|] eqn:Qr; [|discriminate]. inversion Q; subst sq. clear Q.
    destruct (f2q_R y0 y0n y0d Q0) as (_ & D0 & V0).
    destruct rest as [|[k1 y1] rest'].
    + cbn in Qr. inversion Qr; subst rq. cbn in I. inversion I; subst. split; [exact D0|]. cbn [plF]. now rewrite V0.
    + cbn [steps_q] in Qr. destruct (f2q y1) as [[y1n y1d]|] eqn:Q1; [|discriminate].
      destruct (steps_q rest') as [rq'|] eqn:Qr'; [|discriminate]. inversion Qr; subst rq. clear Qr.
      destruct (f2q_R y1 y1n y1d Q1) as (_ & D1 & V1).
      destruct S as [S01 S'].
      change (interp_q first ((k0, (y0n, y0d)) :: (k1, (y1n, y1d)) :: rq') xn xd)
        with (if first && (xn <=? k0 * xd) then Some (y0n, y0d)
              else if k1 * xd <=? xn then interp_q false ((k1, (y1n, y1d)) :: rq') xn xd
              else let W := xd * (k1 - k0) in
                   Some (y0n * y1d * W + (xn - k0 * xd) * (y1n * y0d - y0n * y1d), y0d * y1d * W)) in I.
      rewrite plF_cons2. rewrite (leb_q_ge xn xd k0 Hxd), (leb_q_le xn xd k1 Hxd) in I.
      destruct (first && Rle_bool (IZR xn / IZR xd) (IZR k0)).
      * inversion I; subst. split; [exact D0|]. now rewrite V0.
      * destruct (Rle_bool (IZR k1) (IZR xn / IZR xd)).
        -- apply (IH ((k1, (y1n, y1d)) :: rq') false rn rd S'); [|exact I].
           reflexivity.
        -- cbv zeta in I. inversion I; subst. clear I.
           assert (HW : 0 < xd * (k1 - k0)) by (apply Z.mul_pos_pos; lia).
           split; [apply Z.mul_pos_pos; [apply Z.mul_pos_pos; lia|exact HW]|].
           unfold lin. rewrite V0, V1.
           repeat (rewrite ?mult_IZR, ?plus_IZR, ?minus_IZR).
           assert (IZR xd <> 0)%R by (apply not_0_IZR; lia). assert (IZR y0d <> 0)%R by (apply not_0_IZR; lia).
           assert (IZR y1d <> 0)%R by (apply not_0_IZR; lia).
           assert (IZR k1 - IZR k0 <> 0)%R by (rewrite <- minus_IZR; apply not_0_IZR; lia).
           field. repeat split; assumption.
Qed.

Lemma keys_sortedb_spec : forall steps, keys_sortedb steps = true -> keys_sorted steps.
Proof.
  induction steps as [|[k y] r IH]; [intros _; exact I|]. destruct r as [|[k' y'] r'].
  - intros _. exact I.
  - intros H. change (keys_sortedb ((k, y) :: (k', y') :: r')) with ((k <? k') && keys_sortedb ((k', y') :: r')) in H.
    apply andb_true_iff in H. destruct H as [H1 H2]. apply Z.ltb_lt in H1.
    change (keys_sorted ((k, y) :: (k', y') :: r')) with (k < k' /\ keys_sorted ((k', y') :: r')).
    split; [exact H1|apply IH; exact H2].
Qed.

Theorem steps_doc_close : StepsDocClose.
Proof.
  intros c steps T v n d sq rn rd W S E Q SQ IQ.
  destruct (wf_linb_steps c steps W S) as [Ne Sp].
  assert (KS : keys_sorted steps /\ keys_small steps).
  { unfold wf_linb in W. rewrite S in W. apply andb_true_iff in W. destruct W as [W W3].
    apply andb_true_iff in W. destruct W as [_ W2]. split; [now apply keys_sortedb_spec|].
    unfold keys_small. apply Forall_forall. intros kv Hin. rewrite forallb_forall in W2. specialize (W2 kv Hin).
    apply andb_true_iff in W2. destruct W2 as [W2 Wb]. apply andb_true_iff in W2. destruct W2 as [_ Wa].
    apply Z.ltb_lt in Wa, Wb. unfold kbig in *. lia. }
  destruct KS as [Ks Kb].
  destruct (f2q_R T n d Q) as (FT & Hd & RT).
  destruct (div1000_fin T FT) as [Fx Vx].
  set (xf := PrimFloat.div T 1000) in *. set (x := (R_ T / 1000)%R) in *.
  destruct (loop_close x xf Fx Vx steps true Ne Ks Kb Sp ltac:(discriminate)) as (y & Ey & Cy).
  destruct (loop_bound_range steps true xf Ne Sp (fin_is_nan xf Fx) ltac:(intros ?; discriminate)) as (y' & Ey' & Fy & Gy).
  rewrite Ey in Ey'. inversion Ey'; subst y'. clear Ey'.
  unfold eval_lin, interpolate in E. rewrite S in E. fold xf in E. rewrite Ey in E.
  destruct (final_value y Fy Gy) as [Ev _]. rewrite Ev in E. inversion E; subst v. clear E.
  assert (Hd' : 0 < d * 1000) by lia.
  destruct (interp_q_plF n (d * 1000) Hd' steps sq true rn rd Ks SQ IQ) as [Hrd Er].
  assert (Xe : (IZR n / IZR (d * 1000) = x)%R).
  { subst x. rewrite RT, mult_IZR. field. apply not_0_IZR. lia. }
  rewrite Xe in Er. rewrite <- Er in Cy.
  set (vz := Zfloor (R_ y + / 2)) in *.
  assert (Fl : (IZR vz <= R_ y + / 2 < IZR vz + 1)%R) by (split; [apply Zfloor_lb|apply Zfloor_ub]).
  apply Rabs_le_inv in Cy. pose proof e16_val as V16.
  set (r := (IZR rn / IZR rd)%R) in *.
  assert (HRD : (0 < IZR rd)%R) by (apply IZR_lt; exact Hrd).
  assert (Hr : (r * IZR rd = IZR rn)%R) by (subst r; field; lra).
  unfold near_roundb. apply Z.leb_le.
  assert (Cl : (- (1026 / 2048) <= IZR vz - r <= 1026 / 2048)%R) by (rewrite V16 in Cy; lra).
  assert (Cm : (- (1026 / 2048 * IZR rd) <= IZR vz * IZR rd - IZR rn <= 1026 / 2048 * IZR rd)%R).
  { rewrite <- Hr. replace (IZR vz * IZR rd - r * IZR rd)%R with ((IZR vz - r) * IZR rd)%R by ring.
    split; [replace (- (1026 / 2048 * IZR rd))%R with (- (1026 / 2048) * IZR rd)%R by ring|];
      apply Rmult_le_compat_r; lra. }
  apply le_IZR. rewrite !mult_IZR, abs_IZR, minus_IZR, mult_IZR.
  assert (Rabs (IZR vz * IZR rd - IZR rn) <= 1026 / 2048 * IZR rd)%R by (apply Rabs_le; lra).
  lra.
Qed.

(* hence the observer link of driver `curves` holds for EVERY case, unconditionally *)
Theorem curves_no_false_alarm_all c : mismatch c = false -> holdsb c = true \/ finding_code c = 1.
Proof. exact (curves_no_false_alarm steps_doc_close c). Qed.
