(* Float64/float32 facts for the steps form of the linear curve (C06/C07), through the Flocq bridge:
   - to_f32 (float64(float32(x))) IS rounding to binary32 (SpecFloat.binary_normalize 24 128 tied to
     Flocq's binary_normalize), hence monotone;
   - int(math.Round(y)) = floor(y + 1/2) for finite 0 <= y <= 2^50, hence monotone;
   - Ex: an order embedding of the non-NaN floats into R (+-Inf -> +-2^1100) so that the
     comparisons of the interpolation loop can be followed for infinite temperatures as well;
   - avg/1000 is monotone and never NaN on non-NaN input. *)
From Coq Require Import ZArith Reals Lia Lra Floats Uint63 Bool SpecFloat Psatz.
From Flocq Require Import Core BinarySingleNaN.
From Flocq Require PrimFloat.
Import Flocq.IEEE754.PrimFloat.
From F2G Require Import Go.GoFloat Model.Util Proofs.CurveFloat Proofs.CurveLin Proofs.CurveLinMono.
Open Scope Z_scope.

(* ---- to_f32 = rounding to binary32 ---- *)
Notation fx32 := (SpecFloat.fexp 24 128).
Notation rnd32 := (round radix2 fx32 ZnearestE).

Lemma Hprec32 : Prec_gt_0 24. Proof. reflexivity. Qed.
Lemma Hmax32 : Prec_lt_emax 24 128. Proof. reflexivity. Qed.

Lemma fx32_valid : Valid_exp fx32.
Proof. apply (fexp_correct 24 128). exact Hprec32. Qed.
#[global] Existing Instance fx32_valid.

Lemma binary_round_aux_equiv32 sx mx ex lx :
  SpecFloat.binary_round_aux 24 128 sx mx ex lx
  = BinarySingleNaN.binary_round_aux 24 128 mode_NE sx mx ex lx.
Proof.
unfold SpecFloat.binary_round_aux, binary_round_aux.
set (mrse' := shr_fexp _ _ _).
case mrse'; intros mrs' e'; simpl.
now rewrite (round_nearest_even_equiv sx).
Qed.

Lemma binary_round_equiv32 s m e :
  SpecFloat.binary_round 24 128 s m e = BinarySingleNaN.binary_round 24 128 mode_NE s m e.
Proof.
unfold SpecFloat.binary_round, binary_round, shl_align_fexp.
set (mez := shl_align _ _ _); case mez as [mz ez].
apply binary_round_aux_equiv32.
Qed.

Lemma binary_normalize_equiv32 m e szero :
  SpecFloat.binary_normalize 24 128 m e szero
  = B2SF (BinarySingleNaN.binary_normalize 24 128 Hprec32 Hmax32 mode_NE m e szero).
Proof.
case m as [ | p | p].
- now simpl.
- simpl; rewrite B2SF_SF2B; apply binary_round_equiv32.
- simpl; rewrite B2SF_SF2B; apply binary_round_equiv32.
Qed.

Lemma fmt32_fmt64 v : generic_format radix2 fx32 v -> generic_format radix2 fx v.
Proof.
  apply generic_inclusion_mag. intros _. unfold SpecFloat.fexp, SpecFloat.emin, prec, emax. lia.
Qed.

Lemma rnd32_0 : rnd32 0 = 0%R.
Proof. apply round_0. typeclasses eauto. Qed.
Lemma rnd32_le a b : (a <= b)%R -> (rnd32 a <= rnd32 b)%R.
Proof. apply round_le; typeclasses eauto. Qed.

Lemma rnd32_abs_le z : (Rabs z <= bpow radix2 127)%R -> (Rabs (rnd32 z) < bpow radix2 128)%R.
Proof.
  intros Hz. apply Rle_lt_trans with (bpow radix2 127); [|now apply bpow_lt].
  apply abs_round_le_generic; try typeclasses eauto; [|exact Hz].
  apply generic_format_bpow. unfold SpecFloat.fexp, SpecFloat.emin. lia.
Qed.

Lemma to_f32_correct x : fin x = true -> (Rabs (R_ x) <= bpow radix2 127)%R ->
  fin (to_f32 x) = true /\ R_ (to_f32 x) = rnd32 (R_ x).
Proof.
  intros F B. unfold to_f32. rewrite <- B2SF_Prim2B.
  destruct (Prim2B x) as [s|s| |s m e Hb] eqn:E; try discriminate.
  - cbn [B2SF]. rewrite E. split; [reflexivity|]. cbn [B2R]. now rewrite rnd32_0.
  - cbn [B2SF]. rewrite binary_normalize_equiv32.
    pose proof (binary_normalize_correct 24 128 Hprec32 Hmax32 mode_NE (cond_Zopp s (Z.pos m)) e s) as C.
    cbv zeta in C. cbn [B2R] in B.
    rewrite Rlt_bool_true in C by (apply rnd32_abs_le; exact B).
    destruct C as (C1 & C2 & _).
    destruct (BinarySingleNaN.binary_normalize 24 128 Hprec32 Hmax32 mode_NE (cond_Zopp s (Z.pos m)) e s)
      as [s'|s'| |s' m' e' Hb']; try discriminate.
    + cbn [B2SF]. change (SF2Prim (S754_zero s')) with (B2Prim (B754_zero s')).
      rewrite Prim2B_B2Prim. split; [reflexivity|]. cbn [B2R] in *. exact C1.
    + cbn [B2SF]. rewrite binary_normalize_equiv.
      change (SF2Prim (B2SF ?b)) with (B2Prim b). rewrite Prim2B_B2Prim.
      pose proof (binary_normalize_correct prec emax Hprec Hmax mode_NE (cond_Zopp s' (Z.pos m')) e' s') as D.
      cbv zeta in D. cbn [B2R] in C1.
      assert (G : generic_format radix2 fx (F2R (Float radix2 (cond_Zopp s' (Z.pos m')) e'))).
      { apply fmt32_fmt64. rewrite C1. apply generic_format_round; typeclasses eauto. }
      change (round_mode mode_NE) with ZnearestE in *.
      rewrite (round_generic radix2 fx ZnearestE _ G) in D.
      rewrite Rlt_bool_true in D.
      * destruct D as (D1 & D2 & _). split; [exact D2|]. rewrite D1. exact C1.
      * rewrite C1. apply Rlt_trans with (bpow radix2 128); [apply rnd32_abs_le; exact B|]. apply bpow_lt. reflexivity.
Qed.

(* ---- int(math.Round(y)) ---- *)
Lemma Zfloor_half_int n : Zfloor (IZR n + / 2) = n.
Proof. apply Zfloor_imp. rewrite plus_IZR. lra. Qed.

Lemma f2i_i2f_small q : 0 <= q < 2 ^ 53 -> f2i (i2f q) = q.
Proof.
  intros H. destruct (i2f_nonneg_exact q H) as [F G].
  rewrite f2i_trunc; [rewrite G; apply Ztrunc_IZR|exact F|].
  rewrite G, <- abs_IZR. apply IZR_lt. unfold two63. lia.
Qed.

Lemma round_floor y : fin y = true -> (0 <= R_ y <= bpow radix2 50)%R ->
  f2i (goRound y) = Zfloor (R_ y + / 2).
Proof.
  intros F B. 
  assert (B63 : (Rabs (R_ y) < IZR two63)%R).
  { rewrite Rabs_pos_eq by lra. apply Rle_lt_trans with (bpow radix2 50); [lra|].
    change (bpow radix2 50) with (IZR (2 ^ 50)). apply IZR_lt. reflexivity. }
  pose proof (f2i_trunc y F B63) as T.
  unfold goRound. rewrite <- B2SF_Prim2B.
  destruct (Prim2B y) as [s|s| |s m e Hb] eqn:E; try discriminate.
  - cbn [B2SF]. rewrite T. cbn [B2R].
    rewrite Ztrunc_IZR. symmetry. apply (Zfloor_half_int 0).
  - cbn [B2SF]. cbn [B2R] in B.
    assert (Hm : (0 < IZR (Z.pos m))%R) by (apply IZR_lt; lia).
    assert (S : s = false).
    { destruct s; [|reflexivity]. exfalso.
      assert ((F2R (Float radix2 (cond_Zopp true (Z.pos m)) e) < 0)%R) by (apply F2R_lt_0; simpl; lia). lra. }
    subst s. cbn [cond_Zopp] in *.
    destruct (0 <=? e) eqn:E0.
    + apply Z.leb_le in E0. rewrite T. cbn [B2R cond_Zopp].
      assert (V : F2R (Float radix2 (Z.pos m) e) = IZR (Z.pos m * 2 ^ e)).
      { unfold F2R. cbn [Fnum Fexp]. rewrite mult_IZR. f_equal. now rewrite (IZR_Zpower radix2). }
      rewrite V, Ztrunc_IZR. symmetry. apply Zfloor_half_int.
    + apply Z.leb_gt in E0.
      set (d := 2 ^ (- e)). assert (Hd : 0 < d) by (subst d; apply Z.pow_pos_nonneg; lia).
      assert (V : F2R (Float radix2 (Z.pos m) e) = (IZR (Z.pos m) / IZR d)%R).
      { unfold F2R. cbn [Fnum Fexp]. unfold Rdiv. f_equal.
        replace e with (- - e) at 1 by lia. rewrite bpow_opp. f_equal. subst d. now rewrite (IZR_Zpower radix2) by lia. }
      rewrite V in *.
      set (q := Z.pos m / d). set (r := Z.pos m mod d).
      assert (DM : Z.pos m = d * q + r) by (apply Z.div_mod; lia).
      assert (Hr : 0 <= r < d) by (apply Z.mod_pos_bound; lia).
      assert (Hq : 0 <= q) by (apply Z.div_pos; lia).
      assert (HD : (0 < IZR d)%R) by (apply IZR_lt; lia).
      assert (Hr1 : (0 <= IZR r)%R) by (apply IZR_le; lia).
      assert (Hr2 : (IZR r < IZR d)%R) by (apply IZR_lt; lia).
      assert (VV : (IZR (Z.pos m) / IZR d = IZR q + IZR r / IZR d)%R).
      { rewrite DM, plus_IZR, mult_IZR. field. lra. }
      rewrite VV in *.
      set (rho := (IZR r / IZR d)%R) in *.
      assert (Hrho : (rho * IZR d = IZR r)%R) by (subst rho; field; lra).
      assert (Hrho0 : (0 <= rho)%R) by (subst rho; apply Rmult_le_pos; [lra|apply Rlt_le, Rinv_0_lt_compat; lra]).
      assert (Hrho1 : (rho < 1)%R).
      { apply Rmult_lt_reg_r with (IZR d); [lra|]. rewrite Hrho. lra. }
      assert (Hq50 : q <= 2 ^ 50).
      { apply le_IZR. change (IZR (2 ^ 50)) with (bpow radix2 50). lra. }
      set (q' := if d <=? 2 * r then q + 1 else q).
      assert (P5 : 2 ^ 50 + 1 < 2 ^ 53) by reflexivity.
      assert (Hq' : 0 <= q' < 2 ^ 53). { subst q'. destruct (d <=? 2 * r); lia. }
      rewrite (f2i_i2f_small q' Hq'). cbn [B2R cond_Zopp]. rewrite V. symmetry. apply Zfloor_imp. subst q'.
      destruct (d <=? 2 * r) eqn:C.
      * apply Z.leb_le in C. apply IZR_le in C. rewrite mult_IZR in C.
        assert ((/2 <= rho)%R).
        { apply Rmult_le_reg_r with (IZR d); [lra|]. rewrite Hrho. lra. }
        rewrite !plus_IZR. lra.
      * apply Z.leb_gt in C. apply IZR_lt in C. rewrite mult_IZR in C.
        assert ((rho < /2)%R).
        { apply Rmult_lt_reg_r with (IZR d); [lra|]. rewrite Hrho. lra. }
        rewrite !plus_IZR. lra.
Qed.

(* ---- order embedding of the non-NaN floats ---- *)
Definition BIG : R := bpow radix2 1100.
Definition Ex (x : f64) : R :=
  match Prim2B x with
  | B754_infinity false => BIG
  | B754_infinity true => (- BIG)%R
  | b => B2R b
  end.

Lemma R_lt_emax x : (Rabs (R_ x) < bpow radix2 1024)%R.
Proof. apply (abs_B2R_lt_emax prec emax). Qed.

Lemma emax_lt_BIG : (bpow radix2 1024 < BIG)%R.
Proof. apply bpow_lt. reflexivity. Qed.

Lemma Ex_fin x : fin x = true -> Ex x = R_ x.
Proof. unfold Ex. destruct (Prim2B x) as [s|s| |s m e B]; try discriminate; reflexivity. Qed.

Lemma nan_spec x : is_nan x = false -> Prim2B x <> B754_nan.
Proof. unfold is_nan. rewrite eqb_equiv. intros H E. rewrite E in H. discriminate. Qed.

Lemma Ex_range x : is_nan x = false -> (- BIG <= Ex x <= BIG)%R.
Proof.
  intros N. pose proof (R_lt_emax x) as H. pose proof emax_lt_BIG as G. apply nan_spec in N.
  unfold Ex. destruct (Prim2B x) as [s|[|]| |s m e B]; try congruence;
    try (apply Rabs_lt_inv in H; lra); assert (0 < BIG)%R by apply bpow_gt_0; lra.
Qed.

(* a non-NaN float strictly inside the finite range is finite *)
Lemma Ex_small_fin x : is_nan x = false -> (Rabs (Ex x) < bpow radix2 1024)%R -> fin x = true /\ R_ x = Ex x.
Proof.
  intros N H. apply nan_spec in N. pose proof emax_lt_BIG as G. unfold Ex in *.
  destruct (Prim2B x) as [s|[|]| |s m e B]; try congruence; try (split; reflexivity); exfalso.
  - rewrite Rabs_Ropp, Rabs_pos_eq in H by (apply bpow_ge_0). lra.
  - rewrite Rabs_pos_eq in H by (apply bpow_ge_0). lra.
Qed.

Section Cmp.
  Variables x a : f64.
  Hypothesis N : is_nan x = false.
  Hypothesis Fa : fin a = true.

  Lemma Ex_leb_l : PrimFloat.leb x a = Rle_bool (Ex x) (R_ a).
  Proof.
    destruct (BinarySingleNaN.is_finite (Prim2B x)) eqn:F.
    - rewrite (Ex_fin x F). now apply fin_leb.
    - pose proof (R_lt_emax a) as H. apply Rabs_lt_inv in H. pose proof emax_lt_BIG.
      destruct (not_fin_cases x F N) as [E|E].
      + rewrite (leb_pinf_fin a x Fa E). unfold Ex. rewrite E. symmetry. apply Rle_bool_false. lra.
      + rewrite (leb_ninf_fin a x Fa E). unfold Ex. rewrite E. symmetry. apply Rle_bool_true. lra.
  Qed.

  Lemma Ex_leb_r : PrimFloat.leb a x = Rle_bool (R_ a) (Ex x).
  Proof.
    destruct (BinarySingleNaN.is_finite (Prim2B x)) eqn:F.
    - rewrite (Ex_fin x F). now apply fin_leb.
    - pose proof (R_lt_emax a) as H. apply Rabs_lt_inv in H. pose proof emax_lt_BIG.
      destruct (not_fin_cases x F N) as [E|E].
      + rewrite (leb_fin_pinf a x Fa E). unfold Ex. rewrite E. symmetry. apply Rle_bool_true. lra.
      + rewrite (leb_fin_ninf a x Fa E). unfold Ex. rewrite E. symmetry. apply Rle_bool_false. lra.
  Qed.

  Lemma Ex_eqb : PrimFloat.eqb x a = Req_bool (Ex x) (R_ a).
  Proof.
    destruct (BinarySingleNaN.is_finite (Prim2B x)) eqn:F.
    - rewrite (Ex_fin x F). now apply fin_eqb.
    - pose proof (R_lt_emax a) as H. apply Rabs_lt_inv in H. pose proof emax_lt_BIG.
      rewrite eqb_equiv.
      destruct (not_fin_cases x F N) as [E|E]; unfold Ex; rewrite E.
      + transitivity false; [|symmetry; apply Req_bool_false; lra].
        destruct (Prim2B a) as [s|s| |s m e B]; try discriminate; reflexivity.
      + transitivity false; [|symmetry; apply Req_bool_false; lra].
        destruct (Prim2B a) as [s|s| |s m e B]; try discriminate; reflexivity.
  Qed.
End Cmp.

Lemma Ex_le x1 x2 : PrimFloat.leb x1 x2 = true -> (Ex x1 <= Ex x2)%R.
Proof.
  intros L. destruct (leb_true_not_nan x1 x2 L) as [N1 N2].
  pose proof (Ex_range x1 N1). pose proof (Ex_range x2 N2).
  destruct (BinarySingleNaN.is_finite (Prim2B x2)) eqn:F2.
  - rewrite (Ex_leb_l x1 x2 N1 F2) in L. rewrite (Ex_fin x2 F2). revert L. case Rle_bool_spec; [tauto|discriminate].
  - destruct (not_fin_cases x2 F2 N2) as [E|E].
    + unfold Ex at 2. rewrite E. lra.
    + assert (E1 : Prim2B x1 = B754_infinity true).
      { rewrite leb_equiv, E in L. destruct (Prim2B x1) as [s|[|]| |s m e B]; try discriminate; try reflexivity; destruct s; discriminate. }
      unfold Ex. rewrite E, E1. lra.
Qed.

(* ---- avg / 1000 ---- *)
Lemma P1000 : exists m e H, Prim2B 1000%float = B754_finite false m e H.
Proof. eexists. eexists. eexists. reflexivity. Qed.

Lemma div1000_inf T s : Prim2B T = B754_infinity s -> Prim2B (PrimFloat.div T 1000) = B754_infinity s.
Proof.
  intros E. rewrite div_equiv, E. destruct P1000 as (m & e & H & ->). cbn. now destruct s.
Qed.

Lemma div1000_fin T : fin T = true ->
  fin (PrimFloat.div T 1000) = true /\ R_ (PrimFloat.div T 1000) = rnd (R_ T / 1000).
Proof.
  intros F. rewrite <- R_1000. apply (fdiv_correct T 1000%float 1023 F eq_refl).
  - rewrite R_1000. lra.
  - unfold emax. lia.
  - rewrite R_1000. pose proof (R_lt_emax T) as H.
    unfold Rdiv. rewrite Rabs_mult. rewrite (Rabs_pos_eq (/ 1000)) by lra.
    change (bpow radix2 1024) with (2 * bpow radix2 1023)%R in H.
    assert (0 <= Rabs (R_ T))%R by apply Rabs_pos. lra.
Qed.

Lemma div1000_nan T : is_nan T = false -> is_nan (PrimFloat.div T 1000) = false.
Proof.
  intros N. destruct (BinarySingleNaN.is_finite (Prim2B T)) eqn:F.
  - apply fin_is_nan. now apply div1000_fin.
  - unfold is_nan. rewrite eqb_equiv.
    destruct (not_fin_cases T F N) as [E|E]; rewrite (div1000_inf T _ E); reflexivity.
Qed.

Lemma div1000_mono T1 T2 : PrimFloat.leb T1 T2 = true ->
  let x1 := PrimFloat.div T1 1000 in let x2 := PrimFloat.div T2 1000 in
  is_nan x1 = false /\ is_nan x2 = false /\ (Ex x1 <= Ex x2)%R.
Proof.
  intros L. cbv zeta. destruct (leb_true_not_nan T1 T2 L) as [N1 N2].
  pose proof (div1000_nan T1 N1) as M1. pose proof (div1000_nan T2 N2) as M2.
  split; [exact M1|]. split; [exact M2|].
  pose proof (Ex_range _ M1). pose proof (Ex_range _ M2).
  destruct (BinarySingleNaN.is_finite (Prim2B T2)) eqn:F2.
  - destruct (BinarySingleNaN.is_finite (Prim2B T1)) eqn:F1.
    + destruct (div1000_fin T1 F1) as [G1 V1]. destruct (div1000_fin T2 F2) as [G2 V2].
      rewrite (Ex_fin _ G1), (Ex_fin _ G2), V1, V2. apply rnd_le.
      rewrite (fin_leb T1 T2 F1 F2) in L. revert L. case Rle_bool_spec; [|discriminate]. intros. lra.
    + destruct (not_fin_cases T1 F1 N1) as [E|E].
      * rewrite leb_equiv, E in L. destruct (Prim2B T2) as [s|s| |s m e B]; try discriminate; destruct s; discriminate.
      * unfold Ex at 1. rewrite (div1000_inf T1 _ E). lra.
  - destruct (not_fin_cases T2 F2 N2) as [E|E].
    + unfold Ex at 2. rewrite (div1000_inf T2 _ E). lra.
    + assert (E1 : Prim2B T1 = B754_infinity true).
      { rewrite leb_equiv, E in L. destruct (Prim2B T1) as [s|[|]| |s m e B]; try discriminate; try reflexivity; destruct s; discriminate. }
      unfold Ex. rewrite (div1000_inf T1 _ E1), (div1000_inf T2 _ E). lra.
Qed.

(* ---- small helpers ---- *)
Lemma fadd_correct x y e : fin x = true -> fin y = true -> (-1000 <= e < emax)%Z ->
  (Rabs (R_ x + R_ y) <= bpow radix2 e)%R ->
  fin (PrimFloat.add x y) = true /\ R_ (PrimFloat.add x y) = rnd (R_ x + R_ y).
Proof.
  intros Fx Fy He Hb. rewrite add_equiv.
  pose proof (Bplus_correct prec emax Hprec Hmax mode_NE (Prim2B x) (Prim2B y) Fx Fy) as C.
  rewrite Rlt_bool_true in C by (apply (rnd_abs_le _ e); unfold emin, prec, emax in *; try lia; exact Hb).
  destruct C as (C1 & C2 & _). split; assumption.
Qed.

Lemma R_100 : R_ 100%float = 100%R.
Proof. cbv -[IZR Rmult Rinv]. lra. Qed.

Lemma rnd32_int z : Z.abs z < 2 ^ 24 -> rnd32 (IZR z) = IZR z.
Proof.
  intros Hz. apply round_generic; [apply valid_rnd_N|].
  apply generic_format_FLT. exists (Float radix2 z 0).
  - unfold F2R; simpl; lra.
  - simpl. exact Hz.
  - cbv. discriminate.
Qed.

Lemma rnd_between lo hi z : rnd lo = lo -> rnd hi = hi -> (lo <= z <= hi)%R -> (lo <= rnd z <= hi)%R.
Proof.
  intros A B H. split; [apply Rle_trans with (rnd lo); [rewrite A; lra|apply rnd_le; lra]
                       |apply Rle_trans with (rnd hi); [apply rnd_le; lra|rewrite B; lra]].
Qed.
Lemma rnd32_between lo hi z : rnd32 lo = lo -> rnd32 hi = hi -> (lo <= z <= hi)%R -> (lo <= rnd32 z <= hi)%R.
Proof.
  intros A B H. split; [apply Rle_trans with (rnd32 lo); [rewrite A; lra|apply rnd32_le; lra]
                       |apply Rle_trans with (rnd32 hi); [apply rnd32_le; lra|rewrite B; lra]].
Qed.
Lemma rnd_1 : rnd 1 = 1%R. Proof. apply (rnd_int 1). reflexivity. Qed.
Lemma rnd_100 : rnd 100 = 100%R. Proof. apply (rnd_int 100). reflexivity. Qed.
Lemma rnd_rnd z : rnd (rnd z) = rnd z.
Proof. apply round_generic; [apply valid_rnd_N|]. apply generic_format_round; typeclasses eauto. Qed.
Lemma rnd_R x : rnd (R_ x) = R_ x.
Proof. apply round_generic; [apply valid_rnd_N|apply fmt_R]. Qed.
Lemma rnd_opp_R x : rnd (- R_ x) = (- R_ x)%R.
Proof. apply round_generic; [apply valid_rnd_N|apply generic_format_opp, fmt_R]. Qed.

(* 255.25 = 1021 / 4 is a binary32 and a binary64 number *)
Definition Q255 : R := (1021 / 4)%R.
Lemma Q255_F2R : Q255 = F2R (Float radix2 1021 (-2)).
Proof. unfold Q255, F2R. simpl. lra. Qed.
Lemma rnd_Q255 : rnd Q255 = Q255.
Proof.
  apply round_generic; [apply valid_rnd_N|]. apply generic_format_FLT. exists (Float radix2 1021 (-2)).
  - apply Q255_F2R.
  - simpl. reflexivity.
  - cbv. discriminate.
Qed.
Lemma rnd32_Q255 : rnd32 Q255 = Q255.
Proof.
  apply round_generic; [apply valid_rnd_N|]. apply generic_format_FLT. exists (Float radix2 1021 (-2)).
  - apply Q255_F2R.
  - simpl. reflexivity.
  - cbv. discriminate.
Qed.

(* absolute rounding error below 256 *)
Lemma rnd_err_256 z : (Rabs z <= 256)%R -> (Rabs (rnd z - z) <= bpow radix2 (-45))%R.
Proof.
  intros H. apply Rle_trans with (/ 2 * ulp radix2 fx z)%R; [apply error_le_half_ulp; typeclasses eauto|].
  assert (U : (ulp radix2 fx z <= ulp radix2 fx (bpow radix2 8))%R).
  { apply ulp_le; try typeclasses eauto. rewrite (Rabs_pos_eq (bpow radix2 8)) by apply bpow_ge_0.
    simpl bpow. lra. }
  rewrite ulp_bpow in U. change (fx (8 + 1)) with (-44) in U.
  change (-44) with (1 + -45) in U. rewrite bpow_plus in U. change (bpow radix2 1) with 2%R in U. lra.
Qed.

(* ---- float64(int) for every argument of the model's i2f ---- *)
Lemma of_u63_correct i :
  fin (PrimFloat.of_uint63 i) = true /\ R_ (PrimFloat.of_uint63 i) = rnd (IZR (Uint63.to_Z i))
  /\ (0 <= rnd (IZR (Uint63.to_Z i)) <= IZR two63)%R.
Proof.
  pose proof (Uint63.to_Z_bounded i) as Hz. change Uint63.wB with two63 in Hz.
  set (z := Uint63.to_Z i) in *.
  assert (G : (0 <= rnd (IZR z) <= IZR two63)%R).
  { split.
    - rewrite <- (round_0 radix2 fx ZnearestE). apply round_le; try typeclasses eauto. apply IZR_le. lia.
    - rewrite <- rnd_two63. apply round_le; try typeclasses eauto. apply IZR_le. lia. }
  rewrite of_int63_equiv. fold z.
  pose proof (binary_normalize_correct prec emax Hprec Hmax mode_NE z 0 false) as C.
  cbv zeta in C.
  assert (F : F2R (Float radix2 z 0) = IZR z) by (unfold F2R; simpl; lra).
  rewrite F in C.
  rewrite Rlt_bool_true in C.
  - destruct C as (C1 & C2 & _). split; [exact C2|]. split; [exact C1|exact G].
  - change (round_mode mode_NE) with ZnearestE.
    rewrite Rabs_pos_eq by lra.
    apply Rle_lt_trans with (IZR two63); [lra|].
    change (bpow radix2 emax) with (IZR (2 ^ 1024)). apply IZR_lt. reflexivity.
Qed.

(* any key whatsoever: finite and at most 2^63 in magnitude *)
Lemma i2f_any k : fin (i2f k) = true /\ (Rabs (R_ (i2f k)) <= bpow radix2 63)%R.
Proof.
  change (bpow radix2 63) with (IZR two63).
  unfold i2f. destruct (k <? 0).
  - destruct (of_u63_correct (Uint63.of_Z (- k))) as (F & V & G).
    rewrite opp_equiv, is_finite_Bopp, B2R_Bopp, Rabs_Ropp, V. split; [exact F|]. apply Rabs_le. lra.
  - destruct (of_u63_correct (Uint63.of_Z k)) as (F & V & G).
    rewrite V. split; [exact F|]. apply Rabs_le. lra.
Qed.

(* |k| < 2^63 (every Go int but the minimum): the correctly rounded value *)
Lemma i2f_rnd k : Z.abs k < two63 -> R_ (i2f k) = rnd (IZR k).
Proof.
  intros H. destruct (Z_lt_le_dec k 0) as [N|P].
  - unfold i2f. destruct (k <? 0) eqn:E; [|apply Z.ltb_ge in E; lia].
    destruct (of_nonneg_correct (- k)) as [F G]; [lia|].
    unfold i2f in G. destruct (- k <? 0) eqn:E2; [apply Z.ltb_lt in E2; lia|].
    rewrite opp_equiv, B2R_Bopp, G, opp_IZR, round_NE_opp. lra.
  - destruct (of_nonneg_correct k) as [F G]; [lia|]. exact G.
Qed.

Lemma i2f_mono k k' : Z.abs k < two63 -> Z.abs k' < two63 -> k <= k' -> (R_ (i2f k) <= R_ (i2f k'))%R.
Proof. intros H H' L. rewrite !i2f_rnd by assumption. apply rnd_le. now apply IZR_le. Qed.
