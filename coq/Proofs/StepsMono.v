(* C06/C07 for the steps form of the linear curve, for ALL float temperatures:
   induction over the step list of Model.Util.interp_loop, on top of the per-segment
   facts of Proofs/StepsSeg.v.
   - range (C06): any float speeds in [0,255];
   - monotonicity (C07): integer non-decreasing speeds;
   both for ANY integer keys: neither a bound nor sortedness of the keys is needed. *)
From Coq Require Import ZArith Reals Lia Lra Floats Uint63 Bool SpecFloat Psatz List.
From Flocq Require Import Core BinarySingleNaN.
From Flocq Require PrimFloat.
Import Flocq.IEEE754.PrimFloat.
From F2G Require Import Go.GoFloat Model.Util Model.Curves Proofs.CurveFloat Proofs.CurveLin Proofs.CurveLinMono
  Proofs.CurveSteps Proofs.CurveMono Proofs.StepsFloat Proofs.StepsSeg.
Import ListNotations.
Open Scope Z_scope.

Definition int_speed (lo hi : Z) (y : f64) : Prop := exists z, lo <= z <= hi /\ y = i2f z.
Definition speeds_int (lo hi : Z) (l : list (Z * f64)) : Prop := Forall (fun kv => int_speed lo hi (snd kv)) l.
Definition speed_in_range (y : f64) : Prop := PrimFloat.leb 0 y = true /\ PrimFloat.leb y 255 = true.

Lemma loop_cons2 first cx cy nx ny rest x :
  interp_loop first ((cx, cy) :: (nx, ny) :: rest) x =
    if first && PrimFloat.leb x (i2f cx) then IvVal cy
    else if PrimFloat.leb (i2f nx) x then interp_loop false ((nx, ny) :: rest) x
    else if PrimFloat.eqb x (i2f cx) then IvVal cy
    else IvVal (to_f32 (PrimFloat.add cy (PrimFloat.mul (Ratio x (i2f cx) (i2f nx)) (PrimFloat.sub ny cy)))).
Proof. reflexivity. Qed.

(* entering a later segment (first = false) happens only with the input at or above its key *)
Definition hd_ge (first : bool) (steps : list (Z * f64)) (x : f64) : Prop :=
  first = false -> match steps with (cx, _) :: _ => (R_ (i2f cx) <= Ex x)%R | [] => True end.

Lemma between_keys_fin k1 k2 x : is_nan x = false ->
  (R_ (i2f k1) <= Ex x <= R_ (i2f k2))%R -> fin x = true /\ R_ x = Ex x.
Proof.
  intros N H. apply Ex_small_fin; [exact N|].
  destruct (i2f_any k1) as (_ & B1). destruct (i2f_any k2) as (_ & B2).
  apply Rabs_le_inv in B1, B2.
  apply Rle_lt_trans with (bpow radix2 63); [apply Rabs_le; lra|apply bpow_lt; reflexivity].
Qed.

(* a float speed within [0, 255] (as the configuration validation demands) is finite *)
Lemma speed_in_range_ok y : speed_in_range y -> fin y = true /\ (0 <= R_ y <= 255)%R.
Proof.
  intros [L0 L1]. destruct (leb_true_not_nan _ _ L0) as [_ N].
  destruct (BinarySingleNaN.is_finite (Prim2B y)) eqn:F.
  - split; [reflexivity|].
    rewrite (fin_leb 0%float y eq_refl F), R_0 in L0. rewrite (fin_leb y 255%float F eq_refl), R_255 in L1.
    revert L0 L1. case Rle_bool_spec; [|discriminate]. case Rle_bool_spec; [|discriminate]. intros. lra.
  - exfalso. destruct (not_fin_cases y F N) as [E|E].
    + rewrite (leb_pinf_fin 255%float y eq_refl E) in L1. discriminate.
    + rewrite (leb_fin_ninf 0%float y eq_refl E) in L0. discriminate.
Qed.

Lemma int_speed_ok lo hi y : 0 <= lo -> hi <= 255 -> int_speed lo hi y ->
  fin y = true /\ (0 <= R_ y <= 255)%R /\ (IZR lo <= R_ y <= IZR hi)%R.
Proof.
  intros Hlo Hhi (z & Hz & ->). destruct (i2f_exact z ltac:(lia)) as [F V]. rewrite V.
  split; [exact F|]. split; split; apply IZR_le; lia.
Qed.

(* ---- every value the loop returns satisfies Q, if the step speeds and every segment value do ---- *)
Section LoopBound.
  Variable P : f64 -> Prop.
  Variable Q : R -> Prop.
  Hypothesis P_ok : forall y, P y -> fin y = true /\ (0 <= R_ y <= 255)%R /\ Q (R_ y).
  Hypothesis P_seg : forall a b cy ny t, (R_ a < R_ b)%R -> P cy -> P ny -> (R_ a <= t <= R_ b)%R -> Q (segR a b cy ny t).

  Lemma loop_bound : forall steps first x,
    steps <> [] -> Forall (fun kv => P (snd kv)) steps ->
    is_nan x = false -> hd_ge first steps x ->
    exists y, interp_loop first steps x = IvVal y /\ fin y = true /\ Q (R_ y).
  Proof.
    intros steps. induction steps as [|[cx cy] rest IH]; intros first x Hne Hsp N Hhd; [congruence|].
    inversion Hsp as [|? ? Pc Hsp']; subst. cbn [snd] in *.
    destruct (P_ok cy Pc) as (Fc & Hc & Qc).
    destruct rest as [|[nx ny] rest'].
    - exists cy. split; [reflexivity|]. split; assumption.
    - rewrite loop_cons2.
      destruct (i2f_any cx) as (Fa & Ba). destruct (i2f_any nx) as (Fb & Bb).
      rewrite (Ex_leb_l x _ N Fa), (Ex_leb_r x _ N Fb), (Ex_eqb x _ N Fa).
      assert (HC : first && Rle_bool (Ex x) (R_ (i2f cx)) = false -> (R_ (i2f cx) <= Ex x)%R).
      { destruct first; cbn [andb]; [case Rle_bool_spec; [discriminate|intros; lra]|intros _; apply Hhd; reflexivity]. }
      destruct (first && Rle_bool (Ex x) (R_ (i2f cx))) eqn:C1.
      + exists cy. split; [reflexivity|]. split; assumption.
      + specialize (HC eq_refl).
        case Rle_bool_spec; intros C2.
        * apply IH; try assumption; [discriminate|]. intros _. exact C2.
        * case Req_bool_spec; intros C3.
          -- exists cy. split; [reflexivity|]. split; assumption.
          -- inversion Hsp' as [|? ? Pn _]; subst. cbn [snd] in *.
             destruct (P_ok ny Pn) as (Fn & Hn & _).
             destruct (between_keys_fin cx nx x N ltac:(lra)) as [Fx Vx].
             assert (Hab : (R_ (i2f cx) < R_ (i2f nx))%R) by lra.
             destruct (seg_facts (i2f cx) (i2f nx) cy ny Fa Fb Ba Bb Hab Fc Fn Hc Hn x Fx ltac:(rewrite Vx; lra)) as [Fv Vv].
             eexists. split; [reflexivity|]. split; [exact Fv|]. rewrite Vv.
             apply P_seg; try assumption. rewrite Vx. lra.
  Qed.
End LoopBound.

(* instance 1: arbitrary float speeds in [0,255]: values in [0, 255.25] *)
Lemma loop_bound_range : forall steps first x,
  steps <> [] -> Forall (fun kv => speed_in_range (snd kv)) steps ->
  is_nan x = false -> hd_ge first steps x ->
  exists y, interp_loop first steps x = IvVal y /\ fin y = true /\ (0 <= R_ y <= Q255)%R.
Proof.
  apply (loop_bound speed_in_range (fun r => (0 <= r <= Q255)%R)).
  - intros y H. destruct (speed_in_range_ok y H) as [F G]. split; [exact F|]. split; [exact G|]. unfold Q255. lra.
  - intros a b cy ny t Hab Pc Pn Ht.
    destruct (speed_in_range_ok cy Pc) as [Fc Hc]. destruct (speed_in_range_ok ny Pn) as [Fn Hn].
    now apply segR_range.
Qed.

(* instance 2: integer speeds in [lo,hi]: values in [lo,hi] *)
Lemma loop_bound_int lo hi : 0 <= lo -> hi <= 255 -> forall steps first x,
  steps <> [] -> speeds_int lo hi steps ->
  is_nan x = false -> hd_ge first steps x ->
  exists y, interp_loop first steps x = IvVal y /\ fin y = true /\ (IZR lo <= R_ y <= IZR hi)%R.
Proof.
  intros Hlo Hhi. apply (loop_bound (int_speed lo hi) (fun r => (IZR lo <= r <= IZR hi)%R)).
  - intros y H. now apply int_speed_ok.
  - intros a b cy ny t Hab Pc Pn Ht.
    destruct Pc as (zc & Hzc & ->). destruct Pn as (zn & Hzn & ->).
    destruct (i2f_exact zc ltac:(lia)) as [_ Vc]. destruct (i2f_exact zn ltac:(lia)) as [_ Vn].
    pose proof (segR_range_int a b (i2f zc) (i2f zn) Hab zc zn t Vc Vn ltac:(lia) ltac:(lia) Ht) as G.
    assert (IZR lo <= IZR (Z.min zc zn))%R by (apply IZR_le; lia).
    assert (IZR (Z.max zc zn) <= IZR hi)%R by (apply IZR_le; lia). lra.
Qed.

(* ---- monotonicity ---- *)
Lemma int_speed_weaken lo lo' hi y : lo <= lo' -> int_speed lo' hi y -> int_speed lo hi y.
Proof. intros H (z & Hz & E). exists z. split; [lia|exact E]. Qed.

Lemma i2f_leb_le z z' : 0 <= z <= 255 -> 0 <= z' <= 255 -> PrimFloat.leb (i2f z) (i2f z') = true -> z <= z'.
Proof.
  intros H H' L. destruct (i2f_exact z ltac:(lia)) as [F V]. destruct (i2f_exact z' ltac:(lia)) as [F' V'].
  rewrite (fin_leb _ _ F F'), V, V' in L. revert L. case Rle_bool_spec; [|discriminate]. intros L _. now apply le_IZR.
Qed.

(* non-decreasing integer speeds: every later speed is at least the first *)
Lemma nondec_lb : forall rest k z, 0 <= z <= 255 ->
  speeds_nondec ((k, i2f z) :: rest) -> speeds_int 0 255 rest -> speeds_int z 255 rest.
Proof.
  induction rest as [|[k' y'] rest IH]; intros k z Hz Hn Hs; [constructor|].
  inversion Hs as [|? ? (z' & Hz' & E') Hs']; subst. cbn [snd] in *. subst y'.
  destruct Hn as [L Hn']. pose proof (i2f_leb_le z z' Hz Hz' L) as Lz.
  constructor.
  - exists z'. split; [lia|reflexivity].
  - specialize (IH k' z' Hz' Hn' Hs'). eapply Forall_impl; [|exact IH].
    intros kv. apply int_speed_weaken. exact Lz.
Qed.

(* (neither sortedness nor any bound of the keys is needed: a later segment is entered only with the
   input at or above its key, each segment is monotone and stays between its two speeds) *)
Lemma loop_mono : forall steps first x1 x2 y1 y2,
  speeds_int 0 255 steps -> speeds_nondec steps ->
  is_nan x1 = false -> is_nan x2 = false -> (Ex x1 <= Ex x2)%R -> hd_ge first steps x1 ->
  interp_loop first steps x1 = IvVal y1 -> interp_loop first steps x2 = IvVal y2 ->
  (R_ y1 <= R_ y2)%R.
Proof.
  induction steps as [|[cx cy] rest IH]; intros first x1 x2 y1 y2 Hsp Hn N1 N2 L Hhd E1 E2; [discriminate|].
  inversion Hsp as [|? ? (zc & Hzc & Ec) Hsp']; subst. cbn [snd] in *. subst cy.
  destruct rest as [|[nx ny] rest'].
  - change (IvVal (i2f zc) = IvVal y1) in E1. change (IvVal (i2f zc) = IvVal y2) in E2.
    inversion E1; inversion E2; subst. lra.
  - rewrite loop_cons2 in E1, E2.
    inversion Hsp' as [|? ? (zn & Hzn & En) _]; subst. cbn [snd] in *. subst ny.
    destruct Hn as [Lz Hn']. apply i2f_leb_le in Lz; try assumption.
    destruct (i2f_any cx) as (Fa & Ba). destruct (i2f_any nx) as (Fb & Bb).
    set (A := R_ (i2f cx)) in *. set (B := R_ (i2f nx)) in *.
    rewrite (Ex_leb_l x1 _ N1 Fa), (Ex_leb_r x1 _ N1 Fb), (Ex_eqb x1 _ N1 Fa) in E1.
    rewrite (Ex_leb_l x2 _ N2 Fa), (Ex_leb_r x2 _ N2 Fb), (Ex_eqb x2 _ N2 Fa) in E2.
    fold A B in E1, E2.
    assert (HC1 : first && Rle_bool (Ex x1) A = false -> (A <= Ex x1)%R).
    { destruct first; cbn [andb]; [case Rle_bool_spec; [discriminate|intros; lra]|intros _; apply Hhd; reflexivity]. }
    assert (HC2 : first && Rle_bool (Ex x2) A = false -> (A <= Ex x2)%R).
    { destruct first; cbn [andb]; [case Rle_bool_spec; [discriminate|intros; lra]
                                  |intros _; specialize (Hhd eq_refl); cbn in Hhd; fold A in Hhd; lra]. }
    assert (HT : first && Rle_bool (Ex x2) A = true -> first && Rle_bool (Ex x1) A = true).
    { destruct first; cbn [andb]; [|discriminate]. case Rle_bool_spec; [|discriminate]. intros. apply Rle_bool_true. lra. }
    destruct (i2f_exact zc ltac:(lia)) as [Fc Vc]. destruct (i2f_exact zn ltac:(lia)) as [Fn Vn].
    assert (Hc : (0 <= R_ (i2f zc) <= 255)%R) by (rewrite Vc; split; apply IZR_le; lia).
    assert (Hn : (0 <= R_ (i2f zn) <= 255)%R) by (rewrite Vn; split; apply IZR_le; lia).
    (* a value produced by the segment formula *)
    assert (SEG : forall x, is_nan x = false -> (A < Ex x < B)%R ->
              let v := to_f32 (PrimFloat.add (i2f zc) (PrimFloat.mul (Ratio x (i2f cx) (i2f nx)) (PrimFloat.sub (i2f zn) (i2f zc)))) in
              R_ v = segR (i2f cx) (i2f nx) (i2f zc) (i2f zn) (Ex x)).
    { intros x N H. cbv zeta. destruct (between_keys_fin cx nx x N ltac:(fold A B; lra)) as [Fx Vx].
      assert (Hab : (R_ (i2f cx) < R_ (i2f nx))%R) by (fold A B; lra).
      destruct (seg_facts (i2f cx) (i2f nx) (i2f zc) (i2f zn) Fa Fb Ba Bb Hab Fc Fn Hc Hn x Fx ltac:(rewrite Vx; fold A B; lra)) as [_ Vv].
      rewrite Vv, Vx. reflexivity. }
    assert (RNG : forall t, (A < B)%R -> (A <= t <= B)%R -> (IZR zc <= segR (i2f cx) (i2f nx) (i2f zc) (i2f zn) t <= IZR zn)%R).
    { intros t Hab H. pose proof (segR_range_int (i2f cx) (i2f nx) (i2f zc) (i2f zn) Hab zc zn t Vc Vn ltac:(lia) ltac:(lia) H) as G.
      rewrite Z.min_l, Z.max_r in G by lia. exact G. }
    destruct (first && Rle_bool (Ex x2) A) eqn:C2.
    + rewrite (HT eq_refl) in E1. inversion E1; inversion E2; subst. lra.
    + specialize (HC2 eq_refl).
      revert E2. case (Rle_bool_spec B (Ex x2)); intros D2 E2.
      * (* x2 is beyond the next key: its value is at least the next speed *)
        assert (LB : (IZR zn <= R_ y2)%R).
        { destruct (loop_bound_int zn 255 ltac:(lia) ltac:(lia) ((nx, i2f zn) :: rest') false x2) as (y & Ey & _ & Gy & _).
          - discriminate.
          - constructor; [exists zn; split; [lia|reflexivity]|]. eapply nondec_lb; [exact Hzn|exact Hn'|]. now inversion Hsp'.
          - exact N2.
          - intros _. exact D2.
          - rewrite E2 in Ey. inversion Ey; subst. exact Gy. }
        assert (Lc : (IZR zc <= IZR zn)%R) by (apply IZR_le; exact Lz).
        destruct (first && Rle_bool (Ex x1) A) eqn:C1.
        { inversion E1; subst. rewrite Vc. lra. }
        specialize (HC1 eq_refl).
        revert E1. case (Rle_bool_spec B (Ex x1)); intros D1 E1.
        { apply (IH false x1 x2 y1 y2); try assumption. intros _. exact D1. }
        revert E1. case Req_bool_spec; intros Q1 E1.
        { inversion E1; subst. rewrite Vc. lra. }
        inversion E1; subst. rewrite (SEG x1 N1 ltac:(lra)).
        pose proof (RNG (Ex x1) ltac:(lra) ltac:(lra)). lra.
      * revert E2. case Req_bool_spec; intros Q2 E2.
        -- (* x2 sits exactly on the current key (only possible when first = false) *)
           inversion E2; subst.
           destruct (first && Rle_bool (Ex x1) A) eqn:C1.
           { inversion E1; subst. lra. }
           specialize (HC1 eq_refl).
           rewrite Rle_bool_false in E1 by lra.
           rewrite Req_bool_true in E1 by lra. inversion E1; subst. lra.
        -- inversion E2; subst. rewrite (SEG x2 N2 ltac:(lra)).
           pose proof (RNG (Ex x2) ltac:(lra) ltac:(lra)) as G2.
           destruct (first && Rle_bool (Ex x1) A) eqn:C1.
           { inversion E1; subst. rewrite Vc. lra. }
           specialize (HC1 eq_refl).
           rewrite Rle_bool_false in E1 by lra.
           revert E1. case Req_bool_spec; intros Q1 E1.
           { inversion E1; subst. rewrite Vc. lra. }
           inversion E1; subst. rewrite (SEG x1 N1 ltac:(lra)).
           apply segR_mono; [fold A B; lra|rewrite Vc, Vn; apply IZR_le; exact Lz|exact L].
Qed.

(* ---- the curve value int(math.Round(y)) ---- *)
Lemma final_value y : fin y = true -> (0 <= R_ y <= Q255)%R ->
  f2i (goRound y) = Zfloor (R_ y + / 2) /\ 0 <= Zfloor (R_ y + / 2) <= 255.
Proof.
  intros F H. unfold Q255 in H. split.
  - apply round_floor; [exact F|]. split; [lra|]. apply Rle_trans with 256%R; [lra|].
    change (bpow radix2 50) with (IZR (2 ^ 50)). apply IZR_le. apply Z.leb_le. reflexivity.
  - split.
    + apply Z.le_trans with (Zfloor (IZR 0 + / 2)); [rewrite Zfloor_half_int; lia|apply Zfloor_le; lra].
    + apply Z.le_trans with (Zfloor (1021 / 4 + / 2)); [apply Zfloor_le; lra|].
      replace (Zfloor (1021 / 4 + / 2)) with 255; [lia|]. symmetry. apply Zfloor_imp. simpl. lra.
Qed.
Lemma final_value_int y : fin y = true -> (0 <= R_ y <= 255)%R ->
  f2i (goRound y) = Zfloor (R_ y + / 2) /\ 0 <= Zfloor (R_ y + / 2) <= 255.
Proof. intros F H. apply final_value; [exact F|]. unfold Q255. lra. Qed.

Definition steps_int_speeds (steps : list (Z * f64)) : Prop := Forall (fun kv => is_int_speed (snd kv)) steps.

(* C06, steps form, ANY float speeds within [0,255] (fractional included), ANY keys:
   total and within 0..255 at every non-NaN temperature *)
Theorem steps_range c steps T :
  l_steps c = Some steps -> steps <> [] -> speeds_in_range steps -> is_nan T = false ->
  exists v, eval_lin c T = Val v /\ 0 <= v <= 255.
Proof.
  intros S Hne Hsp N. unfold eval_lin, interpolate. rewrite S.
  destruct (loop_bound_range steps true (PrimFloat.div T 1000) Hne Hsp (div1000_nan T N))
    as (y & Ey & Fy & Gy); [intros ?; discriminate|].
  rewrite Ey. destruct (final_value y Fy Gy) as [-> G]. eexists. split; [reflexivity|exact G].
Qed.

(* exactly Proofs.CurveSteps.C06_steps_range_full *)
Theorem steps_range_full : C06_steps_range_full.
Proof. intros sensor steps T Hne _ Hsp N. now apply (steps_range _ steps). Qed.

(* C07, steps form with integer non-decreasing speeds: total, in range, monotone over all floats *)
Theorem steps_int_mono c steps T1 T2 :
  l_steps c = Some steps -> steps <> [] -> steps_int_speeds steps -> speeds_nondec steps ->
  PrimFloat.leb T1 T2 = true ->
  exists v1 v2, eval_lin c T1 = Val v1 /\ eval_lin c T2 = Val v2 /\ 0 <= v1 /\ v1 <= v2 /\ v2 <= 255.
Proof.
  intros S Hne Hsp Hn L. unfold eval_lin, interpolate. rewrite S.
  destruct (div1000_mono T1 T2 L) as (N1 & N2 & Le).
  destruct (loop_bound_int 0 255 ltac:(lia) ltac:(lia) steps true _ Hne Hsp N1) as (y1 & E1 & F1 & G1); [intros ?; discriminate|].
  destruct (loop_bound_int 0 255 ltac:(lia) ltac:(lia) steps true _ Hne Hsp N2) as (y2 & E2 & F2 & G2); [intros ?; discriminate|].
  pose proof (loop_mono steps true _ _ y1 y2 Hsp Hn N1 N2 Le ltac:(intros ?; discriminate) E1 E2) as M.
  rewrite E1, E2. destruct (final_value_int y1 F1 G1) as [-> H1]. destruct (final_value_int y2 F2 G2) as [-> H2].
  eexists. eexists. split; [reflexivity|]. split; [reflexivity|].
  assert (Zfloor (R_ y1 + / 2) <= Zfloor (R_ y2 + / 2)) by (apply Zfloor_le; lra). lia.
Qed.

Theorem steps_int_leaf_mono c steps :
  l_steps c = Some steps -> steps <> [] -> steps_int_speeds steps -> speeds_nondec steps -> leaf_mono c.
Proof. intros S Hne Hsp Hn T1 T2 L. now apply (steps_int_mono c steps). Qed.

(* exactly Proofs.CurveSteps.C07_steps_integer_full *)
Theorem steps_integer_full : C07_steps_integer_full.
Proof.
  intros sensor steps T1 T2 v1 v2 Hne _ Hsp Hn L E1 E2.
  destruct (steps_int_mono (mkLin sensor 0 0 (Some steps)) steps T1 T2 eq_refl Hne Hsp Hn L) as (w1 & w2 & A1 & A2 & ? & ? & ?).
  rewrite E1 in A1. rewrite E2 in A2. inversion A1; inversion A2; subst. assumption.
Qed.
