(* One segment of CalculateInterpolatedCurveValue:
     float64(float32( cy + Ratio(x, a, b) * (ny - cy) )),   Ratio(t,a,b) = ((t-a)/(b-a) * 100) / 100
   followed operation by operation over the reals ([segR] is the real shadow; [seg_facts] says the
   float computation IS the shadow, with no overflow/NaN), then: range for ANY speeds in [0,255],
   range between the neighbouring speeds for integer speeds, monotonicity in x when cy <= ny. *)
From Coq Require Import ZArith Reals Lia Lra Floats Uint63 Bool SpecFloat Psatz.
From Flocq Require Import Core BinarySingleNaN.
From Flocq Require PrimFloat.
Import Flocq.IEEE754.PrimFloat.
From F2G Require Import Go.GoFloat Model.Util Proofs.CurveFloat Proofs.CurveLin Proofs.CurveLinMono Proofs.StepsFloat.
Open Scope Z_scope.

Section Seg.
  Variables a b cy ny : f64.
  Hypothesis Fa : fin a = true.
  Hypothesis Fb : fin b = true.
  Hypothesis Ba : (Rabs (R_ a) <= bpow radix2 63)%R.
  Hypothesis Bb : (Rabs (R_ b) <= bpow radix2 63)%R.
  Hypothesis Hab : (R_ a < R_ b)%R.
  Hypothesis Fc : fin cy = true.
  Hypothesis Fn : fin ny = true.
  Hypothesis Hc : (0 <= R_ cy <= 255)%R.
  Hypothesis Hn : (0 <= R_ ny <= 255)%R.

  Definition segW : R := rnd (R_ b - R_ a).
  Definition sg1 (t : R) : R := rnd (t - R_ a).
  Definition sg2 (t : R) : R := rnd (sg1 t / segW).
  Definition sg3 (t : R) : R := rnd (sg2 t * 100).
  Definition sg4 (t : R) : R := rnd (sg3 t / 100).
  Definition segD : R := rnd (R_ ny - R_ cy).
  Definition segP (t : R) : R := rnd (sg4 t * segD).
  Definition segS (t : R) : R := rnd (R_ cy + segP t).
  Definition segR (t : R) : R := rnd32 (segS t).

  Lemma segW_pos : (0 < segW)%R.
  Proof. apply rnd_sub_pos. exact Hab. Qed.

  Lemma sg1_range t : (R_ a <= t <= R_ b)%R -> (0 <= sg1 t <= segW)%R.
  Proof. intros H. unfold sg1, segW. split; [rewrite <- rnd_0|]; apply rnd_le; lra. Qed.

  Lemma sgq_range t : (R_ a <= t <= R_ b)%R -> (0 <= sg1 t / segW <= 1)%R.
  Proof.
    intros H. pose proof segW_pos. pose proof (sg1_range t H).
    split; [apply Rmult_le_pos; [lra|apply Rlt_le, Rinv_0_lt_compat; lra]|].
    apply Rmult_le_reg_r with segW; [lra|]. unfold Rdiv. rewrite Rmult_assoc, Rinv_l by lra. lra.
  Qed.

  Lemma sg2_range t : (R_ a <= t <= R_ b)%R -> (0 <= sg2 t <= 1)%R.
  Proof. intros H. pose proof (sgq_range t H). unfold sg2. apply rnd_between; [apply rnd_0|apply rnd_1|lra]. Qed.

  Lemma sg3_range t : (R_ a <= t <= R_ b)%R -> (0 <= sg3 t <= 100)%R.
  Proof. intros H. pose proof (sg2_range t H). unfold sg3. apply rnd_between; [apply rnd_0|apply rnd_100|lra]. Qed.

  Lemma sg4_range t : (R_ a <= t <= R_ b)%R -> (0 <= sg4 t <= 1)%R.
  Proof. intros H. pose proof (sg3_range t H). unfold sg4. apply rnd_between; [apply rnd_0|apply rnd_1|lra]. Qed.

  Lemma segD_fmt : rnd segD = segD.
  Proof. apply rnd_rnd. Qed.

  Lemma segD_range : (- R_ cy <= segD <= 255)%R.
  Proof.
    unfold segD. split.
    - rewrite <- rnd_opp_R. apply rnd_le. lra.
    - apply Rle_trans with (rnd (IZR 255)); [apply rnd_le; lra|rewrite rnd_int by reflexivity; lra].
  Qed.

  Lemma segD_err : (segD <= R_ ny - R_ cy + bpow radix2 (-45))%R.
  Proof.
    unfold segD. assert (H : (Rabs (R_ ny - R_ cy) <= 256)%R) by (apply Rabs_le; lra).
    apply rnd_err_256 in H. apply Rabs_le_inv in H. lra.
  Qed.

  Lemma segP_range t : (R_ a <= t <= R_ b)%R -> (Rmin 0 segD <= segP t <= Rmax 0 segD)%R.
  Proof.
    intros H. pose proof (sg4_range t H) as G. unfold segP.
    destruct (Rle_dec 0 segD) as [D0|D0].
    - rewrite Rmin_left, Rmax_right by lra. apply rnd_between; [apply rnd_0|apply segD_fmt|nra].
    - rewrite Rmin_right, Rmax_left by lra. apply rnd_between; [apply segD_fmt|apply rnd_0|nra].
  Qed.

  (* any speeds in [0,255]: the interpolated value stays in [0, 255.25] *)
  Lemma segS_range t : (R_ a <= t <= R_ b)%R -> (0 <= segS t <= Q255)%R.
  Proof.
    intros H. pose proof (segP_range t H) as P. pose proof segD_range as D. pose proof segD_err as E.
    assert (E45 : (bpow radix2 (-45) <= / 4)%R).
    { change (/ 4)%R with (bpow radix2 (-2)). apply bpow_le. lia. }
    unfold segS. apply rnd_between; [apply rnd_0|apply rnd_Q255|]. unfold Q255.
    destruct (Rle_dec 0 segD) as [D0|D0].
    - rewrite Rmin_left, Rmax_right in P by lra. lra.
    - rewrite Rmin_right, Rmax_left in P by lra. lra.
  Qed.

  Lemma segR_range t : (R_ a <= t <= R_ b)%R -> (0 <= segR t <= Q255)%R.
  Proof.
    intros H. pose proof (segS_range t H). unfold segR.
    apply rnd32_between; [apply rnd32_0|apply rnd32_Q255|assumption].
  Qed.

  (* integer speeds: the value lies between the two neighbouring speeds *)
  Lemma segR_range_int zc zn t : R_ cy = IZR zc -> R_ ny = IZR zn -> 0 <= zc <= 255 -> 0 <= zn <= 255 ->
    (R_ a <= t <= R_ b)%R -> (IZR (Z.min zc zn) <= segR t <= IZR (Z.max zc zn))%R.
  Proof.
    intros Ec En Hzc Hzn H. pose proof (segP_range t H) as P.
    assert (ED : segD = IZR (zn - zc)).
    { unfold segD. rewrite Ec, En, <- minus_IZR. apply rnd_int. lia. }
    assert (Ez : (IZR zn = IZR zc + segD)%R) by (rewrite ED, minus_IZR; lra).
    unfold segR, segS. rewrite Ec.
    apply rnd32_between; [apply rnd32_int; lia|apply rnd32_int; lia|].
    apply rnd_between; [apply rnd_int; lia|apply rnd_int; lia|].
    destruct (Z_le_dec zc zn) as [L|L].
    - rewrite Z.min_l, Z.max_r by lia.
      assert (D0 : (0 <= segD)%R) by (rewrite ED; apply IZR_le; lia).
      rewrite Rmin_left, Rmax_right in P by lra. lra.
    - rewrite Z.min_r, Z.max_l by lia.
      assert (D0 : (segD <= 0)%R) by (rewrite ED; apply IZR_le; lia).
      rewrite Rmin_right, Rmax_left in P by lra. lra.
  Qed.

  (* within a segment the value is monotone whenever the two speeds are ordered (any floats) *)
  Lemma segR_mono t1 t2 : (R_ cy <= R_ ny)%R -> (t1 <= t2)%R -> (segR t1 <= segR t2)%R.
  Proof.
    intros L H. pose proof segW_pos.
    assert (D0 : (0 <= segD)%R) by (unfold segD; rewrite <- rnd_0; apply rnd_le; lra).
    unfold segR, segS, segP, sg4, sg3, sg2, sg1.
    apply rnd32_le, rnd_le, Rplus_le_compat_l, rnd_le, Rmult_le_compat_r; [exact D0|].
    apply rnd_le. unfold Rdiv. apply Rmult_le_compat_r; [lra|].
    apply rnd_le. apply Rmult_le_compat_r; [lra|].
    apply rnd_le. apply Rmult_le_compat_r; [apply Rlt_le, Rinv_0_lt_compat; lra|].
    apply rnd_le. lra.
  Qed.

  (* the float computation IS the real shadow *)
  Lemma seg_facts x : fin x = true -> (R_ a < R_ x < R_ b)%R ->
    let v := to_f32 (PrimFloat.add cy (PrimFloat.mul (Ratio x a b) (PrimFloat.sub ny cy))) in
    fin v = true /\ R_ v = segR (R_ x).
  Proof.
    intros Fx Hx. cbv zeta.
    assert (Hx' : (R_ a <= R_ x <= R_ b)%R) by lra.
    assert (B64 : (bpow radix2 63 + bpow radix2 63 = bpow radix2 64)%R).
    { change 64 with (63 + 1). rewrite bpow_plus. replace (bpow radix2 1) with 2%R by (simpl; lra). lra. }
    apply Rabs_le_inv in Ba, Bb.
    assert (B1 : (Rabs (R_ x - R_ a) <= bpow radix2 64)%R) by (rewrite <- B64; apply Rabs_le; lra).
    assert (B2 : (Rabs (R_ b - R_ a) <= bpow radix2 64)%R) by (rewrite <- B64; apply Rabs_le; lra).
    destruct (fsub_correct x a 64 Fx Fa ltac:(unfold emax; lia) B1) as [F1 V1].
    destruct (fsub_correct b a 64 Fb Fa ltac:(unfold emax; lia) B2) as [F2 V2].
    fold (sg1 (R_ x)) in V1. fold segW in V2. pose proof segW_pos as HW.
    pose proof (sgq_range _ Hx') as Q1.
    assert (B3 : (Rabs (R_ (PrimFloat.sub x a) / R_ (PrimFloat.sub b a)) <= bpow radix2 0)%R).
    { rewrite V1, V2. simpl bpow. apply Rabs_le. lra. }
    destruct (fdiv_correct _ _ 0 F1 F2 ltac:(rewrite V2; lra) ltac:(unfold emax; lia) B3) as [F3 V3].
    rewrite V1, V2 in V3. fold (sg2 (R_ x)) in V3.
    pose proof (sg2_range _ Hx') as Q2.
    assert (B4 : (Rabs (R_ (PrimFloat.div (PrimFloat.sub x a) (PrimFloat.sub b a)) * R_ 100%float) <= bpow radix2 7)%R).
    { rewrite V3, R_100. simpl bpow. apply Rabs_le. lra. }
    destruct (fmul_correct _ 100%float 7 F3 eq_refl ltac:(unfold emax; lia) B4) as [F4 V4].
    rewrite V3, R_100 in V4. fold (sg3 (R_ x)) in V4.
    pose proof (sg3_range _ Hx') as Q3.
    assert (B5 : (Rabs (R_ (PrimFloat.mul (PrimFloat.div (PrimFloat.sub x a) (PrimFloat.sub b a)) 100) / R_ 100%float) <= bpow radix2 0)%R).
    { rewrite V4, R_100. simpl bpow. apply Rabs_le. lra. }
    destruct (fdiv_correct _ 100%float 0 F4 eq_refl ltac:(rewrite R_100; lra) ltac:(unfold emax; lia) B5) as [F5 V5].
    rewrite V4, R_100 in V5. fold (sg4 (R_ x)) in V5.
    pose proof (sg4_range _ Hx') as Q4.
    fold (Ratio x a b) in F5, V5.
    assert (B6 : (Rabs (R_ ny - R_ cy) <= bpow radix2 8)%R) by (simpl bpow; apply Rabs_le; lra).
    destruct (fsub_correct _ _ 8 Fn Fc ltac:(unfold emax; lia) B6) as [F6 V6].
    fold segD in V6. pose proof segD_range as HD.
    assert (B7 : (Rabs (R_ (Ratio x a b) * R_ (PrimFloat.sub ny cy)) <= bpow radix2 8)%R).
    { rewrite V5, V6. simpl bpow. apply Rabs_le. nra. }
    destruct (fmul_correct _ _ 8 F5 F6 ltac:(unfold emax; lia) B7) as [F7 V7].
    rewrite V5, V6 in V7. fold (segP (R_ x)) in V7.
    pose proof (segP_range _ Hx') as HP.
    assert (HP' : (-255 <= segP (R_ x) <= 255)%R).
    { destruct (Rle_dec 0 segD) as [D0|D0].
      - rewrite Rmin_left, Rmax_right in HP by lra. lra.
      - rewrite Rmin_right, Rmax_left in HP by lra. lra. }
    assert (B8 : (Rabs (R_ cy + R_ (PrimFloat.mul (Ratio x a b) (PrimFloat.sub ny cy))) <= bpow radix2 9)%R).
    { rewrite V7. simpl bpow. apply Rabs_le. lra. }
    destruct (fadd_correct _ _ 9 Fc F7 ltac:(unfold emax; lia) B8) as [F8 V8].
    rewrite V7 in V8. fold (segS (R_ x)) in V8.
    pose proof (segS_range _ Hx') as Q5. unfold Q255 in Q5.
    assert (B9 : (Rabs (R_ (PrimFloat.add cy (PrimFloat.mul (Ratio x a b) (PrimFloat.sub ny cy)))) <= bpow radix2 127)%R).
    { rewrite V8. apply Rle_trans with (bpow radix2 9); [simpl bpow; apply Rabs_le; lra|apply bpow_le; lia]. }
    destruct (to_f32_correct _ F8 B9) as [F9 V9]. split; [exact F9|]. rewrite V9, V8. reflexivity.
  Qed.
End Seg.
