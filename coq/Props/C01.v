(* C01 — every PWM value written while regulating stays inside the fan's limits.
   This file holds only the property theorems; each is closed by [exact]. *)
From Coq Require Import ZArith List Floats Sorting.Sorted.
From F2G Require Import Go.GoFloat gen.Consts Model.Util Model.Fan Model.ControlLoop Model.Controller
                        Proofs.Closest Proofs.Rescale Proofs.Ctrl.
Import ListNotations.
Open Scope Z_scope.

(* For EVERY fan kind and limits 0 <= min <= max <= 255, EVERY key-sorted non-empty PWM map, EVERY
   control algorithm (direct, rate-limited, PID with any gains, or an arbitrary function of
   (target, current) — [alg] has the constructor [Oracle]), EVERY initial device state and EVERY
   finite history of RPM polls, control cycles (any curve value, any elapsed time, any read / write /
   mode-write fault) and external interference:
   after every event the controller has not crashed, the requested value (if any) lies between the
   fan's minimum and maximum, and the value handed to the fan in that event (if any) is the PWM map's
   output at a supported input nearest to the request. *)
Theorem C01_envelope : forall c f a pwm mode h,
  0 <= GetMinPwm f -> GetMinPwm f <= GetMaxPwm f -> GetMaxPwm f <= 255 -> pm_ok (c_pm c) ->
  Forall (obs_ok c (GetMinPwm f) (GetMaxPwm f)) (snd (run c (init_st f a pwm mode) h)).
Proof.
  intros c f a pwm mode h H0 H1 H2 Hpm.
  exact (proj2 (run_envelope c h (init_st f a pwm mode) (GetMinPwm f) (GetMaxPwm f) H0 H2 Hpm
                             (init_inv f a pwm mode H0 H1))).
Qed.
Print Assumptions C01_envelope.

(* ... and hence an integer in 0..255 whenever the map's outputs are *)
Theorem C01_written_in_range : forall c lo hi o,
  Forall (fun kv => 0 <= snd kv <= 255) (c_pm c) -> obs_ok c lo hi o ->
  Forall (fun w => 0 <= w <= 255) (o_writes o).
Proof. exact obs_ok_written_range. Qed.
Print Assumptions C01_written_in_range.

(* the minimum of a fan without neverStop is 0 (so "between min and max" is "0..max") *)
Theorem C01_min_zero_unless_neverstop : forall f, never_stop f = false -> GetMinPwm f = 0.
Proof. exact GetMinPwm_no_neverstop. Qed.
Print Assumptions C01_min_zero_unless_neverstop.

(* the rescale into [lo, hi] on which the envelope rests (exhaustive over 0..255 cubed) *)
Theorem C01_rescale_bounds : forall t lo hi,
  0 <= t <= 255 -> 0 <= lo -> lo <= hi -> hi <= 255 -> lo <= rescale_c t lo hi <= hi.
Proof. exact rescale_bounds. Qed.
Print Assumptions C01_rescale_bounds.

(* non-vacuity: a never-stop hwmon fan with limits 50..200 on a sparse map meets the hypotheses, and a
   history with a stall raise and an out-of-range curve value stays inside the envelope *)
Example C01_nonvacuous :
  let f := mkFan HwMon true (Some 50) None (Some 200) (Some 50) None (Some 200) 0%float 0 true true in
  let c := mkCfg [(0, 0); (60, 70); (128, 128); (255, 255)] 10 1 in
  let cyc v := Cycle (mkCin (Some v) 200000000 true true true) in
  GetMinPwm f = 50 /\ GetMaxPwm f = 200 /\ pm_ok (c_pm c)
  /\ map o_req (snd (run c (init_st f (Direct None) 10 2) [cyc 0; Poll (Some 0); cyc 0; cyc 999; cyc (-7)]))
     = [Some 50; Some 50; Some 51; Some 200; Some 51].
Proof.
  cbv zeta. split; [reflexivity|]. split; [reflexivity|]. split.
  - split; [discriminate|repeat constructor].
  - vm_compute. reflexivity.
Qed.
