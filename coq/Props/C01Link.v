(* C01 observer link: the boolean observer Drv/CtrlC01.v demands nothing the verified controller model does
   not deliver. This file holds only the link theorems; each is closed by [exact]. *)
From Coq Require Import ZArith List Floats.
From F2G Require Import Model.Controller Drv.Common Drv.Ctrl Proofs.CtrlLinks Proofs.CtrlLinksC05 Proofs.CtrlLinksC10 Proofs.CtrlLinksAll.
From F2G Require Drv.CtrlC01.

(* For every well-formed driver case (see [case_wf] in Proofs/CtrlLinksAll.v; every generated case is
   well-formed, decidable by [case_wfb]) the model's own observation list satisfies the observer. *)
Theorem C01_model_passes : forall c, case_wf c -> CtrlC01.holdsb (with_obs c (model_obs c)) = true.
Proof. exact CtrlLinksAll.C01_model_passes. Qed.
Print Assumptions C01_model_passes.

(* Hence where implementation and model agree on a case, the observer passes on the implementation's
   observations: the check cannot report F (property violation) without also reporting M (mismatch). *)
Theorem C01_no_false_alarm : forall c, mismatch c = false -> case_wf c -> CtrlC01.holdsb c = true.
Proof. exact CtrlLinksAll.C01_no_false_alarm. Qed.
Print Assumptions C01_no_false_alarm.

Theorem C01_case_wfb_sound : forall c, case_wfb c = true -> case_wf c.
Proof. exact case_wfb_wf. Qed.
Print Assumptions C01_case_wfb_sound.

(* the same with only the hypotheses this observer needs: usable PWM map and sane limits ([base_wf]) *)
Theorem C01_model_passes_base : forall c, base_wf c -> CtrlC01.holdsb (with_obs c (model_obs c)) = true.
Proof. exact CtrlLinks.C01_model_passes_base. Qed.
Print Assumptions C01_model_passes_base.

(* ---- second C01 observer (Drv/CtrlC01Dev.v): what ends up in the fan's PWM control ----
   The observer judges only cases whose PWM map reads back under the device quantiser
   ([CtrlC05.reads_backb (k_pm c) (k_q c) = true]: identity / plateau / user maps on an exact device, q = 1;
   pm_quant q on the device quantising to q) -- true of every generated case, decidable by [dev_wfb].
   Without that guard its scan is false of the model: [C01_dev_needs_reads_back] (found while proving the link;
   the guard was added to Drv/CtrlC01Dev.v in response). *)
From F2G Require Proofs.CtrlLinksC01Dev Drv.CtrlC01Dev Model.Util.

Theorem C01_dev_model_passes : forall c, base_wf c -> CtrlC01Dev.holdsb (with_obs c (model_obs c)) = true.
Proof. exact CtrlLinksC01Dev.C01_dev_model_passes. Qed.
Print Assumptions C01_dev_model_passes.

Theorem C01_dev_no_false_alarm : forall c, mismatch c = false -> base_wf c -> CtrlC01Dev.holdsb c = true.
Proof. exact CtrlLinksC01Dev.C01_dev_no_false_alarm. Qed.
Print Assumptions C01_dev_no_false_alarm.

Theorem C01_dev_wfb_sound : forall c, CtrlLinksC01Dev.dev_wfb c = true -> CtrlLinksC01Dev.dev_wf c.
Proof. exact CtrlLinksC01Dev.dev_wfb_wf. Qed.
Print Assumptions C01_dev_wfb_sound.

(* a model-conformant run (mismatch = false) of a base-well-formed case on which the observer fails:
   a device quantising to multiples of 5 that initially shows 7 and a map sending everything to 7 *)
Theorem C01_dev_needs_reads_back :
  base_wfb CtrlLinksC01Dev.dev_counterexample = true
  /\ mismatch (with_obs CtrlLinksC01Dev.dev_counterexample (model_obs CtrlLinksC01Dev.dev_counterexample)) = false
  /\ CtrlC01Dev.dev_scan (k_pm CtrlLinksC01Dev.dev_counterexample) (Util.supported (k_pm CtrlLinksC01Dev.dev_counterexample))
       (k_q CtrlLinksC01Dev.dev_counterexample)
       (zip (k_hist CtrlLinksC01Dev.dev_counterexample) (model_obs CtrlLinksC01Dev.dev_counterexample)) = false
  /\ CtrlC01Dev.holdsb (with_obs CtrlLinksC01Dev.dev_counterexample (model_obs CtrlLinksC01Dev.dev_counterexample)) = true.
Proof. exact CtrlLinksC01Dev.dev_needs_reads_back. Qed.
Print Assumptions C01_dev_needs_reads_back.
