(* C02 — a never-stop fan is never driven below its minimum, and the minimum never drops.
   This file holds only the property theorems; each is closed by [exact]. *)
From Coq Require Import ZArith List Floats Sorting.Sorted.
From F2G Require Import Go.GoFloat gen.Consts Model.Util Model.Fan Model.ControlLoop Model.Controller
                        Proofs.Closest Proofs.Rescale Proofs.Ctrl.
Import ListNotations.
Open Scope Z_scope.

(* After EVERY event of EVERY history (any fan kind, limits, PWM map, control algorithm incl. an
   arbitrary function, RPM readings with any number of stall episodes, faults, interference):
   the fan's minimum is still the one it had when regulation started, and the last request is at
   least that minimum plus the number of stall raises performed so far (and at most the maximum). *)
Theorem C02_floor : forall c f a pwm mode h,
  0 <= GetMinPwm f -> GetMinPwm f <= GetMaxPwm f -> GetMaxPwm f <= 255 -> pm_ok (c_pm c) ->
  Forall (fun s' => GetMinPwm (s_fan s') = GetMinPwm f
                    /\ 0 <= s_offset s'
                    /\ forall r, s_last s' = Some r -> GetMinPwm f + s_offset s' <= r <= GetMaxPwm f)
         (states c (init_st f a pwm mode) h).
Proof. exact run_floor. Qed.
Print Assumptions C02_floor.

(* Between consecutive states the number of raises never decreases; it grows by one at a time, only for
   never-stop fans, and the request issued at that moment is the stalled request plus one. *)
Theorem C02_raise_strict : forall c f a pwm mode h,
  0 <= GetMinPwm f -> GetMinPwm f <= GetMaxPwm f -> GetMaxPwm f <= 255 -> pm_ok (c_pm c) ->
  chain raise_rel (init_st f a pwm mode) (states c (init_st f a pwm mode) h).
Proof. exact run_raises. Qed.
Print Assumptions C02_raise_strict.

(* the observations compared with the implementation are the projections of those states *)
Theorem C02_observed : forall c h s, Forall2' obs_of_state (states c s h) (snd (run c s h)).
Proof. exact run_obs_states. Qed.
Print Assumptions C02_observed.

(* file and cmd fans: the minimum is constantly 0, so the floor is the number of raises alone *)
Theorem C02_file_cmd_min : forall f, fk f <> HwMon -> GetMinPwm f = 0.
Proof. exact GetMinPwm_not_hwmon. Qed.
Print Assumptions C02_file_cmd_min.

(* non-vacuity: two stall episodes reach offset 2 with requests 50, 51, 52 *)
Example C02_nonvacuous :
  let f := mkFan HwMon true (Some 50) None None (Some 50) None None 0%float 0 true true in
  let c := mkCfg [(0, 0); (128, 128); (255, 255)] 10 1 in
  let cyc := Cycle (mkCin (Some 0) 200000000 true true true) in
  map (fun o => (o_req o, o_offset o, o_min o))
      (snd (run c (init_st f (Direct None) 10 2) [cyc; Poll (Some 0); cyc; Poll (Some 0); cyc; cyc]))
  = [(Some 50, 0, 50); (Some 50, 0, 50); (Some 51, 1, 50); (Some 51, 1, 50); (Some 52, 2, 50); (Some 52, 2, 50)].
Proof. vm_compute. reflexivity. Qed.
