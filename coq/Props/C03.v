(* C03 — stopping regulation hands the fan back or leaves it at full speed.
   This file holds only the property theorems; each is closed by [exact]. *)
From Coq Require Import ZArith Bool List.
From F2G Require Import gen.Consts Model.Restore Proofs.Restore Model.Daemon Proofs.Daemon.
Import ListNotations.
Open Scope Z_scope.

(* restorePwmEnabled, for EVERY backend, original mode/PWM, current device state
   and EVERY combination of driver verdicts for its four operations: the fan ends
   handed back (original, non-manual mode) or at PWM 255 - or the last-resort
   write of 255 itself was not carried out.  Hypothesis: not (mode write silently
   ignored AND read-back answered EACCES) - recorded finding D22, see
   C03_restore_local_full_refuted. *)
Theorem C03_restore_local :
  forall (b : backend) (ex : bool) (orig d : dev) (p : rplan),
    ~ undetectable p ->
    let r := restore repaired b ex orig p d in
    safe (mode_supported b ex) orig (r_dev r) \/ last_resort_write_failed p r.
Proof. exact restore_local. Qed.
Print Assumptions C03_restore_local.

(* the escape is not available for refused / ignored MODE writes: if the last
   PWM write is carried out the fan ends safe whatever the mode write did *)
Theorem C03_no_escape_for_mode_faults :
  forall b ex orig d p, ~ undetectable p -> p_v2 p = WOk ->
    safe (mode_supported b ex) orig (r_dev (restore repaired b ex orig p d)).
Proof. exact restore_no_escape_for_mode_faults. Qed.
Print Assumptions C03_no_escape_for_mode_faults.

(* the statement without the hypothesis is false (D22) *)
Theorem C03_restore_local_full_refuted : ~ restore_local_full.
Proof. exact restore_local_full_refuted. Qed.
Print Assumptions C03_restore_local_full_refuted.

(* D3 as found (read-back comparison dead): refuted even with a working read-back *)
Theorem C03_restore_d3_refuted :
  exists orig d p, ~ undetectable p /\ p_rb p = ROk /\
    let r := restore d3_only BHwmon true orig p d in
    ~ (safe true orig (r_dev r) \/ last_resort_write_failed p r).
Proof. exact restore_d3_refuted. Qed.
Print Assumptions C03_restore_d3_refuted.

(* the process: for EVERY configuration (any number of fans and sensors) and EVERY
   schedule - any length, any number of signals at any positions, any outcome of
   every start-up step and control cycle, any driver verdicts (D22 hypothesis per
   event) - the process never panics, and if it terminated then every controller
   whose regulation began OR whose fan was touched at all (initialisation sequence,
   PWM-map sweep) ended through restorePwmEnabled with its fan safe, or with the
   last-resort write failed.  Oracle hypotheses (SPEC): oklog/run waits
   for all actors before Run returns; os.Exit follows; a signal is delivered into
   the one-element channel buffer or dropped. *)
Theorem C03_process :
  forall fans nmons sched,
    forallb ev_detectable sched = true ->
    let s := exec repaired (init fans nmons) sched in
    (forall site, st s <> Crashed site) /\
    (terminated s ->
     forall c, In c (ctrls s) -> c_started c = true \/ c_touched c = true ->
       exists p r, c_restore c = Some (p, r) /\ c_dev c = r_dev r /\
                   (safe (sup c) (c_orig c) (c_dev c) \/ last_resort_write_failed p r)).
Proof. exact process_safe. Qed.
Print Assumptions C03_process.

(* every restore that ran (also after a failed initialisation sequence; at any point of any schedule) left its fan safe *)
Theorem C03_every_restore_safe :
  forall fans nmons sched,
    forallb ev_detectable sched = true ->
    let s := exec repaired (init fans nmons) sched in
    forall c p r, In c (ctrls s) -> c_restore c = Some (p, r) ->
      c_dev c = r_dev r /\ (safe (sup c) (c_orig c) (c_dev c) \/ last_resort_write_failed p r).
Proof. exact process_every_restore_safe. Qed.
Print Assumptions C03_every_restore_safe.

(* D2 as found: the second signal panics the process, the fan stays in manual mode at reduced speed *)
Theorem C03_process_d2_refuted :
  let s := exec d2_only (init one_fan 1) sched_two_signals in
  st s = Crashed 2 /\ map c_dev (ctrls s) = [mkDev 1 60] /\ map c_started (ctrls s) = [true].
Proof. exact process_d2_refuted. Qed.
Print Assumptions C03_process_d2_refuted.

(* D4 as found: a failing controller panics the process, the other fan stays in manual mode *)
Theorem C03_process_d4_refuted :
  let s := exec d4_only (init two_fans 1) sched_init_fails in
  st s = Crashed 4 /\ map c_dev (ctrls s) = [mkDev 1 40; mkDev 2 90].
Proof. exact process_d4_refuted. Qed.
Print Assumptions C03_process_d4_refuted.

(* D23 as found: an error return after a completed initialisation sequence left the swept fan in manual mode *)
Theorem C03_process_d23_refuted :
  let s := exec d23_only (init one_fan 0) sched_attach_fails in
  st s = Exited 1 /\ map c_dev (ctrls s) = [mkDev 1 200] /\ map c_touched (ctrls s) = [true]
  /\ map c_restore (ctrls s) = [None].
Proof. exact process_d23_refuted. Qed.
Print Assumptions C03_process_d23_refuted.
