(* C03 — stopping regulation hands the fan back or leaves it at full speed.
   This file holds only the property theorems; each is closed by [exact]. *)
From Coq Require Import ZArith Bool List.
From F2G Require Import gen.Consts Model.Restore Proofs.Restore.
Import ListNotations.
Open Scope Z_scope.

(* restorePwmEnabled, for EVERY backend, original mode/PWM, current device state
   and EVERY combination of driver verdicts for its four operations: the fan ends
   handed back (original, non-manual mode) or at PWM 255 - or the last-resort
   write of 255 itself was not carried out.  Hypothesis: not (mode write silently
   ignored AND read-back answered EACCES) - recorded finding D22, see
   C03_restore_local_full_refuted. *)
Theorem C03_restore_local :
  forall (b : backend) (ex : bool) (orig d : dev) (p : rplan),
    ~ undetectable p ->
    let r := restore repaired b ex orig p d in
    safe (mode_supported b ex) orig (r_dev r) \/ last_resort_write_failed p r.
Proof. exact restore_local. Qed.
Print Assumptions C03_restore_local.

(* the escape is not available for refused / ignored MODE writes: if the last
   PWM write is carried out the fan ends safe whatever the mode write did *)
Theorem C03_no_escape_for_mode_faults :
  forall b ex orig d p, ~ undetectable p -> p_v2 p = WOk ->
    safe (mode_supported b ex) orig (r_dev (restore repaired b ex orig p d)).
Proof. exact restore_no_escape_for_mode_faults. Qed.
Print Assumptions C03_no_escape_for_mode_faults.

(* the statement without the hypothesis is false (D22) *)
Theorem C03_restore_local_full_refuted : ~ restore_local_full.
Proof. exact restore_local_full_refuted. Qed.
Print Assumptions C03_restore_local_full_refuted.

(* D3 as found (read-back comparison dead): refuted even with a working read-back *)
Theorem C03_restore_d3_refuted :
  exists orig d p, ~ undetectable p /\ p_rb p = ROk /\
    let r := restore d3_only BHwmon true orig p d in
    ~ (safe true orig (r_dev r) \/ last_resort_write_failed p r).
Proof. exact restore_d3_refuted. Qed.
Print Assumptions C03_restore_d3_refuted.
