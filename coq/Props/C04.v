(* C04 — constant curve value: the request settles at one target, the same for every algorithm.
   This file holds only the property theorems; each is closed by [exact]. *)
From Coq Require Import ZArith Bool List Floats Lia Sorting.Sorted.
From F2G Require Import Go.GoFloat gen.Consts Model.Util Model.Fan Model.ControlLoop Model.Controller
                        Proofs.Closest Proofs.Rescale Proofs.Ctrl Proofs.CtrlC04.
Import ListNotations.
Open Scope Z_scope.

(* the steady value depends on the curve value and the (effective) limits alone: the minimum for curve
   value <= 0, the maximum for >= 255, non-decreasing in between, always inside the limits *)
Theorem C04_shape : forall lo hi, 0 <= lo -> lo <= hi -> hi <= 255 ->
  steady 0 lo hi = lo /\ steady 255 lo hi = hi
  /\ (forall v, lo <= steady v lo hi <= hi)
  /\ (forall v v', v <= v' -> steady v lo hi <= steady v' lo hi)
  /\ (forall v, v <= 0 -> steady v lo hi = lo) /\ (forall v, 255 <= v -> steady v lo hi = hi).
Proof. exact steady_shape. Qed.
Print Assumptions C04_shape.

(* direct algorithm without rate limit: from ANY state in which a request has been issued before (i.e.
   after any prior history), on a fan on which the stall branch cannot fire, ONE cycle (any elapsed
   time, any read/write/mode fault) with curve value v requests exactly the steady value *)
Theorem C04_direct : forall c s i v l lo hi,
  0 <= lo -> hi <= 255 -> pm_ok (c_pm c) -> inv lo hi s -> no_stall (s_fan s) -> s_stopped s = 0 ->
  s_alg s = Direct None -> ci_curve i = Some v -> s_last s = Some l ->
  s_last (fst (step c s (Cycle i))) = Some (steady v (lo + s_offset s) hi).
Proof. exact cycle_direct_plain. Qed.
Print Assumptions C04_direct.

(* rate-limited direct algorithm, maxPwmChangePerCycle = lim >= 1: after k+1 consecutive cycles with the
   same curve value from ANY state (loop variable t in 0..255), the request is rescale(T_{k+1}) where
   T is the iterated rate-limited step ... *)
Theorem C04_limited_run : forall c lim v lo hi, 1 <= lim -> 0 <= lo -> hi <= 255 -> pm_ok (c_pm c) ->
  forall cs s t l off,
  Forall (fun i => ci_curve i = Some v) cs ->
  inv lo hi s -> no_stall (s_fan s) -> s_stopped s = 0 -> s_alg s = Direct (Some lim) ->
  s_last s = Some l -> s_loopcur s = Some t -> 0 <= t <= 255 -> s_offset s = off ->
  forall k sk, nth_error (const_states c s cs) k = Some sk ->
    s_loopcur sk = Some (lim_iter (S k) lim v t)
    /\ s_last sk = Some (rescale_c (lim_iter (S k) lim v t) (lo + off) hi).
Proof. exact limited_run. Qed.
Print Assumptions C04_limited_run.

(* ... and that sequence of requests never changes by more than lim per cycle, moves monotonically toward
   the steady value, and equals it from cycle ceil(255/lim) on — a bound that depends on lim alone *)
Theorem C04_limited_requests : forall c v t lo hi, 1 <= c -> 0 <= t <= 255 -> 0 <= lo -> lo <= hi -> hi <= 255 ->
  let r := fun k => rescale_c (lim_iter k c v t) lo hi in
  forall k,
    Z.abs (r (S k) - r k) <= c
    /\ ((r k <= r (S k) <= steady v lo hi) \/ (steady v lo hi <= r (S k) <= r k))
    /\ (255 <= Z.of_nat k * c -> r k = steady v lo hi).
Proof. exact limited_requests. Qed.
Print Assumptions C04_limited_requests.

(* PID: the settling statement is NOT proved (global convergence of a rounded nonlinear recurrence);
   it is kept visible here and explored by simulation in the correspondence driver (labelled
   exploration in the evidence): *)
Definition C04_pid_settles_full : Prop :=
  forall (N : nat), exists n, forall c s lo hi v,
    inv lo hi s -> no_stall (s_fan s) ->
    (exists st0, s_alg s = PidA st0 /\ kp st0 = DefaultPidP /\ ki st0 = DefaultPidI /\ kd st0 = DefaultPidD) ->
    forall cs, Forall (fun i => ci_curve i = Some v /\ 50000000 <= ci_dt i <= 2000000000) cs ->
    forall k sk, (n <= k)%nat -> nth_error (const_states c s cs) k = Some sk ->
    exists r, s_last sk = Some r /\ Z.abs (r - steady v (lo + s_offset s) hi) <= 1.

(* non-vacuity: minPwm 100, curve 0, limit 10, previous loop output 200 settles at 100 (= steady 0) in
   20 cycles, never moving by more than 10 *)
Example C04_nonvacuous :
  map (fun k => rescale_c (lim_iter k 10 0 200) 100 255) [0; 1; 2; 19; 20; 21]%nat = [221; 215; 209; 106; 100; 100]
  /\ steady 0 100 255 = 100.
Proof. vm_compute. split; reflexivity. Qed.
