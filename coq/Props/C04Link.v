(* C04 observer link: the boolean observer Drv/CtrlC04.v demands nothing the verified controller model
   does not deliver, for the direct and the rate-limited algorithm (the default-PID settling rule of the
   observer is exploration and is excluded by [alg_ok]). Only link theorems, each closed by [exact]. *)
From Coq Require Import ZArith List Floats.
From F2G Require Import Model.ControlLoop Model.Controller Drv.Common Drv.Ctrl Proofs.CtrlLinks Proofs.CtrlLinksC04 Proofs.CtrlLinksAll.
From F2G Require Drv.CtrlC04.

Theorem C04_model_passes : forall c, case_wf c -> alg_ok (k_alg c) -> CtrlC04.holdsb (with_obs c (model_obs c)) = true.
Proof. exact CtrlLinksAll.C04_model_passes. Qed.
Print Assumptions C04_model_passes.

Theorem C04_no_false_alarm : forall c, mismatch c = false -> case_wf c -> alg_ok (k_alg c) -> CtrlC04.holdsb c = true.
Proof. exact CtrlLinksAll.C04_no_false_alarm. Qed.
Print Assumptions C04_no_false_alarm.

Theorem C04_alg_okb_sound : forall a, alg_okb a = true -> alg_ok a.
Proof. exact alg_okb_ok. Qed.
Print Assumptions C04_alg_okb_sound.

Theorem C04_model_passes_base : forall c, base_wf c -> alg_ok (k_alg c) -> CtrlC04.holdsb (with_obs c (model_obs c)) = true.
Proof. exact CtrlLinksC04.C04_model_passes_base. Qed.
Print Assumptions C04_model_passes_base.

(* ---- second C04 observer (Drv/CtrlC04Step.v): consecutive ordinary cycles of the rate-limited algorithm move
   the request by at most the limit, also across a change of the curve value.  Hypotheses: [base_wf] and a
   non-negative limit ([lim_ok]; implied by [alg_ok]; generated limits are 1..255).  With a negative limit the
   observer is false of the model: [C04_step_needs_lim_ok]. *)
From F2G Require Proofs.CtrlLinksC04Step Drv.CtrlC04Step.

Theorem C04_step_model_passes : forall c, base_wf c ->
  CtrlC04Step.holdsb (with_obs c (model_obs c)) = true.
Proof. exact CtrlLinksC04Step.C04_step_model_passes. Qed.
Print Assumptions C04_step_model_passes.

Theorem C04_step_no_false_alarm : forall c, mismatch c = false -> base_wf c ->
  CtrlC04Step.holdsb c = true.
Proof. exact CtrlLinksC04Step.C04_step_no_false_alarm. Qed.
Print Assumptions C04_step_no_false_alarm.

Theorem C04_step_alg_ok_suffices : forall a, alg_ok a -> CtrlLinksC04Step.lim_ok a.
Proof. exact CtrlLinksC04Step.alg_ok_lim_ok. Qed.
Print Assumptions C04_step_alg_ok_suffices.

Theorem C04_step_needs_lim_ok :
  base_wfb CtrlLinksC04Step.step_counterexample = true
  /\ CtrlC04Step.step_scan (-3) false
       (mkObs 0 None nil 0 0 0 0 (Model.Fan.GetMinPwm (case_fan CtrlLinksC04Step.step_counterexample)) 0%float)
       (zip (k_hist CtrlLinksC04Step.step_counterexample) (model_obs CtrlLinksC04Step.step_counterexample)) = false
  /\ CtrlC04Step.holdsb (with_obs CtrlLinksC04Step.step_counterexample (model_obs CtrlLinksC04Step.step_counterexample)) = true.
Proof. exact CtrlLinksC04Step.step_needs_lim_ok. Qed.
Print Assumptions C04_step_needs_lim_ok.
