(* C04 observer link: the boolean observer Drv/CtrlC04.v demands nothing the verified controller model
   does not deliver, for the direct and the rate-limited algorithm (the default-PID settling rule of the
   observer is exploration and is excluded by [alg_ok]). Only link theorems, each closed by [exact]. *)
From Coq Require Import ZArith List Floats.
From F2G Require Import Model.ControlLoop Model.Controller Drv.Common Drv.Ctrl Proofs.CtrlLinks Proofs.CtrlLinksC04 Proofs.CtrlLinksAll.
From F2G Require Drv.CtrlC04.

Theorem C04_model_passes : forall c, case_wf c -> alg_ok (k_alg c) -> CtrlC04.holdsb (with_obs c (model_obs c)) = true.
Proof. exact CtrlLinksAll.C04_model_passes. Qed.
Print Assumptions C04_model_passes.

Theorem C04_no_false_alarm : forall c, mismatch c = false -> case_wf c -> alg_ok (k_alg c) -> CtrlC04.holdsb c = true.
Proof. exact CtrlLinksAll.C04_no_false_alarm. Qed.
Print Assumptions C04_no_false_alarm.

Theorem C04_alg_okb_sound : forall a, alg_okb a = true -> alg_ok a.
Proof. exact alg_okb_ok. Qed.
Print Assumptions C04_alg_okb_sound.

Theorem C04_model_passes_base : forall c, base_wf c -> alg_ok (k_alg c) -> CtrlC04.holdsb (with_obs c (model_obs c)) = true.
Proof. exact CtrlLinksC04.C04_model_passes_base. Qed.
Print Assumptions C04_model_passes_base.
