(* C05 — external interference with a fan is undone within one control cycle.
   This file holds only the property theorems; each is closed by [exact]. *)
From Coq Require Import ZArith Bool List Floats Lia Sorting.Sorted.
From F2G Require Import Go.GoFloat gen.Consts Model.Util Model.Fan Model.ControlLoop Model.Controller
                        Proofs.Closest Proofs.Rescale Proofs.Ctrl Proofs.CtrlC05.
Import ListNotations.
Open Scope Z_scope.

(* From ANY controller state satisfying the regulation invariant — in particular the state after any
   history with interference (any mode, any PWM) at any position, see C05_any_history — one control
   cycle whose PWM write succeeds and that does not end in an error leaves the device at the PWM-map
   output of the supported input nearest to the cycle's request, and (fan with control-mode support,
   mode write succeeding) in manual mode. For every PWM map under which the fan reads back what was
   written, every control algorithm, every curve value. *)
Theorem C05_reasserted : forall c s i lo hi,
  0 <= lo -> hi <= 255 -> pm_ok (c_pm c) -> reads_back c -> inv lo hi s -> s_stopped s = 0 ->
  ci_write_ok i = true ->
  let '(s', o) := step c s (Cycle i) in
  o_err o = 0 ->
  shows c s' /\ (exists r, s_last s' = Some r)
  /\ (has_mode (s_fan s) = true -> ci_mode_ok i = true -> s_mode s' = ControlModePWM).
Proof. exact cycle_reasserts. Qed.
Print Assumptions C05_reasserted.

(* the invariant holds after every history, whatever interference it contains *)
Theorem C05_any_history : forall c h s lo hi,
  0 <= lo -> hi <= 255 -> pm_ok (c_pm c) -> inv lo hi s ->
  inv lo hi (fst (run c s h)) /\ Forall (obs_ok c lo hi) (snd (run c s h)).
Proof. exact run_envelope. Qed.
Print Assumptions C05_any_history.

(* a cycle that reaches the third-party check counts a changed PWM value exactly once, and does not
   count when the fan still shows the expected value *)
Theorem C05_counted : forall c s i lo hi l v e,
  0 <= lo -> hi <= 255 -> pm_ok (c_pm c) -> inv lo hi s -> s_stopped s = 0 ->
  s_last s = Some l -> ci_curve i = Some v -> written (c_pm c) l = FcVal e ->
  supports_pwm (s_fan s) i && ci_read_ok i = true ->
  (s_pwm s <> e -> s_cnt (fst (step c s (Cycle i))) = s_cnt s + 1)
  /\ (s_pwm s = e -> s_cnt (fst (step c s (Cycle i))) = s_cnt s).
Proof.
  intros c s i lo hi l v e H0 H1 Hpm I Hrun Hl Hv Hw Hs.
  rewrite (cycle_cnt c s i lo hi l v H0 H1 Hpm I Hrun Hl Hv).
  exact (third_party_changed c s i l e Hl Hw Hs).
Qed.
Print Assumptions C05_counted.

(* while nothing else touches the fan (no interference event) and its PWM writes succeed, the counter
   never moves — for every history of polls and cycles with any curve values and read faults *)
Theorem C05_no_false_count : forall c f a pwm mode h,
  0 <= GetMinPwm f -> GetMinPwm f <= GetMaxPwm f -> GetMaxPwm f <= 255 -> pm_ok (c_pm c) -> reads_back c ->
  Forall quiet_ev h ->
  Forall (fun s' => s_cnt s' = 0) (states c (init_st f a pwm mode) h).
Proof.
  intros c f a pwm mode h H0 H1 H2 Hpm Hrb Q.
  exact (run_quiet c h (init_st f a pwm mode) (GetMinPwm f) (GetMaxPwm f) H0 H2 Hpm Hrb
                   (init_inv f a pwm mode H0 H1) Q (init_shows c f a pwm mode)).
Qed.
Print Assumptions C05_no_false_count.

(* non-vacuity: firmware switches the fan to automatic and PWM 33 between two cycles; the next cycle
   restores manual mode and the dictated PWM and counts one third-party change *)
Example C05_nonvacuous :
  let f := mkFan HwMon false None None None None None None 0%float 0 true true in
  let c := mkCfg [(0, 0); (100, 100); (255, 255)] 10 1 in
  let cyc := Cycle (mkCin (Some 100) 200000000 true true true) in
  reads_back c /\
  map (fun o => (o_pwm o, o_mode o, o_cnt o))
      (snd (run c (init_st f (Direct None) 10 2) [cyc; Ext (Some 2) (Some 33); cyc; cyc]))
  = [(100, 1, 0); (33, 2, 0); (100, 1, 1); (100, 1, 1)].
Proof.
  cbv zeta. split.
  - intros k Hk. cbn in Hk. unfold resp. cbn [c_respq c_pm]. rewrite Z.div_1_r. lia.
  - vm_compute. reflexivity.
Qed.
