(* C05 observer link: the boolean observer Drv/CtrlC05.v demands nothing the verified controller model does
   not deliver. This file holds only the link theorems; each is closed by [exact]. *)
From Coq Require Import ZArith List Floats.
From F2G Require Import Model.Controller Drv.Common Drv.Ctrl Proofs.CtrlLinks Proofs.CtrlLinksC05 Proofs.CtrlLinksC10 Proofs.CtrlLinksAll.
From F2G Require Drv.CtrlC05.

(* For every well-formed driver case (see [case_wf] in Proofs/CtrlLinksAll.v; every generated case is
   well-formed, decidable by [case_wfb]) the model's own observation list satisfies the observer. *)
Theorem C05_model_passes : forall c, case_wf c -> CtrlC05.holdsb (with_obs c (model_obs c)) = true.
Proof. exact CtrlLinksAll.C05_model_passes. Qed.
Print Assumptions C05_model_passes.

(* Hence where implementation and model agree on a case, the observer passes on the implementation's
   observations: the check cannot report F (property violation) without also reporting M (mismatch). *)
Theorem C05_no_false_alarm : forall c, mismatch c = false -> case_wf c -> CtrlC05.holdsb c = true.
Proof. exact CtrlLinksAll.C05_no_false_alarm. Qed.
Print Assumptions C05_no_false_alarm.

Theorem C05_case_wfb_sound : forall c, case_wfb c = true -> case_wf c.
Proof. exact case_wfb_wf. Qed.
Print Assumptions C05_case_wfb_sound.

(* the same with only the hypotheses this observer needs: usable PWM map and sane limits ([base_wf]) *)
Theorem C05_model_passes_base : forall c, base_wf c -> CtrlC05.holdsb (with_obs c (model_obs c)) = true.
Proof. exact CtrlLinksC05.C05_model_passes_base. Qed.
Print Assumptions C05_model_passes_base.
