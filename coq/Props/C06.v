(* C06 — curves evaluate to their documented function, always within 0..255.
   This file holds only the property theorems; each is closed by [exact]. *)
From Coq Require Import ZArith List Floats Reals.
From Flocq Require Import Core BinarySingleNaN.
From Flocq Require PrimFloat.
From F2G Require Import Go.GoFloat Model.Util Model.ControlLoop Model.Curves
  Proofs.CurveFloat Proofs.CurveFn Proofs.CurvePid Proofs.CurveLin Proofs.CurveLinMono Proofs.CurvePidRange
  Proofs.CurveSteps Proofs.CurveMono.
Import ListNotations.
Open Scope Z_scope.

(* ---- function curves: the aggregation switch IS the documented integer function, for any
   number (< 2^40) of member values in 0..255 ---- *)
Theorem C06_fn_sum : forall vs, Forall in255 vs -> small_len vs ->
  agg FSum vs = Val (Z.min 255 (sumZ vs)).
Proof. exact fn_sum. Qed.
Print Assumptions C06_fn_sum.

Theorem C06_fn_difference : forall v r, in255 v -> Forall in255 r -> small_len r ->
  agg FDifference (v :: r) = Val (Z.max 0 (v - sumZ r)).
Proof. exact fn_difference. Qed.
Print Assumptions C06_fn_difference.

Theorem C06_fn_delta : forall v r, Forall in255 (v :: r) ->
  agg FDelta (v :: r) = Val (maxZ (v :: r) v - minZ (v :: r) v).
Proof. exact fn_delta. Qed.
Print Assumptions C06_fn_delta.

Theorem C06_fn_minimum : forall vs, Forall in255 vs -> agg FMinimum vs = Val (minZ vs 255).
Proof. exact fn_minimum. Qed.
Print Assumptions C06_fn_minimum.

Theorem C06_fn_maximum : forall vs, Forall in255 vs -> agg FMaximum vs = Val (maxZ vs 0).
Proof. exact fn_maximum. Qed.
Print Assumptions C06_fn_maximum.

Theorem C06_fn_average : forall vs, vs <> [] -> Forall in255 vs -> small_len vs ->
  agg FAverage vs = Val (sumZ vs / Z.of_nat (length vs)).
Proof. exact fn_average. Qed.
Print Assumptions C06_fn_average.

(* every aggregate of values in 0..255 is in 0..255 *)
Theorem C06_fn_range : forall ty vs, vs <> [] -> Forall in255 vs -> 0 <= agg_spec ty vs <= 255.
Proof. exact agg_spec_range. Qed.
Print Assumptions C06_fn_range.

(* nesting to any depth: the registry evaluator is the tree evaluator on the unfolding *)
Theorem C06_graph_is_tree : forall g rank fuel id e now st,
  acyclic g rank -> lookup_node g id <> None ->
  (forall i, (rank i < length g)%nat) -> (length g <= fuel)%nat ->
  exists t, unfold fuel g id = Some t /\ geval fuel g id e now st = eval t e now st.
Proof. exact geval_tree. Qed.
Print Assumptions C06_graph_is_tree.

(* ---- linear curve, min/max form (|min|, |max| < 2^40 degrees) ---- *)
(* range, for EVERY non-NaN float temperature (incl. +-Inf, 1e300, subnormals) *)
Theorem C06_lin_minmax_range : forall c T, l_steps c = None -> lin_small c -> is_nan T = false ->
  exists v, eval_lin c T = Val v /\ 0 <= v <= 255.
Proof. exact lin_minmax_range. Qed.
Print Assumptions C06_lin_minmax_range.

(* ends, over the reals: T >= max*1000 -> 255;  T < max*1000 and T <= min*1000 -> 0 *)
Theorem C06_lin_minmax_ends : forall c T, l_steps c = None -> lin_small c ->
  BinarySingleNaN.is_finite (Flocq.IEEE754.PrimFloat.Prim2B T) = true ->
  ((IZR (l_max c * 1000) <= B2R (Flocq.IEEE754.PrimFloat.Prim2B T))%R -> eval_lin c T = Val 255) /\
  ((B2R (Flocq.IEEE754.PrimFloat.Prim2B T) < IZR (l_max c * 1000))%R ->
   (B2R (Flocq.IEEE754.PrimFloat.Prim2B T) <= IZR (l_min c * 1000))%R -> eval_lin c T = Val 0).
Proof. exact lin_minmax_ends. Qed.
Print Assumptions C06_lin_minmax_ends.

(* middle: the full closeness statement (kept visible, NOT proved; the driver's observer checks it
   in exact rational arithmetic on every generated case):
       -1 - 2^-40 < value - 255*(T - min*1000)/((max-min)*1000) < 2^-40 *)
Definition C06_lin_minmax_mid_full : Prop :=
  forall c T v, l_steps c = None -> lin_small c -> l_min c < l_max c ->
  BinarySingleNaN.is_finite (Flocq.IEEE754.PrimFloat.Prim2B T) = true ->
  (IZR (l_min c * 1000) < B2R (Flocq.IEEE754.PrimFloat.Prim2B T) < IZR (l_max c * 1000))%R ->
  eval_lin c T = Val v ->
  let r := (255 * (B2R (Flocq.IEEE754.PrimFloat.Prim2B T) - IZR (l_min c * 1000)) / IZR ((l_max c - l_min c) * 1000))%R in
  (-1 - / 2 ^ 40 < IZR v - r < / 2 ^ 40)%R.
(* proved part: the value is the truncation of the thrice-rounded ratio, in range and monotone *)
Theorem C06_lin_minmax_mid_partial : forall c T1 T2, l_steps c = None -> lin_small c -> PrimFloat.leb T1 T2 = true ->
  exists v1 v2, eval_lin c T1 = Val v1 /\ eval_lin c T2 = Val v2 /\ 0 <= v1 /\ v1 <= v2 /\ v2 <= 255.
Proof. exact lin_minmax_mono. Qed.
Print Assumptions C06_lin_minmax_mid_partial.

(* ---- linear curve, steps form: proved cases (single step, at/below the first step, inside the
   first segment = Round(float32(interpolation))); the general range statement stays open ---- *)
Theorem C06_steps_partial_single : forall sensor x y T,
  eval_lin (mkLin sensor 0 0 (Some [(x, y)])) T = Val (f2i (goRound y)).
Proof. exact steps_single. Qed.
Theorem C06_steps_partial_first : forall sensor x0 y0 x1 y1 r T,
  PrimFloat.leb (PrimFloat.div T 1000) (i2f x0) = true ->
  eval_lin (mkLin sensor 0 0 (Some ((x0, y0) :: (x1, y1) :: r))) T = Val (f2i (goRound y0)).
Proof. exact steps_below_first. Qed.
Theorem C06_steps_partial_segment : forall sensor x0 y0 x1 y1 r T,
  let x := PrimFloat.div T 1000 in
  PrimFloat.leb x (i2f x0) = false -> PrimFloat.leb (i2f x1) x = false -> PrimFloat.eqb x (i2f x0) = false ->
  eval_lin (mkLin sensor 0 0 (Some ((x0, y0) :: (x1, y1) :: r))) T =
  Val (f2i (goRound (to_f32 (PrimFloat.add y0 (PrimFloat.mul (Ratio x (i2f x0) (i2f x1)) (PrimFloat.sub y1 y0)))))).
Proof. exact steps_first_segment. Qed.
Print Assumptions C06_steps_partial_segment.
Definition C06_steps_full : Prop := C06_steps_range_full.

(* ---- C06_range: proved per construct (min/max leaves above, PID below, aggregates in
   C06_fn_range) and, by structural induction to any depth, for trees of sum/max/min/average over
   leaves that are total and in range (the range half of C07_tree).  The single statement over
   ALL well-formed trees (difference/delta nodes, PID leaves with their state) stays open: *)
Definition C06_range_full : Prop := range_full.
Theorem C06_range_partial : forall t e now st, mono_tree t -> env_le_on t e e ->
  exists v, eval t e now st = (Val v, st) /\ 0 <= v <= 255.
Proof. exact tree_range. Qed.
Print Assumptions C06_range_partial.

(* ---- PID curve ---- *)
Theorem C06_pid : forall c s m now st, s_val s = Some m ->
  let rt := match lookup_pid (rt_pids st) (p_id c) with Some rt => rt | None => init_pidrt c end in
  let loopv := snd (pid_term c rt m now) in
  fst (eval_pid c s now st) = Val (pid_value loopv) /\ (is_nan loopv = false -> 0 <= pid_value loopv <= 255).
Proof. exact pid_eval_value. Qed.
Print Assumptions C06_pid.

(* ---- PID curve: the full statement is FALSE of the code (D18) ---- *)
Theorem C06_pid_nan_refuted : ~ C06_pid_full.
Proof. exact pid_nan_refuted. Qed.
Print Assumptions C06_pid_nan_refuted.

Theorem C06_pid_nan_refuted_gains : exists c calls,
  finite_pidcfg c /\ Forall (fun dm => 0 < fst dm /\ is_finite (snd dm) = true) calls /\
  In (- two63) (pid_run c calls 0 init_rts).
Proof. exact pid_nan_refuted_gains. Qed.
Print Assumptions C06_pid_nan_refuted_gains.

(* non-vacuity *)
Example C06_fn_nonvacuous :
  Forall in255 [200; 100; 7] /\ small_len [200; 100; 7] /\
  agg FSum [200; 100; 7] = Val 255 /\ agg FDifference [200; 100; 7] = Val 93 /\
  agg FDelta [200; 100; 7] = Val 193 /\ agg FAverage [200; 100; 7] = Val 102.
Proof. repeat split; try (repeat constructor; unfold in255; cbv; intuition discriminate); vm_compute; reflexivity. Qed.
