(* C06 — curves evaluate to their documented function, always within 0..255.
   This file holds only the property theorems; each is closed by [exact]. *)
From Coq Require Import ZArith List Floats.
From F2G Require Import Go.GoFloat Model.Util Model.ControlLoop Model.Curves
  Proofs.CurveFn Proofs.CurvePid.
Import ListNotations.
Open Scope Z_scope.

(* ---- function curves: the aggregation switch IS the documented integer function, for any
   number (< 2^40) of member values in 0..255 ---- *)
Theorem C06_fn_sum : forall vs, Forall in255 vs -> small_len vs ->
  agg FSum vs = Val (Z.min 255 (sumZ vs)).
Proof. exact fn_sum. Qed.
Print Assumptions C06_fn_sum.

Theorem C06_fn_difference : forall v r, in255 v -> Forall in255 r -> small_len r ->
  agg FDifference (v :: r) = Val (Z.max 0 (v - sumZ r)).
Proof. exact fn_difference. Qed.
Print Assumptions C06_fn_difference.

Theorem C06_fn_delta : forall v r, Forall in255 (v :: r) ->
  agg FDelta (v :: r) = Val (maxZ (v :: r) v - minZ (v :: r) v).
Proof. exact fn_delta. Qed.
Print Assumptions C06_fn_delta.

Theorem C06_fn_minimum : forall vs, Forall in255 vs -> agg FMinimum vs = Val (minZ vs 255).
Proof. exact fn_minimum. Qed.
Print Assumptions C06_fn_minimum.

Theorem C06_fn_maximum : forall vs, Forall in255 vs -> agg FMaximum vs = Val (maxZ vs 0).
Proof. exact fn_maximum. Qed.
Print Assumptions C06_fn_maximum.

Theorem C06_fn_average : forall vs, vs <> [] -> Forall in255 vs -> small_len vs ->
  agg FAverage vs = Val (sumZ vs / Z.of_nat (length vs)).
Proof. exact fn_average. Qed.
Print Assumptions C06_fn_average.

(* every aggregate of values in 0..255 is in 0..255 *)
Theorem C06_fn_range : forall ty vs, vs <> [] -> Forall in255 vs -> 0 <= agg_spec ty vs <= 255.
Proof. exact agg_spec_range. Qed.
Print Assumptions C06_fn_range.

(* nesting to any depth: the registry evaluator is the tree evaluator on the unfolding *)
Theorem C06_graph_is_tree : forall g rank fuel id e now st,
  acyclic g rank -> lookup_node g id <> None ->
  (forall i, (rank i < length g)%nat) -> (length g <= fuel)%nat ->
  exists t, unfold fuel g id = Some t /\ geval fuel g id e now st = eval t e now st.
Proof. exact geval_tree. Qed.
Print Assumptions C06_graph_is_tree.

(* ---- PID curve: the full statement is FALSE of the code (D18) ---- *)
Theorem C06_pid_nan_refuted : ~ C06_pid_full.
Proof. exact pid_nan_refuted. Qed.
Print Assumptions C06_pid_nan_refuted.

Theorem C06_pid_nan_refuted_gains : exists c calls,
  finite_pidcfg c /\ Forall (fun dm => 0 < fst dm /\ is_finite (snd dm) = true) calls /\
  In (- two63) (pid_run c calls 0 init_rts).
Proof. exact pid_nan_refuted_gains. Qed.
Print Assumptions C06_pid_nan_refuted_gains.

(* non-vacuity *)
Example C06_fn_nonvacuous :
  Forall in255 [200; 100; 7] /\ small_len [200; 100; 7] /\
  agg FSum [200; 100; 7] = Val 255 /\ agg FDifference [200; 100; 7] = Val 93 /\
  agg FDelta [200; 100; 7] = Val 193 /\ agg FAverage [200; 100; 7] = Val 102.
Proof. repeat split; try (repeat constructor; unfold in255; cbv; intuition discriminate); vm_compute; reflexivity. Qed.
