(* C06 — the min/max linear curve evaluates to its documented function: closeness of the mid-ramp
   value to the real formula.  This file holds only the property theorems; each is closed by [exact].
   Discharges Props.C06.C06_lin_minmax_mid_full as stated. *)
From Coq Require Import ZArith List Floats Reals.
From Flocq Require Import Core BinarySingleNaN.
From Flocq Require PrimFloat.
From F2G Require Import Go.GoFloat Model.Util Model.Curves Proofs.CurveLinMono Proofs.CurveLinMid Props.C06.
Open Scope Z_scope.

(* every finite float T strictly between min*1000 and max*1000 (|min|,|max| < 2^40, min < max):
       -1 - 2^-40 < value - 255*(T - min*1000)/((max-min)*1000) < 2^-40 *)
Theorem C06_lin_minmax_mid : forall c T v, l_steps c = None -> lin_small c -> l_min c < l_max c ->
  BinarySingleNaN.is_finite (Flocq.IEEE754.PrimFloat.Prim2B T) = true ->
  (IZR (l_min c * 1000) < B2R (Flocq.IEEE754.PrimFloat.Prim2B T) < IZR (l_max c * 1000))%R ->
  eval_lin c T = Val v ->
  let r := (255 * (B2R (Flocq.IEEE754.PrimFloat.Prim2B T) - IZR (l_min c * 1000)) / IZR ((l_max c - l_min c) * 1000))%R in
  (-1 - / 2 ^ 40 < IZR v - r < / 2 ^ 40)%R.
Proof. exact lin_minmax_mid. Qed.
Print Assumptions C06_lin_minmax_mid.

Theorem C06_lin_minmax_mid_full_proved : C06_lin_minmax_mid_full.
Proof. exact lin_minmax_mid. Qed.
Print Assumptions C06_lin_minmax_mid_full_proved.

(* non-vacuity: min 30, max 70 degrees, T = 45.5 degrees -> int(255 * 15.5/40) = 98 *)
Example C06_lin_minmax_mid_nonvacuous :
  let c := mkLin 0 30 70 None in
  l_steps c = None /\ lin_small c /\ l_min c < l_max c /\ eval_lin c 45500 = Val 98.
Proof. cbv zeta. split; [reflexivity|]. split; [split; reflexivity|]. split; [reflexivity|]. vm_compute. reflexivity. Qed.
