(* C06: (1) the range statement over ALL well-formed curve trees, assembled; (2) the observer link
   for driver `curves`: the boolean observer of Drv/Curves.v demands nothing the model does not
   deliver, except on the recorded finding D18.  Only theorems closed by [exact]. *)
From Coq Require Import ZArith List Floats.
From F2G Require Import Go.GoFloat Model.Util Model.ControlLoop Model.Curves
  Proofs.CurveFn Proofs.CurveMono Proofs.CurveRange Proofs.CurveLinks Proofs.StepsCloseLink Drv.Common Drv.Curves Props.C06.
Import ListNotations.
Open Scope Z_scope.

(* ---- (1) C06_range_full, as stated in Props/C06.v: every tree of function curves of ANY of the
   six types (any depth, 1 .. 2^40-1 members per node) over linear leaves that are total and in
   range on non-NaN readings ([leaf_range]: min/max form by C06_lin_minmax_range, steps form by
   C06_steps_range - see C06_wf_tree_of_wfb) and PID leaves: whenever Evaluate() returns a value
   and no PID term was NaN during the call, the value is in 0..255 ---- *)
Theorem C06_range_full_proved : C06_range_full.
Proof. exact range_full_proved. Qed.
Print Assumptions C06_range_full_proved.

(* and the evaluation is total - a value, never an error or a panic - when every sensor the tree
   reads is registered, linear leaves read a non-NaN average and PID leaves a successful GetValue *)
Theorem C06_total_range : forall t e now st, wf_tree t -> sens_ok t e ->
  exists v st', eval t e now st = (Val v, st') /\ (rt_nan st' = false -> 0 <= v <= 255).
Proof. exact tree_total. Qed.
Print Assumptions C06_total_range.

(* the ghost flag is monotone: a value computed while it stays false involved no NaN PID term *)
Theorem C06_nan_flag_monotone : forall t e now st o st',
  eval t e now st = (o, st') -> rt_nan st = true -> rt_nan st' = true.
Proof. exact nan_mono. Qed.

(* the observer's well-formedness test implies [wf_tree]: min < max with |min|,|max| < 2^40;
   non-empty steps with speeds in [0,255]; non-empty member lists *)
Theorem C06_wf_tree_of_wfb : forall t, wfb t = true -> wf_tree t.
Proof. exact wfb_wf_tree. Qed.
Print Assumptions C06_wf_tree_of_wfb.

(* ---- (2) no false alarm ---- *)
(* the one demand of the observer that needed a theorem of its own (proved below): closeness
   |v - exact interpolant| <= 1/2 + 2^-10 of a ROOT steps curve (keys |k| < 2^20, speeds in [0,255]) *)
Definition C06_StepsDocClose : Prop := StepsDocClose.

(* every case whose root is not a steps curve (min/max, PID, any function tree - steps curves
   below the root included): if implementation and model agree, the observer passes or the case
   is an instance of D18 *)
Theorem C06_no_false_alarm_nonsteps : forall c, root_steps c = false ->
  mismatch c = false -> holdsb c = true \/ finding_code c = 1.
Proof. exact curves_no_false_alarm_nonsteps. Qed.
Print Assumptions C06_no_false_alarm_nonsteps.

(* all cases, given that one conjunct *)
Theorem C06_no_false_alarm : StepsDocClose -> forall c,
  mismatch c = false -> holdsb c = true \/ finding_code c = 1.
Proof. exact curves_no_false_alarm. Qed.
Print Assumptions C06_no_false_alarm.

(* that conjunct is now PROVED (Proofs/StepsClose.v, StepsCloseLink.v): for every steps curve with
   keys |k| < 2^20 and speeds in [0,255] and every finite reading, the value is within 1/2 + 2^-10 of
   the exact piecewise-linear interpolant (segment error <= 2^-15 through eight binary64 roundings
   and the binary32 rounding; the code's segment choice with fl(T/1000) differs from the exact one
   only at a key; math.Round adds 1/2) *)
Theorem C06_StepsDocClose_proved : StepsDocClose.
Proof. exact steps_doc_close. Qed.
Print Assumptions C06_StepsDocClose_proved.

(* hence, unconditionally, for EVERY case of driver `curves` *)
Theorem C06_no_false_alarm_all : forall c, mismatch c = false -> holdsb c = true \/ finding_code c = 1.
Proof. exact curves_no_false_alarm_all. Qed.
Print Assumptions C06_no_false_alarm_all.

(* the documented value of a min/max curve in the observer's exact rationals follows from
   C06_lin_minmax_ends and C06_lin_minmax_mid *)
Theorem C06_lin_doc_link : forall c T v n d, wf_linb c = true -> l_steps c = None -> eval_lin c T = Val v ->
  f2q T = Some (n, d) -> lin_mm_okb (l_min c) (l_max c) n d v = true.
Proof. exact lin_mm_link. Qed.
Print Assumptions C06_lin_doc_link.

(* non-vacuity: a well-formed three-level tree with all kinds of leaves *)
Example C06_link_nonvacuous :
  let t := Fn FDifference [Fn FDelta [Lin (mkLin 0 30 70 None); Lin (mkLin 0 0 0 (Some [(-20, 0%float); (0, 10.5%float); (20, 255%float)]))];
                           PidC (mkPidCfg 7 1 50 (-0x1.999999999999ap-5) 0 0)] in
  wfb t = true /\ sens_okb [(0, mkSen (-500)%float None); (1, mkSen 0 (Some 61000%float))] t = true.
Proof. vm_compute. split; reflexivity. Qed.
