(* C06 — curves stay within 0..255: the STEPS form of the linear curve.
   This file holds only the property theorems; each is closed by [exact].
   Discharges Proofs.CurveSteps.C06_steps_range_full (= Props.C06.C06_steps_full) as stated. *)
From Coq Require Import ZArith List Floats Lia.
From F2G Require Import Go.GoFloat Model.Util Model.Curves Proofs.CurveSteps Proofs.StepsMono.
Import ListNotations.
Open Scope Z_scope.

(* the statement that Props/C06.v keeps visible as [C06_steps_full]: ANY float speeds within [0,255]
   (fractional included, not necessarily monotone), any length >= 1, EVERY non-NaN float sensor
   average (incl. +-Inf): the evaluation is total (no panic) and in 0..255 *)
Theorem C06_steps_range_full_proved : C06_steps_range_full.
Proof. exact steps_range_full. Qed.
Print Assumptions C06_steps_range_full_proved.

(* for any l_min/l_max fields; neither sortedness nor a bound of the temperature keys is needed *)
Theorem C06_steps_range : forall c steps T,
  l_steps c = Some steps -> steps <> [] -> speeds_in_range steps -> is_nan T = false ->
  exists v, eval_lin c T = Val v /\ 0 <= v <= 255.
Proof. exact steps_range. Qed.
Print Assumptions C06_steps_range.

(* non-vacuity: the fractional "dip" curve of D19 satisfies the hypotheses *)
Example C06_steps_nonvacuous :
  dip_steps <> [] /\ keys_sorted dip_steps /\ speeds_in_range dip_steps /\
  eval_lin (mkLin 0 0 0 (Some dip_steps)) 49999 = Val 189.
Proof.
  split; [discriminate|]. split; [cbn; lia|].
  split; [repeat constructor|]. vm_compute. reflexivity.
Qed.
