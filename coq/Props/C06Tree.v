(* C06_tree_full: range + documented aggregates + error/panic accounting as ONE theorem over the
   whole curve graph.  Only theorem statements closed by [exact]; proofs in Proofs/CurveTree.v. *)
From Coq Require Import ZArith Bool List Floats Lia.
From F2G Require Import Go.GoFloat Model.Util Model.ControlLoop Model.Curves
  Proofs.CurveFn Proofs.CurveMono Proofs.CurveSteps Proofs.CurveLinMono Proofs.CurveTree.
Import ListNotations.
Open Scope Z_scope.

(* For EVERY acyclic registry graph (any size), EVERY registered node id, fuel >= #curves: the node
   stands for a tree t (its unfolding, any depth, any member count < 2^40 per function curve), and
   if t is well-formed -
       linear min/max leaves with min < max (|min|,|max| < 2^40 degrees),
       steps leaves with a non-empty step map whose speeds are in [0,255] (any temperatures, any order of speeds),
       PID leaves with ANY gains and state,
       function curves of ANY of the six types with at least one member -
   and no registered sensor average is NaN, then the result (o, st') of Evaluate() is [explained]:
     o = Val v  : (no PID term of this call was NaN, i.e. rt_nan st' = false  ->  0 <= v <= 255), and if
                  t = Fn ty ms then the member loop produced values vs (one per member, in order),
                  v = the code's aggregation switch on vs, and when no PID term was NaN all of vs are
                  in 0..255 and v = agg_spec ty vs: sum capped at 255 / first minus the rest floored
                  at 0 / largest minus smallest / minimum / maximum / integer mean (sum / count);
     o = Err _  : some PID leaf's registered sensor returned an error from GetValue();
     o = Crash  : some leaf reads a sensor id that is not registered (nil interface);
     o = OutOfFuel : impossible.
   [rt_nan] is the ghost flag of Model/Curves.v; C06_pid_guard characterises it per PID leaf. *)
Theorem C06_tree_full : forall g rank fuel id e now st,
  acyclic g rank -> lookup_node g id <> None ->
  (forall i, (rank i < length g)%nat) -> (length g <= fuel)%nat ->
  exists t, unfold fuel g id = Some t /\
            (wf_curve t -> env_finite e -> explained t e now st (geval fuel g id e now st)).
Proof. exact tree_full_graph. Qed.
Print Assumptions C06_tree_full.

(* the same on trees directly (structural induction over the nested type) *)
Theorem C06_tree_full_tree : forall t e now st,
  wf_curve t -> env_finite e -> explained t e now st (eval t e now st).
Proof. exact tree_full. Qed.
Print Assumptions C06_tree_full_tree.

(* the guard, as a boolean on the PID curve's state and inputs: the loop value of this call is not NaN.
   A PID leaf raises the ghost flag exactly when the guard fails (the recorded class D18). *)
Theorem C06_pid_guard : forall c s m now st, s_val s = Some m ->
  let rt := match lookup_pid (rt_pids st) (p_id c) with Some rt => rt | None => init_pidrt c end in
  rt_nan (snd (eval_pid c s now st)) = rt_nan st || negb (pid_guardb c rt m now).
Proof. exact pid_leaf_flag. Qed.
Print Assumptions C06_pid_guard.

(* a function curve that fails returns (0, err) *)
Theorem C06_fn_error_value : forall ty ms e now st x st', eval (Fn ty ms) e now st = (Err x, st') -> x = 0.
Proof. exact fn_err_zero. Qed.

(* ---- non-vacuity: a three-level registry with all kinds of leaves, a PID curve in its second call ---- *)
Definition ex_graph : graph :=
  [(0, GFn FDifference [2; 1]); (1, GFn FDelta [3; 4]);
   (2, GPid (mkPidCfg 2 1 50 (-0x1.999999999999ap-5) (-0x1.47ae147ae147bp-8) (-0x1.47ae147ae147bp-8)));
   (3, GLin (mkLin 0 30 70 None));
   (4, GLin (mkLin 0 0 0 (Some [(-20, 0%float); (0, 0x1.5p3%float); (20, 255%float)])))].
Definition ex_rank (i : Z) : nat := if i =? 0 then 2%nat else if i =? 1 then 1%nat else 0%nat.
Definition ex_env : env := [(0, mkSen 45500%float None); (1, mkSen 0%float (Some 61000%float))].
Definition ex_st : rtstate :=
  mkRts [(2, mkRt (mkPid (-0x1.999999999999ap-5) (-0x1.47ae147ae147bp-8) (-0x1.47ae147ae147bp-8) (-10)%float (-10)%float true) 1000000000 25)] false.

Example C06_tree_full_nonvacuous :
  acyclic ex_graph ex_rank /\ (forall i, (ex_rank i < length ex_graph)%nat) /\
  (exists t, unfold 5 ex_graph 0 = Some t /\ wf_curve t) /\ env_finite ex_env /\
  geval 5 ex_graph 0 ex_env 2000000000 ex_st = (Val 11, mkRts [(2, mkRt (mkPid (-0x1.999999999999ap-5) (-0x1.47ae147ae147bp-8) (-0x1.47ae147ae147bp-8) (-11)%float (-21)%float true) 2000000000 168)] false)
  /\ pid_guardb (mkPidCfg 2 1 50 (-0x1.999999999999ap-5) (-0x1.47ae147ae147bp-8) (-0x1.47ae147ae147bp-8))
                (mkRt (mkPid (-0x1.999999999999ap-5) (-0x1.47ae147ae147bp-8) (-0x1.47ae147ae147bp-8) (-10)%float (-10)%float true) 1000000000 25)
                61000%float 2000000000 = true.
Proof.
  split; [|split; [|split; [|split; [|split]]]].
  - intros id ty ids H m Hm. unfold ex_graph in *. cbn [lookup_node] in H.
    destruct (0 =? id) eqn:E0.
    { apply Z.eqb_eq in E0. subst id. inversion H; subst.
      destruct Hm as [<-|[<-|[]]]; split; try discriminate; cbn; lia. }
    destruct (1 =? id) eqn:E1.
    { apply Z.eqb_eq in E1. subst id. inversion H; subst.
      destruct Hm as [<-|[<-|[]]]; split; try discriminate; cbn; lia. }
    destruct (2 =? id); [discriminate|]. destruct (3 =? id); [discriminate|]. destruct (4 =? id); discriminate.
  - intros i. unfold ex_rank. cbn [length ex_graph]. destruct (i =? 0); [lia|]. destruct (i =? 1); lia.
  - eexists. split; [vm_compute; reflexivity|].
    cbn [wf_curve]. unfold wf_lin, lin_small, speeds_in_range. cbn [l_steps l_min l_max].
    repeat split; try discriminate; try (cbn; lia); repeat constructor.
  - intros id s H. unfold ex_env in H. cbn [lookup_sensor] in H.
    destruct (0 =? id); [inversion H; reflexivity|]. destruct (1 =? id); [inversion H; reflexivity|discriminate].
  - vm_compute. reflexivity.
  - vm_compute. reflexivity.
Qed.
