(* C07 — hotter never means slower.
   This file holds only the property theorems; each is closed by [exact]. *)
From Coq Require Import ZArith List Floats Sorting.Sorted Lia.
From F2G Require Import Go.GoFloat Model.Util Model.Controller Model.Curves
  Proofs.CurveFn Proofs.CurveMono Proofs.CurveSteps Proofs.CurveLinMono.
Import ListNotations.
Open Scope Z_scope.

(* min/max linear curve: for ALL float temperatures T1 <= T2 (leb = true excludes NaN; +-Inf,
   1e300, subnormals included), every |min|,|max| < 2^40 (also min >= max): total, in 0..255, monotone *)
Theorem C07_lin_minmax : forall c T1 T2, l_steps c = None -> lin_small c -> PrimFloat.leb T1 T2 = true ->
  exists v1 v2, eval_lin c T1 = Val v1 /\ eval_lin c T2 = Val v2 /\ 0 <= v1 /\ v1 <= v2 /\ v2 <= 255.
Proof. exact lin_minmax_mono. Qed.
Print Assumptions C07_lin_minmax.

(* hence min/max curves are monotone leaves in the sense of C07_tree *)
Theorem C07_lin_minmax_leaf : forall c, l_steps c = None -> lin_small c -> leaf_mono c.
Proof. exact (fun c S L T1 T2 H => lin_minmax_mono c T1 T2 S L H). Qed.

(* steps with INTEGER non-decreasing speeds: statement kept visible, NOT proved (exercised by the
   driver: 340+ integer step sets per quick run, dense sweeps, no dip observed); the single-step
   case is the constant curve *)
Definition C07_steps_full_integer : Prop := C07_steps_integer_full.
Theorem C07_steps_partial : forall sensor x y T1 T2,
  eval_lin (mkLin sensor 0 0 (Some [(x, y)])) T1 = eval_lin (mkLin sensor 0 0 (Some [(x, y)])) T2.
Proof. exact (fun sensor x y T1 T2 => eq_refl). Qed.

(* sum / maximum / minimum / average preserve the pointwise order of their member values *)
Theorem C07_fn : forall ty vs vs' a a',
  mono_ty ty -> vs <> [] -> Forall in255 vs -> Forall in255 vs' -> small_len vs ->
  Forall2 Z.le vs vs' -> agg ty vs = Val a -> agg ty vs' = Val a' -> a <= a'.
Proof. exact agg_mono. Qed.
Print Assumptions C07_fn.

Theorem C07_fn_spec : forall ty vs vs', mono_ty ty -> Forall2 Z.le vs vs' -> agg_spec ty vs <= agg_spec ty vs'.
Proof. exact agg_spec_mono. Qed.
Print Assumptions C07_fn_spec.

(* trees (any depth, any width < 2^40) of monotone-preserving function curves over monotone
   leaves are monotone in the sensor state, stay within 0..255 and never fail *)
Theorem C07_tree : forall t e1 e2 now1 now2 st1 st2,
  mono_tree t -> env_le_on t e1 e2 ->
  exists v1 v2, eval t e1 now1 st1 = (Val v1, st1) /\ eval t e2 now2 st2 = (Val v2, st2)
                /\ 0 <= v1 /\ v1 <= v2 /\ v2 <= 255.
Proof. exact tree_mono. Qed.
Print Assumptions C07_tree.

(* the request is monotone in the (control-loop) target, for all fan limits *)
Theorem C07_request : forall v v' lo hi, v <= v' -> 0 <= lo -> lo <= hi -> hi <= 255 ->
  rescale_c (clamp_target v) lo hi <= rescale_c (clamp_target v') lo hi.
Proof. exact request_mono. Qed.
Print Assumptions C07_request.

(* the written value is monotone in the request, for every non-decreasing PWM map *)
Theorem C07_written : forall pm r r' w w', pm <> [] -> nondecreasing pm -> r <= r' ->
  written pm r = FcVal w -> written pm r' = FcVal w' -> w <= w'.
Proof. exact written_mono. Qed.
Print Assumptions C07_written.

(* steps with FRACTIONAL speeds: the statement is false of the code (D19) *)
Theorem C07_steps_fractional_refuted : ~ C07_steps_full.
Proof. exact steps_fractional_refuted. Qed.
Print Assumptions C07_steps_fractional_refuted.

(* non-vacuity *)
Example C07_written_nonvacuous :
  let pm := [(0, 0); (10, 0); (20, 80); (30, 80); (200, 140)] in
  pm <> [] /\ nondecreasing pm /\ written pm 109 = FcVal 80 /\ written pm 111 = FcVal 140.
Proof.
  cbv zeta. split; [discriminate|]. split; [|split; reflexivity].
  split; cbn; repeat (constructor; try lia).
Qed.
Example C07_dip_witness :
  eval_lin (mkLin 0 0 0 (Some dip_steps)) 49999 = Val 189 /\ eval_lin (mkLin 0 0 0 (Some dip_steps)) 50000 = Val 188.
Proof. exact dip_values. Qed.
