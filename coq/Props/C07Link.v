(* C07 observer links for drivers `curvesmono` and `curvesctrl`: the boolean observers demand
   nothing the model does not deliver, except on the recorded finding D19.  Only theorems closed
   by [exact]. *)
From Coq Require Import ZArith List Floats.
From F2G Require Import Go.GoFloat Model.Util Model.Curves Drv.Common Drv.Curves.
From F2G Require Drv.CurvesMono Drv.CurvesCtrl Proofs.CurveLinksMono Proofs.CurveLinksCtrl.
Import ListNotations.
Open Scope Z_scope.

(* curve level.  [case_wf]: integer step speeds are float64(int 0..255) (excludes only -0.0);
   decidable by [case_wfb]; every generated case satisfies it *)
Theorem C07_mono_no_false_alarm : forall c, CurveLinksMono.case_wf c -> CurvesMono.mismatch c = false ->
  CurvesMono.holdsb c = true \/ CurvesMono.finding_code c = 2.
Proof. exact CurveLinksMono.mono_no_false_alarm. Qed.
Print Assumptions C07_mono_no_false_alarm.

(* outside the D19 trigger class (no steps curve with a non-integer speed) the observer passes *)
Theorem C07_mono_model_passes : forall c t, CurveLinksMono.case_wf c -> tree_of c = Some t ->
  CurvesMono.has_fractionalb t = false -> CurvesMono.mismatch c = false -> CurvesMono.holdsb c = true.
Proof. exact CurveLinksMono.mono_model_passes. Qed.
Print Assumptions C07_mono_model_passes.

Theorem C07_mono_case_wfb_sound : forall c, CurveLinksMono.case_wfb c = true -> CurveLinksMono.case_wf c.
Proof. exact CurveLinksMono.case_wfb_wf. Qed.

(* request / written.  [case_wf]: PWM-map outputs are >= 0 *)
Theorem C07_ctrl_no_false_alarm : forall c, CurveLinksCtrl.case_wf c -> CurvesCtrl.mismatch c = false ->
  CurvesCtrl.holdsb c = true.
Proof. exact CurveLinksCtrl.ctrl_no_false_alarm. Qed.
Print Assumptions C07_ctrl_no_false_alarm.

Theorem C07_ctrl_case_wfb_sound : forall c, CurveLinksCtrl.case_wfb c = true -> CurveLinksCtrl.case_wf c.
Proof. exact CurveLinksCtrl.case_wfb_wf. Qed.

(* ---- history observer of the `ctrl` driver (Drv/CtrlC07.v): request monotone in the curve value at a fixed
   raise count under the plain direct algorithm; written value follows for a non-decreasing map on an exact
   device.  (Named ctrlhist: C07_ctrl_* above are the links of the curvesctrl driver.)  Hypothesis
   [CtrlLinks.base_wf]: key-sorted non-empty PWM map with outputs 0..255 and 0 <= min <= max <= 255. *)
From F2G Require Drv.Ctrl Drv.CtrlC07 Proofs.CtrlLinks Proofs.CtrlLinksC07.

Theorem C07_ctrlhist_model_passes : forall c, CtrlLinks.base_wf c ->
  CtrlC07.holdsb (CtrlLinks.with_obs c (Ctrl.model_obs c)) = true.
Proof. exact CtrlLinksC07.C07_ctrl_model_passes. Qed.
Print Assumptions C07_ctrlhist_model_passes.

Theorem C07_ctrlhist_no_false_alarm : forall c, Ctrl.mismatch c = false -> CtrlLinks.base_wf c -> CtrlC07.holdsb c = true.
Proof. exact CtrlLinksC07.C07_ctrl_no_false_alarm. Qed.
Print Assumptions C07_ctrlhist_no_false_alarm.

Theorem C07_ctrlhist_base_wfb_sound : forall c, CtrlLinks.base_wfb c = true -> CtrlLinks.base_wf c.
Proof. exact CtrlLinks.base_wfb_wf. Qed.
Print Assumptions C07_ctrlhist_base_wfb_sound.
