(* C07 — hotter never means slower: the STEPS form of the linear curve with integer speeds.
   This file holds only the property theorems; each is closed by [exact].
   Discharges Proofs.CurveSteps.C07_steps_integer_full (= Props.C07.C07_steps_full_integer) as stated. *)
From Coq Require Import ZArith List Floats Lia.
From F2G Require Import Go.GoFloat Model.Util Model.Curves Proofs.CurveSteps Proofs.CurveMono Proofs.StepsMono.
Import ListNotations.
Open Scope Z_scope.

(* the statement that Props/C07.v keeps visible as [C07_steps_full_integer]: every step list of any
   length >= 1 whose speeds are integers 0..255 (as floats) that do not decrease, ALL float sensor
   averages T1 <= T2 (leb = true excludes NaN; +-Inf, 1e300, subnormals included; the model divides
   by 1000, interpolates with Ratio, re-rounds to float32, math.Round, int()): v1 <= v2 *)
Theorem C07_steps_integer_full_proved : C07_steps_integer_full.
Proof. exact steps_integer_full. Qed.
Print Assumptions C07_steps_integer_full_proved.

(* with totality and range, for any l_min/l_max fields; neither sortedness nor a bound of the
   temperature keys is needed *)
Theorem C07_steps_integer : forall c steps T1 T2,
  l_steps c = Some steps -> steps <> [] -> steps_int_speeds steps -> speeds_nondec steps ->
  PrimFloat.leb T1 T2 = true ->
  exists v1 v2, eval_lin c T1 = Val v1 /\ eval_lin c T2 = Val v2 /\ 0 <= v1 /\ v1 <= v2 /\ v2 <= 255.
Proof. exact steps_int_mono. Qed.
Print Assumptions C07_steps_integer.

(* hence such curves are monotone leaves in the sense of C07_tree *)
Theorem C07_steps_integer_leaf : forall c steps,
  l_steps c = Some steps -> steps <> [] -> steps_int_speeds steps -> speeds_nondec steps -> leaf_mono c.
Proof. exact steps_int_leaf_mono. Qed.
Print Assumptions C07_steps_integer_leaf.

(* non-vacuity: a three-step integer curve satisfies the hypotheses and is not constant *)
Example C07_steps_nonvacuous :
  let steps := [(40, i2f 50); (50, i2f 120); (70, i2f 255)] in
  steps <> [] /\ keys_sorted steps /\ steps_int_speeds steps /\ speeds_nondec steps /\
  eval_lin (mkLin 0 0 0 (Some steps)) 45500 = Val 89 /\ eval_lin (mkLin 0 0 0 (Some steps)) 61000 = Val 194.
Proof.
  cbv zeta. split; [discriminate|]. split; [cbn; lia|].
  split; [repeat constructor; eexists; (split; [|reflexivity]); lia|].
  split; [cbn; repeat split; reflexivity|]. split; vm_compute; reflexivity.
Qed.
