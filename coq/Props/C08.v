(* C08 — sensor smoothing stays within observed readings, converges, ignores failed reads.
   This file holds only the property theorems; each is closed by [exact]. *)
From Coq Require Import ZArith List Floats.
From F2G Require Import Go.GoFloat Model.Util Model.Sensor Proofs.Sensor.
Import ListNotations.
Open Scope Z_scope.

Theorem C08_fault_skips : forall k n avg r, fault r -> poll k n avg r = avg.
Proof. exact fault_skips. Qed.
Print Assumptions C08_fault_skips.
