(* C08 — sensor smoothing stays within observed readings, converges, ignores failed reads.
   This file holds only the property theorems; each is closed by [exact].
   Model: Model/Sensor.v (GetValue result classes of the hwmon / file / cmd backends after the
   D9 repairs, updateSensor, seeding), Model/Util.v upd_avg (= UpdateSimpleMovingAvg, tied to the
   source by Proofs/LeafTie.v).  Floats are binary64 (Coq primitive floats). *)
From Coq Require Import ZArith List Floats Reals.
From F2G Require Import Go.GoFloat Model.Util Model.Sensor Proofs.SensorFloat Proofs.Sensor.
Import ListNotations.
Open Scope Z_scope.

(* A poll whose read fails, or whose command prints NaN / +-Inf, leaves the smoothed value
   unchanged -- every backend, every window size, every average. *)
Theorem C08_fault_skips : forall k n avg r, fault r -> poll k n avg r = avg.
Proof. exact fault_skips. Qed.
Print Assumptions C08_fault_skips.

(* Never poisoned: whatever the read does (fail, garbage, nan, inf, or a value within the
   magnitude guard), a finite bounded average stays finite; all window sizes >= 1. *)
Theorem C08_not_poisoned : forall k n a r, 1 <= n < 2 ^ 63 -> boundedb a = true ->
  (forall v, value_of k r = Some v -> boundedb v = true) ->
  is_finite (poll k n a r) = true.
Proof. exact not_poisoned. Qed.
Print Assumptions C08_not_poisoned.

(* Hull: along EVERY finite reading sequence with faults anywhere, for every window size >= 1,
   after every poll the average is finite and lies between two of {initial value, values read
   so far}, provided the values are inside the magnitude guard [value_ok]:
     window >= 2 : |v| <= 2^1021   (no condition at all on integer readings, see C08_int_unguarded)
     window  = 1 : integers of magnitude below 2^52 *)
Theorem C08_hull : forall k n init rs, 1 <= n < 2 ^ 63 ->
  value_ok n init -> Forall (value_ok n) (values k rs) ->
  HullRun k n [init] init rs.
Proof. exact hull. Qed.
Print Assumptions C08_hull.

(* integer readings (hwmon / file sensors, any int64 above minInt) always satisfy the window >= 2 guard *)
Theorem C08_int_unguarded : forall z, Z.abs z < 2 ^ 63 -> boundedb (i2f z) = true.
Proof. exact i2f_bounded. Qed.
Print Assumptions C08_int_unguarded.

(* The unguarded statement, kept visible: it is FALSE in binary64 (recorded finding D20). *)
Definition C08_hull_full : Prop := hull_full.

Theorem C08_hull_refuted_extreme :
  upd_avg (i2f (- 2 ^ 53)) 1 (i2f 3) = 4%float /\
  ~ HullRun KHwmon 1 [i2f (- 2 ^ 53)] (i2f (- 2 ^ 53)) [ValZ 3] /\
  avgs KCmd 2 (-1e308)%float [ValF 1e308%float; ValF 1%float; ValF 1%float] = [infinity; nan; nan] /\
  ~ HullRun KCmd 2 [(-1e308)%float] (-1e308)%float [ValF 1e308%float; ValF 1%float; ValF 1%float] /\
  ~ C08_hull_full.
Proof. exact hull_refuted_extreme. Qed.
Print Assumptions C08_hull_refuted_extreme.

(* Convergence.
   (a) What is proved of the binary64 code (partial): with window >= 2 and inside the guard, one
       poll moves the average toward the reading, never past it and never away from it -- so
       under a constant reading the distance never grows and the side never changes.
       The factor (1 - 1/n) with its rounding slack is C08_converges below; the observer
       [contractsb] of Drv/Sensor.v checks exactly that inequality (in exact integer arithmetic)
       on the implementation's own averages. *)
Theorem C08_converges_partial : forall k n a r v, 2 <= n < 2 ^ 63 ->
  boundedb a = true -> value_of k r = Some v -> boundedb v = true ->
  (fle a (poll k n a r) = true /\ fle (poll k n a r) v = true) \/
  (fle v (poll k n a r) = true /\ fle (poll k n a r) a = true).
Proof. exact between_step. Qed.
Print Assumptions C08_converges_partial.

(* (a') The binary64 contraction, proved for the code's arithmetic: with window 2 <= n < 2^53 and
       inside the guard, one poll with a valid reading x shrinks the remaining distance by the factor
       (1 - 1/n) up to the rounding slack 8*uu*(|avg|+|x|) + 2*eta0 = 2^-50*(|avg|+|x|) + 2^-1074
       (uu = 2^-53, eta0 = 2^-1075; R_of = real value of a finite float). Under a constant reading
       this is the stated geometric approach, down to the rounding floor. *)
Theorem C08_converges : forall k n a r v, 2 <= n < 2 ^ 53 ->
  boundedb a = true -> value_of k r = Some v -> boundedb v = true ->
  (Rabs (R_of v - R_of (poll k n a r)) <=
   (1 - 1 / IZR n) * Rabs (R_of v - R_of a) + 8 * uu * (Rabs (R_of a) + Rabs (R_of v)) + 2 * eta0)%R.
Proof. exact converges_step. Qed.
Print Assumptions C08_converges.

(* (b) The IDEALISATION (exact real arithmetic, no rounding -- a statement about the formula
       avg + (x - avg)/n, not about the code's floats): the distance to a constant reading
       shrinks by exactly the factor (1 - 1/n) per poll, and 0 <= 1 - 1/n < 1. *)
Theorem C08_converges_ideal : forall n a x k, 1 <= n ->
  (x - iter_ideal n a x k = (1 - 1 / IZR n) ^ k * (x - a))%R.
Proof. exact converges_ideal. Qed.
Print Assumptions C08_converges_ideal.

Theorem C08_converges_ideal_factor : forall n, 1 <= n -> (0 <= 1 - 1 / IZR n < 1)%R.
Proof. exact ideal_factor. Qed.

(* window 1 inside the guard: the average IS the last reading (distance 0 after one poll) *)
Theorem C08_window_one : forall a x, sint a -> sint x -> fin (upd_avg a 1 x) /\ R_of (upd_avg a 1 x) = R_of x.
Proof. exact step_one. Qed.
Print Assumptions C08_window_one.

(* What D9 was: the model of the code BEFORE the two repairs violates C08_fault_skips. *)
Theorem C08_d9_was_violated :
  poll_d9 KFile 10 50000%float ReadErr = 45000%float /\
  poll_d9 KCmd 10 45.5%float (ValF nan) = nan /\ poll_d9 KCmd 10 nan (ValF 46%float) = nan /\
  poll KFile 10 50000%float ReadErr = 50000%float /\ poll KCmd 10 45.5%float (ValF nan) = 45.5%float.
Proof. exact d9_was_violated. Qed.

(* ---- non-vacuity: the hypotheses are met by ordinary states ---- *)
Example C08_nonvacuous_hull :
  let rs := [ValZ 45000; ReadErr; ValZ 47000; ValZ 46500; ReadErr; ValZ 52000] in
  value_ok 10 (i2f 44000) /\ Forall (value_ok 10) (values KFile rs) /\
  value_ok 1 (i2f 44000) /\ Forall (value_ok 1) (values KHwmon rs) /\
  avgs KFile 10 (i2f 44000) rs = [44100; 44100; 44390; 44601; 44601; 45340.9]%float.
Proof.
  cbv zeta. split; [reflexivity|]. split; [repeat constructor|].
  split; [exists 44000; split; [reflexivity|reflexivity]|]. split.
  - cbn. repeat constructor; [exists 45000|exists 47000|exists 46500|exists 52000]; split; reflexivity.
  - vm_compute. reflexivity.
Qed.

Example C08_nonvacuous_cmd :
  let rs := [ValF 45.5%float; ValF nan; ValF 46.25%float; ValF infinity; ReadErr; ValF 48.3%float] in
  value_ok 5 45.3%float /\ Forall (value_ok 5) (values KCmd rs) /\ values KCmd rs = [45.5; 46.25; 48.3]%float
  /\ fault (ValF nan) /\ fault (ValF infinity) /\ fault ReadErr.
Proof.
  cbv zeta. split; [reflexivity|]. split; [repeat constructor|]. split; [reflexivity|].
  split; [right; exists nan; split; reflexivity|]. split; [right; exists infinity; split; reflexivity|]. now left.
Qed.
