(* C08 observer link ("no false alarm"): the boolean observer Drv/Sensor.v demands nothing the verified
   sensor model does not deliver. This file holds only the link theorems; each is closed by [exact]. *)
From Coq Require Import ZArith List Floats Reals.
From Flocq Require Import Core.
From F2G Require Import Go.GoFloat Model.Util Model.Sensor Proofs.SensorFloat Proofs.Sensor Drv.Sensor Proofs.SensorLinks.
Import ListNotations.
Open Scope Z_scope.

(* well-formed = the window fits the contraction theorem: c_n c < 2^53. EVERY generated case is well-formed
   (direct, hostile, corpus and monitor-loop streams use windows 1..50, 10^6 and 2^40). *)
Theorem C08_case_wfb_sound : forall c, case_wfb c = true -> case_wf c.
Proof. exact case_wfb_wf. Qed.
Print Assumptions C08_case_wfb_sound.

(* Where the implementation's seeded value and per-poll averages equal the model's, the observer
   (skip-on-fault, finite, hull, contraction) can only fail on the recorded finding D20: the check cannot
   report F (property violation) without M (mismatch) unless a value is outside the magnitude guard. *)
Theorem C08_no_false_alarm : forall c, case_wf c -> mismatch c = false -> holdsb c = true \/ finding_code c <> 0.
Proof. exact no_false_alarm. Qed.
Print Assumptions C08_no_false_alarm.

(* the finding code is given only to failing cases that the model reproduces and that leave the guard *)
Theorem C08_finding_sound : forall c, finding_code c <> 0 ->
  finding_code c = 1 /\ holdsb c = false /\ mismatch c = false /\ outside_guard c = true.
Proof. exact finding_sound. Qed.
Print Assumptions C08_finding_sound.

(* "the model passes the observer": for every well-formed case whose initial value, valid readings and
   model averages are inside the guard, the observer holds on the model's own observation *)
Theorem C08_model_passes : forall c, case_wf c -> outside_guard (with_model_obs c) = false ->
  holdsb (with_model_obs c) = true.
Proof. exact model_passes. Qed.
Print Assumptions C08_model_passes.

Theorem C08_model_obs_agrees : forall c, mismatch (with_model_obs c) = false.
Proof. exact model_obs_agrees. Qed.

(* the observer's exact integer reading of a float IS Flocq's real value: fz v = R_of v * 2^1074 *)
Theorem C08_fz_is_real_value : forall v, fin v -> exists V, fz v = Some V /\ IZR V = (R_of v * bpow radix2 1074)%R.
Proof. exact fz_R. Qed.
Print Assumptions C08_fz_is_real_value.

(* hence the observer's integer contraction check follows from theorem C08_converges (and C08_window_one) *)
Theorem C08_contractsb_model : forall n a x, 1 <= n < 2 ^ 53 -> okv n a -> okv n x ->
  contractsb n a x (upd_avg a n x) = true.
Proof. exact contractsb_model. Qed.
Print Assumptions C08_contractsb_model.

(* the guard predicates of the finding classification imply the hypotheses of the theorems *)
Theorem C08_in_guardb_okv : forall n v, in_guardb n v = true -> okv n v.
Proof. exact in_guardb_okv. Qed.

(* monitor-loop cases (mkMonCase): agreement is decided by no-panic, seeded value and per-poll averages *)
Theorem C08_mon_mismatch : forall k n i rs ok oi oa,
  mismatch (mkMonCase k n i rs ok oi oa) =
  negb (ok && feqb (model_init (mkMonCase k n i rs ok oi oa)) oi
        && list_eqb feqb (avgs k n (model_init (mkMonCase k n i rs ok oi oa)) rs) oa).
Proof. exact mon_mismatch. Qed.

(* non-vacuity: a well-formed monitor-loop case inside the guard, agreeing with the model, passing *)
Example C08_link_nonvacuous :
  let c := with_model_obs (mkMonCase KFile 3 (InitRead (ValZ 40000)) [ValZ 42000; ReadErr; ReadErr; ReadErr; ReadErr; ValZ 50000; ValZ 50000] true zero []) in
  case_wfb c = true /\ outside_guard c = false /\ mismatch c = false /\ holdsb c = true /\ finding_code c = 0.
Proof. vm_compute. repeat split. Qed.
