(* C09 — a failing sensor or fan read/write never crashes the daemon.
   This file holds only the property theorems; each is closed by [exact]. *)
From Coq Require Import ZArith Bool List String.
From F2G Require Import gen.Consts Model.Restore Proofs.Restore Model.Faults Proofs.Faults Model.Daemon Proofs.Daemon Model.FaultsOps Proofs.FaultsOps gen.PanicSites Model.PanicSites Proofs.PanicSites.
Import ListNotations.
Open Scope Z_scope.

(* for EVERY fan backend x sensor backend x curve shape (function curves nested to
   any depth), every original / initial device state and EVERY fault plan (any
   number of cycles; per cycle any fault kind on sensor reads, RPM reads, PWM
   reads from any read index on, PWM writes, mode writes; any stall verdicts):
   the closed loop either keeps regulating or stops after restorePwmEnabled left
   the fan handed back / at 255 (or the last-resort write itself failed); it
   never panics.  valid_config = function curves have members, the PWM map is not empty. *)
Theorem C09_no_crash :
  forall cb orig d0 plan, valid_config cb ->
    match run repaired cb orig d0 plan with
    | Crash _ _ => False
    | FanStopped _ p r => safe (mode_supported (cb_fan cb) (cb_enable_exists cb)) orig (r_dev r)
                          \/ last_resort_write_failed p r
    | Regulating _ => True
    end.
Proof. exact run_no_crash. Qed.
Print Assumptions C09_no_crash.

(* faults confined to RPM reads, PWM writes, mode writes and PWM reads after the
   first control cycle (no sensor fault, no stalled-at-max verdict): still regulating *)
Theorem C09_continues :
  forall cb orig d0 plan, valid_config cb -> benign plan = true ->
    exists s, run repaired cb orig d0 plan = Regulating s.
Proof. exact run_continues. Qed.
Print Assumptions C09_continues.

(* per-OPERATION fault plans: per cycle, any fault on exactly the k-th fallible
   operation of that cycle (sensor monitor read, RPM monitor probe / PWM read / RPM
   read, the Supports() probes and the first PWM read of calculateTargetPwm, every
   sensor read of the curve, probe and read of ensureNoThirdPartyIsMessingWithUs,
   mode write and read-back (and the fallback mode write), probes and read of
   setPwm, and every write / read-back of restorePwmEnabled), for every combination,
   every plan of any length: never a panic; a stop only through a safe restore *)
Theorem C09_no_crash_ops :
  forall cb orig d0 plan, valid_config cb ->
    match fst (run_ops repaired cb orig d0 plan) with
    | Crash _ _ => False
    | FanStopped _ p r => safe (mode_supported (cb_fan cb) (cb_enable_exists cb)) orig (r_dev r)
                          \/ last_resort_write_failed p r
    | Regulating _ => True
    end.
Proof. exact run_ops_no_crash. Qed.
Print Assumptions C09_no_crash_ops.

(* if every operation that was hit by a fault is of an allowed kind (anything but the
   first PWM read of the first cycle and the sensor reads of the curve) and there is
   no stalled-at-max verdict, the loop keeps regulating *)
Theorem C09_continues_ops :
  forall cb orig d0 plan, valid_config cb ->
    forallb (fun y => negb (oy_stall y)) plan = true ->
    forallb benign_trace (snd (run_ops repaired cb orig d0 plan)) = true ->
    exists s, fst (run_ops repaired cb orig d0 plan) = Regulating s.
Proof. exact run_ops_continues. Qed.
Print Assumptions C09_continues_ops.

(* process level: whatever a controller's start-up step or control cycle returns
   (errors included), a sensor monitor returning an error, any signals: the
   process never panics (every schedule of Model/Daemon.v) *)
Theorem C09_process_no_crash :
  forall fans nmons sched,
    forallb ev_detectable sched = true ->
    forall site, st (exec repaired (init fans nmons) sched) <> Crashed site.
Proof. exact (fun fans nmons sched D => proj1 (process_safe fans nmons sched D)). Qed.
Print Assumptions C09_process_no_crash.

(* D4 as found: a controller whose Run returns an error panics the process *)
Theorem C09_process_d4_refuted :
  st (exec d4_only (init two_fans 1) sched_init_fails) = Crashed 4.
Proof. exact (proj1 process_d4_refuted). Qed.
Print Assumptions C09_process_d4_refuted.

(* every explicit abrupt-termination site of internal/... in the CURRENT source (regenerated list)
   is classified: before any fan is touched / unreachable (reason) / modelled outcome / helper *)
Theorem C09_panic_sites_classified : forall s, In s sites -> exists c, classify s = Some c.
Proof. exact all_sites_classified. Qed.
Print Assumptions C09_panic_sites_classified.

(* ... and the ui.Fatal in the inner run group's interrupt handler stays dead: both actors return nil *)
Theorem C09_inner_actors_return_nil : forall r, In r inner_actor_returns -> r = "nil"%string.
Proof. exact inner_actors_return_nil. Qed.
Print Assumptions C09_inner_actors_return_nil.

(* the code as found *)
Theorem C09_d5_refuted :
  run d5_only combo_pid (mkDev 2 90) (mkDev 2 90) [quiet; sensor_fault FErr] = Crash 1 5
  /\ run d5_only combo_nested (mkDev 1 90) (mkDev 1 90) [quiet; quiet; sensor_fault FGarbage] = Crash 2 5.
Proof. exact run_d5_refuted. Qed.
Print Assumptions C09_d5_refuted.

Theorem C09_d13_refuted :
  run d13_only combo_cmd (mkDev 1 90) (mkDev 1 90) [quiet; sensor_fault FCannotStart] = Crash 1 13.
Proof. exact run_d13_refuted. Qed.
Print Assumptions C09_d13_refuted.
