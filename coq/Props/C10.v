(* C10 — a stalled never-stop fan is noticed and pushed within a bounded time.
   This file holds only the property theorems; each is closed by [exact]. *)
From Coq Require Import ZArith Bool List Floats Lia Sorting.Sorted.
From F2G Require Import Go.GoFloat gen.Consts Model.Util Model.Fan Model.ControlLoop Model.Controller
                        Proofs.Closest Proofs.Rescale Proofs.Ctrl Proofs.CtrlC10.
Import ListNotations.
Open Scope Z_scope.

(* the stall test of the current source: average strictly below 1 RPM *)
Theorem C10_stall_test_is_below_one : forall avg, stall_test avg = PrimFloat.ltb avg 1%float.
Proof. exact stall_test_unfold. Qed.
Print Assumptions C10_stall_test_is_below_one.

(* Detection step, any fan kind, any control algorithm, any state: a cycle on a never-stop fan with an RPM
   sensor whose RPM average is below the threshold and whose newly computed request equals the previous
   one EITHER raises (request + 1, one more raise, average reset to PostRaiseAvg) OR, at the maximum,
   reports ErrFanStalledAtMaxPwm (after which the controller stops and restores the fan, C03). *)
Theorem C10_stall_cycle : forall c s i lo hi l v,
  0 <= lo -> hi <= 255 -> inv lo hi s ->
  has_rpm (s_fan s) = true -> never_stop (s_fan s) = true -> stall_test (GetRpmAvg (s_fan s)) = true ->
  s_last s = Some l -> ci_curve i = Some v ->
  let '(_, t0) := alg_cycle (s_alg s) v (match s_loopcur s with Some t => t | None => l end) (ci_dt i) in
  let r := rescale_c (clamp_target t0) (lo + s_offset s) hi in
  r = l ->
  match calc_target c s i with
  | TErr _ code => code = 1 /\ hi <= l
  | TOk s1 r' => r' = l + 1 /\ s_offset s1 = s_offset s + 1 /\ l < hi
                 /\ GetRpmAvg (s_fan s1) = GetRpmAvg (SetRpmAvg (s_fan s) PostRaiseAvg)
  end.
Proof. exact stall_cycle. Qed.
Print Assumptions C10_stall_cycle.

(* no raise and no stall error while the average is at or above the threshold *)
Theorem C10_no_false_stall : forall c s i,
  stall_test (GetRpmAvg (s_fan s)) = false ->
  match calc_target c s i with
  | TErr _ code => code = 2
  | TOk s1 _ => s_offset s1 = s_offset s
  end.
Proof. exact no_stall_cycle. Qed.
Print Assumptions C10_no_false_stall.

(* file and cmd fans: ONE poll reading 0 RPM arms the stall test, whatever the fan did before
   (window sizes 1..1000, by computation over that finite range) *)
Theorem C10_file_cmd_one_poll : forall n f,
  fk f <> HwMon -> 1 <= n <= 1000 -> stall_test (GetRpmAvg (poll_rpm n f (Some 0))) = true.
Proof. exact poll_zero_file_cmd. Qed.
Print Assumptions C10_file_cmd_one_poll.

(* hwmon fans keep being pushed: right after a raise ONE further poll reading 0 RPM re-arms the stall test *)
Theorem C10_hwmon_keeps_raising : forall n f,
  fk f = HwMon -> 1 <= n <= 1000 -> rpm_avg f = PostRaiseAvg ->
  stall_test (GetRpmAvg (poll_rpm n f (Some 0))) = true.
Proof. exact poll_zero_after_raise. Qed.
Print Assumptions C10_hwmon_keeps_raising.

(* hwmon fans, first detection after the fan had been spinning: the average after a poll is
   UpdateSimpleMovingAvg of the previous one ... *)
Theorem C10_hwmon_poll : forall n f rpm, fk f = HwMon ->
  GetRpmAvg (poll_rpm n f rpm) = upd_avg (rpm_avg f) n (i2f (match rpm with Some r => r | None => 0 end)).
Proof. exact poll_rpm_hwmon. Qed.
Print Assumptions C10_hwmon_poll.
(* ... and decays below the threshold within 2*n*(log2(A)+1) polls for every prior average <= A:
   see Props/C10Decay.v (C10_hwmon_detect_bound), kept in its own file because it rests on the
   classical-reals axioms of the standard library through Flocq. *)

(* non-vacuity / regression for the defect repaired in fan2go (the old test `avg <= 0` never fired again
   once the fan had spun: the float64 average stops at the denormal 2e-323): a fan that ran at 1000 RPM and
   then reads 0 RPM is pushed for the first time after 66 polls with window size 10 *)
Example C10_nonvacuous :
  let f := mkFan HwMon true (Some 50) None None (Some 50) None None 1000%float 0 true true in
  let c := mkCfg [(0, 0); (128, 128); (255, 255)] 10 1 in
  let cyc := Cycle (mkCin (Some 0) 200000000 true true true) in
  let h := cyc :: flat_map (fun _ => [Poll (Some 0); cyc]) (seq 0 70) in
  let offs := map o_offset (snd (run c (init_st f (Direct None) 10 2) h)) in
  nth 131 offs 0 = 0 /\ nth 132 offs 0 = 1 /\ nth 140 offs 0 = 5.
Proof. vm_compute. repeat split. Qed.
