(* C10, hwmon fans — bounded detection time. Kept apart from Props/C10.v because it rests on the
   standard library's floating-point and classical-real axioms (through Flocq), which Print Assumptions lists. *)
From Coq Require Import ZArith Bool List Floats Reals Lia.
From F2G Require Import Go.GoFloat gen.Consts Model.Util Model.Fan Model.ControlLoop Model.Controller
                        Proofs.Decay Proofs.CtrlC10Decay.
Open Scope Z_scope.

(* number of RPM polls: proportional to the window size n, logarithmic in the prior RPM average *)
Theorem C10_decay_polls_formula : forall n A, decay_polls n A = 2 * n * (Z.log2_up A + 1).
Proof. reflexivity. Qed.

(* n = 10 (default), fan that ran at up to 4000 RPM: at most 260 polls; n = 10, up to 100 RPM: 160 polls *)
Example C10_decay_polls_examples : decay_polls 10 4000 = 260 /\ decay_polls 10 100 = 160 /\ decay_polls 1 4000 = 26.
Proof. vm_compute. repeat split. Qed.

Theorem C10_hwmon_detect_bound : forall n A f k,
  fk f = HwMon -> 1 <= n <= 65536 -> 1 <= A <= 2 ^ 62 ->
  GoFloat.is_finite (rpm_avg f) = true -> (0 <= RV (rpm_avg f) <= IZR A)%R ->
  (Z.to_nat (decay_polls n A) <= k)%nat ->
  stall_test (GetRpmAvg (polls0 n k f)) = true.
Proof. exact hwmon_detect. Qed.
Print Assumptions C10_hwmon_detect_bound.

(* one poll of 0 RPM shrinks any average in [1, 2^64] by the factor 1 - 1/(2n) (n >= 2), in binary64 *)
Theorem C10_decay_step : forall (x : f64) (n : Z), 2 <= n <= 65536 ->
  GoFloat.is_finite x = true -> (1 <= RV x <= 2 ^ 64)%R ->
  let y := upd_avg x n 0%float in
  GoFloat.is_finite y = true /\ (0 <= RV y <= RV x * (1 - / (2 * IZR n)))%R.
Proof. exact upd_zero_decay. Qed.
Print Assumptions C10_decay_step.
