(* C10 observer link: the boolean observer Drv/CtrlC10.v demands nothing the verified controller model does
   not deliver. This file holds only the link theorems; each is closed by [exact]. *)
From Coq Require Import ZArith List Floats.
From F2G Require Import Model.Controller Drv.Common Drv.Ctrl Proofs.CtrlLinks Proofs.CtrlLinksC05 Proofs.CtrlLinksC10 Proofs.CtrlLinksAll.
From F2G Require Drv.CtrlC10.

(* For every well-formed driver case (see [case_wf] in Proofs/CtrlLinksAll.v; every generated case is
   well-formed, decidable by [case_wfb]) the model's own observation list satisfies the observer. *)
Theorem C10_model_passes : forall c, case_wf c -> CtrlC10.holdsb (with_obs c (model_obs c)) = true.
Proof. exact CtrlLinksAll.C10_model_passes. Qed.
Print Assumptions C10_model_passes.

(* Hence where implementation and model agree on a case, the observer passes on the implementation's
   observations: the check cannot report F (property violation) without also reporting M (mismatch). *)
Theorem C10_no_false_alarm : forall c, mismatch c = false -> case_wf c -> CtrlC10.holdsb c = true.
Proof. exact CtrlLinksAll.C10_no_false_alarm. Qed.
Print Assumptions C10_no_false_alarm.

Theorem C10_case_wfb_sound : forall c, case_wfb c = true -> case_wf c.
Proof. exact case_wfb_wf. Qed.
Print Assumptions C10_case_wfb_sound.

(* the same with only the hypotheses this observer needs: [base_wf] and the window / average / poll ranges *)
Theorem C10_model_passes_base : forall c, base_wf c -> c10_wf c -> CtrlC10.holdsb (with_obs c (model_obs c)) = true.
Proof. exact CtrlLinksC10.C10_model_passes_base. Qed.
Print Assumptions C10_model_passes_base.

(* ---- second C10 observer (Drv/CtrlC10Progress.v): raises keep coming, the walk to the maximum ends ----
   needs only a usable PWM map and sane limits ([base_wf]) *)
From F2G Require Proofs.CtrlLinksC10Progress Drv.CtrlC10Progress.

Theorem C10_progress_model_passes : forall c, base_wf c -> CtrlC10Progress.holdsb (with_obs c (model_obs c)) = true.
Proof. exact CtrlLinksC10Progress.C10_progress_model_passes. Qed.
Print Assumptions C10_progress_model_passes.

Theorem C10_progress_no_false_alarm : forall c, mismatch c = false -> base_wf c -> CtrlC10Progress.holdsb c = true.
Proof. exact CtrlLinksC10Progress.C10_progress_no_false_alarm. Qed.
Print Assumptions C10_progress_no_false_alarm.

(* the arithmetic fact behind "a raise at least every second cycle": moving the floor up by one moves the
   steady request by 0 or 1 (exhaustive over curve values 0..255 and ranges 1..255) *)
Theorem C10_steady_floor_step : forall v lo hi, (0 <= lo -> lo + 1 <= hi -> hi <= 255 ->
  Controller.steady v lo hi <= Controller.steady v (lo + 1) hi <= Controller.steady v lo hi + 1)%Z.
Proof. exact CtrlLinksC10Progress.steady_floor_step. Qed.
Print Assumptions C10_steady_floor_step.

(* ---- third C10 observer (Drv/CtrlC10Keep.v): a raise is never handed back ---- *)
From F2G Require Proofs.CtrlLinksC10Keep Drv.CtrlC10Keep.

Theorem C10_keep_model_passes : forall c, base_wf c -> CtrlC10Keep.holdsb (with_obs c (model_obs c)) = true.
Proof. exact CtrlLinksC10Keep.C10_keep_model_passes. Qed.
Print Assumptions C10_keep_model_passes.

Theorem C10_keep_no_false_alarm : forall c, mismatch c = false -> base_wf c -> CtrlC10Keep.holdsb c = true.
Proof. exact CtrlLinksC10Keep.C10_keep_no_false_alarm. Qed.
Print Assumptions C10_keep_no_false_alarm.
