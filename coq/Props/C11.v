(* C11 — a configuration that validates can be run.
   This file holds only the property theorems; each is closed by [exact].
   [validate] is the model of internal/configuration/validation.go (with the D15
   repairs); its second argument is the oracle for the permission check of the
   configuration file (only consulted when cmd sensors / fans are present). *)
From Coq Require Import ZArith List Floats.
From F2G Require Import Go.GoFloat Model.Util Model.Config Proofs.ConfigGraph Proofs.Config.
Import ListNotations.
Open Scope Z_scope.

(* Acceptance implies: unique sensor, curve and fan ids; exactly one backend per
   entry; every sensor and curve reference resolves; the curve graph is acyclic. *)
Theorem C11_sound : forall cfg perm_ok, validate cfg perm_ok = Ok ->
  NoDup (sensor_ids cfg) /\ NoDup (curve_ids cfg) /\ NoDup (fan_ids cfg)
  /\ one_backend_each cfg /\ refs_resolve cfg /\ graph_acyclic cfg.
Proof. exact validate_sound. Qed.
Print Assumptions C11_sound.

(* The executable cycle check of the model (the validator itself calls Tarjan's SCC
   algorithm, an oracle exercised by the correspondence run) decides acyclicity for
   every graph closed under successors ... *)
Theorem C11_cycle_check_exact : forall nodes succ,
  (forall u v, In u nodes -> In v (succ u) -> In v nodes) ->
  (acyclicb nodes succ = true <-> acyclic nodes succ).
Proof. exact acyclicb_spec. Qed.
Print Assumptions C11_cycle_check_exact.

(* ... and, self-references being rejected beforehand, acyclicity is the validator's
   criterion "no strongly connected component has more than one node". *)
Theorem C11_scc_criterion : forall nodes succ,
  (forall u, ~ edge nodes succ u u) ->
  (big_scc nodes succ <-> exists u, tpath nodes succ u u).
Proof. exact big_scc_iff_cyclic. Qed.
Print Assumptions C11_scc_criterion.

(* Acceptance implies: sensors, curves and fans can be instantiated; for EVERY sensor
   environment (any float64 averages incl. NaN/Inf, any PID output) every curve
   evaluates to a value with fuel = number of curves (neither Crash nor OutOfFuel,
   i.e. no endless recursion); every fan gets a registered curve and a non-nil
   control loop, and one control cycle evaluates without a crash. *)
Theorem C11_runnable : forall cfg perm_ok, validate cfg perm_ok = Ok ->
  exists o, instantiate cfg = Some o
    /\ (forall e c, In c (curves cfg) -> exists v, eval_graph (length (curves cfg)) o e (c_id c) = Val v)
    /\ controllers_constructible cfg o
    /\ (forall e f, In f (o_fans o) -> exists v, run_fan (length (curves cfg)) o e f = Val v).
Proof. exact validate_runnable. Qed.
Print Assumptions C11_runnable.

(* Every configuration assembled only from the documented forms is accepted
   (cmd entries need a configuration file with safe permissions, as documented). *)
Theorem C11_complete : forall cfg perm_ok,
  documented cfg -> (has_cmd cfg = true -> perm_ok = true) -> validate cfg perm_ok = Ok.
Proof. exact documented_validates. Qed.
Print Assumptions C11_complete.

(* non-vacuity: the shipped fan2go.yaml is in the documented class, is accepted,
   and its curves evaluate; a 3-cycle, an empty `delta`, `steps: {}` and
   `controlAlgorithm: {}` are rejected (the last three crashed before the D15 repair). *)
Example C11_nonvacuous_documented : documented shipped_yaml /\ validate shipped_yaml false = Ok.
Proof. split; [apply documentedb_spec; vm_compute; reflexivity | vm_compute; reflexivity]. Qed.

Example C11_nonvacuous_eval :
  match instantiate shipped_yaml with
  | Some o => eval_graph 4 o (mkEnv (fun _ => 55000%float) (fun _ => 0)) 4 = Val 102
  | None => False
  end.
Proof. vm_compute. reflexivity. Qed.

Definition cfg_with (cs : list curve_cfg) (alg : option alg_cfg) : config :=
  mkConfig [mkSensor 1 None true false] cs [mkFan 1 1 alg false None (Some true) None].

Example C11_rejects :
  validate (cfg_with [mkCurve 1 None None (Some (mkFunc FSum [2])); mkCurve 2 None None (Some (mkFunc FSum [3]));
                      mkCurve 3 None None (Some (mkFunc FSum [1]))] None) true = ECycle
  /\ validate (cfg_with [mkCurve 1 None None (Some (mkFunc FDelta []))] None) true = EFuncEmpty
  /\ validate (cfg_with [mkCurve 1 (Some (mkLinear 1 0 0 (Some []))) None None] None) true = EStepsEmpty
  /\ validate (cfg_with [mkCurve 1 (Some (mkLinear 1 40 80 None)) None None] (Some (mkAlg None None))) true = EAlgEmpty.
Proof. vm_compute. repeat split. Qed.

(* what the unrepaired validator let through: these evaluate to crashes in the model of the run time *)
Example C11_d15_crashes :
  let e := mkEnv (fun _ => 55000%float) (fun _ => 0) in
  eval_graph 1 (mkObjs [1] [(1, CFunc (mkFunc FDelta []))] []) e 1 = Crash SIndexEmpty
  /\ eval_graph 1 (mkObjs [1] [(1, CFunc (mkFunc FAvg []))] []) e 1 = Crash SDivZero
  /\ eval_graph 1 (mkObjs [1] [(1, CLinear (mkLinear 1 0 0 (Some [])))] []) e 1 = Crash SEmptySteps
  /\ run_fan 1 (mkObjs [1] [(1, CLinear (mkLinear 1 40 80 None))] [mkFanObj 1 1 None]) e (mkFanObj 1 1 None) = Crash SNilLoop.
Proof. vm_compute. repeat split. Qed.
