(* C11 observer link: the boolean observer of Drv/Config.v demands nothing the verified
   model does not deliver. This file holds only the link theorems; each is closed by [exact]. *)
From Coq Require Import ZArith List Floats.
From F2G Require Import Model.Config Drv.Common Drv.Config Proofs.ConfigLinks.

(* The model's own observation of any configuration (its verdict; for an accepted one its
   instantiation and the outcome of every curve evaluation and fan cycle) satisfies the observer. *)
Theorem C11_model_passes : forall cfg perm_ok, holdsb (model_case cfg perm_ok) = true.
Proof. exact model_passes. Qed.
Print Assumptions C11_model_passes.

(* Hence where implementation and model agree on a case the observer passes on the
   implementation's observation: no F without M.  No well-formedness condition is needed
   ([case_wf] is [True]; kept for uniformity with the other link files). *)
Theorem C11_no_false_alarm : forall c, case_wf c -> mismatch c = false -> holdsb c = true.
Proof. exact no_false_alarm. Qed.
Print Assumptions C11_no_false_alarm.

Theorem C11_case_wfb_sound : forall c, case_wfb c = true -> case_wf c.
Proof. exact case_wfb_wf. Qed.
Print Assumptions C11_case_wfb_sound.
