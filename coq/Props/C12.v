(* C12 — the fan receives the nearest value it supports.
   This file holds only the property theorems; each is closed by [exact]. *)
From Coq Require Import ZArith List Sorting.Sorted.
From F2G Require Import Go.GoFloat Model.Util Proofs.Closest.
Import ListNotations.
Open Scope Z_scope.

(* binary search with neighbour comparison: for EVERY strictly sorted non-empty
   slice (any length) and EVERY integer request the result is a nearest element;
   it never panics and never runs out of the fuel the model gives the loop. *)
Theorem C12_nearest : forall t arr,
  sorted_idx arr -> arr <> [] ->
  exists k, FindClosest t arr = FcVal k /\ nearest arr t k.
Proof. exact FindClosest_nearest. Qed.
Print Assumptions C12_nearest.

Theorem C12_exact : forall t arr,
  sorted_idx arr -> In t arr -> FindClosest t arr = FcVal t.
Proof. exact FindClosest_exact. Qed.
Print Assumptions C12_exact.

(* supported inputs = first key of each maximal run of equal outputs (key order),
   for every map whose outputs avoid the sentinel -1 (outputs are PWM values). *)
Theorem C12_supported : forall pm,
  Forall (fun kv => snd kv <> -1) pm -> supported pm = run_starts None pm.
Proof. exact supported_run_starts. Qed.
Print Assumptions C12_supported.

(* what setPwm hands to the fan: the map's output at a nearest supported input *)
Theorem C12_written : forall pm r,
  pm <> [] -> StronglySorted Z.lt (map fst pm) ->
  exists k, FindClosest r (supported pm) = FcVal k /\ nearest (supported pm) r k
            /\ written pm r = FcVal (lookup pm k) /\ In (lookup pm k) (map snd pm).
Proof. exact written_spec. Qed.
Print Assumptions C12_written.

(* non-vacuity: a sparse, non-monotonic map meets the hypotheses *)
Example C12_nonvacuous :
  let pm := [(0, 0); (10, 0); (20, 80); (30, 80); (200, 40)] in
  pm <> [] /\ StronglySorted Z.lt (map fst pm) /\ Forall (fun kv => snd kv <> -1) pm
  /\ supported pm = [0; 20; 200] /\ written pm 111 = FcVal 40 /\ written pm 109 = FcVal 80.
Proof.
  cbv zeta. repeat split; try discriminate.
  - repeat constructor.
  - repeat constructor; discriminate.
Qed.
