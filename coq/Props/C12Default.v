(* C12 on the default PWM map (fans whose PWM cannot be swept).
   This file holds only property theorems; each is closed by [exact]. *)
From Coq Require Import ZArith List.
From F2G Require Import Go.GoFloat Model.Util Model.Controller Model.Startup Proofs.DefaultMap Proofs.DefaultMapCtl.
Import ListNotations.
Open Scope Z_scope.

(* the default map computed by InterpolateLinearlyInt({0:0,255:255},0,255) — float64
   ratio, float32 rounding, truncation — is exactly the identity on 0..255 *)
Theorem C12_default_map_is_identity : interp_default = Some default_map.
Proof. exact default_map_is_interpolated. Qed.
Print Assumptions C12_default_map_is_identity.

(* through it, EVERY integer request is written as itself clamped to 0..255 *)
Theorem C12_default_map_clamps : forall r, written default_map r = FcVal (Z.max 0 (Z.min 255 r)).
Proof. exact written_default_clamp. Qed.
Print Assumptions C12_default_map_clamps.

(* composed with the controller: for ANY curve value and any limits 0 <= lo <= hi <= 255
   the fan without PWM read-back receives exactly the rescaled request, inside the limits *)
Theorem C12_default_map_steady : forall v lo hi,
  0 <= lo -> lo <= hi -> hi <= 255 ->
  written default_map (Model.Controller.steady v lo hi) = FcVal (Model.Controller.steady v lo hi)
  /\ lo <= Model.Controller.steady v lo hi <= hi.
Proof. exact Proofs.DefaultMapCtl.written_default_steady. Qed.
Print Assumptions C12_default_map_steady.
