(* C12 — the fan receives the nearest value it supports: consequences that hold
   for EVERY map and request (no bound on the map's size).
   This file holds only property theorems; each is closed by [exact]. *)
From Coq Require Import ZArith List Sorting.Sorted.
From F2G Require Import Go.GoFloat Model.Util Proofs.Closest Proofs.ClosestMono.
Import ListNotations.
Open Scope Z_scope.

(* a larger request never selects a smaller supported input *)
Theorem C12_selection_monotone : forall arr t1 t2 k1 k2,
  sorted_idx arr -> arr <> [] -> t1 <= t2 ->
  FindClosest t1 arr = FcVal k1 -> FindClosest t2 arr = FcVal k2 -> k1 <= k2.
Proof. exact FindClosest_monotone. Qed.
Print Assumptions C12_selection_monotone.

(* a request that is itself supported is handed through with its own mapped output *)
Theorem C12_supported_fixed_point : forall pm k,
  StronglySorted Z.lt (map fst pm) -> In k (supported pm) ->
  written pm k = FcVal (lookup pm k).
Proof. exact written_fixed_point. Qed.
Print Assumptions C12_supported_fixed_point.

(* with non-decreasing outputs along the keys, the value handed to the fan is
   monotone in the request: rounding to the nearest supported input never
   inverts the order of two requests *)
Theorem C12_written_monotone : forall pm r1 r2 v1 v2,
  pm <> [] -> StronglySorted Z.lt (map fst pm) -> StronglySorted Z.le (map snd pm) -> r1 <= r2 ->
  written pm r1 = FcVal v1 -> written pm r2 = FcVal v2 -> v1 <= v2.
Proof. exact written_monotone. Qed.
Print Assumptions C12_written_monotone.

(* non-vacuity: a quantising map with plateaus meets the hypotheses, and the
   conclusion is observed on it *)
Example C12Mono_nonvacuous :
  let pm := [(0, 0); (1, 0); (2, 64); (3, 64); (4, 64); (200, 255)] in
  pm <> [] /\ StronglySorted Z.lt (map fst pm) /\ StronglySorted Z.le (map snd pm)
  /\ supported pm = [0; 2; 200] /\ written pm 100 = FcVal 64 /\ written pm 102 = FcVal 255
  /\ written pm 2 = FcVal 64.
Proof.
  cbv zeta. repeat split; try discriminate.
  - repeat constructor.
  - repeat constructor; cbv; discriminate.
Qed.

(* nothing the map can produce is lost by the reduction to supported inputs:
   every output value of the map is still written for some supported request *)
Theorem C12_outputs_reachable : forall pm v,
  StronglySorted Z.lt (map fst pm) -> Forall (fun kv => snd kv <> -1) pm ->
  In v (map snd pm) -> exists k, In k (supported pm) /\ written pm k = FcVal v.
Proof. exact supported_covers_outputs. Qed.
Print Assumptions C12_outputs_reachable.
