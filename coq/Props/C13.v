(* C13 - measured fan limits follow the RPM curve; configured limits always win.
   This file holds only the property theorems; each is closed by [exact].

   Vocabulary (Proofs/Limits.v, Model/Limits.v, Model/Fan.v):
     rpm_curve      key-sorted association list PWM -> RPM (float64, ANY value)
     whole r        Go's int(r) on amd64: truncation; NaN, +-Inf, |r| >= 2^63 give -2^63
     start_spec d s s is the lowest key of d whose whole RPM is > 0;  s = 255 if there is none
     max_spec d m   m is the lowest key of d at which the highest whole RPM is reached
                    (and that RPM is > 0);  m = 255 if nothing spins
     new_fan        fans.NewFan;  attachL = AttachFanRpmCurveData;  step/run_ops = call sequences
   RPM values that are NaN, infinite, negative or below 1 count as "not spinning"
   because int() of them is <= 0 - the theorems hold for every float64. *)
From Coq Require Import ZArith List Floats.
From F2G Require Import Go.GoFloat Model.Fan Model.Limits Proofs.Limits Drv.Limits Proofs.LimitsBridge.
From F2G Require Drv.LimitsRun.
Import ListNotations.
Open Scope Z_scope.

(* no configured startPwm: after attaching data to a fresh fan the start PWM is the
   lowest measured PWM with non-zero whole RPM (255 if none). Keys are PWM values
   (<= 255); the curve need not even be sorted for this part. *)
Theorem C13_start : forall ns mn mx data f',
  attachL (new_fan HwMon ns mn None mx) data = Some f' ->
  keys_le_255 data -> start_spec data (GetStartPwm f').
Proof. exact fresh_start. Qed.
Print Assumptions C13_start.

(* no configured maxPwm: the max PWM is the lowest measured PWM at which the highest
   whole RPM is reached (255 if all whole RPMs are <= 0) *)
Theorem C13_max : forall ns mn st data f',
  attachL (new_fan HwMon ns mn st None) data = Some f' ->
  sorted_keys data -> max_spec data (GetMaxPwm f').
Proof. exact fresh_max. Qed.
Print Assumptions C13_max.

(* the same two statements for a fan in ANY state (after earlier attachments, setter calls, ...) *)
Theorem C13_start_any_state : forall f data f',
  fk f = HwMon -> cfg_start f = None -> attachL f data = Some f' ->
  keys_le_255 data -> start_spec data (GetStartPwm f').
Proof. exact attach_start_measured. Qed.
Print Assumptions C13_start_any_state.

Theorem C13_max_any_state : forall f data f',
  fk f = HwMon -> cfg_max f = None -> attachL f data = Some f' ->
  sorted_keys data -> max_spec data (GetMaxPwm f').
Proof. exact attach_max_measured. Qed.
Print Assumptions C13_max_any_state.

(* given no measurements the call is refused with os.ErrInvalid (code 1) and the fan is
   unchanged - whatever its state; and empty data is the only thing ever refused *)
Theorem C13_empty : forall f, fk f = HwMon -> step f (Attach []) = (f, 1).
Proof. exact empty_refused. Qed.
Print Assumptions C13_empty.

Theorem C13_only_empty_refused : forall f data,
  fk f = HwMon -> snd (step f (Attach data)) <> 0 -> data = [].
Proof. exact refused_only_empty. Qed.
Print Assumptions C13_only_empty_refused.

(* a configured minPwm / startPwm / maxPwm keeps its configured value through ANY
   sequence of attachments (of any data) and non-forced setter calls *)
Theorem C13_config_wins : forall ns mn st mx ops,
  Forall (fun o => forced o = false) ops ->
  let f := run_ops (new_fan HwMon ns mn st mx) ops in
  (forall x, mn = Some x -> GetMinPwm f = if ns then x else 0) /\
  (forall x, st = Some x -> GetStartPwm f = x) /\
  (forall x, mx = Some x -> GetMaxPwm f = x).
Proof. exact config_wins. Qed.
Print Assumptions C13_config_wins.

(* a fan without neverStop has minimum 0 in every reachable state: every kind of fan,
   every starting state, every call sequence (forced calls included) *)
Theorem C13_no_neverstop : forall f0 ops,
  never_stop f0 = false -> GetMinPwm (run_ops f0 ops) = 0.
Proof. exact no_neverstop_always. Qed.
Print Assumptions C13_no_neverstop.

(* file and cmd fans: the limits are the constants 0 / 1 / 255 and no call returns an error *)
Theorem C13_other_kinds_constant : forall k ns mn st mx ops,
  k <> HwMon ->
  limits (run_ops (new_fan k ns mn st mx) ops) = (0, 1, 255) /\
  Forall (fun e => fst e = 0) (run_obs (new_fan k ns mn st mx) ops).
Proof. exact other_kinds_constant. Qed.
Print Assumptions C13_other_kinds_constant.

(* repeated attachment: after any sequence of attachments and non-forced setter calls,
   attaching [data] leaves the fan exactly where a fresh fan would be after attaching
   [data] alone - the limits are those of the LAST data. (False of the code before
   commit "fix: re-attaching RPM curve data ..." - D16; true of the repaired code.) *)
Definition C13_reattach_full : Prop :=
  forall ns mn st mx ops data,
    Forall (fun o => forced o = false) ops -> data <> [] ->
    run_ops (new_fan HwMon ns mn st mx) (ops ++ [Attach data]) =
    run_ops (new_fan HwMon ns mn st mx) [Attach data].

Theorem C13_reattach : C13_reattach_full.
Proof. exact reattach_full. Qed.
Print Assumptions C13_reattach.

(* regression witness: the pre-repair attach (Model.Fan.attach) violates the statement *)
Theorem C13_reattach_fails_before_repair :
  exists ops data, Forall (fun o => forced o = false) ops /\ data <> [] /\
    limits (run_ops_old (new_fan HwMon false None None None) (ops ++ [Attach data])) <>
    limits (run_ops_old (new_fan HwMon false None None None) [Attach data]).
Proof. exact reattach_old_model_witness. Qed.
Print Assumptions C13_reattach_fails_before_repair.

(* the boolean observer run on the implementation's observations is exactly the Prop
   [Holds] (built from start_spec / max_spec / the statements above), and it asks for
   nothing the model does not deliver: agreement with the model implies it *)
Theorem C13_observer_exact : forall c, holdsb c = true <-> Holds c.
Proof. exact holdsb_spec. Qed.
Print Assumptions C13_observer_exact.

Theorem C13_agreement_implies_holds : forall c, mismatch c = false -> holdsb c = true.
Proof. exact agreement_implies_holds. Qed.
Print Assumptions C13_agreement_implies_holds.

(* driver limitsrun (the limits a fan is really started with by DefaultFanController.Run): its
   observer is exactly the Prop built from start_spec / max_spec / config-wins / the neverStop floor *)
Theorem C13_run_observer_exact : forall c, Drv.LimitsRun.holdsb c = true <-> Drv.LimitsRun.Holds c.
Proof. exact Drv.LimitsRun.holdsb_spec. Qed.
Print Assumptions C13_run_observer_exact.

(* ---- non-vacuity: the hypotheses are met by ordinary curves and the conclusions are specific ---- *)
Example C13_nonvacuous_curve :
  let d : rpm_curve := [(0, 0%float); (20, 0.9%float); (40, 310.5%float); (120, 1500%float);
                        (200, 2400.2%float); (230, 2400.9%float); (255, 2399%float)] in
  sorted_keys d /\ keys_le_255 d /\ d <> [] /\
  limits (run_ops (new_fan HwMon true None None None) [Attach d]) = (40, 40, 200).
Proof.
  cbv zeta. split; [unfold sorted_keys; cbn [map fst]; repeat constructor|].
  split; [unfold keys_le_255; repeat constructor; discriminate|]. split; [discriminate|].
  vm_compute. reflexivity.
Qed.

(* NaN / Inf / negative / sub-1 RPM values: nothing spins -> start = max = 255 *)
Example C13_nonvacuous_hostile :
  limits (run_ops (new_fan HwMon true None None None)
            [Attach [(10, nan); (20, infinity); (30, (-5)%float); (40, 0.9%float)]]) = (255, 255, 255).
Proof. vm_compute. reflexivity. Qed.

(* configured limits through re-attachment and setter calls *)
Example C13_nonvacuous_config :
  let ops := [Attach [(10, 0%float); (50, 900%float); (100, 2000%float)]; SetStart 7 false; SetMin 3 false;
              Attach [(5, 100%float); (60, 100%float)]; SetMax 9 false] in
  Forall (fun o => forced o = false) ops /\
  limits (run_ops (new_fan HwMon true (Some 30) (Some 45) (Some 210)) ops) = (30, 45, 210) /\
  limits (run_ops (new_fan HwMon true None None None) ops) = (5, 5, 9).
Proof. cbv zeta. split; [repeat constructor|]. split; vm_compute; reflexivity. Qed.
