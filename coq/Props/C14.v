(* C14 — stored fan data round-trips and is isolated per fan and per kind.
   This file holds only the property theorems; each is closed by [exact].

   Everything is stated for an arbitrary value type, byte type and codec
   (encode / decode / encodable) that satisfy the two oracle hypotheses
     enc_dec  : what json.Marshal produced, json.Unmarshal reads back unchanged
     enc_able : json.Marshal fails exactly on non-encodable values (NaN, +-Inf)
   bbolt's all-or-nothing transactions are the [committed] flag of CrashDuring:
   the model cannot exhibit a torn page.  These are the PARTIAL part of C14:
   they are exercised by the correspondence runs (incl. SIGKILLed workers), not
   proved. *)
From stdpp Require Import gmap.
From F2G Require Import gen.Consts Model.Persist Proofs.Persist Drv.Persist Proofs.PersistDrv.

Section C14.
  Context {value bytes : Type}.
  Variable encode : kind -> value -> option bytes.
  Variable decode : kind -> bytes -> option value.
  Variable encodable : kind -> value -> bool.
  Hypothesis enc_dec : forall k v b, encode k v = Some b -> decode k b = Some v.
  Hypothesis enc_able : forall k v, encodable k v = true <-> exists b, encode k v = Some b.

  Notation op := (op value bytes).
  Notation db := (db bytes).
  Notation step := (step encode decode).
  Notation run := (run encode decode).
  Notation look := (look decode).

  (* refinement: for EVERY operation sequence (saves, loads, deletes, reopens,
     foreign bytes, kills during any operation with either outcome) the bbolt
     state abstracts to the two-maps specification and all outputs agree *)
  Theorem C14_refines : forall ops : list op,
    abs decode (fst (run db_init ops)) = fst (srun decode encodable s_init ops)
    /\ snd (run db_init ops) = snd (srun decode encodable s_init ops).
  Proof. exact (C14_refines_lemma encode decode encodable enc_dec enc_able). Qed.

  (* the same in history form: after any sequence, a load of (kind, fan) returns
     the most recent effective write to exactly that kind and fan, else not
     found; and every output of the sequence is the one its history dictates *)
  Theorem C14_history : forall ops : list op,
    (forall k id, look (fst (run db_init ops)) k id = expected decode encodable (rev ops) k id)
    /\ snd (run db_init ops) = expected_trace decode encodable [] ops.
  Proof. exact (run_history encode decode encodable enc_dec enc_able). Qed.

  (* round trip until overwritten or deleted, from every state, across loads,
     reopens, operations on other fans / the other kind and kills during those *)
  Theorem C14_round_trip : forall (s : db) k id v (ops : list op),
    encodable k v = true ->
    Forall (fun o => target o <> Some (k, id)) ops ->
    snd (step s (Do (Save k id v))) = OSaved /\
    snd (step (fst (run (fst (step s (Do (Save k id v)))) ops)) (Do (Load k id))) = OFound v.
  Proof. exact (round_trip encode decode encodable enc_dec enc_able). Qed.

  (* frame: an operation aimed at one entry never changes any other fan's
     entries nor the same fan's entry of the other kind; loads and reopens
     change nothing observable at all *)
  Theorem C14_frame : forall (s : db) (o : op) k id,
    target o <> Some (k, id) -> look (fst (step s o)) k id = look s k id.
  Proof. exact (frame encode decode encodable enc_dec enc_able). Qed.

  Theorem C14_save_rejected : forall (s : db) k id v,
    encodable k v = false -> step s (Do (Save k id v)) = (s, OSaveErr).
  Proof. exact (save_rejected encode decode encodable enc_able). Qed.

  Theorem C14_load_missing : forall (s : db) k id,
    look s k id = None -> snd (step s (Do (Load k id))) = ONotFound.
  Proof. exact (load_missing encode decode encodable enc_dec enc_able). Qed.

  Theorem C14_load_fresh : forall k id, snd (step db_init (Do (Load k id))) = ONotFound.
  Proof. exact (load_fresh encode decode). Qed.

  (* a load never fails: it finds a value or reports not found *)
  Theorem C14_load_total : forall (s : db) k id,
    snd (step s (Do (Load k id))) = ONotFound \/ exists v, snd (step s (Do (Load k id))) = OFound v.
  Proof. exact (load_total encode decode encodable enc_dec enc_able). Qed.

  Theorem C14_delete : forall (s : db) k id,
    snd (step s (Do (Delete k id))) = ODeleted /\ look (fst (step s (Do (Delete k id)))) k id = None.
  Proof. exact (delete_effect encode decode encodable enc_dec enc_able). Qed.

  Theorem C14_delete_idempotent : forall (s : db) k id,
    step (fst (step s (Do (Delete k id)))) (Do (Delete k id)) = (fst (step s (Do (Delete k id))), ODeleted).
  Proof. exact (delete_idempotent encode decode). Qed.

  (* undecodable bytes: the load that meets them reports not found and removes
     them, the next load reports not found, every other entry is untouched *)
  Theorem C14_corrupt_discarded : forall (s : db) k id b,
    decode k b = None ->
    let s1 := fst (step s (Do (Corrupt k id b))) in
    let s2 := fst (step s1 (Do (Load k id))) in
    snd (step s1 (Do (Load k id))) = ONotFound
    /\ (exists m, get_bucket k s2 = Some m /\ m !! id = None)
    /\ snd (step s2 (Do (Load k id))) = ONotFound
    /\ forall k' id', (k', id') <> (k, id) -> look s2 k' id' = look s k' id'.
  Proof. exact (corrupt_discarded encode decode encodable enc_dec enc_able). Qed.

  (* a kill during a save: every other entry unchanged, the target old or new *)
  Theorem C14_crash_during_save : forall (s : db) k id v c,
    let s1 := fst (step s (CrashDuring (Save k id v) c)) in
    (forall k' id', (k', id') <> (k, id) -> look s1 k' id' = look s k' id')
    /\ (look s1 k id = look s k id \/ (encodable k v = true /\ look s1 k id = Some v)).
  Proof. exact (crash_during_save encode decode encodable enc_dec enc_able). Qed.

  Theorem C14_crash_atomic : forall (s : db) (o : bop value bytes) c,
    fst (step s (CrashDuring o c)) = s \/ fst (step s (CrashDuring o c)) = fst (step s (Do o)).
  Proof. exact (crash_atomic encode decode). Qed.
End C14.

Print Assumptions C14_refines.
Print Assumptions C14_history.
Print Assumptions C14_round_trip.
Print Assumptions C14_frame.
Print Assumptions C14_save_rejected.
Print Assumptions C14_load_missing.
Print Assumptions C14_load_fresh.
Print Assumptions C14_load_total.
Print Assumptions C14_delete.
Print Assumptions C14_delete_idempotent.
Print Assumptions C14_corrupt_discarded.
Print Assumptions C14_crash_during_save.
Print Assumptions C14_crash_atomic.

(* the hypotheses are satisfiable: the codec the driver evaluates (JSON as the
   identity on canonical values, NaN/Inf payloads not encodable) meets them, so
   every theorem above applies to the model the implementation is compared with *)
Theorem C14_instance : forall ops : list (Persist.op cval cbytes),
  snd (run c_encode c_decode db_init ops) = expected_trace c_decode c_encodable [] ops.
Proof. exact (fun ops => proj2 (C14_history c_encode c_decode c_encodable c_enc_dec c_enc_able ops)). Qed.
Print Assumptions C14_instance.

(* the observer used on implementation output decides exactly [Holds] *)
Theorem C14_observer : forall c, holdsb c = true <-> Holds c.
Proof. exact holdsb_spec. Qed.
Print Assumptions C14_observer.

(* whenever the implementation's outputs agree with the model of the code (for one of
   the histories the crash relation allows), the observer accepts them *)
Theorem C14_model_agrees : forall c, mismatch c = false -> holdsb c = true.
Proof. exact agree_holds. Qed.
Print Assumptions C14_model_agrees.

(* non-vacuity: a history with two fans, both kinds, a negative key, -0 (bits
   2^63), an overwrite, a delete, a rejected NaN save, undecodable bytes, a
   reopen and a kill during a save that did not commit *)
Example C14_nonvacuous :
  let nan := 9221120237041090560%Z in
  let ops : list (Persist.op cval cbytes) :=
    [Do (Save KData 0 (Some [(-5, 9223372036854775808); (7, 4607182418800017408)]%Z));
     Do (Save KMap 0 (Some [(0, 0); (255, 255)]%Z));
     Do (Save KData 1 None);
     Do (Save KData 0 (Some [(1, nan)]));
     Do (Load KData 0); Do (Load KMap 0); Do (Load KMap 1);
     Do (Corrupt KMap 0 (BGarbage 3)); Do Reopen; Do (Load KMap 0); Do (Load KMap 0); Do (Load KData 0);
     Do (Save KMap 0 None); Do (Load KMap 0);
     Do (Delete KData 1); Do (Delete KData 1); Do (Load KData 1);
     CrashDuring (Save KData 0 (Some [])) false; Do (Load KData 0);
     CrashDuring (Save KData 0 (Some [])) true; Do (Load KData 0)] in
  snd (run c_encode c_decode db_init ops) =
    [OSaved; OSaved; OSaved; OSaveErr;
     OFound (Some [(-5, 9223372036854775808); (7, 4607182418800017408)]%Z); OFound (Some [(0, 0); (255, 255)]%Z); ONotFound;
     OCorrupted; OReopened; ONotFound; ONotFound; OFound (Some [(-5, 9223372036854775808); (7, 4607182418800017408)]%Z);
     OSaved; OFound None;
     ODeleted; ODeleted; ONotFound;
     OCrashed; OFound (Some [(-5, 9223372036854775808); (7, 4607182418800017408)]%Z);
     OCrashed; OFound (Some [])].
Proof. vm_compute. reflexivity. Qed.
