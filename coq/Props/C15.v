(* C15 — stored characterisation is reused; fans are analysed once.
   This file holds only the property theorems; each is closed by [exact]. *)
From Coq Require Import ZArith Bool List.
From F2G Require Import Go.GoFloat gen.Consts Model.Util Model.Fan Model.Startup Proofs.Startup Drv.Startup.
Import ListNotations.
Open Scope Z_scope.

(* RPM curve and PWM map stored: for EVERY fan kind, capability set, configuration and device,
   start-up neither sweeps nor measures. *)
Theorem C15_reuse : forall f c e,
  e_data e = true -> e_map e <> None -> analysis_free (start_actions f c e).
Proof. exact start_reuse. Qed.
Print Assumptions C15_reuse.

(* a configured pwmMap: never a sweep, and the controller's map is exactly the configured one
   (whatever is stored, whatever the device answers, also when start-up ends in an error). *)
Theorem C15_cfg_map : forall f c e m,
  f_map f = Some m -> ~ In Sweep (start_actions f c e) /\ start_map f c e = Some m.
Proof. exact start_cfg_map. Qed.
Print Assumptions C15_cfg_map.

(* hwmon fan with minPwm and maxPwm configured: no RPM-curve measurement at start-up *)
Theorem C15_minmax : forall f c e lo hi,
  f_kind f = HwMon -> f_min f = Some lo -> f_max f = Some hi ->
  ~ In MeasureRpm (start_actions f c e).
Proof. exact start_minmax. Qed.
Print Assumptions C15_minmax.

(* for ALL fleets, initial databases and command sequences (any length, any interleaving of
   start / stop / reset / init of any fans): a start of fan [id] that follows a completed start
   of [id] with no `fan reset` / `fan init` of [id] in between performs no analysis. *)
Theorem C15_history : forall fl d0 pre mid id,
  completed (acts fl (exec fl d0 pre) (Start id)) ->
  (forall c, In c mid -> c <> Reset id /\ c <> Init id) ->
  analysis_free (acts fl (exec fl (exec fl d0 pre) (Start id :: mid)) (Start id)).
Proof. exact history_no_reanalysis. Qed.
Print Assumptions C15_history.

(* "analysed once" also covers `fan init`: a start of fan [id] that follows a successful `fan init` of [id]
   (no reset / further init in between) reuses what init measured and stored -- no sweep, no measurement *)
Theorem C15_after_init : forall fl d0 pre mid id,
  ~ In Err (acts fl (exec fl d0 pre) (Init id)) ->
  (forall c, In c mid -> c <> Reset id /\ c <> Init id) ->
  analysis_free (acts fl (exec fl (exec fl d0 pre) (Init id :: mid)) (Start id)).
Proof. exact init_then_start_no_reanalysis. Qed.
Print Assumptions C15_after_init.

(* the four statements together, in the form the observer of the correspondence run checks them:
   for ALL fleets, initial databases and command sequences the model's own trace passes the observer
   [holdsb] (= [Holds], Drv.Startup.holdsb_spec); hence a case on which implementation and model agree holds. *)
Theorem C15_model_trace_holds : forall fans db0 cmds x,
  holdsb (mkCase fans db0 cmds (model_steps (fleet_of fans) (db_of db0) cmds) x) = true.
Proof. exact model_output_holds. Qed.
Print Assumptions C15_model_trace_holds.

(* ---- non-vacuity ---- *)
Definition ex_fan := mkFanCfg HwMon None None None false.
Definition ex_caps := mkCaps true true [(1, 0); (2, 0)].
Definition ex_fleet : fleet := fun id => if id =? 7 then Some (ex_fan, ex_caps) else None.
Definition ex_db0 : db := fun _ => empty_entry.

(* a never-seen hwmon fan IS analysed on its first start (so "no analysis" is not trivially true),
   the start completes, and the restart goes straight to regulation *)
Example C15_first_start_analyses :
  start_actions ex_fan ex_caps empty_entry
  = [Lock; Sweep; SavedMap; SavedMap; MeasureRpm; SavedData; Unlock; LoadedData; Lock; LoadedMap; Unlock; Regulate].
Proof. vm_compute. reflexivity. Qed.

Example C15_restart_reuses :
  acts ex_fleet (exec ex_fleet ex_db0 [Start 7; Stop 7]) (Start 7)
  = [LoadedData; LoadedData; Lock; LoadedMap; Unlock; Regulate].
Proof. vm_compute. reflexivity. Qed.

Example C15_history_hyps_satisfiable :
  completed (acts ex_fleet (exec ex_fleet ex_db0 []) (Start 7))
  /\ (forall c, In c [Stop 7; Start 7; Reset 3; Init 4] -> c <> Reset 7 /\ c <> Init 7).
Proof.
  split; [vm_compute; intuition|].
  intros c H. cbn in H. intuition (subst; discriminate).
Qed.

(* `fan init` analyses (sweep + measurement), stores, and the following start goes straight to regulation *)
Example C15_init_then_start :
  acts ex_fleet ex_db0 (Init 7) = [Lock; Sweep; SavedMap; SavedMap; MeasureRpm; SavedData; Unlock]
  /\ acts ex_fleet (exec ex_fleet ex_db0 [Init 7]) (Start 7) = [LoadedData; LoadedData; Lock; LoadedMap; Unlock; Regulate].
Proof. split; vm_compute; reflexivity. Qed.

(* `fan reset` discards: the next start analyses again *)
Example C15_reset_discards :
  acts ex_fleet (exec ex_fleet ex_db0 [Start 7; Stop 7; Reset 7]) (Start 7)
  = start_actions ex_fan ex_caps empty_entry.
Proof. vm_compute. reflexivity. Qed.

(* configured map on a never-seen fan: used as is, stored, RPM curve measured at the mapped values *)
Example C15_cfg_map_example :
  let f := mkFanCfg HwMon (Some [(0, 0); (64, 128); (192, 255)]) None None true in
  start_actions f (mkCaps true true []) empty_entry
  = [UseConfigMap; SavedMap; MeasureRpm; SavedData; LoadedData; UseConfigMap; Regulate].
Proof. vm_compute. reflexivity. Qed.

(* minPwm + maxPwm configured on a never-seen hwmon fan: PWM map swept, no RPM measurement *)
Example C15_minmax_example :
  let f := mkFanCfg HwMon None (Some 30) (Some 220) true in
  start_actions f (mkCaps true true []) empty_entry = [SavedData; LoadedData; Sweep; SavedMap; Regulate].
Proof. vm_compute. reflexivity. Qed.
