(* C16 — with parallel initialisation disabled, fans are analysed one at a time.
   This file holds only the property theorems; each is closed by [exact]. *)
From Coq Require Import ZArith Bool List.
From F2G Require Import Go.GoFloat gen.Consts Model.Util Model.Fan Model.Startup Model.Sched Proofs.Sched.
Import ListNotations.

(* runFanInitializationInParallel = false: for EVERY number of controllers, every fan kind /
   capability set / configuration / stored state of each of them, and EVERY schedule (any
   interleaving, any length), at most one controller is inside an analysis phase (PWM sweep or
   RPM-curve measurement) in every reachable state. *)
Theorem C16_exclusive : forall (fans : list (fancfg * caps * entry)),
  Forall (fun x => f_par (fst (fst x)) = false) fans ->
  forall sched, (inside (run (init (map thread_prog fans)) sched) <= 1)%nat.
Proof. exact startup_exclusive. Qed.
Print Assumptions C16_exclusive.

(* the general form: any programs that analyse only between Acquire and Release *)
Theorem C16_exclusive_programs : forall progs, Forall well_locked progs ->
  forall sched, (inside (run (init progs) sched) <= 1)%nat.
Proof. exact exclusive. Qed.
Print Assumptions C16_exclusive_programs.

(* the invariant behind it *)
Theorem C16_in_analysis_holds_lock : forall progs, Forall well_locked progs ->
  forall sched t, In t (s_threads (run (init progs) sched)) -> t_in t = true -> t_holds t = true.
Proof. exact in_analysis_holds_lock. Qed.
Print Assumptions C16_in_analysis_holds_lock.

(* the program of `fan init` (RunInitializationSequence on a fresh controller) is well locked too.
   Note: InitializationSequenceMutex is a process-local sync.Mutex, so the exclusion theorems speak about
   the controllers of ONE fan2go process; a `fan init` started as a separate process beside a running
   daemon shares no lock with it (not covered by the property, which is about the daemon's start-up). *)
Theorem C16_init_cmd_well_locked : forall f c e, f_par f = false -> well_locked (prog_of (fst (init_cmd f c e))).
Proof. exact init_well_locked. Qed.
Print Assumptions C16_init_cmd_well_locked.

(* ---- non-vacuity and the parallel case ---- *)
Definition never_seen (par : bool) : fancfg * caps * entry :=
  (mkFanCfg HwMon None None None par, mkCaps true true [], empty_entry).

(* the program of a never-seen hwmon fan, parallel = false: the lock spans sweep AND measurement *)
Example C16_program_sequential :
  thread_prog (never_seen false)
  = [Acquire; Begin PSweep; End PSweep; Begin PMeasure; End PMeasure; Release; Acquire; Release].
Proof. vm_compute. reflexivity. Qed.

(* the hypothesis of C16_exclusive is met by fans that really analyse, and a thread does get inside *)
Example C16_nonvacuous :
  let fans := [never_seen false; never_seen false; never_seen false] in
  Forall (fun x => f_par (fst (fst x)) = false) fans
  /\ inside (run (init (map thread_prog fans)) [1; 1; 0; 2]%nat) = 1%nat.
Proof. split; [repeat constructor|vm_compute; reflexivity]. Qed.

(* parallel = true: a schedule with two controllers inside their analysis at once exists *)
Example C16_parallel_overlaps :
  exists sched, inside (run (init (map thread_prog [never_seen true; never_seen true])) sched) = 2%nat.
Proof. exists [0; 1]%nat. vm_compute. reflexivity. Qed.

(* regression (D12): the locking of the code before the repair — mutex around the PWM-map
   computation only — is not well locked and has an overlapping schedule *)
Example C16_lock_around_map_only_overlaps :
  let p := [Acquire; Begin PSweep; End PSweep; Release; Begin PMeasure; End PMeasure; Acquire; Release] in
  wlb false false p = false
  /\ exists sched, inside (run (init [p; p]) sched) = 2%nat.
Proof. split; [reflexivity|]. exists [0; 0; 0; 0; 0; 1; 1]%nat. vm_compute. reflexivity. Qed.
