(* C17 — hwmon entries bind to the device the user named, or fail cleanly.
   This file holds only the property theorems; each is closed by [exact].

   valid / matches are the regexp oracle (Go regexp is not modelled):
   valid p = "(?i)"+p compiles, matches p platform = it matches the platform string.
   [matching matches p chips = [c]]: the pattern selects exactly one of the
   enumerated chips (the property's quantifier).  Model: Model/Hwmon.v, describing
   internal/hwmon/hwmon.go and internal/backend.go with the D17 repair. *)
From Coq Require Import ZArith List Permutation.
From F2G Require Import Model.Hwmon Proofs.Hwmon Drv.Hwmon.
Import ListNotations.
Open Scope Z_scope.

(* ---- discovery: index = position among the chip's devices, channel from the name ---- *)
Theorem C17_fan_discovery : forall feats k,
  nth_error (get_fans feats) k =
  option_map (fun ch => mkHFan (Z.of_nat k + 1) ch ch) (nth_error (with_input feats) k).
Proof. exact get_fans_nth. Qed.
Print Assumptions C17_fan_discovery.

Theorem C17_temp_discovery : forall feats i,
  lookup i (get_temps feats) =
  if 0 <? i then nth_error (with_input feats) (Z.to_nat (i - 1)) else None.
Proof. exact lookup_get_temps. Qed.
Print Assumptions C17_temp_discovery.

(* on a discovered chip (distinct file names) an index or an rpmChannel names at most one fan *)
Theorem C17_selector_unique : forall feats s f f',
  NoDup (with_input feats) -> (0 < fs_index s \/ 0 < fs_rpm s) ->
  In f (get_fans feats) -> In f' (get_fans feats) -> selected s f -> selected s f' -> f' = f.
Proof. exact selected_unique_discovered. Qed.
Print Assumptions C17_selector_unique.

(* ---- fans ---- *)
(* unique matching chip + the selected device exists on it: bound to it, RPM input
   from the rpm channel, PWM and enable from the pwm channel (default: the fan's own) *)
Theorem C17_fan_bound : forall valid matches chips s c f,
  valid (fs_pat s) = true -> matching matches (fs_pat s) chips = [c] ->
  In f (ch_fans c) -> selected s f ->
  (forall f', In f' (ch_fans c) -> selected s f' -> f' = f) ->
  bind_fan valid matches chips s = Ok (cfg_of c f s)
  /\ set_paths (cfg_of c f s) =
       let pwm := if fs_pwm s =? 0 then hf_pwm f else fs_pwm s in
       ((ch_id c, K_FAN_INPUT, hf_rpm f), (ch_id c, K_PWM, pwm), (ch_id c, K_PWM_ENABLE, pwm)).
Proof. exact fan_bound. Qed.
Print Assumptions C17_fan_bound.

Theorem C17_fan_order_independent : forall valid matches chips chips' s c,
  Permutation chips chips' -> matching matches (fs_pat s) chips = [c] ->
  bind_fan valid matches chips s = bind_fan valid matches chips' s.
Proof. exact fan_order_independent. Qed.
Print Assumptions C17_fan_order_independent.

(* no matching chip has a selected device (any number of matching chips, any
   selector, pattern compiling or not): an error whose text names the entry *)
Theorem C17_fan_fails_cleanly : forall valid matches chips s,
  (forall c, In c chips -> mb matches (fs_pat s) c = true -> forall f, In f (ch_fans c) -> ~ selected s f) ->
  exists e, bind_fan valid matches chips s = Err e /\ names_entry e = true.
Proof. exact fan_fails_cleanly. Qed.
Print Assumptions C17_fan_fails_cleanly.

(* never another device: whatever is bound is a selected fan of a matching chip *)
Theorem C17_fan_sound : forall valid matches chips s cfg,
  bind_fan valid matches chips s = Ok cfg ->
  exists c f, In c chips /\ mb matches (fs_pat s) c = true /\ In f (ch_fans c) /\ selected s f /\ cfg = cfg_of c f s.
Proof. exact fan_sound. Qed.
Print Assumptions C17_fan_sound.

Theorem C17_fan_never_crashes : forall valid matches chips s, bind_fan valid matches chips s <> Crash.
Proof. exact fan_never_crashes. Qed.
Print Assumptions C17_fan_never_crashes.

(* ---- sensors (initializeSensors with the D17 repair) ---- *)
Theorem C17_sensor_bound : forall valid matches chips s c ti,
  valid (ss_pat s) = true -> matching matches (ss_pat s) chips = [c] ->
  lookup (ss_index s) (ch_temps c) = Some ti ->
  bind_sensor valid matches chips s = Ok (ch_id c, K_TEMP_INPUT, ti).
Proof. exact sensor_bound. Qed.
Print Assumptions C17_sensor_bound.

Theorem C17_sensor_order_independent : forall valid matches chips chips' s c,
  Permutation chips chips' -> matching matches (ss_pat s) chips = [c] ->
  bind_sensor valid matches chips s = bind_sensor valid matches chips' s.
Proof. exact sensor_order_independent. Qed.
Print Assumptions C17_sensor_order_independent.

Theorem C17_sensor_fails_cleanly : forall valid matches chips s,
  (forall c, In c chips -> mb matches (ss_pat s) c = true -> lookup (ss_index s) (ch_temps c) = None) ->
  exists e, bind_sensor valid matches chips s = Err e /\ names_entry e = true.
Proof. exact sensor_fails_cleanly. Qed.
Print Assumptions C17_sensor_fails_cleanly.

Theorem C17_sensor_sound : forall valid matches chips s p,
  bind_sensor valid matches chips s = Ok p ->
  exists c ti, In c chips /\ mb matches (ss_pat s) c = true /\ lookup (ss_index s) (ch_temps c) = Some ti
               /\ p = (ch_id c, K_TEMP_INPUT, ti).
Proof. exact sensor_sound. Qed.
Print Assumptions C17_sensor_sound.

Theorem C17_sensor_never_crashes : forall valid matches chips s, bind_sensor valid matches chips s <> Crash.
Proof. exact sensor_never_crashes. Qed.
Print Assumptions C17_sensor_never_crashes.

(* the code before the repair (commit "fix: return an error instead of dereferencing
   a nil map entry..."): with exactly one matching chip that lacks the index the
   model of the old code crashes, so the clean-failure statement was false of it *)
Theorem C17_sensor_fails_cleanly_d17_refuted :
  exists valid matches chips s c,
    matching matches (ss_pat s) chips = [c] /\ valid (ss_pat s) = true
    /\ lookup (ss_index s) (ch_temps c) = None
    /\ bind_sensor_d17 valid matches chips s = Crash.
Proof. exact sensor_fails_cleanly_d17_refuted. Qed.
Print Assumptions C17_sensor_fails_cleanly_d17_refuted.

(* ---- the whole of InitializeObjects, and the observer used on the implementation ----
   For every tree, order, entry lists and oracle the modelled outcome satisfies
   [Holds_obs]; [holdsb] (run on the implementation's observation) decides [Holds]. *)
Theorem C17_init_objects : forall valid matches raws ss fs,
  let chips := get_chips raws in
  Holds_obs (map (spec_sensor valid matches chips) ss) (map (spec_fan valid matches chips) fs)
            (obs_of (init_objects valid matches raws ss fs)).
Proof. exact init_objects_holds. Qed.
Print Assumptions C17_init_objects.

Theorem C17_observer_exact : forall c, holdsb c = true <-> Holds c.
Proof. exact holdsb_spec. Qed.
Print Assumptions C17_observer_exact.

(* ---- non-vacuity: a concrete tree meets the hypotheses of the implications ---- *)
Definition ex_raws := [mkRaw 1 10 [] [(1, true)];
                       mkRaw 2 20 [(1, true); (2, false); (3, true); (7, true)] [(2, true); (3, false); (5, true)]].
Definition ex_matches (p pl : Z) : bool := p =? pl.
Definition ex_valid (p : Z) : bool := true.

Example C17_nonvacuous_fan :
  let chips := get_chips ex_raws in
  let s := mkFanSel 20 0 7 1 in
  exists c f, matching ex_matches (fs_pat s) chips = [c] /\ In f (ch_fans c) /\ selected s f
    /\ (forall f', In f' (ch_fans c) -> selected s f' -> f' = f)
    /\ hf_index f = 3
    /\ option_map set_paths (match bind_fan ex_valid ex_matches chips s with Ok c => Some c | _ => None end)
       = Some ((2, K_FAN_INPUT, 7), (2, K_PWM, 1), (2, K_PWM_ENABLE, 1))
    /\ bind_fan ex_valid ex_matches (rev chips) s = bind_fan ex_valid ex_matches chips s.
Proof.
  cbv zeta. eexists. exists (mkHFan 3 7 7). split; [vm_compute; reflexivity|].
  split; [vm_compute; auto|]. split; [split; intro H; vm_compute in H |- *; [discriminate H|reflexivity]|].
  split; [|vm_compute; auto].
  intros f' Hin [_ H]. cbn in Hin, H. specialize (H eq_refl).
  destruct Hin as [<-|[<-|[<-|[]]]]; cbn in H; try discriminate; reflexivity.
Qed.

Example C17_nonvacuous_sensor :
  let chips := get_chips ex_raws in
  bind_sensor ex_valid ex_matches chips (mkSensorSel 20 2) = Ok (2, K_TEMP_INPUT, 5)
  /\ bind_sensor ex_valid ex_matches (rev chips) (mkSensorSel 20 2) = Ok (2, K_TEMP_INPUT, 5)
  /\ bind_sensor ex_valid ex_matches chips (mkSensorSel 20 3) = Err ENoIndex
  /\ bind_sensor ex_valid ex_matches chips (mkSensorSel 30 1) = Err ENoPlatform
  /\ bind_fan ex_valid ex_matches chips (mkFanSel 20 4 0 0) = Err ENoFan
  /\ bind_fan ex_valid ex_matches chips (mkFanSel 20 0 2 0) = Err ENoFan.
Proof. vm_compute. repeat split. Qed.
