(* C18 — only root-controlled executables are ever run.
   This file holds only the property theorems; each is closed by [exact]. *)
From Coq Require Import ZArith Bool List.
From F2G Require Import Model.Exec Proofs.ExecPerm.
Import ListNotations.
Open Scope Z_scope.

(* The decision, for EVERY uid, gid and mode (any integers): the file passes iff
   it is owned by root, not (non-root group and group-write bit 0o020), and the
   other-write bit 0o002 is clear. *)
Theorem C18_decision : forall uid gid mode,
  allowed uid gid mode = true <->
  uid = 0 /\ ~ (gid <> 0 /\ Z.land mode 16 <> 0) /\ Z.land mode 2 = 0.
Proof. exact allowed_spec. Qed.
Print Assumptions C18_decision.

(* The quantifier of the property: owner, group in {root, other} x all 512
   modes, against an independent reading of the rule on the octal digits. *)
Theorem C18_decision_grid : forall uid gid mode,
  In uid [0; 4242] -> In gid [0; 4242] -> 0 <= mode < 512 ->
  allowed uid gid mode =
    (uid =? 0)
    && negb (negb (gid =? 0) && digit_writable ((mode / 8) mod 8))
    && negb (digit_writable (mode mod 8)).
Proof. exact allowed_grid. Qed.
Print Assumptions C18_decision_grid.

(* Every call in every sequence of chmod / chown / symlink / remove / create
   operations and command calls: the event at step k is the outcome of the
   check in the file system AS IT IS AT STEP k; a command is started only for a
   file that, after symlink resolution, is root-controlled in that state; if
   the path does not lead to such a file the call is refused with an error and
   nothing is started; the call never panics. *)
Theorem C18_every_call : forall s0 ops k api p,
  nth_error ops k = Some (OpExec api p) ->
  let s := state_at s0 ops k in
  nth_error (run s0 ops) k = Some (EvCall (exec_call s p))
  /\ (forall f u g m, exec_call s p = Ran f u g m ->
        eval_symlinks s p = RFile f u g m /\ root_controlled u g m)
  /\ (~ allowed_path s p -> exists e, exec_call s p = Refused e)
  /\ exec_call s p <> Panicked.
Proof. exact every_call. Qed.
Print Assumptions C18_every_call.

(* ... also when another process changes the tree while the started command is
   running inside the call: still one check and at most one start per call, both
   in the state the call found (no second, unchecked start). *)
Theorem C18_every_call_during : forall s0 ops k api p d,
  nth_error ops k = Some (OpExecDuring api p d) ->
  let s := state_at s0 ops k in
  nth_error (run s0 ops) k = Some (EvCall (exec_call s p))
  /\ (forall f u g m, exec_call s p = Ran f u g m ->
        eval_symlinks s p = RFile f u g m /\ root_controlled u g m)
  /\ (~ allowed_path s p -> exists e, exec_call s p = Refused e)
  /\ exec_call s p <> Panicked.
Proof. exact every_call_during. Qed.
Print Assumptions C18_every_call_during.

(* The executable given as a bare command name: os/exec would look it up in
   $PATH, so that is the file that is checked; only a checked file is started. *)
Theorem C18_every_call_bare : forall s0 ops k api l q,
  nth_error ops k = Some (OpExecBare api l q) ->
  let s := state_at s0 ops k in
  nth_error (run s0 ops) k = Some (EvCall (exec_bare s l q))
  /\ (forall f u g m, exec_bare s l q = Ran f u g m ->
        exists q', q = Some q' /\ eval_symlinks s q' = RFile f u g m /\ root_controlled u g m)
  /\ exec_bare s l q <> Panicked.
Proof. exact every_call_bare. Qed.
Print Assumptions C18_every_call_bare.

(* The configuration file: with a command sensor or fan declared, validation
   accepts only if the file (after symlink resolution) passes the same test,
   and a file that does not pass is rejected with the permission error. *)
Theorem C18_config_file : forall c s path,
  has_cmd c = true -> validate c s path = VOk -> allowed_path s path.
Proof. exact config_file_rule. Qed.
Print Assumptions C18_config_file.

Theorem C18_config_file_rejected : forall c s path,
  has_cmd c = true -> early_err c = false -> ~ allowed_path s path ->
  exists e, validate c s path = VErrPerm e.
Proof. exact config_file_rejected. Qed.
Print Assumptions C18_config_file_rejected.

(* ---- non-vacuity ---- *)
(* a sequence in which the same path is run, refused after a chown, refused
   through a retargeted symlink, and run again after the attributes are restored *)
Example C18_nonvacuous_sequence :
  let ops := [OpCreate 1 0 0 493;            (* 0755 root:root *)
              OpCreate 2 4242 0 493;
              OpSymlink 3 1;
              OpExec 0 3;                    (* link -> good file: runs file 1 *)
              OpChmod 1 511;                 (* 0777 *)
              OpExec 0 3;                    (* refused: others may write *)
              OpChmod 1 493;
              OpSymlink 3 2;
              OpExec 0 3;                    (* refused: owner *)
              OpSymlink 3 1;
              OpExec 0 3] in
  run [] ops =
   [EvFs; EvFs; EvFs; EvCall (Ran 1 0 0 493); EvFs; EvCall (Refused ErrOtherWrite); EvFs; EvFs;
    EvCall (Refused ErrOwner); EvFs; EvCall (Ran 1 0 0 493)].
Proof. vm_compute. reflexivity. Qed.

(* the hypotheses of the configuration rule are satisfiable both ways *)
Example C18_nonvacuous_config :
  let c := mkCfg false false 1 0 in
  has_cmd c = true
  /\ validate c [(7, Some (NFile 0 0 420))] 7 = VOk
  /\ validate c [(7, Some (NFile 0 4242 436))] 7 = VErrPerm ErrGroupWrite
  /\ validate (mkCfg false false 0 0) [(7, Some (NFile 4242 4242 511))] 7 = VOk.
Proof. vm_compute. repeat split. Qed.

(* group-write is harmless exactly when the group is root *)
Example C18_nonvacuous_decision :
  allowed 0 0 509 = true /\ allowed 0 4242 509 = false /\ allowed 0 4242 493 = true
  /\ allowed 4242 0 448 = false /\ allowed 0 0 450 = false.
Proof. vm_compute. repeat split. Qed.
