(* C18 — link between the verdict of ./check and the theorems: no false alarm.
   This file holds only the statements; each is closed by [exact]. *)
From Coq Require Import ZArith Bool List.
From F2G Require Import Model.Exec Proofs.ExecLinks.
From F2G Require Drv.Perm.
Import ListNotations.
Open Scope Z_scope.

(* For EVERY case of driver `perm` (any operation sequence, any observations):
   if the model reproduces what the implementation did (the case is not in M),
   the verified observer accepts it (the case is not in F).  So a reported
   failing input is always also a point where the code left the model, and on a
   run with M = [] the property holds on every explored case because the model
   has it (C18_every_call, C18_every_call_during, C18_config_file). *)
Theorem C18_no_false_alarm : forall c : Drv.Perm.case,
  Drv.Perm.mismatch c = false -> Drv.Perm.holdsb c = true.
Proof. exact PermLink.perm_no_false_alarm. Qed.
Print Assumptions C18_no_false_alarm.

(* ... and accepted means the stated property, on the implementation's observation *)
Theorem C18_observer_is_the_property : forall c : Drv.Perm.case,
  Drv.Perm.holdsb c = true <-> Drv.Perm.Holds_ops (Drv.Perm.c_ops c) (Drv.Perm.c_obs c).
Proof. exact (fun c => Drv.Perm.holds_ops_spec (Drv.Perm.c_ops c) (Drv.Perm.c_obs c)). Qed.
Print Assumptions C18_observer_is_the_property.

(* non-vacuity: a case with two starts inside one call, the second one of a file
   that had stopped being root-controlled, is rejected by the observer (and, by
   the theorem above, cannot agree with the model) *)
Example C18_link_nonvacuous :
  let c := Drv.Perm.mkCase [1] [OpCreate 1 0 0 493; OpExecDuring 0 1 (OpChown 1 4242 0)]
             [Drv.Perm.mkObs (Some (0, 0, 493)) [(1, (0, 0, 493)); (1, (4242, 0, 493))] 1 7] in
  Drv.Perm.holdsb c = false /\ Drv.Perm.mismatch c = true
  /\ Drv.Perm.mismatch (Drv.Perm.mkCase [1] [OpCreate 1 0 0 493; OpExecDuring 0 1 (OpChown 1 4242 0); OpExec 0 1]
       [Drv.Perm.mkObs (Some (0, 0, 493)) [(1, (0, 0, 493))] 1 7; Drv.Perm.mkObs (Some (4242, 0, 493)) [] 1 4]) = false.
Proof. vm_compute. repeat split. Qed.
