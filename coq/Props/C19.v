(* C19 — external commands cannot hang or crash fan2go.
   This file holds only the property theorems; each is closed by [exact].
   The time bound is a theorem about the model of os/exec in Model/Exec.v
   ([cmd_output]: SIGKILL at the deadline ends the child at once; Wait blocks on
   the output pipes until every holder released them unless cmd.WaitDelay > 0);
   the real wall clock is measured by the correspondence driver `exec`. *)
From Coq Require Import ZArith Bool List.
From F2G Require Import Go.GoFloat gen.Consts gen.ExecConsts Model.Exec Proofs.ExecPerm Proofs.ExecCmd Proofs.ExecShape.
Import ListNotations.
Open Scope Z_scope.

(* Whatever the command does (any behaviour: exits with any status, is killed by
   a signal, cannot be started for any reason, never ends, leaves descendants
   holding its output for ever, prints anything) and whatever the permission
   check meets — also when the tree changes between EvalSymlinks and Stat — the
   call yields the trimmed output or an error, never a panic. *)
Theorem C19_classify : forall s1 s2 p T d b,
  let r := safe_cmd T d (check_file2 s1 s2 p) b in
  r_out r <> Crash /\ (r_out r = Ok (trim_nl (out_of b)) \/ exists e, r_out r = Err e).
Proof. exact safe_cmd_total. Qed.
Print Assumptions C19_classify.

(* output comes back only from a command that passed the check, ended by itself
   with status 0 before the deadline: a timeout, a failure to start or a
   non-zero status is always an error, never an empty success *)
Theorem C19_ok_only_if : forall T d ck b t,
  r_out (safe_cmd T d ck b) = Ok t ->
  ck = CkOk /\ exists pr, b = Starts pr /\ p_exit pr = ExitCode 0
     /\ tleb (p_exit_at pr) (At T) = true /\ t = trim_nl (p_out pr).
Proof. exact safe_cmd_ok_inv. Qed.
Print Assumptions C19_ok_only_if.

(* with a positive wait delay every call returns by timeout + wait delay *)
Theorem C19_bounded : forall T d ck b,
  0 <= T -> 0 < d -> time_le (r_time (safe_cmd T d ck b)) (T + d).
Proof. exact safe_cmd_bounded. Qed.
Print Assumptions C19_bounded.

(* the source as it is now: a positive wait delay is set, no unchecked
   assertion to *exec.ExitError remains, the check precedes the start
   (regenerated from internal/util/exec.go on every run) *)
Theorem C19_source_shape :
  (0 <? CmdWaitDelayMs) = true /\ ExecUncheckedAssert = false /\ ExecCheckBeforeStart = true.
Proof. repeat split. Qed.
Print Assumptions C19_source_shape.

(* ... hence the bound for the sensor monitor and the control loop: the three
   callers with the timeout constants of the source *)
Theorem C19_bounded_callers : forall (parse : text -> option f64) ck b,
  time_le (snd (sensor_get_value parse (CmdSensorTimeoutS * 1000) CmdWaitDelayMs ck b)) (CmdSensorTimeoutS * 1000 + CmdWaitDelayMs)
  /\ time_le (snd (fan_get_int parse (CmdFanTimeoutS * 1000) CmdWaitDelayMs ck b)) (CmdFanTimeoutS * 1000 + CmdWaitDelayMs)
  /\ time_le (snd (fan_set_pwm (CmdFanTimeoutS * 1000) CmdWaitDelayMs ck b)) (CmdFanTimeoutS * 1000 + CmdWaitDelayMs).
Proof. exact callers_bounded. Qed.
Print Assumptions C19_bounded_callers.

(* in the numbers of the property: 2 s plus the part of the small margin that is
   not reserved for scheduling noise (regenerated constants must stay within) *)
Theorem C19_within_2s_plus_margin : forall (parse : text -> option f64) ck b,
  let B := prop_timeout_ms + (small_margin_ms - slack_ms) in
  time_le (snd (sensor_get_value parse (CmdSensorTimeoutS * 1000) CmdWaitDelayMs ck b)) B
  /\ time_le (snd (fan_get_int parse (CmdFanTimeoutS * 1000) CmdWaitDelayMs ck b)) B
  /\ time_le (snd (fan_set_pwm (CmdFanTimeoutS * 1000) CmdWaitDelayMs ck b)) B.
Proof. exact callers_within_property_bound. Qed.
Print Assumptions C19_within_2s_plus_margin.

Theorem C19_callers_never_crash : forall (parse : text -> option f64) s1 s2 p T d b,
  let ck := check_file2 s1 s2 p in
  fst (sensor_get_value parse T d ck b) <> CvCrash
  /\ fst (fan_get_int parse T d ck b) <> CvCrash
  /\ fst (fan_set_pwm T d ck b) <> CvCrash.
Proof. exact callers_never_crash. Qed.
Print Assumptions C19_callers_never_crash.

(* The hypothesis 0 < d is essential (this is defect D13 of the pinned code,
   cmd.WaitDelay = 0): a command that exits at once with status 0 but leaves a
   descendant holding stdout defeats every bound, and never returns at all if
   the descendant never lets go. *)
Theorem C19_unbounded_without_wait_delay : forall T B,
  0 <= T -> 0 <= B -> ~ time_le (r_time (safe_cmd T 0 CkOk (lingering (At (B + 1))))) B.
Proof. exact no_wait_delay_unbounded. Qed.
Print Assumptions C19_unbounded_without_wait_delay.

Theorem C19_hangs_without_wait_delay : forall T,
  r_time (safe_cmd T 0 CkOk (lingering Never)) = Never.
Proof. exact no_wait_delay_hangs. Qed.
Print Assumptions C19_hangs_without_wait_delay.

(* ---- non-vacuity ---- *)
(* a well-behaved command gets its output through, trimmed *)
Example C19_nonvacuous_ok :
  safe_cmd 2000 200 CkOk (Starts (mkProc (ExitCode 0) (At 30) [(10, 2); (52, 1); (50, 1); (10, 1)] (At 0)))
  = mkRes (Ok [(52, 1); (50, 1)]) (At 30).
Proof. vm_compute. reflexivity. Qed.

(* the failure modes of the property, each with its model outcome and return time *)
Example C19_nonvacuous_failures :
  let T := 2000 in let d := 200 in
  let run b := safe_cmd T d CkOk b in
  run (CannotStart SfNoExecBit) = mkRes (Err (EStart SfNoExecBit)) (At 0)
  /\ run (CannotStart SfBadFormat) = mkRes (Err (EStart SfBadFormat)) (At 0)
  /\ run (CannotStart SfVanished) = mkRes (Err (EStart SfVanished)) (At 0)
  /\ run (Starts (mkProc (ExitCode 3) (At 10) [(52, 1)] (At 0))) = mkRes (Err (EExit (ExitCode 3))) (At 10)
  /\ run (Starts (mkProc (KilledBy 11) (At 10) [] (At 0))) = mkRes (Err (EExit (KilledBy 11))) (At 10)
  /\ run (Starts (mkProc (ExitCode 0) (At 5000) [(52, 1)] (At 0))) = mkRes (Err (EExit (KilledBy 9))) (At 2000)
  /\ run (Starts (mkProc (ExitCode 0) Never [(52, 1)] Never)) = mkRes (Err (EExit (KilledBy 9))) (At 2200)
  /\ run (Starts (mkProc (ExitCode 0) (At 10) [(52, 1)] Never)) = mkRes (Err EWaitDelay) (At 210)
  /\ run (Starts (mkProc (ExitCode 0) (At 1950) [(52, 1)] (At 2100))) = mkRes (Err EDeadline) (At 2100)
  /\ safe_cmd T d (CkErr ErrOwner) (Starts (mkProc (ExitCode 0) (At 1) [] (At 0))) = mkRes (Err (EPerm ErrOwner)) (At 0).
Proof. vm_compute. repeat split. Qed.

(* the stat race of CheckFilePermissionsForExecution: the resolved file is replaced
   by a looping link before os.Stat — an error, not a nil dereference *)
Example C19_nonvacuous_stat_race :
  check_file2 [(1, Some (NFile 0 0 493))] [(1, Some (NLink 1))] 1 = CkErr ErrStat.
Proof. vm_compute. reflexivity. Qed.
