(* C19 — link between the verdict of ./check and the theorems: no false alarm.
   This file holds only the statements; each is closed by [exact]. *)
From Coq Require Import ZArith Bool List.
From F2G Require Import Go.GoFloat Model.Exec Proofs.ExecCmd Proofs.ExecLinks.
From F2G Require Drv.Exec Drv.ExecHist.
Import ListNotations.
Open Scope Z_scope.

(* For every well-formed case of driver `exec` — non-negative timeout, and the
   real wall clock exceeded the model's return time by at most slack_ms (process
   creation and scheduling, which the model does not have) — agreement with the
   model (not in M) implies acceptance by the verified observer (not in F):
   the model's result is output-or-error (C19_classify) and its return time plus
   the slack stays within the property's timeout + small margin (C19_bounded with
   the regenerated wait delay and timeouts). *)
Theorem C19_no_false_alarm : forall c : Drv.Exec.case,
  ExecLink.case_wf c -> Drv.Exec.mismatch c = false -> Drv.Exec.holdsb c = true.
Proof. exact ExecLink.exec_no_false_alarm. Qed.
Print Assumptions C19_no_false_alarm.

Theorem C19_observer_is_the_property : forall c : Drv.Exec.case,
  Drv.Exec.holdsb c = true <-> Drv.Exec.Holds c.
Proof. exact Drv.Exec.holdsb_spec. Qed.
Print Assumptions C19_observer_is_the_property.

(* the same for histories of calls on one executable (driver `exechist`) *)
Theorem C19_history_no_false_alarm : forall c : Drv.ExecHist.case,
  Forall ExecLink.case_wf c -> Drv.ExecHist.mismatch c = false -> Drv.ExecHist.holdsb c = true.
Proof. exact ExecHistLink.exechist_no_false_alarm. Qed.
Print Assumptions C19_history_no_false_alarm.

Theorem C19_history_observer_is_the_property : forall c : Drv.ExecHist.case,
  Drv.ExecHist.holdsb c = true <-> Forall Drv.Exec.Holds c.
Proof. exact Drv.ExecHist.holdsb_spec. Qed.
Print Assumptions C19_history_observer_is_the_property.

(* non-vacuity: a well-formed, agreeing case; a hang and a late return are rejected *)
Example C19_link_nonvacuous :
  let b := Starts (mkProc (ExitCode 0) (At 0) [(52, 1); (50, 1); (10, 1)] (At 3000)) in
  let good := Drv.Exec.mkCase 0 300 0 b None Drv.Exec.OErr 212 in
  (0 <= Drv.Exec.c_T good /\ snd (Drv.Exec.model good) = At 200)
  /\ Drv.Exec.mismatch good = false /\ Drv.Exec.holdsb good = true
  /\ Drv.Exec.holdsb (Drv.Exec.mkCase 0 300 0 b None Drv.Exec.OErr 3004) = false
  /\ Drv.Exec.holdsb (Drv.Exec.mkCase 1 0 0 b None Drv.Exec.OHang 9000) = false.
Proof. vm_compute. repeat split; discriminate. Qed.
