(* C20 - concurrent activities are free of data races.
   This file holds only the property theorems; each is closed by [exact].

   `table` (gen/Accesses.v) is regenerated from the Go source by tools/gen_accesses.py on every run: for each
   goroutine kind the reachable shared-memory accesses with their function-level locksets.  `race` is the
   lock-set (Eraser-style) race condition of Model/Races.v: same cell, conflicting modes, the two goroutine
   kinds can touch the same instance, no common mutex, not ordered by goroutine start. *)
From Coq Require Import ZArith List String.
From F2G Require Import Model.Races Model.RaceFindings gen.Accesses Proofs.Races Proofs.RacesTable.
Import ListNotations.

(* the executable classifier finds exactly the racing pairs of any table *)
Theorem C20_classifier_sound_complete : forall t a b,
  In (a, b) (racy t) <-> In a t /\ In b t /\ race a b.
Proof. exact classifier_sound_complete. Qed.
Print Assumptions C20_classifier_sound_complete.

(* the full statement: false of the tree as it stands (defect D21) ... *)
Definition C20_race_free_full : Prop := forall a b, In a table -> In b table -> ~ race a b.

Theorem C20_race_free_full_refuted : ~ C20_race_free_full.
Proof. exact race_free_full_refuted. Qed.
Print Assumptions C20_race_free_full_refuted.

(* ... and the part that holds: every racing pair of the current source falls into one of the recorded
   findings (cell x pair of goroutine kinds); bound = the generated table.  Removing a lock or adding an
   unguarded shared access adds a pair outside the list and this theorem stops compiling. *)
Theorem C20_race_free_modulo : forall a b,
  In a table -> In b table -> race a b -> exists n, In (group_of a b, n) findings.
Proof. exact race_free_modulo. Qed.
Print Assumptions C20_race_free_modulo.

Theorem C20_race_free_outside_findings : forall a b,
  In a table -> In b table -> (forall n, ~ In (group_of a b, n) findings) -> ~ race a b.
Proof. exact race_free_outside_findings. Qed.
Print Assumptions C20_race_free_outside_findings.

(* race is symmetric on the generated table (cell classes are a function of the cell name) *)
Theorem C20_race_symmetric : forall a b, In a table -> In b table -> race a b -> race b a.
Proof. exact race_symmetric_on_table. Qed.
Print Assumptions C20_race_symmetric.

(* non-vacuity: a common mutex protects; dropping it on one side races (both orders of the pair) *)
Example C20_nonvacuous :
  racy [mkAccess KSensorMon "sensors.HwmonSensor.MovingAvg" OSensor MW ["sensors.HwmonSensor.mu"] 1 1;
        mkAccess KControl "sensors.HwmonSensor.MovingAvg" OSensor MR ["sensors.HwmonSensor.mu"] 1 2] = []
  /\ List.length (racy [mkAccess KSensorMon "sensors.HwmonSensor.MovingAvg" OSensor MW [] 1 1;
                        mkAccess KControl "sensors.HwmonSensor.MovingAvg" OSensor MR ["sensors.HwmonSensor.mu"] 1 2]) = 2%nat.
Proof. exact (conj lock_protects removed_lock_races). Qed.
