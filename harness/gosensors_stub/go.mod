module github.com/md14454/gosensors

go 1.18
