// Package gosensors is a pure-Go stand-in for github.com/md14454/gosensors
// (a cgo binding of libsensors, whose headers are absent in this sandbox).
// It enumerates a sysfs-like hwmon tree rooted at $VERIF_HWMON_ROOT:
//
//	<root>/order            optional: one chip directory name per line (enumeration order)
//	<root>/<chip>/name      chip prefix
//	<root>/<chip>/fanN_input, fanN_min, fanN_max, tempN_input, tempN_max, tempN_min ...
//
// Feature order follows libsensors: all fan features by increasing channel,
// then all temp features by increasing index.
package gosensors

import (
	"os"
	"path/filepath"
	"regexp"
	"sort"
	"strconv"
	"strings"
)

type SubFeatureType int32

const (
	SubFeatureTypeFanInput SubFeatureType = 256
	SubFeatureTypeFanMin   SubFeatureType = 257
	SubFeatureTypeFanMax   SubFeatureType = 258

	SubFeatureTypeTempInput SubFeatureType = 512
	SubFeatureTypeTempMax   SubFeatureType = 513
	SubFeatureTypeTempMin   SubFeatureType = 518

	SubFeatureTypeUnknown SubFeatureType = 0x7fffffff
)

type FeatureType int32

const (
	FeatureTypeIn   FeatureType = 0
	FeatureTypeFan  FeatureType = 1
	FeatureTypeTemp FeatureType = 2
)

type SubFeature struct {
	Name    string
	Number  int32
	Type    SubFeatureType
	Mapping int32
	Flags   uint32
	path    string
}

func (s SubFeature) GetValue() float64 {
	data, err := os.ReadFile(s.path)
	if err != nil {
		return 0
	}
	v, err := strconv.ParseFloat(strings.TrimSpace(string(data)), 64)
	if err != nil {
		return 0
	}
	if s.Type == SubFeatureTypeTempInput || s.Type == SubFeatureTypeTempMax || s.Type == SubFeatureTypeTempMin {
		return v / 1000
	}
	return v
}

type Feature struct {
	Name   string
	Number int32
	Type   FeatureType
	dir    string
}

var subRe = regexp.MustCompile(`^(fan|temp)(\d+)_(input|min|max)$`)

func (f Feature) GetSubFeatures() []SubFeature {
	var subs []SubFeature
	add := func(suffix string, t SubFeatureType) {
		p := filepath.Join(f.dir, f.Name+"_"+suffix)
		if _, err := os.Stat(p); err == nil {
			subs = append(subs, SubFeature{Name: f.Name + "_" + suffix, Number: int32(len(subs)), Type: t, path: p})
		}
	}
	switch f.Type {
	case FeatureTypeFan:
		add("input", SubFeatureTypeFanInput)
		add("min", SubFeatureTypeFanMin)
		add("max", SubFeatureTypeFanMax)
	case FeatureTypeTemp:
		add("input", SubFeatureTypeTempInput)
		add("max", SubFeatureTypeTempMax)
		add("min", SubFeatureTypeTempMin)
	}
	return subs
}

func (f Feature) GetLabel() string { return f.Name }

func (f Feature) GetValue() float64 { return f.GetSubFeatures()[0].GetValue() }

type Bus struct {
	Type int16
	Nr   int16
}

func (b Bus) String() string { return "stub" }

type Chip struct {
	Prefix string
	Bus    Bus
	Addr   int32
	Path   string
}

func (c Chip) String() string      { return c.Prefix }
func (c Chip) AdapterName() string { return c.Bus.String() }

func (c Chip) GetFeatures() []Feature {
	entries, err := os.ReadDir(c.Path)
	if err != nil {
		return nil
	}
	seen := map[string]bool{}
	type key struct {
		t FeatureType
		n int
	}
	var keys []key
	for _, e := range entries {
		m := subRe.FindStringSubmatch(e.Name())
		if m == nil {
			continue
		}
		name := m[1] + m[2]
		if seen[name] {
			continue
		}
		seen[name] = true
		n, _ := strconv.Atoi(m[2])
		t := FeatureTypeFan
		if m[1] == "temp" {
			t = FeatureTypeTemp
		}
		keys = append(keys, key{t, n})
	}
	sort.Slice(keys, func(i, j int) bool {
		if keys[i].t != keys[j].t {
			return keys[i].t < keys[j].t
		}
		return keys[i].n < keys[j].n
	})
	var feats []Feature
	for i, k := range keys {
		prefix := "fan"
		if k.t == FeatureTypeTemp {
			prefix = "temp"
		}
		feats = append(feats, Feature{Name: prefix + strconv.Itoa(k.n), Number: int32(i), Type: k.t, dir: c.Path})
	}
	return feats
}

func Init()    {}
func Cleanup() {}

func GetDetectedChips() []Chip {
	root := os.Getenv("VERIF_HWMON_ROOT")
	if root == "" {
		return nil
	}
	var names []string
	if data, err := os.ReadFile(filepath.Join(root, "order")); err == nil {
		for _, l := range strings.Split(string(data), "\n") {
			l = strings.TrimSpace(l)
			if l != "" {
				names = append(names, l)
			}
		}
	} else {
		entries, _ := os.ReadDir(root)
		for _, e := range entries {
			if e.IsDir() {
				names = append(names, e.Name())
			}
		}
		sort.Strings(names)
	}
	var chips []Chip
	for i, n := range names {
		p := filepath.Join(root, n)
		prefix := n
		if data, err := os.ReadFile(filepath.Join(p, "name")); err == nil {
			prefix = strings.TrimSpace(string(data))
		}
		chips = append(chips, Chip{Prefix: prefix, Bus: Bus{Type: 1, Nr: 0}, Addr: int32(0x290 + i), Path: p})
	}
	return chips
}
