//go:build verif

package main

import (
	"fmt"
	"math"
	"sort"
	"strconv"
	"strings"
)

// ---- splitmix64: every random choice of every driver derives from one state ----
type Rng struct{ s uint64 }

func NewRng(seed uint64, stream string) *Rng {
	r := &Rng{s: seed*0x9E3779B97F4A7C15 + 0x1234567}
	for _, ch := range stream {
		r.s ^= uint64(ch)
		r.Next()
	}
	return r
}
func (r *Rng) Next() uint64 {
	r.s += 0x9E3779B97F4A7C15
	z := r.s
	z = (z ^ (z >> 30)) * 0xBF58476D1CE4E5B9
	z = (z ^ (z >> 27)) * 0x94D049BB133111EB
	return z ^ (z >> 31)
}
func (r *Rng) Intn(n int) int {
	if n <= 0 {
		return 0
	}
	return int(r.Next() % uint64(n))
}
func (r *Rng) Range(lo, hi int) int { return lo + r.Intn(hi-lo+1) } // inclusive
func (r *Rng) Bool() bool            { return r.Next()&1 == 1 }
func (r *Rng) Chance(num, den int) bool {
	return r.Intn(den) < num
}
func (r *Rng) Pick(xs []int) int { return xs[r.Intn(len(xs))] }
func (r *Rng) Float01() float64  { return float64(r.Next()>>11) / float64(1<<53) }

// ---- Coq term rendering ----
func cZ(n int) string {
	if n < 0 {
		return "(" + strconv.Itoa(n) + ")"
	}
	return strconv.Itoa(n)
}
func cZ64(n int64) string {
	if n < 0 {
		return "(" + strconv.FormatInt(n, 10) + ")"
	}
	return strconv.FormatInt(n, 10)
}
func cBool(b bool) string {
	if b {
		return "true"
	}
	return "false"
}
func cList(items []string) string { return "[" + strings.Join(items, "; ") + "]" }
func cZList(xs []int) string {
	s := make([]string, len(xs))
	for i, x := range xs {
		s[i] = cZ(x)
	}
	return cList(s)
}
func cOptZ(x *int) string {
	if x == nil {
		return "None"
	}
	return "(Some " + cZ(*x) + ")"
}
func cPairs(m map[int]int) string {
	keys := make([]int, 0, len(m))
	for k := range m {
		keys = append(keys, k)
	}
	sort.Ints(keys)
	s := make([]string, len(keys))
	for i, k := range keys {
		s[i] = "(" + cZ(k) + ", " + cZ(m[k]) + ")"
	}
	return cList(s)
}

// cF renders a float64 exactly as a Coq primitive-float term (hex literal).
func cF(x float64) string {
	switch {
	case math.IsNaN(x):
		return "nan"
	case math.IsInf(x, 1):
		return "infinity"
	case math.IsInf(x, -1):
		return "neg_infinity"
	case x == 0 && math.Signbit(x):
		return "neg_zero"
	case x == 0:
		return "zero"
	}
	s := strconv.FormatFloat(x, 'x', -1, 64) // e.g. -0x1.8p+01
	neg := strings.HasPrefix(s, "-")
	s = strings.TrimPrefix(s, "-")
	s = strings.Replace(s, "p+", "p", 1)
	if neg {
		return "(-" + s + ")%float"
	}
	return "(" + s + ")%float"
}
func cFPairs(m map[int]float64) string {
	keys := make([]int, 0, len(m))
	for k := range m {
		keys = append(keys, k)
	}
	sort.Ints(keys)
	s := make([]string, len(keys))
	for i, k := range keys {
		s[i] = "(" + cZ(k) + ", " + cF(m[k]) + ")"
	}
	return cList(s)
}

func cRec(fields ...string) string { return "(" + strings.Join(fields, " ") + ")" }

func sortedKeys(m map[int]int) []int {
	keys := make([]int, 0, len(m))
	for k := range m {
		keys = append(keys, k)
	}
	sort.Ints(keys)
	return keys
}

// catch runs f and reports a recovered panic as a string ("" = none).
func catch(f func()) (p string) {
	defer func() {
		if r := recover(); r != nil {
			p = "panic: " + fmt.Sprint(r) // pterm's Fatal panics with "": never report that as "no panic"
		}
	}()
	f()
	return ""
}

// JSON-friendly float (exact, as hex string)
func jF(x float64) string { return strconv.FormatFloat(x, 'x', -1, 64) }
func pF(s string) float64 {
	v, err := strconv.ParseFloat(s, 64)
	if err != nil {
		switch s {
		case "NaN", "nan":
			return math.NaN()
		}
		panic(err)
	}
	return v
}

func itoa(n int) string { return strconv.Itoa(n) }
