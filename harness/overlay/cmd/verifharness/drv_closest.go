//go:build verif

package main

import (
	"encoding/json"
	"fmt"
	"os"
	"path/filepath"
	"sort"
	"strconv"
	"strings"

	"github.com/markusressel/fan2go/internal/configuration"
	"github.com/markusressel/fan2go/internal/controller"
	"github.com/markusressel/fan2go/internal/fans"
	"github.com/markusressel/fan2go/internal/persistence"
	"github.com/markusressel/fan2go/internal/util"
)

// driver `closest` (C12): real ExtractKeysWithDistinctValues, FindClosest and
// DefaultFanController.setPwm on a recording fan.
type closestIn struct {
	Pm   [][2]int `json:"pm"` // key-sorted
	Reqs []int    `json:"reqs"`
	// how the map reaches the controller: "" = set directly; "config" = `pwmMap:` override of a real FileFan
	// through the real computePwmMap; "persist" = saved with the real persistence layer (first start) and
	// loaded by computePwmMap (later start)
	// "hwmon" = `pwmMap:` override of a real HwMonFan with the limits below (they must not influence what is written)
	Route     string `json:"route,omitempty"`
	// direct route only: the SAME controller held another map with the same keys before ("const": one output for every
	// key, "rev": the outputs in reverse key order) and derived its supported inputs from it; what is written afterwards
	// depends on the current map alone
	Prev      string `json:"prev,omitempty"`
	Lo        *int   `json:"lo,omitempty"`
	Hi        *int   `json:"hi,omitempty"`
	NeverStop bool   `json:"never_stop,omitempty"`
}

var closestWork string
var closestSeq int

type closestObs struct {
	Supported []int  `json:"supported"`
	Closest   []*int `json:"closest"` // nil = panic
	Written   []*int `json:"written"` // nil = panic / nothing written
}

func runClosest(in closestIn) (closestObs, string) {
	pm := map[int]int{}
	for _, kv := range in.Pm {
		pm[kv[0]] = kv[1]
	}
	var obs closestObs
	keys := util.ExtractKeysWithDistinctValues(pm)
	sort.Ints(keys)
	obs.Supported = append([]int{}, keys...)
	fan := &RecFan{Id: "rec", MaxP: 255}
	c := controller.VerifNewController(nil, fan, nil, nil, 0)
	var filePath string
	relink := func() {}
	switch in.Route {
	case "":
		if in.Prev != "" {
			prev := map[int]int{}
			for i, kv := range in.Pm {
				switch in.Prev {
				case "const":
					prev[kv[0]] = 7
				default: // "rev"
					prev[kv[0]] = in.Pm[len(in.Pm)-1-i][1]
				}
			}
			c.VerifSetPwmMap(prev)
			_ = c.VerifSetPwm(in.Pm[0][0])
			c.VerifSetPwmMap(pm)
			keys = append([]int{}, c.VerifDistinct()...)
			sort.Ints(keys)
			obs.Supported = append([]int{}, keys...)
		} else {
			c.VerifSetPwmMap(pm)
		}
	case "config", "persist", "hwmon", "cmd", "init", "symlink", "default":
		closestSeq++
		dir := filepath.Join(closestWork, fmt.Sprintf("r%d", closestSeq))
		_ = os.MkdirAll(dir, 0o755)
		defer os.RemoveAll(dir)
		given := map[int]int{} // the controller gets its own copy: the recorded input stays what it was
		for k, v := range pm {
			given[k] = v
		}
		if in.Route == "config" || in.Route == "hwmon" || in.Route == "cmd" || in.Route == "init" || in.Route == "symlink" || in.Route == "default" {
			filePath = filepath.Join(dir, "pwm")
			if in.Route == "symlink" { // the control is reached through a symlinked directory (as /sys/class/hwmon/hwmonN is)
				_ = os.MkdirAll(filepath.Join(dir, "devA"), 0o755)
				_ = os.MkdirAll(filepath.Join(dir, "devB"), 0o755)
				_ = os.WriteFile(filepath.Join(dir, "devA", "pwm"), []byte("0"), 0o644)
				_ = os.WriteFile(filepath.Join(dir, "devB", "pwm"), []byte("0"), 0o644)
				_ = os.Symlink(filepath.Join(dir, "devA"), filepath.Join(dir, "cur"))
				filePath = filepath.Join(dir, "cur", "pwm")
				relink = func() { // the device directory is renumbered: from now on the link names the other one
					_ = os.Remove(filepath.Join(dir, "cur"))
					_ = os.Symlink(filepath.Join(dir, "devB"), filepath.Join(dir, "cur"))
				}
			}
			_ = os.WriteFile(filePath, []byte("0"), 0o644)
			fc := configuration.FanConfig{ID: "rec", Curve: "c", PwmMap: &given, File: &configuration.FileFanConfig{Path: filePath}}
			if in.Route == "hwmon" {
				fc = configuration.FanConfig{ID: "rec", Curve: "c", PwmMap: &given, NeverStop: in.NeverStop, MinPwm: in.Lo, MaxPwm: in.Hi,
					HwMon: &configuration.HwMonFanConfig{Index: 1, RpmChannel: 1, PwmChannel: 1, PwmPath: filePath,
						RpmInputPath: filepath.Join(dir, "fan1_input"), PwmEnablePath: filepath.Join(dir, "pwm1_enable")}}
			}
			if in.Route == "init" { // a hwmon fan with an RPM input, driven through the real initialization sequence below
				_ = os.WriteFile(filepath.Join(dir, "fan1_input"), []byte("1200"), 0o644)
				fc = configuration.FanConfig{ID: "rec", Curve: "c", PwmMap: &given,
					HwMon: &configuration.HwMonFanConfig{Index: 1, RpmChannel: 1, PwmChannel: 1, PwmPath: filePath,
						RpmInputPath: filepath.Join(dir, "fan1_input"), PwmEnablePath: filepath.Join(dir, "pwm1_enable")}}
			}
			if in.Route == "cmd" { // a cmd fan: the value is handed to a command through the %pwm% placeholder
				set := filepath.Join(dir, "set.sh")
				get := filepath.Join(dir, "get.sh")
				_ = os.WriteFile(set, []byte("#!/bin/sh\necho \"$1\" > "+filePath+"\n"), 0o755)
				_ = os.WriteFile(get, []byte("#!/bin/sh\ncat "+filePath+"\n"), 0o755)
				fc = configuration.FanConfig{ID: "rec", Curve: "c", PwmMap: &given, Cmd: &configuration.CmdFanConfig{
					SetPwm: &configuration.ExecConfig{Exec: set, Args: []string{"%pwm%"}},
					GetPwm: &configuration.ExecConfig{Exec: get}}}
			}
			if in.Route == "default" {
				// a cmd fan whose PWM cannot be read back, no override, nothing stored: the real computePwmMap falls
				// through to util.InterpolateLinearlyInt({0:0, 255:255}, 0, 255); the recorded input map (the identity on
				// 0..255) is NOT given to the controller, it is what the model says the controller computes for itself
				set := filepath.Join(dir, "set.sh")
				_ = os.WriteFile(set, []byte("#!/bin/sh\necho \"$1\" > "+filePath+"\n"), 0o755)
				fc = configuration.FanConfig{ID: "rec", Curve: "c", Cmd: &configuration.CmdFanConfig{
					SetPwm: &configuration.ExecConfig{Exec: set, Args: []string{"%pwm%"}}}}
			}
			ff, err := fans.NewFan(fc)
			if err != nil {
				panic(err)
			}
			// as in the daemon there is a database, and it already holds ANOTHER map for this fan (a dense identity map
			// from an earlier start without override): the override must be used as it is
			pers := persistence.NewPersistence(filepath.Join(dir, "fan2go.db"))
			if closestSeq%2 == 0 && in.Route != "default" {
				dense := map[int]int{}
				for k := 0; k <= 255; k++ {
					dense[k] = k
				}
				if err := pers.SaveFanPwmMap("rec", dense); err != nil {
					panic(err)
				}
			}
			c = controller.VerifNewController(pers, ff, nil, nil, 0)
		} else {
			pers := persistence.NewPersistence(filepath.Join(dir, "fan2go.db"))
			if err := pers.SaveFanPwmMap("rec", given); err != nil {
				panic(err)
			}
			c = controller.VerifNewController(pers, fan, nil, nil, 0)
		}
		if p := catch(func() {
			if in.Route == "init" {
				// what `fan2go fan init` does: the whole initialization sequence (map, sweep over the supported inputs,
				// RPM curve), after which the SAME controller keeps being used
				savedDiff := configuration.CurrentConfig.MaxRpmDiffForSettledFan
				savedNum, savedDen := util.VerifSleepNum, util.VerifSleepDen
				configuration.CurrentConfig.MaxRpmDiffForSettledFan = 10
				util.VerifSleepNum, util.VerifSleepDen = 0, 0 // the settle waits of the sequence take no time here
				defer func() {
					configuration.CurrentConfig.MaxRpmDiffForSettledFan = savedDiff
					util.VerifSleepNum, util.VerifSleepDen = savedNum, savedDen
				}()
				if err := c.RunInitializationSequence(); err != nil {
					panic(err)
				}
				return
			}
			if err := c.VerifComputePwmMap(); err != nil {
				panic(err)
			}
			c.VerifUpdateDistinct()
		}); p != "" {
			panic("route " + in.Route + ": " + p)
		}
		keys = append([]int{}, c.VerifDistinct()...)
		sort.Ints(keys)
		obs.Supported = append([]int{}, keys...)
	default:
		panic("unknown route " + in.Route)
	}
	for ri, r := range in.Reqs {
		if ri == len(in.Reqs)/2 {
			relink()
		}
		var cl *int
		if p := catch(func() { v := util.FindClosest(r, keys); cl = &v }); p != "" {
			cl = nil
		}
		obs.Closest = append(obs.Closest, cl)
		fan.Writes = nil
		var w *int
		if filePath != "" {
			// the control keeps its content from request to request (a shorter value follows a longer one): what the
			// fan is at afterwards is the whole content of the control
			if p := catch(func() { _ = c.VerifSetPwm(r) }); p == "" {
				if b, err := os.ReadFile(filePath); err == nil {
					if v, err := strconv.Atoi(strings.TrimSpace(string(b))); err == nil {
						w = &v
					}
				}
			}
		} else if p := catch(func() { _ = c.VerifSetPwm(r) }); p == "" && len(fan.Writes) == 1 {
			v := fan.Writes[0]
			w = &v
		}
		obs.Written = append(obs.Written, w)
	}
	// Coq: (mkCase pm reqs supported closest written)
	pairs := make([]string, len(in.Pm))
	for i, kv := range in.Pm {
		pairs[i] = "(" + cZ(kv[0]) + ", " + cZ(kv[1]) + ")"
	}
	cl := make([]string, len(obs.Closest))
	for i, v := range obs.Closest {
		cl[i] = cOptZ(v)
	}
	wr := make([]string, len(obs.Written))
	for i, v := range obs.Written {
		wr[i] = cOptZ(v)
	}
	coq := cRec("mkCase", cList(pairs), cZList(in.Reqs), cZList(obs.Supported), cList(cl), cList(wr))
	return obs, coq
}

func interestingReqs(keys []int, rng *Rng, extra int) []int {
	set := map[int]bool{-50: true, 305: true, -1: true, 0: true, 255: true, 256: true}
	for i, k := range keys {
		set[k] = true
		set[k-1] = true
		set[k+1] = true
		if i+1 < len(keys) {
			m := (k + keys[i+1]) / 2
			set[m] = true
			set[m+1] = true
			set[m-1] = true
		}
	}
	for i := 0; i < extra; i++ {
		set[rng.Range(-50, 305)] = true
	}
	var res []int
	for k := range set {
		if k >= -50 && k <= 305 {
			res = append(res, k)
		}
	}
	sort.Ints(res)
	return res
}

func init() {
	drivers["closest"] = func(ctx *Ctx) {
		closestWork = ctx.WorkDir
		emit1 := func(in closestIn, tags ...string) {
			obs, coq := runClosest(in)
			nontrivial := len(obs.Supported) >= 2
			ctx.Emit(Record{In: in, Obs: obs, Coq: coq, Tags: tags, NonTrv: nontrivial})
		}
		nEmit := 0
		emit := func(in closestIn, tags ...string) {
			r0 := in.Route
			if r0 == "" {
				r0 = "direct"
			}
			emit1(in, append(tags, "route="+r0)...)
			nEmit++
			random := len(tags) > 0 && tags[0] == "random"
			if in.Route == "" && in.Prev == "" && len(in.Pm) > 0 && (random || nEmit%3 == 1) {
				in2 := in
				in2.Prev = []string{"const", "rev"}[nEmit%2]
				emit1(in2, append(append([]string{}, tags...), "route=direct", "prev="+in2.Prev)...)
			}
			// every random map, and a rotating tenth of the exhaustive ones, also through the two real routes
			for ri, route := range []string{"config", "persist", "hwmon", "cmd", "init", "symlink"} {
				want := random || nEmit%30 == ri*10
				if route == "symlink" {
					want = (random && nEmit%4 == 1) || nEmit%100 == 55
				}
				if route == "cmd" || route == "init" { // a process per request / a whole sequence per case: fewer of these
					want = (random && nEmit%6 == ri) || nEmit%200 == ri*20
				}
				if in.Route == "" && want {
					in2 := in
					in2.Route = route
					if route == "hwmon" { // limits derived from the input alone
						lo, hi := (nEmit*37)%200, 255-(nEmit*53)%200
						if lo > hi {
							lo, hi = hi, lo
						}
						in2.Lo, in2.Hi, in2.NeverStop = &lo, &hi, nEmit%2 == 0
					}
					emit1(in2, append(append([]string{}, tags...), "route="+route)...)
				}
			}
		}
		for _, raw := range append(ctx.Corpus, ctx.Replay...) {
			var in closestIn
			if json.Unmarshal(raw, &in) == nil {
				emit(in, "corpus")
			}
		}
		if ctx.Replay != nil {
			return
		}
		rng := NewRng(ctx.Seed, "closest")
		// (0) the default map of a fan whose PWM cannot be read back: computed by the real controller, recorded as the
		// identity on 0..255 (Proofs/DefaultMap.v derives that from the interpolation model)
		{
			var ident [][2]int
			for k := 0; k <= 255; k++ {
				ident = append(ident, [2]int{k, k})
			}
			// the 31 keys where the float64 expression alone would truncate to k-1, the ends, and out-of-range requests
			sets := [][]int{{-50, -1, 0, 1, 15, 21, 30, 41, 42, 59, 60, 82}, {83, 84, 85, 118, 119, 120, 121, 164, 165, 166, 167, 168},
				{169, 170, 171, 236, 237, 238, 239, 240, 241, 242, 243, 254, 255, 256, 305}}
			nd := 3
			if !ctx.Quick() {
				var all []int
				for k := -50; k <= 305; k++ {
					all = append(all, k)
				}
				sets = append(sets, all)
				nd = 4
			}
			for i := 0; i < nd; i++ {
				emit1(closestIn{Pm: ident, Reqs: sets[i], Route: "default"}, "default-map", "route=default")
			}
		}
		// (a) exhaustive: all maps over all subsets of a small key universe with outputs from a small alphabet
		universe := []int{0, 3, 4, 10, 200, 255}
		alphabet := []int{0, 7, 255}
		if !ctx.Quick() {
			universe = []int{0, 1, 3, 4, 10, 11, 100, 128, 200, 254, 255, 77}
			sort.Ints(universe)
			alphabet = []int{0, 7}
		}
		nU := len(universe)
		for mask := 1; mask < (1 << nU); mask++ {
			var keys []int
			for i := 0; i < nU; i++ {
				if mask&(1<<i) != 0 {
					keys = append(keys, universe[i])
				}
			}
			if !ctx.Quick() && len(keys) > 12 {
				continue
			}
			total := 1
			for range keys {
				total *= len(alphabet)
			}
			limit := total
			// thorough universes are large: cap output patterns per key set, chosen from the seed
			capPat := ctx.Param("patterns", 1<<30)
			if !ctx.Quick() {
				capPat = ctx.Param("patterns", 6)
			}
			for pi := 0; pi < limit; pi++ {
				p := pi
				if total > capPat {
					if pi >= capPat {
						break
					}
					p = rng.Intn(total)
				}
				in := closestIn{}
				x := p
				for _, k := range keys {
					in.Pm = append(in.Pm, [2]int{k, alphabet[x%len(alphabet)]})
					x /= len(alphabet)
				}
				pm := map[int]int{}
				for _, kv := range in.Pm {
					pm[kv[0]] = kv[1]
				}
				sup := util.ExtractKeysWithDistinctValues(pm)
				sort.Ints(sup)
				in.Reqs = interestingReqs(sup, rng, 2)
				emit(in, "exhaustive", "keys="+itoa(len(keys)))
			}
		}
		// (b) random full-size maps: identity, quantising, non-monotonic, constant, single entry
		nRandom := ctx.Param("random", 300)
		if !ctx.Quick() {
			nRandom = ctx.Param("random", 4000)
		}
		for i := 0; i < nRandom; i++ {
			in := closestIn{}
			kind := rng.Intn(6)
			tag := ""
			switch kind {
			case 0:
				tag = "identity"
				for k := 0; k <= 255; k++ {
					in.Pm = append(in.Pm, [2]int{k, k})
				}
			case 1:
				tag = "quantiser"
				q := rng.Range(2, 64)
				for k := 0; k <= 255; k++ {
					in.Pm = append(in.Pm, [2]int{k, (k / q) * q})
				}
			case 2:
				tag = "nonmonotonic"
				for k := 0; k <= 255; k++ {
					if rng.Chance(1, 3) {
						in.Pm = append(in.Pm, [2]int{k, rng.Range(0, 255)})
					}
				}
			case 3:
				tag = "constant"
				v := rng.Range(0, 255)
				for k := 0; k <= 255; k++ {
					if rng.Chance(1, 2) {
						in.Pm = append(in.Pm, [2]int{k, v})
					}
				}
			case 4:
				tag = "single"
				in.Pm = append(in.Pm, [2]int{rng.Range(0, 255), rng.Range(0, 255)})
			case 5:
				tag = "sparse-user"
				n := rng.Range(2, 12)
				set := map[int]bool{}
				for len(set) < n {
					set[rng.Range(0, 255)] = true
				}
				var ks []int
				for k := range set {
					ks = append(ks, k)
				}
				sort.Ints(ks)
				v := 0
				for _, k := range ks {
					v += rng.Range(0, 40)
					if v > 255 {
						v = 255
					}
					in.Pm = append(in.Pm, [2]int{k, v})
				}
			}
			if len(in.Pm) == 0 {
				in.Pm = append(in.Pm, [2]int{rng.Range(0, 255), rng.Range(0, 255)})
			}
			pm := map[int]int{}
			for _, kv := range in.Pm {
				pm[kv[0]] = kv[1]
			}
			sup := util.ExtractKeysWithDistinctValues(pm)
			sort.Ints(sup)
			reqs := interestingReqs(sup, rng, 6)
			if len(reqs) > 40 {
				// keep the file small: sample 40 of the interesting requests
				var pick []int
				for j := 0; j < 40; j++ {
					pick = append(pick, reqs[rng.Intn(len(reqs))])
				}
				sort.Ints(pick)
				reqs = pick
			}
			in.Reqs = reqs
			emit(in, "random", tag)
		}
	}
}
