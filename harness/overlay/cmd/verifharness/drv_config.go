//go:build verif

package main

// driver `config` (C11): abstract configurations are rendered to YAML text and
// taken through the real path viper -> mapstructure decode hooks ->
// configuration.Validate; accepted ones are instantiated with the real
// constructors and start-up glue, every curve is evaluated through the real
// registries and every fan controller runs one calculateTargetPwm, all under a
// watchdog (recover for panics; a child process for endless recursion, which
// the Go runtime turns into an unrecoverable stack overflow).

import (
	"bufio"
	"bytes"
	"encoding/json"
	"fmt"
	"io"
	"math"
	"os"
	"os/exec"
	"path/filepath"
	"regexp"
	"runtime/debug"
	"sort"
	"strconv"
	"strings"
	"time"

	"github.com/markusressel/fan2go/internal"
	"github.com/markusressel/fan2go/internal/configuration"
	"github.com/markusressel/fan2go/internal/control_loop"
	"github.com/markusressel/fan2go/internal/controller"
	"github.com/markusressel/fan2go/internal/curves"
	"github.com/markusressel/fan2go/internal/fans"
	"github.com/markusressel/fan2go/internal/sensors"
	"github.com/prometheus/client_golang/prometheus"
	"github.com/spf13/viper"
)

// ---------------------------------------------------------------- spelling-level input (JSON, enough to re-run)
type configInSensor struct {
	Id    int  `json:"id"`              // 0 = no id key
	Hwmon *int `json:"hwmon,omitempty"` // index (key omitted when 0 and HwNoIdx)
	File  bool `json:"file,omitempty"`
	Cmd   bool `json:"cmd,omitempty"`
	// EmptyStr: the mandatory string of the block is present but empty (file `path: ""`, cmd `exec: ""`);
	// the validator does not look at it, so the decoded shape (block present) is the same
	EmptyStr bool `json:"emptyStr,omitempty"`
}
type configInLinear struct {
	Sensor    int          `json:"sensor"` // 0 = no sensor key
	Min       int          `json:"min"`
	Max       int          `json:"max"`
	Steps     *[][2]string `json:"steps,omitempty"` // (key, decimal value text); nil = no steps key
	StepsForm int          `json:"stepsForm,omitempty"` // 0 = list of single-key maps (documented), 1 = mapping
}
type configInPidC struct {
	Sensor int       `json:"sensor"`
	Set    string    `json:"set"`
	K      [3]string `json:"k"` // p, i, d as decimal text
}
type configInFunc struct {
	Type       string `json:"type"`
	Curves     []int  `json:"curves"`
	CurvesForm int    `json:"curvesForm,omitempty"` // for the empty list: 0 = `curves: []`, 1 = key omitted; otherwise 0 = block list, 1 = flow list
}
type configInCurve struct {
	Id     int       `json:"id"`
	Linear *configInLinear `json:"linear,omitempty"`
	Pid    *configInPidC   `json:"pid,omitempty"`
	Func   *configInFunc   `json:"func,omitempty"`
}
type configInAlg struct {
	Form   string     `json:"form"` // absent | direct | pid | obj
	Direct *configInDirect  `json:"direct,omitempty"`
	Pid    *[3]string `json:"pid,omitempty"`
}
type configInDirect struct {
	Lim *int `json:"lim,omitempty"`
}
type configInHwFan struct {
	Index int `json:"index"`
	Rpm   int `json:"rpm"`
	Pwm   int `json:"pwm"`
}
type configInCmdFan struct {
	Set    *bool `json:"set,omitempty"` // nil = no setPwm block; false = block without exec
	Get    *bool `json:"get,omitempty"`
	GetRpm bool  `json:"getRpm,omitempty"`
}
type configInFan struct {
	Id     int       `json:"id"`
	Curve  int       `json:"curve"` // 0 = no curve key
	Alg    configInAlg     `json:"alg"`
	Legacy bool      `json:"legacy,omitempty"`
	Hwmon  *configInHwFan  `json:"hwmon,omitempty"`
	File   *bool     `json:"file,omitempty"` // path non-empty
	Cmd    *configInCmdFan `json:"cmd,omitempty"`
	Extras int       `json:"extras,omitempty"` // bit mask: neverStop, minPwm, startPwm, maxPwm, pwmMap
}
type configIn struct {
	Sensors []configInSensor `json:"sensors"`
	Curves  []configInCurve  `json:"curves"`
	Fans    []configInFan    `json:"fans"`
	PermOK  bool       `json:"permOk"`
	Globals bool       `json:"globals,omitempty"` // render the documented top-level options as well
	// EmptyQuoted: an absent id / sensor / curve reference (0) is written as `key: ""` instead of omitting the key;
	// hwmon fans get `platform: ""`
	EmptyQuoted bool `json:"emptyQuoted,omitempty"`
}

// ---------------------------------------------------------------- decoded (semantic) AST = the Coq type Model.Config.config
type configAStep struct {
	K int
	V float64
}
type configALinear struct {
	Sensor, Min, Max int
	Steps            *[]configAStep
}
type configAPidC struct {
	Sensor int
	Set    float64
	K      [3]float64
}
type configAFunc struct {
	Type   string
	Curves []int
}
type configACurve struct {
	Id     int
	Linear *configALinear
	Pid    *configAPidC
	Func   *configAFunc
}
type configASensor struct {
	Id        int
	Hwmon     *int
	File, Cmd bool
}
type configADirect struct{ Lim *int }
type configAAlg struct {
	Direct *configADirect
	Pid    *[3]float64
}
type configACmdFan struct{ Set, Get *bool }
type configAFan struct {
	Id, Curve int
	Alg       *configAAlg
	Legacy    bool
	Hwmon     *configInHwFan
	File      *bool
	Cmd       *configACmdFan
}
type configAConfig struct {
	Sensors []configASensor
	Curves  []configACurve
	Fans    []configAFan
}

func configPf(s string) float64 {
	v, err := strconv.ParseFloat(s, 64)
	if err != nil {
		panic(err)
	}
	return v
}

// configCanon: what the spelling is expected to decode to
func configCanon(in configIn) configAConfig {
	var a configAConfig
	for _, s := range in.Sensors {
		a.Sensors = append(a.Sensors, configASensor{Id: s.Id, Hwmon: s.Hwmon, File: s.File, Cmd: s.Cmd})
	}
	for _, c := range in.Curves {
		ac := configACurve{Id: c.Id}
		if c.Linear != nil {
			l := &configALinear{Sensor: c.Linear.Sensor, Min: c.Linear.Min, Max: c.Linear.Max}
			if c.Linear.Steps != nil {
				m := map[int]float64{}
				for _, kv := range *c.Linear.Steps {
					k, _ := strconv.Atoi(kv[0])
					m[k] = configPf(kv[1])
				}
				st := []configAStep{}
				for k, v := range m {
					st = append(st, configAStep{k, v})
				}
				sort.Slice(st, func(i, j int) bool { return st[i].K < st[j].K })
				l.Steps = &st
			}
			ac.Linear = l
		}
		if c.Pid != nil {
			ac.Pid = &configAPidC{Sensor: c.Pid.Sensor, Set: configPf(c.Pid.Set), K: [3]float64{configPf(c.Pid.K[0]), configPf(c.Pid.K[1]), configPf(c.Pid.K[2])}}
		}
		if c.Func != nil {
			ac.Func = &configAFunc{Type: c.Func.Type, Curves: append([]int{}, c.Func.Curves...)}
		}
		a.Curves = append(a.Curves, ac)
	}
	for _, f := range in.Fans {
		af := configAFan{Id: f.Id, Curve: f.Curve, Legacy: f.Legacy, Hwmon: f.Hwmon, File: f.File}
		switch f.Alg.Form {
		case "direct":
			af.Alg = &configAAlg{Direct: &configADirect{}}
		case "pid":
			d := control_loop.DefaultPidConfig
			af.Alg = &configAAlg{Pid: &[3]float64{d.P, d.I, d.D}}
		case "obj":
			al := &configAAlg{}
			if f.Alg.Direct != nil {
				al.Direct = &configADirect{Lim: f.Alg.Direct.Lim}
			}
			if f.Alg.Pid != nil {
				al.Pid = &[3]float64{configPf(f.Alg.Pid[0]), configPf(f.Alg.Pid[1]), configPf(f.Alg.Pid[2])}
			}
			af.Alg = al
		}
		if f.Cmd != nil {
			af.Cmd = &configACmdFan{Set: f.Cmd.Set, Get: f.Cmd.Get}
		}
		a.Fans = append(a.Fans, af)
	}
	return a
}

// Ids: the abstract id n > 0 stands for the string configIdText(prefix, n); distinct n give
// distinct strings, but n = 4k+1 .. 4k+4 differ only in letter case, surrounding blanks or
// unusual trailing characters ("c0", "C0", " c0 ", "c0.ä/#"), so that a component that
// normalises ids (trims, lower-cases, splits) disagrees with the validator's exact comparison.
// Ids n >= 1000 are kind-neutral: the text "x<n-1000>" whatever the kind, so sensor 1001,
// curve 1001 and fan 1001 carry the SAME string (legal: the validator keeps the kinds apart)
// and a reference can name an object of the wrong kind.
func configIdText(prefix string, n int) string {
	if n >= 1000 {
		return "x" + strconv.Itoa(n-1000)
	}
	base := prefix + strconv.Itoa((n-1)/4)
	switch (n - 1) % 4 {
	case 0:
		return base
	case 1:
		return strings.ToUpper(prefix) + strconv.Itoa((n-1)/4)
	case 2:
		return " " + base + " "
	default:
		return base + ".ä/#"
	}
}

func configParseId(prefix, s string) int {
	if s == "" {
		return 0
	}
	if strings.HasPrefix(s, "x") {
		if k, err := strconv.Atoi(s[1:]); err == nil && k >= 0 && strconv.Itoa(k) == s[1:] {
			return 1000 + k
		}
		return -1
	}
	variant := 0
	t := s
	switch {
	case strings.HasSuffix(t, ".ä/#"):
		variant, t = 3, strings.TrimSuffix(t, ".ä/#")
	case len(t) >= 2 && strings.HasPrefix(t, " ") && strings.HasSuffix(t, " "):
		variant, t = 2, t[1:len(t)-1]
	case strings.HasPrefix(t, strings.ToUpper(prefix)):
		variant, t = 1, prefix+t[len(prefix):]
	}
	if strings.HasPrefix(t, prefix) {
		if k, err := strconv.Atoi(t[len(prefix):]); err == nil && k >= 0 && strconv.Itoa(k) == t[len(prefix):] {
			return 4*k + variant + 1
		}
	}
	return -1
}

// configDecodeBack: what the real loader actually produced, in the same terms
func configDecodeBack(c *configuration.Configuration) configAConfig {
	var a configAConfig
	for _, s := range c.Sensors {
		as := configASensor{Id: configParseId("s", s.ID), File: s.File != nil, Cmd: s.Cmd != nil}
		if s.HwMon != nil {
			v := s.HwMon.Index
			as.Hwmon = &v
		}
		a.Sensors = append(a.Sensors, as)
	}
	for _, cc := range c.Curves {
		ac := configACurve{Id: configParseId("c", cc.ID)}
		if cc.Linear != nil {
			l := &configALinear{Sensor: configParseId("s", cc.Linear.Sensor), Min: cc.Linear.Min, Max: cc.Linear.Max}
			if cc.Linear.Steps != nil {
				st := []configAStep{}
				for k, v := range cc.Linear.Steps {
					st = append(st, configAStep{k, v})
				}
				sort.Slice(st, func(i, j int) bool { return st[i].K < st[j].K })
				l.Steps = &st
			}
			ac.Linear = l
		}
		if cc.PID != nil {
			ac.Pid = &configAPidC{Sensor: configParseId("s", cc.PID.Sensor), Set: cc.PID.SetPoint, K: [3]float64{cc.PID.P, cc.PID.I, cc.PID.D}}
		}
		if cc.Function != nil {
			f := &configAFunc{Type: cc.Function.Type, Curves: []int{}}
			for _, m := range cc.Function.Curves {
				f.Curves = append(f.Curves, configParseId("c", m))
			}
			ac.Func = f
		}
		a.Curves = append(a.Curves, ac)
	}
	for _, fc := range c.Fans {
		af := configAFan{Id: configParseId("f", fc.ID), Curve: configParseId("c", fc.Curve), Legacy: fc.ControlLoop != nil} //nolint:all
		if fc.ControlAlgorithm != nil {
			al := &configAAlg{}
			if fc.ControlAlgorithm.Direct != nil {
				al.Direct = &configADirect{Lim: fc.ControlAlgorithm.Direct.MaxPwmChangePerCycle}
			}
			if fc.ControlAlgorithm.Pid != nil {
				p := fc.ControlAlgorithm.Pid
				al.Pid = &[3]float64{p.P, p.I, p.D}
			}
			af.Alg = al
		}
		if fc.HwMon != nil {
			af.Hwmon = &configInHwFan{Index: fc.HwMon.Index, Rpm: fc.HwMon.RpmChannel, Pwm: fc.HwMon.PwmChannel}
		}
		if fc.File != nil {
			b := len(fc.File.Path) > 0
			af.File = &b
		}
		if fc.Cmd != nil {
			ac := &configACmdFan{}
			if fc.Cmd.SetPwm != nil {
				b := len(fc.Cmd.SetPwm.Exec) > 0
				ac.Set = &b
			}
			if fc.Cmd.GetPwm != nil {
				b := len(fc.Cmd.GetPwm.Exec) > 0
				ac.Get = &b
			}
			af.Cmd = ac
		}
		a.Fans = append(a.Fans, af)
	}
	return a
}

func configSameAst(x, y configAConfig) bool {
	bx, _ := json.Marshal(x)
	by, _ := json.Marshal(y)
	return bytes.Equal(bx, by)
}

// ---------------------------------------------------------------- Coq term of the decoded AST
func configCOpt(s string, present bool) string {
	if !present {
		return "None"
	}
	return "(Some " + s + ")"
}
func configCOptBool(b *bool) string {
	if b == nil {
		return "None"
	}
	return "(Some " + cBool(*b) + ")"
}

var configFtypeCoq = map[string]string{"minimum": "FMin", "average": "FAvg", "maximum": "FMax", "delta": "FDelta", "sum": "FSum", "difference": "FDiff"}

func configCoqConfig(a configAConfig) string {
	var ss, cs, fs []string
	for _, s := range a.Sensors {
		ss = append(ss, cRec("mkSensor", cZ(s.Id), cOptZ(s.Hwmon), cBool(s.File), cBool(s.Cmd)))
	}
	for _, c := range a.Curves {
		lin, pid, fn := "None", "None", "None"
		if c.Linear != nil {
			steps := "None"
			if c.Linear.Steps != nil {
				var st []string
				for _, kv := range *c.Linear.Steps {
					st = append(st, "("+cZ(kv.K)+", "+cF(kv.V)+")")
				}
				steps = "(Some " + cList(st) + ")"
			}
			lin = "(Some " + cRec("mkLinear", cZ(c.Linear.Sensor), cZ(c.Linear.Min), cZ(c.Linear.Max), steps) + ")"
		}
		if c.Pid != nil {
			pid = "(Some " + cRec("mkPidC", cZ(c.Pid.Sensor), cF(c.Pid.Set), cF(c.Pid.K[0]), cF(c.Pid.K[1]), cF(c.Pid.K[2])) + ")"
		}
		if c.Func != nil {
			t, ok := configFtypeCoq[c.Func.Type]
			if !ok {
				t = "FOther"
			}
			fn = "(Some " + cRec("mkFunc", t, cZList(c.Func.Curves)) + ")"
		}
		cs = append(cs, cRec("mkCurve", cZ(c.Id), lin, pid, fn))
	}
	for _, f := range a.Fans {
		alg, hw, cmd := "None", "None", "None"
		if f.Alg != nil {
			d, p := "None", "None"
			if f.Alg.Direct != nil {
				d = "(Some " + cOptZ(f.Alg.Direct.Lim) + ")"
			}
			if f.Alg.Pid != nil {
				p = "(Some " + cRec("mkPid3", cF(f.Alg.Pid[0]), cF(f.Alg.Pid[1]), cF(f.Alg.Pid[2])) + ")"
			}
			alg = "(Some " + cRec("mkAlg", d, p) + ")"
		}
		if f.Hwmon != nil {
			hw = "(Some " + cRec("mkHwFan", cZ(f.Hwmon.Index), cZ(f.Hwmon.Rpm), cZ(f.Hwmon.Pwm)) + ")"
		}
		if f.Cmd != nil {
			cmd = "(Some " + cRec("mkCmdFan", configCOptBool(f.Cmd.Set), configCOptBool(f.Cmd.Get)) + ")"
		}
		fs = append(fs, cRec("mkFan", cZ(f.Id), cZ(f.Curve), alg, cBool(f.Legacy), hw, configCOptBool(f.File), cmd))
	}
	return cRec("mkConfig", cList(ss), cList(cs), cList(fs))
}

// ---------------------------------------------------------------- YAML rendering
// configIdStr: YAML scalar for id n (0 = the empty string, only reachable for list members;
// scalar keys are omitted instead). Everything but the plain spelling is double-quoted.
func configIdStr(prefix string, n int) string {
	if n == 0 {
		return `""`
	}
	t := configIdText(prefix, n)
	if n >= 1000 || (n-1)%4 == 0 {
		return t
	}
	return strconv.Quote(t)
}

func configRenderYaml(in configIn, work string) string {
	var b strings.Builder
	w := func(format string, a ...interface{}) { fmt.Fprintf(&b, format, a...) }
	if in.Globals {
		w("dbPath: \"%s\"\nrunFanInitializationInParallel: false\nmaxRpmDiffForSettledFan: 20\nfanResponseDelay: 2\n", filepath.Join(work, "fan2go.db"))
		w("tempSensorPollingRate: 200ms\ntempRollingWindowSize: 10\nrpmPollingRate: 1s\nrpmRollingWindowSize: 10\ncontrollerAdjustmentTickRate: 200ms\n")
	}
	if len(in.Fans) == 0 {
		w("fans: []\n")
	} else {
		w("fans:\n")
	}
	for i, f := range in.Fans {
		first := true
		item := func(format string, a ...interface{}) {
			if first {
				w("  - "+format, a...)
				first = false
			} else {
				w("    "+format, a...)
			}
		}
		if f.Id != 0 || in.EmptyQuoted {
			item("id: %s\n", configIdStr("f", f.Id))
		}
		if f.Hwmon != nil {
			item("hwmon:\n")
			if in.EmptyQuoted {
				w("      platform: \"\"\n")
			} else {
				w("      platform: nct6798\n")
			}
			if f.Hwmon.Index != 0 {
				w("      index: %d\n", f.Hwmon.Index)
			}
			if f.Hwmon.Rpm != 0 {
				w("      rpmChannel: %d\n", f.Hwmon.Rpm)
			}
			if f.Hwmon.Pwm != 0 {
				w("      pwmChannel: %d\n", f.Hwmon.Pwm)
			}
		}
		if f.File != nil {
			if *f.File {
				item("file:\n      path: %s\n      rpmPath: %s\n", filepath.Join(work, fmt.Sprintf("fan%d_pwm", i)), filepath.Join(work, fmt.Sprintf("fan%d_rpm", i)))
			} else if i%2 == 0 {
				item("file: {}\n")
			} else {
				item("file:\n      rpmPath: %s\n", filepath.Join(work, fmt.Sprintf("fan%d_rpm", i)))
			}
		}
		if f.Cmd != nil {
			if f.Cmd.Set == nil && f.Cmd.Get == nil && !f.Cmd.GetRpm {
				item("cmd: {}\n")
			} else {
				item("cmd:\n")
				if f.Cmd.Set != nil {
					if *f.Cmd.Set {
						w("      setPwm:\n        exec: /bin/true\n        args: [ \"--set\", \"%%pwm%%\" ]\n")
					} else {
						w("      setPwm:\n        args: [ \"%%pwm%%\" ]\n")
					}
				}
				if f.Cmd.Get != nil {
					if *f.Cmd.Get {
						w("      getPwm:\n        exec: /bin/cat\n        args: [ \"%s\" ]\n", filepath.Join(work, fmt.Sprintf("fan%d_pwm", i)))
					} else {
						w("      getPwm:\n        exec: \"\"\n")
					}
				}
				if f.Cmd.GetRpm {
					w("      getRpm:\n        exec: /bin/cat\n        args: [ \"%s\" ]\n", filepath.Join(work, fmt.Sprintf("fan%d_rpm", i)))
				}
			}
		}
		if f.Extras&1 != 0 {
			item("neverStop: true\n")
		}
		if f.Curve != 0 || in.EmptyQuoted {
			item("curve: %s\n", configIdStr("c", f.Curve))
		}
		switch f.Alg.Form {
		case "direct":
			item("controlAlgorithm: direct\n")
		case "pid":
			item("controlAlgorithm: pid\n")
		case "obj":
			if f.Alg.Direct == nil && f.Alg.Pid == nil {
				item("controlAlgorithm: {}\n")
			} else {
				item("controlAlgorithm:\n")
				if f.Alg.Direct != nil {
					if f.Alg.Direct.Lim != nil {
						w("      direct:\n        maxPwmChangePerCycle: %d\n", *f.Alg.Direct.Lim)
					} else {
						w("      direct: {}\n")
					}
				}
				if f.Alg.Pid != nil {
					w("      pid:\n        p: %s\n        i: %s\n        d: %s\n", f.Alg.Pid[0], f.Alg.Pid[1], f.Alg.Pid[2])
				}
			}
		}
		if f.Legacy {
			item("controlLoop:\n      p: 0.03\n      i: 0.002\n      d: 0.0005\n")
		}
		if f.Extras&2 != 0 {
			item("minPwm: 30\n")
		}
		if f.Extras&4 != 0 {
			item("startPwm: 30\n")
		}
		if f.Extras&8 != 0 {
			item("maxPwm: 255\n")
		}
		if f.Extras&16 != 0 {
			item("pwmMap:\n      0: 0\n      64: 128\n      192: 255\n")
		}
		if first {
			w("  - {}\n")
		}
	}
	if len(in.Sensors) == 0 {
		w("sensors: []\n")
	} else {
		w("sensors:\n")
	}
	for i, s := range in.Sensors {
		first := true
		item := func(format string, a ...interface{}) {
			if first {
				w("  - "+format, a...)
				first = false
			} else {
				w("    "+format, a...)
			}
		}
		if s.Id != 0 || in.EmptyQuoted {
			item("id: %s\n", configIdStr("s", s.Id))
		}
		if s.Hwmon != nil {
			item("hwmon:\n      platform: coretemp\n")
			if *s.Hwmon != 0 {
				w("      index: %d\n", *s.Hwmon)
			}
		}
		if s.File && s.EmptyStr {
			item("file:\n      path: \"\"\n")
		} else if s.File {
			item("file:\n      path: %s\n", filepath.Join(work, fmt.Sprintf("sensor%d", i)))
		}
		if s.Cmd && s.EmptyStr {
			item("cmd:\n      exec: \"\"\n      args: [ '%s' ]\n", filepath.Join(work, fmt.Sprintf("sensor%d", i)))
		} else if s.Cmd {
			item("cmd:\n      exec: /bin/cat\n      args: [ '%s' ]\n", filepath.Join(work, fmt.Sprintf("sensor%d", i)))
		}
		if first {
			w("  - {}\n")
		}
	}
	if len(in.Curves) == 0 {
		w("curves: []\n")
	} else {
		w("curves:\n")
	}
	for _, c := range in.Curves {
		first := true
		item := func(format string, a ...interface{}) {
			if first {
				w("  - "+format, a...)
				first = false
			} else {
				w("    "+format, a...)
			}
		}
		if c.Id != 0 || in.EmptyQuoted {
			item("id: %s\n", configIdStr("c", c.Id))
		}
		if c.Linear != nil {
			l := c.Linear
			if l.Sensor == 0 && l.Steps == nil && l.Min == 0 && l.Max == 0 && !in.EmptyQuoted {
				item("linear: {}\n")
			} else {
				item("linear:\n")
				if l.Sensor != 0 || in.EmptyQuoted {
					w("      sensor: %s\n", configIdStr("s", l.Sensor))
				}
				if l.Min != 0 || l.Max != 0 {
					w("      min: %d\n      max: %d\n", l.Min, l.Max)
				}
				if l.Steps != nil {
					switch {
					case len(*l.Steps) == 0 && l.StepsForm == 0:
						w("      steps: []\n")
					case len(*l.Steps) == 0:
						w("      steps: {}\n")
					case l.StepsForm == 0:
						w("      steps:\n")
						for _, kv := range *l.Steps {
							w("        - %s: %s\n", kv[0], kv[1])
						}
					default:
						w("      steps:\n")
						for _, kv := range *l.Steps {
							w("        %s: %s\n", kv[0], kv[1])
						}
					}
				}
			}
		}
		if c.Pid != nil {
			item("pid:\n")
			if c.Pid.Sensor != 0 || in.EmptyQuoted {
				w("      sensor: %s\n", configIdStr("s", c.Pid.Sensor))
			}
			w("      setPoint: %s\n      p: %s\n      i: %s\n      d: %s\n", c.Pid.Set, c.Pid.K[0], c.Pid.K[1], c.Pid.K[2])
		}
		if c.Func != nil {
			item("function:\n")
			if c.Func.Type != "" {
				w("      type: %s\n", c.Func.Type)
			}
			switch {
			case len(c.Func.Curves) == 0 && c.Func.CurvesForm == 0:
				w("      curves: []\n")
			case len(c.Func.Curves) == 0:
				if c.Func.Type == "" {
					w("      curves:\n")
				}
			case c.Func.CurvesForm == 0:
				w("      curves:\n")
				for _, m := range c.Func.Curves {
					w("        - %s\n", configIdStr("c", m))
				}
			default:
				var ms []string
				for _, m := range c.Func.Curves {
					ms = append(ms, configIdStr("c", m))
				}
				w("      curves: [ %s ]\n", strings.Join(ms, ", "))
			}
		}
		if first {
			w("  - {}\n")
		}
	}
	if in.Globals {
		w("statistics:\n  enabled: false\n  port: 9000\napi:\n  enabled: false\n  host: localhost\n  port: 9001\nprofiling:\n  enabled: false\n  host: localhost\n  port: 6060\n")
	}
	return b.String()
}

// ---------------------------------------------------------------- the real loader + validator
var configErrClasses = []struct {
	re   *regexp.Regexp
	code int
}{
	{regexp.MustCompile(`^duplicate sensor id detected`), 1},
	{regexp.MustCompile(`^sensor .*: only one sensor type`), 2},
	{regexp.MustCompile(`^sensor .*: sub-configuration for sensor is missing`), 3},
	{regexp.MustCompile(`^sensor .*: invalid index`), 4},
	{regexp.MustCompile(`^duplicate curve id detected`), 10},
	{regexp.MustCompile(`^curve .*: only one curve type`), 11},
	{regexp.MustCompile(`^curve .*: sub-configuration for curve is missing`), 12},
	{regexp.MustCompile(`^curve .*: unsupported function type`), 13},
	{regexp.MustCompile(`^curve .*: a curve cannot reference itself`), 14},
	{regexp.MustCompile(`^curve .*: no curve definition with id`), 15},
	{regexp.MustCompile(`^curve .*: missing sensorId`), 16},
	{regexp.MustCompile(`^curve .*: no sensor definition with id`), 17},
	{regexp.MustCompile(`^curve .*: all PID constants are zero`), 18},
	{regexp.MustCompile(`^you have created a curve dependency cycle`), 19},
	{regexp.MustCompile(`^curve .*: function curve .*at least one`), 20},
	{regexp.MustCompile(`^curve .*: steps must not be empty`), 21},
	{regexp.MustCompile(`^duplicate fan id detected`), 30},
	{regexp.MustCompile(`^fan .*: only one fan type`), 31},
	{regexp.MustCompile(`^fan .*: sub-configuration for fan is missing`), 32},
	{regexp.MustCompile(`^fan .*: missing curve definition`), 33},
	{regexp.MustCompile(`^fan .*: no curve definition with id`), 34},
	{regexp.MustCompile(`^fan .*: invalid maxPwmChangePerCycle`), 35},
	{regexp.MustCompile(`^fan .*: all PID constants are zero`), 36},
	{regexp.MustCompile(`^fan .*: must have one of index or rpmChannel`), 37},
	{regexp.MustCompile(`^fan .*: invalid index`), 38},
	{regexp.MustCompile(`^fan .*: invalid rpmChannel`), 39},
	{regexp.MustCompile(`^fan .*: invalid pwmChannel`), 40},
	{regexp.MustCompile(`^fan .*: no file path provided`), 41},
	{regexp.MustCompile(`^fan .*: missing setPwm configuration`), 42},
	{regexp.MustCompile(`^fan .*: setPwm executable is missing`), 43},
	{regexp.MustCompile(`^fan .*: missing getPwm configuration`), 44},
	{regexp.MustCompile(`^fan .*: getPwm executable is missing`), 45},
	{regexp.MustCompile(`^fan .*: controlAlgorithm .*one of`), 46},
	{regexp.MustCompile(`^config file .* has invalid permissions`), 50},
}

func configClassifyErr(err error) int {
	if err == nil {
		return 0
	}
	msg := err.Error()
	for _, c := range configErrClasses {
		if c.re.MatchString(msg) {
			return c.code
		}
	}
	return 99
}

// configLoadYaml: the path of `fan2go config validate` up to and including LoadConfig
// (DetectAndReadConfigFile without its os.Exit wrapper). "" = loaded.
func configLoadYaml(path string) string {
	viper.Reset()
	configuration.InitConfig(path)
	if err := configuration.VerifReadInConfig(); err != nil {
		return "read: " + err.Error()
	}
	if p := catch(func() { configuration.LoadConfig() }); p != "" {
		return "decode: " + p
	}
	return ""
}

// ---------------------------------------------------------------- instantiation and evaluation of an accepted configuration
type configLiveObjs struct {
	instFailed bool
	fanList    []fans.Fan
	fanMap     map[configuration.FanConfig]fans.Fan
	ctrls      map[fans.Fan]controller.FanController
	ctrlCrash  bool
}

func configWriteInt(path string, v int) { _ = os.WriteFile(path, []byte(strconv.Itoa(v)+"\n"), 0o644) }

func configResetGlobals() {
	sensors.VerifResetRegistry()
	curves.VerifResetRegistry()
	fans.VerifResetRegistry()
	reg := prometheus.NewRegistry()
	prometheus.DefaultRegisterer = reg
	prometheus.DefaultGatherer = reg
}

// The fake hwmon tree the gosensors stand-in enumerates ($VERIF_HWMON_ROOT): chip "coretemp"
// with temp1..temp9, chip "nct6798" with fan1..fan9 / pwm1..pwm9 (same for every case).
func configHwmonRoot(work string) string { return filepath.Join(work, "hwmon") }
func configTempPath(work string, idx int) string {
	return filepath.Join(configHwmonRoot(work), "hwmon0", fmt.Sprintf("temp%d_input", idx))
}

func configMakeHwmonTree(work string) {
	root := configHwmonRoot(work)
	d0, d1 := filepath.Join(root, "hwmon0"), filepath.Join(root, "hwmon1")
	_ = os.MkdirAll(d0, 0o755)
	_ = os.MkdirAll(d1, 0o755)
	_ = os.WriteFile(filepath.Join(d0, "name"), []byte("coretemp\n"), 0o644)
	_ = os.WriteFile(filepath.Join(d1, "name"), []byte("nct6798\n"), 0o644)
	for n := 1; n <= 9; n++ {
		configWriteInt(configTempPath(work, n), 45000)
		configWriteInt(filepath.Join(d1, fmt.Sprintf("fan%d_input", n)), 1200)
		configWriteInt(filepath.Join(d1, fmt.Sprintf("pwm%d", n)), 100)
		configWriteInt(filepath.Join(d1, fmt.Sprintf("pwm%d_enable", n)), 1)
	}
	_ = os.WriteFile(filepath.Join(root, "order"), []byte("hwmon0\nhwmon1\n"), 0o644)
	os.Setenv("VERIF_HWMON_ROOT", root)
}

// configSensorFile: the file a sensor entry reads (backend precedence of sensors.NewSensor)
func configSensorFile(work string, i int, sc configuration.SensorConfig) string {
	if sc.HwMon != nil {
		return configTempPath(work, sc.HwMon.Index)
	}
	return filepath.Join(work, fmt.Sprintf("sensor%d", i))
}

// configInstantiateAll runs the REAL start-up glue internal.InitializeObjects()
// (hwmon.GetChips through the gosensors stand-in on the fake tree, initializeSensors,
// initializeCurves, initializeFans) on CurrentConfig, then (optionally) the real
// initializeFanControllers.  A panic in the glue counts as a failed instantiation.
func configInstantiateAll(work string, withCtrl bool) *configLiveObjs {
	configResetGlobals()
	configMakeHwmonTree(work)
	cfg := &configuration.CurrentConfig
	o := &configLiveObjs{}
	for i, sc := range cfg.Sensors {
		configWriteInt(filepath.Join(work, fmt.Sprintf("sensor%d", i)), 45000)
		_ = sc
	}
	for i := range cfg.Fans {
		configWriteInt(filepath.Join(work, fmt.Sprintf("fan%d_pwm", i)), 100)
		configWriteInt(filepath.Join(work, fmt.Sprintf("fan%d_rpm", i)), 1200)
	}
	var err error
	if p := catch(func() { o.fanMap, err = internal.InitializeObjects() }); p != "" || err != nil {
		o.instFailed = true
		return o
	}
	// fan object per configuration entry: the map is keyed by the (copied) entry, whose
	// backend blocks are the pointers of the CurrentConfig entry
	for _, fc := range cfg.Fans {
		var found fans.Fan
		for k, f := range o.fanMap {
			if k.ID == fc.ID && k.HwMon == fc.HwMon && k.File == fc.File && k.Cmd == fc.Cmd {
				found = f
			}
		}
		o.fanList = append(o.fanList, found)
	}
	if withCtrl {
		if p := catch(func() { o.ctrls, _ = internal.VerifInitializeFanControllers(nil, o.fanMap) }); p != "" {
			o.ctrlCrash = true
		}
	}
	return o
}

// sensor environments: (file content = raw value for PID curves, moving average for linear curves)
var configSensorEnvs = []struct {
	raw int
	avg float64
}{
	{45000, 45000}, {0, 0}, {-50000, -50000}, {1000000000, 1e9}, {61234, math.NaN()}, {20000, math.Inf(1)}, {99000, math.Inf(-1)},
	{50000, 50000.5},
}

func configSetEnv(work string, k int) {
	e := configSensorEnvs[k]
	for i, sc := range configuration.CurrentConfig.Sensors {
		configWriteInt(configSensorFile(work, i, sc), e.raw)
		if s, ok := sensors.GetSensor(sc.ID); ok {
			s.SetMovingAvg(e.avg)
		}
	}
}

// configEvalCurve: 0 = every evaluation returned, 1 = panic.  (Endless recursion kills the process.)
func configEvalCurve(work string, idx int) int {
	id := configuration.CurrentConfig.Curves[idx].ID
	for k := range configSensorEnvs {
		configSetEnv(work, k)
		p := catch(func() {
			c, _ := curves.GetSpeedCurve(id)
			_, _ = c.Evaluate()
		})
		if p != "" {
			return 1
		}
	}
	return 0
}

func configRunFan(work string, o *configLiveObjs, idx int) int {
	for k := range configSensorEnvs[:3] {
		configSetEnv(work, k)
		p := catch(func() {
			c := o.ctrls[o.fanList[idx]].(*controller.DefaultFanController)
			_, _ = c.VerifCalculateTargetPwm()
		})
		if p != "" {
			return 1
		}
	}
	return 0
}

// ---------------------------------------------------------------- the worker process
// Endless recursion ends in a stack overflow, which the Go runtime does not let a
// program recover from.  Every accepted configuration is therefore instantiated and
// run in a persistent worker process (this binary, driver `config_worker`): it loads
// the same YAML file through the real loader, runs the real Validate on its own
// CurrentConfig, instantiates from that same in-memory configuration and reports
// target by target on stdout.  When the worker dies or stalls, the target it had
// started is the culprit; a fresh worker resumes with the next target.
//
//	request (one line on stdin):  <first target ordinal> <yaml path>
//	replies: "V <verdict>", "INST <0|1>", "S <t>", "R <t> <0|1>", "CTRL <0|1>", "DONE"
//	targets: curve entries 0..nc-1, then fan entries nc..nc+nf-1
func init() {
	drivers["config_worker"] = func(ctx *Ctx) {
		debug.SetMaxStack(4 << 20)
		out := bufio.NewWriter(os.Stdout)
		say := func(format string, a ...interface{}) {
			fmt.Fprintf(out, format+"\n", a...)
			out.Flush()
		}
		sc := bufio.NewScanner(os.Stdin)
		sc.Buffer(make([]byte, 1<<16), 1<<20)
		say("READY")
		for sc.Scan() {
			parts := strings.SplitN(sc.Text(), " ", 2)
			if len(parts) != 2 {
				continue
			}
			from, _ := strconv.Atoi(parts[0])
			path := parts[1]
			if msg := configLoadYaml(path); msg != "" {
				say("V 98")
				say("DONE")
				continue
			}
			v := configClassifyErr(configuration.Validate(path))
			say("V %d", v)
			if v != 0 {
				say("DONE")
				continue
			}
			// from here on: the configuration object the validator has just approved
			o := configInstantiateAll(ctx.WorkDir, false)
			if o.instFailed {
				say("INST 1")
				say("DONE")
				continue
			}
			say("INST 0")
			nc := len(configuration.CurrentConfig.Curves)
			nf := len(configuration.CurrentConfig.Fans)
			for t := from; t < nc; t++ {
				say("S %d", t)
				say("R %d %d", t, configEvalCurve(ctx.WorkDir, t))
			}
			if p := catch(func() { o.ctrls, _ = internal.VerifInitializeFanControllers(nil, o.fanMap) }); p != "" {
				say("CTRL 1")
				say("DONE")
				continue
			}
			say("CTRL 0")
			for t := from; t < nc+nf; t++ {
				if t < nc {
					continue
				}
				say("S %d", t)
				say("R %d %d", t, configRunFan(ctx.WorkDir, o, t-nc))
			}
			configResetGlobals()
			say("DONE")
		}
	}
}

type configWorker struct {
	cmd     *exec.Cmd
	stdin   io.WriteCloser
	lines   chan string
	errPath string
}

var configTheWorker *configWorker

func configStartWorker(ctx *Ctx) *configWorker {
	w := &configWorker{errPath: filepath.Join(ctx.WorkDir, "worker.stderr")}
	w.cmd = exec.Command(os.Args[0], "config_worker", "--work", ctx.WorkDir)
	ef, err := os.Create(w.errPath)
	if err != nil {
		panic(err)
	}
	w.cmd.Stderr = ef
	w.stdin, _ = w.cmd.StdinPipe()
	so, _ := w.cmd.StdoutPipe()
	if err := w.cmd.Start(); err != nil {
		panic(err)
	}
	ef.Close()
	w.lines = make(chan string, 256)
	go func() {
		sc := bufio.NewScanner(so)
		for sc.Scan() {
			w.lines <- sc.Text()
		}
		close(w.lines)
	}()
	if l, ok := w.next(20 * time.Second); !ok || l != "READY" {
		panic("config worker did not start")
	}
	return w
}

// next: the next reply line; ok = false when the worker died or stalled (it is then killed)
func (w *configWorker) next(d time.Duration) (string, bool) {
	select {
	case l, ok := <-w.lines:
		if !ok {
			_ = w.cmd.Wait()
			return "", false
		}
		return l, true
	case <-time.After(d):
		_ = w.cmd.Process.Kill()
		_ = w.cmd.Wait()
		return "stalled", false
	}
}

func (w *configWorker) overflowed() bool {
	b, _ := os.ReadFile(w.errPath)
	s := string(b)
	return strings.Contains(s, "stack overflow") || strings.Contains(s, "goroutine stack exceeds") ||
		strings.Contains(s, "all goroutines are asleep")
}

// configRunAccepted fills Inst/Curves/Ctrl/Fans of obs from the worker's replies.
func configRunAccepted(ctx *Ctx, path string, nc, nf int, obs *configObs) {
	res := make([]int, nc+nf)
	for i := range res {
		res[i] = -1
	}
	from := 0
	for attempt := 0; attempt <= nc+nf+1; attempt++ {
		if configTheWorker == nil {
			configTheWorker = configStartWorker(ctx)
		}
		w := configTheWorker
		fmt.Fprintf(w.stdin, "%d %s\n", from, path)
		started := -1
		done := false
		for !done {
			l, ok := w.next(8 * time.Second)
			if !ok {
				// died (exit / fatal error) or stalled: blame the started target
				configTheWorker = nil
				code := 1
				if l == "stalled" || w.overflowed() {
					code = 2 // endless recursion, or blocked for good (runtime: "all goroutines are asleep - deadlock!")
				}
				obs.WorkerDied = true
				if started >= 0 {
					res[started] = code
					// the worker process died or stalled (stack overflow, deadlock, fatal error, os.Exit):
					// the case is a failing input already; the remaining targets are not run (each could
					// cost another watchdog period or worker start)
					from = nc + nf
				} else {
					// died outside any target (instantiation / controller construction)
					obs.WorkerDied = true
					if obs.Inst == 0 && obs.WorkerVerdict == 0 && from == 0 {
						obs.Inst = 1
					}
					from = nc + nf
				}
				break
			}
			f := strings.Fields(l)
			if len(f) == 0 {
				continue
			}
			switch f[0] {
			case "V":
				obs.WorkerVerdict, _ = strconv.Atoi(f[1])
			case "INST":
				obs.Inst, _ = strconv.Atoi(f[1])
			case "CTRL":
				obs.Ctrl, _ = strconv.Atoi(f[1])
			case "S":
				started, _ = strconv.Atoi(f[1])
			case "R":
				t, _ := strconv.Atoi(f[1])
				res[t], _ = strconv.Atoi(f[2])
				started = -1
			case "DONE":
				done = true
			}
		}
		if done || from >= nc+nf {
			break
		}
	}
	if obs.WorkerVerdict != 0 || obs.Inst != 0 {
		return
	}
	for t := 0; t < nc; t++ {
		if res[t] >= 0 {
			obs.Curves = append(obs.Curves, res[t])
		}
	}
	if obs.Ctrl == 0 {
		for t := nc; t < nc+nf; t++ {
			if res[t] >= 0 {
				obs.Fans = append(obs.Fans, res[t])
			}
		}
	}
}

// ---------------------------------------------------------------- one case
type configObs struct {
	Load          string `json:"load,omitempty"` // non-empty: the loader failed (not expected for generated inputs)
	DecodeOK      bool   `json:"decodeOk"`       // the loader produced exactly the AST the spelling stands for
	Err           string `json:"err,omitempty"`
	Verdict       int    `json:"verdict"`
	WorkerVerdict int    `json:"workerVerdict,omitempty"` // verdict of the worker's own Validate on the same file (0 expected)
	WorkerDied    bool   `json:"workerDied,omitempty"`
	Cli           int    `json:"cli"` // verdict class of the real `fan2go config validate -c file` (child process); -1 = not sampled
	Inst          int    `json:"inst"`   // accepted only: 0 = instantiated, 1 = a constructor failed
	Curves        []int  `json:"curves"` // per curve entry: 0 returned, 1 panic, 2 endless recursion
	Ctrl          int    `json:"ctrl"`   // 0 = controllers constructed, 1 = crash
	Fans          []int  `json:"fans"`   // per fan entry (only when Ctrl = 0)
}

func configRunConfig(ctx *Ctx, in configIn, cli bool) (configObs, string) {
	work := ctx.WorkDir
	yamlText := configRenderYaml(in, work)
	path := filepath.Join(work, "case.yaml")
	_ = os.Remove(path)
	mode := os.FileMode(0o644)
	if !in.PermOK {
		mode = 0o666
	}
	if err := os.WriteFile(path, []byte(yamlText), mode); err != nil {
		panic(err)
	}
	_ = os.Chmod(path, mode)
	want := configCanon(in)
	obs := configObs{Curves: []int{}, Fans: []int{}, Cli: -1}
	if cli {
		obs.Cli = configRunCli(ctx, path)
	}
	obs.Load = configLoadYaml(path)
	if obs.Load == "" {
		obs.DecodeOK = configSameAst(want, configDecodeBack(&configuration.CurrentConfig))
		err := configuration.Validate(path)
		obs.Verdict = configClassifyErr(err)
		if err != nil {
			obs.Err = err.Error()
		}
		if err == nil {
			configRunAccepted(ctx, path, len(configuration.CurrentConfig.Curves), len(configuration.CurrentConfig.Fans), &obs)
			if obs.WorkerVerdict != 0 {
				// the same file validated differently in a second process: not a deterministic verdict
				obs.DecodeOK = false
			}
		}
	}
	coq := cRec("mkCase", configCoqConfig(want), cBool(in.PermOK), cBool(obs.Load == "" && obs.DecodeOK), cZ(obs.Verdict),
		cZ(obs.Cli), cZ(obs.Inst), cZList(obs.Curves), cZ(obs.Ctrl), cZList(obs.Fans))
	return obs, coq
}

// ---------------------------------------------------------------- generators
var configFnTypes = []string{"minimum", "average", "maximum", "delta", "sum", "difference"}

func configBp(b bool) *bool { return &b }
func configIp(i int) *int   { return &i }

var configPidTexts = [][3]string{{"0.3", "0.02", "0.005"}, {"-0.05", "-0.005", "-0.005"}, {"1", "0", "0"}, {"0", "0", "0.5"}, {"0.0", "2.5", "0"}}

func configGenSensor(r *Rng, id int) configInSensor {
	s := configInSensor{Id: id}
	switch r.Intn(3) {
	case 0:
		s.Hwmon = configIp(r.Range(1, 9))
	case 1:
		s.File = true
	default:
		s.Cmd = true
	}
	return s
}

func configGenSteps(r *Rng, n int) *[][2]string {
	st := [][2]string{}
	k := r.Range(-10, 40)
	vals := []string{"0", "50", "255", "188.5", "12.25", "300", "-5", "100"}
	for i := 0; i < n; i++ {
		st = append(st, [2]string{strconv.Itoa(k), vals[r.Intn(len(vals))]})
		k += r.Range(1, 30)
	}
	return &st
}

func configGenLeaf(r *Rng, id int, sensorIds []int) configInCurve {
	c := configInCurve{Id: id}
	sid := sensorIds[r.Intn(len(sensorIds))]
	switch r.Intn(4) {
	case 0:
		c.Linear = &configInLinear{Sensor: sid, Min: r.Range(20, 50), Max: r.Range(51, 95)}
	case 1:
		c.Linear = &configInLinear{Sensor: sid, Steps: configGenSteps(r, r.Range(1, 5)), StepsForm: r.Intn(2)}
	case 2:
		// hostile but accepted: min >= max (no crash is demanded, not sensible output)
		m := r.Range(0, 60)
		c.Linear = &configInLinear{Sensor: sid, Min: m, Max: m - r.Intn(3)}
		if c.Linear.Min == 0 && c.Linear.Max == 0 {
			c.Linear.Max = 1
		}
	default:
		c.Pid = &configInPidC{Sensor: sid, Set: []string{"60", "45.5", "0"}[r.Intn(3)], K: configPidTexts[r.Intn(len(configPidTexts))]}
	}
	return c
}

func configGenFan(r *Rng, id int, curve int) configInFan {
	f := configInFan{Id: id, Curve: curve, Extras: r.Intn(32)}
	switch r.Intn(4) {
	case 0:
		f.Hwmon = &configInHwFan{Rpm: r.Range(1, 9), Pwm: r.Intn(3)}
	case 1:
		f.Hwmon = &configInHwFan{Index: r.Range(1, 9)}
	case 2:
		f.File = configBp(true)
	default:
		f.Cmd = &configInCmdFan{Set: configBp(true), Get: configBp(true), GetRpm: r.Bool()}
	}
	switch r.Intn(7) {
	case 0:
		f.Alg.Form = "absent"
	case 1:
		f.Alg.Form = "direct"
	case 2:
		f.Alg.Form = "pid"
	case 3:
		f.Alg = configInAlg{Form: "obj", Direct: &configInDirect{Lim: configIp(r.Range(1, 40))}}
	case 4:
		f.Alg = configInAlg{Form: "obj", Direct: &configInDirect{}}
	case 5:
		k := configPidTexts[r.Intn(len(configPidTexts))]
		f.Alg = configInAlg{Form: "obj", Pid: &k}
	default:
		k := configPidTexts[r.Intn(len(configPidTexts))]
		f.Alg = configInAlg{Form: "obj", Direct: &configInDirect{Lim: configIp(r.Range(1, 40))}, Pid: &k}
	}
	if f.Alg.Form == "" {
		f.Alg.Form = "absent"
	}
	return f
}

// configGenValid: a configuration assembled from the documented forms; function curves
// form a DAG whose definition order in the file is shuffled.
func configGenValid(r *Rng, nLeaf, nFunc int) configIn {
	in := configIn{PermOK: true, Globals: r.Bool()}
	ns := r.Range(1, 3)
	var sids []int
	for i := 1; i <= ns; i++ {
		sids = append(sids, i)
		in.Sensors = append(in.Sensors, configGenSensor(r, i))
	}
	var cs []configInCurve
	for i := 1; i <= nLeaf; i++ {
		cs = append(cs, configGenLeaf(r, i, sids))
	}
	for j := 1; j <= nFunc; j++ {
		id := nLeaf + j
		k := r.Range(1, 4)
		var ms []int
		for x := 0; x < k; x++ {
			ms = append(ms, r.Range(1, id-1))
		}
		cs = append(cs, configInCurve{Id: id, Func: &configInFunc{Type: configFnTypes[r.Intn(6)], Curves: ms, CurvesForm: r.Intn(2)}})
	}
	// shuffle definition order
	for i := len(cs) - 1; i > 0; i-- {
		j := r.Intn(i + 1)
		cs[i], cs[j] = cs[j], cs[i]
	}
	in.Curves = cs
	nf := r.Range(1, 3)
	for i := 1; i <= nf; i++ {
		in.Fans = append(in.Fans, configGenFan(r, i, r.Range(1, nLeaf+nFunc)))
	}
	return in
}

func configFindFunc(in *configIn) *configInCurve {
	for i := range in.Curves {
		if in.Curves[i].Func != nil {
			return &in.Curves[i]
		}
	}
	return nil
}
func configFindLinear(in *configIn) *configInCurve {
	for i := range in.Curves {
		if in.Curves[i].Linear != nil {
			return &in.Curves[i]
		}
	}
	return nil
}
func configFindPid(in *configIn) *configInCurve {
	for i := range in.Curves {
		if in.Curves[i].Pid != nil {
			return &in.Curves[i]
		}
	}
	return nil
}

const configNDefects = 52

// configApplyDefect plants one deviation from the documented forms (most are rejected by
// exactly one validator rule; some are accepted oddities). Returns a tag, "" if not applicable.
func configApplyDefect(r *Rng, in *configIn, k int) string {
	s0 := &in.Sensors[r.Intn(len(in.Sensors))]
	f0 := &in.Fans[r.Intn(len(in.Fans))]
	c0 := &in.Curves[r.Intn(len(in.Curves))]
	switch k {
	case 0:
		in.Sensors = append(in.Sensors, configGenSensor(r, s0.Id))
		return "dup-sensor"
	case 1:
		s0.Hwmon, s0.File, s0.Cmd = nil, false, false
		return "sensor-none"
	case 2:
		if s0.File {
			s0.Cmd = true
		} else {
			s0.File = true
		}
		return "sensor-multi"
	case 3:
		s0.Hwmon, s0.File, s0.Cmd = configIp(-r.Intn(3)), false, false
		return "sensor-index"
	case 4:
		s0.Id = 0
		return "sensor-noid"
	case 5:
		in.Curves = append(in.Curves, configGenLeaf(r, c0.Id, []int{in.Sensors[0].Id}))
		return "dup-curve"
	case 6:
		c0.Linear, c0.Pid, c0.Func = nil, nil, nil
		return "curve-none"
	case 7:
		if c0.Linear == nil {
			c0.Linear = &configInLinear{Sensor: in.Sensors[0].Id, Min: 30, Max: 70}
		} else {
			c0.Pid = &configInPidC{Sensor: in.Sensors[0].Id, Set: "50", K: configPidTexts[0]}
		}
		return "curve-multi"
	case 8:
		if c := configFindFunc(in); c != nil {
			c.Func.Type = []string{"median", "", "Average", "min", "SUM"}[r.Intn(5)]
			return "func-type"
		}
	case 9:
		if c := configFindFunc(in); c != nil {
			c.Func.Curves = []int{}
			c.Func.CurvesForm = r.Intn(2)
			return "func-empty"
		}
	case 10:
		if c := configFindFunc(in); c != nil {
			c.Func.Curves = append(c.Func.Curves, c.Id)
			return "self-ref"
		}
	case 11:
		if c := configFindFunc(in); c != nil {
			c.Func.Curves = append([]int{90 + r.Intn(5)}, c.Func.Curves...)
			return "dangling-member"
		}
	case 12:
		if c := configFindLinear(in); c != nil {
			c.Linear.Sensor = 0
			return "linear-nosensor"
		}
	case 13:
		if c := configFindLinear(in); c != nil {
			c.Linear.Sensor = 77
			return "linear-dangling"
		}
	case 14:
		if c := configFindLinear(in); c != nil {
			c.Linear.Steps = &[][2]string{}
			c.Linear.StepsForm = r.Intn(2)
			return "steps-empty"
		}
	case 15:
		if c := configFindPid(in); c != nil {
			c.Pid.Sensor = 0
			return "pidc-nosensor"
		}
	case 16:
		if c := configFindPid(in); c != nil {
			c.Pid.Sensor = 78
			return "pidc-dangling"
		}
	case 17:
		if c := configFindPid(in); c != nil {
			c.Pid.K = [][3]string{{"0", "0", "0"}, {"0.0", "-0.0", "0"}, {"0e0", "0", "0.00"}}[r.Intn(3)]
			return "pidc-zero"
		}
	case 18, 19, 20:
		// a cycle through existing function curves (or a new pair)
		var fcs []*configInCurve
		for i := range in.Curves {
			if in.Curves[i].Func != nil {
				fcs = append(fcs, &in.Curves[i])
			}
		}
		if len(fcs) >= 2 {
			a, b := fcs[0], fcs[len(fcs)-1]
			a.Func.Curves = append(a.Func.Curves, b.Id)
			b.Func.Curves = append(b.Func.Curves, a.Id)
			return "cycle2"
		}
	case 21:
		in.Fans = append(in.Fans, configGenFan(r, f0.Id, f0.Curve))
		return "dup-fan"
	case 22:
		f0.Hwmon, f0.File, f0.Cmd = nil, nil, nil
		return "fan-none"
	case 23:
		if f0.File == nil {
			f0.File = configBp(true)
		} else {
			f0.Hwmon = &configInHwFan{Rpm: 1}
		}
		return "fan-multi"
	case 24:
		f0.Curve = 0
		return "fan-nocurve"
	case 25:
		f0.Curve = 95
		return "fan-dangling"
	case 26:
		f0.Alg = configInAlg{Form: "obj"}
		return "alg-empty"
	case 27:
		f0.Alg = configInAlg{Form: "obj", Direct: &configInDirect{Lim: configIp(-r.Intn(3))}}
		return "alg-maxchange"
	case 28:
		z := [3]string{"0", "0.0", "-0.0"}
		f0.Alg = configInAlg{Form: "obj", Pid: &z}
		return "alg-pidzero"
	case 29:
		f0.Hwmon, f0.File, f0.Cmd = &configInHwFan{Index: r.Range(1, 3), Rpm: r.Range(1, 3)}, nil, nil
		return "hw-both"
	case 30:
		f0.Hwmon, f0.File, f0.Cmd = &configInHwFan{Pwm: r.Intn(2)}, nil, nil
		return "hw-neither"
	case 31:
		f0.Hwmon, f0.File, f0.Cmd = &configInHwFan{Index: -r.Range(1, 3)}, nil, nil
		return "hw-index-neg"
	case 32:
		f0.Hwmon, f0.File, f0.Cmd = &configInHwFan{Rpm: -r.Range(1, 3)}, nil, nil
		return "hw-rpm-neg"
	case 33:
		f0.Hwmon, f0.File, f0.Cmd = &configInHwFan{Rpm: 2, Pwm: -r.Range(1, 3)}, nil, nil
		return "hw-pwm-neg"
	case 34:
		f0.Hwmon, f0.File, f0.Cmd = nil, configBp(false), nil
		return "file-nopath"
	case 35:
		f0.Hwmon, f0.File, f0.Cmd = nil, nil, &configInCmdFan{Get: configBp(true)}
		return "cmd-noset"
	case 36:
		f0.Hwmon, f0.File, f0.Cmd = nil, nil, &configInCmdFan{Set: configBp(false), Get: configBp(true)}
		return "cmd-setexec"
	case 37:
		f0.Hwmon, f0.File, f0.Cmd = nil, nil, &configInCmdFan{Set: configBp(true)}
		return "cmd-noget"
	case 38:
		f0.Hwmon, f0.File, f0.Cmd = nil, nil, &configInCmdFan{Set: configBp(true), Get: configBp(false)}
		return "cmd-getexec"
	case 39:
		f0.Hwmon, f0.File, f0.Cmd = nil, nil, &configInCmdFan{}
		return "cmd-empty"
	case 40:
		f0.Legacy = true
		return "legacy-loop"
	case 41:
		f0.Legacy = true
		f0.Alg = configInAlg{Form: "obj"}
		return "legacy-loop+alg-empty"
	case 42:
		in.PermOK = false
		return "perm"
	case 43:
		in.PermOK = false
		s0.Hwmon, s0.File, s0.Cmd = nil, false, true
		return "perm+cmd-sensor"
	case 44:
		in.PermOK = false
		f0.Hwmon, f0.File, f0.Cmd = nil, nil, &configInCmdFan{Set: configBp(true), Get: configBp(true)}
		f0.Curve = 96 // the permission error replaces the fan error
		return "perm+cmd-fan+fan-error"
	case 45:
		f0.Id = 0
		return "fan-noid"
	case 46:
		c0.Id = 0
		return "curve-noid"
	case 47:
		if c := configFindFunc(in); c != nil && len(c.Func.Curves) > 0 {
			c.Func.Curves = []int{c.Func.Curves[0], c.Func.Curves[0]}
			return "member-twice"
		}
	case 48:
		in.Fans = nil
		return "no-fans"
	case 49:
		if c := configFindLinear(in); c != nil {
			c.Linear.Steps = configGenSteps(r, 1)
			return "steps-singleton"
		}
	case 50:
		if c := configFindFunc(in); c != nil && len(c.Func.Curves) > 0 {
			c.Func.Curves = c.Func.Curves[:1]
			return "func-one-member"
		}
	case 51:
		if c := configFindLinear(in); c != nil {
			c.Linear.Min, c.Linear.Max, c.Linear.Steps = 0, 0, nil
			return "linear-min0max0"
		}
	}
	return ""
}

// configGenGraph: n curves whose dependency structure is the given adjacency (edges i->j, 1-based);
// nodes with out-edges are function curves, the others leaves (or empty function curves).
func configGenGraph(r *Rng, n int, adj [][]int, emptyFuncLeaves bool) configIn {
	in := configIn{PermOK: true}
	in.Sensors = []configInSensor{{Id: 1, File: true}}
	for i := 1; i <= n; i++ {
		if len(adj[i]) > 0 {
			in.Curves = append(in.Curves, configInCurve{Id: i, Func: &configInFunc{Type: configFnTypes[r.Intn(6)], Curves: adj[i], CurvesForm: r.Intn(2)}})
		} else if emptyFuncLeaves && r.Chance(1, 4) {
			in.Curves = append(in.Curves, configInCurve{Id: i, Func: &configInFunc{Type: configFnTypes[r.Intn(6)], Curves: []int{}, CurvesForm: r.Intn(2)}})
		} else {
			in.Curves = append(in.Curves, configGenLeaf(r, i, []int{1}))
		}
	}
	in.Fans = []configInFan{{Id: 1, Curve: r.Range(1, n), Alg: configInAlg{Form: "absent"}, File: configBp(true)}}
	return in
}

func configTagsFor(in configIn, obs configObs, gen string) []string {
	tags := []string{"gen=" + gen, "verdict=" + itoa(obs.Verdict)}
	if obs.Verdict == 0 && obs.Load == "" {
		worst := 0
		for _, v := range append(append([]int{obs.Inst, obs.Ctrl}, obs.Curves...), obs.Fans...) {
			if v > worst {
				worst = v
			}
		}
		tags = append(tags, "accepted-run="+[]string{"ok", "crash", "hang"}[worst])
	}
	seen := map[string]bool{}
	for _, c := range in.Curves {
		if c.Func != nil {
			m := len(c.Func.Curves)
			if m > 2 {
				m = 2
			}
			t := "fn=" + c.Func.Type + "/" + []string{"0", "1", "many"}[m]
			if _, ok := configFtypeCoq[c.Func.Type]; ok && !seen[t] {
				seen[t] = true
				tags = append(tags, t)
			}
		}
		if c.Linear != nil && c.Linear.Steps != nil {
			m := len(*c.Linear.Steps)
			if m > 2 {
				m = 2
			}
			t := "steps=" + []string{"0", "1", "many"}[m]
			if !seen[t] {
				seen[t] = true
				tags = append(tags, t)
			}
		}
	}
	for _, f := range in.Fans {
		t := "alg=" + f.Alg.Form
		if f.Alg.Form == "obj" {
			t += fmt.Sprintf("/d%v/p%v", f.Alg.Direct != nil, f.Alg.Pid != nil)
		}
		if !seen[t] {
			seen[t] = true
			tags = append(tags, t)
		}
	}
	if !obs.DecodeOK {
		tags = append(tags, "decode-differs")
	}
	if obs.Cli >= 0 {
		tags = append(tags, "cli-sampled")
	}
	return tags
}

func init() {
	drivers["config"] = func(ctx *Ctx) {
		// every death / stall of the worker process (endless recursion, deadlock, fatal error) costs a
		// watchdog period or a worker start; after 5 such cases the
		// verdict is settled (each is a failing input) and generation stops
		hangs := 0
		ncases := 0
		emit := func(in configIn, gen string, extra ...string) {
			if hangs >= 5 {
				return
			}
			// every 40th generated case and every corpus case also goes through the real CLI entry
			sampled := gen == "corpus" || ncases%40 == 0
			ncases++
			obs, coq := configRunConfig(ctx, in, sampled)
			if obs.WorkerDied {
				hangs++
			}
			nontrivial := len(in.Curves) >= 1 && (len(in.Fans) >= 1 || len(in.Sensors) >= 1)
			ctx.Emit(Record{In: in, Obs: obs, Coq: coq, Tags: append(configTagsFor(in, obs, gen), extra...), NonTrv: nontrivial})
		}
		for _, raw := range append(ctx.Corpus, ctx.Replay...) {
			var in configIn
			if json.Unmarshal(raw, &in) == nil {
				emit(in, "corpus")
			}
		}
		if ctx.Replay != nil {
			return
		}
		rng := NewRng(ctx.Seed, "config")

		// (a) documented forms only
		nValid := ctx.Param("valid", 250)
		if !ctx.Quick() {
			nValid = ctx.Param("valid", 3000)
		}
		for i := 0; i < nValid; i++ {
			emit(configGenValid(rng, rng.Range(1, 4), rng.Range(0, 4)), "documented")
		}
		// (b) one planted deviation per case, every kind several times; then two at once
		reps := ctx.Param("defectreps", 8)
		if !ctx.Quick() {
			reps = ctx.Param("defectreps", 60)
		}
		for rep := 0; rep < reps; rep++ {
			for k := 0; k < configNDefects; k++ {
				in := configGenValid(rng, rng.Range(1, 3), rng.Range(1, 3))
				if tag := configApplyDefect(rng, &in, k); tag != "" {
					emit(in, "one-defect", "defect="+tag)
				}
			}
		}
		nTwo := ctx.Param("two", 300)
		if !ctx.Quick() {
			nTwo = ctx.Param("two", 4000)
		}
		for i := 0; i < nTwo; i++ {
			in := configGenValid(rng, rng.Range(1, 3), rng.Range(1, 3))
			t1 := configApplyDefect(rng, &in, rng.Intn(configNDefects))
			if len(in.Fans) == 0 || len(in.Sensors) == 0 || len(in.Curves) == 0 {
				continue
			}
			t2 := configApplyDefect(rng, &in, rng.Intn(configNDefects))
			emit(in, "two-defects", "defect="+t1, "defect="+t2)
		}
		// (b2) every subset of the three backend blocks (none, each single, each pair, all three)
		// for a sensor, a curve and a fan entry
		breps := 2
		if !ctx.Quick() {
			breps = 12
		}
		for rep := 0; rep < breps; rep++ {
			for kind := 0; kind < 3; kind++ {
				for mask := 0; mask < 8; mask++ {
					in := configGenValid(rng, rng.Range(1, 3), rng.Range(0, 2))
					switch kind {
					case 0:
						s0 := &in.Sensors[rng.Intn(len(in.Sensors))]
						s0.Hwmon, s0.File, s0.Cmd = nil, mask&2 != 0, mask&4 != 0
						if mask&1 != 0 {
							s0.Hwmon = configIp(rng.Range(1, 9))
						}
					case 1:
						c0 := &in.Curves[rng.Intn(len(in.Curves))]
						sid := in.Sensors[0].Id
						c0.Linear, c0.Pid, c0.Func = nil, nil, nil
						if mask&1 != 0 {
							c0.Linear = &configInLinear{Sensor: sid, Min: 30, Max: 70}
						}
						if mask&2 != 0 {
							c0.Pid = &configInPidC{Sensor: sid, Set: "50", K: configPidTexts[rng.Intn(2)]}
						}
						if mask&4 != 0 {
							// members: some other curve (never itself)
							other := in.Curves[0].Id
							if other == c0.Id && len(in.Curves) > 1 {
								other = in.Curves[1].Id
							}
							if other != c0.Id {
								c0.Func = &configInFunc{Type: configFnTypes[rng.Intn(6)], Curves: []int{other}}
							} else {
								c0.Func = &configInFunc{Type: configFnTypes[rng.Intn(6)], Curves: []int{}}
							}
						}
					default:
						f0 := &in.Fans[rng.Intn(len(in.Fans))]
						f0.Hwmon, f0.File, f0.Cmd = nil, nil, nil
						if mask&1 != 0 {
							f0.Hwmon = &configInHwFan{Rpm: rng.Range(1, 9)}
						}
						if mask&2 != 0 {
							f0.File = configBp(true)
						}
						if mask&4 != 0 {
							f0.Cmd = &configInCmdFan{Set: configBp(true), Get: configBp(true)}
						}
					}
					emit(in, "backends", "backends="+[]string{"sensor", "curve", "fan"}[kind]+"/"+itoa(mask&1+(mask>>1)&1+(mask>>2)&1))
				}
			}
		}
		// (b3) how sensors are used: only by a linear curve, only by a pid curve, only by a pid curve
		// nested in function curves, by nothing at all -- every combination over three sensors
		for use := 0; use < 64; use++ {
			if ctx.Quick() && use%2 == 1 && use > 16 {
				continue
			}
			in := configIn{PermOK: true}
			next := 1
			var top []int
			for si := 0; si < 3; si++ {
				sid := si + 1 + 4*rng.Intn(2)
				in.Sensors = append(in.Sensors, configGenSensor(rng, sid))
				switch (use >> (2 * si)) & 3 {
				case 0: // unused
				case 1:
					in.Curves = append(in.Curves, configInCurve{Id: next, Linear: &configInLinear{Sensor: sid, Min: 30, Max: 70}})
					top = append(top, next)
					next++
				case 2:
					in.Curves = append(in.Curves, configInCurve{Id: next, Pid: &configInPidC{Sensor: sid, Set: "50", K: configPidTexts[rng.Intn(2)]}})
					top = append(top, next)
					next++
				default:
					in.Curves = append(in.Curves, configInCurve{Id: next, Pid: &configInPidC{Sensor: sid, Set: "40", K: configPidTexts[rng.Intn(2)]}})
					in.Curves = append(in.Curves, configInCurve{Id: next + 1, Func: &configInFunc{Type: configFnTypes[rng.Intn(6)], Curves: []int{next}}})
					in.Curves = append(in.Curves, configInCurve{Id: next + 2, Func: &configInFunc{Type: configFnTypes[rng.Intn(6)], Curves: []int{next + 1, next + 1}}})
					top = append(top, next+2)
					next += 3
				}
			}
			if len(top) == 0 {
				continue
			}
			for fi, c := range top {
				in.Fans = append(in.Fans, configGenFan(rng, fi+1, c))
			}
			emit(in, "sensor-use", "sensor-use="+itoa(use&3)+itoa((use>>2)&3)+itoa((use>>4)&3))
		}
		// (b4) cross-kind references: an id text shared between kinds (legal), and references at all
		// four sites (linear.sensor, pid.sensor, function member, fan.curve) that name an existing
		// object of the WRONG kind, of the right kind, or of both
		xreps := 2
		if !ctx.Quick() {
			xreps = 10
		}
		for rep := 0; rep < xreps; rep++ {
			for site := 0; site < 4; site++ {
				for have := 0; have < 4; have++ { // bit 0: a sensor carries the shared id, bit 1: a curve does
					in := configGenValid(rng, rng.Range(1, 3), rng.Range(1, 2))
					x := 1000 + rng.Intn(3)
					if have&1 != 0 {
						in.Sensors = append(in.Sensors, configGenSensor(rng, x))
					}
					if have&2 != 0 {
						in.Curves = append(in.Curves, configGenLeaf(rng, x, []int{in.Sensors[0].Id}))
					}
					if rng.Chance(1, 3) {
						in.Fans = append(in.Fans, configGenFan(rng, x, in.Curves[0].Id)) // a fan may share the text too
					}
					switch site {
					case 0:
						in.Curves = append(in.Curves, configInCurve{Id: 201, Linear: &configInLinear{Sensor: x, Min: 30, Max: 70}})
					case 1:
						in.Curves = append(in.Curves, configInCurve{Id: 201, Pid: &configInPidC{Sensor: x, Set: "50", K: configPidTexts[rng.Intn(2)]}})
					case 2:
						in.Curves = append(in.Curves, configInCurve{Id: 201, Func: &configInFunc{Type: configFnTypes[rng.Intn(6)], Curves: []int{in.Curves[0].Id, x}}})
					default:
						in.Fans = append(in.Fans, configGenFan(rng, 201, x))
					}
					if site != 3 {
						in.Fans = append(in.Fans, configGenFan(rng, 202, 201))
					}
					emit(in, "cross-kind", "xref="+[]string{"linear.sensor", "pid.sensor", "member", "fan.curve"}[site]+"/"+[]string{"none", "sensor", "curve", "both"}[have])
				}
			}
		}
		// (b5) empty mandatory strings: file sensor `path: ""`, cmd sensor `exec: ""` (the validator does not
		// look at them: accepted, and the accepted configuration must still instantiate and evaluate), and the
		// explicit-empty spellings `id: ""`, `sensor: ""`, `curve: ""`, `curves: [""]`, hwmon fan `platform: ""`
		// combined with each planted deviation that empties an id / reference (file fan `path: ""` and cmd fan
		// `exec: ""` are the deviations file-nopath / cmd-getexec / cmd-setexec)
		ereps := 3
		if !ctx.Quick() {
			ereps = 20
		}
		for rep := 0; rep < ereps; rep++ {
			for variant := 0; variant < 14; variant++ {
				in := configGenValid(rng, rng.Range(1, 3), rng.Range(1, 2))
				tag := ""
				switch variant {
				case 0, 1, 2, 3:
					// sensors with an empty path / exec, referenced by linear and pid curves
					for i := range in.Sensors {
						s := &in.Sensors[i]
						if variant%2 == 0 {
							s.Hwmon, s.File, s.Cmd, s.EmptyStr = nil, true, false, true
						} else {
							s.Hwmon, s.File, s.Cmd, s.EmptyStr = nil, false, true, true
						}
					}
					tag = []string{"sensor-path-empty", "sensor-exec-empty"}[variant%2]
					if variant >= 2 {
						sid := in.Sensors[0].Id
						in.Curves = append(in.Curves, configInCurve{Id: 301, Pid: &configInPidC{Sensor: sid, Set: "50", K: configPidTexts[rng.Intn(2)]}})
						in.Curves = append(in.Curves, configInCurve{Id: 302, Linear: &configInLinear{Sensor: sid, Min: 30, Max: 70}})
						in.Curves = append(in.Curves, configInCurve{Id: 303, Func: &configInFunc{Type: configFnTypes[rng.Intn(6)], Curves: []int{301, 302}}})
						in.Fans = append(in.Fans, configGenFan(rng, 301, []int{301, 302, 303}[rng.Intn(3)]))
					}
				case 4:
					in.EmptyQuoted = true
					tag = "quoted-valid"
				default:
					in.EmptyQuoted = true
					k := []int{4, 12, 15, 24, 45, 46, 10, 11, 34}[variant-5]
					tag = "quoted+" + configApplyDefect(rng, &in, k)
					if variant == 11 {
						if c := configFindFunc(&in); c != nil {
							c.Func.Curves = append(c.Func.Curves, 0) // curves: [..., ""]
							tag = "quoted+member-empty"
						}
					}
				}
				emit(in, "empty-strings", "empty="+tag)
			}
		}
		// (c) curve graphs with up to 8 nodes: random DAGs, a cycle of every length 1..8 embedded, dangling references
		nGraph := ctx.Param("graphs", 30)
		if !ctx.Quick() {
			nGraph = ctx.Param("graphs", 400)
		}
		for rep := 0; rep < nGraph; rep++ {
			for cyc := 0; cyc <= 8; cyc++ {
				n := rng.Range(2, 8)
				if n < cyc {
					n = cyc
				}
				if n < 1 {
					n = 1
				}
				adj := make([][]int, n+1)
				// random DAG edges i -> j for j < i under a random relabelling
				perm := make([]int, n+1)
				for i := 1; i <= n; i++ {
					perm[i] = i
				}
				for i := n; i > 1; i-- {
					j := rng.Range(1, i)
					perm[i], perm[j] = perm[j], perm[i]
				}
				for i := 2; i <= n; i++ {
					for j := 1; j < i; j++ {
						if rng.Chance(1, 3) {
							adj[perm[i]] = append(adj[perm[i]], perm[j])
						}
					}
				}
				tag := "cycle=0"
				if cyc >= 1 {
					// plant a cycle of length cyc on the first cyc labels of a fresh permutation
					tag = "cycle=" + itoa(cyc)
					for x := 0; x < cyc; x++ {
						a, b := perm[1+x], perm[1+(x+1)%cyc]
						adj[a] = append(adj[a], b)
					}
				}
				dang := rng.Chance(1, 6)
				if dang {
					u := rng.Range(1, n)
					adj[u] = append(adj[u], 40+rng.Intn(3))
					tag += "+dangling"
				}
				emit(configGenGraph(rng, n, adj, false), "graph", tag, "nodes="+itoa(n))
			}
		}
		// (d) every digraph (self-loops included) on up to 3 nodes (quick) / 4 nodes (thorough)
		maxN := 3
		if !ctx.Quick() {
			maxN = 4
		}
		for n := 1; n <= maxN; n++ {
			bits := n * n
			for mask := 0; mask < (1 << bits); mask++ {
				adj := make([][]int, n+1)
				for i := 0; i < n; i++ {
					for j := 0; j < n; j++ {
						if mask&(1<<(i*n+j)) != 0 {
							adj[i+1] = append(adj[i+1], j+1)
						}
					}
				}
				emit(configGenGraph(rng, n, adj, true), "digraphs", "nodes="+itoa(n))
			}
		}
	}
}
