//go:build verif

package main

// C11: a sample of the generated documents also goes through the real command line
// entry `fan2go config validate -c <file>` (cmd/root.go -> cobra -> cmd/config/validate.go),
// in a child process because the command ends in os.Exit.  Compared with the in-process
// verdict: exit status and the "Config looks good" / "Validation failed: ..." line.

import (
	"bytes"
	"os"
	"os/exec"
	"regexp"
	"strings"
	"time"

	fan2gocmd "github.com/markusressel/fan2go/cmd"
	"github.com/pterm/pterm"
)

func init() {
	drivers["config_cli"] = func(ctx *Ctx) {
		pterm.EnableOutput()
		os.Args = []string{"fan2go", "config", "validate", "-c", ctx.Params["yaml"], "--no-color", "--no-style"}
		fan2gocmd.Execute()
		os.Exit(0)
	}
}

var configAnsiRe = regexp.MustCompile("\x1b\\[[0-9;]*[A-Za-z]")
var configFailedRe = regexp.MustCompile(`Validation failed: (.*)`)

type configCliError string

func (e configCliError) Error() string { return string(e) }

// configRunCli returns the error class reported by the real CLI for the file (0 = "Config looks good", exit 0);
// 97 = anything else (crash, unexpected exit status or output).
func configRunCli(ctx *Ctx, yamlPath string) int {
	cmd := exec.Command(os.Args[0], "config_cli", "yaml="+yamlPath)
	var out bytes.Buffer
	cmd.Stdout = &out
	cmd.Stderr = &out
	if err := cmd.Start(); err != nil {
		return 97
	}
	done := make(chan error, 1)
	go func() { done <- cmd.Wait() }()
	var err error
	select {
	case err = <-done:
	case <-time.After(30 * time.Second):
		_ = cmd.Process.Kill()
		<-done
		return 97
	}
	text := configAnsiRe.ReplaceAllString(out.String(), "")
	code := 0
	if err != nil {
		ee, ok := err.(*exec.ExitError)
		if !ok {
			return 97
		}
		code = ee.ExitCode()
	}
	switch {
	case code == 0 && strings.Contains(text, "Config looks good"):
		return 0
	case code == 1:
		if m := configFailedRe.FindStringSubmatch(text); m != nil {
			c := configClassifyErr(configCliError(strings.TrimSpace(m[1])))
			if c != 0 {
				return c
			}
		}
	}
	return 97
}
