//go:build verif

package main

import (
	"context"
	"encoding/json"
	"errors"
	"fmt"
	"io/fs"
	"os"
	"path/filepath"
	"strconv"
	"strings"
	"sync"
	"syscall"
	"time"

	"github.com/markusressel/fan2go/internal/configuration"
	"github.com/markusressel/fan2go/internal/control_loop"
	"github.com/markusressel/fan2go/internal/controller"
	"github.com/markusressel/fan2go/internal/fans"
	"github.com/markusressel/fan2go/internal/persistence"
	"github.com/markusressel/fan2go/internal/sensors"
	"github.com/markusressel/fan2go/internal/util"
)

// driver `ctlrun` (C03, C09): the real DefaultFanController.Run, in-process, on a
// real HwMonFan over temp files and the real bbolt persistence (decorated so that
// single operations can fail), with scaled sleeps and a millisecond tick rate.
// The curve is a stub that counts evaluations: at a chosen evaluation it returns
// an error / cancels the context / makes the device vanish, so every scenario is
// driven by what the controller does, never by a timer.  A panic inside Run
// (e.g. from the inner run group's interrupt handler) is recovered in the
// goroutine that called Run and reported.
type ctlrunIn struct {
	Scn      int  `json:"scn"`
	Exists   bool `json:"exists"`
	OrigMode int  `json:"orig_mode"`
	OrigPwm  int  `json:"orig_pwm"`
	Top      int  `json:"top"` // highest key of the configured PWM map = where the RPM measurement leaves the fan
	MaxPwm   int  `json:"max_pwm,omitempty"` // configured maxPwm (0 = not configured)
	NoRpm    bool `json:"no_rpm,omitempty"`  // fan without RPM input: the control actor is the only actor of the inner group
	BlockAt  int  `json:"block_at,omitempty"` // scenarios 11/12: the control cycle (curve evaluation) that is in flight when the context is cancelled
	LingerMs int  `json:"linger_ms,omitempty"` // scenarios 13/14: after the hand-back the controller is kept alive this long (real time) before the context is cancelled
}
type ctlrunObs struct {
	Ret     int      `json:"ret"` // 0 Run returned nil, 1 returned an error, 2 panicked, 3 did not return
	Err     string   `json:"err,omitempty"`
	Touched bool     `json:"touched"`
	Mode    int      `json:"mode"`
	Pwm     int      `json:"pwm"`
	Evals   int      `json:"evals"`
	NWrites int      `json:"n_writes"`
	Tail    []string `json:"tail"` // last driver operations
	// the device while the process still lives, LingerMs after the controller gave the fan up (= final state when it does not linger)
	MidMode, MidPwm int
	// the device 250 ms after Run returned and everything that was in flight has been released (= final state otherwise)
	LateMode, LatePwm int
	ModeTried         bool `json:"mode_tried"` // the restore asked the fan for its original mode
}

// scenarios
const (
	ctlrunSecondLoadFails = 1 // no stored data, initialisation sequence succeeds, second LoadFanPwmData fails
	ctlrunSecondLoadEmpty = 2 // ... second LoadFanPwmData returns no points: AttachFanRpmCurveData fails
	ctlrunNoRpmSensor     = 3 // hwmon fan without RPM input, no stored data: the sweep touches the fan, nothing is stored, second load fails
	ctlrunErrDeviceGone   = 4 // control error while the device directory has vanished: the restore's own writes fail
	ctlrunErr             = 5 // control error, device fine
	ctlrunCancel          = 6 // context cancelled while ticking
	ctlrunPlaceholderSave = 7 // minPwm+maxPwm configured, SaveFanPwmData fails: nothing touched
	ctlrunInitFails       = 8 // RPM read fails during the initialisation sequence
	ctlrunStallAtMax      = 9 // never-stop fan that does not turn, curve asks for the maximum: stalled at max PWM in the second cycle
	ctlrunStallWalk       = 10 // ... curve asks for half speed: the minimum is raised step by step until the maximum is reached
	ctlrunCancelInTick    = 11 // the context is cancelled while a control cycle is in flight; the cycle is released after the other actors had time to return
	ctlrunCancelPending   = 12 // a control cycle blocks for several tick periods (a tick is pending), then cancel and release at once
	ctlrunErrLinger       = 13 // control error (as 5), then the controller stays alive for LingerMs: the hand-back must persist
	ctlrunStallLinger     = 14 // stalled at max (as 9), then the controller stays alive for LingerMs
	ctlrunDbGone          = 16 // the database directory disappears after regulation began (replaced by a plain file), then the context is cancelled
	ctlrunOtherAnalysing  = 17 // parallel initialisation disabled; another controller is inside its initialisation sequence when this one is cancelled
	ctlrunOtherAnalysingE = 18 // ... when this one hits a control error
	ctlrunCmdLingerChild  = 15 // the curve reads a real cmd sensor whose command leaves an orphaned child holding its stdout: control error, hand-back
)

const ctlrunLingerScript = `#!/bin/sh
# prints a value and exits, but an orphaned child keeps the output pipe open
sleep 8 & echo $! >> "$1/bgpids"
echo 42
`

func ctlrunKillChildren(dir string) {
	if b, err := os.ReadFile(filepath.Join(dir, "bgpids")); err == nil {
		for _, f := range strings.Fields(string(b)) {
			if pid, err := strconv.Atoi(f); err == nil && pid > 1 {
				_ = syscall.Kill(pid, syscall.SIGKILL)
			}
		}
	}
}


type ctlrunPers struct {
	persistence.Persistence
	scn   int
	loads int
}

func (p *ctlrunPers) LoadFanPwmData(fan fans.Fan) (map[int]float64, error) {
	p.loads++
	data, err := p.Persistence.LoadFanPwmData(fan)
	if p.loads >= 2 && err == nil {
		switch p.scn {
		case ctlrunSecondLoadFails:
			return nil, errors.New("injected: database read failed")
		case ctlrunSecondLoadEmpty:
			return map[int]float64{}, nil
		}
	}
	return data, err
}
func (p *ctlrunPers) SaveFanPwmData(fan fans.Fan) error {
	if p.scn == ctlrunPlaceholderSave {
		return errors.New("injected: database write failed")
	}
	return p.Persistence.SaveFanPwmData(fan)
}

type ctlrunCurve struct {
	n     int
	at    int
	fire  func()
	fail  bool
	konst int // > 0: constant curve value
	// blockAt > 0: that evaluation announces itself on blocked and waits for release
	blockAt int
	blocked chan struct{}
	release chan struct{}
	// from evaluation `at` on the curve reads this (real) sensor, as a PID curve does
	sensor sensors.Sensor
	// gate: once it is closed, the next evaluation is the one that fires (instead of evaluation `at`)
	gate chan struct{}
}

func (c *ctlrunCurve) GetId() string { return "ctlrun_curve" }
func (c *ctlrunCurve) Evaluate() (int, error) {
	c.n++
	if c.gate != nil && c.at == 0 {
		select {
		case <-c.gate:
			c.at = c.n
		default:
		}
	}
	if c.n == c.at && c.fire != nil {
		c.fire()
	}
	if c.blockAt > 0 && c.n == c.blockAt {
		close(c.blocked)
		<-c.release
	}
	if c.sensor != nil && c.at > 0 && c.n >= c.at {
		if _, err := c.sensor.GetValue(); err != nil {
			return 0, err
		}
		return 100, nil
	}
	if c.fail && c.at > 0 && c.n >= c.at {
		return 0, errors.New("injected: sensor read failed")
	}
	if c.konst > 0 {
		return c.konst, nil
	}
	return 40 + 30*(c.n%3), nil
}
func (c *ctlrunCurve) CurrentValue() int { return 0 }

func ctlrunReadInt(p string, def int) int {
	b, err := os.ReadFile(p)
	if err != nil {
		return def
	}
	n, err := strconv.Atoi(strings.TrimSpace(string(b)))
	if err != nil {
		return def
	}
	return n
}

func ctlrunRun(ctx *Ctx, seq int, in ctlrunIn) (ctlrunObs, string, []string) {
	dir := filepath.Join(ctx.WorkDir, "ctlrun", strconv.Itoa(seq))
	os.RemoveAll(dir)
	os.MkdirAll(dir, 0755)
	if r, err := filepath.EvalSymlinks(dir); err == nil {
		dir = r
	}
	defer os.RemoveAll(dir)
	pwmPath, enPath, rpmPath := filepath.Join(dir, "pwm1"), filepath.Join(dir, "pwm1_enable"), filepath.Join(dir, "fan1_input")
	os.WriteFile(pwmPath, []byte(strconv.Itoa(in.OrigPwm)), 0644)
	if in.Exists {
		os.WriteFile(enPath, []byte(strconv.Itoa(in.OrigMode)), 0644)
	}
	if in.Scn != ctlrunNoRpmSensor && !in.NoRpm {
		os.WriteFile(rpmPath, []byte("1200"), 0644)
	}
	fc := configuration.FanConfig{ID: fmt.Sprintf("ctlrun%d", seq), Curve: "ctlrun_curve",
		HwMon: &configuration.HwMonFanConfig{PwmPath: pwmPath, PwmEnablePath: enPath, RpmInputPath: rpmPath}}
	stall := in.Scn == ctlrunStallAtMax || in.Scn == ctlrunStallWalk || in.Scn == ctlrunStallLinger
	if in.MaxPwm > 0 {
		v := in.MaxPwm
		fc.MaxPwm = &v
	}
	if stall {
		os.WriteFile(rpmPath, []byte("0"), 0644)
		fc.NeverStop = true
		hi := 60
		fc.MaxPwm = &hi
		pm := map[int]int{}
		for i := 0; i <= 255; i++ {
			pm[i] = i
		}
		fc.PwmMap = &pm
	} else if in.Scn == ctlrunNoRpmSensor {
		sp := in.Top
		fc.StartPwm = &sp // the sweep ends with SetPwm(startPwm)
	} else {
		pm := map[int]int{0: 0, in.Top / 2: in.Top / 2, in.Top: in.Top}
		fc.PwmMap = &pm
	}
	if in.Scn == ctlrunPlaceholderSave {
		lo, hi := 10, 240
		fc.MinPwm, fc.MaxPwm = &lo, &hi
	}
	fan, err := fans.NewFan(fc)
	if err != nil {
		panic(err)
	}
	dbDir := filepath.Join(dir, "db")
	os.MkdirAll(dbDir, 0755)
	pers := &ctlrunPers{Persistence: persistence.NewPersistence(filepath.Join(dbDir, "fan2go.db")), scn: in.Scn}
	other := in.Scn == ctlrunOtherAnalysing || in.Scn == ctlrunOtherAnalysingE
	inTick := in.Scn == ctlrunCancelInTick || in.Scn == ctlrunCancelPending
	if (in.Scn >= ctlrunErrDeviceGone && in.Scn <= ctlrunCancel) || stall || inTick || in.Scn == ctlrunErrLinger || in.Scn == ctlrunCmdLingerChild || in.Scn == ctlrunDbGone || other {
		// characterised earlier: stored data exists
		data := map[int]float64{0: 0, in.Top: 1200}
		if stall {
			data = map[int]float64{0: 0, 40: 1200, 60: 1300} // starts at 40, no gain above 60
		}
		_ = fan.AttachFanRpmCurveData(&data)
		if err := pers.Persistence.SaveFanPwmData(fan); err != nil {
			panic(err)
		}
	}
	var mu sync.Mutex
	var ops []string
	gone := false
	armed := false // the control error has been injected: the next write is the restore's first one
	var cancelRun context.CancelFunc
	var obs ctlrunObs
	readDev := func() (int, int) {
		m := in.OrigMode
		if in.Exists {
			m = ctlrunReadInt(enPath, -999)
		}
		return m, ctlrunReadInt(pwmPath, -999)
	}
	lingering, midSet := false, false
	failRpm := false
	nRpmReads := 0
	bRpmPath := filepath.Join(dir, "b_fan1_input")
	bRpmReads, holdB := 0, true
	util.VerifWriteHook = func(path string, data []byte) (error, bool) {
		if path != pwmPath && path != enPath {
			return nil, false
		}
		mu.Lock()
		defer mu.Unlock()
		ops = append(ops, filepath.Base(path)+"="+strings.TrimSpace(string(data)))
		if stall && path == pwmPath && strings.TrimSpace(string(data)) == strconv.Itoa(in.OrigPwm) {
			armed = true // regulation stays within 40..61: this is the restore's SetPwm(originalPwmValue)
		}
		if armed && path == enPath && strings.TrimSpace(string(data)) == strconv.Itoa(in.OrigMode) {
			obs.ModeTried = true
		}
		if armed && cancelRun != nil && in.LingerMs > 0 {
			if !lingering {
				// the controller has given the fan up; keep it alive, look at the device later, then cancel
				lingering = true
				go func() {
					time.Sleep(time.Duration(in.LingerMs) * time.Millisecond)
					m, p := readDev()
					mu.Lock()
					obs.MidMode, obs.MidPwm, midSet = m, p, true
					mu.Unlock()
					cancelRun()
				}()
			}
		} else if armed && cancelRun != nil {
			// the restore has begun: cancel the context so that the RPM monitor returns and Run can return
			cancelRun()
		}
		if gone {
			return &fs.PathError{Op: "open", Path: path, Err: syscall.ENOENT}, true
		}
		return nil, false
	}
	util.VerifReadHook = func(path string) ([]byte, error, bool) {
		mu.Lock()
		defer mu.Unlock()
		if gone && (path == pwmPath || path == enPath || path == rpmPath) {
			return nil, &fs.PathError{Op: "open", Path: path, Err: syscall.ENOENT}, true
		}
		if other && path == bRpmPath {
			bRpmReads++
			if holdB { // the other fan never settles: its initialisation sequence (and the lock it holds) goes on
				if bRpmReads%2 == 0 {
					return []byte("5000\n"), nil, true
				}
				return []byte("0\n"), nil, true
			}
		}
		if path == rpmPath && failRpm {
			nRpmReads++
			if nRpmReads > 12 { // after the fan has settled (10 polls) the measurement itself fails
				return nil, &fs.PathError{Op: "read", Path: path, Err: syscall.EIO}, true
			}
		}
		return nil, nil, false
	}
	defer func() { util.VerifWriteHook, util.VerifReadHook = nil, nil }()
	failRpm = in.Scn == ctlrunInitFails

	configuration.CurrentConfig.RunFanInitializationInParallel = !other
	defer func() { configuration.CurrentConfig.RunFanInitializationInParallel = true }()
	cctx, cancel := context.WithCancel(context.Background())
	defer cancel()
	cancelRun = cancel
	curve := &ctlrunCurve{at: 3}
	var relDone chan struct{}
	switch in.Scn {
	case ctlrunErrDeviceGone:
		curve.fail = true
		curve.fire = func() { mu.Lock(); gone, armed = true, true; mu.Unlock() }
	case ctlrunCmdLingerChild:
		sc := filepath.Join(dir, "linger.sh")
		if err := os.WriteFile(sc, []byte(ctlrunLingerScript), 0755); err != nil {
			panic(err)
		}
		sens, err := sensors.NewSensor(configuration.SensorConfig{ID: fmt.Sprintf("ctlrun_s%d", seq),
			Cmd: &configuration.CmdSensorConfig{Exec: sc, Args: []string{dir}}})
		if err != nil {
			panic(err)
		}
		curve.sensor = sens
		curve.fire = func() { mu.Lock(); armed = true; mu.Unlock() }
	case ctlrunErr, ctlrunErrLinger:
		curve.fail = true
		curve.fire = func() { mu.Lock(); armed = true; mu.Unlock() }
	case ctlrunCancel:
		curve.fire = cancel
	case ctlrunCancelInTick, ctlrunCancelPending:
		curve.at = 0
		curve.blockAt = in.BlockAt
		if curve.blockAt <= 0 {
			curve.blockAt = 2
		}
		curve.blocked, curve.release = make(chan struct{}), make(chan struct{})
		relDone = make(chan struct{})
		go func() {
			defer close(relDone)
			select {
			case <-curve.blocked:
			case <-time.After(10 * time.Second):
				return
			}
			if in.Scn == ctlrunCancelInTick {
				cancel()
				time.Sleep(30 * time.Millisecond) // the other actors return, the run group fires its interrupt callbacks
			} else {
				time.Sleep(12 * time.Millisecond) // several tick periods: a tick is pending
				cancel()
			}
			close(curve.release)
		}()
	case ctlrunDbGone:
		curve.fire = func() {
			os.RemoveAll(dbDir)
			os.WriteFile(dbDir, []byte("not a directory"), 0644)
			cancel()
		}
	case ctlrunOtherAnalysing:
		curve.at, curve.gate = 0, make(chan struct{})
		curve.fire = cancel
	case ctlrunOtherAnalysingE:
		curve.at, curve.gate = 0, make(chan struct{})
		curve.fail = true
		curve.fire = func() { mu.Lock(); armed = true; mu.Unlock() }
	case ctlrunStallAtMax, ctlrunStallLinger:
		curve.konst = 255
	case ctlrunStallWalk:
		curve.konst = 128
	}
	c := controller.VerifNewController(pers, fan, curve, control_loop.NewDirectControlLoop(nil), 3*time.Millisecond)
	done := make(chan struct{})
	go func() {
		defer close(done)
		defer func() {
			if r := recover(); r != nil {
				obs.Ret, obs.Err = 2, "panic: "+fmt.Sprint(r)
			}
		}()
		err := c.Run(cctx)
		if err != nil {
			obs.Ret, obs.Err = 1, err.Error()
		}
	}()
	var bDone chan struct{}
	var bCancel context.CancelFunc
	var bCurve *ctlrunCurve
	bStillAnalysing := false
	if other {
		waitUntil := func(cond func() bool, d time.Duration) bool {
			dl := time.Now().Add(d)
			for time.Now().Before(dl) {
				mu.Lock()
				ok := cond()
				mu.Unlock()
				if ok {
					return true
				}
				time.Sleep(2 * time.Millisecond)
			}
			return false
		}
		// this controller regulates first (its start-up takes the initialisation lock for the PWM map too) ...
		waitUntil(func() bool { return curve.n >= 2 }, 5*time.Second)
		// ... then a second, not yet analysed fan starts and stays inside its initialisation sequence
		bPwm, bEn := filepath.Join(dir, "b_pwm1"), filepath.Join(dir, "b_pwm1_enable")
		os.WriteFile(bPwm, []byte("100"), 0644)
		os.WriteFile(bEn, []byte("2"), 0644)
		os.WriteFile(bRpmPath, []byte("1000"), 0644)
		bpm := map[int]int{0: 0, 100: 100, 200: 200}
		bfan, err := fans.NewFan(configuration.FanConfig{ID: fmt.Sprintf("ctlrunB%d", seq), Curve: "ctlrun_curve", PwmMap: &bpm,
			HwMon: &configuration.HwMonFanConfig{PwmPath: bPwm, PwmEnablePath: bEn, RpmInputPath: bRpmPath}})
		if err != nil {
			panic(err)
		}
		bCurve = &ctlrunCurve{konst: 90}
		bc := controller.VerifNewController(persistence.NewPersistence(filepath.Join(dbDir, "fan2go.db")), bfan, bCurve,
			control_loop.NewDirectControlLoop(nil), 3*time.Millisecond)
		var bctx context.Context
		bctx, bCancel = context.WithCancel(context.Background())
		bDone = make(chan struct{})
		go func() {
			defer close(bDone)
			defer func() { _ = recover() }()
			_ = bc.Run(bctx)
		}()
		waitUntil(func() bool { return bRpmReads >= 3 }, 5*time.Second)
		close(curve.gate)
	}
	select {
	case <-done:
		if other {
			select {
			case <-bDone:
			default:
				bStillAnalysing = bCurve.n == 0
			}
		}
	case <-time.After(time.Duration(ctx.Param("giveup_s", 6)) * time.Second):
		cancel()
		ctlrunKillChildren(dir) // a call stuck on a pipe held by an orphaned child comes back once the child is gone
		select {
		case <-done:
		case <-time.After(12 * time.Second):
		}
		obs.Ret = 3
	}
	ctlrunKillChildren(dir)
	mu.Lock()
	obs.NWrites = len(ops)
	obs.Touched = len(ops) > 0
	if len(ops) > 4 {
		obs.Tail = append([]string{}, ops[len(ops)-4:]...)
	} else {
		obs.Tail = append([]string{}, ops...)
	}
	mu.Unlock()
	obs.Evals = curve.n
	obs.Mode, obs.Pwm = readDev()
	if other {
		// let the other fan settle, finish its analysis and stop it
		mu.Lock()
		holdB = false
		mu.Unlock()
		dl := time.Now().Add(10 * time.Second)
		for bCurve.n < 1 && time.Now().Before(dl) {
			time.Sleep(5 * time.Millisecond)
		}
		bCancel()
		select {
		case <-bDone:
		case <-time.After(10 * time.Second):
		}
	}
	if relDone != nil {
		// whatever was in flight when the context was cancelled has been released; give it time to finish
		select {
		case <-relDone:
		case <-time.After(3 * time.Second):
		}
		time.Sleep(250 * time.Millisecond)
	}
	obs.LateMode, obs.LatePwm = readDev()
	mu.Lock()
	if !midSet {
		obs.MidMode, obs.MidPwm = obs.Mode, obs.Pwm
	}
	mu.Unlock()
	dev := func(m, p int) string { return "(mkDev " + cZ(m) + " " + cZ(p) + ")" }
	coq := cRec("mkCase", cBool(in.Exists), dev(in.OrigMode, in.OrigPwm), cZ(in.Scn), cZ(in.Top),
		cZ(obs.Ret), cBool(obs.Touched), dev(obs.Mode, obs.Pwm), cZ(obs.Evals), cBool(in.NoRpm),
		dev(obs.MidMode, obs.MidPwm), dev(obs.LateMode, obs.LatePwm), cBool(obs.ModeTried))
	tags := []string{fmt.Sprintf("scn=%d", in.Scn), fmt.Sprintf("ret=%d", obs.Ret), fmt.Sprintf("origmode=%d", in.OrigMode)}
	if !in.Exists {
		tags = append(tags, "no-pwm-enable")
	}
	if in.NoRpm {
		tags = append(tags, "no-rpm-input")
	}
	if bStillAnalysing {
		tags = append(tags, "other-fan-still-analysing")
	}
	if in.MaxPwm > 0 || stall {
		tags = append(tags, "maxpwm-configured")
	}
	return obs, coq, tags
}

func init() {
	drivers["ctlrun"] = func(ctx *Ctx) {
		os.Unsetenv("DISPLAY")
		configuration.CurrentConfig.RunFanInitializationInParallel = true
		configuration.CurrentConfig.MaxRpmDiffForSettledFan = 20
		configuration.CurrentConfig.FanResponseDelay = 2
		configuration.CurrentConfig.TempSensorPollingRate = 5 * time.Millisecond
		configuration.CurrentConfig.RpmPollingRate = 3 * time.Millisecond
		configuration.CurrentConfig.RpmRollingWindowSize = 4
		configuration.CurrentConfig.TempRollingWindowSize = 4
		util.VerifSleepNum, util.VerifSleepDen = 1, int64(ctx.Param("scale", 400))
		var jobs []ctlrunIn
		var jt []string
		for _, raw := range append(ctx.Corpus, ctx.Replay...) {
			var in ctlrunIn
			if json.Unmarshal(raw, &in) == nil && in.Scn != 0 {
				jobs = append(jobs, in)
				jt = append(jt, "corpus")
			}
		}
		if ctx.Replay == nil {
			rng := NewRng(ctx.Seed, "ctlrun")
			reps := ctx.Param("reps", 1)
			if !ctx.Quick() {
				reps = ctx.Param("reps", 6)
			}
			for r := 0; r < reps; r++ {
				// cancel while a control cycle is in flight / with a tick pending: cycle 1..3, with and without RPM input
				for _, scn := range []int{ctlrunCancelInTick, ctlrunCancelPending} {
					for k := 1; k <= 3; k++ {
						for _, norpm := range []bool{false, true} {
							om := rng.Pick([]int{2, 1, 0, 2})
							jobs = append(jobs, ctlrunIn{Scn: scn, Exists: !(om != 2 && rng.Chance(1, 2)), OrigMode: om,
								OrigPwm: rng.Pick([]int{0, 77, 120}), Top: rng.Pick([]int{120, 200, 240}), NoRpm: norpm, BlockAt: k})
							jt = append(jt, "generated")
						}
					}
				}
				// fatal control error, then the controller is kept alive (real time) before the shutdown: the hand-back must persist
				for _, scn := range []int{ctlrunErrLinger, ctlrunStallLinger} {
					for _, v := range [][2]int{{2, 0}, {5, 1}} {
						jobs = append(jobs, ctlrunIn{Scn: scn, Exists: true, OrigMode: v[0], OrigPwm: rng.Pick([]int{77, 120}),
							Top: 200, NoRpm: v[1] == 1 && scn == ctlrunErrLinger, LingerMs: ctx.Param("linger_ms", 1300)})
						jt = append(jt, "generated")
					}
				}
				for _, scn := range []int{ctlrunDbGone, ctlrunOtherAnalysing, ctlrunOtherAnalysingE} {
					for _, om := range []int{2, 1} {
						jobs = append(jobs, ctlrunIn{Scn: scn, Exists: true, OrigMode: om, OrigPwm: rng.Pick([]int{0, 77, 120}), Top: rng.Pick([]int{120, 200})})
						jt = append(jt, "generated")
					}
				}
				for _, om := range []int{2, 1} {
					jobs = append(jobs, ctlrunIn{Scn: ctlrunCmdLingerChild, Exists: true, OrigMode: om, OrigPwm: rng.Pick([]int{77, 120}), Top: 200})
					jt = append(jt, "generated")
				}
				for scn := 1; scn <= 10; scn++ {
					for _, om := range []int{2, 1, 0} {
						in := ctlrunIn{Scn: scn, Exists: !(om == 0 && rng.Chance(1, 2)), OrigMode: om,
							OrigPwm: rng.Pick([]int{0, 77, 120, 255}), Top: rng.Pick([]int{120, 200, 240})}
						if scn >= 9 {
							in.OrigPwm = rng.Pick([]int{77, 120, 255})
						} else if scn != ctlrunPlaceholderSave && rng.Chance(1, 2) {
							in.MaxPwm = 200 // a configured maxPwm must not cap the last-resort write
						}
						jobs = append(jobs, in)
						jt = append(jt, "generated")
					}
				}
			}
		}
		// sequential: the file hooks, the sleep scale and the configuration are process-wide
		for i, in := range jobs {
			obs, coq, tags := ctlrunRun(ctx, i, in)
			ctx.Emit(Record{In: in, Obs: obs, Coq: coq, Tags: append(tags, jt[i]), NonTrv: true})
		}
	}
}
