//go:build verif

package main

import (
	"encoding/json"
	"errors"
	"fmt"
	"os"
	"path/filepath"
	"strconv"
	"strings"
	"time"

	"github.com/markusressel/fan2go/internal/configuration"
	"github.com/markusressel/fan2go/internal/control_loop"
	"github.com/markusressel/fan2go/internal/controller"
	"github.com/markusressel/fan2go/internal/fans"
	"github.com/markusressel/fan2go/internal/hwmon"
	"github.com/markusressel/fan2go/internal/persistence"
	"github.com/markusressel/fan2go/internal/util"
)

// driver `ctrl` (C01 C02 C04 C05 C10, request part of C07): the real
// DefaultFanController (UpdateFanSpeed, measureRpm) on a real HwMonFan / FileFan /
// CmdFan whose device files live under the work directory. The curve is a stub
// SpeedCurve returning the value (or error) the history prescribes; the clock of
// the PID loop is virtual; device faults and the device response function are
// injected through the hooked file layer.

type ctrlEv struct {
	T   string `json:"t"` // "poll" | "cycle" | "ext"
	Rpm *int   `json:"rpm,omitempty"`
	// poll only: the read of the PWM control inside the RPM measurement fails (the reading itself is still taken)
	PwmFail bool  `json:"pwm_fail,omitempty"`
	Curve   *int  `json:"curve,omitempty"`
	Dt      int64 `json:"dt,omitempty"` // ns since the previous control-loop call
	ReadOk  bool  `json:"read_ok,omitempty"`
	WriteOk bool  `json:"write_ok,omitempty"`
	ModeOk  bool  `json:"mode_ok,omitempty"`
	Mode    *int  `json:"mode,omitempty"`
	Pwm     *int  `json:"pwm,omitempty"`
	// ext only, generation time: choose the externally written PWM from the controller's state when the event
	// is reached ("req" = the last request itself, "key" = the supported input nearest to it, "near" = expected
	// output +-1); the concrete value is stored in Pwm and the field cleared, so the recorded input is plain.
	Adaptive string `json:"adaptive,omitempty"`
}

type ctrlIn struct {
	Kind      string   `json:"kind"` // hwmon | file | cmd
	NeverStop bool     `json:"never_stop"`
	CfgMin    *int     `json:"cfg_min"`
	CfgStart  *int     `json:"cfg_start"`
	CfgMax    *int     `json:"cfg_max"`
	MeasMin   *int     `json:"meas_min"` // non-forced SetMinPwm etc. after construction (as attach does)
	MeasStart *int     `json:"meas_start"`
	MeasMax   *int     `json:"meas_max"`
	Pm        [][2]int `json:"pm,omitempty"`
	PmName    string   `json:"pm_name,omitempty"` // identity | quant:<q> | plateau (expanded by the driver and by Drv/Ctrl.v)
	RespQ     int      `json:"resp_q"`
	Alg       string   `json:"alg"` // direct | limited | pid
	// hwmon only: the fan's files are found by the real discovery glue (gosensors stand-in -> hwmon.GetChips ->
	// UpdateFanConfigFromHwMonControllers -> setFanConfigPaths) on a chip that also carries ANOTHER fan's tachometer
	// and PWM control: 1 = `index: 1`; 2 = `index: 1` + `pwmChannel: 2`; 3 = `rpmChannel: 2` + `pwmChannel: 1`
	Glue int `json:"glue,omitempty"`
	// how the PWM map reaches the controller: "" = set directly; "cfgdb" = `pwmMap:` override of the fan's configuration
	// through the real computePwmMap, with a DIFFERENT (dense identity) map already stored by the real persistence layer
	PmRoute string `json:"pm_route,omitempty"`
	// driver `ctrllag` only: the device is asynchronous — reads of the PWM control in the control cycle that wrote it still
	// show the previous content; from the next event on the new one (observer-only cases: the model's device reads back at once)
	Lag     bool     `json:"lag,omitempty"`
	CfgAlg  string   `json:"cfg_alg,omitempty"` // documented spelling through which the loop is obtained (drv_ctrl_cfg.go); "" = built directly
	Lim     int      `json:"lim"`
	P       string   `json:"p"`
	I       string   `json:"i"`
	D       string   `json:"d"`
	NRpm    int      `json:"n_rpm"`
	HasRpm  bool     `json:"has_rpm"`
	HasMode bool     `json:"has_mode"`
	Pwm0    int      `json:"pwm0"`
	Mode0   int      `json:"mode0"`
	Avg0    string   `json:"avg0"` // initial RPM average (hwmon) as hex float; file/cmd: initial Rpm as integer-valued float
	Hist    []ctrlEv `json:"hist"`
}

type ctrlObs struct {
	Err    int    `json:"err"` // 0 ok, 1 stalled at max, 2 other error, 3 panic
	Req    *int   `json:"req"`
	Writes []int  `json:"writes"`
	Pwm    int    `json:"pwm"`
	Mode   int    `json:"mode"`
	Cnt    int    `json:"cnt"`
	Offset int    `json:"offset"`
	Min    int    `json:"min"`
	Avg    string `json:"avg"`
}

type ctrlStubCurve struct {
	v   int
	err error
}

func (c *ctrlStubCurve) GetId() string          { return "stub" }
func (c *ctrlStubCurve) Evaluate() (int, error) { return c.v, c.err }
func (c *ctrlStubCurve) CurrentValue() int      { return c.v }

func ctrlReadInt(path string, def int) int {
	b, err := os.ReadFile(path)
	if err != nil {
		return def
	}
	v, err := strconv.Atoi(strings.TrimSpace(string(b)))
	if err != nil {
		return def
	}
	return v
}

func ctrlWriteScript(path, body string) {
	if err := os.WriteFile(path, []byte("#!/bin/sh\n"+body+"\n"), 0755); err != nil {
		panic(err)
	}
}

var ctrlSeq int

func ctrlExpandPm(name string) [][2]int {
	pm := make([][2]int, 256)
	for i := range pm {
		v := i
		switch {
		case strings.HasPrefix(name, "quant:"):
			q, _ := strconv.Atoi(name[6:])
			v = i / q * q
		case name == "plateau":
			if i < 40 {
				v = 0
			} else if i > 200 {
				v = 255
			}
		}
		pm[i] = [2]int{i, v}
	}
	return pm
}

func runCtrl(ctx *Ctx, in ctrlIn) ([]ctrlObs, string) {
	ctrlSeq++
	if in.PmName != "" {
		in.Pm = ctrlExpandPm(in.PmName)
	}
	dir := filepath.Join(ctx.WorkDir, fmt.Sprintf("c%d", ctrlSeq))
	os.MkdirAll(dir, 0755)
	defer os.RemoveAll(dir)
	pwmPath := filepath.Join(dir, "pwm1")
	enPath := filepath.Join(dir, "pwm1_enable")
	rpmPath := filepath.Join(dir, "fan1_input")
	glue := in.Glue
	if in.Kind != "hwmon" || !in.HasRpm {
		glue = 0
	}
	var glueCfg *configuration.HwMonFanConfig
	if glue > 0 {
		root := filepath.Join(dir, "hw")
		chip := filepath.Join(root, "chip0")
		os.MkdirAll(chip, 0755)
		os.WriteFile(filepath.Join(chip, "name"), []byte("verifchip\n"), 0644)
		os.WriteFile(filepath.Join(root, "order"), []byte("chip0\n"), 0644)
		rpmCh, pwmCh := 1, 1
		switch glue {
		case 1:
			glueCfg = &configuration.HwMonFanConfig{Platform: "verifchip", Index: 1}
		case 2:
			pwmCh = 2
			glueCfg = &configuration.HwMonFanConfig{Platform: "verifchip", Index: 1, PwmChannel: 2}
		default:
			rpmCh = 2
			glueCfg = &configuration.HwMonFanConfig{Platform: "verifchip", RpmChannel: 2, PwmChannel: 1}
		}
		for ch := 1; ch <= 2; ch++ { // the other fan of the chip: turning at 1400 RPM, its own PWM control in automatic mode
			if ch != rpmCh {
				os.WriteFile(filepath.Join(chip, "fan"+itoa(ch)+"_input"), []byte("1400\n"), 0644)
			}
			if ch != pwmCh {
				os.WriteFile(filepath.Join(chip, "pwm"+itoa(ch)), []byte("77\n"), 0644)
				os.WriteFile(filepath.Join(chip, "pwm"+itoa(ch)+"_enable"), []byte("2\n"), 0644)
			}
		}
		pwmPath = filepath.Join(chip, "pwm"+itoa(pwmCh))
		enPath = filepath.Join(chip, "pwm"+itoa(pwmCh)+"_enable")
		rpmPath = filepath.Join(chip, "fan"+itoa(rpmCh)+"_input")
		os.Setenv("VERIF_HWMON_ROOT", root)
	}
	failFlag := filepath.Join(dir, "fail_read")
	failW := filepath.Join(dir, "fail_write")
	wlog := filepath.Join(dir, "writes.log")
	for i := range in.Hist {
		if in.Hist[i].T == "ext" && !(in.Kind == "hwmon" && in.HasMode) {
			in.Hist[i].Mode = nil
		}
	}
	os.WriteFile(pwmPath, []byte(itoa(in.Pwm0)), 0644)
	q := in.RespQ
	if q < 1 {
		q = 1
	}
	cfg := configuration.FanConfig{ID: "f", NeverStop: in.NeverStop, Curve: "stub",
		MinPwm: in.CfgMin, StartPwm: in.CfgStart, MaxPwm: in.CfgMax}
	switch in.Kind {
	case "hwmon":
		cfg.HwMon = &configuration.HwMonFanConfig{Index: 1, RpmChannel: 1, PwmChannel: 1,
			RpmInputPath: rpmPath, PwmPath: pwmPath, PwmEnablePath: enPath}
		if in.HasMode {
			os.WriteFile(enPath, []byte(itoa(in.Mode0)), 0644)
		}
		if in.HasRpm {
			os.WriteFile(rpmPath, []byte("0"), 0644)
		}
	case "file":
		cfg.File = &configuration.FileFanConfig{Path: pwmPath}
		if in.HasRpm {
			cfg.File.RpmPath = rpmPath
			os.WriteFile(rpmPath, []byte("0"), 0644)
		}
	case "cmd":
		get := filepath.Join(dir, "get.sh")
		set := filepath.Join(dir, "set.sh")
		rpm := filepath.Join(dir, "rpm.sh")
		ctrlWriteScript(get, fmt.Sprintf("[ -e %s ] && exit 1\ncat %s", failFlag, pwmPath))
		ctrlWriteScript(set, fmt.Sprintf("echo $1 >> %s\n[ -e %s ] && exit 1\necho $(( $1 / %d * %d )) > %s", wlog, failW, q, q, pwmPath))
		ctrlWriteScript(rpm, fmt.Sprintf("cat %s", rpmPath))
		cfg.Cmd = &configuration.CmdFanConfig{
			SetPwm: &configuration.ExecConfig{Exec: set, Args: []string{"%pwm%"}},
			GetPwm: &configuration.ExecConfig{Exec: get},
		}
		if in.HasRpm {
			cfg.Cmd.GetRpm = &configuration.ExecConfig{Exec: rpm}
			os.WriteFile(rpmPath, []byte("0"), 0644)
		}
	}
	if in.PmRoute == "cfgdb" {
		given := map[int]int{}
		for _, kv := range in.Pm {
			given[kv[0]] = kv[1]
		}
		cfg.PwmMap = &given
	}
	if glueCfg != nil {
		cfg.HwMon = glueCfg
		if err := hwmon.UpdateFanConfigFromHwMonControllers(hwmon.GetChips(), &cfg); err != nil {
			panic("glue: " + err.Error())
		}
	}
	fan, err := fans.NewFan(cfg)
	if err != nil {
		panic(err)
	}
	if in.MeasStart != nil {
		fan.SetStartPwm(*in.MeasStart, false)
	}
	if in.MeasMax != nil {
		fan.SetMaxPwm(*in.MeasMax, false)
	}
	if in.MeasMin != nil {
		fan.SetMinPwm(*in.MeasMin, false)
	}
	fan.SetRpmAvg(pF(in.Avg0))

	var loop control_loop.ControlLoop
	switch in.Alg {
	case "direct":
		loop = control_loop.NewDirectControlLoop(nil)
	case "limited":
		l := in.Lim
		loop = control_loop.NewDirectControlLoop(&l)
	default:
		loop = control_loop.NewPidControlLoop(pF(in.P), pF(in.I), pF(in.D))
	}
	ctrlSibling = nil
	if in.CfgAlg != "" {
		loop = ctrlLoopFromConfig(dir, in, fan)
	}
	sibling, sibOut := ctrlSibling, 0
	curve := &ctrlStubCurve{}
	pm := map[int]int{}
	for _, kv := range in.Pm {
		pm[kv[0]] = kv[1]
	}
	var c *controller.DefaultFanController
	if in.PmRoute == "cfgdb" {
		pers := persistence.NewPersistence(filepath.Join(dir, "fan2go.db"))
		dense := map[int]int{}
		for k := 0; k <= 255; k++ {
			dense[k] = k
		}
		if err := pers.SaveFanPwmMap(fan.GetId(), dense); err != nil {
			panic(err)
		}
		c = controller.VerifNewController(pers, fan, curve, loop, 100*time.Millisecond)
		if err := c.VerifComputePwmMap(); err != nil {
			panic("pm_route: " + err.Error())
		}
		c.VerifUpdateDistinct()
	} else {
		c = controller.VerifNewController(nil, fan, curve, loop, 100*time.Millisecond)
		c.VerifSetPwmMap(pm)
	}
	configuration.CurrentConfig.RpmRollingWindowSize = in.NRpm
	// a daemon controls several fans: ANOTHER controller with a different sparse map is set up after the one under
	// test (and used between its cycles further down); controllers share nothing, so this must not matter
	other := controller.VerifNewController(nil, &RecFan{Id: "other", MaxP: 255}, &ctrlStubCurve{}, control_loop.NewDirectControlLoop(nil), 100*time.Millisecond)
	other.VerifSetPwmMap(map[int]int{0: 0, 7: 9, 64: 64, 100: 128, 201: 130, 255: 255})

	// hooks
	util.VerifVirtualClock = true
	var writes []int
	readFail, writeFail, modeFail, rpmFail := false, false, false, false
	var stale *int
	util.VerifReadHook = func(path string) ([]byte, error, bool) {
		if path == pwmPath && readFail {
			return nil, errors.New("injected read error"), true
		}
		if path == pwmPath && in.Lag && stale != nil {
			// until the current event (control cycle) is over, the control still shows what it held before the write
			return []byte(itoa(*stale) + "\n"), nil, true
		}
		if path == rpmPath && rpmFail {
			return nil, errors.New("injected read error"), true
		}
		return nil, nil, false
	}
	util.VerifWriteHook = func(path string, data []byte) (error, bool) {
		if path == pwmPath {
			v, _ := strconv.Atoi(strings.TrimSpace(string(data)))
			writes = append(writes, v)
			if in.Lag && !writeFail && stale == nil {
				prev := ctrlReadInt(pwmPath, -1)
				stale = &prev
			}
			if writeFail {
				return errors.New("injected write error"), true
			}
		}
		if path == enPath && modeFail {
			return errors.New("injected write error"), true
		}
		return nil, false
	}
	util.VerifAfterWrite = func(path string, data []byte) {
		if path == pwmPath && q > 1 {
			v, _ := strconv.Atoi(strings.TrimSpace(string(data)))
			os.WriteFile(pwmPath, []byte(itoa(v/q*q)), 0644)
		}
	}
	defer func() {
		util.VerifReadHook, util.VerifWriteHook, util.VerifAfterWrite = nil, nil, nil
	}()

	stopped := 0
	var obs []ctrlObs
	snapshot := func(errc int) ctrlObs {
		o := ctrlObs{Err: errc, Writes: append([]int{}, writes...)}
		if l, ok := c.VerifLastSetPwm(); ok {
			o.Req = &l
		}
		o.Pwm = ctrlReadInt(pwmPath, -1)
		o.Mode = in.Mode0
		if in.Kind == "hwmon" && in.HasMode {
			o.Mode = ctrlReadInt(enPath, -1)
		}
		o.Cnt = c.GetStatistics().UnexpectedPwmValueCount
		o.Offset = c.VerifMinPwmOffset()
		o.Min = fan.GetMinPwm()
		o.Avg = jF(fan.GetRpmAvg())
		return o
	}
	for evIdx := range in.Hist {
		ev := in.Hist[evIdx]
		writes = nil
		stale = nil // an asynchronous device has settled by the next event
		if ev.T == "ext" && ev.Adaptive != "" {
			if l, ok := c.VerifLastSetPwm(); ok && len(c.VerifDistinct()) > 0 {
				key := util.FindClosest(l, c.VerifDistinct())
				v := l
				switch ev.Adaptive {
				case "key":
					v = key
				case "near":
					v = pm[key] + 1
				}
				if v < 0 {
					v = 0
				}
				ev.Pwm = &v
			}
			ev.Adaptive = ""
			in.Hist[evIdx] = ev
		}
		switch ev.T {
		case "poll":
			rpmFail = ev.Rpm == nil
			if ev.Rpm != nil {
				os.WriteFile(rpmPath, []byte(itoa(*ev.Rpm)), 0644)
			}
			if in.Kind == "cmd" && rpmFail {
				os.WriteFile(rpmPath, []byte("garbage"), 0644)
			}
			if ev.PwmFail {
				readFail = true
				if in.Kind == "cmd" {
					os.WriteFile(failFlag, []byte("x"), 0644)
				}
			}
			p := catch(func() { c.VerifMeasureRpm() })
			rpmFail, readFail = false, false
			os.Remove(failFlag)
			if p != "" {
				obs = append(obs, snapshot(3))
			} else {
				obs = append(obs, snapshot(0))
			}
		case "ext":
			if ev.Pwm != nil {
				os.WriteFile(pwmPath, []byte(itoa(*ev.Pwm)), 0644)
			}
			if ev.Mode != nil && in.Kind == "hwmon" && in.HasMode {
				os.WriteFile(enPath, []byte(itoa(*ev.Mode)), 0644)
			}
			obs = append(obs, snapshot(0))
		case "cycle":
			if stopped != 0 {
				obs = append(obs, snapshot(0))
				continue
			}
			if ev.Curve != nil {
				curve.v, curve.err = *ev.Curve, nil
			} else {
				curve.v, curve.err = 0, errors.New("curve evaluation failed")
			}
			util.VerifAdvance(time.Duration(ev.Dt))
			_ = catch(func() { _ = other.VerifSetPwm(int(ev.Dt/1e6) % 256) })
			if sibling != nil { // the other fan's control loop runs its own cycle (an unrelated target) in between
				t := 255
				if ev.Curve != nil {
					t = 255 - *ev.Curve
					if t < 0 {
						t = 0
					}
				}
				_ = catch(func() { sibOut = sibling.Cycle(t, sibOut) })
			}
			readFail, writeFail, modeFail = !ev.ReadOk, !ev.WriteOk, !ev.ModeOk
			if in.Kind == "cmd" {
				if readFail {
					os.WriteFile(failFlag, []byte("x"), 0644)
				}
				if writeFail {
					os.WriteFile(failW, []byte("x"), 0644)
				}
			}
			var uerr error
			p := catch(func() { uerr = c.UpdateFanSpeed() })
			readFail, writeFail, modeFail = false, false, false
			os.Remove(failFlag)
			os.Remove(failW)
			code := 0
			switch {
			case p != "":
				code = 3
			case errors.Is(uerr, controller.ErrFanStalledAtMaxPwm):
				code = 1
			case uerr != nil:
				code = 2
			}
			if code != 0 {
				stopped = code
			}
			if in.Kind == "cmd" {
				// the cmd fan writes through its script, which logs the attempted values
				if b, err := os.ReadFile(wlog); err == nil {
					for _, l := range strings.Fields(string(b)) {
						if v, err := strconv.Atoi(l); err == nil {
							writes = append(writes, v)
						}
					}
				}
				os.Remove(wlog)
			}
			obs = append(obs, snapshot(code))
		}
	}
	return obs, ctrlCoq(in, obs)
}

func ctrlOptInt(x *int) string { return cOptZ(x) }

func ctrlCoq(in ctrlIn, obs []ctrlObs) string {
	kind := map[string]string{"hwmon": "HwMon", "file": "FileK", "cmd": "CmdK"}[in.Kind]
	alg := ""
	switch in.Alg {
	case "direct":
		alg = "(Direct None)"
	case "limited":
		alg = "(Direct (Some " + cZ(in.Lim) + "))"
	default:
		alg = "(PidA (new_pid " + cF(pF(in.P)) + " " + cF(pF(in.I)) + " " + cF(pF(in.D)) + "))"
	}
	pairs := make([]string, len(in.Pm))
	for i, kv := range in.Pm {
		pairs[i] = "(" + cZ(kv[0]) + ", " + cZ(kv[1]) + ")"
	}
	pmTerm := cList(pairs)
	switch {
	case in.PmName == "identity":
		pmTerm = "pm_identity"
	case in.PmName == "plateau":
		pmTerm = "pm_plateau"
	case strings.HasPrefix(in.PmName, "quant:"):
		pmTerm = "(pm_quant " + in.PmName[6:] + ")"
	}
	evs := make([]string, len(in.Hist))
	for i, e := range in.Hist {
		switch e.T {
		case "poll":
			evs[i] = "(Poll " + ctrlOptInt(e.Rpm) + ")"
		case "ext":
			evs[i] = "(Ext " + ctrlOptInt(e.Mode) + " " + ctrlOptInt(e.Pwm) + ")"
		default:
			evs[i] = "(Cycle (mkCin " + ctrlOptInt(e.Curve) + " " + cZ64(e.Dt) + " " + cBool(e.ReadOk) + " " + cBool(e.WriteOk) + " " + cBool(e.ModeOk) + "))"
		}
	}
	os_ := make([]string, len(obs))
	for i, o := range obs {
		os_[i] = "(mkObs " + cZ(o.Err) + " " + ctrlOptInt(o.Req) + " " + cZList(o.Writes) + " " + cZ(o.Pwm) + " " + cZ(o.Mode) + " " +
			cZ(o.Cnt) + " " + cZ(o.Offset) + " " + cZ(o.Min) + " " + cF(pF(o.Avg)) + ")"
	}
	q := in.RespQ
	if q < 1 {
		q = 1
	}
	return cRec("mkCase", kind, cBool(in.NeverStop), ctrlOptInt(in.CfgMin), ctrlOptInt(in.CfgStart), ctrlOptInt(in.CfgMax),
		ctrlOptInt(in.MeasMin), ctrlOptInt(in.MeasStart), ctrlOptInt(in.MeasMax),
		pmTerm, cZ(q), alg, cZ(in.NRpm), cBool(in.HasRpm), cBool(in.HasMode), cZ(in.Pwm0), cZ(in.Mode0), cF(pF(in.Avg0)),
		cList(evs), cList(os_))
}

// ---------------------------------------------------------------- generators

func ctrlPtr(i int) *int { return &i }

func ctrlGenPm(rng *Rng) ([][2]int, int, string) {
	switch rng.Intn(6) {
	case 0, 1: // identity
		return nil, 1, "pm=identity"
	case 2: // quantising fan: device shows (w/q)*q, map as the sweep would measure it
		q := []int{2, 5, 16, 51}[rng.Intn(4)]
		return nil, q, "pm=quantiser"
	case 3: // sparse user map
		n := rng.Range(1, 8)
		keys := map[int]bool{}
		for len(keys) < n {
			keys[rng.Range(0, 255)] = true
		}
		var pm [][2]int
		for k := 0; k <= 255; k++ {
			if keys[k] {
				pm = append(pm, [2]int{k, rng.Range(0, 255)})
			}
		}
		return pm, 1, "pm=sparse"
	case 4: // monotone sparse user map with 0 and 255
		pm := [][2]int{{0, 0}}
		v := 0
		for k := rng.Range(10, 60); k < 255; k += rng.Range(10, 80) {
			v += rng.Range(0, 60)
			if v > 255 {
				v = 255
			}
			pm = append(pm, [2]int{k, v})
		}
		pm = append(pm, [2]int{255, 255})
		return pm, 1, "pm=monotone-sparse"
	default: // plateaus
		return nil, 1, "pm=plateau"
	}
}

func ctrlGenCurveVal(rng *Rng) int {
	switch rng.Intn(10) {
	case 0:
		return rng.Range(-500, -1)
	case 1:
		return rng.Range(256, 800)
	case 2:
		return []int{0, 1, 254, 255, 127, 128}[rng.Intn(6)]
	default:
		return rng.Range(0, 255)
	}
}

func ctrlGenDt(rng *Rng) int64 {
	switch rng.Intn(12) {
	case 0:
		return 0
	case 1:
		return 1
	case 2:
		return int64(rng.Range(1, 12)) * 3600 * 1e9
	default:
		return int64(rng.Range(50, 2000)) * 1e6
	}
}

func genCtrlCase(rng *Rng, mode string, cmdOK bool) (ctrlIn, []string) {
	var in ctrlIn
	tags := []string{"gen=" + mode}
	k := rng.Intn(10)
	switch {
	case k < 6:
		in.Kind = "hwmon"
	case k < 9 || !cmdOK:
		in.Kind = "file"
	default:
		in.Kind = "cmd"
	}
	tags = append(tags, "kind="+in.Kind)
	in.NeverStop = rng.Chance(2, 3)
	in.HasRpm = rng.Chance(4, 5)
	in.HasMode = in.Kind == "hwmon" && rng.Chance(3, 4)
	if in.Kind == "hwmon" {
		lo := rng.Range(0, 120)
		if rng.Chance(1, 4) {
			lo = 0
		}
		hi := rng.Range(lo, 255)
		if rng.Chance(1, 3) {
			hi = 255
		}
		if rng.Chance(1, 12) {
			hi = lo // degenerate range
		}
		if rng.Bool() {
			in.CfgMin = ctrlPtr(lo)
		} else if rng.Chance(3, 4) {
			in.MeasMin = ctrlPtr(lo)
		}
		if rng.Bool() {
			in.CfgMax = ctrlPtr(hi)
		} else if rng.Chance(3, 4) {
			in.MeasMax = ctrlPtr(hi)
		}
		if rng.Chance(1, 3) {
			in.CfgStart = ctrlPtr(rng.Range(lo, 255))
		}
	}
	var pmTag string
	in.Pm, in.RespQ, pmTag = ctrlGenPm(rng)
	switch pmTag {
	case "pm=identity":
		in.PmName = "identity"
	case "pm=quantiser":
		in.PmName = "quant:" + itoa(in.RespQ)
	case "pm=plateau":
		in.PmName = "plateau"
	}
	tags = append(tags, pmTag)
	switch rng.Intn(5) {
	case 0, 1:
		in.Alg = "direct"
	case 2:
		in.Alg = "limited"
		in.Lim = []int{1, 2, 5, 10, 40, 255}[rng.Intn(6)]
	default:
		in.Alg = "pid"
		if rng.Chance(2, 3) {
			in.P, in.I, in.D = jF(0.3), jF(0.02), jF(0.005)
		} else {
			in.P = jF((rng.Float01()*4 - 1))
			in.I = jF((rng.Float01()*2 - 0.5))
			in.D = jF((rng.Float01()*0.2 - 0.05))
		}
	}
	if in.P == "" {
		in.P, in.I, in.D = jF(0.3), jF(0.02), jF(0.005)
	}
	tags = append(tags, "alg="+in.Alg)
	cfgAlg := rng.Chance(1, 4)
	pmRouteOn := rng.Chance(1, 4)
	glueSel := rng.Intn(12)
	glueOn := in.Kind == "hwmon" && glueSel < 6 // half of the hwmon cases (when they have an RPM input)
	in.NRpm = []int{1, 2, 3, 10, 10, 50}[rng.Intn(6)]
	in.Pwm0 = rng.Range(0, 255)
	in.Mode0 = []int{0, 1, 2, 2, 3, 5}[rng.Intn(6)]
	avg0 := 0.0
	if rng.Chance(2, 3) {
		avg0 = float64(rng.Range(1, 5000))
	}
	in.Avg0 = jF(avg0)
	n := rng.Range(1, 40)
	constCurve := -1
	if mode == "stallmax" {
		constCurve = []int{0, 0, 3, 100, 200, 250, 255}[rng.Intn(7)]
		if in.Kind != "hwmon" {
			constCurve = []int{240, 250, 253, 254, 255}[rng.Intn(5)] // file/cmd fans have the full range: start near the top
		}
	} else if mode == "stall" || mode == "const" || mode == "stallext" {
		constCurve = rng.Range(0, 255)
		if rng.Chance(1, 4) {
			constCurve = 0
		}
	}
	stallFrom := rng.Range(0, n)
	if mode == "recover" { // stall at a low curve value (raises), then the fan recovers and the curve goes to extremes
		in.NeverStop, in.HasRpm = true, true
		if in.Alg == "pid" && rng.Bool() {
			in.Alg = "direct"
		}
		n = rng.Range(8, 40)
		stallFrom = 0
	}
	extKind := 0
	if mode == "stallext" { // a stalled never-stop fan whose PWM read-back persistently differs from what fan2go set
		in.NeverStop, in.HasRpm = true, true // (foreign writer after every cycle, or every write failing)
		if in.Alg == "pid" {
			in.Alg = "direct"
		}
		n = rng.Range(10, 40)
		stallFrom = rng.Range(0, 3)
		extKind = rng.Intn(3)
	}
	if mode == "stallmax" { // a dead never-stop fan on a narrow PWM range: the walk to the maximum must end with the stall error
		in.NeverStop, in.HasRpm = true, true
		in.Alg = "direct"
		if in.Kind == "hwmon" {
			lo := rng.Range(0, 240)
			hi := lo + rng.Range(0, 12)
			in.CfgMin, in.MeasMin, in.CfgMax, in.MeasMax = nil, nil, nil, nil
			if rng.Bool() {
				in.CfgMin = ctrlPtr(lo)
			} else {
				in.MeasMin = ctrlPtr(lo)
			}
			if rng.Bool() {
				in.CfgMax = ctrlPtr(hi)
			} else {
				in.MeasMax = ctrlPtr(hi)
			}
		}
		n = rng.Range(30, 60)
		stallFrom = 0
	}
	// the PWM read-back inside the RPM measurement: fine / failing now and then / failing persistently
	pollPwmFail := 0
	if mode == "fault" || mode == "stall" || mode == "stallext" {
		pollPwmFail = []int{0, 0, 1, 2}[rng.Intn(4)]
	}
	recoverAt := n / 2
	lowCurve := rng.Range(0, 40)
	for i := 0; i < n; i++ {
		// optional interference
		if mode == "ext" && rng.Chance(1, 4) {
			e := ctrlEv{T: "ext"}
			if rng.Chance(2, 3) {
				e.Pwm = ctrlPtr(rng.Range(0, 255))
			}
			if rng.Chance(1, 3) {
				e.Adaptive = []string{"req", "key", "near"}[rng.Intn(3)]
			}
			if rng.Chance(1, 2) {
				e.Mode = ctrlPtr([]int{0, 2, 3}[rng.Intn(3)])
			}
			in.Hist = append(in.Hist, e)
		}
		if mode == "stallext" && i >= stallFrom && extKind < 2 {
			e := ctrlEv{T: "ext"}
			if extKind == 0 {
				e.Pwm = ctrlPtr(rng.Range(0, 255))
			} else {
				e.Pwm, e.Adaptive = ctrlPtr(0), "near"
			}
			in.Hist = append(in.Hist, e)
		}
		if in.HasRpm {
			np := rng.Range(0, 3)
			if mode == "stallext" {
				np = rng.Range(1, 3)
			}
			if mode == "stall" || mode == "recover" || mode == "stallmax" {
				np = rng.Range(1, 3)
			}
			for j := 0; j < np; j++ {
				var rpm *int
				switch {
				case mode == "recover" && i < recoverAt:
					rpm = ctrlPtr(0)
				case mode == "recover":
					rpm = ctrlPtr(rng.Range(500, 3000))
				case mode == "stallmax":
					rpm = ctrlPtr(0)
				case (mode == "stall" || mode == "stallext") && i >= stallFrom:
					rpm = ctrlPtr(0)
				case rng.Chance(1, 25):
					rpm = nil
				case rng.Chance(1, 5):
					rpm = ctrlPtr(0)
				default:
					rpm = ctrlPtr(rng.Range(1, 4000))
				}
				in.Hist = append(in.Hist, ctrlEv{T: "poll", Rpm: rpm, PwmFail: pollPwmFail == 2 || (pollPwmFail == 1 && rng.Chance(1, 3))})
			}
		}
		e := ctrlEv{T: "cycle", Dt: ctrlGenDt(rng), ReadOk: true, WriteOk: true, ModeOk: true}
		if mode == "recover" {
			if i < recoverAt {
				e.Curve = ctrlPtr(lowCurve)
			} else {
				e.Curve = ctrlPtr([]int{255, 255, 300, 254, 0, 128, rng.Range(0, 255)}[rng.Intn(7)])
			}
			e.Dt = int64(rng.Range(50, 2000)) * 1e6
		} else if constCurve >= 0 {
			e.Curve = ctrlPtr(constCurve)
		} else {
			e.Curve = ctrlPtr(ctrlGenCurveVal(rng))
		}
		if mode == "stallext" && extKind == 2 && i > stallFrom {
			e.WriteOk = false
		}
		if mode == "fault" {
			if rng.Chance(1, 6) {
				e.ReadOk = false
			}
			if rng.Chance(1, 6) {
				e.WriteOk = false
			}
			if rng.Chance(1, 6) {
				e.ModeOk = false
			}
			if rng.Chance(1, 15) {
				e.Curve = nil
			}
		}
		in.Hist = append(in.Hist, e)
	}
	if mode == "stallmax" || (mode == "recover" && rng.Bool()) {
		// the rotor turns again and the curve sweeps over its range: the requests must follow the curve
		for _, v := range []int{0, 40, 90, 128, 200, 255, 128, 0, 255} {
			in.Hist = append(in.Hist, ctrlEv{T: "poll", Rpm: ctrlPtr(rng.Range(600, 3000))})
			in.Hist = append(in.Hist, ctrlEv{T: "cycle", Curve: ctrlPtr(v), Dt: int64(rng.Range(50, 2000)) * 1e6, ReadOk: true, WriteOk: true, ModeOk: true})
		}
	}
	if mode == "sweep" { // every curve value once, in order, with the plain direct algorithm: dense comparison points for C07
		in.Alg, in.CfgAlg, in.NeverStop = "direct", "", false
		in.Hist = nil
		lo, step := rng.Range(0, 3), rng.Range(1, 3)
		for v := lo; v <= 255; v += step {
			in.Hist = append(in.Hist, ctrlEv{T: "cycle", Curve: ctrlPtr(v), Dt: 200 * 1e6, ReadOk: true, WriteOk: true, ModeOk: true})
		}
		pmRouteOn = rng.Bool()
	}
	if pmRouteOn {
		in.PmRoute = "cfgdb"
		tags = append(tags, "pm_route=cfgdb")
	}
	if glueOn && in.HasRpm {
		in.Glue = 1 + int(glueSel%3)
		tags = append(tags, "glue="+itoa(in.Glue))
	}
	if cfgAlg {
		in.CfgAlg = ctrlPickCfgAlg(rng, in)
		tags = append(tags, "cfg_alg="+in.CfgAlg)
	}
	return in, tags
}

func ctrlNontrivial(in ctrlIn, obs []ctrlObs) (bool, []string) {
	var tags []string
	cycles, raises, counted, skipped, errs := 0, 0, 0, 0, 0
	prevOff, prevCnt := 0, 0
	for i, e := range in.Hist {
		o := obs[i]
		if e.T == "cycle" {
			cycles++
			if len(o.Writes) == 0 && o.Err == 0 {
				skipped++
			}
			if o.Err != 0 {
				errs++
			}
		}
		if o.Offset > prevOff {
			raises++
		}
		if o.Cnt > prevCnt {
			counted++
		}
		prevOff, prevCnt = o.Offset, o.Cnt
	}
	if raises > 0 {
		tags = append(tags, "reached=stall-raise")
	}
	if counted > 0 {
		tags = append(tags, "reached=third-party-count")
	}
	if skipped > 0 {
		tags = append(tags, "reached=write-skipped")
	}
	if errs > 0 {
		tags = append(tags, fmt.Sprintf("reached=err%d", obs[len(obs)-1].Err))
	}
	return cycles >= 2, tags
}

func init() {
	drivers["ctrl"] = func(ctx *Ctx) { ctrlMain(ctx, false) }
	drivers["ctrllag"] = func(ctx *Ctx) { ctrlMain(ctx, true) }
}

func ctrlMain(ctx *Ctx, lag bool) {
	{
		emit := func(in ctrlIn, tags []string) {
			if lag {
				in.Lag = true
				for _, e := range in.Hist {
					if e.T == "ext" {
						return // a foreign writer is not part of the asynchronous-device scenario
					}
				}
				tags = append(tags, "lag")
			}
			obs, coq := runCtrl(ctx, in)
			nt, more := ctrlNontrivial(in, obs)
			ctx.Emit(Record{In: in, Obs: obs, Coq: coq, Tags: append(tags, more...), NonTrv: nt})
		}
		for _, raw := range append(ctx.Corpus, ctx.Replay...) {
			var in ctrlIn
			if json.Unmarshal(raw, &in) == nil && in.Kind != "" {
				emit(in, []string{"corpus"})
			}
		}
		if ctx.Replay != nil {
			return
		}
		rng := NewRng(ctx.Seed, "ctrl")
		n := ctx.Param("n", 600)
		modes := strings.Split(ctx.Params["modes"], ",")
		if ctx.Params["modes"] == "" {
			modes = []string{"random", "stall", "const", "ext", "fault", "recover", "stallmax", "stallext"}
		}
		cmdEvery := ctx.Param("cmd", 1)
		for i := 0; i < n; i++ {
			mode := modes[i%len(modes)]
			in, tags := genCtrlCase(rng, mode, cmdEvery > 0 && !lag)
			emit(in, tags)
		}
		// long constant-curve tails under the default PID algorithm (exploration of C04's PID clause)
		for i := 0; i < ctx.Param("pidlong", 0); i++ {
			in, tags := genCtrlCase(rng, "random", false)
			in.Alg, in.P, in.I, in.D = "pid", jF(0.3), jF(0.02), jF(0.005)
			in.NeverStop = false
			in.CfgAlg = []string{"", "pid", "absent"}[i%3]
			tags = append(tags, "cfg_alg="+in.CfgAlg)
			if len(in.Hist) > 12 {
				in.Hist = in.Hist[:12]
			}
			for k := range in.Hist { // tick periods 50 ms .. 2 s only: the PID clause is stated for those
				if in.Hist[k].T == "cycle" {
					in.Hist[k].Dt = int64(rng.Range(50, 2000)) * 1e6
				}
			}
			dt := int64([]int{500, 1000, 2000}[rng.Intn(3)]) * 1e6
			cycles := 520
			if !ctx.Quick() && i%2 == 1 {
				dt = int64([]int{50, 100, 200}[rng.Intn(3)]) * 1e6
				cycles = 3200
			}
			v := rng.Range(0, 255)
			if rng.Chance(1, 3) {
				v = []int{0, 255, 250, 5}[rng.Intn(4)]
			}
			// hours of idling at an extreme first (integral wind-up), then the constant value
			idle := []int{0, 255}[rng.Intn(2)]
			for k := 0; k < 1800; k++ { // one hour of 2 s ticks
				in.Hist = append(in.Hist, ctrlEv{T: "cycle", Curve: ctrlPtr(idle), Dt: 2000 * 1e6, ReadOk: true, WriteOk: true, ModeOk: true})
			}
			for k := 0; k < cycles; k++ {
				in.Hist = append(in.Hist, ctrlEv{T: "cycle", Curve: ctrlPtr(v), Dt: dt, ReadOk: true, WriteOk: true, ModeOk: true})
			}
			emit(in, append(tags, "gen=pidlong"))
		}
	}
}
