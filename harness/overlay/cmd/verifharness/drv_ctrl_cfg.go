//go:build verif

package main

import (
	"fmt"
	"os"
	"path/filepath"
	"strconv"

	"github.com/markusressel/fan2go/internal"
	"github.com/markusressel/fan2go/internal/configuration"
	"github.com/markusressel/fan2go/internal/control_loop"
	"github.com/markusressel/fan2go/internal/controller"
	"github.com/markusressel/fan2go/internal/curves"
	"github.com/markusressel/fan2go/internal/fans"
	"github.com/prometheus/client_golang/prometheus"
	"github.com/spf13/viper"
)

// driver `ctrl`, configuration path of the control algorithm: when a case names a documented spelling
// (cfg_alg), the control loop is not built from the case's alg/gains directly but obtained from the real
// glue: YAML -> viper -> LoadConfig (decode hooks, ControlAlgorithmConfig.UnmarshalText) ->
// initializeFanControllers (algorithm selection). The Coq case still carries the algorithm the spelling
// documents, so a slip anywhere in that glue shows up as a mismatch and in the C04 observer.

func ctrlYamlFloat(hex string) string { return strconv.FormatFloat(pF(hex), 'g', -1, 64) }

func ctrlAlgYaml(in ctrlIn) string {
	switch in.CfgAlg {
	case "absent":
		return ""
	case "pid":
		return "    controlAlgorithm: pid\n"
	case "direct":
		return "    controlAlgorithm: direct\n"
	case "pidmap":
		return fmt.Sprintf("    controlAlgorithm:\n      pid:\n        p: %s\n        i: %s\n        d: %s\n",
			ctrlYamlFloat(in.P), ctrlYamlFloat(in.I), ctrlYamlFloat(in.D))
	case "directlim":
		return fmt.Sprintf("    controlAlgorithm:\n      direct:\n        maxPwmChangePerCycle: %d\n", in.Lim)
	case "legacy":
		return fmt.Sprintf("    controlLoop:\n      p: %s\n      i: %s\n      d: %s\n",
			ctrlYamlFloat(in.P), ctrlYamlFloat(in.I), ctrlYamlFloat(in.D))
	}
	panic("unknown cfg_alg " + in.CfgAlg)
}

// ctrlSibling is a second fan of the same configuration with the SAME control-algorithm spelling: its control loop,
// obtained from the same initializeFanControllers call, is cycled by the driver between the cycles of the fan under
// test with unrelated targets. Control loops are per fan, so this must not influence the fan under test.
var ctrlSibling control_loop.ControlLoop

func ctrlLoopFromConfig(dir string, in ctrlIn, fan fans.Fan) control_loop.ControlLoop {
	saved := configuration.CurrentConfig
	savedReg, savedGat := prometheus.DefaultRegisterer, prometheus.DefaultGatherer
	defer func() {
		configuration.CurrentConfig = saved
		prometheus.DefaultRegisterer, prometheus.DefaultGatherer = savedReg, savedGat
	}()
	path := filepath.Join(dir, "fan2go.yaml")
	yaml := "dbPath: " + filepath.Join(dir, "fan2go.db") + "\nfans:\n  - id: f\n    curve: stub\n    file:\n      path: " +
		filepath.Join(dir, "cfgpwm") + "\n" + ctrlAlgYaml(in) +
		"  - id: sibling\n    curve: stub\n    file:\n      path: " + filepath.Join(dir, "sibpwm") + "\n" + ctrlAlgYaml(in)
	// ... and a third fan with EXPLICIT pid gains of its own (only present, never cycled): the defaults other fans get
	// must not depend on it, whichever order the start-up glue visits the fans in
	yaml += "  - id: tuned\n    curve: stub\n    file:\n      path: " + filepath.Join(dir, "tunedpwm") +
		"\n    controlAlgorithm:\n      pid:\n        p: 2.5\n        i: 0.75\n        d: 0.125\n"
	_ = os.WriteFile(filepath.Join(dir, "sibpwm"), []byte("0"), 0o644)
	_ = os.WriteFile(filepath.Join(dir, "tunedpwm"), []byte("0"), 0o644)
	if err := os.WriteFile(path, []byte(yaml), 0o644); err != nil {
		panic(err)
	}
	viper.Reset()
	configuration.InitConfig(path)
	if err := configuration.VerifReadInConfig(); err != nil {
		panic("cfg_alg: read: " + err.Error())
	}
	configuration.LoadConfig()
	if len(configuration.CurrentConfig.Fans) != 3 {
		panic("cfg_alg: expected three fan entries")
	}
	tunedCfg := configuration.CurrentConfig.Fans[2]
	tunedFan, terr := fans.NewFan(tunedCfg)
	if terr != nil {
		panic("cfg_alg: tuned: " + terr.Error())
	}
	sibCfg := configuration.CurrentConfig.Fans[1]
	sibFan, err := fans.NewFan(sibCfg)
	if err != nil {
		panic("cfg_alg: sibling: " + err.Error())
	}
	reg := prometheus.NewRegistry()
	prometheus.DefaultRegisterer, prometheus.DefaultGatherer = reg, reg
	curves.RegisterSpeedCurve(&ctrlStubCurve{})
	ctrls, err := internal.VerifInitializeFanControllers(nil, map[configuration.FanConfig]fans.Fan{configuration.CurrentConfig.Fans[0]: fan, sibCfg: sibFan, tunedCfg: tunedFan})
	if err != nil {
		panic("cfg_alg: " + err.Error())
	}
	dc, ok := ctrls[fan].(*controller.DefaultFanController)
	if !ok {
		panic("cfg_alg: no controller")
	}
	loop := dc.VerifControlLoop()
	if loop == nil {
		panic("cfg_alg: no control loop selected")
	}
	ctrlSibling = nil
	if sc, ok := ctrls[sibFan].(*controller.DefaultFanController); ok {
		ctrlSibling = sc.VerifControlLoop()
	}
	return loop
}

// ctrlPickCfgAlg chooses a documented spelling for the algorithm the case already carries.
func ctrlPickCfgAlg(rng *Rng, in ctrlIn) string {
	def := in.P == jF(0.3) && in.I == jF(0.02) && in.D == jF(0.005)
	switch in.Alg {
	case "direct":
		return "direct"
	case "limited":
		return "directlim"
	default:
		if def {
			return []string{"pid", "absent", "pid", "pidmap", "legacy"}[rng.Intn(5)]
		}
		return []string{"pidmap", "legacy"}[rng.Intn(2)]
	}
}
