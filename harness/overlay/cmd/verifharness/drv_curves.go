//go:build verif

package main

import (
	"sync"

	"encoding/json"
	"github.com/markusressel/fan2go/internal"
	"github.com/prometheus/client_golang/prometheus"
	"github.com/spf13/viper"
	"math"
	"os"
	"path/filepath"
	"sort"
	"strconv"
	"strings"
	"time"

	"github.com/markusressel/fan2go/internal/configuration"
	"github.com/markusressel/fan2go/internal/control_loop"
	"github.com/markusressel/fan2go/internal/controller"
	"github.com/markusressel/fan2go/internal/curves"
	"github.com/markusressel/fan2go/internal/sensors"
	"github.com/markusressel/fan2go/internal/util"
)

// Drivers for C06 / C07:
//   curves      real curves (curves.NewSpeedCurve + RegisterSpeedCurve) over sensors in the real
//               registry; successive Evaluate() calls on one root; observed value/error/panic,
//               CurrentValue() and the CurrentValue() of the root's direct members.
//   curvesmono  the same objects evaluated at pairs of sensor states A <= B (pointwise).
//   curvesctrl  real DefaultFanController (direct algorithm) over a real single-step curve with
//               value v, v = 0..255: requested and written PWM.

type curvesStep struct {
	K int    `json:"k"`
	V string `json:"v"` // speed, exact hex float
}
type curvesNode struct {
	Kind     string       `json:"kind"` // lin | pid | fn
	Sensor   int          `json:"sensor"`
	Min      int          `json:"min"`
	Max      int          `json:"max"`
	HasSteps bool         `json:"hasSteps"`
	Steps    []curvesStep `json:"steps"`
	Set      string       `json:"set"`
	P        string       `json:"p"`
	I        string       `json:"i"`
	D        string       `json:"d"`
	Type     string       `json:"type"`
	Members  []int        `json:"members"`
	// how the member list is written in the YAML text (Load = "yaml" only): "" = block sequence, "flow" = [a, b],
	// "csv" = the comma string "a,b" (split by the loader's StringToSliceHookFunc), "csvsp" = "a, b" (the loader
	// yields the ids "a" and " b"; " b" names no curve)
	Form string `json:"form,omitempty"`
}
type curvesSens struct {
	Id  int    `json:"id"`
	Avg string `json:"avg"`
	Val string `json:"val"`
	Err bool   `json:"err"`
}
type curvesEv struct {
	Dt   int64        `json:"dt"` // ns the clock advances before this call
	Sens []curvesSens `json:"sens"`
	// a second consumer (another fan's controller / another function curve): before this call, after an optional
	// REAL sleep, the sensors are set to PreSens and the curves Pre are evaluated on their own. Stateless graphs
	// only, so the model ignores it: a curve's value is a function of the current sensor state alone.
	SleepMs int          `json:"sleepMs,omitempty"`
	Pre     []int        `json:"pre,omitempty"`
	PreSens []curvesSens `json:"preSens,omitempty"`
}
type curvesIn struct {
	Nodes []curvesNode `json:"nodes"` // curve id = index
	Root  int          `json:"root"`
	Evs   []curvesEv   `json:"evs"` // curves: successive calls; curvesmono: consecutive pairs (2k, 2k+1)
	// "" = curve configurations built as structs; "yaml" = the graph is rendered as fan2go.yaml text and loaded
	// exactly like the daemon does: viper.Reset, InitConfig, read, LoadConfig, Validate, initializeSensors, initializeCurves
	Load string `json:"load,omitempty"`
	// controllerAdjustmentTickRate: "" = the default (200ms), else a duration text ("1s", "50ms")
	Tick string `json:"tick,omitempty"`
}
type curvesEvObs struct {
	Kind  int   `json:"kind"` // 0 value, 1 error, 2 panic
	Val   int   `json:"val"`
	Cur   int   `json:"cur"`
	Mvals []int `json:"mvals"`
}
type curvesObs struct {
	Evs []curvesEvObs `json:"evs"`
}

func curvesId(i int) string  { return "c" + itoa(i) }
func curvesSid(i int) string { return "s" + itoa(i) }

var curvesFnTypes = []string{configuration.FunctionSum, configuration.FunctionDifference, configuration.FunctionDelta,
	configuration.FunctionMinimum, configuration.FunctionMaximum, configuration.FunctionAverage}
var curvesFnCoq = map[string]string{configuration.FunctionSum: "FSum", configuration.FunctionDifference: "FDifference",
	configuration.FunctionDelta: "FDelta", configuration.FunctionMinimum: "FMinimum",
	configuration.FunctionMaximum: "FMaximum", configuration.FunctionAverage: "FAverage"}

// build registers real sensors and real curves for one case; returns the root and the sensor setters.
func curvesBuild(ctx *Ctx, in curvesIn, caseNo int) (root curves.SpeedCurve, set func(s curvesSens)) {
	curves.VerifResetCurves()
	sensors.VerifResetSensors()
	util.VerifVirtualClock = true
	pidSensor := map[int]bool{}
	for _, n := range in.Nodes {
		if n.Kind == "pid" {
			pidSensor[n.Sensor] = true
		}
	}
	real := map[int]sensors.Sensor{}
	virt := map[int]*sensors.VerifSensor{}
	if len(in.Evs) > 0 && in.Load != "yaml" {
		for _, s := range in.Evs[0].Sens {
			if pidSensor[s.Id] {
				v := &sensors.VerifSensor{Id: curvesSid(s.Id)}
				virt[s.Id] = v
				sensors.RegisterSensor(v)
			} else {
				// a real FileSensor object; its moving average is set through SetMovingAvg
				p := filepath.Join(ctx.WorkDir, "sensor_"+itoa(s.Id))
				_ = os.WriteFile(p, []byte("0\n"), 0o644)
				sn, err := sensors.NewSensor(configuration.SensorConfig{ID: curvesSid(s.Id), File: &configuration.FileSensorConfig{Path: p}})
				if err != nil {
					panic(err)
				}
				real[s.Id] = sn
				sensors.RegisterSensor(sn)
			}
		}
	}
	// A configuration may list a function curve before or after its members, so the order is varied (as listed /
	// reversed / rotated), as a function of the input alone so that a replay uses the same order.
	order := make([]int, len(in.Nodes))
	for i := range order {
		order[i] = i
	}
	switch (in.Root + len(in.Nodes)) % 3 {
	case 1:
		for a, b := 0, len(order)-1; a < b; a, b = a+1, b-1 {
			order[a], order[b] = order[b], order[a]
		}
	case 2:
		k := (in.Root*7 + 3) % len(order)
		order = append(append([]int{}, order[k:]...), order[:k]...)
	}
	reg := prometheus.NewRegistry()
	prometheus.DefaultRegisterer, prometheus.DefaultGatherer = reg, reg
	if in.Load == "yaml" {
		// the real loader and the real start-up glue, nothing assigned by the driver
		curves.VerifResetCurves()
		sensors.VerifResetSensors()
		dir := filepath.Join(ctx.WorkDir, "cfg")
		_ = os.MkdirAll(dir, 0o755)
		var sids []int
		if len(in.Evs) > 0 {
			for _, sn := range in.Evs[0].Sens {
				sids = append(sids, sn.Id)
				_ = os.WriteFile(filepath.Join(dir, "sensor_"+itoa(sn.Id)), []byte("0\n"), 0o644)
			}
		}
		path := filepath.Join(dir, "fan2go.yaml")
		if err := os.WriteFile(path, []byte(curvesYaml(in, order, sids, dir)), 0o644); err != nil {
			panic(err)
		}
		viper.Reset()
		configuration.InitConfig(path)
		if err := configuration.VerifReadInConfig(); err != nil {
			panic("curves: yaml read: " + err.Error())
		}
		configuration.LoadConfig()
		_ = catch(func() { curvesLastValidate = configuration.Validate(path) })
		if err := internal.VerifInitializeSensors(nil); err != nil {
			panic("curves: initializeSensors: " + err.Error())
		}
		real, virt = map[int]sensors.Sensor{}, map[int]*sensors.VerifSensor{}
		for _, id := range sids {
			if pidSensor[id] {
				v := &sensors.VerifSensor{Id: curvesSid(id)}
				virt[id] = v
				sensors.RegisterSensor(v) // PID curves call GetValue(): chosen float64 values / errors
			} else if sn, ok := sensors.GetSensor(curvesSid(id)); ok {
				real[id] = sn
			}
		}
		if err := internal.VerifInitializeCurves(); err != nil {
			panic(err)
		}
	} else {
		cfgs := make([]configuration.CurveConfig, 0, len(in.Nodes))
		for _, i := range order {
			n := in.Nodes[i]
			cfg := configuration.CurveConfig{ID: curvesId(i)}
			switch n.Kind {
			case "lin":
				lc := &configuration.LinearCurveConfig{Sensor: curvesSid(n.Sensor), Min: n.Min, Max: n.Max}
				if n.HasSteps {
					lc.Steps = map[int]float64{}
					for _, st := range n.Steps {
						lc.Steps[st.K] = pF(st.V)
					}
				}
				cfg.Linear = lc
			case "pid":
				cfg.PID = &configuration.PidCurveConfig{Sensor: curvesSid(n.Sensor), SetPoint: pF(n.Set), P: pF(n.P), I: pF(n.I), D: pF(n.D)}
			case "fn":
				ids := []string{}
				for _, m := range n.Members {
					ids = append(ids, curvesId(m))
				}
				cfg.Function = &configuration.FunctionCurveConfig{Type: n.Type, Curves: ids}
			}
			cfgs = append(cfgs, cfg)
		}
		// instantiated by the real start-up glue (initializeCurves: NewSpeedCurve + RegisterSpeedCurve in configuration order)
		configuration.CurrentConfig.Curves = cfgs
		// a realistic, non-zero tick rate (the daemon's default is 200ms; the zero value never occurs in a loaded configuration)
		tick := 200 * time.Millisecond
		if in.Tick != "" {
			if d, err := time.ParseDuration(in.Tick); err == nil {
				tick = d
			}
		}
		configuration.CurrentConfig.ControllerAdjustmentTickRate = tick
		if err := internal.VerifInitializeCurves(); err != nil {
			panic(err)
		}
	}
	root, _ = curves.GetSpeedCurve(curvesId(in.Root))
	set = func(s curvesSens) {
		if v, ok := virt[s.Id]; ok {
			v.Val, v.Err, v.Avg = pF(s.Val), s.Err, pF(s.Avg)
		} else if r, ok := real[s.Id]; ok {
			r.SetMovingAvg(pF(s.Avg))
		}
	}
	return root, set
}

var curvesLastValidate error

func curvesYamlFloat(hex string) string { return strconv.FormatFloat(pF(hex), 'g', -1, 64) }

// curvesYaml renders the case as the text of a fan2go.yaml (file sensors, the curve graph in the given order).
func curvesYaml(in curvesIn, order []int, sids []int, dir string) string {
	var b strings.Builder
	b.WriteString("dbPath: " + filepath.Join(dir, "fan2go.db") + "\n")
	if in.Tick != "" {
		b.WriteString("controllerAdjustmentTickRate: " + in.Tick + "\n")
	}
	if len(sids) == 0 {
		b.WriteString("sensors: []\n")
	} else {
		b.WriteString("sensors:\n")
	}
	for _, id := range sids {
		b.WriteString("  - id: " + curvesSid(id) + "\n    file:\n      path: " + filepath.Join(dir, "sensor_"+itoa(id)) + "\n")
	}
	b.WriteString("fans: []\ncurves:\n")
	for _, i := range order {
		n := in.Nodes[i]
		b.WriteString("  - id: " + curvesId(i) + "\n")
		switch n.Kind {
		case "lin":
			b.WriteString("    linear:\n      sensor: " + curvesSid(n.Sensor) + "\n")
			if n.HasSteps {
				if len(n.Steps) == 0 {
					b.WriteString("      steps: {}\n")
				} else {
					b.WriteString("      steps:\n")
					for _, st := range n.Steps {
						b.WriteString("        - " + itoa(st.K) + ": " + curvesYamlFloat(st.V) + "\n")
					}
				}
			} else {
				b.WriteString("      min: " + itoa(n.Min) + "\n      max: " + itoa(n.Max) + "\n")
			}
		case "pid":
			b.WriteString("    pid:\n      sensor: " + curvesSid(n.Sensor) + "\n      setPoint: " + curvesYamlFloat(n.Set) +
				"\n      p: " + curvesYamlFloat(n.P) + "\n      i: " + curvesYamlFloat(n.I) + "\n      d: " + curvesYamlFloat(n.D) + "\n")
		case "fn":
			b.WriteString("    function:\n      type: " + n.Type + "\n")
			ids := make([]string, len(n.Members))
			for j, m := range n.Members {
				ids[j] = curvesId(m)
			}
			switch {
			case len(ids) == 0:
				b.WriteString("      curves: []\n")
			case n.Form == "flow":
				b.WriteString("      curves: [ " + strings.Join(ids, ", ") + " ]\n")
			case n.Form == "csv":
				b.WriteString("      curves: \"" + strings.Join(ids, ",") + "\"\n")
			case n.Form == "csvsp":
				b.WriteString("      curves: \"" + strings.Join(ids, ", ") + "\"\n")
			default:
				b.WriteString("      curves:\n")
				for _, id := range ids {
					b.WriteString("        - " + id + "\n")
				}
			}
		}
	}
	return b.String()
}

// curvesYamlOk: every number of the case can be written as YAML text (finite floats)
func curvesYamlOk(in curvesIn) bool {
	fin := func(h string) bool { v := pF(h); return !math.IsNaN(v) && !math.IsInf(v, 0) }
	for _, n := range in.Nodes {
		switch n.Kind {
		case "lin":
			for _, st := range n.Steps {
				if !fin(st.V) {
					return false
				}
			}
		case "pid":
			if !fin(n.Set) || !fin(n.P) || !fin(n.I) || !fin(n.D) {
				return false
			}
		}
	}
	return true
}

// the ids the model sees for a member list: with the "a, b" string form every id but the first carries a leading
// blank and names no registered curve
func curvesModelMembers(in curvesIn, n curvesNode) []int {
	if in.Load != "yaml" || n.Form != "csvsp" {
		return n.Members
	}
	res := make([]int, len(n.Members))
	for j, m := range n.Members {
		res[j] = m
		if j > 0 {
			res[j] = 100000 + m
		}
	}
	return res
}

func curvesEval(in curvesIn, root curves.SpeedCurve, set func(curvesSens), ev curvesEv) curvesEvObs {
	util.VerifAdvance(time.Duration(ev.Dt))
	if ev.SleepMs > 0 {
		time.Sleep(time.Duration(ev.SleepMs) * time.Millisecond)
	}
	if len(ev.Pre) > 0 && curvesStateless(in) {
		for _, s := range ev.PreSens {
			set(s)
		}
		for _, m := range ev.Pre {
			if c, ok := curves.GetSpeedCurve(curvesId(m)); ok {
				_ = catch(func() { _, _ = c.Evaluate() })
			}
		}
	}
	for _, s := range ev.Sens {
		set(s)
	}
	o := curvesEvObs{Mvals: []int{}}
	var v int
	var err error
	if p := catch(func() { v, err = root.Evaluate() }); p != "" {
		o.Kind = 2
	} else if err != nil {
		o.Kind, o.Val = 1, v
	} else {
		o.Kind, o.Val = 0, v
	}
	_ = catch(func() { o.Cur = root.CurrentValue() })
	if n := in.Nodes[in.Root]; n.Kind == "fn" {
		for _, m := range n.Members {
			if c, ok := curves.GetSpeedCurve(curvesId(m)); ok {
				o.Mvals = append(o.Mvals, c.CurrentValue())
			}
		}
		// Several fans may share one function curve, and every fan's control loop evaluates it from its own
		// goroutine. With the sensors unchanged (equal temperatures T <= T) all of them must see the value
		// just observed: a concurrent evaluation that returns anything else is reported as kind 3 (the model
		// never produces it, and the monotonicity observer requires kind 0). Stateless graphs only.
		if o.Kind == 0 && curvesStateless(in) {
			bad := make(chan int, 8)
			var wg sync.WaitGroup
			for g := 0; g < 4; g++ {
				wg.Add(1)
				go func() {
					defer wg.Done()
					for k := 0; k < 60; k++ {
						var v2 int
						var e2 error
						if p := catch(func() { v2, e2 = root.Evaluate() }); p != "" || e2 != nil || v2 != v {
							select {
							case bad <- v2:
							default:
							}
							return
						}
					}
				}()
			}
			wg.Wait()
			select {
			case v2 := <-bad:
				o.Kind, o.Val = 3, v2
			default:
			}
		}
	}
	return o
}

func curvesStateless(in curvesIn) bool {
	for _, n := range in.Nodes {
		if n.Kind != "fn" && n.Kind != "lin" && n.Kind != "linear" && n.Kind != "steps" {
			return false
		}
	}
	return true
}

// ---- Coq rendering ----
func curvesNodeCoq(in curvesIn, i int, n curvesNode) string {
	switch n.Kind {
	case "lin":
		steps := "None"
		if n.HasSteps {
			st := append([]curvesStep{}, n.Steps...)
			sort.Slice(st, func(a, b int) bool { return st[a].K < st[b].K })
			items := make([]string, len(st))
			for j, s := range st {
				items[j] = "(" + cZ(s.K) + ", " + cF(pF(s.V)) + ")"
			}
			steps = "(Some " + cList(items) + ")"
		}
		return "(" + cZ(i) + ", GLin (mkLin " + cZ(n.Sensor) + " " + cZ(n.Min) + " " + cZ(n.Max) + " " + steps + "))"
	case "pid":
		return "(" + cZ(i) + ", GPid (mkPidCfg " + cZ(i) + " " + cZ(n.Sensor) + " " + cF(pF(n.Set)) + " " + cF(pF(n.P)) + " " + cF(pF(n.I)) + " " + cF(pF(n.D)) + "))"
	default:
		return "(" + cZ(i) + ", GFn " + curvesFnCoq[n.Type] + " " + cZList(curvesModelMembers(in, n)) + ")"
	}
}
func curvesEnvCoq(ss []curvesSens, compact bool) string {
	items := make([]string, len(ss))
	for i, s := range ss {
		val := "(Some " + cF(pF(s.Val)) + ")"
		if s.Err || compact { // compact: no PID curve in the case, GetValue is never called
			val = "None"
		}
		items[i] = "(" + cZ(s.Id) + ", mkSen " + cF(pF(s.Avg)) + " " + val + ")"
	}
	return cList(items)
}
func curvesGraphCoq(in curvesIn) string {
	nodes := make([]string, len(in.Nodes))
	for i, n := range in.Nodes {
		nodes[i] = curvesNodeCoq(in, i, n)
	}
	return cList(nodes)
}

func curvesRun(ctx *Ctx, in curvesIn, caseNo int, compact bool) (curvesObs, string) {
	root, set := curvesBuild(ctx, in, caseNo)
	obs := curvesObs{}
	evs := make([]string, len(in.Evs))
	for i, ev := range in.Evs {
		o := curvesEval(in, root, set, ev)
		obs.Evs = append(obs.Evs, o)
		evs[i] = cRec("mkEv", cZ64(ev.Dt), curvesEnvCoq(ev.Sens, compact), cZ(o.Kind), cZ64(int64(o.Val)), cZ64(int64(o.Cur)), cZList(o.Mvals))
	}
	return obs, cRec("mkCase", curvesGraphCoq(in), cZ(in.Root), cList(evs))
}

// ---- generators ----
type curvesGen struct {
	rng     *Rng
	nodes   []curvesNode
	nSens   int
	tags    map[string]bool
	bps     map[int][]int // sensor -> interesting temperatures (degrees)
	pidSens map[int]bool
}

func curvesNewGen(rng *Rng, nSens int) *curvesGen {
	return &curvesGen{rng: rng, nSens: nSens, tags: map[string]bool{}, bps: map[int][]int{}, pidSens: map[int]bool{}}
}
func (g *curvesGen) add(n curvesNode) int { g.nodes = append(g.nodes, n); return len(g.nodes) - 1 }
func (g *curvesGen) tag(t string)         { g.tags[t] = true }
func (g *curvesGen) tagList(extra ...string) []string {
	var res []string
	for t := range g.tags {
		res = append(res, t)
	}
	sort.Strings(res)
	return append(extra, res...)
}

func (g *curvesGen) linMinMax(hostile bool) int {
	r := g.rng
	s := r.Intn(g.nSens)
	mn := r.Range(-40, 90)
	if r.Chance(1, 4) {
		mn = r.Range(-40, -1) // cold-side bounds (both may be negative)
	}
	mx := mn + r.Range(1, 80)
	if r.Chance(1, 12) {
		mn, mx = r.Range(-100000, 100000), 0
		mx = mn + r.Range(1, 100000)
		g.tag("lin-wide")
	}
	if hostile {
		switch r.Intn(3) {
		case 0:
			mx = mn
		case 1:
			mx = mn - r.Range(1, 30)
		default:
			mn, mx = 0, 0
		}
		g.tag("lin-min>=max")
	}
	g.tag("lin-minmax")
	g.bps[s] = append(g.bps[s], mn, mx)
	return g.add(curvesNode{Kind: "lin", Sensor: s, Min: mn, Max: mx})
}

// speeds: "int-mono", "int-any", "frac-mono", "frac-any", "hostile"
func (g *curvesGen) linSteps(mode string) int {
	r := g.rng
	s := r.Intn(g.nSens)
	n := r.Range(1, 8)
	if mode == "empty" {
		n = 0
		g.tag("steps-empty")
	}
	keys := map[int]bool{}
	if n >= 2 && r.Chance(1, 3) {
		keys[0] = true // a step exactly at 0 degrees
		g.tag("steps-key-zero")
	}
	if n >= 2 && r.Chance(1, 3) {
		keys[r.Range(-40, -1)] = true // cold-side steps
	}
	for len(keys) < n {
		if r.Chance(1, 10) {
			keys[r.Range(-1000, 1000)] = true
		} else if r.Chance(1, 4) {
			keys[r.Range(-40, 5)] = true
		} else {
			keys[r.Range(-40, 120)] = true
		}
	}
	var ks []int
	for k := range keys {
		ks = append(ks, k)
	}
	sort.Ints(ks)
	var steps []curvesStep
	cur := 0.0
	for i, k := range ks {
		var v float64
		switch mode {
		case "int-mono":
			cur = math.Min(255, cur+float64(r.Range(0, 90)))
			if i == 0 {
				cur = float64(r.Range(0, 120))
			}
			v = cur
		case "int-any":
			v = float64(r.Range(0, 255))
		case "frac-mono":
			inc := r.Float01() * 80
			if r.Chance(1, 3) {
				inc = r.Float01() * 0.1
			}
			cur = math.Min(255, cur+inc)
			if r.Chance(1, 4) {
				// values hugging a rounding boundary k + 0.5 -/+ tiny
				b := math.Floor(cur) + 0.5
				if b > 255 {
					b = 254.5
				}
				cur = math.Max(cur, math.Min(255, b-r.Float01()*1e-6))
			}
			v = cur
		case "frac-any":
			v = r.Float01() * 255
		default: // hostile speeds
			switch r.Intn(6) {
			case 0:
				v = math.NaN()
			case 1:
				v = math.Inf(1)
			case 2:
				v = -float64(r.Range(1, 500))
			case 3:
				v = 1e300
			case 4:
				v = float64(r.Range(256, 100000))
			default:
				v = float64(r.Range(0, 255))
			}
			g.tag("steps-hostile-speed")
		}
		steps = append(steps, curvesStep{K: k, V: jF(v)})
	}
	g.tag("lin-steps")
	for i, k := range ks {
		if k <= 0 && i > 0 {
			g.tag("steps-nonfirst-key<=0")
		}
	}
	g.tag("steps-" + mode)
	if n == 1 {
		g.tag("steps-single")
	}
	g.bps[s] = append(g.bps[s], ks...)
	return g.add(curvesNode{Kind: "lin", Sensor: s, HasSteps: true, Steps: steps})
}

func (g *curvesGen) pid(mode string) int {
	r := g.rng
	s := r.Intn(g.nSens)
	g.pidSens[s] = true
	set := float64(r.Range(20, 90))
	p, i, d := -0.05, -0.005, -0.005 // the documented sign convention: more speed when hotter
	switch mode {
	case "default":
		p, i, d = 0.3, 0.02, 0.005
	case "random":
		p, i, d = (r.Float01()-0.7)*0.5, (r.Float01()-0.7)*0.05, (r.Float01()-0.7)*0.05
		if r.Chance(1, 4) {
			d = 0
		}
		if r.Chance(1, 4) {
			i = 0
		}
	case "absurd":
		pick := func() float64 {
			switch r.Intn(5) {
			case 0:
				return 1e308
			case 1:
				return -1e308
			case 2:
				return 1e200
			case 3:
				return -1e200
			}
			return 0
		}
		p, i, d = pick(), pick(), pick()
		g.tag("pid-absurd-gains")
	case "nonfinite":
		p, i, d = math.NaN(), math.Inf(1), 0
		g.tag("pid-nonfinite-gains")
	}
	g.tag("pid")
	g.bps[s] = append(g.bps[s], int(set))
	return g.add(curvesNode{Kind: "pid", Sensor: s, Set: jF(set), P: jF(p), I: jF(i), D: jF(d)})
}

type curvesTreeOpt struct {
	types    []string
	pid      bool
	hostile  bool
	stepMode []string
	maxMem   int
	repeat   bool // member lists that name the same curve more than once (weighted average, doubled sum, ...)
}

func (g *curvesGen) leaf(o curvesTreeOpt) int {
	r := g.rng
	if o.pid && r.Chance(1, 5) {
		return g.pid([]string{"default", "random", "random", "neg"}[r.Intn(4)])
	}
	if o.hostile && r.Chance(1, 4) {
		switch r.Intn(3) {
		case 0:
			return g.linMinMax(true)
		case 1:
			return g.linSteps("empty")
		default:
			return g.linSteps("hostile")
		}
	}
	if r.Bool() {
		return g.linMinMax(false)
	}
	return g.linSteps(o.stepMode[r.Intn(len(o.stepMode))])
}

func (g *curvesGen) tree(depth int, o curvesTreeOpt) int {
	r := g.rng
	if depth <= 1 || (depth < 4 && r.Chance(1, 3)) {
		return g.leaf(o)
	}
	n := r.Range(1, o.maxMem)
	if r.Chance(1, 2) {
		n = r.Range(1, 3)
	}
	if o.hostile && r.Chance(1, 4) {
		n = 0
		g.tag("fn-empty")
	}
	if o.repeat && n < 2 {
		n = r.Range(2, 4)
	}
	var ms []int
	for i := 0; i < n; i++ {
		den := 10
		if o.repeat {
			den = 2
		}
		if pick := r.Intn(len(ms) + 1); len(ms) > 0 && r.Chance(1, den) && pick < len(ms) && !g.hasPid(ms[pick]) {
			// the same curve referenced twice (a DAG); PID curves are not shared: a second
			// Evaluate() in the same call changes their CurrentValue()
			ms = append(ms, ms[pick])
			g.tag("fn-shared-member")
		} else {
			ms = append(ms, g.tree(depth-1, o))
		}
	}
	ty := o.types[r.Intn(len(o.types))]
	g.tag("fn-" + ty)
	g.tag("fn-members=" + itoa(n))
	return g.add(curvesNode{Kind: "fn", Type: ty, Members: ms})
}

func (g *curvesGen) hasPid(i int) bool {
	n := g.nodes[i]
	if n.Kind == "pid" {
		return true
	}
	for _, m := range n.Members {
		if g.hasPid(m) {
			return true
		}
	}
	return false
}

func (g *curvesGen) depthOf(i int) int {
	n := g.nodes[i]
	d := 0
	for _, m := range n.Members {
		if x := g.depthOf(m); x > d {
			d = x
		}
	}
	return d + 1
}

// a temperature (milli-degrees) for sensor s: boundaries +-1 m°, inside, negative, huge, tiny
func (g *curvesGen) temp(s int, hostile bool) float64 {
	r := g.rng
	bps := g.bps[s]
	if hostile && r.Chance(1, 3) {
		return []float64{math.NaN(), math.Inf(1), math.Inf(-1)}[r.Intn(3)]
	}
	switch k := r.Intn(12); {
	case k < 4 && len(bps) > 0:
		b := float64(bps[r.Intn(len(bps))]) * 1000
		if r.Bool() {
			// anywhere within one degree of the breakpoint, on the 1 m-degree grid (or just off it)
			t := b + float64(r.Range(-1000, 1000))
			if r.Chance(1, 4) {
				t += r.Float01() - 0.5
			}
			return t
		}
		return b + []float64{-1, 0, 1, -0.001, 0.001, -1000, 1000, 500, -500, -999, 999, -250}[r.Intn(12)]
	case k < 8 && len(bps) > 0:
		lo, hi := bps[0], bps[0]
		for _, b := range bps {
			if b < lo {
				lo = b
			}
			if b > hi {
				hi = b
			}
		}
		x := (float64(lo) - 5 + r.Float01()*(float64(hi-lo)+10)) * 1000
		if r.Bool() {
			x = math.Round(x)
		}
		return x
	case k == 8:
		return -float64(r.Range(0, 300000))
	case k == 9:
		return []float64{1e300, -1e300, 5e-324, -5e-324, 0, math.Copysign(0, -1), 1.7976931348623157e308, 1e18, 255000, 1e-300}[r.Intn(10)]
	default:
		return float64(r.Range(-50000, 200000))
	}
}

func (g *curvesGen) sens(hostile bool, pidErr bool) []curvesSens {
	var ss []curvesSens
	for s := 0; s < g.nSens; s++ {
		t := g.temp(s, hostile)
		e := false
		if pidErr && g.pidSens[s] && g.rng.Chance(1, 3) {
			e = true
			g.tag("pid-sensor-error")
		}
		ss = append(ss, curvesSens{Id: s, Avg: jF(t), Val: jF(t), Err: e})
	}
	return ss
}

// curvesDecorate chooses how the case reaches the code: through the real configuration loader (YAML text, varied
// spellings of the member lists) or as structs; the tick rate; and - for stateless function-curve roots - a second
// consumer that evaluates members / sub-curves on its own between the root's calls (real time).
func curvesDecorate(g *curvesGen, in *curvesIn, yamlNum, yamlDen int, consumer bool, pairs bool) {
	r := g.rng
	complete := true
	for _, n := range in.Nodes {
		if n.Kind != "fn" && (len(in.Evs) == 0 || n.Sensor >= len(in.Evs[0].Sens)) {
			complete = false
		}
	}
	in.Tick = []string{"", "", "200ms", "1s"}[r.Intn(4)]
	if complete && curvesYamlOk(*in) && r.Chance(yamlNum, yamlDen) {
		in.Load = "yaml"
		g.tag("load=yaml")
		for i := range in.Nodes {
			if in.Nodes[i].Kind == "fn" {
				in.Nodes[i].Form = []string{"", "", "flow", "csv"}[r.Intn(4)]
				if len(in.Nodes[i].Members) >= 2 && r.Chance(1, 40) {
					in.Nodes[i].Form = "csvsp"
					g.tag("members-csvsp")
				}
				if in.Nodes[i].Form != "" {
					g.tag("members-" + in.Nodes[i].Form)
				}
			}
		}
	} else {
		g.tag("load=struct")
	}
	if in.Tick != "" {
		g.tag("tick=" + in.Tick)
	}
	if !consumer || !curvesStateless(*in) || in.Nodes[in.Root].Kind != "fn" || len(in.Nodes) < 2 {
		return
	}
	// second consumer: half a tick is 25ms (tick 50ms) or 100ms (the default tick)
	sleep := 110
	if r.Chance(3, 4) {
		in.Tick, sleep = "50ms", 35
	} else if in.Tick == "1s" {
		in.Tick = "200ms"
	}
	g.tag("second-consumer")
	pick := func() []int {
		var res []int
		for i := range in.Nodes {
			if i != in.Root && r.Chance(1, 2) {
				res = append(res, i)
			}
		}
		if len(res) == 0 {
			res = append(res, in.Nodes[in.Root].Members[0])
		}
		return res
	}
	shift := func(ss []curvesSens, sign float64) []curvesSens {
		res := append([]curvesSens{}, ss...)
		for i := range res {
			t := pF(res[i].Avg) + sign*float64(r.Range(1000, 40000))
			res[i] = curvesSens{Id: res[i].Id, Avg: jF(t), Val: jF(t)}
		}
		return res
	}
	if pairs {
		// curvesmono: three ordered pairs (A, B) at the front. Either the other consumer evaluated the members at a
		// HOTTER state just before the root's call at A (and B follows more than half a tick later), or at a COLDER
		// state just before the root's call at B.
		var front []curvesEv
		for j := 0; j < 3 && 2*j+1 < len(in.Evs); j++ {
			a, b := in.Evs[2*j], in.Evs[2*j+1]
			a.SleepMs = sleep
			if r.Bool() {
				a.Pre, a.PreSens = pick(), shift(b.Sens, +1)
				b.SleepMs = sleep
			} else {
				b.Pre, b.PreSens = pick(), shift(a.Sens, -1)
			}
			front = append(front, a, b)
		}
		in.Evs = append(front, in.Evs...)
		return
	}
	for e := range in.Evs {
		if r.Chance(1, 2) {
			in.Evs[e].Pre, in.Evs[e].PreSens = pick(), g.sens(false, false)
			if e+1 < len(in.Evs) {
				in.Evs[e+1].SleepMs = sleep
			}
		}
	}
}

func curvesHasMid(o curvesObs) bool {
	for _, e := range o.Evs {
		if e.Kind == 0 && e.Val > 0 && e.Val < 255 {
			return true
		}
	}
	return false
}

var curvesDtChoices = []int64{1_000_000, 100_000_000, 1_000_000_000, 2_000_000_000, 1_500_000_000, 60_000_000_000, 1, 999_999_999}

func init() {
	allSteps := []string{"int-mono", "int-any", "frac-mono", "frac-any"}
	// ------------------------------------------------------------------ curves (C06)
	drivers["curves"] = func(ctx *Ctx) {
		caseNo := 0
		emit := func(in curvesIn, tags ...string) {
			caseNo++
			obs, coq := curvesRun(ctx, in, caseNo, false)
			k := in.Nodes[in.Root].Kind
			for _, e := range obs.Evs {
				tags = append(tags, "outcome="+[]string{"value", "error", "panic", "concurrent-disagreement"}[e.Kind])
				if e.Kind == 0 && (e.Val < 0 || e.Val > 255) {
					tags = append(tags, "value-out-of-range")
				}
			}
			ctx.Emit(Record{In: in, Obs: obs, Coq: coq, Tags: curvesUniq(tags), NonTrv: curvesHasMid(obs) || k != "lin"})
		}
		for _, raw := range append(ctx.Corpus, ctx.Replay...) {
			var in curvesIn
			if json.Unmarshal(raw, &in) == nil && len(in.Nodes) > 0 {
				emit(in, "corpus")
			}
		}
		if ctx.Replay != nil {
			return
		}
		rng := NewRng(ctx.Seed, "curves")
		n := ctx.Param("n", 1600)
		if !ctx.Quick() {
			n = ctx.Param("n", 30000)
		}
		for i := 0; i < n; i++ {
			nSens := rng.Range(1, 3)
			g := curvesNewGen(rng, nSens)
			var root int
			hostile := false
			stream := ""
			switch k := i % 16; {
			case k < 3:
				stream = "stream=lin-minmax"
				root = g.linMinMax(false)
			case k < 6:
				stream = "stream=lin-steps"
				root = g.linSteps(allSteps[rng.Intn(4)])
			case k < 9:
				stream = "stream=fn-tree"
				root = g.tree(rng.Range(2, 4), curvesTreeOpt{types: curvesFnTypes, pid: true, stepMode: allSteps, maxMem: 8})
			case k < 11:
				stream = "stream=fn-repeated-members" // average(a, a, b), sum(a, a), difference(a, b, b), nested
				root = g.tree(rng.Range(2, 3), curvesTreeOpt{types: []string{configuration.FunctionSum, configuration.FunctionAverage,
					configuration.FunctionDifference, configuration.FunctionAverage, configuration.FunctionSum, configuration.FunctionDelta,
					configuration.FunctionMinimum, configuration.FunctionMaximum}, stepMode: allSteps, maxMem: 5, repeat: true})
			case k < 13:
				stream = "stream=pid"
				root = g.pid([]string{"default", "random", "neg", "random"}[rng.Intn(4)])
			case k == 13:
				stream = "stream=pid-edge" // finite but absurd gains, dt = 0: inside the property's quantifier
				root = g.pid([]string{"absurd", "random", "default"}[rng.Intn(3)])
			default:
				stream = "stream=hostile"
				hostile = true
				switch rng.Intn(5) {
				case 0:
					root = g.linMinMax(true)
				case 1:
					root = g.linSteps([]string{"empty", "hostile"}[rng.Intn(2)])
				case 2:
					root = g.pid("nonfinite")
				default:
					root = g.tree(rng.Range(2, 4), curvesTreeOpt{types: curvesFnTypes, pid: true, hostile: true, stepMode: allSteps, maxMem: 8})
				}
			}
			in := curvesIn{Nodes: g.nodes, Root: root}
			nEv := rng.Range(1, 4)
			if len(g.pidSens) > 0 {
				nEv = rng.Range(2, 6)
			}
			for e := 0; e < nEv; e++ {
				dt := curvesDtChoices[rng.Intn(len(curvesDtChoices))]
				if rng.Chance(1, 3) {
					dt = int64(rng.Range(1, 5_000_000)) * 1000
				}
				if stream == "stream=pid-edge" && rng.Chance(1, 3) || hostile && rng.Chance(1, 6) {
					dt = 0
					g.tag("dt=0")
				}
				ss := g.sens(hostile && rng.Chance(1, 3), hostile || rng.Chance(1, 10))
				if e > 0 && len(g.pidSens) > 0 && rng.Chance(1, 4) {
					ss = in.Evs[e-1].Sens // unchanged readings: error - previous error = 0
				}
				if hostile && rng.Chance(1, 15) && len(ss) > 1 && e == 0 {
					ss = ss[:len(ss)-1] // a sensor that is not registered
					g.tag("sensor-missing")
				}
				in.Evs = append(in.Evs, curvesEv{Dt: dt, Sens: ss})
			}
			if hostile && len(in.Evs) > 0 {
				// the registered sensors are those of the first call: keep the list stable
				for e := range in.Evs {
					if len(in.Evs[e].Sens) > len(in.Evs[0].Sens) {
						in.Evs[e].Sens = in.Evs[e].Sens[:len(in.Evs[0].Sens)]
					}
				}
			}
			if !hostile {
				num := 1
				if stream == "stream=fn-repeated-members" {
					num = 2
				}
				curvesDecorate(g, &in, num, 3, rng.Chance(1, 4), false)
			}
			emit(in, g.tagList(stream, "depth="+itoa(g.depthOf(root)))...)
		}
	}

	// ------------------------------------------------------------------ curvesmono (C07, curve level)
	drivers["curvesmono"] = func(ctx *Ctx) {
		caseNo := 0
		emit := func(in curvesIn, tags ...string) {
			caseNo++
			compact := true
			for _, n := range in.Nodes {
				if n.Kind == "pid" {
					compact = false
				}
			}
			obs, coq := curvesRun(ctx, in, caseNo, compact)
			strict := false
			for i := 0; i+1 < len(obs.Evs); i += 2 {
				a, b := obs.Evs[i], obs.Evs[i+1]
				if a.Kind == 0 && b.Kind == 0 {
					if a.Val < b.Val {
						strict = true
					}
					if a.Val > b.Val {
						tags = append(tags, "dip-observed")
					}
				}
			}
			ctx.Emit(Record{In: in, Obs: obs, Coq: coq, Tags: curvesUniq(tags), NonTrv: strict})
		}
		for _, raw := range append(ctx.Corpus, ctx.Replay...) {
			var in curvesIn
			if json.Unmarshal(raw, &in) == nil && len(in.Nodes) > 0 {
				emit(in, "corpus")
			}
		}
		if ctx.Replay != nil {
			return
		}
		rng := NewRng(ctx.Seed, "curvesmono")
		n := ctx.Param("n", 700)
		if !ctx.Quick() {
			n = ctx.Param("n", 12000)
		}
		monoTypes := []string{configuration.FunctionSum, configuration.FunctionMaximum, configuration.FunctionMinimum, configuration.FunctionAverage}
		for i := 0; i < n; i++ {
			nSens := rng.Range(1, 3)
			g := curvesNewGen(rng, nSens)
			var root int
			stream := ""
			switch k := i % 10; {
			case k < 2:
				stream = "stream=lin-minmax"
				root = g.linMinMax(false)
			case k < 4:
				stream = "stream=steps-int-mono"
				root = g.linSteps("int-mono")
			case k == 4:
				stream = "stream=steps-frac-mono"
				root = g.linSteps("frac-mono")
			case k < 8:
				stream = "stream=mono-tree"
				root = g.tree(rng.Range(2, 4), curvesTreeOpt{types: monoTypes, stepMode: []string{"int-mono"}, maxMem: 8})
			case k == 8:
				stream = "stream=mono-tree-frac"
				root = g.tree(rng.Range(2, 3), curvesTreeOpt{types: monoTypes, stepMode: []string{"int-mono", "frac-mono"}, maxMem: 4})
			default:
				stream = "stream=outside-class" // non-monotone steps / difference / delta: nothing demanded
				root = g.tree(rng.Range(1, 3), curvesTreeOpt{types: curvesFnTypes, stepMode: allSteps, maxMem: 4})
			}
			in := curvesIn{Nodes: g.nodes, Root: root}
			base := g.sens(false, false)
			addPair := func(a, b []curvesSens) {
				in.Evs = append(in.Evs, curvesEv{Dt: 1000, Sens: a}, curvesEv{Dt: 1000, Sens: b})
			}
			with := func(ss []curvesSens, s int, t float64) []curvesSens {
				r := append([]curvesSens{}, ss...)
				r[s] = curvesSens{Id: s, Avg: jF(t), Val: jF(t)}
				return r
			}
			// dense sweep on the 1 m° grid around breakpoints of one sensor (the others stay put)
			{
				s := rng.Intn(nSens)
				bps := g.bps[s]
				for j := 0; j < len(bps) && j < 4; j++ {
					b := float64(bps[rng.Intn(len(bps))]) * 1000
					for d := -2.0; d < 2; d++ {
						addPair(with(base, s, b+d), with(base, s, b+d+1))
					}
					// between grid points and just beside the breakpoint
					addPair(with(base, s, math.Nextafter(b, math.Inf(-1))), with(base, s, b))
					addPair(with(base, s, b), with(base, s, math.Nextafter(b, math.Inf(1))))
					// within the degree below and the degree above the breakpoint (1 m-degree grid)
					lo1, lo2 := float64(rng.Range(1, 999)), float64(rng.Range(1, 999))
					if lo1 < lo2 {
						lo1, lo2 = lo2, lo1
					}
					addPair(with(base, s, b-1000), with(base, s, b-lo1))
					addPair(with(base, s, b-lo1), with(base, s, b-lo2))
					addPair(with(base, s, b-lo2), with(base, s, b))
					up := float64(rng.Range(1, 999))
					addPair(with(base, s, b), with(base, s, b+up))
					addPair(with(base, s, b+up), with(base, s, b+1000))
				}
			}
			// random pairs (grid 1..100 m° and arbitrary floats), all sensors moving up together
			for j := 0; j < 6; j++ {
				a := g.sens(false, false)
				b := append([]curvesSens{}, a...)
				for s := range b {
					ta := pF(a[s].Avg)
					var tb float64
					switch rng.Intn(4) {
					case 0:
						tb = ta
					case 1:
						tb = ta + float64(rng.Range(1, 100))
					case 2:
						tb = ta + rng.Float01()*20000
					default:
						tb = math.Nextafter(ta, math.Inf(1))
					}
					if math.IsNaN(tb) || tb < ta {
						tb = ta
					}
					b[s] = curvesSens{Id: s, Avg: jF(tb), Val: jF(tb)}
				}
				addPair(a, b)
			}
			curvesDecorate(g, &in, 1, 3, rng.Chance(1, 3), true)
			emit(in, g.tagList(stream, "depth="+itoa(g.depthOf(root)))...)
		}
	}

	// ------------------------------------------------------------------ curvesctrl (C07, request / written)
	drivers["curvesctrl"] = func(ctx *Ctx) {
		type ctlIn struct {
			Pm [][2]int `json:"pm"`
			Lo int      `json:"lo"`
			Hi int      `json:"hi"`
		}
		type ctlObs struct {
			Req     []int `json:"req"`     // calculateTargetPwm() for curve value v = 0..255 (-1 = error/panic)
			Written []int `json:"written"` // value handed to Fan.SetPwm (-1 = none)
		}
		emit := func(in ctlIn, tags ...string) {
			curves.VerifResetCurves()
			sensors.VerifResetSensors()
			util.VerifVirtualClock = true
			p := filepath.Join(ctx.WorkDir, "ctl_sensor")
			_ = os.WriteFile(p, []byte("0\n"), 0o644)
			sn, _ := sensors.NewSensor(configuration.SensorConfig{ID: "s0", File: &configuration.FileSensorConfig{Path: p}})
			sensors.RegisterSensor(sn)
			pm := map[int]int{}
			for _, kv := range in.Pm {
				pm[kv[0]] = kv[1]
			}
			obs := ctlObs{}
			for v := 0; v <= 255; v++ {
				// a real curve whose value is v: a single step {0: v}
				cfg := configuration.CurveConfig{ID: "cv", Linear: &configuration.LinearCurveConfig{Sensor: "s0", Steps: map[int]float64{0: float64(v)}}}
				c, _ := curves.NewSpeedCurve(cfg)
				curves.RegisterSpeedCurve(c)
				fan := &RecFan{Id: "rec", MinP: in.Lo, MaxP: in.Hi}
				ctl := controller.VerifNewController(nil, fan, c, control_loop.NewDirectControlLoop(nil), 0)
				ctl.VerifSetPwmMap(pm)
				req, wr := -1, -1
				if pn := catch(func() {
					t, err := ctl.VerifCalculateTargetPwm()
					if err == nil {
						req = t
						if ctl.VerifSetPwm(t) == nil && len(fan.Writes) == 1 {
							wr = fan.Writes[0]
						}
					}
				}); pn != "" {
					req, wr = -1, -1
				}
				obs.Req = append(obs.Req, req)
				obs.Written = append(obs.Written, wr)
			}
			pairs := make([]string, len(in.Pm))
			for i, kv := range in.Pm {
				pairs[i] = "(" + cZ(kv[0]) + ", " + cZ(kv[1]) + ")"
			}
			coq := cRec("mkCase", cList(pairs), cZ(in.Lo), cZ(in.Hi), cZList(obs.Req), cZList(obs.Written))
			strict := obs.Written[0] < obs.Written[255]
			ctx.Emit(Record{In: in, Obs: obs, Coq: coq, Tags: tags, NonTrv: strict})
		}
		for _, raw := range append(ctx.Corpus, ctx.Replay...) {
			var in ctlIn
			if json.Unmarshal(raw, &in) == nil && len(in.Pm) > 0 {
				emit(in, "corpus")
			}
		}
		if ctx.Replay != nil {
			return
		}
		rng := NewRng(ctx.Seed, "curvesctrl")
		n := ctx.Param("n", 60)
		if !ctx.Quick() {
			n = ctx.Param("n", 1500)
		}
		for i := 0; i < n; i++ {
			in := ctlIn{}
			in.Lo = rng.Range(0, 120)
			in.Hi = rng.Range(in.Lo, 255)
			switch i % 8 {
			case 0:
				in.Lo, in.Hi = 0, 255
			case 1:
				in.Hi = in.Lo
			}
			tag := ""
			switch rng.Intn(5) {
			case 0:
				tag = "pm=identity"
				for k := 0; k <= 255; k++ {
					in.Pm = append(in.Pm, [2]int{k, k})
				}
			case 1:
				tag = "pm=quantiser"
				q := rng.Range(2, 64)
				for k := 0; k <= 255; k++ {
					in.Pm = append(in.Pm, [2]int{k, (k / q) * q})
				}
			case 2:
				tag = "pm=sparse-nondecreasing"
				v := 0
				for k := 0; k <= 255; k++ {
					if rng.Chance(1, 6) || len(in.Pm) == 0 && k == 255 {
						v += rng.Range(0, 40)
						if v > 255 {
							v = 255
						}
						in.Pm = append(in.Pm, [2]int{k, v})
					}
				}
			case 3:
				tag = "pm=plateaus"
				v := 0
				for k := 0; k <= 255; k++ {
					if rng.Chance(1, 20) {
						v = min(255, v+rng.Range(1, 60))
					}
					in.Pm = append(in.Pm, [2]int{k, v})
				}
			default:
				tag = "pm=non-monotone" // outside the class: nothing demanded of `written`
				for k := 0; k <= 255; k++ {
					if rng.Chance(1, 4) || len(in.Pm) == 0 && k == 255 {
						in.Pm = append(in.Pm, [2]int{k, rng.Range(0, 255)})
					}
				}
			}
			emit(in, tag, "lo<hi="+strconv.FormatBool(in.Lo < in.Hi))
		}
	}
}

func curvesUniq(xs []string) []string {
	seen := map[string]bool{}
	var res []string
	for _, x := range xs {
		if !seen[x] {
			seen[x] = true
			res = append(res, x)
		}
	}
	sort.Strings(res)
	return res
}

var _ = strings.Join
