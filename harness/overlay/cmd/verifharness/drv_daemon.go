//go:build verif

package main

import (
	"bufio"
	"encoding/gob"
	"encoding/json"
	"fmt"
	"io"
	"io/fs"
	"os"
	"os/exec"
	"path/filepath"
	"strconv"
	"strings"
	"sync"
	"syscall"
	"time"

	"github.com/markusressel/fan2go/internal"
	"github.com/markusressel/fan2go/internal/configuration"
	"github.com/markusressel/fan2go/internal/ui"
	"github.com/markusressel/fan2go/internal/util"
	"github.com/pterm/pterm"
)

// driver `daemon` (C03, C09 at process level): the harness binary re-executes
// itself in the sub-mode `daemonchild`, which calls the real internal.RunDaemon()
// with a generated configuration (hwmon fans on a fake hwmon tree through the
// gosensors stand-in, file fans, a cmd fan with a slow set script; short tick
// rates; scaled sleeps).  The parent watches the child's log for phase markers,
// sends real SIGTERM/SIGINT when a marker is seen (never after a blind sleep
// alone), and observes exit status, "panic:" on stderr and the final pwmN /
// pwmN_enable contents.
type daemonFan struct {
	Kind     string `json:"kind"` // hwmon | file | cmdslow
	Exists   bool   `json:"exists"`
	Rpm      bool   `json:"rpm"`
	OrigMode int    `json:"orig_mode"`
	OrigPwm  int    `json:"orig_pwm"`
	MaxPwm   int    `json:"max_pwm,omitempty"` // configured maxPwm (0 = not configured)
}
type daemonIn struct {
	Scn   int         `json:"scn"`
	NSig  int         `json:"nsig"`
	Sigs  []string    `json:"sigs"`   // TERM | INT per signal
	GapMs []int       `json:"gap_ms"` // pause before signal i (i >= 1), after the marker
	Fans  []daemonFan `json:"fans"`
	Scale int         `json:"scale"` // sleeps are divided by this
}
type daemonFanObs struct {
	Touched bool `json:"touched"` // the log shows a PWM write to this fan
	Began bool `json:"began"`
	Mode  int  `json:"mode"`
	Pwm   int  `json:"pwm"`
}
type daemonObs struct {
	Exit    int            `json:"exit"`
	Panic   bool           `json:"panic"`
	Fans    []daemonFanObs `json:"fans"`
	Markers []string       `json:"markers"`
	Missed  string         `json:"missed,omitempty"`
	Stderr  string         `json:"stderr,omitempty"`
	WallMs  int            `json:"wall_ms"`
}

// ---------------------------------------------------------------- child
func daemonChild(ctx *Ctx) {
	dir := ctx.Params["dir"]
	fh, err := os.Open(filepath.Join(dir, "config.gob"))
	if err != nil {
		fmt.Fprintln(os.Stderr, "daemonchild:", err)
		os.Exit(97)
	}
	var cfg configuration.Configuration
	if err := gob.NewDecoder(fh).Decode(&cfg); err != nil {
		fmt.Fprintln(os.Stderr, "daemonchild:", err)
		os.Exit(97)
	}
	fh.Close()
	configuration.CurrentConfig = cfg
	scale, _ := strconv.Atoi(ctx.Params["scale"])
	if scale <= 0 {
		scale = 1
	}
	util.VerifSleepNum, util.VerifSleepDen = 1, int64(scale)
	// faults a root process cannot provoke otherwise: <path>.fail makes reads of <path> fail
	util.VerifReadHook = func(path string) ([]byte, error, bool) {
		if _, err := os.Stat(path + ".fail"); err == nil {
			return nil, &fs.PathError{Op: "read", Path: path, Err: syscall.EIO}, true
		}
		return nil, nil, false
	}
	pterm.EnableOutput()
	pterm.DisableStyling()
	ui.SetDebugEnabled(true)
	internal.RunDaemon()
}

// ---------------------------------------------------------------- parent
const daemonSlowSet = `#!/bin/sh
# $1 = dir, $2 = name, $3 = pwm: a slow device
sleep 0.15
echo "$3" > "$1/$2.pwm"
`
const daemonGet = `#!/bin/sh
cat "$1/$2.pwm"
`

type daemonWatch struct {
	mu    sync.Mutex
	lines []string
	cond  *sync.Cond
	done  bool
}

func (w *daemonWatch) feed(r io.Reader, wg *sync.WaitGroup) {
	defer wg.Done()
	sc := bufio.NewScanner(r)
	sc.Buffer(make([]byte, 1<<16), 1<<22)
	for sc.Scan() {
		w.mu.Lock()
		w.lines = append(w.lines, sc.Text())
		w.cond.Broadcast()
		w.mu.Unlock()
	}
}

// waitFor blocks until pred(lines) holds, the process output ended, or the deadline passed.
func (w *daemonWatch) waitFor(pred func(lines []string) bool, d time.Duration) bool {
	deadline := time.Now().Add(d)
	stop := make(chan struct{})
	go func() {
		t := time.NewTicker(20 * time.Millisecond)
		defer t.Stop()
		for {
			select {
			case <-stop:
				return
			case <-t.C:
				w.mu.Lock()
				w.cond.Broadcast()
				w.mu.Unlock()
			}
		}
	}()
	defer close(stop)
	w.mu.Lock()
	defer w.mu.Unlock()
	for {
		if pred(w.lines) {
			return true
		}
		if w.done || time.Now().After(deadline) {
			return false
		}
		w.cond.Wait()
	}
}

func daemonCount(lines []string, sub string) int {
	n := 0
	for _, l := range lines {
		if strings.Contains(l, sub) {
			n++
		}
	}
	return n
}

// a control cycle of fan id ran: a "Setting PWM of <id> to" line after its "Starting controller loop" line
func daemonTicking(lines []string, id string, min int) bool {
	started := false
	n := 0
	for _, l := range lines {
		if strings.Contains(l, "Starting controller loop for fan '"+id+"'") {
			started = true
		} else if started && strings.Contains(l, "Setting PWM of "+id+" to") {
			n++
		}
	}
	return n >= min
}

func daemonReadInt(p string, def int) int {
	b, err := os.ReadFile(p)
	if err != nil {
		return def
	}
	n, err := strconv.Atoi(strings.TrimSpace(string(b)))
	if err != nil {
		return def
	}
	return n
}

func daemonPrepare(ctx *Ctx, seq int) {
	dir := filepath.Join(ctx.WorkDir, "daemon", strconv.Itoa(seq))
	os.RemoveAll(dir)
	os.MkdirAll(dir, 0755)
	os.WriteFile(filepath.Join(dir, "slowset.sh"), []byte(daemonSlowSet), 0755)
	os.WriteFile(filepath.Join(dir, "get.sh"), []byte(daemonGet), 0755)
}

func daemonRun(ctx *Ctx, seq int, in daemonIn) (daemonObs, string, []string) {
	t0 := time.Now()
	dir := filepath.Join(ctx.WorkDir, "daemon", strconv.Itoa(seq))
	os.MkdirAll(filepath.Join(dir, "hw", "chip0"), 0755)
	if r, err := filepath.EvalSymlinks(dir); err == nil {
		dir = r
	}
	chip := filepath.Join(dir, "hw", "chip0")
	os.WriteFile(filepath.Join(chip, "name"), []byte("testchip\n"), 0644)
	os.WriteFile(filepath.Join(chip, "temp1_input"), []byte("52000\n"), 0644)
	os.WriteFile(filepath.Join(dir, "temp_lin"), []byte("61000\n"), 0644)
	os.WriteFile(filepath.Join(dir, "temp_pid"), []byte("58000\n"), 0644)
	// the scripts were written by daemonPrepare before any worker forked (ETXTBSY)

	cfg := configuration.Configuration{
		DbPath:                         filepath.Join(dir, "fan2go.db"),
		RunFanInitializationInParallel: true,
		MaxRpmDiffForSettledFan:        20,
		FanResponseDelay:               2,
		TempSensorPollingRate:          15 * time.Millisecond,
		TempRollingWindowSize:          4,
		RpmPollingRate:                 25 * time.Millisecond,
		RpmRollingWindowSize:           4,
		ControllerAdjustmentTickRate:   30 * time.Millisecond,
	}
	cfg.Sensors = []configuration.SensorConfig{
		{ID: "s_lin", File: &configuration.FileSensorConfig{Path: filepath.Join(dir, "temp_lin")}},
		{ID: "s_pid", File: &configuration.FileSensorConfig{Path: filepath.Join(dir, "temp_pid")}},
		{ID: "s_hw", HwMon: &configuration.HwMonSensorConfig{Platform: "testchip", Index: 1}},
	}
	cfg.Curves = []configuration.CurveConfig{
		{ID: "c_lin", Linear: &configuration.LinearCurveConfig{Sensor: "s_lin", Min: 30, Max: 90}},
		{ID: "c_hw", Linear: &configuration.LinearCurveConfig{Sensor: "s_hw", Min: 30, Max: 90}},
		{ID: "c_pid", PID: &configuration.PidCurveConfig{Sensor: "s_pid", SetPoint: 50, P: -0.05, I: -0.005, D: -0.005}},
		{ID: "c_max", Function: &configuration.FunctionCurveConfig{Type: configuration.FunctionMaximum, Curves: []string{"c_lin", "c_hw"}}},
	}
	type paths struct{ pwm, en string }
	ps := make([]paths, len(in.Fans))
	ids := make([]string, len(in.Fans))
	small := map[int]int{0: 0, 128: 128, 255: 255}
	hw := 0
	for i, f := range in.Fans {
		id := fmt.Sprintf("fan%d", i)
		ids[i] = id
		curve := []string{"c_lin", "c_hw", "c_max"}[i%3]
		if (in.Scn == 6 || in.Scn == 7) && i == 0 {
			curve = "c_pid"
		}
		fc := configuration.FanConfig{ID: id, Curve: curve,
			ControlAlgorithm: &configuration.ControlAlgorithmConfig{Direct: &configuration.DirectControlAlgorithmConfig{}}}
		if f.MaxPwm > 0 {
			v := f.MaxPwm
			fc.MaxPwm = &v
		}
		switch f.Kind {
		case "hwmon":
			hw++
			ps[i] = paths{filepath.Join(chip, fmt.Sprintf("pwm%d", hw)), filepath.Join(chip, fmt.Sprintf("pwm%d_enable", hw))}
			os.WriteFile(filepath.Join(chip, fmt.Sprintf("fan%d_input", hw)), []byte("1200\n"), 0644)
			os.WriteFile(ps[i].pwm, []byte(strconv.Itoa(f.OrigPwm)), 0644)
			if f.Exists {
				os.WriteFile(ps[i].en, []byte(strconv.Itoa(f.OrigMode)), 0644)
			}
			pm := small
			fc.PwmMap = &pm
			fc.HwMon = &configuration.HwMonFanConfig{Platform: "testchip", RpmChannel: hw, PwmChannel: hw}
		case "file":
			ps[i] = paths{filepath.Join(dir, id+".pwm"), ""}
			os.WriteFile(ps[i].pwm, []byte(strconv.Itoa(f.OrigPwm)), 0644)
			fc.File = &configuration.FileFanConfig{Path: ps[i].pwm}
			if f.Rpm {
				os.WriteFile(filepath.Join(dir, id+".rpm"), []byte("900\n"), 0644)
				fc.File.RpmPath = filepath.Join(dir, id+".rpm")
			}
			pm := small
			fc.PwmMap = &pm
		default: // cmdslow
			ps[i] = paths{filepath.Join(dir, id+".pwm"), ""}
			os.WriteFile(ps[i].pwm, []byte(strconv.Itoa(f.OrigPwm)), 0644)
			pm := small
			fc.PwmMap = &pm
			fc.Cmd = &configuration.CmdFanConfig{
				SetPwm: &configuration.ExecConfig{Exec: filepath.Join(dir, "slowset.sh"), Args: []string{dir, id, "%pwm%"}},
				GetPwm: &configuration.ExecConfig{Exec: filepath.Join(dir, "get.sh"), Args: []string{dir, id}},
			}
		}
		cfg.Fans = append(cfg.Fans, fc)
	}
	if fh, err := os.Create(filepath.Join(dir, "config.gob")); err == nil {
		if err := gob.NewEncoder(fh).Encode(cfg); err != nil {
			panic(err)
		}
		fh.Close()
	}

	cmd := exec.Command(os.Args[0], "daemonchild", "dir="+dir, "scale="+strconv.Itoa(in.Scale))
	env := []string{"VERIF_HWMON_ROOT=" + filepath.Join(dir, "hw"), "PATH=" + os.Getenv("PATH"), "HOME=" + dir}
	cmd.Env = env
	cmd.Dir = dir
	stdout, _ := cmd.StdoutPipe()
	stderr, _ := cmd.StderrPipe()
	w := &daemonWatch{}
	w.cond = sync.NewCond(&w.mu)
	var errBuf strings.Builder
	var obs daemonObs
	if err := cmd.Start(); err != nil {
		obs.Exit, obs.Missed = 3, "start: "+err.Error()
		return obs, "", nil
	}
	var wg sync.WaitGroup
	wg.Add(2)
	go w.feed(stdout, &wg)
	go func() {
		defer wg.Done()
		b, _ := io.ReadAll(stderr)
		errBuf.Write(b)
	}()
	exited := make(chan struct{})
	var waitErr error
	go func() {
		wg.Wait()
		waitErr = cmd.Wait()
		w.mu.Lock()
		w.done = true
		w.cond.Broadcast()
		w.mu.Unlock()
		close(exited)
	}()
	mark := func(name string, ok bool) bool {
		if ok {
			obs.Markers = append(obs.Markers, name)
		} else if obs.Missed == "" {
			obs.Missed = name
		}
		return ok
	}
	sendSignals := func(from int) {
		for i := from; i < in.NSig; i++ {
			if i > 0 && i < len(in.GapMs) && in.GapMs[i] > 0 {
				time.Sleep(time.Duration(in.GapMs[i]) * time.Millisecond)
			}
			s := syscall.SIGTERM
			if i < len(in.Sigs) && in.Sigs[i] == "INT" {
				s = syscall.SIGINT
			}
			_ = syscall.Kill(cmd.Process.Pid, s)
		}
	}
	long := 25 * time.Second
	if in.Scn == 8 {
		long = 70 * time.Second // the analysis of the fan runs in real time
	}
	n := len(in.Fans)
	allTicking := func(except int) func([]string) bool {
		return func(l []string) bool {
			for i, id := range ids {
				if i != except && !daemonTicking(l, id, 1) {
					return false
				}
			}
			return true
		}
	}
	switch in.Scn {
	case 1:
		if mark("all-ticking", w.waitFor(allTicking(-1), long)) {
			sendSignals(0)
		}
	case 2:
		if mark("all-gathering", w.waitFor(func(l []string) bool { return daemonCount(l, "Gathering sensor data for") >= n }, long)) {
			sendSignals(0)
		}
	case 3:
		if mark("last-loop-start", w.waitFor(func(l []string) bool { return daemonCount(l, "Starting controller loop for fan") >= n }, long)) {
			sendSignals(0)
		}
	case 4:
		if mark("all-ticking", w.waitFor(allTicking(-1), long)) {
			_ = syscall.Kill(cmd.Process.Pid, syscall.SIGTERM)
			if mark("restoring", w.waitFor(func(l []string) bool { return daemonCount(l, "Trying to restore fan settings for "+ids[0]) >= 1 }, long)) {
				sendSignals(1)
			}
		}
	case 5:
		k := n - 1
		ok := w.waitFor(func(l []string) bool {
			return allTicking(k)(l) && daemonCount(l, "Fan "+ids[k]+" has settled") >= 1
		}, long)
		if mark("others-ticking+init-running", ok) {
			// the RPM sensor of the fan under initialisation disappears
			os.WriteFile(filepath.Join(chip, fmt.Sprintf("fan%d_input.fail", hw)), []byte("x"), 0644)
			obs.Markers = append(obs.Markers, "rpm-fault-injected")
		}
	case 8:
		// a fan that has not been analysed yet: the signal arrives when its initialization sequence starts measuring;
		// the controller does not look at the context before its control loop, so the process lives on until the
		// analysis is complete (unscaled sleeps: well over 10 s) and must hand the fan back then
		if mark("initialization-started", w.waitFor(func(l []string) bool { return daemonCount(l, "Measuring RPM curve") >= 1 }, long)) {
			sendSignals(0)
		}
	case 6, 7:
		if mark("all-ticking", w.waitFor(allTicking(-1), long)) {
			os.WriteFile(filepath.Join(dir, "temp_pid.fail"), []byte("x"), 0644)
			if mark("fan0-restoring", w.waitFor(func(l []string) bool { return daemonCount(l, "Trying to restore fan settings for "+ids[0]) >= 1 }, long)) && in.Scn == 7 {
				// the other fan must still be regulating afterwards
				base := 0
				w.mu.Lock()
				base = len(w.lines)
				w.mu.Unlock()
				still := w.waitFor(func(l []string) bool {
					if len(l) <= base {
						return false
					}
					return daemonCount(l[base:], "Setting PWM of "+ids[1]+" to") >= 2
				}, long)
				if mark("fan1-still-regulating", still) {
					sendSignals(0)
				}
			}
		}
	}
	select {
	case <-exited:
	case <-time.After(long):
		_ = cmd.Process.Kill()
		<-exited
		obs.Exit = 3
		if obs.Missed == "" {
			obs.Missed = "exit"
		}
	}
	if obs.Exit != 3 {
		if waitErr == nil {
			obs.Exit = 0
		} else if ee, ok := waitErr.(*exec.ExitError); ok && ee.ExitCode() >= 0 {
			obs.Exit = ee.ExitCode()
		} else {
			obs.Exit = 3
		}
	}
	se := errBuf.String()
	w.mu.Lock()
	all := strings.Join(w.lines, "\n")
	lines := append([]string{}, w.lines...)
	w.mu.Unlock()
	obs.Panic = strings.Contains(se, "panic:") || strings.Contains(se, "fatal error:") || strings.Contains(all, "panic:")
	if obs.Panic || obs.Exit > 1 {
		if len(se) > 600 {
			se = se[:600]
		}
		obs.Stderr = se
	}
	for i, f := range in.Fans {
		fo := daemonFanObs{Began: daemonCount(lines, "Starting controller loop for fan '"+ids[i]+"'") >= 1,
			Pwm: daemonReadInt(ps[i].pwm, -999), Mode: f.OrigMode,
			Touched: daemonCount(lines, "Setting PWM of "+ids[i]+" to") >= 1 || daemonCount(lines, "Setting Fan PWM of '"+ids[i]+"'") >= 1}
		if f.Kind == "hwmon" && f.Exists {
			fo.Mode = daemonReadInt(ps[i].en, -999)
		}
		obs.Fans = append(obs.Fans, fo)
	}
	obs.WallMs = int(time.Since(t0) / time.Millisecond)
	if ctx.Params["keepdirs"] == "" {
		os.RemoveAll(dir)
	}
	// ---- Coq term ----
	fl := make([]string, len(in.Fans))
	for i, f := range in.Fans {
		b := map[string]string{"hwmon": "BHwmon", "file": "BFile", "cmdslow": "BCmd"}[f.Kind]
		rpm := f.Rpm || f.Kind == "hwmon"
		fl[i] = cRec("mkFanObs", b, cBool(f.Kind == "hwmon" && f.Exists), cBool(rpm),
			"(mkDev "+cZ(f.OrigMode)+" "+cZ(f.OrigPwm)+")", cBool(obs.Fans[i].Began),
			"(mkDev "+cZ(obs.Fans[i].Mode)+" "+cZ(obs.Fans[i].Pwm)+")", cBool(obs.Fans[i].Touched))
	}
	coq := cRec("mkCase", cList(fl), "3", cZ(in.Scn), cZ(in.NSig), cZ(obs.Exit), cBool(obs.Panic))
	tags := []string{fmt.Sprintf("scn=%d", in.Scn), fmt.Sprintf("nsig=%d", in.NSig), fmt.Sprintf("exit=%d", obs.Exit)}
	for _, f := range in.Fans {
		tags = append(tags, "fan="+f.Kind)
		if f.MaxPwm > 0 {
			tags = append(tags, "maxpwm-configured")
		}
	}
	if obs.Missed != "" {
		tags = append(tags, "marker-missed="+obs.Missed)
	}
	return obs, coq, tags
}

func daemonGen(rng *Rng, scn int) daemonIn {
	in := daemonIn{Scn: scn, Scale: 20}
	hwf := func() daemonFan {
		f := daemonFan{Kind: "hwmon", Exists: !rng.Chance(1, 5), Rpm: true, OrigMode: rng.Pick([]int{2, 2, 2, 0, 1, 5}), OrigPwm: rng.Pick([]int{0, 77, 120, 255})}
		if rng.Chance(1, 2) {
			f.MaxPwm = 200 // a configured maxPwm must not cap the last-resort write of the restore
		}
		return f
	}
	filef := func(rpm bool) daemonFan {
		return daemonFan{Kind: "file", Rpm: rpm, OrigMode: 1, OrigPwm: rng.Pick([]int{0, 60, 200})}
	}
	slow := daemonFan{Kind: "cmdslow", OrigMode: 1, OrigPwm: 40}
	switch scn {
	case 8:
		in.Scale = 1
		h := hwf()
		h.Exists, h.OrigMode, h.MaxPwm = true, rng.Pick([]int{2, 2, 5}), 0
		in.Fans = []daemonFan{h}
		if rng.Bool() {
			in.Fans = []daemonFan{filef(rng.Bool()), h}
		}
	case 4:
		in.Fans = []daemonFan{slow, hwf()}
	case 5:
		in.Fans = []daemonFan{filef(rng.Bool()), hwf()}
		if rng.Bool() {
			in.Fans = append([]daemonFan{filef(true)}, in.Fans...)
		}
	case 6:
		in.Fans = []daemonFan{filef(false), hwf()}
	case 7:
		f0 := filef(true)
		if rng.Bool() {
			f0 = hwf()
		}
		in.Fans = []daemonFan{f0, hwf()}
	default:
		switch rng.Intn(4) {
		case 0:
			in.Fans = []daemonFan{hwf(), filef(rng.Bool())}
		case 1:
			in.Fans = []daemonFan{hwf(), hwf()}
		case 2:
			in.Fans = []daemonFan{filef(true), hwf(), filef(false)}
		default:
			in.Fans = []daemonFan{hwf()}
		}
	}
	switch scn {
	case 8:
		in.NSig = 1
	case 5, 6:
		in.NSig = 0
	case 4:
		in.NSig = rng.Range(2, 3)
	default:
		in.NSig = rng.Range(1, 3)
	}
	for i := 0; i < in.NSig; i++ {
		in.Sigs = append(in.Sigs, []string{"TERM", "INT"}[rng.Intn(2)])
		in.GapMs = append(in.GapMs, rng.Pick([]int{0, 1, 5, 20, 60}))
	}
	return in
}

func init() {
	drivers["daemonchild"] = daemonChild
	drivers["daemon"] = func(ctx *Ctx) {
		var jobs []daemonIn
		var jtags [][]string
		for _, raw := range append(ctx.Corpus, ctx.Replay...) {
			var in daemonIn
			if json.Unmarshal(raw, &in) == nil && in.Scn != 0 {
				jobs = append(jobs, in)
				jtags = append(jtags, []string{"corpus"})
			}
		}
		if ctx.Replay == nil {
			rng := NewRng(ctx.Seed, "daemon")
			n := ctx.Param("n", 24)
			if !ctx.Quick() {
				n = ctx.Param("n", 400)
			}
			mix := []int{1, 4, 5, 6, 7, 2, 3, 1, 4, 5, 7, 6, 1, 2, 3, 4}
			// the long cases first, so that they run concurrently with all the short ones
			nLong := ctx.Param("long", 1)
			if !ctx.Quick() {
				nLong = ctx.Param("long", 4)
			}
			for i := 0; i < nLong; i++ {
				jobs = append(jobs, daemonGen(rng, 8))
				jtags = append(jtags, []string{"generated", "signal-during-analysis"})
			}
			for i := 0; i < n; i++ {
				jobs = append(jobs, daemonGen(rng, mix[i%len(mix)]))
				jtags = append(jtags, []string{"generated"})
			}
		}
		type result struct {
			obs  daemonObs
			coq  string
			tags []string
		}
		results := make([]result, len(jobs))
		for i := range jobs {
			daemonPrepare(ctx, i)
		}
		workers := ctx.Param("workers", 12)
		var wg sync.WaitGroup
		ch := make(chan int)
		for k := 0; k < workers; k++ {
			wg.Add(1)
			go func() {
				defer wg.Done()
				for i := range ch {
					o, c, t := daemonRun(ctx, i, jobs[i])
					results[i] = result{o, c, append(t, jtags[i]...)}
				}
			}()
		}
		for i := range jobs {
			ch <- i
		}
		close(ch)
		wg.Wait()
		for i, r := range results {
			if r.coq == "" {
				continue
			}
			ctx.Emit(Record{In: jobs[i], Obs: r.obs, Coq: r.coq, Tags: r.tags, NonTrv: true})
		}
	}
}
