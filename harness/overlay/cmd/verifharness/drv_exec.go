//go:build verif

package main

import (
	"encoding/json"
	"fmt"
	"os"
	"path/filepath"
	"strconv"
	"strings"
	"sync"
	"syscall"
	"time"

	"github.com/markusressel/fan2go/internal/configuration"
	"github.com/markusressel/fan2go/internal/fans"
	"github.com/markusressel/fan2go/internal/sensors"
	"github.com/markusressel/fan2go/internal/ui"
	"github.com/markusressel/fan2go/internal/util"
)

// driver `exec` (C19): the real util.SafeCmdExecution, CmdSensor.GetValue and
// CmdFan.{GetPwm,SetPwm,GetRpm} on root-owned scripts, one per failure mode of
// the property; wall clock measured around the call; panics recovered.
type execIn struct {
	Api  int    `json:"api"` // 0 SafeCmdExecution 1 CmdSensor.GetValue 2 CmdFan.GetPwm 3 CmdFan.SetPwm 4 CmdFan.GetRpm
	T    int    `json:"t"`   // api 0: timeout in ms (api 1..4 use the constant of the source)
	Kind string `json:"kind"`
	// exit | signal | sleepexec | sleepchild | trapsleep | flood | grandchild | noexec | badformat | textnoshebang |
	// nointerp | isdir | vanish | statloop | owner | groupwrite | otherwrite | missing
	Code   int      `json:"code,omitempty"`   // exit status
	Sig    int      `json:"sig,omitempty"`    // signal number the script sends itself
	Sleep  int      `json:"sleep,omitempty"`  // ms the script itself runs before it ends
	Hold   int      `json:"hold,omitempty"`   // ms a background descendant keeps the pipe(s) open
	HoldFd string   `json:"holdfd,omitempty"` // "both" (default) | "stdout" | "stderr" | "none" (descendant with both redirected)
	Out    [][2]int `json:"out,omitempty"`    // stdout of the script, run-length encoded bytes
	ErrOut int      `json:"errout,omitempty"` // bytes written to stderr
	ErrTxt [][2]int `json:"errtxt,omitempty"` // text written to stderr, run-length encoded bytes
}

type execObs struct {
	Class   string   `json:"class"` // text float int unit err panic
	Text    [][2]int `json:"text,omitempty"`
	Val     string   `json:"val,omitempty"`
	Ms      int      `json:"ms"`
	Msg     string   `json:"msg,omitempty"`
	HookHit int      `json:"hook,omitempty"`
	Retried int      `json:"retried_after_ms,omitempty"` // wall clock of a first attempt that exceeded the bound
}

func execRLE(b []byte) [][2]int {
	var res [][2]int
	for i := 0; i < len(b); {
		j := i
		for j < len(b) && b[j] == b[i] {
			j++
		}
		res = append(res, [2]int{int(b[i]), j - i})
		i = j
	}
	return res
}

func execExpand(runs [][2]int) []byte {
	n := 0
	for _, r := range runs {
		n += r[1]
	}
	out := make([]byte, 0, n)
	for _, r := range runs {
		for i := 0; i < r[1]; i++ {
			out = append(out, byte(r[0]))
		}
	}
	return out
}

func execCoqText(runs [][2]int) string {
	s := make([]string, len(runs))
	for i, r := range runs {
		s[i] = "(" + cZ(r[0]) + ", " + cZ(r[1]) + ")"
	}
	return cList(s)
}

// shell fragment printing the run-length encoded bytes to stdout
func execPrintCmd(runs [][2]int) string {
	var sb strings.Builder
	for _, r := range runs {
		esc := fmt.Sprintf("\\%03o", r[0])
		if r[1] <= 64 {
			sb.WriteString("printf '" + strings.Repeat(esc, r[1]) + "'\n")
		} else {
			sb.WriteString("head -c " + itoa(r[1]) + " /dev/zero | tr '\\000' '" + esc + "'\n")
		}
	}
	return sb.String()
}

func execSecs(ms int) string { return fmt.Sprintf("%d.%03d", ms/1000, ms%1000) }

// returns the Coq behaviour term, the check code, and prepares the file
func execPrepare(dir string, in execIn) (path string, beh string, ck int, cleanup func(), hook *int) {
	path = filepath.Join(dir, "cmd")
	cleanup = func() {}
	must := func(err error) {
		if err != nil {
			panic(fmt.Sprintf("exec driver: %v", err))
		}
	}
	write := func(content string, mode uint32) {
		must(os.WriteFile(path, []byte(content), 0o600))
		must(os.Chown(path, 0, 0))
		must(syscall.Chmod(path, mode))
	}
	proc := func(exit string, exitAt string, held string) string {
		return cRec("Starts", cRec("mkProc", exit, exitAt, execCoqText(in.Out), held))
	}
	at := func(ms int) string { return cRec("At", cZ(ms)) }
	head := "#!/bin/sh\n" + execPrintCmd(in.Out)
	if len(in.ErrTxt) > 0 {
		for _, line := range strings.Split(strings.TrimSuffix(execPrintCmd(in.ErrTxt), "\n"), "\n") {
			head += line + " >&2\n"
		}
	}
	if in.ErrOut > 0 {
		head += "head -c " + itoa(in.ErrOut) + " /dev/zero | tr '\\000' 'e' >&2\n"
	}
	sleepLine := ""
	if in.Sleep > 0 {
		// the shell's own `sleep` child ends before the shell continues
		sleepLine = "sleep " + execSecs(in.Sleep) + "\n"
	}
	switch in.Kind {
	case "exit":
		write(head+sleepLine+"exit "+itoa(in.Code)+"\n", 0o755)
		beh = proc(cRec("ExitCode", cZ(in.Code)), at(in.Sleep), at(in.Sleep))
	case "signal":
		write(head+sleepLine+"kill -"+itoa(in.Sig)+" $$\nsleep 5\n", 0o755)
		beh = proc(cRec("KilledBy", cZ(in.Sig)), at(in.Sleep), at(in.Sleep))
	case "sleepexec": // the child itself sleeps (no descendant)
		write(head+"exec sleep "+execSecs(in.Sleep)+"\n", 0o755)
		beh = proc(cRec("ExitCode", "0"), at(in.Sleep), at(0))
	case "sleepchild": // the shell waits for an ordinary foreground child, which inherits the pipes
		write(head+"sleep "+execSecs(in.Sleep)+"\nexit 0\n", 0o755)
		beh = proc(cRec("ExitCode", "0"), at(in.Sleep), at(in.Sleep))
	case "trapsleep": // ignores TERM/INT/HUP; only SIGKILL ends it
		write("#!/bin/sh\ntrap '' TERM INT HUP\n"+execPrintCmd(in.Out)+"exec sleep "+execSecs(in.Sleep)+"\n", 0o755)
		beh = proc(cRec("ExitCode", "0"), at(in.Sleep), at(0))
	case "moded": // behaviour chosen per call by the content of <path>.mode (driver exechist): ok | fail | garbage | sleep
		write("#!/bin/sh\ncase \"$(cat "+path+".mode 2>/dev/null)\" in\nfail) exit 1;;\ngarbage) echo abc;;\nsleep) exec sleep "+execSecs(in.Sleep)+";;\n*) echo 42;;\nesac\n", 0o755)
		in.Out = execRLE([]byte("42\n"))
		beh = proc(cRec("ExitCode", "0"), at(0), at(0))
	case "flood": // prints until killed (shell builtins only: no descendant)
		write("#!/bin/sh\nwhile :; do echo 1234567890; done\n", 0o755)
		in.Out = nil
		beh = cRec("Starts", cRec("mkProc", cRec("ExitCode", "0"), "Never", "[]", at(0)))
	case "grandchild":
		redir := ""
		switch in.HoldFd {
		case "stdout":
			redir = " 2>/dev/null"
		case "stderr":
			redir = " >/dev/null"
		case "none":
			redir = " >/dev/null 2>&1"
		}
		write(head+"sleep "+execSecs(in.Hold)+redir+" &\n"+sleepLine+"exit "+itoa(in.Code)+"\n", 0o755)
		// the shell's foreground `sleep` (if any) also inherits the pipes and survives a kill of the shell
		h := in.Hold
		if in.HoldFd == "none" {
			h = 0
		}
		if in.Sleep > h {
			h = in.Sleep
		}
		held := at(h)
		beh = proc(cRec("ExitCode", cZ(in.Code)), at(in.Sleep), held)
	case "txtbusy": // another process has the (root-owned, executable) script open for writing when it is started
		write(head+"exit 0\n", 0o755)
		fd, ferr := os.OpenFile(path, os.O_WRONLY, 0) // O_CLOEXEC: stays in the harness process only
		must(ferr)
		cleanup = func() { fd.Close() }
		beh = "(CannotStart SfTextBusy)"
	case "noexec":
		write(head+"exit 0\n", 0o644)
		beh = "(CannotStart SfNoExecBit)"
	case "badformat":
		write("\x00\x01\x02\x03 not an executable \xff\xfe", 0o755)
		beh = "(CannotStart SfBadFormat)"
	case "textnoshebang":
		write("echo 42\n", 0o755)
		beh = "(CannotStart SfBadFormat)"
	case "nointerp":
		write("#!/nonexistent/interpreter\necho 42\n", 0o755)
		beh = "(CannotStart SfNoInterp)"
	case "isdir":
		must(os.Mkdir(path, 0o755))
		beh = "(CannotStart SfIsDir)"
	case "vanish": // removed by another process right after the check stat'ed it
		write(head+"exit 0\n", 0o755)
		hook = util.VerifSetStatAction(path, func(p string, real func(string) (os.FileInfo, error)) (os.FileInfo, error) {
			fi, err := real(p)
			os.Remove(p)
			return fi, err
		})
		cleanup = func() { util.VerifClearStatAction(path) }
		beh = "(CannotStart SfVanished)"
	case "statloop": // replaced by a self-referencing link between EvalSymlinks and Stat
		write(head+"exit 0\n", 0o755)
		hook = util.VerifSetStatAction(path, func(p string, real func(string) (os.FileInfo, error)) (os.FileInfo, error) {
			os.Remove(p)
			_ = os.Symlink(p, p)
			return real(p)
		})
		cleanup = func() { util.VerifClearStatAction(path) }
		beh = proc(cRec("ExitCode", "0"), at(0), at(0))
		ck = 3
	case "statgone": // removed between EvalSymlinks and Stat
		write(head+"exit 0\n", 0o755)
		hook = util.VerifSetStatAction(path, func(p string, real func(string) (os.FileInfo, error)) (os.FileInfo, error) {
			os.Remove(p)
			return real(p)
		})
		cleanup = func() { util.VerifClearStatAction(path) }
		beh = proc(cRec("ExitCode", "0"), at(0), at(0))
		ck = 2
	case "owner":
		write(head+"exit 0\n", 0o755)
		must(os.Chown(path, 4242, 0))
		beh = proc(cRec("ExitCode", "0"), at(0), at(0))
		ck = 4
	case "groupwrite":
		write(head+"exit 0\n", 0o775)
		must(os.Chown(path, 0, 4242))
		must(syscall.Chmod(path, 0o775))
		beh = proc(cRec("ExitCode", "0"), at(0), at(0))
		ck = 5
	case "otherwrite":
		write(head+"exit 0\n", 0o757)
		beh = proc(cRec("ExitCode", "0"), at(0), at(0))
		ck = 6
	case "missing":
		beh = proc(cRec("ExitCode", "0"), at(0), at(0))
		ck = 1
	default:
		panic("exec driver: unknown kind " + in.Kind)
	}
	return
}

// execPrepared: scripts are all written BEFORE any command is started: a fork while a script is still open for
// writing would let the child inherit the descriptor and make execve fail with ETXTBSY (golang/go#22315).
type execPrepared struct {
	path, beh string
	ck        int
	cleanup   func()
	hook      *int
	// optional extra liveness check evaluated right after the call (driver exechist: the concurrent logger)
	extraHang func() string
	// driver exechist: the ONE CmdSensor / CmdFan object all calls of a history go through (nil: a fresh one per call)
	sensorObj *sensors.CmdSensor
	fanObj    *fans.CmdFan
}

func execPrep(workDir string, n int, in execIn) execPrepared {
	dir := filepath.Join(workDir, "e"+itoa(n))
	os.RemoveAll(dir)
	if err := os.MkdirAll(dir, 0o755); err != nil {
		panic(err)
	}
	path, beh, ck, cleanup, hook := execPrepare(dir, in)
	return execPrepared{path: path, beh: beh, ck: ck, cleanup: cleanup, hook: hook}
}

// execRun: one real call. When the wall clock exceeds the property's bound the call is repeated once on the same
// script and the second observation is the one reported (a hang reproduces, scheduling noise on a loaded machine
// does not); kinds that consume their file (vanish, statloop, statgone) return at once and are never repeated.
func execRun(pr execPrepared, in execIn) (execObs, string) {
	defer pr.cleanup()
	obs, coq := execRunOnce(pr, in)
	limit := 2000 + 600
	if in.Api == 0 {
		limit = in.T + 600
	}
	if obs.Ms > limit && pr.hook == nil && obs.Class != "hang" {
		first := obs.Ms
		obs, coq = execRunOnce(pr, in)
		obs.Retried = first
	}
	return obs, coq
}

// execWatchdogMs: well beyond every bound of the property and beyond what the pinned (unrepaired) code needs for
// the longest lingering descendant of the generated cases
func execWatchdogMs(in execIn) int {
	w := 2000
	if in.Api == 0 {
		w = in.T
	}
	longest := in.Sleep
	if in.Hold > longest {
		longest = in.Hold
	}
	return 3*w + longest + 3000
}

func execRunOnce(pr execPrepared, in execIn) (execObs, string) {
	path, beh, ck, hook := pr.path, pr.beh, pr.ck, pr.hook
	var obs execObs
	var text string
	var fval float64
	var ival int
	var err error
	// the call runs under a watchdog: a call that is still blocked long after every bound of the property is
	// recorded as a hang (the goroutine is abandoned) instead of stalling the driver
	watchdog := time.Duration(execWatchdogMs(in)) * time.Millisecond
	var sensorAfter *sensors.CmdSensor
	t0 := time.Now()
	done := make(chan string, 1)
	go func() {
		done <- catch(func() {
			switch in.Api {
			case 0:
				text, err = util.SafeCmdExecution(path, []string{"a", "b"}, time.Duration(in.T)*time.Millisecond)
			case 1:
				s := pr.sensorObj
				if s == nil {
					s = &sensors.CmdSensor{Config: configuration.SensorConfig{ID: "s", Cmd: &configuration.CmdSensorConfig{Exec: path}}}
				}
				sensorAfter = s
				fval, err = s.GetValue()
			default:
				f := pr.fanObj
				if f == nil {
					f = &fans.CmdFan{Config: configuration.FanConfig{ID: "f", Cmd: &configuration.CmdFanConfig{
						SetPwm: &configuration.ExecConfig{Exec: path, Args: []string{"%pwm%"}},
						GetPwm: &configuration.ExecConfig{Exec: path},
						GetRpm: &configuration.ExecConfig{Exec: path},
					}}}
				}
				switch in.Api {
				case 2:
					ival, err = f.GetPwm()
				case 3:
					err = f.SetPwm(77)
				default:
					ival, err = f.GetRpm()
				}
			}
		})
	}()
	pn := ""
	hung := false
	select {
	case pn = <-done:
	case <-time.After(watchdog):
		hung = true
	}
	obs.Ms = int(time.Since(t0) / time.Millisecond)
	if !hung && pn == "" && sensorAfter != nil {
		// what the sensor monitor does next with the same sensor object must not block either
		d2 := make(chan struct{}, 1)
		go func() { sensorAfter.SetMovingAvg(1); _ = sensorAfter.GetMovingAvg(); d2 <- struct{}{} }()
		select {
		case <-d2:
		case <-time.After(time.Second):
			hung = true
			obs.Ms = int(time.Since(t0) / time.Millisecond)
		}
	}
	if !hung && pn == "" {
		// ... and neither may the daemon's logger (every goroutine of fan2go logs through internal/ui)
		d3 := make(chan struct{}, 1)
		go func() { ui.Warning("verif: logger probe after %s", path); d3 <- struct{}{} }()
		select {
		case <-d3:
		case <-time.After(time.Second):
			hung = true
			obs.Msg = "internal/ui logger blocked after the call"
			obs.Ms = int(time.Since(t0) / time.Millisecond)
		}
	}
	if !hung && pn == "" && pr.extraHang != nil {
		if m := pr.extraHang(); m != "" {
			hung = true
			obs.Msg = m
		}
	}
	if hook != nil {
		obs.HookHit = *hook
	}
	res := ""
	switch {
	case hung:
		obs.Class, res = "hang", "OHang"
	case pn != "":
		obs.Class, obs.Msg, res = "panic", pn, "OPanic"
	case err != nil:
		obs.Class, obs.Msg, res = "err", err.Error(), "OErr"
		if len(obs.Msg) > 300 {
			obs.Msg = obs.Msg[:300]
		}
	case in.Api == 0:
		obs.Class, obs.Text = "text", execRLE([]byte(text))
		res = cRec("OText", execCoqText(obs.Text))
	case in.Api == 1:
		obs.Class, obs.Val = "float", jF(fval)
		res = cRec("OFloat", cF(fval))
	case in.Api == 3:
		obs.Class, res = "unit", "OUnit"
	default:
		obs.Class, obs.Val = "int", itoa(ival)
		res = cRec("OInt", cZ(ival))
	}
	// oracle: the real strconv.ParseFloat on the expected trimmed output
	parse := "None"
	if in.Kind != "flood" {
		want := strings.Trim(string(execExpand(in.Out)), "\n")
		if v, e := strconv.ParseFloat(want, 64); e == nil {
			parse = cRec("Some", cF(v))
		}
	}
	coq := cRec("mkCase", cZ(in.Api), cZ(in.T), cZ(ck), beh, parse, res, cZ(obs.Ms))
	return obs, coq
}

// execSetupNotifyEnv: a desktop session as internal/ui's NotifySend looks for it — DISPLAY set, `who` listing a
// user on that display, `id` knowing him, and a SLOW notification pipeline (`sudo ... notify-send` takes delayMs) —
// all fakes, first in $PATH. Command execution must not wait for a notification: a call that sends one on its
// error path exceeds timeout + margin and is seen by the ordinary observer. Attempts are counted in notify_calls.
func execSetupNotifyEnv(workDir string, delayMs int) string {
	bin := filepath.Join(workDir, "fakebin")
	if err := os.MkdirAll(bin, 0o755); err != nil {
		panic(err)
	}
	calls := filepath.Join(workDir, "notify_calls")
	for name, body := range map[string]string{
		"who":         "echo \"verifuser :77           2026-10-01 10:00 (:77)\"\n",
		"id":          "echo 4242\n",
		"sudo":        "echo \"sudo $*\" >> " + calls + "\nsleep " + execSecs(delayMs) + "\n",
		"notify-send": "echo notify-send >> " + calls + "\n",
	} {
		if err := os.WriteFile(filepath.Join(bin, name), []byte("#!/bin/sh\n"+body), 0o755); err != nil {
			panic(err)
		}
	}
	os.Setenv("DISPLAY", ":77")
	os.Setenv("PATH", bin+":"+os.Getenv("PATH"))
	return calls
}

func execNotifyCount(calls string) int {
	data, err := os.ReadFile(calls)
	if err != nil {
		return 0
	}
	return strings.Count(string(data), "\n")
}

type execJob struct {
	in   execIn
	tags []string
}

func execTxt(s string) [][2]int { return execRLE([]byte(s)) }

func init() {
	drivers["exec"] = func(ctx *Ctx) {
		if os.Geteuid() != 0 {
			panic("exec driver must run as root (root-owned scripts)")
		}
		notifyCalls := execSetupNotifyEnv(ctx.WorkDir, ctx.Param("notify", 3000))
		var jobs []execJob
		add := func(in execIn, tags ...string) { jobs = append(jobs, execJob{in, append([]string{"kind=" + in.Kind, "api=" + itoa(in.Api)}, tags...)}) }
		for _, raw := range append(ctx.Corpus, ctx.Replay...) {
			var in execIn
			if json.Unmarshal(raw, &in) == nil && in.Kind != "" {
				jobs = append(jobs, execJob{in, []string{"corpus", "kind=" + in.Kind}})
			}
		}
		if ctx.Replay == nil {
			rng := NewRng(ctx.Seed, "exec")
			reps := ctx.Param("reps", 1)
			long := ctx.Param("long", 3000) // how long lingering descendants / sleepers go on, ms
			outs := [][][2]int{
				nil, execTxt("42\n"), execTxt("42.5\n\n"), execTxt("\n\n 17\n"), execTxt("\n\n\n"), execTxt("abc\n"),
				execTxt("nan\n"), execTxt("1e999\n"), execTxt("-3\n"), execTxt("12 34\n"), execTxt("0x10\n"),
				{{55, 8 << 20}, {10, 1}},             // 8 MiB of '7'
				{{10, 70000}, {49, 1}, {10, 70000}},  // a 1 between two floods of newlines
				{{120, 300000}},                      // 300 kB of 'x'
			}
			for rep := 0; rep < reps; rep++ {
				pickT := func() int { return []int{200, 250, 300, 400, 500}[rng.Intn(5)] }
				pickOut := func() [][2]int { return outs[rng.Intn(len(outs))] }
				// --- through SafeCmdExecution with short timeouts ---
				for _, out := range outs {
					t, total := pickT(), 0
					for _, r := range out {
						total += r[1]
					}
					if total > 100000 {
						t = 2000 // producing megabytes through head|tr can take longer than 0.5 s on a loaded machine
					}
					add(execIn{Api: 0, T: t, Kind: "exit", Code: 0, Out: out}, "exit0")
				}
				for _, code := range []int{1, 2, 126, 127, 255} {
					add(execIn{Api: 0, T: pickT(), Kind: "exit", Code: code}, "nonzero", "no-output")
					add(execIn{Api: 0, T: pickT(), Kind: "exit", Code: code, Out: pickOut(), ErrOut: rng.Pick([]int{0, 10, 100000})}, "nonzero", "with-output")
				}
				add(execIn{Api: 0, T: 500, Kind: "exit", Code: 0, Sleep: 100, Out: execTxt("42\n")}, "exit0", "slow-ok")
				add(execIn{Api: 0, T: 500, Kind: "exit", Code: 3, Sleep: 100, Out: execTxt("42\n")}, "nonzero", "slow")
				for _, sig := range []int{9, 15, 11, 6, 1} {
					add(execIn{Api: 0, T: pickT(), Kind: "signal", Sig: sig, Out: pickOut()}, "signal")
				}
				for _, k := range []string{"noexec", "badformat", "textnoshebang", "nointerp", "isdir", "vanish", "statloop", "statgone",
					"owner", "groupwrite", "otherwrite", "missing"} {
					add(execIn{Api: 0, T: pickT(), Kind: k, Out: execTxt("42\n")}, "cannot-start-or-refused")
				}
				// text file busy, through SafeCmdExecution and every wrapper
				for api := 0; api <= 4; api++ {
					add(execIn{Api: api, T: pickT(), Kind: "txtbusy", Out: execTxt("42\n")}, "cannot-start-or-refused", "text-file-busy")
				}
				// multi-byte and invalid UTF-8 in what ends up in log messages: stderr of a failing command and
				// unparsable output, around 200 bytes / 200 characters
				rep := func(unit string, n int) [][2]int { return execTxt(strings.Repeat(unit, n) + "\n") }
				utf := [][][2]int{
					rep("\u00e4", 100), rep("\u00e4", 101), rep("\u00e4", 120), rep("\u00e4", 199), rep("\u00e4", 250),
					rep("\u6e29\u5ea6\u30bb\u30f3\u30b5\u30fc", 12), rep("\u6e29\u5ea6\u30bb\u30f3\u30b5\u30fc", 30), rep("\U0001F525", 51), rep("\U0001F525", 70),
					rep("x", 199), rep("x", 200), rep("x", 201), rep("x\u00e4", 67), rep("\xff", 199), rep("\xff", 201), rep("\xc3", 150), rep("a\xe6\xb8", 80),
				}
				for _, u := range utf {
					add(execIn{Api: 0, T: 500, Kind: "exit", Code: 1, ErrTxt: u}, "nonzero", "utf8-stderr")
					add(execIn{Api: 0, T: 500, Kind: "exit", Code: 0, Out: u}, "exit0", "utf8-output")
					for api := 1; api <= 4; api++ {
						add(execIn{Api: api, Kind: "exit", Code: 0, Out: u}, "caller", "exit0", "utf8-output")
						add(execIn{Api: api, Kind: "exit", Code: 3, ErrTxt: u, Out: u}, "caller", "nonzero", "utf8-stderr")
					}
				}
				for _, k := range []string{"sleepexec", "sleepchild", "trapsleep"} {
					add(execIn{Api: 0, T: pickT(), Kind: k, Sleep: long, Out: pickOut()}, "past-deadline")
				}
				add(execIn{Api: 0, T: pickT(), Kind: "flood"}, "past-deadline", "flood")
				for _, fd := range []string{"both", "stdout", "stderr", "none"} {
					for _, code := range []int{0, 1} {
						// exits at once, descendant lingers
						add(execIn{Api: 0, T: pickT(), Kind: "grandchild", Code: code, Hold: long, HoldFd: fd, Out: execTxt("42\n")}, "grandchild", "fd="+fd)
					}
					// both the script and its descendant outlive the deadline
					add(execIn{Api: 0, T: pickT(), Kind: "grandchild", Code: 0, Sleep: long, Hold: long + 500, HoldFd: fd, Out: pickOut()}, "grandchild", "past-deadline", "fd="+fd)
				}
				// exits 0 shortly before the deadline, descendants let go shortly after it and within the wait delay:
				// Output() returns nil AFTER the deadline (must be an error, not an empty success)
				for _, w := range [][3]int{{300, 200, 350}, {400, 290, 450}, {500, 380, 560}} {
					add(execIn{Api: 0, T: w[0], Kind: "grandchild", Code: 0, Sleep: w[1], Hold: w[2], HoldFd: "both", Out: execTxt("42\n")}, "grandchild", "late-nil")
				}
				// a descendant that lets go in time is harmless
				add(execIn{Api: 0, T: 500, Kind: "grandchild", Code: 0, Hold: 60, HoldFd: "both", Out: execTxt("42\n")}, "grandchild", "short-hold")
				// --- through CmdSensor / CmdFan with the real constant ---
				for api := 1; api <= 4; api++ {
					for _, out := range [][][2]int{execTxt("42\n"), execTxt("42.7\n"), nil, execTxt("abc\n"), execTxt("nan\n"), execTxt("1e999\n"),
						execTxt("1e30\n"), {{55, 1 << 20}, {10, 1}}} {
						add(execIn{Api: api, Kind: "exit", Code: 0, Out: out}, "caller", "exit0")
					}
					add(execIn{Api: api, Kind: "exit", Code: 1, Out: execTxt("42\n")}, "caller", "nonzero")
					add(execIn{Api: api, Kind: "signal", Sig: 11, Out: execTxt("42\n")}, "caller", "signal")
					for _, k := range []string{"noexec", "badformat", "nointerp", "vanish", "statloop", "owner", "otherwrite", "missing"} {
						add(execIn{Api: api, Kind: k, Out: execTxt("42\n")}, "caller", "cannot-start-or-refused")
					}
					add(execIn{Api: api, Kind: "grandchild", Code: 0, Hold: long, HoldFd: "both", Out: execTxt("42\n")}, "caller", "grandchild")
				}
				// the 2 s deadline itself: one caller each for a direct sleeper and a shell waiting for a child
				add(execIn{Api: 1, Kind: "sleepexec", Sleep: 2000 + long, Out: execTxt("42\n")}, "caller", "past-deadline")
				add(execIn{Api: 2, Kind: "sleepchild", Sleep: 2000 + long, Out: execTxt("42\n")}, "caller", "past-deadline")
				add(execIn{Api: 3, Kind: "grandchild", Sleep: 2000 + long, Hold: 2000 + long, HoldFd: "both", Out: execTxt("42\n")}, "caller", "past-deadline", "grandchild")
				add(execIn{Api: 4, Kind: "trapsleep", Sleep: 2000 + long, Out: execTxt("42\n")}, "caller", "past-deadline")
			}
		}
		type res struct {
			obs execObs
			coq string
		}
		results := make([]res, len(jobs))
		prepared := make([]execPrepared, len(jobs))
		for i := range jobs {
			prepared[i] = execPrep(ctx.WorkDir, i, jobs[i].in)
		}
		var wg sync.WaitGroup
		sem := make(chan struct{}, ctx.Param("par", 10))
		for i := range jobs {
			wg.Add(1)
			sem <- struct{}{}
			go func(i int) {
				defer wg.Done()
				defer func() { <-sem }()
				o, c := execRun(prepared[i], jobs[i].in)
				results[i] = res{o, c}
			}(i)
		}
		wg.Wait()
		for i, j := range jobs {
			tags := append(append([]string{}, j.tags...), "out="+results[i].obs.Class)
			if i == 0 && execNotifyCount(notifyCalls) > 0 {
				tags = append(tags, "desktop-notifications-sent="+itoa(execNotifyCount(notifyCalls)))
			}
			nontrivial := j.in.Kind != "exit" || j.in.Code != 0 || len(j.in.Out) == 0
			ctx.Emit(Record{In: j.in, Obs: results[i].obs, Coq: results[i].coq, Tags: tags, NonTrv: nontrivial,
				Key: fmt.Sprintf("%d|%s|%d|%d|%d|%s|%v|%d|%v|%s", j.in.Api, j.in.Kind, j.in.Code, j.in.Sig, j.in.T, j.in.HoldFd, j.in.Out, j.in.ErrOut, j.in.ErrTxt, results[i].obs.Class)})
		}
	}
}
