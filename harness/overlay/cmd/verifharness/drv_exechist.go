//go:build verif

package main

import (
	"encoding/json"
	"os"
	"strings"
	"sync"
	"time"

	"github.com/markusressel/fan2go/internal/configuration"
	"github.com/markusressel/fan2go/internal/fans"
	"github.com/markusressel/fan2go/internal/sensors"
	"github.com/markusressel/fan2go/internal/ui"
)

// driver `exechist` (C19): the persistently hanging command. ONE executable is called again and again — as the
// sensor monitor or a fan controller would — with short timeouts, spread over more than ten seconds, while another
// goroutine keeps logging through internal/ui. Every call is bounded by the driver's own watchdog and followed by a
// logger probe (see execRunOnce), so a call that never returns, or a frozen logger, is an observation ("hang"), not
// a stuck driver. After the first hang the history stops (everything behind a frozen logger would hang as well).
// Uses the script preparation and the single-call runner of drv_exec.go.
type exechistCall struct {
	At  int `json:"at"`  // ms after the start of the history
	Api int `json:"api"` // as in driver exec
	T   int `json:"t"`   // api 0: timeout in ms
	// what another process does to the executable (the file itself, i.e. the link target when the history runs
	// through a symlink) before this call: "" nothing | "vanish" (renamed away) | "dir" (renamed away, a directory in
	// its place) | "chmod000" | "dangling" (renamed away, a dangling symlink in its place) | "restore"
	// | "mode:ok" "mode:fail" "mode:garbage" "mode:sleep" (kind "moded": what the script does from now on)
	Before string `json:"before,omitempty"`
}
type exechistIn struct {
	Base    execIn         `json:"base"` // the executable (kind, sleep, hold, output, ...)
	ViaLink bool           `json:"vialink,omitempty"` // the calls name a symlink to the executable
	Calls   []exechistCall `json:"calls"`
}
type exechistObs struct {
	Calls       []execObs `json:"calls"`
	LoggerTicks int       `json:"logger_ticks"`  // how often the concurrent logger got through
	LoggerStuck bool      `json:"logger_stuck"`  // it did not get through during the last second of the history
	Stopped     bool      `json:"stopped_early"` // the history was cut after a hang
}

func exechistRun(pr execPrepared, in exechistIn) (exechistObs, string) {
	defer pr.cleanup()
	var obs exechistObs
	// the rest of the daemon: logs something every 50 ms
	var mu sync.Mutex
	ticks, lastTick := 0, time.Now()
	stop := make(chan struct{})
	go func() {
		for {
			select {
			case <-stop:
				return
			default:
			}
			ui.Info("verif: control loop tick")
			mu.Lock()
			ticks++
			lastTick = time.Now()
			mu.Unlock()
			time.Sleep(50 * time.Millisecond)
		}
	}()
	pr.extraHang = func() string {
		mu.Lock()
		defer mu.Unlock()
		if time.Since(lastTick) > time.Second {
			return "concurrent internal/ui logger has been blocked for more than a second"
		}
		return ""
	}
	// the file the mutations act on, the name the calls use, and what the model is told about the current state
	file, okBeh := pr.path, pr.beh
	away := file + ".away"
	if in.ViaLink {
		lnk := file + ".lnk"
		os.Remove(lnk)
		if err := os.Symlink(file, lnk); err != nil {
			panic(err)
		}
		pr.path = lnk
	}
	clear := func() { // back to "nothing at the name"
		if fi, err := os.Lstat(file); err == nil {
			if fi.Mode().IsRegular() {
				_ = os.Rename(file, away)
			} else {
				_ = os.Remove(file)
			}
		}
	}
	// all calls of a history go through ONE sensor / fan object, as in the daemon
	pr.sensorObj = &sensors.CmdSensor{Config: configuration.SensorConfig{ID: "s", Cmd: &configuration.CmdSensorConfig{Exec: pr.path}}}
	pr.fanObj = &fans.CmdFan{Config: configuration.FanConfig{ID: "f", Cmd: &configuration.CmdFanConfig{
		SetPwm: &configuration.ExecConfig{Exec: pr.path, Args: []string{"%pwm%"}},
		GetPwm: &configuration.ExecConfig{Exec: pr.path},
		GetRpm: &configuration.ExecConfig{Exec: pr.path},
	}}}
	curOut := in.Base.Out
	if in.Base.Kind == "moded" {
		curOut = execTxt("42\n")
	}
	procTerm := func(exit string, exitAt int, out [][2]int) string {
		return cRec("Starts", cRec("mkProc", exit, cRec("At", cZ(exitAt)), execCoqText(out), cRec("At", "0")))
	}
	mutate := func(what string) {
		if strings.HasPrefix(what, "mode:") {
			m := strings.TrimPrefix(what, "mode:")
			_ = os.WriteFile(file+".mode", []byte(m+"\n"), 0o644) // a data file, never executed
			switch m {
			case "fail":
				curOut = nil
				pr.beh = procTerm(cRec("ExitCode", "1"), 0, nil)
			case "garbage":
				curOut = execTxt("abc\n")
				pr.beh = procTerm(cRec("ExitCode", "0"), 0, curOut)
			case "sleep":
				curOut = nil
				pr.beh = procTerm(cRec("ExitCode", "0"), in.Base.Sleep, nil)
			default:
				curOut = execTxt("42\n")
				pr.beh = procTerm(cRec("ExitCode", "0"), 0, curOut)
			}
			okBeh = pr.beh
			pr.ck = 0
			return
		}
		switch what {
		case "vanish":
			clear()
			pr.beh, pr.ck = okBeh, 1 // EvalSymlinks fails
		case "dir":
			clear()
			_ = os.Mkdir(file, 0o755)
			pr.beh, pr.ck = "(CannotStart SfIsDir)", 0
		case "dangling":
			clear()
			_ = os.Symlink(file+".nowhere", file)
			pr.beh, pr.ck = okBeh, 1
		case "chmod000":
			_ = os.Chmod(file, 0)
			pr.beh, pr.ck = "(CannotStart SfNoExecBit)", 0
		case "restore":
			if _, err := os.Lstat(away); err == nil {
				clear()
				_ = os.Rename(away, file)
			}
			_ = os.Chmod(file, 0o755)
			pr.beh, pr.ck = okBeh, 0
		}
	}
	t0 := time.Now()
	var terms []string
	for _, c := range in.Calls {
		if d := time.Duration(c.At)*time.Millisecond - time.Since(t0); d > 0 {
			time.Sleep(d)
		}
		if c.Before != "" {
			mutate(c.Before)
		}
		one := in.Base
		one.Api, one.T, one.Out = c.Api, c.T, curOut
		o, coq := execRunOnce(pr, one)
		obs.Calls = append(obs.Calls, o)
		terms = append(terms, strings.Replace(coq, "(mkCase ", "(mkCall ", 1))
		if o.Class == "hang" {
			obs.Stopped = true
			break
		}
	}
	close(stop)
	mu.Lock()
	obs.LoggerTicks = ticks
	obs.LoggerStuck = time.Since(lastTick) > time.Second
	mu.Unlock()
	return obs, cList(terms)
}

func init() {
	drivers["exechist"] = func(ctx *Ctx) {
		type job struct {
			in   exechistIn
			tags []string
		}
		execSetupNotifyEnv(ctx.WorkDir, ctx.Param("notify", 3000))
		var jobs []job
		for _, raw := range append(ctx.Corpus, ctx.Replay...) {
			var in exechistIn
			if json.Unmarshal(raw, &in) == nil && len(in.Calls) > 0 {
				jobs = append(jobs, job{in, []string{"corpus"}})
			}
		}
		if ctx.Replay == nil {
			rng := NewRng(ctx.Seed, "exechist")
			long := ctx.Param("long", 3000)
			// offsets: twice within the first ten seconds, then beyond them
			spread := func(api int, ts []int, offs []int) []exechistCall {
				var cs []exechistCall
				for i, at := range offs {
					cs = append(cs, exechistCall{At: at + rng.Intn(60), Api: api, T: ts[i%len(ts)]})
				}
				return cs
			}
			quickOffs := []int{0, 600, 1500, 3500, 6500, 10300, 11000}
			// quick tier: ONE executable (the child itself sleeps past every deadline), about 11.5 s
			jobs = append(jobs, job{exechistIn{Base: execIn{Kind: "sleepexec", Sleep: long, Out: execTxt("42\n")},
				Calls: spread(0, []int{300, 250, 400, 200, 500}, quickOffs)}, []string{"persistent", "kind=sleepexec", "api=0"}})
			// an executable that ran fine and then vanishes / is replaced / comes back, under one and the same name
			// (direct and through a symlink): every call returns output or an error, never a panic
			seqs := [][]string{
				{"", "vanish", "", "restore", ""},
				{"", "dir", "restore", "dangling", "", "restore"},
				{"", "", "chmod000", "restore", "vanish", "dir", "dangling", "restore", ""},
			}
			for api := 0; api <= 4; api++ {
				for _, via := range []bool{false, true} {
					for si, seq := range seqs {
						if ctx.Quick() && api > 0 && si != api%len(seqs) {
							continue // quick: all sequences through SafeCmdExecution, one per wrapper
						}
						var cs []exechistCall
						for i, b := range seq {
							cs = append(cs, exechistCall{At: 40 * i, Api: api, T: 1000, Before: b})
						}
						tags := []string{"vanishing", "api=" + itoa(api)}
						if via {
							tags = append(tags, "via-symlink")
						}
						jobs = append(jobs, job{exechistIn{Base: execIn{Kind: "exit", Code: 0, Out: execTxt("42\n")}, ViaLink: via, Calls: cs}, tags})
					}
				}
			}
			// consecutive failures on ONE wrapper object, then success: seven failed reads of one kind (non-zero exit,
			// garbage output, cannot start, timeout) and a mixed run; every single call within timeout + margin
			streak := func(api int, fail string, undo string, gap int, n int) exechistIn {
				cs := []exechistCall{{At: 0, Api: api, T: 1000, Before: "mode:ok"}}
				for i := 0; i < n; i++ {
					b := ""
					if i == 0 {
						b = fail
					}
					cs = append(cs, exechistCall{At: 100 + gap*i, Api: api, T: 1000, Before: b})
				}
				cs = append(cs, exechistCall{At: 100 + gap*n, Api: api, T: 1000, Before: undo}, exechistCall{At: 160 + gap*n, Api: api, T: 1000})
				return exechistIn{Base: execIn{Kind: "moded", Sleep: 2000 + long}, Calls: cs}
			}
			for api := 1; api <= 4; api++ {
				for _, k := range [][2]string{{"mode:fail", "mode:ok"}, {"mode:garbage", "mode:ok"}, {"chmod000", "restore"}, {"vanish", "restore"}} {
					if ctx.Quick() && !(api == 1 && k[0] == "mode:fail") && !(api == 2 && k[0] == "mode:garbage") {
						continue // quick: one representative per wrapper kind; thorough: every kind through every wrapper
					}
					jobs = append(jobs, job{streak(api, k[0], k[1], 60, 7), []string{"streak", "streak=" + k[0], "api=" + itoa(api)}})
				}
				// six (quick) / seven consecutive timeouts with the 2 s constant: ~14 s, runs beside the persistent history
				if !ctx.Quick() || api == 1 {
					nT := 7
					if ctx.Quick() {
						nT = 6
					}
					jobs = append(jobs, job{streak(api, "mode:sleep", "mode:ok", 2250, nT), []string{"streak", "streak=timeout", "api=" + itoa(api)}})
				}
				if !ctx.Quick() {
					mixed := exechistIn{Base: execIn{Kind: "moded", Sleep: 2000 + long}}
					for i, b := range []string{"mode:ok", "mode:fail", "mode:garbage", "chmod000", "restore", "mode:fail", "vanish", "restore", "mode:garbage", "mode:fail", "mode:ok", ""} {
						mixed.Calls = append(mixed.Calls, exechistCall{At: 60 * i, Api: api, T: 1000, Before: b})
					}
					jobs = append(jobs, job{mixed, []string{"streak", "streak=mixed", "api=" + itoa(api)}})
				}
			}
			if !ctx.Quick() {
				longOffs := []int{0, 500, 1200, 2500, 4000, 6000, 8000, 9500, 10400, 11000, 14000, 19000, 20500, 21000, 24000}
				jobs = append(jobs,
					job{exechistIn{Base: execIn{Kind: "sleepchild", Sleep: long, Out: execTxt("42\n")},
						Calls: spread(0, []int{300, 450}, longOffs)}, []string{"persistent", "kind=sleepchild", "api=0"}},
					job{exechistIn{Base: execIn{Kind: "grandchild", Code: 0, Sleep: long, Hold: long + 500, HoldFd: "both", Out: execTxt("42\n")},
						Calls: spread(0, []int{200, 350, 500}, longOffs)}, []string{"persistent", "kind=grandchild", "api=0"}},
					job{exechistIn{Base: execIn{Kind: "trapsleep", Sleep: long, Out: execTxt("7\n")},
						Calls: spread(0, []int{250}, longOffs)}, []string{"persistent", "kind=trapsleep", "api=0"}},
					// the wrappers with the 2 s constant of the source: the sixth consecutive timeout lies beyond 10 s
					job{exechistIn{Base: execIn{Kind: "sleepexec", Sleep: 2000 + long, Out: execTxt("42\n")},
						Calls: spread(2, []int{0}, []int{0, 2400, 4800, 7200, 9600, 12000, 14400})}, []string{"persistent", "kind=sleepexec", "api=2"}},
					job{exechistIn{Base: execIn{Kind: "sleepchild", Sleep: 2000 + long, Out: execTxt("42\n")},
						Calls: spread(1, []int{0}, []int{0, 2400, 4800, 7200, 9600, 12000, 14400})}, []string{"persistent", "kind=sleepchild", "api=1"}},
					// alternating: timeouts of one executable interleaved with quick failures and successes of the same file
					job{exechistIn{Base: execIn{Kind: "exit", Code: 0, Sleep: 350, Out: execTxt("42\n")},
						Calls: spread(0, []int{200, 600, 250, 700}, longOffs)}, []string{"persistent", "kind=slow-exit", "api=0"}},
				)
			}
		}
		type res struct {
			obs exechistObs
			coq string
		}
		results := make([]res, len(jobs))
		// all scripts are written before the first start (ETXTBSY, see drv_exec.go), then the histories run side by side
		prepared := make([]execPrepared, len(jobs))
		for i := range jobs {
			prepared[i] = execPrep(ctx.WorkDir, 100000+i, jobs[i].in.Base)
		}
		var wg sync.WaitGroup
		for i := range jobs {
			wg.Add(1)
			go func(i int) {
				defer wg.Done()
				o, c := exechistRun(prepared[i], jobs[i].in)
				results[i] = res{o, c}
			}(i)
		}
		wg.Wait()
		for i, j := range jobs {
			tags := append([]string{}, j.tags...)
			for _, o := range results[i].obs.Calls {
				tags = append(tags, "out="+o.Class)
			}
			ctx.Emit(Record{In: j.in, Obs: results[i].obs, Coq: results[i].coq, Tags: tags, NonTrv: true})
		}
	}
}
