//go:build verif

package main

import (
	"encoding/json"
	"os"
	"path/filepath"
	"strings"
	"sync"
	"time"

	"github.com/markusressel/fan2go/internal"
	"github.com/markusressel/fan2go/internal/configuration"
	"github.com/markusressel/fan2go/internal/curves"
	"github.com/markusressel/fan2go/internal/fans"
	"github.com/markusressel/fan2go/internal/sensors"
	"github.com/markusressel/fan2go/internal/ui"
	"github.com/prometheus/client_golang/prometheus"
)

// driver `exechist` (C19): the persistently hanging command. ONE executable is called again and again — as the
// sensor monitor or a fan controller would — with short timeouts, spread over more than ten seconds, while another
// goroutine keeps logging through internal/ui. Every call is bounded by the driver's own watchdog and followed by a
// logger probe (see execRunOnce), so a call that never returns, or a frozen logger, is an observation ("hang"), not
// a stuck driver. After the first hang the history stops (everything behind a frozen logger would hang as well).
// Uses the script preparation and the single-call runner of drv_exec.go.
type exechistCall struct {
	At  int `json:"at"`  // ms after the start of the history
	Api int `json:"api"` // as in driver exec
	T   int `json:"t"`   // api 0: timeout in ms
	// what another process does to the executable (the file itself, i.e. the link target when the history runs
	// through a symlink) before this call: "" nothing | "vanish" (renamed away) | "dir" (renamed away, a directory in
	// its place) | "chmod000" | "dangling" (renamed away, a dangling symlink in its place) | "restore"
	// | "mode:ok" "mode:fail" "mode:garbage" "mode:sleep" (kind "moded": what the script does from now on)
	Before string `json:"before,omitempty"`
}
type exechistIn struct {
	Base    execIn         `json:"base"` // the executable (kind, sleep, hold, output, ...)
	ViaLink bool           `json:"vialink,omitempty"` // the calls name a symlink to the executable
	// start-up scenario instead of a call history: the command is in this state ("mode:fail", "mode:garbage",
	// "mode:sleep", "chmod000", "vanish", "mode:ok") when the real start-up glue reads the sensor for the first time
	Startup string `json:"startup,omitempty"`
	Calls   []exechistCall `json:"calls"`
}
// exechistStartupObs: one step of a start-up scenario
type exechistStep struct {
	Step  string `json:"step"`
	Class string `json:"class"` // unit | panic | hang
	Ms    int    `json:"ms"`
	Msg   string `json:"msg,omitempty"`
}

type exechistObs struct {
	Steps []exechistStep `json:"steps,omitempty"`
	Calls       []execObs `json:"calls"`
	LoggerTicks int       `json:"logger_ticks"`  // how often the concurrent logger got through
	LoggerStuck bool      `json:"logger_stuck"`  // it did not get through during the last second of the history
	Stopped     bool      `json:"stopped_early"` // the history was cut after a hang
}

func exechistRun(pr execPrepared, in exechistIn) (exechistObs, string) {
	defer pr.cleanup()
	var obs exechistObs
	// the rest of the daemon: logs something every 50 ms
	var mu sync.Mutex
	ticks, lastTick := 0, time.Now()
	stop := make(chan struct{})
	go func() {
		for {
			select {
			case <-stop:
				return
			default:
			}
			ui.Info("verif: control loop tick")
			mu.Lock()
			ticks++
			lastTick = time.Now()
			mu.Unlock()
			time.Sleep(50 * time.Millisecond)
		}
	}()
	pr.extraHang = func() string {
		mu.Lock()
		defer mu.Unlock()
		if time.Since(lastTick) > time.Second {
			return "concurrent internal/ui logger has been blocked for more than a second"
		}
		return ""
	}
	// the file the mutations act on, the name the calls use, and what the model is told about the current state
	file, okBeh := pr.path, pr.beh
	away := file + ".away"
	if in.ViaLink {
		lnk := file + ".lnk"
		os.Remove(lnk)
		if err := os.Symlink(file, lnk); err != nil {
			panic(err)
		}
		pr.path = lnk
	}
	clear := func() { // back to "nothing at the name"
		if fi, err := os.Lstat(file); err == nil {
			if fi.Mode().IsRegular() {
				_ = os.Rename(file, away)
			} else {
				_ = os.Remove(file)
			}
		}
	}
	// all calls of a history go through ONE sensor / fan object, as in the daemon
	pr.sensorObj = &sensors.CmdSensor{Config: configuration.SensorConfig{ID: "s", Cmd: &configuration.CmdSensorConfig{Exec: pr.path}}}
	pr.fanObj = &fans.CmdFan{Config: configuration.FanConfig{ID: "f", Cmd: &configuration.CmdFanConfig{
		SetPwm: &configuration.ExecConfig{Exec: pr.path, Args: []string{"%pwm%"}},
		GetPwm: &configuration.ExecConfig{Exec: pr.path},
		GetRpm: &configuration.ExecConfig{Exec: pr.path},
	}}}
	curOut := in.Base.Out
	if in.Base.Kind == "moded" {
		curOut = execTxt("42\n")
	}
	procTerm := func(exit string, exitAt int, out [][2]int) string {
		return cRec("Starts", cRec("mkProc", exit, cRec("At", cZ(exitAt)), execCoqText(out), cRec("At", "0")))
	}
	mutate := func(what string) {
		if strings.HasPrefix(what, "mode:") {
			m := strings.TrimPrefix(what, "mode:")
			_ = os.WriteFile(file+".mode", []byte(m+"\n"), 0o644) // a data file, never executed
			switch m {
			case "fail":
				curOut = nil
				pr.beh = procTerm(cRec("ExitCode", "1"), 0, nil)
			case "garbage":
				curOut = execTxt("abc\n")
				pr.beh = procTerm(cRec("ExitCode", "0"), 0, curOut)
			case "sleep":
				curOut = nil
				pr.beh = procTerm(cRec("ExitCode", "0"), in.Base.Sleep, nil)
			default:
				curOut = execTxt("42\n")
				pr.beh = procTerm(cRec("ExitCode", "0"), 0, curOut)
			}
			okBeh = pr.beh
			pr.ck = 0
			return
		}
		switch what {
		case "vanish":
			clear()
			pr.beh, pr.ck = okBeh, 1 // EvalSymlinks fails
		case "dir":
			clear()
			_ = os.Mkdir(file, 0o755)
			pr.beh, pr.ck = "(CannotStart SfIsDir)", 0
		case "dangling":
			clear()
			_ = os.Symlink(file+".nowhere", file)
			pr.beh, pr.ck = okBeh, 1
		case "chmod000":
			_ = os.Chmod(file, 0)
			pr.beh, pr.ck = "(CannotStart SfNoExecBit)", 0
		case "restore":
			if _, err := os.Lstat(away); err == nil {
				clear()
				_ = os.Rename(away, file)
			}
			_ = os.Chmod(file, 0o755)
			pr.beh, pr.ck = okBeh, 0
		}
	}
	t0 := time.Now()
	var terms []string
	for _, c := range in.Calls {
		if d := time.Duration(c.At)*time.Millisecond - time.Since(t0); d > 0 {
			time.Sleep(d)
		}
		if c.Before != "" {
			mutate(c.Before)
		}
		one := in.Base
		one.Api, one.T, one.Out = c.Api, c.T, curOut
		o, coq := execRunOnce(pr, one)
		obs.Calls = append(obs.Calls, o)
		terms = append(terms, strings.Replace(coq, "(mkCase ", "(mkCall ", 1))
		if o.Class == "hang" {
			obs.Stopped = true
			break
		}
	}
	close(stop)
	mu.Lock()
	obs.LoggerTicks = ticks
	obs.LoggerStuck = time.Since(lastTick) > time.Second
	mu.Unlock()
	return obs, cList(terms)
}

// exechistStartup: the daemon's own start-up around a cmd sensor whose command fails AT THE START-UP READ and is
// healthy afterwards: configuration.CurrentConfig = the cmd sensor + a linear and a PID curve on it, the real
// internal.InitializeObjects() (gosensors stand-in on an empty tree, fresh registries), then what the fan controllers
// and the sensor monitor do next: evaluate every curve, poll the sensor, evaluate again. Every step runs under a
// watchdog; a panic anywhere is the observation "crash". Steps are api-6 calls of Drv/Exec.v.
func exechistStartup(workDir string, n int, pr execPrepared, in exechistIn) (exechistObs, string) {
	defer pr.cleanup()
	var obs exechistObs
	file := pr.path
	away := file + ".away"
	okBeh := cRec("Starts", cRec("mkProc", cRec("ExitCode", "0"), cRec("At", "0"), execCoqText(execTxt("42\n")), cRec("At", "0")))
	beh, ck := okBeh, 0
	setMode := func(m string) {
		_ = os.WriteFile(file+".mode", []byte(m+"\n"), 0o644)
	}
	switch in.Startup {
	case "mode:fail":
		setMode("fail")
		beh = cRec("Starts", cRec("mkProc", cRec("ExitCode", "1"), cRec("At", "0"), "[]", cRec("At", "0")))
	case "mode:garbage":
		setMode("garbage")
		beh = cRec("Starts", cRec("mkProc", cRec("ExitCode", "0"), cRec("At", "0"), execCoqText(execTxt("abc\n")), cRec("At", "0")))
	case "mode:sleep":
		setMode("sleep")
		beh = cRec("Starts", cRec("mkProc", cRec("ExitCode", "0"), cRec("At", cZ(in.Base.Sleep)), "[]", cRec("At", "0")))
	case "chmod000":
		_ = os.Chmod(file, 0)
		beh = "(CannotStart SfNoExecBit)"
	case "vanish":
		_ = os.Rename(file, away)
		ck = 1
	default:
		setMode("ok")
	}
	var terms []string
	step := func(name string, f func()) bool {
		t0 := time.Now()
		done := make(chan string, 1)
		go func() { done <- catch(f) }()
		st := exechistStep{Step: name, Class: "unit"}
		res := "OUnit"
		select {
		case pn := <-done:
			if pn != "" {
				st.Class, st.Msg, res = "panic", pn, "OPanic"
			}
		case <-time.After(9 * time.Second):
			st.Class, res = "hang", "OHang"
		}
		st.Ms = int(time.Since(t0) / time.Millisecond)
		obs.Steps = append(obs.Steps, st)
		terms = append(terms, cRec("mkCall", "6", "0", cZ(ck), beh, "None", res, cZ(st.Ms)))
		return st.Class == "unit"
	}
	sid := "verif_cmd_" + itoa(n)
	saved := configuration.CurrentConfig
	defer func() { configuration.CurrentConfig = saved }()
	root := filepath.Join(workDir, "emptyhwmon")
	_ = os.MkdirAll(root, 0o755)
	os.Setenv("VERIF_HWMON_ROOT", root)
	sensors.VerifResetRegistry()
	curves.VerifResetRegistry()
	fans.VerifResetRegistry()
	reg := prometheus.NewRegistry()
	prometheus.DefaultRegisterer, prometheus.DefaultGatherer = reg, reg
	configuration.CurrentConfig = configuration.Configuration{
		TempRollingWindowSize: 10,
		Sensors:               []configuration.SensorConfig{{ID: sid, Cmd: &configuration.CmdSensorConfig{Exec: file}}},
		Curves: []configuration.CurveConfig{
			{ID: "lin_" + sid, Linear: &configuration.LinearCurveConfig{Sensor: sid, Min: 40, Max: 80}},
			{ID: "pid_" + sid, PID: &configuration.PidCurveConfig{Sensor: sid, SetPoint: 50, P: -0.05, I: -0.005, D: -0.005}},
		},
	}
	ok := step("InitializeObjects", func() { _, _ = internal.InitializeObjects() })
	// the command is healthy from now on
	switch in.Startup {
	case "chmod000":
		_ = os.Chmod(file, 0o755)
	case "vanish":
		_ = os.Rename(away, file)
	}
	setMode("ok")
	beh, ck = okBeh, 0
	evalAll := func() {
		for _, id := range []string{"lin_" + sid, "pid_" + sid} {
			id := id
			if !ok {
				return
			}
			ok = step("Evaluate "+id[:3], func() {
				if c, found := curves.GetSpeedCurve(id); found {
					_, _ = c.Evaluate()
				}
			})
		}
	}
	evalAll()
	for i := 0; i < 3 && ok; i++ {
		ok = step("updateSensor", func() {
			if s, found := sensors.GetSensor(sid); found {
				_ = internal.VerifUpdateSensor(s)
			} else {
				obs.Stopped = true // recorded: the sensor monitor has nothing to poll
			}
		})
	}
	evalAll()
	return obs, cList(terms)
}

func init() {
	drivers["exechist"] = func(ctx *Ctx) {
		type job struct {
			in   exechistIn
			tags []string
		}
		execSetupNotifyEnv(ctx.WorkDir, ctx.Param("notify", 3000))
		var jobs []job
		for _, raw := range append(ctx.Corpus, ctx.Replay...) {
			var in exechistIn
			if json.Unmarshal(raw, &in) == nil && (len(in.Calls) > 0 || in.Startup != "") {
				jobs = append(jobs, job{in, []string{"corpus"}})
			}
		}
		if ctx.Replay == nil {
			rng := NewRng(ctx.Seed, "exechist")
			long := ctx.Param("long", 3000)
			// offsets: twice within the first ten seconds, then beyond them
			spread := func(api int, ts []int, offs []int) []exechistCall {
				var cs []exechistCall
				for i, at := range offs {
					cs = append(cs, exechistCall{At: at + rng.Intn(60), Api: api, T: ts[i%len(ts)]})
				}
				return cs
			}
			quickOffs := []int{0, 600, 1500, 3500, 6500, 10300, 11000}
			// quick tier: ONE executable (the child itself sleeps past every deadline), about 11.5 s
			jobs = append(jobs, job{exechistIn{Base: execIn{Kind: "sleepexec", Sleep: long, Out: execTxt("42\n")},
				Calls: spread(0, []int{300, 250, 400, 200, 500}, quickOffs)}, []string{"persistent", "kind=sleepexec", "api=0"}})
			// an executable that ran fine and then vanishes / is replaced / comes back, under one and the same name
			// (direct and through a symlink): every call returns output or an error, never a panic
			seqs := [][]string{
				{"", "vanish", "", "restore", ""},
				{"", "dir", "restore", "dangling", "", "restore"},
				{"", "", "chmod000", "restore", "vanish", "dir", "dangling", "restore", ""},
			}
			for api := 0; api <= 4; api++ {
				for _, via := range []bool{false, true} {
					for si, seq := range seqs {
						if ctx.Quick() && api > 0 && si != api%len(seqs) {
							continue // quick: all sequences through SafeCmdExecution, one per wrapper
						}
						var cs []exechistCall
						for i, b := range seq {
							cs = append(cs, exechistCall{At: 40 * i, Api: api, T: 1000, Before: b})
						}
						tags := []string{"vanishing", "api=" + itoa(api)}
						if via {
							tags = append(tags, "via-symlink")
						}
						jobs = append(jobs, job{exechistIn{Base: execIn{Kind: "exit", Code: 0, Out: execTxt("42\n")}, ViaLink: via, Calls: cs}, tags})
					}
				}
			}
			// the real start-up glue with the command failing at the start-up read (both tiers; sequential, beside the rest)
			for _, m := range []string{"mode:fail", "mode:garbage", "chmod000", "vanish", "mode:sleep", "mode:ok"} {
				jobs = append(jobs, job{exechistIn{Base: execIn{Kind: "moded", Sleep: 2000 + long}, Startup: m}, []string{"startup", "startup=" + m}})
			}
			// consecutive failures on ONE wrapper object, then success: seven failed reads of one kind (non-zero exit,
			// garbage output, cannot start, timeout) and a mixed run; every single call within timeout + margin
			streak := func(api int, fail string, undo string, gap int, n int) exechistIn {
				cs := []exechistCall{{At: 0, Api: api, T: 1000, Before: "mode:ok"}}
				for i := 0; i < n; i++ {
					b := ""
					if i == 0 {
						b = fail
					}
					cs = append(cs, exechistCall{At: 100 + gap*i, Api: api, T: 1000, Before: b})
				}
				cs = append(cs, exechistCall{At: 100 + gap*n, Api: api, T: 1000, Before: undo}, exechistCall{At: 160 + gap*n, Api: api, T: 1000})
				return exechistIn{Base: execIn{Kind: "moded", Sleep: 2000 + long}, Calls: cs}
			}
			for api := 1; api <= 4; api++ {
				for _, k := range [][2]string{{"mode:fail", "mode:ok"}, {"mode:garbage", "mode:ok"}, {"chmod000", "restore"}, {"vanish", "restore"}} {
					if ctx.Quick() && !(api == 1 && k[0] == "mode:fail") && !(api == 2 && k[0] == "mode:garbage") {
						continue // quick: one representative per wrapper kind; thorough: every kind through every wrapper
					}
					jobs = append(jobs, job{streak(api, k[0], k[1], 60, 7), []string{"streak", "streak=" + k[0], "api=" + itoa(api)}})
				}
				// six (quick) / seven consecutive timeouts with the 2 s constant: ~14 s, runs beside the persistent history
				if !ctx.Quick() || api == 1 {
					nT := 7
					if ctx.Quick() {
						nT = 6
					}
					jobs = append(jobs, job{streak(api, "mode:sleep", "mode:ok", 2250, nT), []string{"streak", "streak=timeout", "api=" + itoa(api)}})
				}
				if !ctx.Quick() {
					mixed := exechistIn{Base: execIn{Kind: "moded", Sleep: 2000 + long}}
					for i, b := range []string{"mode:ok", "mode:fail", "mode:garbage", "chmod000", "restore", "mode:fail", "vanish", "restore", "mode:garbage", "mode:fail", "mode:ok", ""} {
						mixed.Calls = append(mixed.Calls, exechistCall{At: 60 * i, Api: api, T: 1000, Before: b})
					}
					jobs = append(jobs, job{mixed, []string{"streak", "streak=mixed", "api=" + itoa(api)}})
				}
			}
			if !ctx.Quick() {
				longOffs := []int{0, 500, 1200, 2500, 4000, 6000, 8000, 9500, 10400, 11000, 14000, 19000, 20500, 21000, 24000}
				jobs = append(jobs,
					job{exechistIn{Base: execIn{Kind: "sleepchild", Sleep: long, Out: execTxt("42\n")},
						Calls: spread(0, []int{300, 450}, longOffs)}, []string{"persistent", "kind=sleepchild", "api=0"}},
					job{exechistIn{Base: execIn{Kind: "grandchild", Code: 0, Sleep: long, Hold: long + 500, HoldFd: "both", Out: execTxt("42\n")},
						Calls: spread(0, []int{200, 350, 500}, longOffs)}, []string{"persistent", "kind=grandchild", "api=0"}},
					job{exechistIn{Base: execIn{Kind: "trapsleep", Sleep: long, Out: execTxt("7\n")},
						Calls: spread(0, []int{250}, longOffs)}, []string{"persistent", "kind=trapsleep", "api=0"}},
					// the wrappers with the 2 s constant of the source: the sixth consecutive timeout lies beyond 10 s
					job{exechistIn{Base: execIn{Kind: "sleepexec", Sleep: 2000 + long, Out: execTxt("42\n")},
						Calls: spread(2, []int{0}, []int{0, 2400, 4800, 7200, 9600, 12000, 14400})}, []string{"persistent", "kind=sleepexec", "api=2"}},
					job{exechistIn{Base: execIn{Kind: "sleepchild", Sleep: 2000 + long, Out: execTxt("42\n")},
						Calls: spread(1, []int{0}, []int{0, 2400, 4800, 7200, 9600, 12000, 14400})}, []string{"persistent", "kind=sleepchild", "api=1"}},
					// alternating: timeouts of one executable interleaved with quick failures and successes of the same file
					job{exechistIn{Base: execIn{Kind: "exit", Code: 0, Sleep: 350, Out: execTxt("42\n")},
						Calls: spread(0, []int{200, 600, 250, 700}, longOffs)}, []string{"persistent", "kind=slow-exit", "api=0"}},
				)
			}
		}
		type res struct {
			obs exechistObs
			coq string
		}
		results := make([]res, len(jobs))
		// all scripts are written before the first start (ETXTBSY, see drv_exec.go), then the histories run side by side
		prepared := make([]execPrepared, len(jobs))
		for i := range jobs {
			prepared[i] = execPrep(ctx.WorkDir, 100000+i, jobs[i].in.Base)
		}
		var wg sync.WaitGroup
		wg.Add(1)
		go func() { // start-up scenarios use the daemon's global configuration and registries: one after the other
			defer wg.Done()
			for i := range jobs {
				if jobs[i].in.Startup != "" {
					o, c := exechistStartup(ctx.WorkDir, i, prepared[i], jobs[i].in)
					results[i] = res{o, c}
				}
			}
		}()
		for i := range jobs {
			if jobs[i].in.Startup != "" {
				continue
			}
			wg.Add(1)
			go func(i int) {
				defer wg.Done()
				o, c := exechistRun(prepared[i], jobs[i].in)
				results[i] = res{o, c}
			}(i)
		}
		wg.Wait()
		for i, j := range jobs {
			tags := append([]string{}, j.tags...)
			for _, o := range results[i].obs.Calls {
				tags = append(tags, "out="+o.Class)
			}
			for _, o := range results[i].obs.Steps {
				tags = append(tags, "step="+o.Class)
			}
			ctx.Emit(Record{In: j.in, Obs: results[i].obs, Coq: results[i].coq, Tags: tags, NonTrv: true})
		}
	}
}
