//go:build verif

package main

import (
	"encoding/json"
	"errors"
	"fmt"
	"io/fs"
	"os"
	"path/filepath"
	"strconv"
	"strings"
	"sync"
	"syscall"
	"time"

	"github.com/markusressel/fan2go/internal"
	"github.com/markusressel/fan2go/internal/configuration"
	"github.com/markusressel/fan2go/internal/control_loop"
	"github.com/markusressel/fan2go/internal/controller"
	"github.com/markusressel/fan2go/internal/curves"
	"github.com/markusressel/fan2go/internal/fans"
	"github.com/markusressel/fan2go/internal/sensors"
	"github.com/markusressel/fan2go/internal/util"
)

// driver `faults` (C09): closed loops of a few cycles through the real
// updateSensor / measureRpm / UpdateFanSpeed (and restorePwmEnabled when
// UpdateFanSpeed returns an error, as the control actor of Run does) for
// hwmon/file/cmd fans x hwmon/file/cmd sensors x linear/PID/function curves,
// with a fault regime per cycle and component.  hwmon/file components are
// faulted through the hooked file layer, cmd components through their scripts
// (error exit, garbage output, sleep past the 2 s timeout, not startable).
type faultsCurve struct {
	T  string        `json:"t"`            // linear | pid | func
	Fn string        `json:"fn,omitempty"` // sum difference delta minimum maximum average
	Ms []faultsCurve `json:"ms,omitempty"`
}
type faultsCyc struct {
	Sensor    string `json:"sensor,omitempty"` // "", error, garbage, timeout, cannotstart
	Rpm       string `json:"rpm,omitempty"`
	PwmRead   string `json:"pwm_read,omitempty"`
	PwmFrom   int    `json:"pwm_from,omitempty"`
	PwmWrite  string `json:"pwm_write,omitempty"`
	ModeWrite string `json:"mode_write,omitempty"`
	Temp      int    `json:"temp"` // sensor value of this cycle (millidegrees)
}
type faultsIn struct {
	Fan          string      `json:"fan"`
	Sensor       string      `json:"sensor"`
	Curve        faultsCurve `json:"curve"`
	EnableExists bool        `json:"enable_exists"`
	HasRpm       bool        `json:"has_rpm"`
	NeverStop    bool        `json:"never_stop"`
	Rpm          int         `json:"rpm"`
	Alg          string      `json:"alg"` // direct | pid
	OrigMode     int         `json:"orig_mode"`
	OrigPwm      int         `json:"orig_pwm"`
	Plan         []faultsCyc `json:"plan"`
	// per-operation plan: Ops[k][i] = fault of the i-th hooked file operation of cycle k ("" none, error, garbage);
	// when present, Plan only carries the temperatures
	Ops [][]string `json:"ops,omitempty"`
	// cmd fan without getPwm (it is optional): a fan without FeaturePwmSensor
	NoGetPwm bool `json:"no_get_pwm,omitempty"`
	// selects the garbage shapes of this case (index into the shape tables, advanced by every garbage read)
	GarbageSel int `json:"garbage_sel,omitempty"`
}
type faultsObs struct {
	Kind    int      `json:"kind"` // 0 regulating, 1 stopped after restore, 2 crash
	Cycle   int      `json:"cycle"`
	Mode    int      `json:"mode"`
	Pwm     int      `json:"pwm"`
	Ops     []string `json:"ops"`
	Stalled []bool   `json:"stalled"`
	LastW   bool     `json:"last_write_faulted"`
	Cyc     [][2]int `json:"cyc"` // per cycle that ended without error: (request, PWM the device shows)
	Avgs    []string `json:"avgs"` // sensor moving average after the monitor poll of each cycle (exact, hex)
	Trace   [][]int  `json:"trace,omitempty"`
	Panic   string   `json:"panic,omitempty"`
}

// ---- per-case environment; hooks dispatch on the path ----
type faultsEnv struct {
	dir                               string
	pwmPath, enPath, rpmPath, tmpPath string
	cur                               faultsCyc
	phase                             string // mon | rpm | ufs | restore
	nPwmReads                         int
	ops                               []string
	perOp                             bool
	garbageSel, nGarbage              int
	opPlan                            []string // per-operation mode: faults of the current cycle
	opIdx                             int
	trace                             []int
	lastW                             bool
}

// per-operation mode: the fault of the next hooked file operation (class: 0 sensor read, 1 rpm read,
// 2 pwm read, 3 pwm write, 4 mode write, 5 mode read)
func (e *faultsEnv) nextOp(class int) string {
	e.trace = append(e.trace, class)
	k := ""
	if e.opIdx < len(e.opPlan) {
		k = e.opPlan[e.opIdx]
	}
	e.opIdx++
	return k
}

// faultsFan records what the controller asks of the fan while it restores (Fan interface level:
// attempts are seen even when a command cannot be started) and delegates to the real fan.
type faultsFan struct {
	fans.Fan
	env *faultsEnv
}

func (f *faultsFan) SetPwm(pwm int) error {
	if f.env.phase == "restore" {
		f.env.ops = append(f.env.ops, "OpWPwm "+cZ(pwm))
		if !f.env.perOp {
			f.env.lastW = f.env.cur.PwmWrite != "" // regime mode (also command fans, whose writes bypass the file hook)
		}
	}
	return f.Fan.SetPwm(pwm)
}
func (f *faultsFan) SetPwmEnabled(m fans.ControlMode) error {
	if f.env.phase == "restore" {
		f.env.ops = append(f.env.ops, "OpWMode "+cZ(int(m)))
	}
	return f.Fan.SetPwmEnabled(m)
}

// what a "garbage" read returns: every shape is rejected by the unchanged parsers (ReadIntFromFile: empty file
// or strconv.Atoi error; cmd backends: strconv.ParseFloat error / not finite), so the model treats all of them as
// a failed read.  The shape used is picked by (case selector + number of garbage reads so far).
var faultsGarbageFile = []string{"\n", "", " ", " \n", "\t\n", "\r\n", "abc\n", "12abc\n", "1 2\n", "-\n", "+\n", "0x10\n",
	"99999999999999999999999999\n", "\x0012\n", "12\x00\n", "4 5 mC\n", strings.Repeat("7", 5000) + "\n", "1.5\n", "NaN\n"}
var faultsGarbageCmd = []string{"xyz", "", " ", "12abc", "1 2", "-", "0x", "1,5", "NaN", "+Inf", "--5", "\t"}

func (e *faultsEnv) garbageFile() []byte {
	s := faultsGarbageFile[(e.garbageSel+e.nGarbage)%len(faultsGarbageFile)]
	e.nGarbage++
	return []byte(s)
}

var (
	faultsMu  sync.RWMutex
	faultsReg = map[string]*faultsEnv{}
)

func faultsLookup(path string) *faultsEnv {
	faultsMu.RLock()
	defer faultsMu.RUnlock()
	return faultsReg[path]
}

func faultsInstallHooks() {
	util.VerifReadHook = func(path string) ([]byte, error, bool) {
		e := faultsLookup(path)
		if e == nil {
			return nil, nil, false
		}
		kind := ""
		switch {
		case e.perOp:
			switch path {
			case e.tmpPath:
				kind = e.nextOp(0)
			case e.rpmPath:
				kind = e.nextOp(1)
			case e.pwmPath:
				kind = e.nextOp(2)
			case e.enPath:
				kind = e.nextOp(5)
			}
		case path == e.tmpPath:
			kind = e.cur.Sensor
		case path == e.rpmPath:
			kind = e.cur.Rpm
		case path == e.pwmPath:
			if e.cur.PwmRead != "" {
				if e.phase == "ufs" {
					if e.nPwmReads >= e.cur.PwmFrom {
						kind = e.cur.PwmRead
					}
					e.nPwmReads++
				} else if e.cur.PwmFrom == 0 {
					kind = e.cur.PwmRead
				}
			}
		}
		switch kind {
		case "":
			return nil, nil, false
		case "garbage":
			return e.garbageFile(), nil, true
		default:
			return nil, &fs.PathError{Op: "read", Path: path, Err: syscall.EIO}, true
		}
	}
	util.VerifWriteHook = func(path string, data []byte) (error, bool) {
		e := faultsLookup(path)
		if e == nil {
			return nil, false
		}
		kind := ""
		switch path {
		case e.pwmPath:
			kind = e.cur.PwmWrite
			if e.perOp {
				kind = e.nextOp(3)
			}
			if e.phase == "restore" {
				e.lastW = kind != ""
			}
		case e.enPath:
			kind = e.cur.ModeWrite
			if e.perOp {
				kind = e.nextOp(4)
			}
		}
		switch kind {
		case "":
			return nil, false
		case "garbage":
			return nil, true // silently ignored
		default:
			return &fs.PathError{Op: "write", Path: path, Err: syscall.EINVAL}, true
		}
	}
}

// faultsCatch runs f and reports a recovered panic. ui.Fatal panics with the EMPTY string
// (pterm's checkFatal: panic("")), so the panic value cannot serve as the flag.
func faultsCatch(f func()) (p string) {
	defer func() {
		if r := recover(); r != nil {
			p = "panic: " + fmt.Sprint(r)
		}
	}()
	f()
	return ""
}

func faultsCZ(s string) string {
	n, err := strconv.Atoi(strings.TrimSpace(s))
	if err != nil {
		return "(-999)"
	}
	return cZ(n)
}

func faultsReadInt(p string, def int) int {
	b, err := os.ReadFile(p)
	if err != nil {
		return def
	}
	n, err := strconv.Atoi(strings.TrimSpace(string(b)))
	if err != nil {
		return def
	}
	return n
}

// one script serves every command component: $1 = dir, $2 = component, $3.. = action arguments
const faultsScript = `#!/bin/sh
d="$1"; c="$2"
k=$(cat "$d/fault.$c" 2>/dev/null)
if [ "$c" = set ]; then
  if [ "$(cat "$d/phase" 2>/dev/null)" = restore ]; then echo "OpWPwm $3" >> "$d/log"; fi
fi
case "$k" in
  error) echo failing >&2; exit 1 ;;
  timeout) sleep 3; exit 0 ;;
  linger) sleep 8 & echo $! >> "$d/bgpids"; echo failing >&2; exit 1 ;;   # the command fails at once, an orphaned child keeps holding stdout/stderr
  garbage) if [ "$c" = set ]; then exit 0; fi; cat "$d/garbage.$c"; exit 0 ;;
esac
case "$c" in
  set) echo "$3" > "$d/pwm1" ;;
  get) cat "$d/pwm1" ;;
  rpm) cat "$d/fan1_input" ;;
  temp) cat "$d/temp1_input" ;;
esac
`

func (e *faultsEnv) script(comp string) string { return filepath.Join(e.dir, comp+".sh") }

func (e *faultsEnv) setCmdFault(comp, kind string) {
	p := filepath.Join(e.dir, "fault."+comp)
	os.Remove(p)
	sc := e.script(comp)
	if _, err := os.Stat(sc); err != nil {
		return
	}
	os.Chmod(sc, 0755)
	switch kind {
	case "":
	case "cannotstart":
		os.Chmod(sc, 0644) // root-owned, not writable by others: passes the permission check, cannot be started
	default:
		if kind == "garbage" {
			tbl := faultsGarbageCmd
			if comp != "temp" {
				tbl = tbl[:8] // CmdFan.GetPwm / GetRpm take NaN and Inf for numbers (int(NaN)): not a failed read there
			}
			g := tbl[(e.garbageSel+e.nGarbage)%len(tbl)]
			e.nGarbage++
			os.WriteFile(filepath.Join(e.dir, "garbage."+comp), []byte(g), 0644)
		}
		os.WriteFile(p, []byte(kind), 0644)
	}
}

func faultsBuildCurve(spec faultsCurve, prefix string, sensorId string, n *int) string {
	id := fmt.Sprintf("%s_c%d", prefix, *n)
	*n++
	var cfg configuration.CurveConfig
	switch spec.T {
	case "linear":
		cfg = configuration.CurveConfig{ID: id, Linear: &configuration.LinearCurveConfig{Sensor: sensorId, Min: 30, Max: 80}}
	case "pid":
		cfg = configuration.CurveConfig{ID: id, PID: &configuration.PidCurveConfig{Sensor: sensorId, SetPoint: 50, P: -0.05, I: -0.005, D: -0.005}}
	default:
		var ids []string
		for _, m := range spec.Ms {
			ids = append(ids, faultsBuildCurve(m, prefix, sensorId, n))
		}
		cfg = configuration.CurveConfig{ID: id, Function: &configuration.FunctionCurveConfig{Type: spec.Fn, Curves: ids}}
	}
	c, err := curves.NewSpeedCurve(cfg)
	if err != nil {
		panic(err)
	}
	curves.RegisterSpeedCurve(c)
	return id
}

func faultsCurveCoq(spec faultsCurve) string {
	switch spec.T {
	case "linear":
		return "CLinear"
	case "pid":
		return "CPid"
	}
	fn := map[string]string{"sum": "FSum", "difference": "FDiff", "delta": "FDelta", "minimum": "FMin", "maximum": "FMax", "average": "FAvg"}[spec.Fn]
	ms := make([]string, len(spec.Ms))
	for i, m := range spec.Ms {
		ms[i] = faultsCurveCoq(m)
	}
	return "(CFunc " + fn + " " + cList(ms) + ")"
}

func faultsCurveHasPid(spec faultsCurve) bool {
	if spec.T == "pid" {
		return true
	}
	for _, m := range spec.Ms {
		if faultsCurveHasPid(m) {
			return true
		}
	}
	return false
}

var faultsKindCoq = map[string]string{"linger": "FTimeout", "": "FNone", "error": "FErr", "garbage": "FGarbage", "timeout": "FTimeout", "cannotstart": "FCannotStart"}

// faultsPrepare creates the case directory and its scripts. It runs for ALL cases before any worker
// forks a command: a script written while another goroutine is between fork and exec would be
// held open for writing by that child and fail to start with ETXTBSY.
func faultsPrepare(ctx *Ctx, seq int, in faultsIn) {
	dir := filepath.Join(ctx.WorkDir, "faults", strconv.Itoa(seq))
	os.MkdirAll(dir, 0755)
	for _, comp := range []string{"set", "get", "rpm", "temp"} {
		need := (in.Fan == "cmd" && comp != "temp") || (in.Sensor == "cmd" && comp == "temp")
		if need {
			if err := os.WriteFile(filepath.Join(dir, comp+".sh"), []byte(faultsScript), 0755); err != nil {
				panic(err)
			}
		}
	}
}

func faultsRun(ctx *Ctx, seq int, in faultsIn) (faultsObs, string, []string) {
	dir := filepath.Join(ctx.WorkDir, "faults", strconv.Itoa(seq))
	if r, err := filepath.EvalSymlinks(dir); err == nil {
		dir = r
	}
	defer os.RemoveAll(dir)
	e := &faultsEnv{dir: dir, pwmPath: filepath.Join(dir, "pwm1"), enPath: filepath.Join(dir, "pwm1_enable"),
		rpmPath: filepath.Join(dir, "fan1_input"), tmpPath: filepath.Join(dir, "temp1_input")}
	prefix := fmt.Sprintf("flt%d", seq)
	d0Mode, d0Pwm := in.OrigMode, in.OrigPwm
	os.WriteFile(e.pwmPath, []byte(strconv.Itoa(d0Pwm)), 0644)
	if in.Fan == "hwmon" && in.EnableExists {
		os.WriteFile(e.enPath, []byte(strconv.Itoa(d0Mode)), 0644)
	}
	if in.HasRpm {
		os.WriteFile(e.rpmPath, []byte(strconv.Itoa(in.Rpm)), 0644)
	}
	os.WriteFile(e.tmpPath, []byte("45000"), 0644)
	faultsMu.Lock()
	for _, p := range []string{e.pwmPath, e.enPath, e.rpmPath, e.tmpPath} {
		faultsReg[p] = e
	}
	faultsMu.Unlock()
	defer func() {
		faultsMu.Lock()
		for _, p := range []string{e.pwmPath, e.enPath, e.rpmPath, e.tmpPath} {
			delete(faultsReg, p)
		}
		faultsMu.Unlock()
	}()

	// sensor
	sid := prefix + "_s"
	var scfg configuration.SensorConfig
	switch in.Sensor {
	case "hwmon":
		scfg = configuration.SensorConfig{ID: sid, HwMon: &configuration.HwMonSensorConfig{TempInput: e.tmpPath}}
	case "file":
		scfg = configuration.SensorConfig{ID: sid, File: &configuration.FileSensorConfig{Path: e.tmpPath}}
	default:
		scfg = configuration.SensorConfig{ID: sid, Cmd: &configuration.CmdSensorConfig{Exec: e.script("temp"), Args: []string{dir, "temp"}}}
	}
	sensor, err := sensors.NewSensor(scfg)
	if err != nil {
		panic(err)
	}
	if len(in.Plan) > 0 {
		sensor.SetMovingAvg(float64(in.Plan[0].Temp)) // backend.go seeds the average with the first reading
	}
	sensors.RegisterSensor(sensor)
	// curve
	n := 0
	cid := faultsBuildCurve(in.Curve, prefix, sid, &n)
	curve, _ := curves.GetSpeedCurve(cid)
	// fan
	var fan fans.Fan
	base := configuration.FanConfig{ID: prefix + "_f", NeverStop: in.NeverStop, Curve: cid}
	switch in.Fan {
	case "hwmon":
		base.HwMon = &configuration.HwMonFanConfig{PwmPath: e.pwmPath, PwmEnablePath: e.enPath, RpmInputPath: e.rpmPath}
	case "file":
		base.File = &configuration.FileFanConfig{Path: e.pwmPath}
		if in.HasRpm {
			base.File.RpmPath = e.rpmPath
		}
	default:
		base.Cmd = &configuration.CmdFanConfig{
			SetPwm: &configuration.ExecConfig{Exec: e.script("set"), Args: []string{dir, "set", "%pwm%"}},
		}
		if !in.NoGetPwm {
			base.Cmd.GetPwm = &configuration.ExecConfig{Exec: e.script("get"), Args: []string{dir, "get"}}
		}
		if in.HasRpm {
			base.Cmd.GetRpm = &configuration.ExecConfig{Exec: e.script("rpm"), Args: []string{dir, "rpm"}}
		}
	}
	fan, err = fans.NewFan(base)
	if err != nil {
		panic(err)
	}
	var loop control_loop.ControlLoop
	if in.Alg == "pid" {
		loop = control_loop.NewPidControlLoop(control_loop.DefaultPidConfig.P, control_loop.DefaultPidConfig.I, control_loop.DefaultPidConfig.D)
	} else {
		loop = control_loop.NewDirectControlLoop(nil)
	}
	fan = &faultsFan{Fan: fan, env: e}
	c := controller.VerifNewController(nil, fan, curve, loop, 0)
	pm := map[int]int{}
	for i := 0; i <= 255; i++ {
		pm[i] = i
	}
	c.VerifSetPwmMap(pm)
	c.VerifSetOriginal(fans.ControlMode(in.OrigMode), in.OrigPwm)

	obs := faultsObs{Kind: 0, Cycle: -1, Stalled: make([]bool, len(in.Plan))}
	setPhase := func(p string) {
		e.phase = p
		if in.Fan == "cmd" {
			os.WriteFile(filepath.Join(dir, "phase"), []byte(p), 0644)
		}
	}
	// every call into the controller is bounded by a watchdog: a call that does not come back is an OBSERVATION (kind 3)
	hasLinger := false
	for _, y := range in.Plan {
		if y.Sensor == "linger" || y.Rpm == "linger" || y.PwmRead == "linger" || y.PwmWrite == "linger" {
			hasLinger = true
		}
	}
	limit := 45 * time.Second
	if hasLinger {
		limit = 4 * time.Second // a failing command with a lingering child is over after cmdWaitDelay (200 ms) per call
	}
	var pending chan string
	watch := func(f func()) string {
		res := make(chan string, 1)
		go func() { res <- faultsCatch(f) }()
		select {
		case p := <-res:
			return p
		case <-time.After(limit):
			pending = res
			return "stuck"
		}
	}
	killChildren := func() {
		if b, err := os.ReadFile(filepath.Join(dir, "bgpids")); err == nil {
			for _, f := range strings.Fields(string(b)) {
				if pid, err := strconv.Atoi(f); err == nil && pid > 1 {
					_ = syscall.Kill(pid, syscall.SIGKILL)
				}
			}
		}
	}
	defer func() {
		killChildren()
		if pending != nil {
			select { // the abandoned call comes back once the children are gone; do not remove its files under it
			case <-pending:
			case <-time.After(15 * time.Second):
			}
		}
	}()
	e.perOp = len(in.Ops) > 0
	e.garbageSel = in.GarbageSel
	avg0 := sensor.GetMovingAvg()
	var avgs []float64
	for k, y := range in.Plan {
		e.cur = y
		if e.perOp {
			e.cur = faultsCyc{Temp: y.Temp}
			e.opPlan, e.opIdx, e.trace = nil, 0, nil
			if k < len(in.Ops) {
				e.opPlan = in.Ops[k]
			}
		}
		os.WriteFile(e.tmpPath, []byte(strconv.Itoa(y.Temp)), 0644)
		if in.Sensor == "cmd" {
			e.setCmdFault("temp", y.Sensor)
		}
		if in.Fan == "cmd" {
			e.setCmdFault("rpm", y.Rpm)
			e.setCmdFault("get", y.PwmRead)
			e.setCmdFault("set", y.PwmWrite)
		}
		endCycle := func() {
			if e.perOp {
				obs.Trace = append(obs.Trace, append([]int{}, e.trace...))
			}
		}
		crashed := func(p string) bool {
			if p == "" {
				return false
			}
			obs.Kind, obs.Cycle, obs.Panic = 2, k, p
			if p == "stuck" {
				obs.Kind = 3 // the controller is stuck in this call: neither regulating nor handed back
			}
			endCycle()
			return true
		}
		setPhase("mon")
		if crashed(watch(func() { _ = internal.VerifUpdateSensor(sensor) })) {
			break
		}
		avgs = append(avgs, sensor.GetMovingAvg())
		obs.Avgs = append(obs.Avgs, jF(sensor.GetMovingAvg()))
		if fan.Supports(fans.FeatureRpmSensor) {
			setPhase("rpm")
			if crashed(watch(func() { c.VerifMeasureRpm() })) {
				break
			}
		}
		setPhase("ufs")
		e.nPwmReads = 0
		var uerr error
		if crashed(watch(func() { uerr = c.UpdateFanSpeed() })) {
			break
		}
		if uerr != nil {
			// the control actor of Run: ErrorAndNotify, restorePwmEnabled, return
			obs.Stalled[k] = errors.Is(uerr, controller.ErrFanStalledAtMaxPwm)
			setPhase("restore")
			if crashed(watch(func() { c.VerifRestore() })) {
				break
			}
			obs.Kind, obs.Cycle = 1, k
			endCycle()
			break
		}
		endCycle()
		req, _ := c.VerifLastSetPwm()
		obs.Cyc = append(obs.Cyc, [2]int{req, faultsReadInt(e.pwmPath, -999)})
	}
	e.cur = faultsCyc{}
	e.perOp = false
	obs.LastW = e.lastW
	obs.Ops = append([]string{}, e.ops...)
	obs.Pwm = faultsReadInt(e.pwmPath, -999)
	obs.Mode = d0Mode
	if _, err := os.Stat(e.enPath); err == nil {
		obs.Mode = faultsReadInt(e.enPath, -999)
		if !(in.Fan == "hwmon" && in.EnableExists) {
			obs.Mode = -888
		}
	}
	// ---- Coq term ----
	bk := map[string]string{"hwmon": "BHwmon", "file": "BFile", "cmd": "BCmd"}[in.Fan]
	sk := map[string]string{"hwmon": "SHwmon", "file": "SFile", "cmd": "SCmd"}[in.Sensor]
	combo := cRec("mkCombo", bk, sk, faultsCurveCoq(in.Curve), cBool(in.EnableExists), cBool(in.HasRpm), cBool(in.NeverStop), "true")
	plan := make([]string, len(in.Plan))
	for i, y := range in.Plan {
		plan[i] = cRec("mkCyc", faultsKindCoq[y.Sensor], faultsKindCoq[y.Rpm], faultsKindCoq[y.PwmRead], cZ(y.PwmFrom),
			faultsKindCoq[y.PwmWrite], faultsKindCoq[y.ModeWrite], cBool(obs.Stalled[i]))
	}
	ops := make([]string, len(obs.Ops))
	for i, o := range obs.Ops {
		ops[i] = "(" + o + ")"
	}
	dev := func(m, p int) string { return "(mkDev " + cZ(m) + " " + cZ(p) + ")" }
	var ocs []string
	for i := range in.Ops {
		fs := make([]string, len(in.Ops[i]))
		for j, kd := range in.Ops[i] {
			fs[j] = faultsKindCoq[kd]
		}
		st := false
		if i < len(obs.Stalled) {
			st = obs.Stalled[i]
		}
		ocs = append(ocs, cRec("mkOC", cList(fs), cBool(st)))
	}
	var trs []string
	for _, t := range obs.Trace {
		trs = append(trs, cZList(t))
	}
	temps := make([]int, len(in.Plan))
	for i, y := range in.Plan {
		temps[i] = y.Temp
	}
	avgsC := make([]string, len(avgs))
	for i, a := range avgs {
		avgsC[i] = cF(a)
	}
	var cycs []string
	for _, cy := range obs.Cyc {
		cycs = append(cycs, "("+cZ(cy[0])+", "+cZ(cy[1])+")")
	}
	coq := cRec("mkCase", combo, dev(in.OrigMode, in.OrigPwm), dev(d0Mode, d0Pwm), cList(plan),
		cZ(obs.Kind), cZ(obs.Cycle), dev(obs.Mode, obs.Pwm), cList(ops), cList(ocs), cBool(obs.LastW), cList(trs), cList(cycs),
		cZ(configuration.CurrentConfig.TempRollingWindowSize), cF(avg0), cZList(temps), cList(avgsC))
	tags := []string{"fan=" + in.Fan, "sensor=" + in.Sensor, "curve=" + in.Curve.T, "outcome=" + []string{"regulating", "stopped", "crash", "stuck"}[obs.Kind]}
	if in.Curve.T == "func" {
		if faultsCurveHasPid(in.Curve) {
			tags = append(tags, "func-with-pid")
		}
	}
	nf := 0
	for _, y := range in.Plan {
		for _, kv := range [][2]string{{"sensor", y.Sensor}, {"rpm", y.Rpm}, {"pwmread", y.PwmRead}, {"pwmwrite", y.PwmWrite}, {"modewrite", y.ModeWrite}} {
			if kv[1] != "" {
				nf++
				tags = append(tags, "fault="+kv[0]+":"+kv[1])
			}
		}
	}
	for _, oc := range in.Ops {
		for _, kd := range oc {
			if kd != "" {
				nf++
			}
		}
	}
	if len(in.Ops) > 0 {
		tags = append(tags, "per-operation")
	}
	if in.NoGetPwm {
		tags = append(tags, "no-pwm-readback")
	}
	tags = append(tags, fmt.Sprintf("faults=%d", nf))
	for _, s := range obs.Stalled {
		if s {
			tags = append(tags, "stalled-at-max")
		}
	}
	return obs, coq, tags
}

// ---- generation ----
func faultsCurves() []faultsCurve {
	lin := faultsCurve{T: "linear"}
	pid := faultsCurve{T: "pid"}
	return []faultsCurve{
		lin, pid,
		{T: "func", Fn: "maximum", Ms: []faultsCurve{lin, pid}},
		{T: "func", Fn: "average", Ms: []faultsCurve{{T: "func", Fn: "sum", Ms: []faultsCurve{pid}}, lin}},
		{T: "func", Fn: "delta", Ms: []faultsCurve{lin, {T: "func", Fn: "minimum", Ms: []faultsCurve{lin, lin}}}},
	}
}

type faultsSpec struct {
	comp, kind string
	from       int
}

func faultsApply(y *faultsCyc, f faultsSpec) {
	switch f.comp {
	case "sensor":
		y.Sensor = f.kind
	case "rpm":
		y.Rpm = f.kind
	case "pwmread":
		y.PwmRead = f.kind
		y.PwmFrom = f.from
	case "pwmwrite":
		y.PwmWrite = f.kind
	case "modewrite":
		y.ModeWrite = f.kind
	}
}

// every fault kind that applies to a component of the given combination
func faultsKinds(fan, sensor string, hasRpm bool, slow bool) []faultsSpec {
	var res []faultsSpec
	add := func(comp string, cmd bool, write bool) {
		res = append(res, faultsSpec{comp, "error", 0}, faultsSpec{comp, "garbage", 0})
		if cmd {
			res = append(res, faultsSpec{comp, "cannotstart", 0})
			if slow {
				res = append(res, faultsSpec{comp, "timeout", 0})
			}
		}
	}
	add("sensor", sensor == "cmd", false)
	if hasRpm {
		add("rpm", fan == "cmd", false)
	}
	add("pwmread", fan == "cmd", false)
	if fan != "cmd" {
		res = append(res, faultsSpec{"pwmread", "error", 2}, faultsSpec{"pwmread", "error", 1})
	}
	add("pwmwrite", fan == "cmd", true)
	res = append(res, faultsSpec{"modewrite", "error", 0}, faultsSpec{"modewrite", "garbage", 0})
	return res
}

func init() {
	drivers["faults"] = func(ctx *Ctx) {
		os.Unsetenv("DISPLAY")
		configuration.CurrentConfig.RpmRollingWindowSize = 10
		configuration.CurrentConfig.TempRollingWindowSize = 10
		faultsInstallHooks()
		defer func() { util.VerifReadHook, util.VerifWriteHook = nil, nil }()

		type job struct {
			in   faultsIn
			tags []string
		}
		var jobs []job
		for _, raw := range append(ctx.Corpus, ctx.Replay...) {
			var in faultsIn
			if json.Unmarshal(raw, &in) == nil && in.Fan != "" {
				jobs = append(jobs, job{in, []string{"corpus"}})
			}
		}
		if ctx.Replay == nil {
			rng := NewRng(ctx.Seed, "faults")
			nCyc := 6
			temps := func() []int {
				t := make([]int, nCyc)
				for i := range t {
					t[i] = rng.Range(25, 95) * 1000
				}
				return t
			}
			mkPlan := func(fs []faultsSpec, at []int) []faultsCyc {
				ts := temps()
				plan := make([]faultsCyc, nCyc)
				for i := range plan {
					plan[i].Temp = ts[i]
				}
				for i, f := range fs {
					faultsApply(&plan[at[i]], f)
				}
				return plan
			}
			budgetSingles := ctx.Param("singles", 1100)
			budgetPairs := ctx.Param("pairs", 500)
			nTimeout := ctx.Param("timeouts", 6)
			if !ctx.Quick() {
				budgetSingles, budgetPairs, nTimeout = ctx.Param("singles", 1<<30), ctx.Param("pairs", 12000), ctx.Param("timeouts", 60)
			}
			type comboT struct {
				fan, sensor string
				curve       faultsCurve
			}
			var combos []comboT
			for _, f := range []string{"hwmon", "file", "cmd"} {
				for _, s := range []string{"hwmon", "file", "cmd"} {
					for _, c := range faultsCurves() {
						combos = append(combos, comboT{f, s, c})
					}
				}
			}
			var tcombos2 []comboT
			for _, cb := range combos {
				if cb.fan == "cmd" || cb.sensor == "cmd" {
					tcombos2 = append(tcombos2, cb)
				}
			}
			mkIn := func(cb comboT, plan []faultsCyc) faultsIn {
				in := faultsIn{Fan: cb.fan, Sensor: cb.sensor, Curve: cb.curve, EnableExists: cb.fan == "hwmon" && !rng.Chance(1, 5),
					HasRpm: rng.Chance(2, 3), NeverStop: false, Rpm: 1200, Alg: []string{"direct", "pid"}[rng.Intn(2)],
					OrigMode: rng.Pick([]int{0, 1, 2, 2, 2, 5}), OrigPwm: rng.Pick([]int{0, 77, 120, 255}), Plan: plan,
					GarbageSel: rng.Intn(64)}
				return in
			}
			// (a) every single fault (kind x component x cycle); sampled down to the budget for the quick tier
			var singles []job
			for _, cb := range combos {
				for _, hasRpm := range []bool{true, false} {
					for _, f := range faultsKinds(cb.fan, cb.sensor, hasRpm, false) {
						if !hasRpm && f.comp != "sensor" && rng.Chance(2, 3) {
							continue // the rpm-less variant differs only in the monitor actor
						}
						for k := 0; k < nCyc; k++ {
							in := mkIn(cb, mkPlan([]faultsSpec{f}, []int{k}))
							in.HasRpm = hasRpm
							singles = append(singles, job{in, []string{"single"}})
						}
					}
				}
			}
			if len(singles) > budgetSingles {
				// keep every (combo, fault) once at a seeded cycle, then fill up at random
				keep := map[int]bool{}
				for i := 0; i+nCyc <= len(singles) && len(keep) < budgetSingles; i += nCyc {
					keep[i+rng.Intn(nCyc)] = true
				}
				for len(keep) < budgetSingles {
					keep[rng.Intn(len(singles))] = true
				}
				var s2 []job
				for i, j := range singles {
					if keep[i] {
						s2 = append(s2, j)
					}
				}
				singles = s2
			}
			jobs = append(jobs, singles...)
			// (b) pairs of faults
			for i := 0; i < budgetPairs; i++ {
				cb := combos[rng.Intn(len(combos))]
				hasRpm := rng.Chance(2, 3)
				ks := faultsKinds(cb.fan, cb.sensor, hasRpm, false)
				f1, f2 := ks[rng.Intn(len(ks))], ks[rng.Intn(len(ks))]
				k1, k2 := rng.Intn(nCyc), rng.Intn(nCyc)
				if f1.comp == f2.comp && k1 == k2 {
					k2 = (k2 + 1) % nCyc
				}
				in := mkIn(cb, mkPlan([]faultsSpec{f1, f2}, []int{k1, k2}))
				in.HasRpm = hasRpm
				jobs = append(jobs, job{in, []string{"pair"}})
			}
			// (c) fault storms and quiet runs
			for i := 0; i < 60; i++ {
				cb := combos[rng.Intn(len(combos))]
				hasRpm := rng.Chance(2, 3)
				ks := faultsKinds(cb.fan, cb.sensor, hasRpm, false)
				var fs []faultsSpec
				var at []int
				for j := 0; j < rng.Range(0, 8); j++ {
					fs = append(fs, ks[rng.Intn(len(ks))])
					at = append(at, rng.Intn(nCyc))
				}
				in := mkIn(cb, mkPlan(fs, at))
				in.HasRpm = hasRpm
				jobs = append(jobs, job{in, []string{"storm"}})
			}
			// (d) never-stop fan that does not turn: stalled at max PWM -> control error -> restore
			for _, f := range []string{"hwmon", "file", "cmd"} {
				for _, s := range []string{"hwmon", "file"} {
					plan := make([]faultsCyc, nCyc)
					for i := range plan {
						plan[i].Temp = 95000
					}
					if f == "hwmon" {
						plan[1].ModeWrite = []string{"", "error", "garbage"}[rng.Intn(3)]
					}
					in := faultsIn{Fan: f, Sensor: s, Curve: faultsCurve{T: "linear"}, EnableExists: f == "hwmon", HasRpm: true, NeverStop: true,
						Rpm: 0, Alg: "direct", OrigMode: 2, OrigPwm: 100, Plan: plan}
					jobs = append(jobs, job{in, []string{"stall"}})
				}
			}
			// (f) per-operation plans (file-backed fans and sensors: every hooked file operation is a step):
			//     a fault on exactly the i-th operation of cycle k, for every i up to the longest cycle, both kinds;
			//     pairs in one cycle (e.g. the curve's sensor read and a write of the restore); "device gone from
			//     operation i on" (everything after i fails)
			nOps := ctx.Param("perop", 500)
			if !ctx.Quick() {
				nOps = ctx.Param("perop", 6000)
			}
			var fcombos []comboT
			for _, cb := range combos {
				if cb.fan != "cmd" && cb.sensor != "cmd" {
					fcombos = append(fcombos, cb)
				}
			}
			mkOps := func(cb comboT, ops [][]string) faultsIn {
				plan := mkPlan(nil, nil)
				in := mkIn(cb, plan[:len(ops)])
				in.Ops = ops
				return in
			}
			cnt := 0
			for i := 0; i < 26 && cnt < nOps; i++ {
				for _, kd := range []string{"error", "garbage"} {
					for _, cyc := range []int{0, 1, 2} {
						cb := fcombos[rng.Intn(len(fcombos))]
						ops := make([][]string, 4)
						row := make([]string, i+1)
						row[i] = kd
						ops[cyc] = row
						in := mkOps(cb, ops)
						in.HasRpm = rng.Chance(3, 4)
						jobs = append(jobs, job{in, []string{"perop-single"}})
						cnt++
					}
				}
			}
			for cnt < nOps {
				cb := fcombos[rng.Intn(len(fcombos))]
				ops := make([][]string, 4)
				cyc := rng.Intn(3)
				row := make([]string, 30)
				switch rng.Intn(3) {
				case 0: // two faults
					row[rng.Intn(16)] = []string{"error", "garbage"}[rng.Intn(2)]
					row[rng.Intn(22)] = []string{"error", "garbage"}[rng.Intn(2)]
				case 1: // the device is gone from operation i on
					for j := rng.Intn(18); j < len(row); j++ {
						row[j] = "error"
					}
				default: // a few random faults
					for j := 0; j < rng.Range(1, 5); j++ {
						row[rng.Intn(24)] = []string{"error", "garbage"}[rng.Intn(2)]
					}
				}
				ops[cyc] = row
				in := mkOps(cb, ops)
				in.HasRpm = rng.Chance(3, 4)
				jobs = append(jobs, job{in, []string{"perop-multi"}})
				cnt++
			}
			// (g) a failed PWM write exactly when the request reaches a value at which it then stays (curve saturated from
			//     cycle k on, direct algorithm), on fans whose PWM cannot be read back: cmd fan without getPwm, file / hwmon
			//     fan whose pwm file is unreadable in every cycle; readable fans with the write fault in k and a read fault in k+1.
			//     The later fault-free cycles must bring the fan to the value asked for.
			for _, fanK := range []string{"cmd-noget", "file-unreadable", "hwmon-unreadable", "file-pair", "cmd"} {
				for k := 0; k < 4; k++ {
					for _, wk := range []string{"error", "garbage"} {
						for _, hot := range []bool{true, false} {
							plan := make([]faultsCyc, nCyc)
							for i := range plan {
								// the moving average (window 10) jumps past the saturation point in one step
								switch {
								case hot && i < k:
									plan[i].Temp = 25000
								case hot:
									plan[i].Temp = 600000
								case i < k:
									plan[i].Temp = 95000
								default:
									plan[i].Temp = -600000
								}
							}
							plan[k].PwmWrite = wk
							fan := strings.SplitN(fanK, "-", 2)[0]
							in := faultsIn{Fan: fan, Sensor: []string{"hwmon", "file"}[rng.Intn(2)], Curve: faultsCurve{T: "linear"},
								EnableExists: fan == "hwmon", HasRpm: rng.Bool(), Rpm: 1200, Alg: "direct",
								OrigMode: rng.Pick([]int{1, 2}), OrigPwm: rng.Pick([]int{63, 120}), Plan: plan}
							switch fanK {
							case "cmd-noget":
								in.NoGetPwm = true
							case "file-unreadable", "hwmon-unreadable":
								for i := range plan {
									plan[i].PwmRead = "error"
								}
							case "file-pair":
								if k+1 < nCyc {
									plan[k+1].PwmRead = "error"
								}
							}
							jobs = append(jobs, job{in, []string{"stale-write-shape"}})
						}
					}
				}
			}
			// (h) whitespace-only / empty content for EVERY file read (sensor value, rpm input, pwm, pwm_enable read-back):
			//     shapes 0..5 of the garbage table, as a regime fault of each read component and as a per-operation
			//     fault on each of the first 15 operations of a cycle
			for _, cb := range fcombos {
				if cb.curve.T == "func" && cb.curve.Fn != "maximum" {
					continue
				}
				for _, comp := range []string{"sensor", "rpm", "pwmread"} {
					for sel := 0; sel < 6; sel++ {
						k := (sel + len(comp)) % 3
						in := mkIn(cb, mkPlan([]faultsSpec{{comp, "garbage", 0}}, []int{k}))
						in.HasRpm, in.GarbageSel = true, sel
						jobs = append(jobs, job{in, []string{"whitespace-read"}})
					}
				}
				for i := 0; i < 15; i++ {
					ops := make([][]string, 3)
					row := make([]string, i+1)
					row[i] = "garbage"
					ops[i%2] = row
					in := mkOps(cb, ops)
					in.HasRpm, in.EnableExists, in.GarbageSel = true, cb.fan == "hwmon", i%6
					jobs = append(jobs, job{in, []string{"whitespace-read", "perop-single"}})
				}
			}
			// (i) a single transient sensor fault under curves that read the sensor themselves (PID alone, function of a PID,
			//     PID in a nested function), for the direct and the PID control algorithm: the fan must be handed back,
			//     or the request must stay where the last good cycle put it
			for _, cv := range faultsCurves() {
				if !faultsCurveHasPid(cv) {
					continue
				}
				for _, alg := range []string{"direct", "pid"} {
					for _, sk := range []string{"hwmon", "file", "cmd"} {
						for _, k := range []int{0, 1, 3} {
							fan := []string{"hwmon", "file", "cmd"}[rng.Intn(3)]
							in := mkIn(comboT{fan, sk, cv}, mkPlan([]faultsSpec{{"sensor", []string{"error", "garbage"}[rng.Intn(2)], 0}}, []int{k}))
							in.Alg = alg
							jobs = append(jobs, job{in, []string{"transient-curve-fault"}})
						}
					}
				}
			}
			// (j) a command that fails while an orphaned child of it keeps holding its stdout/stderr (cmd sensors and cmd fans):
			//     the call must come back (after the 200 ms wait delay) with an error
			for i := 0; i < ctx.Param("linger", 14); i++ {
				cb := tcombos2[rng.Intn(len(tcombos2))]
				var f faultsSpec
				if cb.sensor == "cmd" && (cb.fan != "cmd" || rng.Bool()) {
					f = faultsSpec{"sensor", "linger", 0}
				} else {
					f = faultsSpec{[]string{"pwmwrite", "rpm", "pwmread"}[rng.Intn(3)], "linger", 0}
				}
				plan := mkPlan([]faultsSpec{f}, []int{rng.Intn(3)})
				in := mkIn(cb, plan[:4])
				in.HasRpm = true
				jobs = append(jobs, job{in, []string{"single", "lingering-child"}})
			}
			// (e) timeouts (2 s per command): few, on command components only
			var tcombos []comboT
			for _, cb := range combos {
				if cb.fan == "cmd" || cb.sensor == "cmd" {
					tcombos = append(tcombos, cb)
				}
			}
			for i := 0; i < nTimeout; i++ {
				cb := tcombos[rng.Intn(len(tcombos))]
				var f faultsSpec
				if cb.sensor == "cmd" && (cb.fan != "cmd" || rng.Bool()) {
					f = faultsSpec{"sensor", "timeout", 0}
				} else {
					f = faultsSpec{[]string{"pwmwrite", "rpm", "pwmread"}[rng.Intn(3)], "timeout", 0}
				}
				plan := mkPlan([]faultsSpec{f}, []int{rng.Intn(3)})
				in := mkIn(cb, plan[:3])
				in.HasRpm = true
				jobs = append(jobs, job{in, []string{"single", "timeout"}})
			}
		}
		// run in parallel (every case has its own directory, ids and objects; hooks dispatch on the path)
		type result struct {
			obs  faultsObs
			coq  string
			tags []string
		}
		results := make([]result, len(jobs))
		for i := range jobs {
			faultsPrepare(ctx, i, jobs[i].in)
		}
		workers := ctx.Param("workers", 12)
		var wg sync.WaitGroup
		ch := make(chan int)
		for w := 0; w < workers; w++ {
			wg.Add(1)
			go func() {
				defer wg.Done()
				for i := range ch {
					o, c, t := faultsRun(ctx, i, jobs[i].in)
					results[i] = result{o, c, append(t, jobs[i].tags...)}
				}
			}()
		}
		for i := range jobs {
			ch <- i
		}
		close(ch)
		wg.Wait()
		for i, r := range results {
			nf := len(jobs[i].in.Ops) > 0
			for _, y := range jobs[i].in.Plan {
				if y.Sensor != "" || y.Rpm != "" || y.PwmRead != "" || y.PwmWrite != "" || y.ModeWrite != "" {
					nf = true
				}
			}
			ctx.Emit(Record{In: jobs[i].in, Obs: r.obs, Coq: r.coq, Tags: r.tags, NonTrv: nf})
		}
	}
}
