//go:build verif

package main

import (
	"encoding/json"
	"fmt"
	"os"
	"path/filepath"
	"regexp"
	"runtime"
	"sort"
	"strconv"
	"strings"

	"github.com/markusressel/fan2go/internal"
	"github.com/markusressel/fan2go/internal/configuration"
	"github.com/markusressel/fan2go/internal/fans"
	"github.com/markusressel/fan2go/internal/hwmon"
	"github.com/markusressel/fan2go/internal/sensors"
	"github.com/prometheus/client_golang/prometheus"
)

// driver `hwmon` (C17): a fake hwmon tree under ctx.WorkDir enumerated by the
// gosensors stand-in in a chosen order, hwmon sensor/fan entries in
// configuration.CurrentConfig, then the real internal.InitializeObjects
// (GetChips -> GetFans/GetTempSensors -> initializeSensors -> initializeFans ->
// UpdateFanConfigFromHwMonControllers -> setFanConfigPaths).  Observed: the
// paths every configured entry ended up with, or the error class and which
// entry IDs the error text contains, or a panic.

type hwmonFanFeat struct {
	Ch    int  `json:"ch"`
	Input bool `json:"input"` // fanN_input present (otherwise only fanN_min: feature without input)
	Pwm   bool `json:"pwm"`   // pwmN and pwmN_enable present
	// content of fanN_input (and pwmN) at discovery time: "" = a plausible reading,
	// "0", "neg", "empty", "garbage", "dir" (a directory: present but unreadable, EISDIR)
	Val string `json:"val,omitempty"`
}
type hwmonTempFeat struct {
	N     int    `json:"n"`
	Input bool   `json:"input"`         // tempN_input present (otherwise only tempN_max)
	Val   string `json:"val,omitempty"` // content of tempN_input at discovery time, as for fans
}
type hwmonChip struct {
	Id    int             `json:"id"`   // directory hwmon<Id>; identity of the chip across enumeration orders
	Name  string          `json:"name"` // content of <dir>/name (chip prefix)
	Fans  []hwmonFanFeat  `json:"fans"`
	Temps []hwmonTempFeat `json:"temps"`
	// chip without any fan or temperature feature (GetChips must skip it):
	// "empty" = empty directory (no name file), "name" = only the name file,
	// "labels" = name + *_label / in0_input / power1_* files (a battery or power supply)
	Bare string `json:"bare,omitempty"`
}
type hwmonSensorSel struct {
	Pattern string `json:"pattern"`
	Index   int    `json:"index"`
}
type hwmonFanSel struct {
	Pattern string `json:"pattern"`
	Index   int    `json:"index"`
	Rpm     int    `json:"rpm"`
	Pwm     int    `json:"pwm"`
}
type hwmonIn struct {
	Chips   []hwmonChip      `json:"chips"` // in enumeration order
	Sensors []hwmonSensorSel `json:"sensors"`
	Fans    []hwmonFanSel    `json:"fans"`
	Daemon  bool             `json:"daemon,omitempty"` // additionally push a failing start-up through internal.RunDaemon
}

type hwmonPath struct {
	Chip int `json:"chip"` // chip Id, -1 if the directory is not a chip of the tree
	Kind int `json:"kind"` // 1 fanN_input, 2 pwmN, 3 pwmN_enable, 4 tempN_input, 0 anything else
	N    int `json:"n"`
}
type hwmonObs struct {
	Kind          string         `json:"kind"` // ok | err | crash
	ErrClass      int            `json:"err_class,omitempty"`
	Named         [][2]int       `json:"named,omitempty"` // (0 sensor | 1 fan, position) of every entry whose ID occurs in the error text
	NamesPlatform bool           `json:"names_platform,omitempty"`
	RuntimeError  bool           `json:"runtime_error,omitempty"`
	Sensors       []hwmonPath    `json:"sensors,omitempty"`
	Fans          [][3]hwmonPath `json:"fans,omitempty"`
	PwmMissing    int            `json:"pwm_file_missing,omitempty"` // bound fans whose PwmPath does not exist (observation only)
	Daemon        string         `json:"daemon,omitempty"`           // RunDaemon on the same input: fatal | crash | other:<..>
	Platforms     []string       `json:"platforms,omitempty"`
	NilCtrl       int            `json:"nil_controllers,omitempty"` // nil entries returned by hwmon.GetChips
	DiscoveryDied bool           `json:"discovery_panicked,omitempty"`
}

var hwmonCaseNo int

var (
	hwmonReFanInput = regexp.MustCompile(`^fan(-?\d+)_input$`)
	hwmonRePwm      = regexp.MustCompile(`^pwm(-?\d+)$`)
	hwmonRePwmEn    = regexp.MustCompile(`^pwm(-?\d+)_enable$`)
	hwmonReTempIn   = regexp.MustCompile(`^temp(-?\d+)_input$`)
)

func hwmonParsePath(p string, dirs map[string]int) hwmonPath {
	res := hwmonPath{Chip: -1, Kind: 0, N: -1}
	if id, ok := dirs[filepath.Dir(p)]; ok {
		res.Chip = id
	}
	base := filepath.Base(p)
	for kind, re := range map[int]*regexp.Regexp{1: hwmonReFanInput, 2: hwmonRePwm, 3: hwmonRePwmEn, 4: hwmonReTempIn} {
		if m := re.FindStringSubmatch(base); m != nil {
			n, err := strconv.Atoi(m[1])
			if err == nil {
				res.Kind, res.N = kind, n
			}
		}
	}
	return res
}

func hwmonCPath(p hwmonPath) string {
	return "(" + cZ(p.Chip) + ", " + cZ(p.Kind) + ", " + cZ(p.N) + ")"
}

// hwmonGuarded runs f, telling a Go runtime error from any other panic.
func hwmonGuarded(f func()) (panicked bool, isRuntime bool, text string) {
	defer func() {
		if r := recover(); r != nil {
			panicked = true
			_, isRuntime = r.(runtime.Error)
			text = fmt.Sprint(r)
		}
	}()
	f()
	return
}

// hwmonWriteVal writes a device file whose content is chosen by val (def = the plausible reading).
// Position and channel of a device depend on the presence of the file only, never on its content.
func hwmonWriteVal(path, val, def string) {
	switch val {
	case "0":
		hwmonWrite(path, "0\n")
	case "neg":
		hwmonWrite(path, "-5000\n")
	case "empty":
		hwmonWrite(path, "")
	case "garbage":
		hwmonWrite(path, "N/A \x00\xff\n")
	case "dir":
		if err := os.MkdirAll(path, 0o755); err != nil {
			panic(err)
		}
	default:
		hwmonWrite(path, def)
	}
}

func hwmonWrite(path, content string) {
	if err := os.WriteFile(path, []byte(content), 0o644); err != nil {
		panic(err)
	}
}

// hwmonReadBound reads the paths every configured entry ended up with from the real registries.
func hwmonReadBound(in hwmonIn, obsp *hwmonObs, dirs map[string]int, sid, fid func(int) string) {
	obs := obsp
	for i := range in.Sensors {
		p := hwmonPath{Chip: -1, Kind: 0, N: -1}
		if s, ok := sensors.GetSensor(sid(i)); ok {
			if hs, ok := s.(*sensors.HwmonSensor); ok {
				p = hwmonParsePath(hs.Input, dirs)
			}
		}
		obs.Sensors = append(obs.Sensors, p)
	}
	for i := range in.Fans {
		ps := [3]hwmonPath{{-1, 0, -1}, {-1, 0, -1}, {-1, 0, -1}}
		if f, ok := fans.GetFan(fid(i)); ok {
			if hf, ok := f.(*fans.HwMonFan); ok && hf.Config.HwMon != nil {
				h := hf.Config.HwMon
				ps = [3]hwmonPath{hwmonParsePath(h.RpmInputPath, dirs), hwmonParsePath(h.PwmPath, dirs), hwmonParsePath(h.PwmEnablePath, dirs)}
				if _, err := os.Stat(h.PwmPath); err != nil {
					obs.PwmMissing++
				}
			}
		}
		obs.Fans = append(obs.Fans, ps)
	}
}

func hwmonRun(ctx *Ctx, in hwmonIn) (hwmonObs, string, []string) {
	hwmonCaseNo++
	root := filepath.Join(ctx.WorkDir, "hw"+itoa(hwmonCaseNo))
	if err := os.MkdirAll(root, 0o755); err != nil {
		panic(err)
	}
	defer os.RemoveAll(root)
	dirs := map[string]int{}
	var order []string
	for _, ch := range in.Chips {
		d := filepath.Join(root, "hwmon"+itoa(ch.Id))
		_ = os.MkdirAll(d, 0o755)
		dirs[d] = ch.Id
		order = append(order, "hwmon"+itoa(ch.Id))
		if ch.Bare != "empty" {
			hwmonWrite(filepath.Join(d, "name"), ch.Name+"\n")
		}
		if ch.Bare == "labels" {
			for _, fn := range []string{"fan1_label", "temp1_label", "in0_input", "in0_label", "power1_average", "power1_label", "uevent"} {
				hwmonWrite(filepath.Join(d, fn), "x\n")
			}
		}
		if ch.Bare != "" {
			continue
		}
		for _, f := range ch.Fans {
			if f.Input {
				hwmonWriteVal(filepath.Join(d, "fan"+itoa(f.Ch)+"_input"), f.Val, "1200\n")
			} else {
				hwmonWrite(filepath.Join(d, "fan"+itoa(f.Ch)+"_min"), "0\n")
			}
			if f.Pwm {
				pv := f.Val
				if pv == "dir" || pv == "neg" {
					pv = "empty"
				}
				hwmonWriteVal(filepath.Join(d, "pwm"+itoa(f.Ch)), pv, "128\n")
				hwmonWrite(filepath.Join(d, "pwm"+itoa(f.Ch)+"_enable"), "2\n")
			}
		}
		for _, t := range ch.Temps {
			if t.Input {
				hwmonWriteVal(filepath.Join(d, "temp"+itoa(t.N)+"_input"), t.Val, "42000\n")
			} else {
				hwmonWrite(filepath.Join(d, "temp"+itoa(t.N)+"_max"), "90000\n")
			}
		}
	}
	hwmonWrite(filepath.Join(root, "order"), strings.Join(order, "\n")+"\n")
	os.Setenv("VERIF_HWMON_ROOT", root)

	// the platform string the real GetChips computes per chip (skipped chips: the same formula)
	platform := map[int]string{}
	for i, ch := range in.Chips {
		name := ch.Name
		if ch.Bare == "empty" {
			name = "hwmon" + itoa(ch.Id) // no name file: the stand-in falls back to the directory name
		}
		platform[ch.Id] = fmt.Sprintf("%s-isa-%d%03x", name, 0, 0x290+i)
	}
	present := map[int]bool{} // chips GetChips did not skip
	nilControllers := 0       // nil entries in the controller list (never legitimate)
	discoveryPanicked, _, _ := hwmonGuarded(func() {
		for _, c := range hwmon.GetChips() {
			if c == nil {
				nilControllers++
				continue
			}
			if id, ok := dirs[c.Path]; ok {
				platform[id] = c.Platform
				present[id] = true
			}
		}
	})

	// oracle tables from the real regexp package
	var patterns []string
	patId := map[string]int{}
	pid := func(p string) int {
		if id, ok := patId[p]; ok {
			return id
		}
		patId[p] = len(patterns)
		patterns = append(patterns, p)
		return patId[p]
	}
	for _, s := range in.Sensors {
		pid(s.Pattern)
	}
	for _, f := range in.Fans {
		pid(f.Pattern)
	}
	var invalid []int
	var matchPairs []string
	matchCount := map[int]int{}
	matched := map[int][]int{} // pattern id -> matching chip ids in enumeration order
	for id, p := range patterns {
		if _, err := regexp.Compile("(?i)" + p); err != nil {
			invalid = append(invalid, id)
			continue
		}
		for _, ch := range in.Chips {
			if ok, _ := regexp.MatchString("(?i)"+p, platform[ch.Id]); ok {
				matchPairs = append(matchPairs, "("+cZ(id)+", "+cZ(ch.Id)+")")
				if present[ch.Id] { // tags only: chips without any usable feature are not controllers
					matchCount[id]++
					matched[id] = append(matched[id], ch.Id)
				}
			}
		}
	}

	// configuration
	tagc := itoa(hwmonCaseNo)
	sid := func(i int) string { return "sE" + tagc + "x" + itoa(i) + "q" }
	fid := func(i int) string { return "fE" + tagc + "x" + itoa(i) + "q" }
	mkConfig := func() {
		cfg := configuration.Configuration{DbPath: filepath.Join(root, "fan2go.db")}
		for i, s := range in.Sensors {
			cfg.Sensors = append(cfg.Sensors, configuration.SensorConfig{
				ID:    sid(i),
				HwMon: &configuration.HwMonSensorConfig{Platform: s.Pattern, Index: s.Index},
			})
		}
		for i, f := range in.Fans {
			cfg.Fans = append(cfg.Fans, configuration.FanConfig{
				ID:    fid(i),
				Curve: "none",
				HwMon: &configuration.HwMonFanConfig{Platform: f.Pattern, Index: f.Index, RpmChannel: f.Rpm, PwmChannel: f.Pwm},
			})
		}
		configuration.CurrentConfig = cfg
		// statistics.Register is prometheus.MustRegister on the default registerer:
		// a fresh one per run, exactly as in a fresh process
		prometheus.DefaultRegisterer = prometheus.NewRegistry()
	}

	var obs hwmonObs
	for _, ch := range in.Chips {
		obs.Platforms = append(obs.Platforms, platform[ch.Id])
	}
	obs.NilCtrl = nilControllers
	obs.DiscoveryDied = discoveryPanicked
	mkConfig()
	var err error
	panicked, isRt, ptext := hwmonGuarded(func() { _, err = internal.InitializeObjects() })
	switch {
	case panicked:
		obs.Kind = "crash"
		obs.RuntimeError = isRt
		_ = ptext
	case err != nil:
		obs.Kind = "err"
		msg := err.Error()
		switch {
		case strings.Contains(msg, "no hwmon fan matched"):
			obs.ErrClass = 2
		case strings.Contains(msg, "failed to match platform regex"):
			obs.ErrClass = 1
		case strings.Contains(msg, "couldn't find hwmon device with platform"):
			obs.ErrClass = 3
		case strings.Contains(msg, "with index"):
			obs.ErrClass = 4
		default:
			obs.ErrClass = 9
		}
		for i := range in.Sensors {
			if strings.Contains(msg, sid(i)) {
				obs.Named = append(obs.Named, [2]int{0, i})
			}
		}
		for i, f := range in.Fans {
			if strings.Contains(msg, fid(i)) {
				obs.Named = append(obs.Named, [2]int{1, i})
			}
			if f.Pattern != "" && obs.ErrClass != 2 && strings.Contains(msg, f.Pattern) {
				obs.NamesPlatform = true
			}
		}
		for _, s := range in.Sensors {
			if s.Pattern != "" && strings.Contains(msg, "'"+s.Pattern+"'") {
				obs.NamesPlatform = true
			}
		}
	default:
		obs.Kind = "ok"
		readPanicked, readRt, _ := hwmonGuarded(func() { hwmonReadBound(in, &obs, dirs, sid, fid) })
		if readPanicked {
			obs = hwmonObs{Kind: "crash", RuntimeError: readRt, Platforms: obs.Platforms}
		}
	}
	// the same start-up through the daemon entry point (failing start-ups only:
	// a successful one would go on to run the controllers)
	if in.Daemon && obs.Kind != "ok" {
		mkConfig()
		p, rt, text := hwmonGuarded(func() { internal.RunDaemon() })
		switch {
		case p && rt:
			obs.Daemon = "crash"
		case p && text == "":
			obs.Daemon = "fatal" // ui.Fatal: pterm prints the message, then panics with ""
		case p:
			obs.Daemon = "other-panic"
		default:
			obs.Daemon = "returned"
		}
	}

	// ---- Coq term ----
	var raws []string
	for _, ch := range in.Chips {
		var ff, tt []string
		if ch.Bare != "" { // no feature files were written
			ch.Fans, ch.Temps = nil, nil
		}
		for _, f := range ch.Fans {
			ff = append(ff, "("+cZ(f.Ch)+", "+cBool(f.Input)+")")
		}
		for _, t := range ch.Temps {
			tt = append(tt, "("+cZ(t.N)+", "+cBool(t.Input)+")")
		}
		raws = append(raws, cRec("mkRaw", cZ(ch.Id), cZ(ch.Id), cList(ff), cList(tt)))
	}
	var ss, fs []string
	for _, s := range in.Sensors {
		ss = append(ss, cRec("mkSensorSel", cZ(patId[s.Pattern]), cZ(s.Index)))
	}
	for _, f := range in.Fans {
		fs = append(fs, cRec("mkFanSel", cZ(patId[f.Pattern]), cZ(f.Index), cZ(f.Rpm), cZ(f.Pwm)))
	}
	var o string
	switch obs.Kind {
	case "crash":
		o = "OCrash"
	case "err":
		var nm []string
		for _, ki := range obs.Named {
			nm = append(nm, "("+cZ(ki[0])+", "+cZ(ki[1])+")")
		}
		o = cRec("OErr", cZ(obs.ErrClass), cList(nm))
	default:
		var sp, fp []string
		for _, p := range obs.Sensors {
			sp = append(sp, hwmonCPath(p))
		}
		for _, p := range obs.Fans {
			fp = append(fp, "("+hwmonCPath(p[0])+", "+hwmonCPath(p[1])+", "+hwmonCPath(p[2])+")")
		}
		o = cRec("OOk", cList(sp), cList(fp))
	}
	coq := cRec("mkCase", cList(raws), cZList(invalid), cList(matchPairs), cList(ss), cList(fs), o)

	// ---- tags ----
	tags := []string{"chips=" + itoa(len(in.Chips)), "result=" + obs.Kind}
	if obs.Kind == "err" {
		tags = append(tags, "errclass="+itoa(obs.ErrClass))
		if len(obs.Named) > 0 {
			tags = append(tags, "err-names-entry")
		}
		if obs.NamesPlatform {
			tags = append(tags, "err-names-platform")
		}
	}
	if obs.Kind == "crash" && obs.RuntimeError {
		tags = append(tags, "runtime-error")
	}
	if obs.NilCtrl > 0 {
		tags = append(tags, "obs:nil-controller-in-GetChips-result")
	}
	if obs.DiscoveryDied {
		tags = append(tags, "obs:GetChips-panicked")
	}
	nBare := 0
	for i, ch := range in.Chips {
		if ch.Bare != "" || (len(hwmonFansWithInput(ch)) == 0 && hwmonTempsWithInput(ch) == 0) {
			nBare++
			switch {
			case i == 0:
				tags = append(tags, "empty-chip:first")
			case i == len(in.Chips)-1:
				tags = append(tags, "empty-chip:last")
			default:
				tags = append(tags, "empty-chip:between")
			}
			if ch.Bare != "" {
				tags = append(tags, "empty-chip:kind="+ch.Bare)
			} else {
				tags = append(tags, "empty-chip:kind=features-without-input")
			}
		}
	}
	for _, ch := range in.Chips {
		for _, f := range ch.Fans {
			if f.Input && f.Val != "" {
				tags = append(tags, "content:fan-input="+f.Val)
			}
		}
		for _, tf := range ch.Temps {
			if tf.Input && tf.Val != "" {
				tags = append(tags, "content:temp-input="+tf.Val)
			}
		}
	}
	if obs.PwmMissing > 0 {
		tags = append(tags, "obs:bound-pwm-file-missing")
	}
	if obs.Daemon != "" {
		tags = append(tags, "daemon="+obs.Daemon)
	}
	multi := false
	for _, s := range in.Sensors {
		switch n := matchCount[patId[s.Pattern]]; {
		case n == 0:
			tags = append(tags, "sensor:no-chip")
		case n == 1:
			tags = append(tags, "sensor:one-chip")
		default:
			tags = append(tags, "sensor:several-chips(out-of-quantifier)")
			multi = true
		}
	}
	for _, f := range in.Fans {
		switch n := matchCount[patId[f.Pattern]]; {
		case n == 0:
			tags = append(tags, "fan:no-chip")
		case n == 1:
			tags = append(tags, "fan:one-chip")
		default:
			tags = append(tags, "fan:several-chips(out-of-quantifier)")
			multi = true
		}
		switch {
		case f.Index > 0 && f.Rpm == 0:
			tags = append(tags, "fan:by-index")
		case f.Index == 0 && f.Rpm > 0:
			tags = append(tags, "fan:by-rpmChannel")
		default:
			tags = append(tags, "fan:selector-shape-rejected-by-validator")
		}
		if f.Pwm == 0 {
			tags = append(tags, "fan:pwm-defaulted")
		} else {
			tags = append(tags, "fan:pwm-explicit")
		}
	}
	if len(invalid) > 0 {
		tags = append(tags, "invalid-regex")
	}
	// last-match (sensors) vs first-match (fans) with several matching chips: observation only
	if multi && obs.Kind == "ok" {
		where := func(kind string, ids []int, chip int) {
			if len(ids) < 2 {
				return
			}
			switch chip {
			case ids[0]:
				tags = append(tags, "obs:"+kind+"-several-chips-bound-to-first-match")
			case ids[len(ids)-1]:
				tags = append(tags, "obs:"+kind+"-several-chips-bound-to-last-match")
			default:
				tags = append(tags, "obs:"+kind+"-several-chips-bound-to-middle-match")
			}
		}
		for i, s := range in.Sensors {
			where("sensor", matched[patId[s.Pattern]], obs.Sensors[i].Chip)
		}
		for i, f := range in.Fans {
			where("fan", matched[patId[f.Pattern]], obs.Fans[i][0].Chip)
		}
	}
	sort.Strings(tags)
	return obs, coq, tags
}

// ---------------------------------------------------------------- generators

var hwmonNames = []string{"nct6798", "nct6775", "it8728", "k10temp", "amdgpu", "coretemp", "thinkpad", "NCT6687", "nvme", "acpitz"}

func hwmonGenChip(rng *Rng, id int, name string, hostile bool) hwmonChip {
	ch := hwmonChip{Id: id, Name: name}
	kind := rng.Intn(10)
	nf, nt := 0, 0
	switch {
	case kind < 5: // fans and temps
		nf, nt = rng.Range(1, 5), rng.Range(1, 5)
	case kind < 7: // temps only
		nt = rng.Range(1, 6)
	case kind < 9: // fans only
		nf = rng.Range(1, 6)
	default: // empty, or only features without an input (GetChips skips it)
		if rng.Bool() {
			ch.Fans = append(ch.Fans, hwmonFanFeat{Ch: rng.Range(1, 4), Input: false})
		}
		if rng.Bool() {
			ch.Temps = append(ch.Temps, hwmonTempFeat{N: rng.Range(1, 4), Input: false})
		}
		return ch
	}
	pick := func(n, hi int) []int {
		set := map[int]bool{}
		for len(set) < n {
			set[rng.Range(1, hi)] = true
		}
		var xs []int
		for x := range set {
			xs = append(xs, x)
		}
		sort.Ints(xs)
		return xs
	}
	hi := 9
	if hostile {
		hi = 12 // two-digit channels: fan10 sorts after fan9 numerically, before it lexically
	}
	for _, c := range pick(nf, hi) {
		ff := hwmonFanFeat{Ch: c, Input: !rng.Chance(1, 6), Pwm: rng.Chance(4, 5)}
		if ff.Input && rng.Chance(1, 4) {
			ff.Val = []string{"0", "0", "empty", "garbage", "dir"}[rng.Intn(5)]
		}
		ch.Fans = append(ch.Fans, ff)
	}
	for _, n := range pick(nt, hi) {
		tf := hwmonTempFeat{N: n, Input: !rng.Chance(1, 6)}
		if tf.Input && rng.Chance(1, 3) {
			tf.Val = []string{"0", "0", "neg", "empty", "garbage", "dir"}[rng.Intn(6)]
		}
		ch.Temps = append(ch.Temps, tf)
	}
	return ch
}

func hwmonFlipCase(rng *Rng, s string) string {
	b := []byte(s)
	for i := range b {
		if rng.Bool() {
			if b[i] >= 'a' && b[i] <= 'z' {
				b[i] -= 32
			} else if b[i] >= 'A' && b[i] <= 'Z' {
				b[i] += 32
			}
		}
	}
	return string(b)
}

// a pattern aimed at the chip called name
func hwmonPatternFor(rng *Rng, name string) string {
	switch rng.Intn(6) {
	case 0:
		return name
	case 1:
		return hwmonFlipCase(rng, name)
	case 2:
		return "^" + name + "-isa-"
	case 3:
		return name + "-isa-[0-9a-f]+$"
	case 4:
		return name[:len(name)-1] + "." // last character as a wildcard
	default:
		return "^" + hwmonFlipCase(rng, name)
	}
}

func hwmonFansWithInput(ch hwmonChip) []int {
	var xs []int
	for _, f := range ch.Fans {
		if f.Input {
			xs = append(xs, f.Ch)
		}
	}
	return xs
}
func hwmonTempsWithInput(ch hwmonChip) int {
	n := 0
	for _, t := range ch.Temps {
		if t.Input {
			n++
		}
	}
	return n
}

func hwmonGenCase(rng *Rng, hostile bool, good bool) hwmonIn {
	in := hwmonIn{}
	n := rng.Range(1, 4)
	names := map[string]bool{}
	for i := 0; i < n; i++ {
		name := hwmonNames[rng.Intn(len(hwmonNames))]
		for names[name] && !(hostile && rng.Chance(1, 3)) { // hostile: the same chip name twice (e.g. two nvme)
			name = hwmonNames[rng.Intn(len(hwmonNames))]
		}
		names[name] = true
		in.Chips = append(in.Chips, hwmonGenChip(rng, i+1, name, hostile))
	}
	// good: every entry aims at a chip that has such devices and names an existing one
	pattern := func(wantFans bool) (string, *hwmonChip) {
		k := rng.Intn(20)
		if good {
			k = 0
		}
		switch {
		case k < 13:
			c := &in.Chips[rng.Intn(len(in.Chips))]
			for try := 0; good && try < 12; try++ {
				if (wantFans && len(hwmonFansWithInput(*c)) > 0) || (!wantFans && hwmonTempsWithInput(*c) > 0) {
					break
				}
				c = &in.Chips[rng.Intn(len(in.Chips))]
			}
			return hwmonPatternFor(rng, c.Name), c
		case k < 16: // unknown platform
			return []string{"asus-ec", "nzxt", "^corsair", "dell_smm-isa-.*"}[rng.Intn(4)], nil
		case k < 18 || !hostile: // may match several chips
			c := &in.Chips[rng.Intn(len(in.Chips))]
			return []string{"nct", "isa", ".*", "", "temp", "-isa-029", "N"}[rng.Intn(7)], c
		default: // does not compile
			return []string{"(", "[a-", "nct(6798", "*nct"}[rng.Intn(4)], nil
		}
	}
	ns := rng.Intn(3)
	nf := rng.Intn(4)
	if ns+nf == 0 {
		if rng.Bool() {
			ns = 1
		} else {
			nf = 1
		}
	}
	for i := 0; i < ns; i++ {
		p, c := pattern(false)
		idx := rng.Range(1, 6)
		if c != nil {
			nt := hwmonTempsWithInput(*c)
			k := rng.Intn(10)
			if good {
				k = 0
			}
			switch {
			case k < 6 && nt > 0:
				idx = rng.Range(1, nt) // existing
			case k < 8:
				idx = nt + rng.Range(1, 2) // just past the end
			case k < 9 && len(c.Temps) > 0:
				idx = c.Temps[rng.Intn(len(c.Temps))].N // the file number instead of the ordinal (a plausible user mistake)
			default:
				if hostile {
					idx = rng.Range(-2, 0)
				}
			}
		}
		in.Sensors = append(in.Sensors, hwmonSensorSel{Pattern: p, Index: idx})
	}
	for i := 0; i < nf; i++ {
		p, c := pattern(true)
		sel := hwmonFanSel{Pattern: p}
		var chans []int
		if c != nil {
			chans = hwmonFansWithInput(*c)
		}
		byIndex := rng.Bool()
		existing := (good || rng.Chance(2, 3)) && len(chans) > 0
		if byIndex {
			if existing {
				sel.Index = rng.Range(1, len(chans))
			} else {
				sel.Index = len(chans) + rng.Range(1, 3)
			}
		} else {
			if existing {
				sel.Rpm = chans[rng.Intn(len(chans))]
			} else {
				sel.Rpm = rng.Range(1, 13) // may hit a feature without an input or nothing at all
			}
		}
		switch rng.Intn(4) {
		case 0, 1: // defaulted
		case 2:
			if len(chans) > 0 {
				sel.Pwm = chans[rng.Intn(len(chans))]
			} else {
				sel.Pwm = rng.Range(1, 9)
			}
		default:
			sel.Pwm = rng.Range(1, 12)
		}
		if hostile {
			switch rng.Intn(8) {
			case 0:
				sel.Index, sel.Rpm = 0, 0 // neither
			case 1:
				sel.Index, sel.Rpm = rng.Range(1, 4), rng.Range(1, 9) // both
			case 2:
				if len(chans) > 0 { // both and consistent
					k := rng.Intn(len(chans))
					sel.Index, sel.Rpm = k+1, chans[k]
				}
			case 3:
				sel.Index = -rng.Range(1, 3)
			case 4:
				sel.Pwm = -rng.Range(1, 3)
			}
		}
		in.Fans = append(in.Fans, sel)
	}
	return in
}

func hwmonPermute(rng *Rng, chips []hwmonChip) []hwmonChip {
	res := append([]hwmonChip{}, chips...)
	for i := len(res) - 1; i > 0; i-- {
		j := rng.Intn(i + 1)
		res[i], res[j] = res[j], res[i]
	}
	return res
}

func init() {
	drivers["hwmon"] = func(ctx *Ctx) {
		emit := func(in hwmonIn, tags ...string) hwmonObs {
			obs, coq, t := hwmonRun(ctx, in)
			nontrivial := len(in.Chips) >= 2 && (len(in.Sensors)+len(in.Fans)) > 0
			ctx.Emit(Record{In: in, Obs: obs, Coq: coq, Tags: append(t, tags...), NonTrv: nontrivial})
			return obs
		}
		for _, raw := range append(ctx.Corpus, ctx.Replay...) {
			var in hwmonIn
			if json.Unmarshal(raw, &in) == nil && len(in.Chips) > 0 {
				emit(in, "corpus")
			}
		}
		if ctx.Replay != nil {
			return
		}
		rng := NewRng(ctx.Seed, "hwmon")
		n := ctx.Param("n", 700)
		orders := ctx.Param("orders", 2)
		daemonBudget := ctx.Param("daemon", 12)
		if !ctx.Quick() {
			n = ctx.Param("n", 6000)
			orders = ctx.Param("orders", 4)
			daemonBudget = ctx.Param("daemon", 100)
		}
		for i := 0; i < n; i++ {
			hostile := i%4 == 3
			good := !hostile && i%4 != 2
			in := hwmonGenCase(rng, hostile, good)
			stream := "structured-mixed"
			if hostile {
				stream = "hostile"
			} else if good {
				stream = "structured-all-devices-exist"
			}
			if i%3 == 0 {
				// chips with no fan and no temperature input, placed first / last / between
				bare := hwmonChip{Id: len(in.Chips) + 1, Name: hwmonNames[rng.Intn(len(hwmonNames))],
					Bare: []string{"empty", "name", "labels"}[rng.Intn(3)]}
				if len(in.Chips) == 4 {
					k := rng.Intn(4) // the chip some entries may name loses all its devices
					bare.Id, bare.Name = in.Chips[k].Id, in.Chips[k].Name
					in.Chips = append(append([]hwmonChip{}, in.Chips[:k]...), in.Chips[k+1:]...)
				}
				others := in.Chips
				var placements [][]hwmonChip
				placements = append(placements, append([]hwmonChip{bare}, others...))
				placements = append(placements, append(append([]hwmonChip{}, others...), bare))
				if len(others) >= 2 {
					placements = append(placements, append(append(append([]hwmonChip{}, others[:1]...), bare), others[1:]...))
				}
				for pi, chips := range placements {
					run := in
					run.Chips = chips
					if daemonBudget > 0 && pi == 0 {
						run.Daemon = true
					}
					obs := emit(run, stream, "with-empty-chip", "order=empty-"+[]string{"first", "last", "between"}[pi])
					if obs.Daemon != "" {
						daemonBudget--
					}
				}
				continue
			}
			for o := 0; o < orders; o++ {
				run := in
				otag := "order=identity"
				if o > 0 {
					run.Chips = hwmonPermute(rng, in.Chips)
					otag = "order=permuted"
				}
				if daemonBudget > 0 && o == 0 {
					run.Daemon = true
				}
				obs := emit(run, stream, otag)
				if obs.Daemon != "" {
					daemonBudget--
				}
				if len(in.Chips) == 1 {
					break
				}
			}
		}
	}
}
