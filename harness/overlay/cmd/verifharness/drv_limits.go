//go:build verif

package main

import (
	"encoding/json"
	"errors"
	"math"
	"os"
	"sort"

	"github.com/markusressel/fan2go/internal/configuration"
	"github.com/markusressel/fan2go/internal/fans"
)

// driver `limits` (C13): real fans.NewFan + AttachFanRpmCurveData / SetMinPwm /
// SetStartPwm / SetMaxPwm on hwmon, file and cmd fans; observes the returned
// error and GetMinPwm/GetStartPwm/GetMaxPwm after every call.
type limitsPoint struct {
	K int    `json:"k"`
	R string `json:"r"` // exact float64 (hex)
}
type limitsOp struct {
	// attach (a fresh map object holding Data) | attach_nil | attach_obj (map object #Obj AGAIN, with whatever it
	// holds by now) | attach_own (fan.AttachFanRpmCurveData(fan.GetFanRpmCurveData())) | update (fan.
	// UpdateFanRpmCurveValue(V, R)) | mutate (the caller writes / deletes key V of map object #Obj after it
	// was handed over) | min | start | max.  Map objects are numbered by the attach / attach_nil ops in order.
	Op    string        `json:"op"`
	Data  []limitsPoint `json:"data,omitempty"` // key-sorted, distinct keys
	V     int           `json:"v,omitempty"`
	Force bool          `json:"force,omitempty"`
	Obj   int           `json:"obj,omitempty"`
	R     string        `json:"r,omitempty"` // update / mutate: exact float64 (hex)
	Del   bool          `json:"del,omitempty"`
}
type limitsIn struct {
	Fan       string  `json:"fan"` // hwmon | file | cmd
	NeverStop bool    `json:"neverStop"`
	Min       *int    `json:"min"`
	Start     *int    `json:"start"`
	Max       *int    `json:"max"`
	Ops       []limitsOp `json:"ops"`
}
type limitsStep struct {
	Err  int    `json:"err"` // 0 nil, 1 os.ErrInvalid, 2 other error, 3 panic
	Lim  [3]int `json:"lim"` // min, start, max
	N    int    `json:"n"`   // number of points the fan holds afterwards (-1: no data)
	Given int   `json:"given,omitempty"` // attach-like calls: number of points in the map at call time
}
type limitsObs struct {
	Init  [3]int    `json:"init"`
	Steps []limitsStep `json:"steps"`
}

func limitsCpInt(p *int) *int {
	if p == nil {
		return nil
	}
	v := *p
	return &v
}

func limitsGetters(f fans.Fan) [3]int { return [3]int{f.GetMinPwm(), f.GetStartPwm(), f.GetMaxPwm()} }

func limitsRun(in limitsIn) (limitsObs, string) {
	cfg := configuration.FanConfig{
		ID: "limfan", NeverStop: in.NeverStop, Curve: "c",
		MinPwm: limitsCpInt(in.Min), StartPwm: limitsCpInt(in.Start), MaxPwm: limitsCpInt(in.Max),
	}
	kind := "HwMon"
	switch in.Fan {
	case "file":
		cfg.File = &configuration.FileFanConfig{Path: "/nonexistent/pwm", RpmPath: "/nonexistent/rpm"}
		kind = "FileK"
	case "cmd":
		cfg.Cmd = &configuration.CmdFanConfig{}
		kind = "CmdK"
	default:
		cfg.HwMon = &configuration.HwMonFanConfig{Platform: "p", Index: 1}
	}
	fan, err := fans.NewFan(cfg)
	if err != nil {
		panic(err)
	}
	var obs limitsObs
	obs.Init = limitsGetters(fan)
	ops := make([]string, 0, len(in.Ops))
	var objs []*map[int]float64 // the caller's map objects, one per attach / attach_nil op
	errCode := func(e error, p string) int {
		switch {
		case p != "":
			return 3
		case e == nil:
			return 0
		case errors.Is(e, os.ErrInvalid):
			return 1
		}
		return 2
	}
	// doAttach hands mp to the fan; the Coq case carries the content of the map AT CALL TIME
	doAttach := func(mp *map[int]float64, st *limitsStep) {
		snap := map[int]float64{}
		if mp != nil {
			for k, v := range *mp {
				snap[k] = v
			}
		}
		st.Given = len(snap)
		ops = append(ops, "(Attach "+cFPairs(snap)+")")
		var e error
		p := catch(func() { e = fan.AttachFanRpmCurveData(mp) })
		st.Err = errCode(e, p)
	}
	for _, o := range in.Ops {
		st := limitsStep{}
		silent := false // a harness action that is not a call on the fan: no step in the Coq case
		switch o.Op {
		case "attach", "attach_nil":
			m := map[int]float64{}
			for _, p := range o.Data {
				m[p.K] = pF(p.R)
			}
			objs = append(objs, &m)
			if o.Op == "attach" {
				doAttach(&m, &st)
			} else {
				doAttach(nil, &st)
			}
		case "attach_obj":
			if o.Obj < 0 || o.Obj >= len(objs) {
				panic("attach_obj: no such map object")
			}
			doAttach(objs[o.Obj], &st)
		case "attach_own":
			var own *map[int]float64
			if p := catch(func() { own = fan.GetFanRpmCurveData() }); p != "" {
				own = nil
			}
			doAttach(own, &st)
		case "update":
			ops = append(ops, cRec("UpdateCurve", cZ(o.V), cF(pF(o.R))))
			if p := catch(func() { fan.UpdateFanRpmCurveValue(o.V, pF(o.R)) }); p != "" {
				st.Err = 3
			}
		case "mutate":
			if o.Obj < 0 || o.Obj >= len(objs) {
				panic("mutate: no such map object")
			}
			if o.Del {
				delete(*objs[o.Obj], o.V)
			} else {
				(*objs[o.Obj])[o.V] = pF(o.R)
			}
			silent = true
		case "min":
			ops = append(ops, cRec("SetMin", cZ(o.V), cBool(o.Force)))
			if p := catch(func() { fan.SetMinPwm(o.V, o.Force) }); p != "" {
				st.Err = 3
			}
		case "start":
			ops = append(ops, cRec("SetStart", cZ(o.V), cBool(o.Force)))
			if p := catch(func() { fan.SetStartPwm(o.V, o.Force) }); p != "" {
				st.Err = 3
			}
		case "max":
			ops = append(ops, cRec("SetMax", cZ(o.V), cBool(o.Force)))
			if p := catch(func() { fan.SetMaxPwm(o.V, o.Force) }); p != "" {
				st.Err = 3
			}
		default:
			panic("unknown op " + o.Op)
		}
		if silent {
			continue
		}
		st.Lim = limitsGetters(fan)
		st.N = -1
		_ = catch(func() {
			if d := fan.GetFanRpmCurveData(); d != nil {
				st.N = len(*d)
			}
		})
		obs.Steps = append(obs.Steps, st)
	}
	lim := func(l [3]int) string { return "(" + cZ(l[0]) + ", " + cZ(l[1]) + ", " + cZ(l[2]) + ")" }
	steps := make([]string, len(obs.Steps))
	for i, s := range obs.Steps {
		steps[i] = "(" + cZ(s.Err) + ", " + lim(s.Lim) + ")"
	}
	coq := cRec("mkCase", kind, cBool(in.NeverStop), cOptZ(in.Min), cOptZ(in.Start), cOptZ(in.Max),
		cList(ops), lim(obs.Init), cList(steps))
	return obs, coq
}

// ---- curve generators -------------------------------------------------------
func limitsCurve(m map[int]float64) []limitsPoint {
	keys := make([]int, 0, len(m))
	for k := range m {
		keys = append(keys, k)
	}
	sort.Ints(keys)
	res := make([]limitsPoint, len(keys))
	for i, k := range keys {
		res[i] = limitsPoint{K: k, R: jF(m[k])}
	}
	return res
}

func limitsKeys(rng *Rng, dense bool) []int {
	if dense {
		ks := make([]int, 256)
		for i := range ks {
			ks[i] = i
		}
		return ks
	}
	n := rng.Range(1, 24)
	set := map[int]bool{}
	for len(set) < n {
		switch rng.Intn(8) {
		case 0:
			set[0] = true
		case 1:
			set[255] = true
		case 2:
			set[254] = true
		default:
			set[rng.Range(0, 255)] = true
		}
	}
	var ks []int
	for k := range set {
		ks = append(ks, k)
	}
	sort.Ints(ks)
	return ks
}

var limitsFamilies = []string{"ramp", "capped", "nonmonotone", "plateaus", "allzero", "single", "fractional",
	"first255", "neverstopping", "hostile-values", "hostile-keys", "two-maxima"}

// limitsGen returns a named RPM curve; every random choice comes from rng.
func limitsGen(rng *Rng, family string) map[int]float64 {
	m := map[int]float64{}
	dense := rng.Chance(1, 10)
	ks := limitsKeys(rng, dense)
	switch family {
	case "ramp": // zero below a threshold, then increasing
		th := rng.Pick(ks)
		for _, k := range ks {
			if k < th {
				m[k] = 0
			} else {
				m[k] = float64(300 + (k-th)*rng.Range(5, 12))
			}
		}
	case "capped": // increasing, then flat from some key on (max PWM below 255)
		th := rng.Pick(ks)
		cp := rng.Pick(ks)
		for _, k := range ks {
			switch {
			case k < th:
				m[k] = 0
			case k >= cp:
				m[k] = float64(300 + (cp-th)*10)
				if cp < th {
					m[k] = 300
				}
			default:
				m[k] = float64(300 + (k-th)*10)
			}
		}
	case "nonmonotone":
		for _, k := range ks {
			if rng.Chance(1, 4) {
				m[k] = 0
			} else {
				m[k] = float64(rng.Range(0, 3000))
			}
		}
	case "plateaus":
		v := 0
		for _, k := range ks {
			if rng.Chance(1, 3) {
				v += rng.Range(0, 500)
			}
			m[k] = float64(v)
		}
	case "allzero":
		for _, k := range ks {
			m[k] = 0
		}
	case "single":
		k := rng.Pick([]int{0, 1, 100, 254, 255, rng.Range(0, 255)})
		m[k] = limitsPickF(rng, []float64{0, 0.5, 1, 1200})
	case "fractional": // whole RPM = int(rpm): 0.4 and 0.9 do not count as spinning, 1.0 and 1.5 do
		vals := []float64{0, 0.4, 0.9, 0.999999, 1, 1.5, 1.999, 2, 2.5, 3.99, 700.4, 700.9, 701}
		for _, k := range ks {
			m[k] = limitsPickF(rng, vals)
		}
	case "first255": // the first non-zero RPM sits at key 255
		for _, k := range ks {
			m[k] = limitsPickF(rng, []float64{0, 0.4, 0.9})
		}
		m[255] = limitsPickF(rng, []float64{1, 900, 0.9})
	case "neverstopping":
		for _, k := range ks {
			m[k] = float64(400 + k*rng.Range(1, 9))
		}
	case "hostile-values":
		vals := []float64{math.NaN(), math.Inf(1), math.Inf(-1), -1, -0.5, -3000, 1e19, -1e19, 9.3e18, 9.2e18,
			math.Copysign(0, -1), 5e-324, 1e308, 0, 1, 1500}
		for _, k := range ks {
			m[k] = limitsPickF(rng, vals)
		}
	case "hostile-keys":
		for _, k := range ks {
			m[k] = float64(rng.Range(0, 2) * rng.Range(0, 2000))
		}
		for i := rng.Range(1, 3); i > 0; i-- {
			m[rng.Pick([]int{-300, -5, -1, 256, 257, 300, 100000})] = float64(rng.Range(0, 1) * rng.Range(1, 5000))
		}
	case "two-maxima": // the highest whole RPM is reached at several keys, also via different fractions
		top := float64(rng.Range(1, 2500))
		for _, k := range ks {
			switch rng.Intn(4) {
			case 0:
				m[k] = top
			case 1:
				m[k] = top + limitsPickF(rng, []float64{0.1, 0.5, 0.9})
			case 2:
				m[k] = top - limitsPickF(rng, []float64{0.1, 0.5, 1})
			default:
				m[k] = float64(rng.Range(0, int(top)))
			}
		}
	}
	return m
}

func limitsPickF(r *Rng, xs []float64) float64 { return xs[r.Intn(len(xs))] }

func limitsIsNonTrivial(in limitsIn) bool {
	if in.Fan != "hwmon" {
		return false
	}
	for _, o := range in.Ops {
		if (o.Op == "attach" && len(o.Data) > 0) || o.Op == "attach_own" || o.Op == "attach_obj" {
			return true
		}
	}
	return false
}

func init() {
	drivers["limits"] = func(ctx *Ctx) {
		emit := func(in limitsIn, tags ...string) {
			obs, coq := limitsRun(in)
			na := 0
			forced := false
			for _, o := range in.Ops {
				if o.Op == "attach" || o.Op == "attach_nil" || o.Op == "attach_obj" || o.Op == "attach_own" {
					na++
				} else if o.Force {
					forced = true
				}
			}
			tags = append(tags, "fan="+in.Fan, "attaches="+itoa(na))
			if forced {
				tags = append(tags, "forced-set")
			}
			cfgTag := "cfg="
			for _, p := range []*int{in.Min, in.Start, in.Max} {
				if p != nil {
					cfgTag += "1"
				} else {
					cfgTag += "0"
				}
			}
			tags = append(tags, cfgTag, "neverStop="+cBool(in.NeverStop))
			ctx.Emit(Record{In: in, Obs: obs, Coq: coq, Tags: tags, NonTrv: limitsIsNonTrivial(in)})
		}
		for _, raw := range append(ctx.Corpus, ctx.Replay...) {
			var in limitsIn
			if json.Unmarshal(raw, &in) == nil && in.Fan != "" {
				emit(in, "corpus")
			}
		}
		if ctx.Replay != nil {
			return
		}
		rng := NewRng(ctx.Seed, "limits")
		ip := func(v int) *int { return &v }
		attachOp := func(fam string) limitsOp {
			return limitsOp{Op: "attach", Data: limitsCurve(limitsGen(rng, fam))}
		}

		// (a) structured: every configuration combination x neverStop x every curve family,
		// followed by nothing / a second attachment of a different family / empty data / nil data
		for combo := 0; combo < 8; combo++ {
			for ns := 0; ns < 2; ns++ {
				for fi, fam := range limitsFamilies {
					for second := 0; second < 4; second++ {
						in := limitsIn{Fan: "hwmon", NeverStop: ns == 1}
						if combo&1 != 0 {
							in.Min = ip(rng.Pick([]int{0, 20, 30, 255}))
						}
						if combo&2 != 0 {
							in.Start = ip(rng.Pick([]int{0, 40, 254, 255}))
						}
						if combo&4 != 0 {
							in.Max = ip(rng.Pick([]int{0, 200, 255}))
						}
						in.Ops = append(in.Ops, attachOp(fam))
						tag := "single-attach"
						switch second {
						case 1:
							in.Ops = append(in.Ops, attachOp(limitsFamilies[(fi+1+rng.Intn(len(limitsFamilies)-1))%len(limitsFamilies)]))
							tag = "reattach"
						case 2:
							in.Ops = append(in.Ops, limitsOp{Op: "attach"})
							tag = "then-empty"
						case 3:
							in.Ops = append(in.Ops, limitsOp{Op: "attach_nil"})
							tag = "then-nil"
						}
						emit(in, "structured", "family="+fam, tag)
					}
				}
			}
		}

		// (a2) aliasing: the map handed to AttachFanRpmCurveData is the fan's OWN current map, the same
		// object as before, or an object the caller (or UpdateFanRpmCurveValue) changed in the meantime
		upd := func() limitsOp {
			return limitsOp{Op: "update", V: rng.Pick([]int{0, 3, 77, 128, 254, 255, rng.Range(0, 255)}),
				R: jF(limitsPickF(rng, []float64{0, 0.4, 1, 650, 1800, 5000, float64(rng.Range(1, 3000))}))}
		}
		for combo := 0; combo < 8; combo++ {
			for ns := 0; ns < 2; ns++ {
				for pat := 0; pat < 9; pat++ {
					in := limitsIn{Fan: "hwmon", NeverStop: ns == 1}
					if combo&1 != 0 {
						in.Min = ip(rng.Pick([]int{0, 20, 30, 255}))
					}
					if combo&2 != 0 {
						in.Start = ip(rng.Pick([]int{0, 40, 254, 255}))
					}
					if combo&4 != 0 {
						in.Max = ip(rng.Pick([]int{0, 200, 255}))
					}
					famA := rng.Pick([]int{0, 1, 2, 3, 6, 8, 11}) // families with something spinning, mostly
					famB := rng.Intn(len(limitsFamilies))
					a := attachOp(limitsFamilies[famA])
					tag := ""
					switch pat {
					case 0:
						tag = "own-after-updates"
						in.Ops = append(in.Ops, a)
						for j := rng.Intn(4); j > 0; j-- {
							in.Ops = append(in.Ops, upd())
						}
						in.Ops = append(in.Ops, limitsOp{Op: "attach_own"})
					case 1:
						tag = "same-object-twice"
						in.Ops = append(in.Ops, a, limitsOp{Op: "attach_obj", Obj: 0})
					case 2:
						tag = "caller-mutates-then-reattach"
						in.Ops = append(in.Ops, a)
						for j := rng.Range(1, 4); j > 0; j-- {
							in.Ops = append(in.Ops, limitsOp{Op: "mutate", Obj: 0, V: rng.Range(0, 255),
								R: jF(float64(rng.Range(0, 1) * rng.Range(1, 4000))), Del: rng.Chance(1, 4)})
						}
						in.Ops = append(in.Ops, limitsOp{Op: "attach_obj", Obj: 0})
					case 3:
						tag = "older-object-then-own"
						in.Ops = append(in.Ops, a, attachOp(limitsFamilies[famB]), upd(), limitsOp{Op: "attach_obj", Obj: 0}, limitsOp{Op: "attach_own"})
					case 4:
						tag = "own-without-attach"
						in.Ops = append(in.Ops, upd(), limitsOp{Op: "attach_own"}, upd(), limitsOp{Op: "attach_own"})
					case 5:
						tag = "own-nil"
						in.Ops = append(in.Ops, limitsOp{Op: "attach_own"}, a, limitsOp{Op: "attach_own"})
					case 6:
						tag = "caller-empties-then-own"
						in.Ops = append(in.Ops, a)
						for _, p := range a.Data {
							in.Ops = append(in.Ops, limitsOp{Op: "mutate", Obj: 0, V: p.K, Del: true})
						}
						in.Ops = append(in.Ops, limitsOp{Op: "attach_own"}, upd(), limitsOp{Op: "attach_own"})
					case 7:
						tag = "own-twice"
						in.Ops = append(in.Ops, a, upd(), limitsOp{Op: "attach_own"}, upd(), upd(), limitsOp{Op: "attach_own"})
					case 8:
						tag = "own-then-other"
						in.Ops = append(in.Ops, a, limitsOp{Op: "attach_own"}, attachOp(limitsFamilies[famB]), limitsOp{Op: "attach_own"})
					}
					emit(in, "aliasing", tag)
				}
			}
		}
		// file / cmd fans hand out a shared map: attaching it is a no-op
		for _, k := range []string{"file", "cmd"} {
			emit(limitsIn{Fan: k, NeverStop: rng.Bool(), Ops: []limitsOp{upd(), {Op: "attach_own"}, attachOp("ramp"), {Op: "attach_own"}}}, "aliasing", "own-other-kind")
		}

		// (b) random op sequences on all three fan kinds
		n := ctx.Param("n", 900)
		for i := 0; i < n; i++ {
			in := limitsIn{Fan: "hwmon", NeverStop: rng.Bool()}
			switch rng.Intn(10) {
			case 0:
				in.Fan = "file"
			case 1:
				in.Fan = "cmd"
			}
			if rng.Bool() {
				in.Min = ip(rng.Pick([]int{0, 1, 30, 254, 255, rng.Range(0, 255)}))
			}
			if rng.Bool() {
				in.Start = ip(rng.Pick([]int{0, 1, 40, 254, 255, rng.Range(0, 255)}))
			}
			if rng.Bool() {
				in.Max = ip(rng.Pick([]int{0, 1, 200, 254, 255, rng.Range(0, 255)}))
			}
			allowForce := rng.Chance(1, 6)
			setter := func() limitsOp {
				o := limitsOp{Op: []string{"min", "start", "max"}[rng.Intn(3)], V: rng.Pick([]int{0, 1, 254, 255, rng.Range(0, 255), rng.Range(-5, 300)})}
				if allowForce && rng.Chance(1, 2) {
					o.Force = true
				}
				return o
			}
			var tags []string
			for j := rng.Intn(3); j > 0; j-- { // setter calls before any data is attached
				in.Ops = append(in.Ops, setter())
			}
			na := rng.Range(1, 3)
			for a := 0; a < na; a++ {
				switch rng.Intn(14) {
				case 0:
					in.Ops = append(in.Ops, limitsOp{Op: "attach"})
					tags = append(tags, "empty-data")
				case 1:
					in.Ops = append(in.Ops, limitsOp{Op: "attach_nil"})
					tags = append(tags, "nil-data")
				default:
					fam := limitsFamilies[rng.Intn(len(limitsFamilies))]
					in.Ops = append(in.Ops, attachOp(fam))
					tags = append(tags, "family="+fam)
				}
				for j := rng.Intn(3); j > 0; j-- {
					in.Ops = append(in.Ops, setter())
				}
				// the data the fan carries keeps changing (RPM monitor), callers keep and reuse their maps
				if rng.Chance(1, 3) {
					for j := rng.Range(1, 3); j > 0; j-- {
						switch rng.Intn(5) {
						case 0, 1:
							in.Ops = append(in.Ops, limitsOp{Op: "update", V: rng.Pick([]int{0, 1, 128, 254, 255, rng.Range(0, 255)}),
								R: jF(limitsPickF(rng, []float64{0, 0.9, 1, 700, 1500, 9999, float64(rng.Range(0, 3000))}))})
							tags = append(tags, "update-curve")
						case 2:
							in.Ops = append(in.Ops, limitsOp{Op: "mutate", Obj: rng.Intn(a + 1), V: rng.Range(0, 255),
								R: jF(float64(rng.Range(0, 1)*rng.Range(1, 4000))), Del: rng.Chance(1, 3)})
							tags = append(tags, "caller-mutates")
						case 3:
							in.Ops = append(in.Ops, limitsOp{Op: "attach_obj", Obj: rng.Intn(a + 1)})
							tags = append(tags, "same-object-again")
						case 4:
							in.Ops = append(in.Ops, limitsOp{Op: "attach_own"})
							tags = append(tags, "attach-own")
						}
					}
				}
			}
			emit(in, append(tags, "random")...)
		}
	}
}
