//go:build verif

package main

import (
	"context"
	"encoding/json"
	"fmt"
	"os"
	"path/filepath"
	"sort"
	"strconv"
	"strings"
	"sync"
	"time"

	"github.com/markusressel/fan2go/internal/configuration"
	"github.com/markusressel/fan2go/internal/control_loop"
	"github.com/markusressel/fan2go/internal/controller"
	"github.com/markusressel/fan2go/internal/fans"
	"github.com/markusressel/fan2go/internal/persistence"
	"github.com/markusressel/fan2go/internal/util"
)

// driver `limitsrun` (C13, C02): the limits a fan REALLY runs with. The real
// DefaultFanController.Run is started on a real HwMonFan (temp files) with the
// real bbolt persistence holding what an earlier run stored (RPM curve), or
// nothing (placeholder curve for configured minPwm+maxPwm / initialization
// sequence on a simulated device). When the first control cycle evaluates the
// curve the driver reads GetMinPwm/GetStartPwm/GetMaxPwm; the request of every
// control cycle (lastSetPwm) and the values written to the pwm file are recorded.
// Expected (Coq): the boundaries of the C13 model computed from the STORED curve
// and the configuration, and every request = the rescaled curve value within them.
type limitsrunPoint struct {
	K int    `json:"k"`
	R string `json:"r"` // exact float64 (hex)
}
type limitsrunIn struct {
	Mode      string           `json:"mode"` // stored | placeholder | init
	NeverStop bool             `json:"neverStop"`
	Min       *int             `json:"min"`
	Start     *int             `json:"start"`
	Max       *int             `json:"max"`
	Stored    []limitsrunPoint `json:"stored,omitempty"` // mode stored: the RPM curve an earlier run saved
	Coarse    int              `json:"coarse"`           // configured PWM map: identity (0/1) or steps of this size
	V         int              `json:"v"`                // constant curve value
	Cycles    int              `json:"cycles"`
	SimStart  int              `json:"sim_start,omitempty"` // mode init: the simulated fan spins from this PWM on ...
	SimCap    int              `json:"sim_cap,omitempty"`   // ... and gains no RPM above this one
}
type limitsrunObs struct {
	Ret    int    `json:"ret"` // 0 regulation started, 1 Run returned an error before, 2 panic, 3 did not get there
	Err    string `json:"err,omitempty"`
	Lim    [3]int `json:"lim"`    // min, start, max when the first control cycle starts
	Reqs   []int  `json:"reqs"`   // request (lastSetPwm) of every control cycle
	Writes []int  `json:"writes"` // values written to the pwm file while regulating
	NStore int    `json:"n_stored"`
}

type limitsrunCurve struct {
	n      int
	v      int
	cycles int
	first  func()
	each   func()
	done   func()
}

func (c *limitsrunCurve) GetId() string { return "limitsrun_curve" }
func (c *limitsrunCurve) Evaluate() (int, error) {
	c.n++
	if c.n == 1 {
		c.first()
	} else {
		c.each() // the previous cycle's request is complete
	}
	if c.n == c.cycles+1 {
		c.done()
	}
	return c.v, nil
}
func (c *limitsrunCurve) CurrentValue() int { return c.v }

func limitsrunPwmMap(coarse int) map[int]int {
	pm := map[int]int{}
	for i := 0; i <= 255; i++ {
		if coarse > 1 {
			pm[i] = (i / coarse) * coarse
		} else {
			pm[i] = i
		}
	}
	return pm
}

func limitsrunRun(ctx *Ctx, seq int, in limitsrunIn) (limitsrunObs, string) {
	dir := filepath.Join(ctx.WorkDir, "limitsrun", strconv.Itoa(seq))
	os.RemoveAll(dir)
	os.MkdirAll(dir, 0755)
	if r, err := filepath.EvalSymlinks(dir); err == nil {
		dir = r
	}
	defer os.RemoveAll(dir)
	pwmPath, enPath, rpmPath := filepath.Join(dir, "pwm1"), filepath.Join(dir, "pwm1_enable"), filepath.Join(dir, "fan1_input")
	os.WriteFile(pwmPath, []byte("120"), 0644)
	os.WriteFile(enPath, []byte("2"), 0644)
	os.WriteFile(rpmPath, []byte("1200"), 0644)
	cp := func(p *int) *int {
		if p == nil {
			return nil
		}
		v := *p
		return &v
	}
	pm := limitsrunPwmMap(in.Coarse)
	mkCfg := func() configuration.FanConfig {
		pmc := map[int]int{}
		for k, v := range pm {
			pmc[k] = v
		}
		return configuration.FanConfig{ID: fmt.Sprintf("limitsrun%d", seq), Curve: "limitsrun_curve", NeverStop: in.NeverStop,
			MinPwm: cp(in.Min), StartPwm: cp(in.Start), MaxPwm: cp(in.Max), PwmMap: &pmc,
			HwMon: &configuration.HwMonFanConfig{PwmPath: pwmPath, PwmEnablePath: enPath, RpmInputPath: rpmPath}}
	}
	fan, err := fans.NewFan(mkCfg())
	if err != nil {
		panic(err)
	}
	pers := persistence.NewPersistence(filepath.Join(dir, "fan2go.db"))
	if err := pers.Init(); err != nil {
		panic(err)
	}
	var stored map[int]float64
	if in.Mode == "stored" {
		// what an earlier run of the daemon left in the database: written through the real persistence
		// by a separate fan object with the same id (the fan under test stays fresh)
		m := map[int]float64{}
		for _, p := range in.Stored {
			m[p.K] = pF(p.R)
		}
		seed := &fans.HwMonFan{Config: mkCfg(), FanCurveData: &m}
		if err := pers.SaveFanPwmData(seed); err != nil {
			panic(err)
		}
		stored, err = pers.LoadFanPwmData(fan)
		if err != nil {
			panic(err)
		}
		fan.SetRpmAvg(1200) // the fan is spinning
	}

	var mu sync.Mutex
	regulating := false
	var writes []int
	util.VerifWriteHook = func(path string, data []byte) (error, bool) {
		if path == pwmPath {
			mu.Lock()
			if regulating {
				if v, err := strconv.Atoi(strings.TrimSpace(string(data))); err == nil {
					writes = append(writes, v)
				}
			}
			mu.Unlock()
		}
		return nil, false
	}
	util.VerifReadHook = func(path string) ([]byte, error, bool) {
		if path != rpmPath || in.Mode != "init" {
			return nil, nil, false
		}
		mu.Lock()
		reg := regulating
		mu.Unlock()
		if reg {
			return nil, nil, false // constant 1200 from the file
		}
		// simulated device while it is being analysed: stands still below SimStart, no gain above SimCap
		b, err := os.ReadFile(pwmPath)
		if err != nil {
			return nil, nil, false
		}
		p, _ := strconv.Atoi(strings.TrimSpace(string(b)))
		rpm := 0
		if p >= in.SimStart {
			q := p
			if q > in.SimCap {
				q = in.SimCap
			}
			rpm = 400 + 10*q
		}
		return []byte(strconv.Itoa(rpm)), nil, true
	}
	defer func() { util.VerifWriteHook, util.VerifReadHook = nil, nil }()

	cctx, cancel := context.WithCancel(context.Background())
	defer cancel()
	var obs limitsrunObs
	obs.Ret = 3
	var c *controller.DefaultFanController
	curve := &limitsrunCurve{v: in.V, cycles: in.Cycles}
	curve.first = func() {
		mu.Lock()
		regulating = true
		mu.Unlock()
		obs.Lim = [3]int{fan.GetMinPwm(), fan.GetStartPwm(), fan.GetMaxPwm()}
		obs.Ret = 0
	}
	curve.each = func() {
		if v, ok := c.VerifLastSetPwm(); ok {
			obs.Reqs = append(obs.Reqs, v)
		}
	}
	curve.done = cancel
	c = controller.VerifNewController(pers, fan, curve, control_loop.NewDirectControlLoop(nil), 3*time.Millisecond)
	done := make(chan struct{})
	var runErr error
	panicked := ""
	go func() {
		defer close(done)
		defer func() {
			if r := recover(); r != nil {
				panicked = fmt.Sprint(r)
			}
		}()
		runErr = c.Run(cctx)
	}()
	select {
	case <-done:
	case <-time.After(time.Duration(ctx.Param("giveup_s", 20)) * time.Second):
		cancel()
		select {
		case <-done:
		case <-time.After(5 * time.Second):
		}
	}
	if panicked != "" {
		obs.Ret, obs.Err = 2, "panic: "+panicked
	} else if obs.Ret != 0 && runErr != nil {
		obs.Ret, obs.Err = 1, runErr.Error()
	}
	mu.Lock()
	obs.Writes = append([]int{}, writes...)
	mu.Unlock()
	if obs.Reqs == nil {
		obs.Reqs = []int{}
	}
	if in.Mode != "stored" {
		// nothing was stored before: the curve this start-up worked with is the one it stored itself
		stored, _ = pers.LoadFanPwmData(fan)
	}
	obs.NStore = len(stored)
	lim := "(" + cZ(obs.Lim[0]) + ", " + cZ(obs.Lim[1]) + ", " + cZ(obs.Lim[2]) + ")"
	coq := cRec("mkCase", cBool(in.NeverStop), cOptZ(in.Min), cOptZ(in.Start), cOptZ(in.Max), cFPairs(stored),
		cZ(in.V), cZ(obs.Ret), lim, cZList(obs.Reqs))
	return obs, coq
}

func limitsrunCurveOf(m map[int]float64) []limitsrunPoint {
	keys := make([]int, 0, len(m))
	for k := range m {
		keys = append(keys, k)
	}
	sort.Ints(keys)
	res := make([]limitsrunPoint, len(keys))
	for i, k := range keys {
		res[i] = limitsrunPoint{K: k, R: jF(m[k])}
	}
	return res
}

var limitsrunFamilies = []string{"dense-ramp", "sparse25", "sparse-random", "capped", "placeholder-like", "all-zero", "fractional"}

func limitsrunGen(rng *Rng, fam string) map[int]float64 {
	m := map[int]float64{}
	th := rng.Pick([]int{0, 30, 76, 100, 120, 130})
	capAt := rng.Pick([]int{150, 180, 200, 255})
	rpm := func(k int) float64 {
		if k < th {
			return 0
		}
		q := k
		if q > capAt {
			q = capAt
		}
		return float64(400 + 10*q)
	}
	switch fam {
	case "dense-ramp":
		for k := 0; k <= 255; k++ {
			m[k] = rpm(k)
		}
	case "sparse25": // what the initialization sequence stores for a fan with 25-step granularity
		for k := 0; k <= 255; k += 25 {
			m[k] = rpm(k)
		}
	case "sparse-random":
		n := rng.Range(2, 14)
		for len(m) < n {
			k := rng.Range(0, 255)
			m[k] = rpm(k)
		}
		if rng.Bool() {
			m[0] = 0
		}
	case "capped":
		capAt = rng.Pick([]int{100, 150, 175})
		step := rng.Pick([]int{1, 5, 25})
		for k := 0; k <= 255; k += step {
			m[k] = rpm(k)
		}
	case "placeholder-like":
		for k := 0; k <= 255; k++ {
			m[k] = float64(k)
		}
	case "all-zero":
		for k := 0; k <= 255; k += rng.Pick([]int{1, 17, 51}) {
			m[k] = 0
		}
	case "fractional":
		for k := 0; k <= 255; k += rng.Pick([]int{5, 15, 51}) {
			m[k] = limitsrunPickF(rng, []float64{0, 0.4, 0.9, 1, 1.5, 350.25, 700.5, 700.75})
		}
	}
	return m
}

func limitsrunPickF(r *Rng, xs []float64) float64 { return xs[r.Intn(len(xs))] }

func init() {
	drivers["limitsrun"] = func(ctx *Ctx) {
		os.Unsetenv("DISPLAY")
		configuration.CurrentConfig.RunFanInitializationInParallel = true
		configuration.CurrentConfig.MaxRpmDiffForSettledFan = 20
		configuration.CurrentConfig.FanResponseDelay = 2
		configuration.CurrentConfig.TempSensorPollingRate = 5 * time.Millisecond
		configuration.CurrentConfig.RpmPollingRate = 3 * time.Millisecond
		configuration.CurrentConfig.RpmRollingWindowSize = 4
		configuration.CurrentConfig.TempRollingWindowSize = 4
		util.VerifSleepNum, util.VerifSleepDen = 1, int64(ctx.Param("scale", 400))
		type job struct {
			in   limitsrunIn
			tags []string
		}
		var jobs []job
		for _, raw := range append(ctx.Corpus, ctx.Replay...) {
			var in limitsrunIn
			if json.Unmarshal(raw, &in) == nil && in.Mode != "" {
				jobs = append(jobs, job{in, []string{"corpus"}})
			}
		}
		if ctx.Replay == nil {
			rng := NewRng(ctx.Seed, "limitsrun")
			ip := func(v int) *int { return &v }
			cfgOf := func(in *limitsrunIn, combo int) {
				// values chosen so that configured limits also CONTRADICT the measured curve
				// (maxPwm below the measured start, startPwm above the measured max, minPwm above startPwm)
				if combo&1 != 0 {
					in.Min = ip(rng.Pick([]int{10, 60, 130, 0}))
				}
				if combo&2 != 0 {
					in.Start = ip(rng.Pick([]int{20, 90, 180, 230, 255}))
				}
				if combo&4 != 0 {
					in.Max = ip(rng.Pick([]int{40, 100, 160, 255}))
				}
			}
			vOf := func() int { return rng.Pick([]int{0, 0, 1, 128, 255, rng.Range(0, 255)}) }
			reps := ctx.Param("reps", 1)
			if !ctx.Quick() {
				reps = ctx.Param("reps", 8)
			}
			for r := 0; r < reps; r++ {
				// (a) stored curve x every configuration combination x neverStop
				for combo := 0; combo < 8; combo++ {
					for ns := 0; ns < 2; ns++ {
						for _, fam := range limitsrunFamilies {
							in := limitsrunIn{Mode: "stored", NeverStop: ns == 1, V: vOf(), Cycles: rng.Range(2, 3),
								Coarse: rng.Pick([]int{1, 1, 25, 10})}
							cfgOf(&in, combo)
							in.Stored = limitsrunCurveOf(limitsrunGen(rng, fam))
							if fam == "sparse25" {
								in.Coarse = 25
							}
							jobs = append(jobs, job{in, []string{"stored", "family=" + fam}})
						}
					}
				}
				// (b) nothing stored, minPwm and maxPwm configured: placeholder curve
				for ns := 0; ns < 2; ns++ {
					for st := 0; st < 2; st++ {
						in := limitsrunIn{Mode: "placeholder", NeverStop: ns == 1, V: vOf(), Cycles: 2, Coarse: rng.Pick([]int{1, 25})}
						cfgOf(&in, 5)
						if st == 1 {
							in.Start = ip(rng.Pick([]int{20, 180, 255}))
						}
						jobs = append(jobs, job{in, []string{"placeholder"}})
					}
				}
				// (c) nothing stored: initialization sequence on a simulated device with coarse granularity
				for combo := 0; combo < 8; combo++ {
					if combo&5 == 5 {
						continue // minPwm+maxPwm configured: no initialization sequence
					}
					in := limitsrunIn{Mode: "init", NeverStop: rng.Chance(2, 3), V: vOf(), Cycles: 2, Coarse: rng.Pick([]int{25, 32, 51}),
						SimStart: rng.Pick([]int{0, 60, 100, 110}), SimCap: rng.Pick([]int{150, 200, 255})}
					cfgOf(&in, combo)
					jobs = append(jobs, job{in, []string{"init-sequence"}})
				}
			}
		}
		// sequential: the file hooks, the sleep scale and the configuration are process-wide
		for i, j := range jobs {
			obs, coq := limitsrunRun(ctx, i, j.in)
			in := j.in
			cfgTag := "cfg="
			for _, p := range []*int{in.Min, in.Start, in.Max} {
				if p != nil {
					cfgTag += "1"
				} else {
					cfgTag += "0"
				}
			}
			tags := append(j.tags, cfgTag, "neverStop="+cBool(in.NeverStop), "ret="+itoa(obs.Ret), "coarse="+itoa(in.Coarse))
			if obs.Lim[1] > obs.Lim[2] {
				tags = append(tags, "start-above-max")
			}
			if obs.Lim[0] > obs.Lim[1] {
				tags = append(tags, "min-above-start")
			}
			ctx.Emit(Record{In: in, Obs: obs, Coq: coq, Tags: tags, NonTrv: obs.Ret == 0 && len(obs.Reqs) > 0})
		}
	}
}
