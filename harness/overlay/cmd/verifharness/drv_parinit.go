//go:build verif

package main

// driver `parinit` (C16): 2..4 REAL controllers started concurrently through
// DefaultFanController.Run on fake fans (environment of drv_startup.go) with
// different settle times and start delays, runFanInitializationInParallel
// false / true, sleeps scaled down in real time.  The global, sequence-numbered
// log of device accesses and persistence calls gives, per fan, the classified
// start-up actions and the analysis interval.

import (
	"encoding/json"
	"os"
	"os/exec"
	"path/filepath"
	"sort"
	"strconv"
	"strings"
	"sync"
	"sync/atomic"
	"time"

	"github.com/markusressel/fan2go/internal/configuration"
	"github.com/spf13/viper"
)

type parinitIn struct {
	Par   bool             `json:"par"`        // false: the file says `runFanInitializationInParallel: false`
	ParAbsent bool         `json:"par_absent"` // par = true only: the option is absent from the file (default true) instead of an explicit true
	Scale int              `json:"scale"` // real time = configured time / scale
	// Init: every fan's RunInitializationSequence is called directly (what `fan init` does: delete both entries, run the
	// sequence on a fresh controller), all released at the same instant by a spin barrier (relative start delay 0).
	// Fresh: the case runs in a process of its own (the very first analysis of a process).
	// CancelAt: the contexts of ALL controllers are cancelled (what SIGTERM, or any controller returning an error, does in
	// the daemon) when the first fan's analysis has reached this point: "sweep" (100th PWM write), "settle" (first RPM read),
	// "measure" (14th RPM read). The others are queued behind it by then.
	CancelAt string `json:"cancel_at,omitempty"`
	Init  bool `json:"init"`
	Fresh bool `json:"fresh"`
	Frd   *int             `json:"fan_response_delay"` // fanResponseDelay (default 1)
	Fans  []startupFanSpec `json:"fans"`
	Db    []startupDbEntry `json:"db"`
}
type parinitFanObs struct {
	Id    int      `json:"id"`
	Acts  []string `json:"acts"`
	HasIv bool     `json:"has_interval"`
	First int      `json:"first"`
	Last  int      `json:"last"`
}
type parinitObs struct {
	Fans    []parinitFanObs `json:"fans"`
	Overlap bool            `json:"overlap"`
}

var parinitCaseNo int

// interval of the analysis of one fan = every device access (PWM / mode write, RPM read) that is not part of
// regulation and not part of handing the fan back (restorePwmEnabled), plus the map/data saves in between:
//   - a controller that reached its first regulation cycle: up to that cycle;
//   - a controller whose Run returned before: up to the END OF THE RUN (accesses by goroutines that outlive
//     RunInitializationSequence belong to the analysis they continue).
func (e *startupEnv) parinitInterval(fanId int) (bool, int, int) {
	e.mu.Lock()
	defer e.mu.Unlock()
	first, last := 0, 0
	for _, ev := range e.events {
		if ev.Fan != fanId {
			continue
		}
		if ev.Kind == "EVAL" {
			break
		}
		if ev.Rst {
			continue
		}
		dev := ev.Kind == "W" || ev.Kind == "E" || ev.Kind == "R"
		if dev && first == 0 {
			first = ev.Seq
		}
		if first != 0 && (dev || (ev.Kind == "P" && (ev.Op == "SM" || ev.Op == "SD"))) {
			last = ev.Seq
		}
	}
	return first != 0, first, last
}

// parinitQuiesce waits until the given fans (whose Run has returned) have logged nothing for a while
func (e *startupEnv) parinitQuiesce(ids []int, quiet time.Duration, max time.Duration) {
	count := func() int {
		e.mu.Lock()
		defer e.mu.Unlock()
		n := 0
		for _, ev := range e.events {
			for _, id := range ids {
				if ev.Fan == id {
					n++
				}
			}
		}
		return n
	}
	deadline := time.Now().Add(max)
	lastN, lastChange := count(), time.Now()
	for time.Now().Before(deadline) {
		time.Sleep(10 * time.Millisecond)
		if n := count(); n != lastN {
			lastN, lastChange = n, time.Now()
		} else if time.Since(lastChange) >= quiet {
			return
		}
	}
}

// parinitLoadConfig writes a fan2go.yaml and loads it exactly like the daemon does (viper reset, InitConfig,
// read, LoadConfig, Validate). Nothing in configuration.CurrentConfig is assigned by the driver: the option under
// test (runFanInitializationInParallel), dbPath and every timing / window setting of the start-up path arrive
// through the real loader. The expectation handed to Coq is what the FILE says, not what the loader produced.
func parinitLoadConfig(env *startupEnv, in parinitIn) {
	temp := filepath.Join(env.dir, "temp_input")
	_ = os.WriteFile(temp, []byte("40000"), 0644)
	frd := 1
	if in.Frd != nil {
		frd = *in.Frd
	}
	yaml := "dbPath: " + env.dbPath + "\n"
	if !in.Par {
		yaml += "runFanInitializationInParallel: false\n"
	} else if !in.ParAbsent {
		yaml += "runFanInitializationInParallel: true\n"
	}
	yaml += "maxRpmDiffForSettledFan: 20.0\n" +
		"fanResponseDelay: " + strconv.Itoa(frd) + "\n" +
		"tempSensorPollingRate: 200ms\n" +
		"tempRollingWindowSize: 10\n" +
		"rpmPollingRate: 1h\n" + // the RPM monitor never ticks: every RPM read before the first cycle is the measurement's
		"rpmRollingWindowSize: 10\n" +
		"controllerAdjustmentTickRate: 2ms\n" +
		"sensors:\n  - id: s1\n    file:\n      path: " + temp + "\n" +
		"curves:\n  - id: startup_curve\n    linear:\n      sensor: s1\n      min: 40\n      max: 80\n" +
		"fans:\n"
	for _, f := range in.Fans {
		// the fan objects are built from the same data by fans.NewFan; here they only have to validate
		d := env.devs[f.Id]
		yaml += "  - id: fan" + strconv.Itoa(f.Id) + "\n    curve: startup_curve\n    file:\n      path: " + d.pwmPath + "\n"
	}
	cfg := filepath.Join(env.dir, "fan2go.yaml")
	if err := os.WriteFile(cfg, []byte(yaml), 0644); err != nil {
		panic(err)
	}
	viper.Reset()
	configuration.InitConfig(cfg)
	if used := configuration.DetectAndReadConfigFile(); used != cfg {
		panic("parinit: unexpected configuration file " + used)
	}
	configuration.LoadConfig()
	if err := configuration.Validate(cfg); err != nil {
		panic("parinit: generated configuration does not validate: " + err.Error())
	}
	if configuration.CurrentConfig.DbPath == "" {
		panic("parinit: no dbPath after loading the configuration")
	}
	// the controllers get their persistence the way the daemon builds it: from the loaded dbPath
	env.dbPath = configuration.CurrentConfig.DbPath
}

func parinitRun(ctx *Ctx, in parinitIn) parinitObs {
	parinitCaseNo++
	dir := filepath.Join(ctx.WorkDir, "pcase"+strconv.Itoa(parinitCaseNo))
	if err := os.MkdirAll(dir, 0755); err != nil {
		panic(err)
	}
	defer os.RemoveAll(dir)
	scale := in.Scale
	if scale <= 0 {
		scale = 200
	}
	env := startupNewEnv(dir, false, int64(scale))
	defer env.close()
	for _, f := range in.Fans {
		env.addDevice(f)
	}
	parinitLoadConfig(env, in)
	for _, ent := range in.Db {
		if d, ok := env.devs[ent.Id]; ok {
			env.preload(d, ent)
		}
	}
	if in.Init {
		return parinitRunInit(env, in)
	}
	procs := make([]*startupProc, len(in.Fans))
	var procsMu sync.Mutex
	cancelled := false
	if in.CancelAt != "" {
		fired := make(chan struct{})
		env.mu.Lock()
		env.watchFan, env.fired = in.Fans[0].Id, fired
		switch in.CancelAt {
		case "sweep":
			env.watchKind, env.watchN = "W", 100
		case "settle":
			env.watchKind, env.watchN = "R", 1
		default:
			env.watchKind, env.watchN = "R", 14
		}
		env.mu.Unlock()
		go func() {
			select {
			case <-fired:
			case <-time.After(100 * time.Second):
			}
			procsMu.Lock()
			cancelled = true
			for _, p := range procs {
				if p != nil {
					p.cancel()
				}
			}
			procsMu.Unlock()
		}()
	}
	var wg sync.WaitGroup
	for i, f := range in.Fans {
		wg.Add(1)
		go func(i int, f startupFanSpec) {
			defer wg.Done()
			time.Sleep(time.Duration(f.DelayMs) * time.Millisecond / time.Duration(scale))
			p := env.launch(env.devs[f.Id], 2*time.Millisecond)
			procsMu.Lock()
			procs[i] = p
			if cancelled {
				p.cancel()
			}
			procsMu.Unlock()
			p.waitFirstCycle(120 * time.Second)
		}(i, f)
	}
	wg.Wait()
	// controllers whose Run has returned (failed analysis): let whatever they left running finish
	var returned []int
	for i, p := range procs {
		select {
		case err := <-p.done:
			p.done <- err
			returned = append(returned, in.Fans[i].Id)
		default:
		}
	}
	if len(returned) > 0 {
		env.parinitQuiesce(returned, 300*time.Millisecond, 20*time.Second)
	}
	for _, p := range procs {
		p.stop()
	}
	return parinitObserve(env, in, nil)
}

// parinitRunInit: simultaneous direct initialisation sequences (see parinitIn.Init)
func parinitRunInit(env *startupEnv, in parinitIn) parinitObs {
	n := int32(len(in.Fans))
	var arrived int32
	ready := func() {
		atomic.AddInt32(&arrived, 1)
		for atomic.LoadInt32(&arrived) < n {
			// spin: all sequences start within microseconds of each other
		}
	}
	errs := make([]error, len(in.Fans))
	var wg sync.WaitGroup
	for i, f := range in.Fans {
		wg.Add(1)
		go func(i int, f startupFanSpec) {
			defer wg.Done()
			errs[i] = env.runInitDirect(env.devs[f.Id], ready)
		}(i, f)
	}
	wg.Wait()
	return parinitObserve(env, in, errs)
}

func parinitObserve(env *startupEnv, in parinitIn, errs []error) parinitObs {
	var obs parinitObs
	type iv struct{ a, b int }
	var ivs []iv
	for i, f := range in.Fans {
		acts, _ := env.classify(f.Id, 0)
		if errs != nil && errs[i] != nil {
			acts = append(acts, "Err")
		}
		fo := parinitFanObs{Id: f.Id, Acts: acts}
		fo.HasIv, fo.First, fo.Last = env.parinitInterval(f.Id)
		if fo.HasIv {
			ivs = append(ivs, iv{fo.First, fo.Last})
		}
		obs.Fans = append(obs.Fans, fo)
	}
	sort.Slice(ivs, func(i, j int) bool { return ivs[i].a < ivs[j].a })
	for i := 1; i < len(ivs); i++ {
		if ivs[i].a <= ivs[i-1].b {
			obs.Overlap = true // for the tags only; the verdict is Coq's
		}
	}
	return obs
}

func parinitCoq(in parinitIn, obs parinitObs) string {
	fl := make([]string, len(in.Fans))
	for i, f := range in.Fans {
		fl[i] = startupCFan(f, in.Par)
	}
	db := make([]string, len(in.Db))
	for i, e := range in.Db {
		db[i] = "(" + cZ(e.Id) + ", mkEntry " + cBool(e.Data) + " " + startupCOptMap(e.HasMap, e.Map) + ")"
	}
	var acts, ivs []string
	for _, fo := range obs.Fans {
		acts = append(acts, "("+cZ(fo.Id)+", "+cList(fo.Acts)+")")
		if fo.HasIv {
			ivs = append(ivs, "("+cZ(fo.Id)+", ("+cZ(fo.First)+", "+cZ(fo.Last)+"))")
		}
	}
	var faulty []int
	for _, f := range in.Fans {
		if f.Fault == "pwm-write" || f.Fault == "rpm-read" || in.CancelAt != "" {
			// not compared with the model: injected device fault, or a start cut short by the cancelled context
			faulty = append(faulty, f.Id)
		}
	}
	return cRec("mkCase", cBool(in.Par), cList(fl), cList(db), cBool(in.Init), cZList(faulty), cList(acts), cList(ivs))
}

func parinitQuant(q int) [][2]int {
	var p [][2]int
	for w := 0; w <= 255; w++ {
		if (w/q)*q != w {
			p = append(p, [2]int{w, (w / q) * q})
		}
	}
	return p
}

func parinitGen(rng *Rng, par bool, variant int) (parinitIn, []string) {
	in := parinitIn{Par: par, Scale: 200, ParAbsent: par && rng.Bool()}
	n := rng.Range(2, 4)
	if variant == 1 || variant == 2 {
		n = rng.Range(3, 4)
	}
	if variant == 4 {
		n = rng.Range(2, 3)
	}
	tags := []string{"fans=" + itoa(n)}
	if par && in.ParAbsent {
		tags = append(tags, "parallel", "option-absent")
	} else if par {
		tags = append(tags, "parallel", "option-true")
	} else {
		tags = append(tags, "sequential")
	}
	for id := 1; id <= n; id++ {
		q := rng.Pick([]int{32, 51, 64, 85})
		f := startupFanSpec{Id: id, Kind: "hwmon", PwmReadable: true, Rpm: true,
			Dev:      parinitQuant(q),
			SettleMs: rng.Pick([]int{0, 1500, 3000, 6000}),
			DelayMs:  rng.Pick([]int{0, 0, 300, 1000, 2600, 4000})}
		switch rng.Intn(8) {
		case 0:
			// only the RPM curve is missing: measurement without sweep
			ent := startupDbEntry{Id: id, HasMap: true}
			for w := 0; w <= 255; w++ {
				ent.Map = append(ent.Map, [2]int{w, startupDevApply(f.Dev, w)})
			}
			in.Db = append(in.Db, ent)
			tags = append(tags, "measure-only")
		case 1:
			// a file fan: sweep inside Run's computePwmMap, no measurement
			f.Kind = "file"
			tags = append(tags, "file-sweep")
		case 2:
			// configured pwmMap (sparse): no sweep, but the RPM curve is still measured
			f.HasMap = true
			for _, k := range []int{0, 64, 128, 192, 255} {
				f.Map = append(f.Map, [2]int{k, startupDevApply(f.Dev, k)})
			}
			tags = append(tags, "cfgmap-sparse")
		case 3:
			// configured pwmMap (dense)
			f.HasMap = true
			for k := 0; k <= 255; k++ {
				f.Map = append(f.Map, [2]int{k, startupDevApply(f.Dev, k)})
			}
			tags = append(tags, "cfgmap-dense")
		default:
			tags = append(tags, "sweep+measure")
		}
		in.Fans = append(in.Fans, f)
	}
	switch variant {
	case 1:
		// the analysis of the first fan to start FAILS midway while the others are queued behind it
		f := &in.Fans[0]
		f.Kind, f.DelayMs = "hwmon", 0
		in.Db = nil
		f.HasMap, f.Map = false, nil
		for i := 1; i < n; i++ {
			in.Fans[i].DelayMs = rng.Pick([]int{200, 300, 600})
		}
		q := 64
		f.Dev = parinitQuant(q)
		if rng.Bool() {
			// sweep = 256 writes + 1 (start PWM), the measurement loop's second write fails
			f.Fault, f.FaultArg = "pwm-write", 259
			tags = append(tags, "fault-pwm-write")
		} else {
			// RPM reads fail once the measurement loop has reached the third level
			f.Fault, f.FaultArg = "rpm-read", 2*q
			tags = append(tags, "fault-rpm-read")
		}
	case 2:
		// an already analysed fan starts first and fails in its control loop right after start,
		// while the next fan is being analysed and the others are queued
		f := &in.Fans[0]
		f.Kind, f.DelayMs, f.Fault = "hwmon", 0, "ctl"
		in.Db = nil
		ent := startupDbEntry{Id: f.Id, Data: true, HasMap: true}
		for w := 0; w <= 255; w++ {
			ent.Map = append(ent.Map, [2]int{w, startupDevApply(f.Dev, w)})
		}
		in.Db = append(in.Db, ent)
		for i := 1; i < n; i++ {
			in.Fans[i].Kind = "hwmon"
			in.Fans[i].DelayMs = rng.Pick([]int{200, 300, 600})
		}
		tags = append(tags, "fault-control-loop")
	case 4:
		// shutdown (context cancelled) while the first fan is being analysed and the others are queued behind it
		in.Db = nil
		for i := range in.Fans {
			in.Fans[i].Kind = "hwmon"
			in.Fans[i].DelayMs = rng.Pick([]int{200, 300, 600})
		}
		in.Fans[0].DelayMs = 0
		in.Fans[0].SettleMs = rng.Pick([]int{1500, 3000, 6000})
		in.CancelAt = []string{"sweep", "settle", "measure"}[rng.Intn(3)]
		tags = append(tags, "cancel-during-"+in.CancelAt)
	case 3:
		// very different settle times: one slow-settling fan, fanResponseDelay 0 or 1
		frd := rng.Intn(2)
		in.Frd = &frd
		k := rng.Intn(n)
		in.Fans[k].Kind = "hwmon"
		in.Fans[k].SettleMs = rng.Pick([]int{30000, 45000, 60000})
		in.Fans[k].DelayMs = 0
		in.Db = nil
		tags = append(tags, "slow-settling", "frd="+itoa(frd))
	}
	return in, tags
}

func init() {
	drivers["parinit"] = func(ctx *Ctx) {
		emit := func(in parinitIn, tags ...string) {
			if in.Fresh && ctx.Params["child"] == "" {
				// the case needs a process in which no fan has been analysed yet: run it in a child of our own binary
				parinitCaseNo++
				dir := filepath.Join(ctx.WorkDir, "fresh"+strconv.Itoa(parinitCaseNo))
				if err := os.MkdirAll(dir, 0755); err != nil {
					panic(err)
				}
				defer os.RemoveAll(dir)
				raw, _ := json.Marshal(in)
				inFile, outFile := filepath.Join(dir, "in.jsonl"), filepath.Join(dir, "out.jsonl")
				_ = os.WriteFile(inFile, append(raw, '\n'), 0644)
				exe, err := os.Executable()
				if err != nil {
					panic(err)
				}
				cmd := exec.Command(exe, "parinit", "--seed", strconv.FormatUint(ctx.Seed, 10), "--tier", ctx.Tier,
					"--replay", inFile, "--out", outFile, "--work", filepath.Join(dir, "w"), "child=1")
				if out, err := cmd.CombinedOutput(); err != nil {
					panic("parinit child failed: " + err.Error() + "\n" + string(out))
				}
				data, err := os.ReadFile(outFile)
				if err != nil {
					panic(err)
				}
				var rec Record
				if err := json.Unmarshal([]byte(strings.SplitN(string(data), "\n", 2)[0]), &rec); err != nil {
					panic("parinit child output: " + err.Error())
				}
				ctx.Emit(Record{In: in, Obs: rec.Obs, Coq: rec.Coq, Tags: append(tags, rec.Tags...), NonTrv: rec.NonTrv})
				return
			}
			obs := parinitRun(ctx, in)
			if obs.Overlap {
				tags = append(tags, "overlap-observed")
			} else {
				tags = append(tags, "no-overlap-observed")
			}
			analysed := 0
			for _, fo := range obs.Fans {
				if fo.HasIv {
					analysed++
				}
			}
			ctx.Emit(Record{In: in, Obs: obs, Coq: parinitCoq(in, obs), Tags: tags, NonTrv: analysed >= 2})
		}
		for _, raw := range append(ctx.Corpus, ctx.Replay...) {
			var in parinitIn
			if json.Unmarshal(raw, &in) == nil && len(in.Fans) > 0 {
				if ctx.Params["child"] != "" {
					emit(in)
					continue
				}
				emit(in, "corpus")
			}
		}
		if ctx.Replay != nil {
			return
		}
		rng := NewRng(ctx.Seed, "parinit")
		n := ctx.Param("n", 24)
		if !ctx.Quick() {
			n = ctx.Param("n", 300)
		}
		// simultaneous very-first analyses: 3..4 fans released by a spin barrier, each trial in a fresh process
		nf := ctx.Param("nfresh", 5)
		if !ctx.Quick() {
			nf = ctx.Param("nfresh", 40)
		}
		for i := 0; i < nf; i++ {
			in := parinitIn{Par: i%5 == 4, Scale: 200, Init: true, Fresh: true}
			k := 3 + i%2
			for id := 1; id <= k; id++ {
				f := startupFanSpec{Id: id, Kind: "hwmon", PwmReadable: true, Rpm: i%2 == 0,
					Dev: parinitQuant(rng.Pick([]int{51, 64, 85})), SettleMs: rng.Pick([]int{0, 1500})}
				in.Fans = append(in.Fans, f)
			}
			tg := []string{"fresh-process", "simultaneous-init", "fans=" + itoa(k)}
			if in.Par {
				tg = append(tg, "parallel", "option-true")
			} else {
				tg = append(tg, "sequential")
			}
			emit(in, tg...)
		}
		special := 0
		for i := 0; i < n; i++ {
			// two thirds with parallel initialisation disabled
			// two thirds with parallel initialisation disabled; every second sequential case carries a fault
			// (failing analysis, failing control loop) or a slow-settling fan
			par := i%3 == 2
			variant := 0
			if !par && i%2 == 0 {
				variant = 1 + special%4
				special++
			}
			in, tags := parinitGen(rng, par, variant)
			emit(in, tags...)
		}
	}
}
