//go:build verif

package main

import (
	"encoding/json"
	"errors"
	"fmt"
	"os"
	"os/exec"
	"path/filepath"
	"strconv"
	"strings"
	"sync"
	"syscall"
	"time"

	"github.com/markusressel/fan2go/internal"
	"github.com/markusressel/fan2go/internal/configuration"
	"github.com/markusressel/fan2go/internal/fans"
	"github.com/markusressel/fan2go/internal/sensors"
	"github.com/markusressel/fan2go/internal/util"
	"github.com/prometheus/client_golang/prometheus"
	"github.com/spf13/viper"
)

// driver `perm` (C18): real files owned by uid/gid in {0, 4242} with every
// permission mode, direct and through symlinks; the real SafeCmdExecution /
// CmdSensor / CmdFan / configuration.Validate; a marker file tells whether a
// command was really started (and which file it was).
type permOp struct {
	K      string  `json:"k"` // create chmod chown symlink remove exec execduring validate
	P      int     `json:"p"`
	U      int     `json:"u,omitempty"`
	G      int     `json:"g,omitempty"`
	M      int     `json:"m,omitempty"`
	T      int     `json:"t,omitempty"`   // symlink target
	Api    int     `json:"api,omitempty"` // 0 SafeCmdExecution 1 CmdSensor.GetValue 2 CmdFan.GetPwm 3 CmdFan.SetPwm 4 CmdFan.GetRpm 5 initializeSensors (cmd sensor no curve uses)
	Cfg    string  `json:"cfg,omitempty"` // create: write this configuration variant instead of a script; validate: the loaded variant
	During *permOp `json:"during,omitempty"` // execduring: performed by a helper while the first started command is running
	// how the executable is named in the call (the harness process has chdir'ed into its work directory):
	// "" absolute | "dir" c<n>/f<p> | "dot" ./c<n>/f<p> | "dotdot" c<n>/../c<n>/f<p> | "bare" c<n>_f<p> (p lives in the cwd)
	// | "sym1" <case>/app/current/../bin/f<p> | "sym2" <case>/app/./current/.././bin/f<p> | "sym3" <case>/app//current/..//bin/f<p>
	// | "symrel" c<n>/app/current/../bin/f<p>   (p lives "deep"; `..` directly after a symlinked directory)
	Form string `json:"form,omitempty"`
	// exec: plant a decoy (owner 4242, mode 0777, id 9000+p) where a wrong resolution of the relative path would
	// look: c<n>/c<n>/f<p> (relative to the directory of the executable instead of the working directory)
	Decoy bool `json:"decoy,omitempty"`
	// exec with form "bare": the id of the file of that name in $PATH (0 = none)
	InPath int `json:"inpath,omitempty"`
	// create / symlink: where the name lives: "" the case directory | "cwd" the working directory (c<n>_f<p>) |
	// "path" the harness's private $PATH directory, under the bare name of id As (c<n>_f<As>)
	// "deep": <case>/user/releases/bin/f<p> - what <case>/app/current/../bin/f<p> leads to when the kernel resolves
	// it, `current` being a symlink to the directory <case>/user/releases/v1
	Where string `json:"where,omitempty"`
	As    int    `json:"as,omitempty"`
	// exec / validate with a form "sym*" and Decoy: the decoy stands at the LEXICALLY cleaned location
	// <case>/app/bin/f<p>; DecoyRoot makes it root-controlled (root:root 0755) instead of hostile
	DecoyRoot bool `json:"decoyroot,omitempty"`
	// create / symlink / exec: the id lives in the case directory under exactly this file name (names with a space,
	// `;`, `$`, `|`, `&`, a back-tick); on an exec of an id that is never created it is the configured string itself,
	// e.g. "f1 --zone 1" (a path plus an inline argument: names no file)
	Name string `json:"name,omitempty"`
	// exec / validate: perform the call in a child process of the harness whose real and effective uid (and gid)
	// is this non-root id (0 = in the harness itself, as root)
	Euid int `json:"euid,omitempty"`
}
type permIn struct {
	Failing []int    `json:"failing,omitempty"` // ids whose script exits 1 (after waiting for the helper, when one is armed)
	Ops     []permOp `json:"ops"`
}
type permObs struct {
	Stat   *[3]int  `json:"stat"`
	Starts [][4]int `json:"starts"` // id uid gid mode, one per start of a script inside the call (written by the script)
	Res    int      `json:"res"`
	Reason int      `json:"reason"`
	Msg    string   `json:"msg,omitempty"`
}

// configuration variants and their class (early_err, fans_err, n_cmd_sensors, n_cmd_fans)
type permCfgVariant struct {
	yaml  string
	class [4]int
}

var permCfgVariants = map[string]permCfgVariant{
	"cmdsensor": {`
sensors:
  - id: s1
    cmd:
      exec: /bin/true
curves:
  - id: c1
    linear:
      sensor: s1
      min: 40
      max: 80
fans:
  - id: f1
    curve: c1
    file:
      path: /tmp/verif_pwm
`, [4]int{0, 0, 1, 0}},
	"cmdfan": {`
sensors:
  - id: s1
    file:
      path: /tmp/verif_temp
curves:
  - id: c1
    linear:
      sensor: s1
      min: 40
      max: 80
fans:
  - id: f1
    curve: c1
    cmd:
      setPwm:
        exec: /bin/true
        args: ["%pwm%"]
      getPwm:
        exec: /bin/true
`, [4]int{0, 0, 0, 1}},
	"cmdboth": {`
sensors:
  - id: s1
    cmd:
      exec: /bin/true
  - id: s2
    cmd:
      exec: /bin/true
curves:
  - id: c1
    linear:
      sensor: s1
      min: 40
      max: 80
fans:
  - id: f1
    curve: c1
    cmd:
      setPwm:
        exec: /bin/true
      getPwm:
        exec: /bin/true
`, [4]int{0, 0, 2, 1}},
	"nocmd": {`
sensors:
  - id: s1
    file:
      path: /tmp/verif_temp
curves:
  - id: c1
    linear:
      sensor: s1
      min: 40
      max: 80
fans:
  - id: f1
    curve: c1
    file:
      path: /tmp/verif_pwm
`, [4]int{0, 0, 0, 0}},
	"cmd_fanserr": {`
sensors:
  - id: s1
    cmd:
      exec: /bin/true
curves:
  - id: c1
    linear:
      sensor: s1
      min: 40
      max: 80
fans:
  - id: f1
    curve: nosuchcurve
    file:
      path: /tmp/verif_pwm
`, [4]int{0, 1, 1, 0}},
	"cmd_early": {`
sensors:
  - id: s1
    cmd:
      exec: /bin/true
  - id: s1
    cmd:
      exec: /bin/true
curves:
  - id: c1
    linear:
      sensor: s1
      min: 40
      max: 80
fans:
  - id: f1
    curve: c1
    file:
      path: /tmp/verif_pwm
`, [4]int{1, 0, 2, 0}},
	"cmdsensor_unused": {`
sensors:
  - id: s1
    file:
      path: /tmp/verif_temp
  - id: leftover
    cmd:
      exec: /bin/sh
      args: ["-c", "echo 42"]
curves:
  - id: c1
    linear:
      sensor: s1
      min: 40
      max: 80
fans:
  - id: f1
    curve: c1
    file:
      path: /tmp/verif_pwm
`, [4]int{0, 0, 1, 0}},
	"nocmd_fanserr": {`
sensors:
  - id: s1
    file:
      path: /tmp/verif_temp
curves:
  - id: c1
    linear:
      sensor: s1
      min: 40
      max: 80
fans:
  - id: f1
    curve: nosuchcurve
    file:
      path: /tmp/verif_pwm
`, [4]int{0, 1, 0, 0}},
}

var (
	// scripts are written under the write lock, commands are started under the read lock: a fork while a script
	// is still open for writing would let the child inherit the descriptor and make execve fail with ETXTBSY
	permFsMu      sync.RWMutex
	permCfgMu     sync.Mutex
	permCfgLoaded = map[string]configuration.Configuration{}
)

// permLoadVariant runs the real loader (viper + LoadConfig) on a pristine copy of the variant, once.
func permLoadVariant(workDir, name string) configuration.Configuration {
	if c, ok := permCfgLoaded[name]; ok {
		return c
	}
	p := filepath.Join(workDir, "variant_"+name+".yaml")
	if err := os.WriteFile(p, []byte(permCfgVariants[name].yaml), 0o644); err != nil {
		panic(err)
	}
	viper.Reset()
	configuration.InitConfig(p)
	configuration.DetectAndReadConfigFile()
	configuration.LoadConfig()
	permCfgLoaded[name] = configuration.CurrentConfig
	return configuration.CurrentConfig
}

func permReason(msg string, validate bool) int {
	isPerm := strings.Contains(msg, "cannot execute")
	if validate {
		isPerm = strings.Contains(msg, "has invalid permissions")
	}
	if !isPerm {
		if validate {
			return 8
		}
		return 7
	}
	switch {
	case strings.Contains(msg, "owner is not root"):
		return 4
	case strings.Contains(msg, "group is not root but has write permission"):
		return 5
	case strings.Contains(msg, "others have write permission"):
		return 6
	case strings.Contains(msg, "file not found"):
		return 2
	case strings.Contains(msg, "too many links") || strings.Contains(msg, "lstat "):
		return 1
	}
	return 3
}

// permResolveStat: the harness's own view of what the path leads to (readlink loop, no limit that matters).
func permResolveStat(path string) *[3]int {
	for i := 0; i < 300+1; i++ {
		fi, err := os.Lstat(path)
		if err != nil {
			return nil
		}
		if fi.Mode()&os.ModeSymlink != 0 {
			t, err := os.Readlink(path)
			if err != nil {
				return nil
			}
			if !filepath.IsAbs(t) {
				t = filepath.Join(filepath.Dir(path), t)
			}
			path = t
			continue
		}
		st := fi.Sys().(*syscall.Stat_t)
		return &[3]int{int(st.Uid), int(st.Gid), int(st.Mode & 0o7777)}
	}
	return nil
}

// permWrappers: the wrapper objects of one case. A CmdSensor / CmdFan lives as long as the daemon and is asked again
// and again; the calls of one case on one name therefore go through ONE object (whatever it remembers between calls
// must not replace the check or the error).
type permWrappers struct {
	sensors map[string]*sensors.CmdSensor
	fans    map[string]*fans.CmdFan
}

func permCallApi(w *permWrappers, api int, path string) error {
	timeout := 2 * time.Second
	switch api {
	case 5:
		// the real start-up glue (backend.go initializeSensors) on a configuration whose only cmd sensor is used by
		// no curve: it is created and read like every other sensor
		permCfgMu.Lock()
		defer permCfgMu.Unlock()
		prometheus.DefaultRegisterer = prometheus.NewRegistry()
		configuration.CurrentConfig = configuration.Configuration{
			Sensors: []configuration.SensorConfig{
				{ID: "used", File: &configuration.FileSensorConfig{Path: filepath.Join(filepath.Dir(path), "no_such_temp_input")}},
				{ID: "unused", Cmd: &configuration.CmdSensorConfig{Exec: path}},
			},
			Curves: []configuration.CurveConfig{{ID: "c1", Linear: &configuration.LinearCurveConfig{Sensor: "used", Min: 40, Max: 80}}},
		}
		return internal.VerifInitializeSensors(nil)
	case 0:
		_, err := util.SafeCmdExecution(path, []string{}, timeout)
		return err
	case 1:
		s, ok := w.sensors[path]
		if !ok {
			s = &sensors.CmdSensor{Config: configuration.SensorConfig{ID: "s", Cmd: &configuration.CmdSensorConfig{Exec: path}}}
			w.sensors[path] = s
		}
		_, err := s.GetValue()
		return err
	default:
		f, ok := w.fans[path]
		if !ok {
			f = &fans.CmdFan{Config: configuration.FanConfig{ID: "f", Cmd: &configuration.CmdFanConfig{
				SetPwm: &configuration.ExecConfig{Exec: path, Args: []string{"%pwm%"}},
				GetPwm: &configuration.ExecConfig{Exec: path},
				GetRpm: &configuration.ExecConfig{Exec: path},
			}}}
			w.fans[path] = f
		}
		switch api {
		case 2:
			_, err := f.GetPwm()
			return err
		case 3:
			return f.SetPwm(128)
		default:
			_, err := f.GetRpm()
			return err
		}
	}
}

// permCallAsUser performs one call (api on path, or Validate of path with the loaded variant cfg) in a child process
// running the harness binary as uid:gid = id:id (driver "permcall" below). Files are prepared by the parent (root).
func permCallAsUser(workDir string, n int, id int, api int, path string, cfg string) (res int, msg string) {
	d := filepath.Join(workDir, "euid_"+itoa(n))
	if err := os.MkdirAll(d, 0o755); err != nil {
		panic(err)
	}
	if err := os.Chown(d, id, id); err != nil {
		panic(err)
	}
	defer os.RemoveAll(d)
	out := filepath.Join(d, "out.jsonl")
	cmd := exec.Command(os.Args[0], "permcall", "--out", out, "--work", d, "api="+itoa(api), "path="+path, "cfg="+cfg)
	cmd.Dir = d
	cmd.SysProcAttr = &syscall.SysProcAttr{Credential: &syscall.Credential{Uid: uint32(id), Gid: uint32(id)}}
	if b, err := cmd.CombinedOutput(); err != nil {
		panic(fmt.Sprintf("perm driver: child as uid %d failed: %v %s", id, err, string(b)))
	}
	data, err := os.ReadFile(out)
	if err != nil {
		panic(err)
	}
	var rec struct {
		Obs struct {
			Res  int    `json:"res"`
			Msg  string `json:"msg"`
			Euid int    `json:"euid"`
		} `json:"obs"`
	}
	if err := json.Unmarshal([]byte(strings.SplitN(string(data), "\n", 2)[0]), &rec); err != nil {
		panic(fmt.Sprintf("perm driver: child output unreadable: %v", err))
	}
	if rec.Obs.Euid != id {
		panic(fmt.Sprintf("perm driver: child ran with euid %d instead of %d", rec.Obs.Euid, id))
	}
	return rec.Obs.Res, rec.Obs.Msg
}

func init() {
	// one call of the real code in this process (which the parent started with a non-root uid)
	drivers["permcall"] = func(ctx *Ctx) {
		api := ctx.Param("api", 0)
		path, cfg := ctx.Params["path"], ctx.Params["cfg"]
		res, msg := 0, ""
		var err error
		pn := catch(func() {
			if cfg != "" {
				configuration.CurrentConfig = permLoadVariant(ctx.WorkDir, cfg)
				err = configuration.Validate(path)
			} else {
				w := &permWrappers{sensors: map[string]*sensors.CmdSensor{}, fans: map[string]*fans.CmdFan{}}
				err = permCallApi(w, api, path)
			}
		})
		if pn != "" {
			res, msg = 2, pn
		} else if err != nil {
			res, msg = 1, err.Error()
		}
		ctx.Emit(Record{Obs: map[string]interface{}{"res": res, "msg": msg, "euid": os.Geteuid()}})
	}
}

func permReadStarts(marker string) [][4]int {
	res := [][4]int{}
	data, err := os.ReadFile(marker)
	if err != nil {
		return res
	}
	for _, line := range strings.Split(string(data), "\n") {
		f := strings.Fields(line)
		if len(f) != 4 {
			continue
		}
		id, e1 := strconv.Atoi(f[0])
		u, e2 := strconv.Atoi(f[1])
		g, e3 := strconv.Atoi(f[2])
		m, e4 := strconv.ParseInt(f[3], 8, 32)
		if e1 == nil && e2 == nil && e3 == nil && e4 == nil {
			res = append(res, [4]int{id, u, g, int(m)})
		}
	}
	return res
}

func runPerm(workDir string, n int, in permIn) ([]permObs, string) {
	dir := filepath.Join(workDir, "c"+itoa(n))
	os.RemoveAll(dir)
	if err := os.MkdirAll(dir, 0o755); err != nil {
		panic(err)
	}
	defer os.RemoveAll(dir)
	// where every id lives (fixed by the first create/symlink operation that names it)
	loc := map[int]string{}
	for _, op := range in.Ops {
		if op.Name != "" {
			loc[op.P] = filepath.Join(dir, op.Name)
		}
		if (op.K == "create" || op.K == "symlink") && op.Where != "" {
			switch op.Where {
			case "cwd":
				loc[op.P] = filepath.Join(workDir, "c"+itoa(n)+"_f"+itoa(op.P))
			case "path":
				loc[op.P] = filepath.Join(workDir, "pathdir", "c"+itoa(n)+"_f"+itoa(op.As))
			case "deep":
				loc[op.P] = filepath.Join(dir, "user", "releases", "bin", "f"+itoa(op.P))
				for _, d := range []string{"app/bin", "user/releases/v1", "user/releases/bin"} {
					if err := os.MkdirAll(filepath.Join(dir, d), 0o755); err != nil {
						panic(err)
					}
				}
				os.Remove(filepath.Join(dir, "app", "current"))
				if err := os.Symlink(filepath.Join(dir, "user", "releases", "v1"), filepath.Join(dir, "app", "current")); err != nil {
					panic(err)
				}
			}
		}
	}
	defer func() {
		for _, p := range loc {
			os.Remove(p)
		}
	}()
	pathOf := func(id int) string {
		if p, ok := loc[id]; ok {
			return p
		}
		return filepath.Join(dir, "f"+itoa(id))
	}
	rel := "c" + itoa(n)
	// the name handed to the code under test
	nameOf := func(op permOp) string {
		switch op.Form {
		case "dir":
			return rel + "/f" + itoa(op.P)
		case "dot":
			return "./" + rel + "/f" + itoa(op.P)
		case "dotdot":
			return rel + "/../" + rel + "/f" + itoa(op.P)
		case "bare":
			return "c" + itoa(n) + "_f" + itoa(op.P)
		case "sym1":
			return dir + "/app/current/../bin/f" + itoa(op.P)
		case "sym2":
			return dir + "/app/./current/.././bin/f" + itoa(op.P)
		case "sym3":
			return dir + "/app//current/..//bin/f" + itoa(op.P)
		case "symrel":
			return rel + "/app/current/../bin/f" + itoa(op.P)
		}
		return pathOf(op.P)
	}
	marker := filepath.Join(dir, "marker")
	armFile, flagFile := filepath.Join(dir, "arm"), filepath.Join(dir, "flag")
	must := func(err error) {
		if err != nil {
			panic(fmt.Sprintf("perm driver: file-system operation failed (is the harness running as root?): %v", err))
		}
	}
	failing := map[int]bool{}
	for _, id := range in.Failing {
		failing[id] = true
	}
	// every script first records its own start: its id and what stat(2) says about its own path right now
	script := func(id int) string {
		s := "#!/bin/sh\necho \"" + itoa(id) + " $(stat -L -c '%u %g %a' \"$0\")\" >> " + marker + "\n"
		// when a helper is armed the command keeps running until the helper has acted
		s += "if [ -e " + armFile + " ]; then n=0; while [ ! -e " + flagFile + " ] && [ $n -lt 100 ]; do sleep 0.01; n=$((n+1)); done; fi\n"
		if failing[id] {
			s += "exit 1\n"
		} else {
			s += "echo 42\n"
		}
		return s
	}
	// file-system operations (also used by the helper of execduring); returns the Coq term
	var applyFs func(op permOp) string
	applyFs = func(op permOp) string {
		p := pathOf(op.P)
		switch op.K {
		case "create":
			os.Remove(p)
			content := script(op.P)
			if op.Cfg != "" {
				content = permCfgVariants[op.Cfg].yaml
			}
			permFsMu.Lock()
			werr := os.WriteFile(p, []byte(content), 0o600)
			permFsMu.Unlock()
			must(werr)
			must(os.Chown(p, op.U, op.G))
			must(syscall.Chmod(p, uint32(op.M)))
			return cRec("OpCreate", cZ(op.P), cZ(op.U), cZ(op.G), cZ(op.M))
		case "chmod":
			_ = syscall.Chmod(p, uint32(op.M))
			return cRec("OpChmod", cZ(op.P), cZ(op.M))
		case "chown":
			_ = os.Chown(p, op.U, op.G)
			return cRec("OpChown", cZ(op.P), cZ(op.U), cZ(op.G))
		case "symlink":
			os.Remove(p)
			must(os.Symlink(pathOf(op.T), p))
			return cRec("OpSymlink", cZ(op.P), cZ(op.T))
		case "remove":
			_ = os.Remove(p)
			return cRec("OpRemove", cZ(op.P))
		}
		panic("perm driver: not a file-system operation: " + op.K)
	}
	coqFs := func(op permOp) string { // the term without performing the operation
		switch op.K {
		case "create":
			return cRec("OpCreate", cZ(op.P), cZ(op.U), cZ(op.G), cZ(op.M))
		case "chmod":
			return cRec("OpChmod", cZ(op.P), cZ(op.M))
		case "chown":
			return cRec("OpChown", cZ(op.P), cZ(op.U), cZ(op.G))
		case "symlink":
			return cRec("OpSymlink", cZ(op.P), cZ(op.T))
		case "remove":
			return cRec("OpRemove", cZ(op.P))
		}
		panic("perm driver: not a file-system operation: " + op.K)
	}
	// a file where a WRONG resolution of the name would look (never part of the model: it must not be checked
	// instead of the real file and must never run)
	plantDecoy := func(op permOp, content string) {
		dd := filepath.Join(dir, rel)
		if strings.HasPrefix(op.Form, "sym") {
			dd = filepath.Join(dir, "app", "bin")
		}
		must(os.MkdirAll(dd, 0o755))
		dp := filepath.Join(dd, "f"+itoa(op.P))
		permFsMu.Lock()
		werr := os.WriteFile(dp, []byte(content), 0o600)
		permFsMu.Unlock()
		must(werr)
		if op.DecoyRoot {
			must(os.Chown(dp, 0, 0))
			must(syscall.Chmod(dp, 0o755))
		} else {
			must(os.Chown(dp, 4242, 4242))
			must(syscall.Chmod(dp, 0o777))
		}
	}
	wrappers := &permWrappers{sensors: map[string]*sensors.CmdSensor{}, fans: map[string]*fans.CmdFan{}}
	var obs []permObs
	var coqOps []string
	for _, op := range in.Ops {
		p := pathOf(op.P)
		switch op.K {
		case "exec", "execduring":
			os.Remove(marker)
			if op.Decoy {
				plantDecoy(op, script(9000+op.P))
			}
			statPath := p
			if op.Form == "bare" && op.InPath != 0 {
				statPath = pathOf(op.InPath)
			}
			p = nameOf(op)
			o := permObs{Stat: permResolveStat(statPath)}
			stop := make(chan struct{})
			helperDone := make(chan struct{})
			if op.K == "execduring" {
				if op.During == nil || op.During.K == "create" {
					panic("perm driver: execduring needs a chmod/chown/symlink/remove operation")
				}
				must(os.WriteFile(armFile, nil, 0o644))
				go func() {
					// another process: as soon as the first start is on record, change the tree, then let the command end
					defer close(helperDone)
					for {
						select {
						case <-stop:
							return
						default:
						}
						if len(permReadStarts(marker)) > 0 {
							applyFs(*op.During)
							_ = os.WriteFile(flagFile, nil, 0o644)
							return
						}
						time.Sleep(2 * time.Millisecond)
					}
				}()
			} else {
				close(helperDone)
			}
			var err error
			pn := ""
			permFsMu.RLock()
			if op.Euid != 0 {
				_ = os.Chmod(dir, 0o777) // the started script (not root) appends to the marker file
				if r, m := permCallAsUser(workDir, n, op.Euid, op.Api, p, ""); r == 2 {
					pn = m
				} else if r == 1 {
					err = errors.New(m)
				}
			} else {
				pn = catch(func() { err = permCallApi(wrappers, op.Api, p) })
			}
			permFsMu.RUnlock()
			close(stop)
			<-helperDone
			os.Remove(armFile)
			os.Remove(flagFile)
			if pn != "" {
				o.Res = 2
				o.Msg = pn
			} else if err != nil {
				o.Res = 1
				o.Msg = err.Error()
				o.Reason = permReason(o.Msg, false)
			}
			o.Starts = permReadStarts(marker)
			obs = append(obs, o)
			if op.K == "execduring" {
				coqOps = append(coqOps, cRec("OpExecDuring", cZ(op.Api), cZ(op.P), coqFs(*op.During)))
			} else if op.Form == "bare" {
				q := "None"
				if op.InPath != 0 {
					q = cRec("Some", cZ(op.InPath))
				}
				coqOps = append(coqOps, cRec("OpExecBare", cZ(op.Api), cZ(op.P), q))
			} else {
				coqOps = append(coqOps, cRec("OpExec", cZ(op.Api), cZ(op.P)))
			}
		case "validate":
			if op.Decoy {
				plantDecoy(op, permCfgVariants[op.Cfg].yaml)
			}
			o := permObs{Stat: permResolveStat(p), Starts: [][4]int{}}
			p = nameOf(op)
			var err error
			if op.Euid != 0 {
				permFsMu.RLock() // same order as the exec branch: permFsMu before permCfgMu (the child is forked)
			}
			permCfgMu.Lock()
			cfg := permLoadVariant(workDir, op.Cfg)
			configuration.CurrentConfig = cfg
			validateCall := func() { err = configuration.Validate(p) }
			if op.Euid != 0 {
				validateCall = func() {
					r, m := permCallAsUser(workDir, n, op.Euid, 0, p, op.Cfg)
					if r == 2 {
						panic(m)
					} else if r == 1 {
						err = errors.New(m)
					}
				}
			}
			if pn := catch(validateCall); pn != "" {
				o.Res = 2
				o.Msg = pn
			} else if err != nil {
				o.Res = 1
				o.Msg = err.Error()
				o.Reason = permReason(o.Msg, true)
			}
			permCfgMu.Unlock()
			if op.Euid != 0 {
				permFsMu.RUnlock()
			}
			obs = append(obs, o)
			cl := permCfgVariants[op.Cfg].class
			coqOps = append(coqOps, cRec("OpValidate", cRec("mkCfg", cBool(cl[0] != 0), cBool(cl[1] != 0), cZ(cl[2]), cZ(cl[3])), cZ(op.P)))
		default:
			coqOps = append(coqOps, applyFs(op))
		}
	}
	coqObs := make([]string, len(obs))
	for i, o := range obs {
		st := "None"
		if o.Stat != nil {
			st = "(Some (" + cZ(o.Stat[0]) + ", " + cZ(o.Stat[1]) + ", " + cZ(o.Stat[2]) + "))"
		}
		starts := make([]string, len(o.Starts))
		for j, x := range o.Starts {
			starts[j] = "(" + cZ(x[0]) + ", (" + cZ(x[1]) + ", " + cZ(x[2]) + ", " + cZ(x[3]) + "))"
		}
		coqObs[i] = cRec("mkObs", st, cList(starts), cZ(o.Res), cZ(o.Reason))
	}
	return obs, cRec("mkCase", cZList(in.Failing), cList(coqOps), cList(coqObs))
}

type permJob struct {
	in   permIn
	tags []string
}

func init() {
	drivers["perm"] = func(ctx *Ctx) {
		if os.Geteuid() != 0 {
			panic("perm driver must run as root (chown to uid/gid 4242)")
		}
		// relative executable names are resolved against the working directory: make it the work directory; a private
		// directory in front of $PATH receives the files a bare command name may be resolved to
		if err := os.Chdir(ctx.WorkDir); err != nil {
			panic(err)
		}
		if err := os.MkdirAll(filepath.Join(ctx.WorkDir, "pathdir"), 0o755); err != nil {
			panic(err)
		}
		os.Setenv("PATH", filepath.Join(ctx.WorkDir, "pathdir")+":"+os.Getenv("PATH"))
		var jobs []permJob
		add := func(tags []string, ops ...permOp) {
			jobs = append(jobs, permJob{permIn{Ops: ops}, tags})
		}
		addFailing := func(tags []string, failing []int, ops ...permOp) {
			jobs = append(jobs, permJob{permIn{Failing: failing, Ops: ops}, tags})
		}
		for _, raw := range append(ctx.Corpus, ctx.Replay...) {
			var in permIn
			if json.Unmarshal(raw, &in) == nil && len(in.Ops) > 0 {
				jobs = append(jobs, permJob{in, []string{"corpus"}})
			}
		}
		if ctx.Replay == nil {
			rng := NewRng(ctx.Seed, "perm")
			ids := []int{0, 4242}
			create := func(p, u, g, m int) permOp { return permOp{K: "create", P: p, U: u, G: g, M: m} }
			createCfg := func(p, u, g, m int, v string) permOp {
				return permOp{K: "create", P: p, U: u, G: g, M: m, Cfg: v}
			}
			link := func(l, t int) permOp { return permOp{K: "symlink", P: l, T: t} }
			exec := func(api, p int) permOp { return permOp{K: "exec", P: p, Api: api} }
			validate := func(v string, p int) permOp { return permOp{K: "validate", P: p, Cfg: v} }
			// interesting modes: every group/other digit class with an owner-executable file, plus non-executable ones
			var someModes []int
			for _, g := range []int{0, 2, 5, 7} {
				for _, o := range []int{0, 2, 5, 7} {
					someModes = append(someModes, 0o700|g<<3|o)
				}
			}
			someModes = append(someModes, 0o644, 0o664, 0o666, 0o600, 0o000, 0o011, 0o100)
			// (a) the whole grid through SafeCmdExecution, direct and via symlink — exhaustive in both tiers
			for _, via := range []bool{false, true} {
				for _, u := range ids {
					for _, g := range ids {
						for m := 0; m < 512; m++ {
							if via {
								add([]string{"grid-exec", "via-symlink"}, create(1, u, g, m), link(2, 1), exec(0, 2))
							} else {
								add([]string{"grid-exec", "direct"}, create(1, u, g, m), exec(0, 1))
							}
						}
					}
				}
			}
			// (b) CmdSensor / CmdFan paths on the interesting modes
			for api := 1; api <= 5; api++ {
				for _, via := range []bool{false, true} {
					for _, u := range ids {
						for _, g := range ids {
							for _, m := range someModes {
								if via {
									add([]string{"api-exec", "via-symlink", "api=" + itoa(api)}, create(1, u, g, m), link(2, 1), exec(api, 2))
								} else {
									add([]string{"api-exec", "direct", "api=" + itoa(api)}, create(1, u, g, m), exec(api, 1))
								}
							}
						}
					}
				}
			}
			// (c) the configuration-file rule: whole grid with a cmd sensor, interesting modes for the other variants
			for _, via := range []bool{false, true} {
				for _, u := range ids {
					for _, g := range ids {
						for m := 0; m < 512; m++ {
							if via {
								add([]string{"grid-validate", "via-symlink"}, createCfg(1, u, g, m, "cmdsensor"), link(2, 1), validate("cmdsensor", 2))
							} else {
								add([]string{"grid-validate", "direct"}, createCfg(1, u, g, m, "cmdsensor"), validate("cmdsensor", 1))
							}
						}
					}
				}
			}
			for _, v := range []string{"cmdfan", "cmdboth", "nocmd", "cmd_fanserr", "cmd_early", "nocmd_fanserr", "cmdsensor_unused"} {
				for _, via := range []bool{false, true} {
					for _, u := range ids {
						for _, g := range ids {
							for _, m := range someModes {
								if via {
									add([]string{"validate-variant", "cfg=" + v}, createCfg(1, u, g, m, v), link(2, 1), validate(v, 2))
								} else {
									add([]string{"validate-variant", "cfg=" + v}, createCfg(1, u, g, m, v), validate(v, 1))
								}
							}
						}
					}
				}
			}
			// (d) special bits, missing files, dangling and looping links, link chains around the two limits (40 kernel, 255 Go)
			for _, m := range []int{0o4755, 0o2755, 0o1755, 0o6775, 0o4777, 0o1777, 0o2775, 0o7000, 0o4711} {
				for _, g := range ids {
					add([]string{"special-bits"}, create(1, 0, g, m), exec(0, 1))
					add([]string{"special-bits"}, createCfg(1, 0, g, m, "cmdfan"), validate("cmdfan", 1))
				}
			}
			add([]string{"missing"}, exec(0, 1))
			add([]string{"missing"}, validate("cmdsensor", 1))
			add([]string{"missing"}, validate("nocmd", 1))
			add([]string{"dangling"}, link(2, 1), exec(0, 2), validate("cmdsensor", 2))
			add([]string{"loop"}, link(1, 2), link(2, 1), exec(0, 1), validate("cmdsensor", 1))
			add([]string{"loop"}, link(1, 1), exec(1, 1), validate("cmdfan", 1))
			for _, n := range []int{1, 2, 3, 39, 40, 41, 42, 100, 254, 255, 256, 257, 299} {
				for _, good := range []bool{true, false} {
					m := 0o755
					if !good {
						m = 0o757
					}
					ops := []permOp{create(1, 0, 0, m)}
					for i := 0; i < n; i++ {
						ops = append(ops, link(2+i, 1+i))
					}
					ops = append(ops, exec(rng.Intn(5), 1+n))
					ops2 := append([]permOp{createCfg(1, 0, 0, m&^0o111, "cmdsensor")}, ops[1:len(ops)-1]...)
					ops2 = append(ops2, validate("cmdsensor", 1+n))
					add([]string{"chain", "chain=" + itoa(n)}, ops...)
					add([]string{"chain", "chain=" + itoa(n)}, ops2...)
				}
			}
			// (d2) the tree changes WHILE the started command is running and the command then fails: one check and at
			// most one start per call; a later call sees the new state
			during := func(api, p int, d permOp) permOp { return permOp{K: "execduring", P: p, Api: api, During: &d} }
			for api := 0; api <= 5; api++ {
				for _, via := range []bool{false, true} {
					target := 1
					pre := []permOp{}
					if via {
						target = 3
						pre = []permOp{link(3, 1)}
					}
					type dcase struct {
						g0, m0 int
						d      permOp
						tag    string
					}
					for _, dc := range []dcase{
						{0, 0o755, permOp{K: "chown", P: target, U: 4242, G: 0}, "chown-user"},
						{4242, 0o755, permOp{K: "chmod", P: target, M: 0o775}, "chmod-g+w"},
						{0, 0o755, permOp{K: "chmod", P: target, M: 0o757}, "chmod-o+w"},
						{0, 0o755, permOp{K: "chown", P: target, U: 0, G: 4242}, "chown-group-harmless"},
						{0, 0o755, permOp{K: "chmod", P: target, M: 0o700}, "chmod-harmless"},
						{0, 0o755, permOp{K: "remove", P: 1}, "remove"},
					} {
						for _, fail := range []bool{true, false} {
							var failing []int
							if fail {
								failing = []int{1, 2}
							}
							ops := append([]permOp{create(1, 0, dc.g0, dc.m0)}, pre...)
							ops = append(ops, during(api, target, dc.d), exec(api, target))
							addFailing([]string{"during", "during=" + dc.tag, "api=" + itoa(api)}, failing, ops...)
						}
					}
					if via {
						// the link is retargeted to a file of another user while the command runs
						for _, fail := range []bool{true, false} {
							var failing []int
							if fail {
								failing = []int{1, 2}
							}
							addFailing([]string{"during", "during=retarget", "api=" + itoa(api)}, failing,
								create(1, 0, 0, 0o755), create(2, 4242, 4242, 0o755), link(3, 1), during(api, 3, link(3, 2)), exec(api, 3))
						}
					}
				}
			}
			// (d3) the executable named by a RELATIVE path (resolved against the working directory by the check and by
			// os/exec alike) with a hostile decoy where a different resolution would look, and by a BARE command name
			// (os/exec searches $PATH, never the working directory)
			for api := 0; api <= 5; api++ {
				for _, form := range []string{"dir", "dot", "dotdot"} {
					for _, a := range [][3]int{{0, 0, 0o755}, {4242, 0, 0o755}, {0, 0, 0o757}, {0, 4242, 0o775}, {0, 0, 0o644}} {
						for _, decoy := range []bool{true, false} {
							tags := []string{"relative", "form=" + form, "api=" + itoa(api)}
							if decoy {
								tags = append(tags, "decoy")
							}
							add(tags, create(1, a[0], a[1], a[2]), permOp{K: "exec", P: 1, Api: api, Form: form, Decoy: decoy})
							add(append(tags, "via-symlink"), create(1, a[0], a[1], a[2]), link(2, 1), permOp{K: "exec", P: 2, Api: api, Form: form, Decoy: decoy})
						}
					}
				}
				for _, a := range [][3]int{{0, 0, 0o755}, {4242, 0, 0o755}, {0, 0, 0o757}} {
					cwdLink := permOp{K: "symlink", P: 2, T: 1, Where: "cwd"}
					bare := func(inpath int) permOp { return permOp{K: "exec", P: 2, Api: api, Form: "bare", InPath: inpath} }
					tags := []string{"relative", "form=bare", "api=" + itoa(api)}
					// nothing of that name in $PATH
					add(append(tags, "path=none"), create(1, a[0], a[1], a[2]), cwdLink, bare(0))
					// a file of another user / a root-controlled file of that name in $PATH
					add(append(tags, "path=hostile"), create(1, a[0], a[1], a[2]), cwdLink,
						permOp{K: "create", P: 3, U: 4242, G: 4242, M: 0o777, Where: "path", As: 2}, bare(3))
					add(append(tags, "path=root"), create(1, a[0], a[1], a[2]), cwdLink,
						permOp{K: "create", P: 3, U: 0, G: 0, M: 0o755, Where: "path", As: 2}, bare(3))
				}
				// only in $PATH, nothing in the working directory
				add([]string{"relative", "form=bare", "api=" + itoa(api), "path=only"},
					permOp{K: "create", P: 3, U: 0, G: 0, M: 0o755, Where: "path", As: 2}, permOp{K: "exec", P: 2, Api: api, Form: "bare", InPath: 3})
				add([]string{"relative", "form=bare", "api=" + itoa(api), "path=only-hostile"},
					permOp{K: "create", P: 3, U: 0, G: 4242, M: 0o775, Where: "path", As: 2}, permOp{K: "exec", P: 2, Api: api, Form: "bare", InPath: 3})
			}
			// (d4) `..` (and `.`, `//`) directly after a SYMLINKED directory component: the kernel, os/exec and viper follow
			// the link first (<case>/app/current/../bin/f -> <case>/user/releases/bin/f), a lexical clean-up would
			// yield <case>/app/bin/f. The real file lives at the kernel-resolved place, a decoy with the opposite
			// attributes at the lexically cleaned one
			for _, form := range []string{"sym1", "sym2", "sym3", "symrel"} {
				type sc struct {
					u, g, m     int
					decoy, root bool
					tag         string
				}
				for _, c := range []sc{
					{4242, 4242, 0o777, true, true, "real=hostile,decoy=root"},
					{0, 4242, 0o775, true, true, "real=groupwrite,decoy=root"},
					{0, 0, 0o755, true, false, "real=root,decoy=hostile"},
					{0, 0, 0o755, false, false, "real=root,no-decoy"},
					{4242, 0, 0o755, false, false, "real=hostile,no-decoy"},
				} {
					for api := 0; api <= 5; api++ {
						add([]string{"symdotdot", "form=" + form, "api=" + itoa(api), c.tag},
							permOp{K: "create", P: 1, U: c.u, G: c.g, M: c.m, Where: "deep"},
							permOp{K: "exec", P: 1, Api: api, Form: form, Decoy: c.decoy, DecoyRoot: c.root})
					}
					for _, v := range []string{"cmdsensor", "cmdfan", "cmdsensor_unused", "nocmd"} {
						add([]string{"symdotdot", "form=" + form, "cfg=" + v, c.tag},
							permOp{K: "create", P: 1, U: c.u, G: c.g, M: c.m &^ 0o111, Where: "deep", Cfg: v},
							permOp{K: "validate", P: 1, Cfg: v, Form: form, Decoy: c.decoy, DecoyRoot: c.root})
					}
				}
			}
			// (d5) a history on ONE wrapper object: read ok, the executable stops being root-controlled, three more reads
			// (each must be refused with an error and start nothing), it is repaired, one more read
			for api := 0; api <= 5; api++ {
				for _, via := range []bool{false, true} {
					target := 1
					pre := []permOp{}
					if via {
						target = 3
						pre = []permOp{link(3, 1)}
					}
					type hc struct {
						g0     int
						change permOp
						repair permOp
						tag    string
					}
					hcs := []hc{
						{0, permOp{K: "chown", P: target, U: 4242, G: 0}, permOp{K: "chown", P: target, U: 0, G: 0}, "chown-user"},
						{0, permOp{K: "chmod", P: target, M: 0o757}, permOp{K: "chmod", P: target, M: 0o755}, "chmod-o+w"},
						{4242, permOp{K: "chmod", P: target, M: 0o775}, permOp{K: "chmod", P: target, M: 0o755}, "chmod-g+w"},
						{0, permOp{K: "remove", P: 1}, create(1, 0, 0, 0o755), "removed"},
					}
					if via {
						hcs = append(hcs, hc{0, link(3, 2), link(3, 1), "retarget"})
					}
					for _, h := range hcs {
						ops := append([]permOp{create(1, 0, h.g0, 0o755), create(2, 4242, 4242, 0o755)}, pre...)
						ops = append(ops, exec(api, target), exec(api, target), h.change, exec(api, target), exec(api, target), exec(api, target), exec(api, target),
							h.repair, exec(api, target), h.change, exec(api, target))
						add([]string{"one-object", "change=" + h.tag, "api=" + itoa(api)}, ops...)
					}
				}
			}
			// (d6) fan2go running as a NON-ROOT user (calls performed in a child process with uid = gid = 65534): only
			// root-owned files pass, also not files owned by exactly that user
			for _, via := range []bool{false, true} {
				for _, a := range [][3]int{{0, 0, 0o755}, {65534, 65534, 0o755}, {65534, 0, 0o755}, {4242, 0, 0o755}, {0, 65534, 0o775}, {0, 65534, 0o755}} {
					for api := 0; api <= 5; api++ {
						ops := []permOp{create(1, a[0], a[1], a[2])}
						t := 1
						if via {
							ops = append(ops, link(2, 1))
							t = 2
						}
						ops = append(ops, permOp{K: "exec", P: t, Api: api, Euid: 65534})
						add([]string{"non-root-euid", "api=" + itoa(api), "owner=" + itoa(a[0])}, ops...)
					}
					for _, v := range []string{"cmdsensor", "cmdfan"} {
						ops := []permOp{createCfg(1, a[0], a[1], a[2]&^0o111, v)}
						t := 1
						if via {
							ops = append(ops, link(2, 1))
							t = 2
						}
						ops = append(ops, permOp{K: "validate", P: t, Cfg: v, Euid: 65534})
						add([]string{"non-root-euid", "cfg=" + v, "owner=" + itoa(a[0])}, ops...)
					}
				}
			}
			// (d7) the configured `exec` string contains a space, `;`, `$`, `|`, `&` or a back-tick: it names exactly the file
			// of that name (which is checked and started), never a command line; a hostile f1 stands where a shell
			// would end up; "f1 --zone 1" (path plus inline argument) names no file at all: refused, nothing runs
			for api := 1; api <= 5; api++ {
				for _, nm := range []string{"f1 x", "f1;x", "f1$x", "f1|x", "f1&x", "f1`x`", "f1 --zone 1"} {
					for _, real := range [][3]int{{0, 0, 0o755}, {4242, 0, 0o755}} {
						add([]string{"metachar", "api=" + itoa(api), "name=" + nm},
							create(1, 4242, 4242, 0o777),
							permOp{K: "create", P: 5, U: real[0], G: real[1], M: real[2], Name: nm},
							permOp{K: "exec", P: 5, Api: api})
					}
				}
				for _, hostile := range [][3]int{{4242, 4242, 0o777}, {0, 4242, 0o775}, {0, 0, 0o755}} {
					for _, nm := range []string{"f1 --zone 1", "f1 ; true", "f1 $HOME", "f1 | cat"} {
						add([]string{"metachar", "inline-argument", "api=" + itoa(api)},
							create(1, hostile[0], hostile[1], hostile[2]),
							permOp{K: "exec", P: 7, Api: api, Name: nm})
					}
				}
			}
			// (e) ownership / mode / link target changed between consecutive calls
			nFlip := ctx.Param("flips", 400)
			if !ctx.Quick() {
				nFlip = ctx.Param("flips", 6000)
			}
			pickMode := func() int {
				if rng.Chance(1, 4) {
					return rng.Intn(512)
				}
				return someModes[rng.Intn(len(someModes))]
			}
			for i := 0; i < nFlip; i++ {
				isCfg := rng.Chance(1, 4)
				variant := []string{"cmdsensor", "cmdfan", "cmdboth", "nocmd", "cmd_fanserr", "cmdsensor_unused"}[rng.Intn(6)]
				mk := func(p, u, g, m int) permOp {
					if isCfg {
						return createCfg(p, u, g, m, variant)
					}
					return create(p, u, g, m)
				}
				var failing []int
				if !isCfg {
					for _, id := range []int{1, 2} {
						if rng.Chance(1, 3) {
							failing = append(failing, id)
						}
					}
				}
				fixedApi := -1
				if rng.Bool() {
					fixedApi = rng.Intn(6) // the whole sequence through one wrapper object
				}
				pickApi := func() int {
					if fixedApi >= 0 {
						return fixedApi
					}
					return rng.Intn(6)
				}
				call := func(p int) permOp {
					if isCfg {
						return validate(variant, p)
					}
					if rng.Chance(1, 5) {
						var d permOp
						switch rng.Intn(3) {
						case 0:
							d = permOp{K: "chmod", P: []int{1, 2, 3}[rng.Intn(3)], M: pickMode()}
						case 1:
							d = permOp{K: "chown", P: []int{1, 2, 3}[rng.Intn(3)], U: rng.Pick(ids), G: rng.Pick(ids)}
						default:
							d = link(3, 1+rng.Intn(2))
						}
						return during(pickApi(), p, d)
					}
					return exec(pickApi(), p)
				}
				// two files (often one good, one bad) and a link that may be retargeted
				ops := []permOp{mk(1, rng.Pick(ids), rng.Pick(ids), pickMode()), mk(2, rng.Pick(ids), rng.Pick(ids), pickMode()), link(3, 1+rng.Intn(2))}
				target := []int{1, 2, 3}[rng.Intn(3)]
				ops = append(ops, call(target))
				rounds := rng.Range(1, 4)
				for r := 0; r < rounds; r++ {
					switch rng.Intn(7) {
					case 0, 1:
						ops = append(ops, permOp{K: "chmod", P: []int{1, 2, 3}[rng.Intn(3)], M: pickMode()})
					case 2, 3:
						ops = append(ops, permOp{K: "chown", P: []int{1, 2, 3}[rng.Intn(3)], U: rng.Pick(ids), G: rng.Pick(ids)})
					case 4:
						ops = append(ops, link(3, 1+rng.Intn(2)))
					case 5:
						ops = append(ops, permOp{K: "remove", P: 1 + rng.Intn(3)})
					case 6:
						ops = append(ops, mk(1+rng.Intn(2), rng.Pick(ids), rng.Pick(ids), pickMode()))
					}
					if rng.Chance(1, 3) {
						target = []int{1, 2, 3}[rng.Intn(3)]
					}
					ops = append(ops, call(target))
				}
				addFailing([]string{"flip"}, failing, ops...)
			}
		}
		// run (exec cases in parallel, each in its own directory), emit in order
		type res struct {
			obs []permObs
			coq string
		}
		results := make([]res, len(jobs))
		var wg sync.WaitGroup
		sem := make(chan struct{}, 8)
		for i := range jobs {
			wg.Add(1)
			sem <- struct{}{}
			go func(i int) {
				defer wg.Done()
				defer func() { <-sem }()
				o, c := runPerm(ctx.WorkDir, i, jobs[i].in)
				results[i] = res{o, c}
			}(i)
		}
		wg.Wait()
		for i, j := range jobs {
			tags := append([]string{}, j.tags...)
			nontrivial := false
			for _, o := range results[i].obs {
				if o.Stat != nil {
					nontrivial = true
				}
				switch {
				case o.Res == 2:
					tags = append(tags, "out=panic")
				case len(o.Starts) > 0:
					tags = append(tags, "out=ran")
				case o.Res == 0:
					tags = append(tags, "out=accepted")
				default:
					tags = append(tags, "out=err"+itoa(o.Reason))
				}
			}
			ctx.Emit(Record{In: j.in, Obs: results[i].obs, Coq: results[i].coq, Tags: tags, NonTrv: nontrivial})
		}
	}
}
