//go:build verif

package main

import (
	"encoding/json"
	"errors"
	"math"
	"os"
	"os/exec"
	"path/filepath"
	"sort"
	"strconv"
	"strings"
	"syscall"
	"time"

	"github.com/markusressel/fan2go/internal/configuration"
	"github.com/markusressel/fan2go/internal/fans"
	"github.com/markusressel/fan2go/internal/persistence"
	bolt "go.etcd.io/bbolt"
)

// driver `persist` (C14): the real persistence wrapper on a temp bbolt file.
//   in-process cases: random operation sequences over 4 fan ids x 2 kinds, every
//     step followed by loads of all 8 entries (sometimes skipped after a corrupt
//     write so that other operations meet the undecodable bytes first);
//   kill cases: a worker process (`verifharness persist-worker`) executes a
//     sequence and is SIGKILLed at a random instant, a fresh process
//     (`verifharness persist-reader`) reads everything back.

var persistIds = []string{"fan1", "fan10", "Fan1", "fan1 "}

type persistVal struct {
	Nil  bool     `json:"nil,omitempty"`
	Keys []int    `json:"keys"`
	F    []string `json:"f,omitempty"` // kind 0: float64 values, exact hex
	I    []int    `json:"i,omitempty"` // kind 1: int values
}
type persistOp struct {
	Op string      `json:"op"` // save load delete reopen corrupt
	K  int         `json:"k"`  // 0 = RPM-curve data (bucket fans), 1 = PWM map (bucket fanPwmMap)
	Id int         `json:"id"`
	V  *persistVal `json:"v,omitempty"`
	G  int         `json:"g,omitempty"` // corrupt: index into persistBlobs
}
type persistOut struct {
	R   string      `json:"r"` // saved saveerr found notfound deleted reopened corrupted error
	V   *persistVal `json:"v,omitempty"`
	Err string      `json:"err,omitempty"` // diagnostic only, never compared
}
type persistIn struct {
	Mode   string      `json:"mode"` // "seq" | "kill" (timed SIGKILL) | "killat" (worker dies right after its KillAt-th committed transaction)
	KillAt int         `json:"killat,omitempty"`
	Ops    []persistOp `json:"ops"`
	Frac   int         `json:"frac,omitempty"` // kill: delay as a fraction (per mille) of the calibrated run time
	Disk   bool        `json:"disk,omitempty"` // kill: db on the work dir's file system instead of tmpfs
}
type persistObs struct {
	Outs     []persistOut `json:"outs"`
	Started  int          `json:"started,omitempty"`
	Done     int          `json:"done,omitempty"`
	Killed   bool         `json:"killed,omitempty"`
	Readback []persistOut `json:"readback,omitempty"`
	Worker   string       `json:"worker,omitempty"` // exit status of the worker process
	Reader   string       `json:"reader,omitempty"` // exit status of the reading process
	Bad      bool         `json:"bad,omitempty"`    // a sub-process failed / timed out or a read-back load returned an error
	Raw      [][]int      `json:"raw"`              // ids present per bucket afterwards (null = no such bucket), read with bbolt directly
}

// bytes written behind the wrapper's back, with what encoding/json makes of them per kind
type persistBlob struct {
	raw  string
	dOK  bool
	dVal persistVal
	mOK  bool
	mVal persistVal
}

func persistDV(nilmap bool, kv ...float64) persistVal {
	v := persistVal{Nil: nilmap, Keys: []int{}, F: []string{}}
	for i := 0; i+1 < len(kv); i += 2 {
		v.Keys = append(v.Keys, int(kv[i]))
		v.F = append(v.F, jF(kv[i+1]))
	}
	return v
}
func persistMV(nilmap bool, kv ...int) persistVal {
	v := persistVal{Nil: nilmap, Keys: []int{}, I: []int{}}
	for i := 0; i+1 < len(kv); i += 2 {
		v.Keys = append(v.Keys, kv[i])
		v.I = append(v.I, kv[i+1])
	}
	return v
}

var persistBlobs = []persistBlob{
	{raw: ""},
	{raw: "nul"},
	{raw: "\x00\xff\xfe{"},
	{raw: "[1,2]"},
	{raw: `{"1":1,"x":2}`},
	{raw: `{"1":2.5}`, dOK: true, dVal: persistDV(false, 1, 2.5)},
	{raw: `{"1":1e400}`},
	{raw: "null", dOK: true, dVal: persistDV(true), mOK: true, mVal: persistMV(true)},
	{raw: "{}", dOK: true, dVal: persistDV(false), mOK: true, mVal: persistMV(false)},
	{raw: ` {"5" : 7 } `, dOK: true, dVal: persistDV(false, 5, 7), mOK: true, mVal: persistMV(false, 5, 7)},
	{raw: `{"1":1,"1":2}`, dOK: true, dVal: persistDV(false, 1, 2), mOK: true, mVal: persistMV(false, 1, 2)},
	{raw: `{"1":null}`, dOK: true, dVal: persistDV(false, 1, 0), mOK: true, mVal: persistMV(false, 1, 0)},
	{raw: `{"-0":1,"01":3}`, dOK: true, dVal: persistDV(false, 0, 1, 1, 3), mOK: true, mVal: persistMV(false, 0, 1, 1, 3)},
	{raw: `{"9223372036854775808":1}`},
	{raw: `{"1.0":1}`},
	{raw: `"str"`},
	{raw: `{"1":"2"}`},
	{raw: `{"1":1}trailing`},
	{raw: `{"3":-0.0}`, dOK: true, dVal: persistDV(false, 3, math.Copysign(0, -1))},
	{raw: `{"2":1E2}`, dOK: true, dVal: persistDV(false, 2, 100)},
	{raw: `{"7":255}`, dOK: true, dVal: persistDV(false, 7, 255), mOK: true, mVal: persistMV(false, 7, 255)},
	{raw: `{"4":5,"6":`},
}

// ---- running one operation against the real code ----
type persistEnv struct {
	path string
	p    persistence.Persistence
}

func persistNewEnv(path string) *persistEnv {
	return &persistEnv{path: path, p: persistence.NewPersistence(path)}
}

func persistDataMap(v *persistVal) map[int]float64 {
	if v == nil || v.Nil {
		return nil
	}
	m := map[int]float64{}
	for i, k := range v.Keys {
		m[k] = pF(v.F[i])
	}
	return m
}
func persistPwmMap(v *persistVal) map[int]int {
	if v == nil || v.Nil {
		return nil
	}
	m := map[int]int{}
	for i, k := range v.Keys {
		m[k] = v.I[i]
	}
	return m
}
func persistObsData(m map[int]float64) *persistVal {
	v := &persistVal{Nil: m == nil, Keys: []int{}, F: []string{}}
	for k := range m {
		v.Keys = append(v.Keys, k)
	}
	sort.Ints(v.Keys)
	for _, k := range v.Keys {
		v.F = append(v.F, jF(m[k]))
	}
	return v
}
func persistObsMap(m map[int]int) *persistVal {
	v := &persistVal{Nil: m == nil, Keys: []int{}, I: []int{}}
	for k := range m {
		v.Keys = append(v.Keys, k)
	}
	sort.Ints(v.Keys)
	for _, k := range v.Keys {
		v.I = append(v.I, m[k])
	}
	return v
}

func persistFan(id int, data *map[int]float64) fans.Fan {
	return &fans.HwMonFan{
		Config:       configuration.FanConfig{ID: persistIds[id], HwMon: &configuration.HwMonFanConfig{Platform: "p", Index: 1}},
		FanCurveData: data,
	}
}

func persistBucketName(k int) string {
	if k == 0 {
		return persistence.BucketFans
	}
	return persistence.BucketFanPwmMap
}

func (e *persistEnv) exec(o persistOp) (res persistOut) {
	if p := catch(func() { res = e.exec1(o) }); p != "" {
		return persistOut{R: "error", Err: "panic: " + p}
	}
	return res
}

func (e *persistEnv) exec1(o persistOp) persistOut {
	loadRes := func(err error, v *persistVal) persistOut {
		switch {
		case err == nil:
			return persistOut{R: "found", V: v}
		case errors.Is(err, os.ErrNotExist):
			return persistOut{R: "notfound"}
		default:
			return persistOut{R: "error", Err: err.Error()}
		}
	}
	switch o.Op {
	case "save":
		var err error
		if o.K == 0 {
			m := persistDataMap(o.V)
			err = e.p.SaveFanPwmData(persistFan(o.Id, &m))
		} else {
			err = e.p.SaveFanPwmMap(persistIds[o.Id], persistPwmMap(o.V))
		}
		if err != nil {
			return persistOut{R: "saveerr", Err: err.Error()}
		}
		return persistOut{R: "saved"}
	case "load":
		if o.K == 0 {
			m, err := e.p.LoadFanPwmData(persistFan(o.Id, nil))
			return loadRes(err, persistObsData(m))
		}
		m, err := e.p.LoadFanPwmMap(persistIds[o.Id])
		return loadRes(err, persistObsMap(m))
	case "delete":
		var err error
		if o.K == 0 {
			err = e.p.DeleteFanPwmData(persistFan(o.Id, nil))
		} else {
			err = e.p.DeleteFanPwmMap(persistIds[o.Id])
		}
		if err != nil {
			return persistOut{R: "error", Err: err.Error()}
		}
		return persistOut{R: "deleted"}
	case "reopen":
		e.p = persistence.NewPersistence(e.path)
		if err := e.p.Init(); err != nil {
			return persistOut{R: "error", Err: err.Error()}
		}
		return persistOut{R: "reopened"}
	case "corrupt":
		db, err := bolt.Open(e.path, 0600, &bolt.Options{Timeout: time.Minute})
		if err != nil {
			panic(err)
		}
		err = db.Update(func(tx *bolt.Tx) error {
			b, err := tx.CreateBucketIfNotExists([]byte(persistBucketName(o.K)))
			if err != nil {
				return err
			}
			return b.Put([]byte(persistIds[o.Id]), []byte(persistBlobs[o.G].raw))
		})
		_ = db.Close()
		if err != nil {
			panic(err)
		}
		return persistOut{R: "corrupted"}
	}
	panic("unknown op " + o.Op)
}

// persistRaw reads the key sets of the two buckets directly (read-only transaction).
func persistRaw(path string) ([][]int, string) {
	raw := make([][]int, 2)
	db, err := bolt.Open(path, 0600, &bolt.Options{Timeout: 5 * time.Second, ReadOnly: true})
	if err == nil {
		_ = db.View(func(tx *bolt.Tx) error {
			for k := 0; k < 2; k++ {
				b := tx.Bucket([]byte(persistBucketName(k)))
				if b == nil {
					continue
				}
				raw[k] = []int{}
				_ = b.ForEach(func(key, _ []byte) error {
					id := -1
					for i, s := range persistIds {
						if s == string(key) {
							id = i
						}
					}
					raw[k] = append(raw[k], id) // -1 = a key nobody wrote: never in the model
					return nil
				})
				sort.Ints(raw[k])
			}
			return nil
		})
		_ = db.Close()
	}
	items := make([]string, 2)
	for k := 0; k < 2; k++ {
		if raw[k] == nil {
			items[k] = "None"
		} else {
			items[k] = "(Some " + cZList(raw[k]) + ")"
		}
	}
	return raw, cList(items)
}

func persistLoadAllOps() []persistOp {
	var res []persistOp
	for id := range persistIds {
		for k := 0; k < 2; k++ {
			res = append(res, persistOp{Op: "load", K: k, Id: id})
		}
	}
	return res
}

// ---- Coq rendering ----
func persistCKind(k int) string {
	if k == 0 {
		return "KData"
	}
	return "KMap"
}
func persistCBig(n uint64) string { return strconv.FormatUint(n, 10) }

// value term; asSaved: for kind 0 the saved value is the entry set of the fan's map
// (SaveFanPwmData copies it into a fresh map), so a nil map counts as the empty map
func persistCVal(k int, v *persistVal, asSaved bool) string {
	if v == nil || v.Nil {
		if asSaved && k == 0 {
			return "(Some [])"
		}
		return "None"
	}
	idx := make([]int, len(v.Keys))
	for i := range idx {
		idx[i] = i
	}
	sort.Slice(idx, func(a, b int) bool { return v.Keys[idx[a]] < v.Keys[idx[b]] })
	items := make([]string, len(idx))
	for j, i := range idx {
		if k == 0 {
			items[j] = "(" + cZ(v.Keys[i]) + ", " + persistCBig(math.Float64bits(pF(v.F[i]))) + ")"
		} else {
			items[j] = "(" + cZ(v.Keys[i]) + ", " + cZ(v.I[i]) + ")"
		}
	}
	return "(Some " + cList(items) + ")"
}
func persistCBop(o persistOp) string {
	switch o.Op {
	case "save":
		return "(Save " + persistCKind(o.K) + " " + cZ(o.Id) + " " + persistCVal(o.K, o.V, true) + ")"
	case "load":
		return "(Load " + persistCKind(o.K) + " " + cZ(o.Id) + ")"
	case "delete":
		return "(Delete " + persistCKind(o.K) + " " + cZ(o.Id) + ")"
	case "reopen":
		return "Reopen"
	case "corrupt":
		b := persistBlobs[o.G]
		ok, val := b.dOK, b.dVal
		if o.K == 1 {
			ok, val = b.mOK, b.mVal
		}
		if ok {
			return "(Corrupt " + persistCKind(o.K) + " " + cZ(o.Id) + " (BJson " + persistCVal(o.K, &val, false) + "))"
		}
		return "(Corrupt " + persistCKind(o.K) + " " + cZ(o.Id) + " (BGarbage " + cZ(o.G) + "))"
	}
	panic("unknown op")
}
func persistCOps(ops []persistOp) string {
	s := make([]string, len(ops))
	for i, o := range ops {
		s[i] = "Do " + persistCBop(o)
	}
	return cList(s)
}
func persistCOut(k int, o persistOut) string {
	switch o.R {
	case "saved":
		return "OSaved"
	case "saveerr":
		return "OSaveErr"
	case "found":
		return "OFound " + persistCVal(k, o.V, false)
	case "notfound":
		return "ONotFound"
	case "deleted":
		return "ODeleted"
	case "reopened":
		return "OReopened"
	case "corrupted":
		return "OCorrupted"
	}
	return "OError"
}
func persistCOuts(ops []persistOp, outs []persistOut) string {
	s := make([]string, len(outs))
	for i, o := range outs {
		s[i] = persistCOut(ops[i].K, o)
	}
	return cList(s)
}

// ---- generators ----
func persistGenDataVal(rng *Rng, hostile bool) *persistVal {
	if rng.Chance(1, 12) {
		return &persistVal{Nil: true, Keys: []int{}, F: []string{}}
	}
	n := rng.Pick([]int{0, 1, 1, 2, 3, 5, 8})
	set := map[int]bool{}
	v := &persistVal{Keys: []int{}, F: []string{}}
	for len(v.Keys) < n {
		var k int
		switch rng.Intn(6) {
		case 0:
			k = rng.Range(0, 255)
		case 1:
			k = -rng.Range(0, 300)
		case 2:
			k = rng.Pick([]int{0, -1, 255, 256, math.MaxInt64, math.MinInt64, 1 << 53, -(1 << 31)})
		default:
			k = rng.Range(0, 255)
		}
		if set[k] {
			continue
		}
		set[k] = true
		var f float64
		switch rng.Intn(8) {
		case 0:
			f = float64(rng.Range(0, 6000))
		case 1:
			f = rng.Float01() * 5000
		case 2:
			f = persistPickF(rng, []float64{1e300, -1e300, 5e-324, math.MaxFloat64, -math.MaxFloat64, 0.1, 1.0 / 3, 2.2250738585072014e-308})
		case 3:
			f = persistPickF(rng, []float64{0, math.Copysign(0, -1), -1, 255, 1e21, 1e-7, 123456789.123456789})
		case 4:
			f = math.Float64frombits(rng.Next()) // any bit pattern (may be NaN/Inf)
			if !hostile && (math.IsNaN(f) || math.IsInf(f, 0)) {
				f = 1
			}
		default:
			f = float64(rng.Range(0, 3000)) + rng.Float01()
		}
		if hostile && rng.Chance(1, 6) {
			f = persistPickF(rng, []float64{math.NaN(), math.Inf(1), math.Inf(-1)})
		}
		v.Keys = append(v.Keys, k)
		v.F = append(v.F, jF(f))
	}
	return v
}

func persistPickF(r *Rng, xs []float64) float64 { return xs[r.Intn(len(xs))] }

func persistGenMapVal(rng *Rng) *persistVal {
	if rng.Chance(1, 8) {
		return &persistVal{Nil: true, Keys: []int{}, I: []int{}}
	}
	n := rng.Pick([]int{0, 1, 2, 3, 5, 9})
	set := map[int]bool{}
	v := &persistVal{Keys: []int{}, I: []int{}}
	for len(v.Keys) < n {
		var k int
		switch rng.Intn(5) {
		case 0:
			k = -rng.Range(0, 300)
		case 1:
			k = rng.Pick([]int{0, -1, 255, 256, math.MaxInt64, math.MinInt64})
		default:
			k = rng.Range(0, 255)
		}
		if set[k] {
			continue
		}
		set[k] = true
		var x int
		switch rng.Intn(5) {
		case 0:
			x = rng.Pick([]int{-1, 0, 255, 256, math.MaxInt64, math.MinInt64, -300})
		default:
			x = rng.Range(0, 255)
		}
		v.Keys = append(v.Keys, k)
		v.I = append(v.I, x)
	}
	return v
}

func persistGenBop(rng *Rng, hostile bool, nIds int) persistOp {
	k := rng.Intn(2)
	id := rng.Intn(nIds)
	switch x := rng.Intn(20); {
	case x < 9:
		o := persistOp{Op: "save", K: k, Id: id}
		if k == 0 {
			o.V = persistGenDataVal(rng, hostile)
		} else {
			o.V = persistGenMapVal(rng)
		}
		return o
	case x < 12:
		return persistOp{Op: "delete", K: k, Id: id}
	case x < 14:
		return persistOp{Op: "load", K: k, Id: id}
	case x < 16:
		return persistOp{Op: "reopen"}
	default:
		if !hostile {
			return persistOp{Op: "delete", K: k, Id: id}
		}
		return persistOp{Op: "corrupt", K: k, Id: id, G: rng.Intn(len(persistBlobs))}
	}
}

// one in-process sequence: steps, each followed (mostly) by loads of everything
func persistGenSeq(rng *Rng, steps int, hostile bool) []persistOp {
	var ops []persistOp
	nIds := rng.Range(3, 4)
	for i := 0; i < steps; i++ {
		o := persistGenBop(rng, hostile, nIds)
		ops = append(ops, o)
		if o.Op == "corrupt" && rng.Chance(2, 3) {
			// let the next operation (often on the same entry) meet the undecodable bytes first
			if rng.Chance(1, 2) {
				nx := persistGenBop(rng, hostile, nIds)
				if nx.Op != "reopen" {
					nx.K, nx.Id = o.K, o.Id
					if nx.Op == "save" {
						if nx.K == 0 {
							nx.V = persistGenDataVal(rng, hostile)
						} else {
							nx.V = persistGenMapVal(rng)
						}
					}
				}
				ops = append(ops, nx)
			}
			if rng.Chance(1, 2) {
				ops = append(ops, persistOp{Op: "load", K: o.K, Id: o.Id}, persistOp{Op: "load", K: o.K, Id: o.Id})
			}
		}
		ops = append(ops, persistLoadAllOps()...)
	}
	return ops
}

func persistScratch(ctx *Ctx, disk bool) string {
	base := ctx.WorkDir
	if !disk {
		if st, err := os.Stat("/dev/shm"); err == nil && st.IsDir() {
			if d, err := os.MkdirTemp("/dev/shm", "verif-persist-"); err == nil {
				return d
			}
		}
	}
	d, err := os.MkdirTemp(base, "persist-")
	if err != nil {
		panic(err)
	}
	return d
}

func persistRunSeq(ctx *Ctx, in persistIn) (persistObs, string) {
	dir := persistScratch(ctx, false)
	defer os.RemoveAll(dir)
	env := persistNewEnv(filepath.Join(dir, "sub", "fan2go.db"))
	if err := env.p.Init(); err != nil {
		panic(err)
	}
	var obs persistObs
	for _, o := range in.Ops {
		obs.Outs = append(obs.Outs, env.exec(o))
	}
	raw, craw := persistRaw(env.path)
	obs.Raw = raw
	coq := cRec("mkCase", "[]", "None", persistCOps(in.Ops), persistCOuts(in.Ops, obs.Outs), craw)
	return obs, coq
}

// ---- kill cases ----
// persistRunSub runs one worker/reader process under its own watchdog.
// kill >= 0: SIGKILL it after that delay (timed kill). status: "ok" (exit 0), "killed" (by the timed kill),
// "self-killed" (died by a signal: its crash point), "timeout" (watchdog), or "failed: <error>".
func persistRunSub(dir string, mode string, kill time.Duration, watchdog time.Duration, extra ...string) (status string, elapsed time.Duration) {
	cmd := exec.Command(os.Args[0], append([]string{mode, "--work", dir, "--out", os.DevNull, "dir=" + dir}, extra...)...)
	t0 := time.Now()
	if err := cmd.Start(); err != nil {
		return "failed: " + err.Error(), 0
	}
	var werr error
	done := make(chan struct{})
	go func() { werr = cmd.Wait(); close(done) }()
	var killC <-chan time.Time
	if kill >= 0 {
		killC = time.After(kill)
	}
	select {
	case <-done:
	case <-killC:
		_ = cmd.Process.Kill() // SIGKILL
		<-done
		return "killed", time.Since(t0)
	case <-time.After(watchdog):
		_ = cmd.Process.Kill()
		<-done
		return "timeout", time.Since(t0)
	}
	if werr != nil {
		var ee *exec.ExitError
		if errors.As(werr, &ee) && !ee.Exited() {
			return "self-killed", time.Since(t0)
		}
		return "failed: " + werr.Error(), time.Since(t0)
	}
	return "ok", time.Since(t0)
}

const (
	persistWorkerWatchdog = 20 * time.Second
	persistReaderWatchdog = 10 * time.Second
	persistSlowOp         = 2 * time.Second // the reader stops after an operation slower than this
)

type persistKillCal struct{ start, full time.Duration }

func persistRunKill(ctx *Ctx, in persistIn, cal *persistKillCal) (persistObs, string, []string) {
	dir := persistScratch(ctx, in.Disk)
	defer os.RemoveAll(dir)
	b, _ := json.Marshal(in.Ops)
	if err := os.WriteFile(filepath.Join(dir, "ops.json"), b, 0600); err != nil {
		panic(err)
	}
	// delay: from a bit before the worker's first operation to a bit after its last
	if cal == nil {
		cal = &persistKillCal{}
	}
	lo := cal.start * 8 / 10
	span := cal.full - lo
	delay := lo + time.Duration(int64(span)*int64(in.Frac)/1250) // sequences vary in length: aim at the first 80% of the calibrated run
	var wstatus string
	if in.Mode == "killat" {
		wstatus, _ = persistRunSub(dir, "persist-worker", -1, persistWorkerWatchdog, "killat="+itoa(in.KillAt))
	} else {
		wstatus, _ = persistRunSub(dir, "persist-worker", delay, persistWorkerWatchdog)
	}
	killed := wstatus == "killed" || wstatus == "self-killed"
	var obs persistObs
	obs.Killed = killed
	obs.Worker = wstatus
	if jb, err := os.ReadFile(filepath.Join(dir, "journal")); err == nil {
		for _, line := range strings.Split(string(jb), "\n") {
			switch line {
			case "s":
				obs.Started++
			case "d":
				obs.Done++
			}
		}
	}
	// a fresh process reads everything back
	rstatus, _ := persistRunSub(dir, "persist-reader", -1, persistReaderWatchdog)
	obs.Reader = rstatus
	if rb, err := os.ReadFile(filepath.Join(dir, "readback.json")); err == nil {
		_ = json.Unmarshal(rb, &obs.Readback)
	}
	loads := persistLoadAllOps()
	if rstatus != "ok" && len(obs.Readback) < len(loads) {
		// the reader died or was stopped by its watchdog: the load it was in did not deliver a result
		obs.Readback = append(obs.Readback, persistOut{R: "error", Err: "reader " + rstatus})
	}
	loads = loads[:len(obs.Readback)] // only what was observed
	for _, o := range obs.Readback {
		if o.R == "error" {
			obs.Bad = true
		}
	}
	if wstatus == "timeout" || strings.HasPrefix(wstatus, "failed") {
		obs.Bad = true
	}
	inflight := "None"
	tags := []string{"kill"}
	if in.Mode == "killat" {
		tags = []string{"killat"}
	}
	switch {
	case obs.Started == obs.Done+1:
		inflight = "(Some " + persistCBop(in.Ops[obs.Done]) + ")"
		tags = append(tags, "kill-inflight", "kill-inflight-"+in.Ops[obs.Done].Op)
		if o := in.Ops[obs.Done]; o.Op == "save" {
			// descriptive only: is the interrupted save visible to the fresh process?
			for i, l := range loads {
				if l.K == o.K && l.Id == o.Id && i < len(obs.Readback) {
					if obs.Readback[i].R == "found" && persistCVal(o.K, obs.Readback[i].V, false) == persistCVal(o.K, o.V, true) {
						tags = append(tags, "kill-inflight-save-visible")
					} else {
						tags = append(tags, "kill-inflight-save-not-visible")
					}
				}
			}
		}
	case obs.Started == obs.Done:
		if obs.Done == len(in.Ops) {
			tags = append(tags, "kill-after-end")
		} else if obs.Done == 0 {
			tags = append(tags, "kill-before-start")
		} else {
			tags = append(tags, "kill-between")
		}
	default:
		obs.Bad = true
		tags = append(tags, "kill-journal-inconsistent")
	}
	if in.Disk {
		tags = append(tags, "kill-disk")
	} else {
		tags = append(tags, "kill-tmpfs")
	}
	raw, craw := persistRaw(filepath.Join(dir, "fan2go.db"))
	obs.Raw = raw
	coq := cRec("mkCase", persistCOps(in.Ops[:obs.Done]), inflight, persistCOps(loads), persistCOuts(loads, obs.Readback), craw)
	return obs, coq, tags
}

func persistWorker(ctx *Ctx) {
	dir := ctx.Params["dir"]
	var ops []persistOp
	b, err := os.ReadFile(filepath.Join(dir, "ops.json"))
	if err != nil {
		panic(err)
	}
	if err := json.Unmarshal(b, &ops); err != nil {
		panic(err)
	}
	j, err := os.OpenFile(filepath.Join(dir, "journal"), os.O_CREATE|os.O_WRONLY|os.O_APPEND, 0600)
	if err != nil {
		panic(err)
	}
	env := persistNewEnv(filepath.Join(dir, "fan2go.db"))
	if err := env.p.Init(); err != nil {
		panic(err)
	}
	if k := ctx.Param("killat", 0); k > 0 {
		n := 0
		persistence.VerifAfterCommit = func(err error) {
			if err == nil {
				n++
			}
			if n == k {
				_ = syscall.Kill(os.Getpid(), syscall.SIGKILL)
				select {}
			}
		}
	}
	for _, o := range ops {
		_, _ = j.Write([]byte("s\n"))
		env.exec(o)
		_, _ = j.Write([]byte("d\n"))
	}
	_ = j.Close()
}

func persistReader(ctx *Ctx) {
	dir := ctx.Params["dir"]
	env := persistNewEnv(filepath.Join(dir, "fan2go.db"))
	var outs []persistOut
	for _, o := range persistLoadAllOps() {
		t0 := time.Now()
		outs = append(outs, env.exec(o))
		// the result of every load is on disk before the next one starts (the parent may have to kill us)
		b, _ := json.Marshal(outs)
		tmp := filepath.Join(dir, "readback.tmp")
		if err := os.WriteFile(tmp, b, 0600); err != nil {
			panic(err)
		}
		if err := os.Rename(tmp, filepath.Join(dir, "readback.json")); err != nil {
			panic(err)
		}
		if time.Since(t0) > persistSlowOp {
			return // something is badly wrong already; what was observed so far is the observation
		}
	}
}

func persistGenKillOps(rng *Rng, n int) []persistOp {
	var ops []persistOp
	nIds := rng.Range(3, 4)
	for len(ops) < n {
		o := persistGenBop(rng, true, nIds)
		if o.Op == "reopen" || (o.Op == "load" && rng.Chance(1, 2)) {
			continue
		}
		if o.Op == "save" && o.V != nil && len(o.V.Keys) < 3 && rng.Chance(1, 2) {
			// bigger values: more pages per transaction
			for k := 1000; k < 1000+rng.Range(50, 400); k++ {
				o.V.Keys = append(o.V.Keys, k)
				if o.K == 0 {
					o.V.F = append(o.V.F, jF(float64(k)+0.5))
				} else {
					o.V.I = append(o.V.I, k%256)
				}
			}
			o.V.Nil = false
		}
		ops = append(ops, o)
	}
	return ops
}

// operation sequence for the deterministic crash points: sequence 0 is systematic, later ones seeded
func persistGenKillAtOps(rng *Rng, si int) []persistOp {
	dval := func() *persistVal { v := persistGenDataVal(rng, false); v.Nil = false; return v }
	mval := func() *persistVal { v := persistGenMapVal(rng); return v }
	sv := func(k, id int) persistOp {
		if k == 0 {
			return persistOp{Op: "save", K: 0, Id: id, V: dval()}
		}
		return persistOp{Op: "save", K: 1, Id: id, V: mval()}
	}
	if si == 0 {
		return []persistOp{
			sv(0, 0), sv(1, 0), sv(0, 1), sv(1, 1), // first saves
			sv(0, 0), sv(1, 1), // overwrites
			{Op: "load", K: 0, Id: 0},
			{Op: "delete", K: 0, Id: 1}, {Op: "delete", K: 0, Id: 1}, {Op: "delete", K: 1, Id: 2}, // present, absent, never there
			sv(0, 1), sv(1, 0), sv(1, 0), sv(0, 0), // save after delete, overwrite twice
			{Op: "delete", K: 1, Id: 1}, sv(1, 2), sv(0, 2), sv(0, 2),
		}
	}
	var ops []persistOp
	n := rng.Range(10, 16)
	for len(ops) < n {
		k, id := rng.Intn(2), rng.Intn(3)
		switch x := rng.Intn(10); {
		case x < 7:
			ops = append(ops, sv(k, id))
		case x < 9:
			ops = append(ops, persistOp{Op: "delete", K: k, Id: id})
		default:
			ops = append(ops, persistOp{Op: "load", K: k, Id: id})
		}
	}
	return ops
}

func persistNonTrivial(ops []persistOp, outs []persistOut) bool {
	saved := map[[2]int]bool{}
	found := false
	for i, o := range ops {
		if i < len(outs) {
			if o.Op == "save" && outs[i].R == "saved" {
				saved[[2]int{o.K, o.Id}] = true
			}
			if o.Op == "load" && outs[i].R == "found" {
				found = true
			}
		}
	}
	return len(saved) >= 2 && found
}

func init() {
	drivers["persist-worker"] = persistWorker
	drivers["persist-reader"] = persistReader
	drivers["persist"] = func(ctx *Ctx) {
		var cal *persistKillCal
		calibrate := func(disk bool) *persistKillCal {
			// start-up time of a worker (no operations) and run time of a typical sequence
			rng := NewRng(ctx.Seed, "persist-cal")
			c := &persistKillCal{}
			for _, ops := range [][]persistOp{{}, persistGenKillOps(rng, ctx.Param("killops", 40))} {
				dir := persistScratch(ctx, disk)
				b, _ := json.Marshal(ops)
				_ = os.WriteFile(filepath.Join(dir, "ops.json"), b, 0600)
				best := time.Hour
				for i := 0; i < 3; i++ {
					_ = os.Remove(filepath.Join(dir, "fan2go.db"))
					_, el := persistRunSub(dir, "persist-worker", -1, persistWorkerWatchdog)
					if el < best {
						best = el
					}
				}
				if len(ops) == 0 {
					c.start = best
				} else {
					c.full = best
				}
				os.RemoveAll(dir)
			}
			return c
		}
		var calDisk *persistKillCal
		lastKilled := false
		killBad := 0 // kill-family cases with a failed sub-process or a failing read-back load; the family stops after 3
		const killBadMax = 3
		emit := func(in persistIn, tags ...string) {
			switch in.Mode {
			case "killat":
				obs, coq, t := persistRunKill(ctx, in, nil)
				lastKilled = obs.Killed
				if obs.Bad {
					killBad++
					t = append(t, "kill-bad")
				}
				ctx.Emit(Record{In: in, Obs: obs, Coq: coq, Tags: append(tags, t...), NonTrv: obs.Killed && obs.Done >= 2,
					Key: coq + "/" + itoa(obs.Done)})
			case "kill":
				c := &cal
				if in.Disk {
					c = &calDisk
				}
				if *c == nil {
					*c = calibrate(in.Disk)
				}
				obs, coq, t := persistRunKill(ctx, in, *c)
				if obs.Bad {
					killBad++
					t = append(t, "kill-bad")
				}
				nt := obs.Killed && obs.Done >= 2
				ctx.Emit(Record{In: in, Obs: obs, Coq: coq, Tags: append(tags, t...), NonTrv: nt,
					Key: coq + "/" + itoa(obs.Done)})
			default:
				obs, coq := persistRunSeq(ctx, in)
				for _, o := range in.Ops {
					tags = append(tags, "op-"+o.Op)
				}
				seen := map[string]bool{}
				for i, o := range obs.Outs {
					t := "out-" + o.R
					if in.Ops[i].Op == "load" && i > 0 && in.Ops[i-1].Op == "corrupt" && !persistBlobOK(in.Ops[i-1]) &&
						in.Ops[i-1].K == in.Ops[i].K && in.Ops[i-1].Id == in.Ops[i].Id {
						t = "load-meets-undecodable"
					}
					if !seen[t] {
						seen[t] = true
						tags = append(tags, t)
					}
				}
				ctx.Emit(Record{In: in, Obs: obs, Coq: coq, Tags: tags, NonTrv: persistNonTrivial(in.Ops, obs.Outs)})
			}
		}
		for _, raw := range append(ctx.Corpus, ctx.Replay...) {
			var in persistIn
			if json.Unmarshal(raw, &in) == nil && len(in.Ops) > 0 {
				emit(in, "corpus")
			}
		}
		if ctx.Replay != nil {
			return
		}
		rng := NewRng(ctx.Seed, "persist")
		n := ctx.Param("n", 150)
		steps := ctx.Param("steps", 14)
		for i := 0; i < n; i++ {
			hostile := i%3 != 0
			tag := "valid"
			if hostile {
				tag = "hostile"
			}
			emit(persistIn{Mode: "seq", Ops: persistGenSeq(rng, rng.Range(steps/2, steps), hostile)}, tag)
		}
		// every undecodable / foreign blob once per kind, met by each kind of next operation
		for g := range persistBlobs {
			for k := 0; k < 2; k++ {
				var ops []persistOp
				sv := persistOp{Op: "save", K: k, Id: 1, V: persistGenMapVal(rng)}
				if k == 0 {
					sv.V = persistGenDataVal(rng, false)
				}
				ops = append(ops, persistOp{Op: "save", K: 1 - k, Id: 1, V: func() *persistVal {
					if k == 0 {
						return persistGenMapVal(rng)
					}
					return persistGenDataVal(rng, false)
				}()})
				ops = append(ops, sv)
				ops = append(ops, persistLoadAllOps()...)
				ops = append(ops, persistOp{Op: "corrupt", K: k, Id: 1, G: g}, persistOp{Op: "load", K: k, Id: 1}, persistOp{Op: "load", K: k, Id: 1})
				ops = append(ops, persistLoadAllOps()...)
				ops = append(ops, persistOp{Op: "corrupt", K: k, Id: 1, G: g}, persistOp{Op: "delete", K: k, Id: 1})
				ops = append(ops, persistLoadAllOps()...)
				ops = append(ops, persistOp{Op: "corrupt", K: k, Id: 1, G: g}, sv)
				ops = append(ops, persistLoadAllOps()...)
				emit(persistIn{Mode: "seq", Ops: ops}, "blob-table")
			}
		}
		// deterministic crash points: the worker dies right after its k-th committed transaction, for every k
		// (first saves, overwrites, deletes of present and absent entries, loads, both kinds, several fans)
		arng := NewRng(ctx.Seed, "persist-killat")
		for si := 0; si < ctx.Param("killatseqs", 2); si++ {
			ops := persistGenKillAtOps(arng, si)
			for k := 1; k <= 4*len(ops)+4; k++ {
				if killBad >= killBadMax {
					break
				}
				emit(persistIn{Mode: "killat", Ops: ops, KillAt: k}, "killat-seq"+itoa(si))
				if !lastKilled {
					break // the worker ran to completion: no k-th transaction
				}
			}
		}
		kills := ctx.Param("kills", 30)
		krng := NewRng(ctx.Seed, "persist-kill")
		for i := 0; i < kills; i++ {
			if killBad >= killBadMax {
				break // every further case would cost its watchdog time again; three failing inputs are recorded
			}
			disk := ctx.Param("diskkills", 0) > 0 && i%2 == 1
			emit(persistIn{Mode: "kill", Ops: persistGenKillOps(krng, ctx.Param("killops", 40)), Frac: krng.Intn(1000), Disk: disk})
		}
	}
}

func persistBlobOK(o persistOp) bool {
	b := persistBlobs[o.G]
	if o.K == 0 {
		return b.dOK
	}
	return b.mOK
}
