//go:build verif

package main

import (
	"bufio"
	"bytes"
	"context"
	"encoding/json"
	"fmt"
	"net/http"
	"net/http/httptest"
	"os"
	"os/exec"
	"path/filepath"
	"regexp"
	"runtime/pprof"
	"sort"
	"strconv"
	"strings"
	"sync"
	"syscall"
	"time"

	"github.com/markusressel/fan2go/internal"
	"github.com/markusressel/fan2go/internal/api"
	"github.com/markusressel/fan2go/internal/configuration"
	"github.com/markusressel/fan2go/internal/controller"
	"github.com/markusressel/fan2go/internal/fans"
	"github.com/markusressel/fan2go/internal/hwmon"
	"github.com/markusressel/fan2go/internal/persistence"
	"github.com/markusressel/fan2go/internal/sensors"
	"github.com/markusressel/fan2go/internal/util"
	"github.com/prometheus/client_golang/prometheus"
)

// driver `race` (C20).
//
// Parent (what ./check runs): loads the access table the translator produced for the current source
// (work/accesses/accesses.json), runs the stress scenario several times in a CHILD process (this binary with
// child=1; a "fatal error: concurrent map ..." abort cannot be recovered in-process), parses every Go
// race-detector report of the children (both stacks), maps each report to a pair of table entries
// (goroutine kind from the stack, site = first frame inside /repo/internal, cell = a cell both sites access
// with conflicting modes) and emits one case per candidate group (cell x unordered kind pair with a
// conflicting access pair in the table) carrying the number of reports mapped to it, plus one case per report
// that matches no table pair (= the translator missed an access).
//
// Child: the daemon's activities, in-process, at high rate, on the REAL objects.  configuration.CurrentConfig is
// filled like the loader would (3 sensors: hwmon, file, cmd; 6 curves incl. two PID and a function curve, 10 fans (two of them file fans whose pwm file does not exist yet = PWM not readable at start-up, one starting late): 4 hwmon on one fake
// chip, 3 file, 1 cmd; every way of selecting the control algorithm: default PID x2, explicit pid, deprecated
// controlLoop block, direct without limit x2, direct with limit x2) and the objects and controllers are created by
// the REAL start-up glue of backend.go (initializeSensors / initializeCurves / initializeFans /
// initializeFanControllers through internal.VerifRaceInitialize).  Then, all at once like RunDaemon's run.Group:
// real sensor monitors (internal.NewSensorMonitor(...).Run), real controllers (DefaultFanController.Run: prelude
// incl. the initialisation sequence of f_hw1, then its own RPM-monitor and control-loop actors, restore at the
// end; restarted when the loop ends), the real REST handlers through echo's ServeHTTP (list and item endpoints),
// the real collectors through prometheus.DefaultGatherer.Gather(), a "third party" rewriting pwm / temperature
// files, and transient injected device faults (second 60% of the run).  Tick rates 1 ms, sleeps scaled 1/1000.

type raceAccess struct {
	Kind  string   `json:"kind"`
	Loc   string   `json:"loc"`
	Class string   `json:"class"`
	Mode  string   `json:"mode"`
	Locks []string `json:"locks"`
	Func  string   `json:"func"`
	File  string   `json:"file"`
	Line  int      `json:"line"`
	Refl  bool     `json:"refl"`
}

type raceTable struct {
	Digest   string              `json:"digest"`
	Kinds    []string            `json:"kinds"`
	Roots    map[string][]string `json:"roots"`
	Accesses []raceAccess        `json:"accesses"`
}

type raceFrame struct {
	Func string `json:"func"`
	File string `json:"file"`
	Line int    `json:"line"`
}

type raceSide struct {
	Op     string      `json:"op"` // as printed by the detector: "Write", "Previous read", ...
	Frames []raceFrame `json:"frames"`
	Kind   string      `json:"kind"`
	Site   *raceFrame  `json:"site"` // first frame inside /repo/internal
	Sites  []raceFrame `json:"-"`    // every frame inside /repo/internal, innermost first (logging helpers come first)
}

type raceReport struct {
	Sides [2]raceSide `json:"sides"`
	Fatal bool        `json:"fatal,omitempty"` // fatal concurrent-map abort (only the faulting goroutine is known)
}

type raceGroupIn struct {
	Loc    string      `json:"loc"`
	KindA  string      `json:"kindA"`
	KindB  string      `json:"kindB"`
	SitesA []string    `json:"sitesA"`
	SitesB []string    `json:"sitesB"`
	Report *raceReport `json:"report,omitempty"` // for unmapped reports: both stacks
}

type raceGroupObs struct {
	Dyn            int    `json:"dyn_reports"`
	Witness        string `json:"dynamic_witness"` // yes | no
	Sample         string `json:"sample,omitempty"`
	Detector       bool   `json:"race_detector"`
	Mapped         bool   `json:"mapped"`
	Rounds         int    `json:"rounds"`
	FatalMapAborts int    `json:"fatal_concurrent_map_aborts"`
}

var raceKindOrder = map[string]int{"KSensorMon": 1, "KRpmMon": 2, "KControl": 3, "KPrelude": 4, "KApi": 5, "KMetrics": 6, "KWebStart": 7, "KAux": 8}

func init() {
	drivers["race"] = func(ctx *Ctx) {
		if ctx.Params["child"] == "1" {
			raceChild(ctx)
			return
		}
		raceParent(ctx)
	}
}

// ------------------------------------------------------------------ names
var raceClosureRe = regexp.MustCompile(`\$(\d+)`)
var raceWrapRe = regexp.MustCompile(`\.(deferwrap|gowrap)\d+$`)

// raceCanon: canonical function name shared by SSA names ("(*pkg.T).M", "pkg.F$1") and runtime names
// ("pkg.(*T).M", "pkg.F.func1").
func raceCanon(s string) string {
	s = strings.TrimSuffix(s, "()")
	s = raceWrapRe.ReplaceAllString(s, "") // compiler wrappers of `defer x.f()` / `go x.f()` belong to the enclosing function
	first := true
	s = raceClosureRe.ReplaceAllStringFunc(s, func(m string) string {
		if first {
			first = false
			return ".func" + m[1:]
		}
		return "." + m[1:]
	})
	s = strings.NewReplacer("(*", "", "(", "", ")", "", "*", "").Replace(s)
	return s
}

func raceModeConflict(a, b string) bool {
	return !((a == "R" && b == "R") || (a == "S" && b == "S"))
}

// ------------------------------------------------------------------ parent
func raceParent(ctx *Ctx) {
	path := os.Getenv("VERIF_ACCESSES")
	if path == "" {
		path = "/verif/work/accesses/accesses.json"
	}
	raw, err := os.ReadFile(path)
	if err != nil {
		fmt.Fprintln(os.Stderr, "race: access table not found (tools/gen_accesses.py writes it):", err)
		os.Exit(3)
	}
	var tab raceTable
	if err := json.Unmarshal(raw, &tab); err != nil || len(tab.Accesses) == 0 {
		fmt.Fprintln(os.Stderr, "race: unreadable access table:", err)
		os.Exit(3)
	}
	// kind markers: runtime names of the controller's actor closures, from the translator's roots
	rootKind := map[string]string{}
	for k, rs := range tab.Roots {
		for _, r := range rs {
			rootKind[raceCanon(r)] = k
		}
	}

	rounds := ctx.Param("rounds", 4)
	ms := ctx.Param("ms", 2500)
	if !ctx.Quick() {
		rounds = ctx.Param("rounds", 12)
		ms = ctx.Param("ms", 6000)
	}
	var reports []raceReport
	fatals := 0
	childFailures := []string{}
	for r := 0; r < rounds; r++ {
		wd := filepath.Join(ctx.WorkDir, fmt.Sprintf("round%d", r))
		os.MkdirAll(wd, 0o755)
		cmd := exec.Command(os.Args[0], "race", "child=1", "ms="+strconv.Itoa(ms), "--seed", strconv.FormatUint(ctx.Seed*1000+uint64(r), 10),
			"--tier", ctx.Tier, "--work", wd, "--out", filepath.Join(wd, "child.out"))
		cmd.Env = append(os.Environ(), "GORACE=halt_on_error=0 history_size=2 exitcode=0")
		var stderr bytes.Buffer
		cmd.Stderr = &stderr
		cmd.Stdout = &stderr
		done := make(chan error, 1)
		if err := cmd.Start(); err != nil {
			childFailures = append(childFailures, err.Error())
			continue
		}
		go func() { done <- cmd.Wait() }()
		select {
		case err = <-done:
		case <-time.After(time.Duration(ms)*time.Millisecond + 60*time.Second):
			cmd.Process.Kill()
			err = fmt.Errorf("child timed out")
			<-done
		}
		out := stderr.String()
		os.WriteFile(filepath.Join(wd, "stderr.txt"), []byte(out), 0o644)
		rs, fatal := raceParse(out)
		reports = append(reports, rs...)
		if fatal {
			fatals++
		} else if err != nil {
			childFailures = append(childFailures, fmt.Sprintf("round %d: %v: %s", r, err, raceTail(out, 600)))
		} else if !strings.Contains(out, "RACE-CHILD-DONE") {
			childFailures = append(childFailures, fmt.Sprintf("round %d: child did not finish: %s", r, raceTail(out, 600)))
		}
	}
	// ---- index the table
	type ent = raceAccess
	byKindFunc := map[string][]ent{}
	for _, a := range tab.Accesses {
		byKindFunc[a.Kind+"|"+raceCanon(a.Func)] = append(byKindFunc[a.Kind+"|"+raceCanon(a.Func)], a)
	}
	type gkey struct{ loc, ka, kb string }
	mkKey := func(loc, k1, k2 string) gkey {
		if raceKindOrder[k1] > raceKindOrder[k2] {
			k1, k2 = k2, k1
		}
		return gkey{loc, k1, k2}
	}
	// candidate groups
	byLoc := map[string][]ent{}
	for _, a := range tab.Accesses {
		byLoc[a.Loc] = append(byLoc[a.Loc], a)
	}
	cands := map[gkey]bool{}
	sites := map[gkey][2]map[string]bool{}
	for loc, es := range byLoc {
		for i := range es {
			for j := range es {
				if !raceModeConflict(es[i].Mode, es[j].Mode) {
					continue
				}
				k := mkKey(loc, es[i].Kind, es[j].Kind)
				cands[k] = true
				s := sites[k]
				if s[0] == nil {
					s = [2]map[string]bool{{}, {}}
				}
				for _, e := range []ent{es[i], es[j]} {
					d := fmt.Sprintf("%s %s:%d %s%s", e.Mode, e.File, e.Line, raceShort(e.Func), raceLocks(e.Locks))
					if e.Kind == k.ka {
						s[0][d] = true
					}
					if e.Kind == k.kb {
						s[1][d] = true
					}
				}
				sites[k] = s
			}
		}
	}

	// ---- map reports to groups
	dyn := map[gkey]int{}
	sample := map[gkey]string{}
	var unmapped []raceReport
	for ri := range reports {
		rep := &reports[ri]
		for si := range rep.Sides {
			raceClassify(&rep.Sides[si], rootKind)
		}
		if rep.Fatal {
			// only the faulting goroutine is known: attribute to every candidate group of a map cell that this site
			// accesses and that involves its kind
			s := rep.Sides[0]
			hit := false
			if s.Site != nil {
				for _, a := range byKindFunc[s.Kind+"|"+raceCanon(s.Site.Func)] {
					if !strings.HasSuffix(a.Loc, "[]") {
						continue
					}
					for k := range cands {
						if k.loc == a.Loc && (k.ka == s.Kind || k.kb == s.Kind) {
							dyn[k]++
							hit = true
							if sample[k] == "" {
								sample[k] = "fatal error: concurrent map access at " + raceFrameStr(s.Site)
							}
						}
					}
				}
			}
			if !hit {
				unmapped = append(unmapped, *rep)
			}
			continue
		}
		a, b := rep.Sides[0], rep.Sides[1]
		if a.Site == nil || b.Site == nil {
			unmapped = append(unmapped, *rep)
			continue
		}
		// the access may sit in a caller of the innermost module frame (ui.Warning formatting its arguments, a
		// reflective copy started further up): try the module frames of both stacks, innermost first
		best := -1
		bestLocs := map[string]bool{}
		var siteA, siteB *raceFrame
		for depth := 0; depth < len(a.Sites)+len(b.Sites)-1 && best < 0; depth++ {
			for ia := 0; ia <= depth && ia < len(a.Sites); ia++ {
				ib := depth - ia
				if ib >= len(b.Sites) {
					continue
				}
				fa, fb := &a.Sites[ia], &b.Sites[ib]
				ea := byKindFunc[a.Kind+"|"+raceCanon(fa.Func)]
				eb := byKindFunc[b.Kind+"|"+raceCanon(fb.Func)]
				for _, x := range ea {
					for _, y := range eb {
						if x.Loc != y.Loc || !raceModeConflict(x.Mode, y.Mode) {
							continue
						}
						score := 0
						if x.Line == fa.Line {
							score++
						}
						if y.Line == fb.Line {
							score++
						}
						if score > best {
							best = score
							bestLocs = map[string]bool{}
							siteA, siteB = fa, fb
						}
						if score == best && siteA == fa && siteB == fb {
							bestLocs[x.Loc] = true
						}
					}
				}
			}
		}
		if best < 0 {
			unmapped = append(unmapped, *rep)
			continue
		}
		for loc := range bestLocs {
			k := mkKey(loc, a.Kind, b.Kind)
			dyn[k]++
			if sample[k] == "" {
				sample[k] = a.Op + " " + raceFrameStr(siteA) + " / " + b.Op + " " + raceFrameStr(siteB)
			}
		}
	}

	// ---- emit
	keys := make([]gkey, 0, len(cands))
	for k := range cands {
		keys = append(keys, k)
	}
	sort.Slice(keys, func(i, j int) bool {
		if keys[i].loc != keys[j].loc {
			return keys[i].loc < keys[j].loc
		}
		if keys[i].ka != keys[j].ka {
			return raceKindOrder[keys[i].ka] < raceKindOrder[keys[j].ka]
		}
		return raceKindOrder[keys[i].kb] < raceKindOrder[keys[j].kb]
	})
	want := func(loc, ka, kb string) bool {
		if ctx.Replay == nil {
			return true
		}
		for _, r := range ctx.Replay {
			var in raceGroupIn
			if json.Unmarshal(r, &in) == nil && in.Loc == loc && in.KindA == ka && in.KindB == kb {
				return true
			}
		}
		return false
	}
	for _, k := range keys {
		if !want(k.loc, k.ka, k.kb) {
			continue
		}
		n := dyn[k]
		w := "no"
		tags := []string{"pair:" + k.ka + "/" + k.kb}
		if n > 0 {
			w = "yes"
			tags = append(tags, "dynamic-witness")
		}
		ctx.Emit(Record{
			In:   raceGroupIn{Loc: k.loc, KindA: k.ka, KindB: k.kb, SitesA: raceSome(sites[k][0], 4), SitesB: raceSome(sites[k][1], 4)},
			Obs:  raceGroupObs{Dyn: n, Witness: w, Sample: sample[k], Detector: raceDetectorEnabled, Mapped: true, Rounds: rounds, FatalMapAborts: fatals},
			Coq:  fmt.Sprintf("(mkCase %s %s %s %s true)", raceCoqStr(k.loc), k.ka, k.kb, cZ(n)),
			Tags: tags, NonTrv: true, Key: k.loc + "|" + k.ka + "|" + k.kb,
		})
	}
	if len(childFailures) > 0 && ctx.Replay == nil {
		// the stress scenario itself broke (a panic / fatal error other than a concurrent-map abort, or a hang): the
		// dynamic half of the correspondence could not be established.  Reported as its own failing, unmapped case;
		// the static cases above are still judged.
		msg := strings.Join(childFailures, " | ")
		ctx.Emit(Record{
			In:   raceGroupIn{Loc: "?stress-child-failed", KindA: "KAux", KindB: "KAux", SitesA: []string{raceTail(msg, 1500)}},
			Obs:  raceGroupObs{Dyn: 0, Witness: "no", Sample: raceTail(msg, 300), Detector: raceDetectorEnabled, Mapped: false, Rounds: rounds, FatalMapAborts: fatals},
			Coq:  `(mkCase "?stress-child-failed"%string KAux KAux 0 false)`,
			Tags: []string{"stress-child-failed"}, NonTrv: false, Key: "?stress-child-failed",
		})
	}
	// ---- recorded findings that gained an access site (lib/props/C20_sites.json, written by
	// tools/mk_race_findings.py --sites when the findings were recorded): the group is listed, so the static verdict
	// does not change, but the finding is no longer the one that was triaged (e.g. an unguarded write that used to be
	// rare now happens on every control cycle).  Reported as its own failing, unreconciled case.
	if sp := os.Getenv("VERIF_RACE_SITES"); sp != "" && ctx.Replay == nil {
		rawSites, err := os.ReadFile(sp)
		recorded := map[string][]string{}
		if err != nil || json.Unmarshal(rawSites, &recorded) != nil {
			fmt.Fprintln(os.Stderr, "race: unreadable recorded-sites file", sp, err)
			os.Exit(3)
		}
		gkeys := make([]string, 0, len(recorded))
		for g := range recorded {
			gkeys = append(gkeys, g)
		}
		sort.Strings(gkeys)
		for _, g := range gkeys {
			parts := strings.Split(g, "|")
			if len(parts) != 3 {
				continue
			}
			known := map[string]bool{}
			for _, x := range recorded[g] {
				known[x] = true
			}
			var fresh []string
			seenSite := map[string]bool{}
			for _, e := range byLoc[parts[0]] {
				if e.Kind != parts[1] && e.Kind != parts[2] {
					continue
				}
				d := fmt.Sprintf("%s %s %s%s", e.Kind, e.Mode, raceShort(e.Func), raceLocks(e.Locks))
				if !known[d] && !seenSite[d] {
					seenSite[d] = true
					fresh = append(fresh, fmt.Sprintf("%s at %s:%d", d, e.File, e.Line))
				}
			}
			if len(fresh) == 0 {
				continue
			}
			sort.Strings(fresh)
			loc := "?new-site-in-recorded-finding:" + parts[0]
			ctx.Emit(Record{
				In: raceGroupIn{Loc: loc, KindA: parts[1], KindB: parts[2], SitesA: fresh, SitesB: recorded[g]},
				Obs: raceGroupObs{Dyn: dyn[gkey{parts[0], parts[1], parts[2]}], Witness: "no", Sample: "new access site(s): " + strings.Join(fresh, "; "),
					Detector: raceDetectorEnabled, Mapped: false, Rounds: rounds, FatalMapAborts: fatals},
				Coq:  fmt.Sprintf("(mkCase %s %s %s 0 false)", raceCoqStr(loc), parts[1], parts[2]),
				Tags: []string{"new-site-in-recorded-finding"}, NonTrv: true, Key: loc + "|" + parts[1] + "|" + parts[2],
			})
		}
	}
	seenUn := map[string]bool{}
	for i := range unmapped {
		rep := unmapped[i]
		ka, kb := rep.Sides[0].Kind, rep.Sides[1].Kind
		if rep.Fatal {
			kb = ka
		}
		if ka == "" {
			ka = "KAux"
		}
		if kb == "" {
			kb = "KAux"
		}
		if raceKindOrder[ka] > raceKindOrder[kb] {
			ka, kb = kb, ka
		}
		loc := "?unmapped:" + raceFrameStr(rep.Sides[0].Site) + "|" + raceFrameStr(rep.Sides[1].Site)
		if seenUn[loc] || !want(loc, ka, kb) {
			continue
		}
		seenUn[loc] = true
		ctx.Emit(Record{
			In:   raceGroupIn{Loc: loc, KindA: ka, KindB: kb, Report: &rep},
			Obs:  raceGroupObs{Dyn: 1, Witness: "yes", Detector: raceDetectorEnabled, Mapped: false, Rounds: rounds, FatalMapAborts: fatals},
			Coq:  fmt.Sprintf("(mkCase %s %s %s 1 false)", raceCoqStr(loc), ka, kb),
			Tags: []string{"unmapped-report"}, NonTrv: true, Key: loc,
		})
	}
}

func raceTail(s string, n int) string {
	if len(s) > n {
		return s[len(s)-n:]
	}
	return s
}

func raceShort(f string) string {
	return strings.ReplaceAll(f, "github.com/markusressel/fan2go/internal/", "")
}

func raceLocks(l []string) string {
	if len(l) == 0 {
		return ""
	}
	return " [" + strings.Join(l, ",") + "]"
}

func raceSome(m map[string]bool, n int) []string {
	var res []string
	for k := range m {
		res = append(res, k)
	}
	sort.Strings(res)
	if len(res) > n {
		res = append(res[:n], fmt.Sprintf("... +%d more", len(res)-n))
	}
	return res
}

func raceCoqStr(s string) string { return `"` + strings.ReplaceAll(s, `"`, `""`) + `"%string` }

func raceFrameStr(f *raceFrame) string {
	if f == nil {
		return "?"
	}
	file := f.File
	if i := strings.Index(file, "/internal/"); i >= 0 {
		file = file[i+1:]
	}
	return fmt.Sprintf("%s:%d(%s)", file, f.Line, raceShort(raceCanon(f.Func)))
}

// raceClassify: goroutine kind and site of one stack.
func raceClassify(s *raceSide, rootKind map[string]string) {
	const mod = "github.com/markusressel/fan2go/internal"
	for i := range s.Frames {
		f := &s.Frames[i]
		// (<autogenerated>: the compiler's pointer wrapper of a value-receiver method, which copies the struct)
		if strings.HasPrefix(f.Func, mod) && (strings.Contains(f.File, "/internal/") || f.File == "<autogenerated>") &&
			!strings.Contains(filepath.Base(f.File), "verif_") {
			if s.Site == nil {
				s.Site = f
			}
			s.Sites = append(s.Sites, *f)
		}
	}
	// bottom-up: the outermost marker decides
	for i := len(s.Frames) - 1; i >= 0 && s.Kind == ""; i-- {
		fn := raceCanon(s.Frames[i].Func)
		switch {
		case rootKind[fn] != "" && strings.Contains(fn, "DefaultFanController.Run.func"):
			s.Kind = rootKind[fn]
		case fn == mod+"/controller.DefaultFanController.Run":
			s.Kind = "KPrelude"
		case fn == mod+".sensorMonitor.Run":
			s.Kind = "KSensorMon"
		case strings.HasPrefix(fn, mod+"/api."):
			s.Kind = "KApi"
		case strings.HasPrefix(fn, mod+"/statistics.") && strings.HasSuffix(fn, ".Collect"):
			s.Kind = "KMetrics"
		}
	}
	if s.Kind == "" {
		s.Kind = "KAux"
	}
}

var raceHeadRe = regexp.MustCompile(`^(Previous )?((?:[Aa]tomic )?(?:[Rr]ead|[Ww]rite)) at 0x[0-9a-f]+ by (?:main )?goroutine \d+:`)
var raceFileRe = regexp.MustCompile(`^\s+(\S+?):(\d+)(?: \+0x[0-9a-f]+)?$`)

// raceParse: race-detector reports and fatal concurrent-map aborts in the child's output.
func raceParse(out string) (reports []raceReport, fatal bool) {
	lines := strings.Split(out, "\n")
	i := 0
	readFrames := func() []raceFrame {
		var fs []raceFrame
		for i+1 < len(lines) {
			fl := lines[i]
			if strings.TrimSpace(fl) == "" || !strings.HasPrefix(fl, "  ") || strings.HasPrefix(fl, "      ") {
				break
			}
			m := raceFileRe.FindStringSubmatch(lines[i+1])
			if m == nil {
				break
			}
			ln, _ := strconv.Atoi(m[2])
			fs = append(fs, raceFrame{Func: strings.TrimSpace(fl), File: m[1], Line: ln})
			i += 2
		}
		return fs
	}
	for i < len(lines) {
		l := lines[i]
		if strings.HasPrefix(l, "WARNING: DATA RACE") {
			i++
			var rep raceReport
			n := 0
			for i < len(lines) && !strings.HasPrefix(lines[i], "==================") {
				if m := raceHeadRe.FindStringSubmatch(lines[i]); m != nil && n < 2 {
					i++
					rep.Sides[n] = raceSide{Op: strings.TrimSpace(m[1] + m[2]), Frames: readFrames()}
					n++
					continue
				}
				i++
			}
			if n == 2 {
				reports = append(reports, rep)
			}
			continue
		}
		if strings.HasPrefix(l, "fatal error: concurrent map") {
			fatal = true
			// the faulting goroutine: first "goroutine N [running]:" block
			for i < len(lines) && !(strings.HasPrefix(lines[i], "goroutine ") && strings.Contains(lines[i], "[running]")) {
				i++
			}
			i++
			var fs []raceFrame
			for i+1 < len(lines) && strings.TrimSpace(lines[i]) != "" {
				fn := lines[i]
				if p := strings.LastIndex(fn, "("); p > 0 {
					fn = fn[:p]
				}
				if m := regexp.MustCompile(`^\s+(/\S+?):(\d+)`).FindStringSubmatch(lines[i+1]); m != nil {
					ln, _ := strconv.Atoi(m[2])
					fs = append(fs, raceFrame{Func: strings.TrimSpace(fn), File: m[1], Line: ln})
					i += 2
					continue
				}
				i++
			}
			reports = append(reports, raceReport{Fatal: true, Sides: [2]raceSide{{Op: "fatal concurrent map access", Frames: fs}, {}}})
			continue
		}
		i++
	}
	return reports, fatal
}

// ------------------------------------------------------------------ child: the stress scenario
func raceWrite(path string, v int) { _ = os.WriteFile(path, []byte(strconv.Itoa(v)+"\n"), 0o644) }

func raceSensorMon(ctx context.Context, wg *sync.WaitGroup, s sensors.Sensor) {
	defer wg.Done()
	_ = internal.NewSensorMonitor(s, time.Millisecond).Run(ctx)
}

func raceFanRun(ctx context.Context, wg *sync.WaitGroup, c controller.FanController, startDelay time.Duration) {
	defer wg.Done()
	select {
	case <-ctx.Done():
		return
	case <-time.After(startDelay):
	}
	// a controller whose control loop ends (failed curve evaluation / fan read -> restore) is started again, like
	// the service manager restarting the daemon: prelude, then fresh RPM-monitor and control-loop actors
	for ctx.Err() == nil {
		func() {
			defer func() {
				if r := recover(); r != nil && os.Getenv("RACE_DEBUG") != "" {
					fmt.Fprintf(os.Stderr, "RACE-CHILD-RUN %s panic %v\n", c.GetFanId(), r)
				}
			}()
			err := c.Run(ctx)
			if os.Getenv("RACE_DEBUG") != "" {
				fmt.Fprintf(os.Stderr, "RACE-CHILD-RUN %s returned %v\n", c.GetFanId(), err)
			}
		}()
		time.Sleep(time.Millisecond)
	}
}

func raceApi(ctx context.Context, wg *sync.WaitGroup, h http.Handler, paths []string, rng *Rng) {
	defer wg.Done()
	for ctx.Err() == nil {
		req := httptest.NewRequest(http.MethodGet, paths[rng.Intn(len(paths))], nil)
		rec := httptest.NewRecorder()
		h.ServeHTTP(rec, req)
		// the detector needs unordered, not simultaneous, accesses; back-to-back requests only raise the chance of the
		// fatal concurrent-map abort, which ends the round early
		time.Sleep(400 * time.Microsecond)
	}
}

func raceMetrics(ctx context.Context, wg *sync.WaitGroup) {
	defer wg.Done()
	for ctx.Err() == nil {
		_, _ = prometheus.DefaultGatherer.Gather()
	}
}

// raceThirdParty: another program changing pwm values / temperatures under fan2go's feet.  Replaces the file
// atomically (rename) so that a concurrent reader never sees an empty file: read errors would end the control
// loops early and are the business of C09, not of this stress run.
func raceThirdParty(ctx context.Context, wg *sync.WaitGroup, files []string, lo, hi []int, rng *Rng) {
	defer wg.Done()
	for ctx.Err() == nil {
		i := rng.Intn(len(files))
		tmp := files[i] + ".third"
		raceWrite(tmp, rng.Range(lo[i], hi[i]))
		_ = os.Rename(tmp, files[i])
		time.Sleep(3 * time.Millisecond)
	}
}

func raceChild(ctx *Ctx) {
	dir := ctx.WorkDir
	ms := ctx.Param("ms", 2500)
	rng := NewRng(ctx.Seed, "race")
	util.VerifSleepNum, util.VerifSleepDen = 1, 1000
	// transient device faults: every error / warning path of the concurrent activities runs too (failed sensor
	// reads seen by PID curves and monitors, failed pwm / rpm reads, failed pwm writes).  The decision is a pure
	// function of the path and the clock: no shared state, no lock - a lock here would order the goroutines and
	// hide races.  Rates: sensors ~3%, rpm ~4%, pwm reads ~2%, pwm writes ~2% of the 16 microsecond time slots.
	raceFaultEvery := func(path string) int64 {
		base := filepath.Base(path)
		switch {
		case base == "pwm1" || base == "fan1_input":
			return 0 // f_hw1 is the fan that runs the initialisation sequence: it has to get through
		case strings.HasPrefix(base, "temp"):
			return 32
		case strings.HasSuffix(base, "_rpm"), strings.HasSuffix(base, "_input"):
			return 24
		case strings.HasSuffix(base, "_enable"):
			return 0
		case strings.HasSuffix(base, "_pwm"), strings.HasPrefix(base, "pwm"):
			return 48
		}
		return 0
	}
	// faults start after the first 40% of the run: the initialisation sequence of f_hw1 (several hundred device
	// reads under InitializationSequenceMutex) has to get through once, or every other prelude starves behind it
	raceFaultsFrom := time.Now().Add(time.Duration(ms) * time.Millisecond * 2 / 5).UnixNano()
	util.VerifReadHook = func(path string) ([]byte, error, bool) {
		if n := raceFaultEvery(path); n > 0 && time.Now().UnixNano() > raceFaultsFrom && (time.Now().UnixNano()>>14)%n == 0 {
			return nil, syscall.EIO, true
		}
		return nil, nil, false
	}
	util.VerifWriteHook = func(path string, data []byte) (error, bool) {
		if n := raceFaultEvery(path); n == 48 && time.Now().UnixNano() > raceFaultsFrom && (time.Now().UnixNano()>>14)%n == 1 {
			return syscall.EIO, true
		}
		return nil, false
	}
	cfg := &configuration.CurrentConfig
	cfg.DbPath = filepath.Join(dir, "fan2go.db")
	cfg.RunFanInitializationInParallel = rng.Intn(4) != 0
	cfg.MaxRpmDiffForSettledFan = 20
	cfg.FanResponseDelay = 0
	cfg.TempSensorPollingRate = time.Millisecond
	cfg.TempRollingWindowSize = 5
	cfg.RpmPollingRate = time.Millisecond
	cfg.RpmRollingWindowSize = 5
	cfg.ControllerAdjustmentTickRate = time.Millisecond

	p := func(n string) string { return filepath.Join(dir, n) }
	raceWrite(p("temp1"), 45000)
	raceWrite(p("temp2"), 52000)
	// ---- the configuration, as the loader would leave it in configuration.CurrentConfig: 8 fans with every way of
	// selecting the control algorithm (default = PID per fan, explicit pid, deprecated controlLoop block, direct
	// without limit x2, direct with limit x2), all on curves over the shared sensor s_hw / s_file
	cfg.Sensors = []configuration.SensorConfig{
		{ID: "s_hw", HwMon: &configuration.HwMonSensorConfig{Platform: "fake", Index: 1}},
		{ID: "s_file", File: &configuration.FileSensorConfig{Path: p("temp2")}},
		{ID: "s_cmd", Cmd: &configuration.CmdSensorConfig{Exec: "/bin/echo", Args: []string{"47000"}}}, // root-owned, succeeds
	}
	cfg.Curves = []configuration.CurveConfig{
		{ID: "c_lin", Linear: &configuration.LinearCurveConfig{Sensor: "s_hw", Min: 30, Max: 80}},
		{ID: "c_steps", Linear: &configuration.LinearCurveConfig{Sensor: "s_file", Steps: map[int]float64{30: 10, 50: 120, 80: 255}}},
		{ID: "c_pid", PID: &configuration.PidCurveConfig{Sensor: "s_hw", SetPoint: 50, P: -0.05, I: -0.005, D: -0.001}},
		{ID: "c_lin_cmd", Linear: &configuration.LinearCurveConfig{Sensor: "s_cmd", Min: 20, Max: 90}},
		{ID: "c_pid_cmd", PID: &configuration.PidCurveConfig{Sensor: "s_cmd", SetPoint: 45, P: -0.05, I: -0.005, D: -0.001}},
		{ID: "c_fn", Function: &configuration.FunctionCurveConfig{Type: configuration.FunctionMaximum, Curves: []string{"c_lin", "c_steps"}}},
	}
	two, five := 2, 5
	racePwmIdentity := map[int]int{} // pwm map override for the cmd fan: a sweep would spawn 512 processes
	for k := 0; k < 256; k++ {
		racePwmIdentity[k] = k
	}
	direct := func(limit *int) *configuration.ControlAlgorithmConfig {
		return &configuration.ControlAlgorithmConfig{Direct: &configuration.DirectControlAlgorithmConfig{MaxPwmChangePerCycle: limit}}
	}
	// one fake hwmon chip with 4 fans (pwmN, pwmN_enable, fanN_input) and the temperature input of s_hw
	chip := &hwmon.HwMonController{Name: "fake", Platform: "fake", Path: dir, Sensors: map[int]*sensors.HwmonSensor{1: {Index: 1, Input: p("temp1")}}}
	hw := func(n int, id, curve string, neverStop bool, rpm int, alg *configuration.ControlAlgorithmConfig) configuration.FanConfig {
		raceWrite(p(fmt.Sprintf("pwm%d", n)), 120)
		raceWrite(p(fmt.Sprintf("pwm%d_enable", n)), 2)
		raceWrite(p(fmt.Sprintf("fan%d_input", n)), rpm)
		chip.Fans = append(chip.Fans, fans.HwMonFan{Index: n, Config: configuration.FanConfig{
			HwMon: &configuration.HwMonFanConfig{Platform: "fake", Index: n, RpmChannel: n, PwmChannel: n, SysfsPath: dir}}})
		fc := configuration.FanConfig{ID: id, NeverStop: neverStop, Curve: curve, ControlAlgorithm: alg,
			HwMon: &configuration.HwMonFanConfig{Platform: "fake", Index: n}}
		if n != 1 { // only f_hw1 sweeps its pwm map (and measures its rpm curve); with parallel initialisation
			// disabled every sweep is serialised behind InitializationSequenceMutex and nothing else would get going
			fc.PwmMap = &racePwmIdentity
		}
		return fc
	}
	file := func(id, curve string, alg *configuration.ControlAlgorithmConfig) configuration.FanConfig {
		raceWrite(p(id+"_pwm"), 100)
		raceWrite(p(id+"_rpm"), 900)
		return configuration.FanConfig{ID: id, Curve: curve, ControlAlgorithm: alg, PwmMap: &racePwmIdentity,
			File: &configuration.FileFanConfig{Path: p(id + "_pwm"), RpmPath: p(id + "_rpm")}}
	}
	cfg.Fans = []configuration.FanConfig{
		hw(1, "f_hw1", "c_pid", true, 0, nil),              // default PID, never-stop fan that stands still
		hw(2, "f_hw2", "c_pid", false, 1200, nil),          // default PID, shares the PID curve
		hw(3, "f_hw3", "c_lin", false, 1500, direct(nil)),  // direct, no limit
		hw(4, "f_hw4", "c_lin", false, 800, direct(&five)), // direct, limited
		file("f_file1", "c_fn", direct(nil)),               // direct, no limit
		file("f_file2", "c_lin_cmd", direct(&two)),         // direct, limited
		file("f_file3", "c_pid_cmd", &configuration.ControlAlgorithmConfig{Pid: &configuration.PidControlAlgorithmConfig{P: 0.3, I: 0.02, D: 0.005}}),
		{ID: "f_cmd", Curve: "c_lin", PwmMap: &racePwmIdentity, ControlLoop: &configuration.ControlLoopConfig{P: 0.3, I: 0.02, D: 0.005}, //nolint:all
			Cmd: &configuration.CmdFanConfig{
				SetPwm: &configuration.ExecConfig{Exec: "/bin/true", Args: []string{"%pwm%"}},
				GetPwm: &configuration.ExecConfig{Exec: "/bin/echo", Args: []string{"97"}},
				GetRpm: &configuration.ExecConfig{Exec: "/bin/echo", Args: []string{"1100"}}}},
	}
	// two fans whose PWM cannot be read back at start-up (file fans whose pwm file does not exist until fan2go writes
	// it first), no pwmMap override, nothing persisted: their start-up takes the "assume the default PWM map" path of
	// computePwmMapAutomatically and saves it; the second one starts late, while the first is already being controlled.
	// (Not cmd fans without getPwm: FanCollector.Collect calls GetPwm on every fan and CmdFan.GetPwm dereferences the
	// missing getPwm block - a scrape would panic the process.)
	for _, id := range []string{"f_blind1", "f_blind2"} {
		raceWrite(p(id+"_rpm"), 700)
		cfg.Fans = append(cfg.Fans, configuration.FanConfig{ID: id, Curve: "c_lin", ControlAlgorithm: direct(&five),
			File: &configuration.FileFanConfig{Path: p(id + "_newpwm"), RpmPath: p(id + "_rpm")}})
	}
	pers := persistence.NewPersistence(cfg.DbPath)
	if err := pers.Init(); err != nil {
		panic(err)
	}
	// ---- objects and controllers through the REAL start-up glue of backend.go (initializeSensors, initializeCurves,
	// initializeFans, initializeFanControllers incl. control-loop selection and collector registration)
	ctrlMap, err := internal.VerifRaceInitialize([]*hwmon.HwMonController{chip}, pers)
	if err != nil {
		panic(err)
	}
	var ctrls []controller.FanController
	for f, c := range ctrlMap {
		ctrls = append(ctrls, c)
		if id := f.GetId(); id == "f_hw2" || id == "f_hw3" || id == "f_hw4" { // characterisation already stored (the others run the initialisation sequence)
			data := map[int]float64{0: 0, 40: 600, 255: 2400}
			_ = f.AttachFanRpmCurveData(&data)
			_ = pers.SaveFanPwmData(f)
			idm := map[int]int{}
			for k := 0; k < 256; k++ {
				idm[k] = k
			}
			_ = pers.SaveFanPwmMap(id, idm)
		}
	}
	sort.Slice(ctrls, func(i, j int) bool { return ctrls[i].GetFanId() < ctrls[j].GetFanId() })
	var sensorList []sensors.Sensor
	for _, sc := range cfg.Sensors {
		s, ok := sensors.GetSensor(sc.ID)
		if !ok {
			panic("sensor not registered: " + sc.ID)
		}
		sensorList = append(sensorList, s)
	}
	rest := api.CreateRestService()
	paths := []string{"/fan/", "/sensor/", "/curve/", "/alive/", "/fan/nope/"}
	for _, fc := range cfg.Fans {
		paths = append(paths, "/fan/"+fc.ID+"/")
	}
	for _, sc := range cfg.Sensors {
		paths = append(paths, "/sensor/"+sc.ID+"/")
	}
	for _, cc := range cfg.Curves {
		paths = append(paths, "/curve/"+cc.ID+"/")
	}

	// ---- everything starts together, like the actors of RunDaemon's run.Group
	rctx, cancel := context.WithCancel(context.Background())
	var wg sync.WaitGroup
	for _, s := range sensorList {
		wg.Add(1)
		go raceSensorMon(rctx, &wg, s)
	}
	for i := 0; i < 3; i++ {
		wg.Add(1)
		go raceApi(rctx, &wg, rest, paths, NewRng(ctx.Seed, "api"+strconv.Itoa(i)))
	}
	for i := 0; i < 2; i++ {
		wg.Add(1)
		go raceMetrics(rctx, &wg)
	}
	for _, c := range ctrls {
		wg.Add(1)
		delay := time.Duration(0)
		if c.GetFanId() == "f_blind2" {
			delay = time.Duration(ms) * time.Millisecond / 4
		}
		go raceFanRun(rctx, &wg, c, delay)
	}
	wg.Add(1)
	go raceThirdParty(rctx, &wg, []string{p("pwm1"), p("pwm2"), p("pwm3"), p("f_file1_pwm"), p("temp1"), p("temp2")},
		[]int{0, 0, 0, 0, 30000, 30000}, []int{255, 255, 255, 255, 80000, 80000}, NewRng(ctx.Seed, "third"))

	time.Sleep(time.Duration(ms) * time.Millisecond)
	if os.Getenv("RACE_DEBUG") != "" {
		_ = pprof.Lookup("goroutine").WriteTo(os.Stderr, 1)
	}
	cancel()
	done := make(chan struct{})
	go func() { wg.Wait(); close(done) }()
	select {
	case <-done:
	case <-time.After(20 * time.Second):
		fmt.Fprintln(os.Stderr, "RACE-CHILD-STUCK")
	}
	w := bufio.NewWriter(os.Stderr)
	for _, c := range ctrls {
		if d, ok := c.(*controller.DefaultFanController); ok {
			v, set := d.VerifLastSetPwm()
			fmt.Fprintf(w, "RACE-CHILD-FAN %s lastSetPwm=%d set=%v stats=%+v\n", c.GetFanId(), v, set, c.GetStatistics())
		}
	}
	fmt.Fprintln(w, "RACE-CHILD-DONE")
	w.Flush()
}
