//go:build verif && !race

package main

// raceDetectorEnabled: plain build; the stress run can only detect "fatal error: concurrent map ..." aborts.
const raceDetectorEnabled = false
