//go:build verif && race

package main

// raceDetectorEnabled: this binary was built with -race (lib/core.py:build_harness(race=True)).
const raceDetectorEnabled = true
