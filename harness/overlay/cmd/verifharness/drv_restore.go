//go:build verif

package main

import (
	"encoding/json"
	"fmt"
	"io/fs"
	"os"
	"path/filepath"
	"strconv"
	"strings"
	"syscall"

	"github.com/markusressel/fan2go/internal/configuration"
	"github.com/markusressel/fan2go/internal/controller"
	"github.com/markusressel/fan2go/internal/fans"
	"github.com/markusressel/fan2go/internal/util"
)

// driver `restore` (C03): the real restorePwmEnabled / trySetManualPwm /
// HwMonFan.SetPwmEnabled.  hwmon and file fans run over the hooked file layer
// (each single file operation is answered by a verdict), cmd fans over a
// root-owned set script that applies the verdict of its n-th invocation.
type restoreIn struct {
	Kind       string `json:"kind"`    // "restore" | "try"
	Backend    string `json:"backend"` // hwmon | file | cmd
	Exists     bool   `json:"exists"`  // pwmN_enable exists (hwmon)
	OrigMode   int    `json:"orig_mode"`
	OrigPwm    int    `json:"orig_pwm"`
	Unreadable bool   `json:"orig_unreadable"` // original PWM obtained through the real getPwm() with failing reads
	CurMode    int    `json:"cur_mode"`
	CurPwm     int    `json:"cur_pwm"`
	V1         string `json:"v1"`
	MV         string `json:"mv"`
	RB         string `json:"rb"`
	V2         string `json:"v2"`
	MV2        string `json:"mv2,omitempty"`
	RB2        string `json:"rb2,omitempty"`
	// configured limits of the fan (0 = not configured): the restore must not depend on them
	MaxPwm    int  `json:"max_pwm,omitempty"`
	MinPwm    int  `json:"min_pwm,omitempty"`
	StartPwm  int  `json:"start_pwm,omitempty"`
	NeverStop bool `json:"never_stop,omitempty"`
}
type restoreObs struct {
	Mode int      `json:"mode"`
	Pwm  int      `json:"pwm"`
	Err  bool     `json:"err"`
	Ops  []string `json:"ops"`
	Orig [2]int   `json:"orig"` // (mode, pwm) the controller held
}

var restoreWName = map[string]string{"ok": "WOk", "refused": "WRefused", "ignored": "WIgnored"}
var restoreRName = map[string]string{"ok": "ROk", "fails": "RFails", "garbage": "RGarbage", "perm": "RPerm"}
var restoreBName = map[string]string{"hwmon": "BHwmon", "file": "BFile", "cmd": "BCmd"}

type restoreEnv struct {
	dir              string
	pwmPath, enPath  string
	script           string
	wPwm, wMode, rMo []string // verdict queues
	failPwmReads     bool
	nModeW           int
	ops              []string
}

func (e *restoreEnv) pop(q *[]string) string {
	if len(*q) == 0 {
		return "ok"
	}
	v := (*q)[0]
	*q = (*q)[1:]
	return v
}

func (e *restoreEnv) install() {
	util.VerifWriteHook = func(path string, data []byte) (error, bool) {
		switch path {
		case e.pwmPath:
			e.ops = append(e.ops, "OpWPwm "+restoreCZ(string(data)))
			switch e.pop(&e.wPwm) {
			case "refused":
				return &fs.PathError{Op: "write", Path: path, Err: syscall.EINVAL}, true
			case "ignored":
				return nil, true
			}
		case e.enPath:
			e.ops = append(e.ops, "OpWMode "+restoreCZ(string(data)))
			e.nModeW++
			switch e.pop(&e.wMode) {
			case "refused":
				return &fs.PathError{Op: "write", Path: path, Err: syscall.EINVAL}, true
			case "ignored":
				return nil, true
			}
		}
		return nil, false
	}
	util.VerifReadHook = func(path string) ([]byte, error, bool) {
		switch path {
		case e.enPath:
			e.ops = append(e.ops, "OpRMode")
			// the read-back verdict belongs to the SetPwmEnabled call whose mode write came last
			v := "ok"
			if e.nModeW >= 1 && e.nModeW <= len(e.rMo) {
				v = e.rMo[e.nModeW-1]
			}
			switch v {
			case "fails":
				return nil, &fs.PathError{Op: "read", Path: path, Err: syscall.EIO}, true
			case "garbage":
				return []byte("garbage\n"), nil, true
			case "perm":
				return nil, &fs.PathError{Op: "open", Path: path, Err: syscall.EACCES}, true
			}
		case e.pwmPath:
			if e.failPwmReads {
				return nil, &fs.PathError{Op: "read", Path: path, Err: syscall.EIO}, true
			}
		}
		return nil, nil, false
	}
}

func (e *restoreEnv) uninstall() {
	util.VerifWriteHook = nil
	util.VerifReadHook = nil
}

// restoreCatch: like catch, but a panic with an empty message (ui.Fatal -> panic("")) is still a panic
func restoreCatch(f func()) (p string) {
	defer func() {
		if r := recover(); r != nil {
			p = "panic: " + fmt.Sprint(r)
		}
	}()
	f()
	return ""
}

func restoreCZ(s string) string {
	n, err := strconv.Atoi(strings.TrimSpace(s))
	if err != nil {
		return "(-999)"
	}
	return cZ(n)
}

func restoreReadInt(p string, def int) int {
	b, err := os.ReadFile(p)
	if err != nil {
		return def
	}
	n, err := strconv.Atoi(strings.TrimSpace(string(b)))
	if err != nil {
		return def
	}
	return n
}

const restoreSetScript = `#!/bin/sh
# $1 = state dir, $2 = pwm ; applies the verdict of the n-th invocation
n=$(cat "$1/count" 2>/dev/null || echo 0)
n=$((n+1))
echo $n > "$1/count"
v=$(sed -n "${n}p" "$1/verdicts")
echo "OpWPwm $2" >> "$1/log"
case "$v" in
  refused) echo refused >&2; exit 1 ;;
  ignored) exit 0 ;;
  *) echo "$2" > "$1/pwm1"; exit 0 ;;
esac
`

func restoreNewEnv(ctx *Ctx) *restoreEnv {
	dir := filepath.Join(ctx.WorkDir, "restore")
	os.MkdirAll(dir, 0755)
	if r, err := filepath.EvalSymlinks(dir); err == nil {
		dir = r
	}
	e := &restoreEnv{dir: dir, pwmPath: filepath.Join(dir, "pwm1"), enPath: filepath.Join(dir, "pwm1_enable"),
		script: filepath.Join(dir, "set.sh")}
	if err := os.WriteFile(e.script, []byte(restoreSetScript), 0755); err != nil {
		panic(err)
	}
	return e
}

func (e *restoreEnv) makeFan(in restoreIn) fans.Fan {
	cfg := configuration.FanConfig{ID: "fan", NeverStop: in.NeverStop}
	if in.MaxPwm > 0 {
		v := in.MaxPwm
		cfg.MaxPwm = &v
	}
	if in.MinPwm > 0 {
		v := in.MinPwm
		cfg.MinPwm = &v
	}
	if in.StartPwm > 0 {
		v := in.StartPwm
		cfg.StartPwm = &v
	}
	switch in.Backend {
	case "hwmon":
		cfg.HwMon = &configuration.HwMonFanConfig{PwmPath: e.pwmPath, PwmEnablePath: e.enPath, RpmInputPath: filepath.Join(e.dir, "fan1_input")}
	case "file":
		cfg.File = &configuration.FileFanConfig{Path: e.pwmPath}
	default:
		cfg.Cmd = &configuration.CmdFanConfig{
			SetPwm: &configuration.ExecConfig{Exec: e.script, Args: []string{e.dir, "%pwm%"}},
		}
	}
	fan, err := fans.NewFan(cfg) // as initializeFans does: copies the configured limits into the fan
	if err != nil {
		panic(err)
	}
	return fan
}

func restoreRun(e *restoreEnv, in restoreIn) (restoreObs, string, []string) {
	// device
	os.WriteFile(e.pwmPath, []byte(strconv.Itoa(in.CurPwm)), 0644)
	os.Remove(e.enPath)
	if in.Backend == "hwmon" && in.Exists {
		os.WriteFile(e.enPath, []byte(strconv.Itoa(in.CurMode)), 0644)
	}
	os.Remove(filepath.Join(e.dir, "count"))
	os.Remove(filepath.Join(e.dir, "log"))
	e.ops = nil
	e.nModeW = 0
	e.failPwmReads = false
	fan := e.makeFan(in)
	c := controller.VerifNewController(nil, fan, nil, nil, 0)
	var obs restoreObs
	e.install()
	defer e.uninstall()
	origPwm := in.OrigPwm
	if in.Unreadable {
		// what Run() stores when the original PWM cannot be read: the real getPwm() under failing reads
		e.failPwmReads = true
		origPwm, _ = c.VerifGetPwm()
		e.failPwmReads = false
		e.ops = nil
	}
	c.VerifSetOriginal(fans.ControlMode(in.OrigMode), origPwm)
	om, op := c.VerifOriginal()
	obs.Orig = [2]int{om, op}
	panicked := ""
	if in.Kind == "restore" {
		e.wPwm = []string{in.V1, in.V2}
		e.wMode = []string{in.MV}
		e.rMo = []string{in.RB}
		if in.Backend == "cmd" {
			os.WriteFile(filepath.Join(e.dir, "verdicts"), []byte(in.V1+"\n"+in.V2+"\n"), 0644)
		}
		panicked = restoreCatch(func() { c.VerifRestore() })
	} else {
		e.wPwm = nil
		e.wMode = []string{in.MV, in.MV2}
		e.rMo = []string{in.RB, in.RB2}
		panicked = restoreCatch(func() { obs.Err = controller.VerifTrySetManualPwm(fan) != nil })
	}
	if in.Backend == "cmd" {
		if b, err := os.ReadFile(filepath.Join(e.dir, "log")); err == nil {
			for _, l := range strings.Split(strings.TrimSpace(string(b)), "\n") {
				if f := strings.Fields(l); len(f) == 2 {
					e.ops = append(e.ops, "OpWPwm "+restoreCZ(f[1]))
				}
			}
		}
	}
	obs.Ops = append([]string{}, e.ops...)
	if panicked != "" {
		obs.Ops = append(obs.Ops, "OpWMode (-777)") // a panic is never what the model predicts
	}
	obs.Pwm = restoreReadInt(e.pwmPath, -999)
	obs.Mode = in.CurMode
	if _, err := os.Stat(e.enPath); err == nil {
		obs.Mode = restoreReadInt(e.enPath, -999)
		if !(in.Backend == "hwmon" && in.Exists) {
			obs.Mode = -888 // a mode file appeared where the fan has none
		}
	}
	dev := func(m, p int) string { return "(mkDev " + cZ(m) + " " + cZ(p) + ")" }
	ops := make([]string, len(obs.Ops))
	for i, o := range obs.Ops {
		if strings.Contains(o, " ") {
			ops[i] = "(" + o + ")"
		} else {
			ops[i] = o
		}
	}
	var coq string
	tags := []string{in.Kind, "backend=" + in.Backend}
	if in.Kind == "restore" {
		coq = cRec("CRestore", restoreBName[in.Backend], cBool(in.Exists), dev(in.OrigMode, origPwm), dev(in.CurMode, in.CurPwm),
			cRec("mkPlan", restoreWName[in.V1], restoreWName[in.MV], restoreRName[in.RB], restoreWName[in.V2]), dev(obs.Mode, obs.Pwm), cList(ops))
		tags = append(tags, "v1="+in.V1, "mv="+in.MV, "rb="+in.RB, "v2="+in.V2, fmt.Sprintf("origmode=%d", in.OrigMode))
		if in.Unreadable {
			tags = append(tags, "origpwm=unreadable")
		}
		tags = append(tags, fmt.Sprintf("maxpwm=%d", in.MaxPwm))
		if in.MinPwm > 0 || in.NeverStop {
			tags = append(tags, "minpwm+neverstop")
		}
		if len(obs.Ops) > 0 && strings.HasPrefix(obs.Ops[len(obs.Ops)-1], "OpWPwm 255") && len(obs.Ops) >= 2 {
			tags = append(tags, "last-resort-taken")
		} else {
			tags = append(tags, "handed-back")
		}
	} else {
		coq = cRec("CTry", restoreBName[in.Backend], cBool(in.Exists), dev(in.CurMode, in.CurPwm),
			restoreWName[in.MV], restoreRName[in.RB], restoreWName[in.MV2], restoreRName[in.RB2], dev(obs.Mode, obs.Pwm), cBool(obs.Err), cList(ops))
	}
	return obs, coq, tags
}

func init() {
	drivers["restore"] = func(ctx *Ctx) {
		e := restoreNewEnv(ctx)
		emit := func(in restoreIn, extra ...string) {
			obs, coq, tags := restoreRun(e, in)
			nontrivial := in.V1 != "ok" || in.MV != "ok" || in.RB != "ok" || in.V2 != "ok" || in.OrigMode != 1
			ctx.Emit(Record{In: in, Obs: obs, Coq: coq, Tags: append(tags, extra...), NonTrv: nontrivial})
		}
		for _, raw := range append(ctx.Corpus, ctx.Replay...) {
			var in restoreIn
			if json.Unmarshal(raw, &in) == nil && in.Kind != "" {
				emit(in, "corpus")
			}
		}
		if ctx.Replay != nil {
			return
		}
		ws := []string{"ok", "refused", "ignored"}
		rs := []string{"ok", "fails", "garbage", "perm"}
		modes := []int{0, 1, 2, 3, 5}
		type op struct {
			v      int
			unread bool
		}
		pwms := []op{{0, false}, {77, false}, {255, false}, {0, true}}
		for _, backend := range []string{"hwmon", "file", "cmd"} {
			for _, exists := range []bool{true, false} {
				if backend != "hwmon" && exists {
					continue
				}
				mvs, rbs := ws, rs
				ms := modes
				if !exists {
					mvs, rbs = []string{"ok"}, []string{"ok"}
				}
				if backend != "hwmon" {
					ms = []int{1}
				}
				for _, om := range ms {
					for _, opw := range pwms {
						for _, v1 := range ws {
							for _, mv := range mvs {
								for _, rb := range rbs {
									for _, v2 := range ws {
										curs := [][2]int{{1, 120}, {om, 33}}
										if om == 1 {
											curs = curs[:1]
										}
										for _, cur := range curs {
											emit(restoreIn{Kind: "restore", Backend: backend, Exists: exists, OrigMode: om,
												OrigPwm: opw.v, Unreadable: opw.unread, CurMode: cur[0], CurPwm: cur[1],
												V1: v1, MV: mv, RB: rb, V2: v2}, "exhaustive")
										}
									}
								}
							}
						}
					}
				}
			}
		}
		// configured limits (maxPwm 200 / 255, with and without minPwm + startPwm + neverStop): the fan must still end
		// handed back or at 255 - a limit that is applied inside Fan.SetPwm must not cap the last resort
		for _, backend := range []string{"hwmon", "file", "cmd"} {
			for _, maxPwm := range []int{200, 255} {
				for _, lim := range []bool{false, true} {
					for _, exists := range []bool{true, false} {
						if backend != "hwmon" && exists {
							continue
						}
						ms, mvs, rbs := modes, ws, []string{"ok", "fails"}
						if !exists {
							mvs, rbs = []string{"ok"}, []string{"ok"}
						}
						if backend != "hwmon" {
							ms = []int{1}
						}
						for _, om := range ms {
							for _, opv := range []int{77, 255} {
								for _, v1 := range ws {
									for _, mv := range mvs {
										for _, rb := range rbs {
											for _, v2 := range ws {
												in := restoreIn{Kind: "restore", Backend: backend, Exists: exists, OrigMode: om, OrigPwm: opv,
													CurMode: 1, CurPwm: 120, V1: v1, MV: mv, RB: rb, V2: v2, MaxPwm: maxPwm}
												if lim {
													in.MinPwm, in.StartPwm, in.NeverStop = 30, 45, true
												}
												emit(in, "limits")
											}
										}
									}
								}
							}
						}
					}
				}
			}
		}
		// trySetManualPwm: every current mode x all verdicts of the two mode writes and read-backs
		for _, cm := range modes {
			for _, mv1 := range ws {
				for _, rb1 := range rs {
					for _, mv2 := range ws {
						for _, rb2 := range rs {
							emit(restoreIn{Kind: "try", Backend: "hwmon", Exists: true, CurMode: cm, CurPwm: 90,
								MV: mv1, RB: rb1, MV2: mv2, RB2: rb2, V1: "ok", V2: "ok"}, "exhaustive")
						}
					}
				}
			}
			emit(restoreIn{Kind: "try", Backend: "hwmon", Exists: false, CurMode: cm, CurPwm: 90, MV: "ok", RB: "ok", MV2: "ok", RB2: "ok", V1: "ok", V2: "ok"}, "exhaustive")
		}
		for _, b := range []string{"file", "cmd"} {
			emit(restoreIn{Kind: "try", Backend: b, CurMode: 1, CurPwm: 90, MV: "ok", RB: "ok", MV2: "ok", RB2: "ok", V1: "ok", V2: "ok"}, "exhaustive")
		}
	}
}
