//go:build verif

package main

import (
	"context"
	"encoding/json"
	"fmt"
	"os"
	"path/filepath"
	"strconv"
	"sync"
	"time"

	"github.com/markusressel/fan2go/internal"
	"github.com/markusressel/fan2go/internal/configuration"
	"github.com/markusressel/fan2go/internal/sensors"
)

// driver `sensmon` (C09): the REAL sensor monitor actor - internal.NewSensorMonitor(sensor, rate).Run(ctx),
// with its ticker - on real hwmon / file / cmd sensors, through a "fault then recovery" poll sequence:
// a good polls, f failed or garbage polls, then good polls again.  The sensor handed to the monitor is a
// thin decorator that, before delegating every GetValue to the real sensor, prepares what that poll will
// see (value file content / script verdict) and records the moving average the monitor had before the poll.
// A panic inside Run (it runs in the calling goroutine) is recovered and reported.
type sensmonIn struct {
	Backend string   `json:"backend"` // hwmon | file | cmd
	Polls   []string `json:"polls"`   // per poll: "" good, "error" (file gone / exit 1), "garbage"
	Temps   []int    `json:"temps"`   // value shown in each poll
	Garbage int      `json:"garbage_sel"`
	RateMs  int      `json:"rate_ms"`
}
type sensmonObs struct {
	Panic  string   `json:"panic,omitempty"`
	Polls  int      `json:"polls"` // polls that happened
	Avgs   []string `json:"avgs"`  // moving average after each poll
	Hang   bool     `json:"hang"`  // the planned polls did not all happen in time
	WallMs int      `json:"wall_ms"`
}

const sensmonScript = `#!/bin/sh
# $1 = dir: prints what the next poll is to see
k=$(cat "$1/verdict" 2>/dev/null)
case "$k" in
  error) echo failing >&2; exit 1 ;;
  garbage) cat "$1/garbage"; exit 0 ;;
esac
cat "$1/temp1_input"
`

var sensmonGarbageFile = []string{"\n", "", " \n", "abc\n", "12abc\n", "1 2\n", "-\n", "\x0012\n", "99999999999999999999999\n"}
var sensmonGarbageCmd = []string{"xyz", "", " ", "12abc", "1 2", "NaN", "+Inf", "1,5"}

type sensmonSensor struct {
	sensors.Sensor
	in     sensmonIn
	dir    string
	mu     sync.Mutex
	n      int
	before []float64
	full   chan struct{}
}

func (s *sensmonSensor) GetValue() (float64, error) {
	s.mu.Lock()
	i := s.n
	s.n++
	s.before = append(s.before, s.Sensor.GetMovingAvg())
	kind, temp := "", 50000
	if i < len(s.in.Polls) {
		kind, temp = s.in.Polls[i], s.in.Temps[i]
	} else if i == len(s.in.Polls) {
		close(s.full) // every planned poll has been made (this one only exposes the last average)
	}
	s.mu.Unlock()
	tp := filepath.Join(s.dir, "temp1_input")
	if s.in.Backend == "cmd" {
		os.WriteFile(tp, []byte(strconv.Itoa(temp)), 0644)
		os.WriteFile(filepath.Join(s.dir, "verdict"), []byte(kind), 0644)
		if kind == "garbage" {
			os.WriteFile(filepath.Join(s.dir, "garbage"), []byte(sensmonGarbageCmd[(s.in.Garbage+i)%len(sensmonGarbageCmd)]), 0644)
		}
	} else {
		switch kind {
		case "error":
			os.Remove(tp)
		case "garbage":
			os.WriteFile(tp, []byte(sensmonGarbageFile[(s.in.Garbage+i)%len(sensmonGarbageFile)]), 0644)
		default:
			os.WriteFile(tp, []byte(strconv.Itoa(temp)+"\n"), 0644)
		}
	}
	return s.Sensor.GetValue()
}

func sensmonPrepare(ctx *Ctx, seq int) {
	dir := filepath.Join(ctx.WorkDir, "sensmon", strconv.Itoa(seq))
	os.MkdirAll(dir, 0755)
	os.WriteFile(filepath.Join(dir, "temp.sh"), []byte(sensmonScript), 0755)
}

func sensmonRun(ctx *Ctx, seq int, in sensmonIn) (sensmonObs, string, []string) {
	t0 := time.Now()
	dir := filepath.Join(ctx.WorkDir, "sensmon", strconv.Itoa(seq))
	if r, err := filepath.EvalSymlinks(dir); err == nil {
		dir = r
	}
	defer os.RemoveAll(dir)
	tp := filepath.Join(dir, "temp1_input")
	os.WriteFile(tp, []byte("50000\n"), 0644)
	id := fmt.Sprintf("sensmon%d", seq)
	var cfg configuration.SensorConfig
	switch in.Backend {
	case "hwmon":
		cfg = configuration.SensorConfig{ID: id, HwMon: &configuration.HwMonSensorConfig{TempInput: tp}}
	case "file":
		cfg = configuration.SensorConfig{ID: id, File: &configuration.FileSensorConfig{Path: tp}}
	default:
		cfg = configuration.SensorConfig{ID: id, Cmd: &configuration.CmdSensorConfig{Exec: filepath.Join(dir, "temp.sh"), Args: []string{dir}}}
	}
	real, err := sensors.NewSensor(cfg)
	if err != nil {
		panic(err)
	}
	avg0 := 50000.0
	real.SetMovingAvg(avg0)
	dec := &sensmonSensor{Sensor: real, in: in, dir: dir, full: make(chan struct{})}
	rate := time.Duration(in.RateMs) * time.Millisecond
	mon := internal.NewSensorMonitor(dec, rate)
	cctx, cancel := context.WithCancel(context.Background())
	defer cancel()
	var obs sensmonObs
	done := make(chan struct{})
	go func() {
		defer close(done)
		defer func() {
			if r := recover(); r != nil {
				obs.Panic = "panic: " + fmt.Sprint(r)
			}
		}()
		_ = mon.Run(cctx)
	}()
	// generous: a back-off of a few polling periods per poll is fine, a stuck or dead monitor is not
	limit := time.Duration(len(in.Polls)+2)*rate*8 + 3*time.Second
	select {
	case <-dec.full:
	case <-done:
	case <-time.After(limit):
		obs.Hang = true
	}
	cancel()
	select {
	case <-done:
	case <-time.After(3 * time.Second):
		obs.Hang = true
	}
	dec.mu.Lock()
	obs.Polls = dec.n
	if obs.Polls > len(in.Polls) {
		obs.Polls = len(in.Polls)
	}
	// average after poll i = average before poll i+1 (the last one from the sensor itself)
	var after []float64
	for i := 1; i < len(dec.before) && i <= len(in.Polls); i++ {
		after = append(after, dec.before[i])
	}
	if len(after) < obs.Polls && obs.Panic == "" {
		after = append(after, real.GetMovingAvg())
	}
	dec.mu.Unlock()
	if len(after) > obs.Polls {
		after = after[:obs.Polls]
	}
	avgsC := make([]string, len(after))
	for i, a := range after {
		obs.Avgs = append(obs.Avgs, jF(a))
		avgsC[i] = cF(a)
	}
	obs.WallMs = int(time.Since(t0) / time.Millisecond)
	fl := make([]string, len(in.Polls))
	nf := 0
	for i, k := range in.Polls {
		fl[i] = cBool(k != "")
		if k != "" {
			nf++
		}
	}
	coq := cRec("mkCase", cZ(configuration.CurrentConfig.TempRollingWindowSize), cF(avg0), cZList(in.Temps), cList(fl),
		cBool(obs.Panic != ""), cBool(obs.Hang), cZ(obs.Polls), cList(avgsC))
	tags := []string{"backend=" + in.Backend, fmt.Sprintf("failed=%d", nf)}
	if obs.Panic != "" {
		tags = append(tags, "panic")
	}
	return obs, coq, tags
}

func init() {
	drivers["sensmon"] = func(ctx *Ctx) {
		os.Unsetenv("DISPLAY")
		configuration.CurrentConfig.TempRollingWindowSize = 10
		var jobs []sensmonIn
		var jt []string
		for _, raw := range append(ctx.Corpus, ctx.Replay...) {
			var in sensmonIn
			if json.Unmarshal(raw, &in) == nil && in.Backend != "" {
				jobs = append(jobs, in)
				jt = append(jt, "corpus")
			}
		}
		if ctx.Replay == nil {
			rng := NewRng(ctx.Seed, "sensmon")
			reps := ctx.Param("reps", 1)
			if !ctx.Quick() {
				reps = ctx.Param("reps", 8)
			}
			for r := 0; r < reps; r++ {
				for _, b := range []string{"hwmon", "file", "cmd"} {
					for f := 1; f <= 5; f++ {
						for _, kind := range []string{"error", "garbage"} {
							a := rng.Range(1, 3)
							good := f + rng.Range(1, 3) // at least as many successful reads as failed ones, and more
							in := sensmonIn{Backend: b, Garbage: rng.Intn(32), RateMs: 2}
							for i := 0; i < a+f+good; i++ {
								k := ""
								if i >= a && i < a+f {
									k = kind
									if rng.Chance(1, 4) {
										k = []string{"error", "garbage"}[rng.Intn(2)]
									}
								}
								in.Polls = append(in.Polls, k)
								in.Temps = append(in.Temps, rng.Range(30, 90)*1000)
							}
							jobs = append(jobs, in)
							jt = append(jt, "fault-then-recovery")
						}
					}
					// two bursts, and no fault at all
					in := sensmonIn{Backend: b, Garbage: rng.Intn(32), RateMs: 2}
					for i := 0; i < 14; i++ {
						k := ""
						if i == 2 || i == 3 || i == 8 {
							k = []string{"error", "garbage"}[rng.Intn(2)]
						}
						in.Polls = append(in.Polls, k)
						in.Temps = append(in.Temps, rng.Range(30, 90)*1000)
					}
					jobs = append(jobs, in)
					jt = append(jt, "two-bursts")
				}
			}
		}
		for i := range jobs {
			sensmonPrepare(ctx, i)
		}
		type result struct {
			obs  sensmonObs
			coq  string
			tags []string
		}
		results := make([]result, len(jobs))
		var wg sync.WaitGroup
		ch := make(chan int)
		for w := 0; w < ctx.Param("workers", 8); w++ {
			wg.Add(1)
			go func() {
				defer wg.Done()
				for i := range ch {
					o, c, t := sensmonRun(ctx, i, jobs[i])
					results[i] = result{o, c, append(t, jt[i])}
				}
			}()
		}
		for i := range jobs {
			ch <- i
		}
		close(ch)
		wg.Wait()
		for i, r := range results {
			ctx.Emit(Record{In: jobs[i], Obs: r.obs, Coq: r.coq, Tags: r.tags, NonTrv: true})
		}
	}
}
