//go:build verif

package main

import (
	"encoding/json"
	"fmt"
	"math"
	"os"
	"path/filepath"
	"strconv"
	"strings"
	"syscall"

	"github.com/markusressel/fan2go/internal"
	"github.com/markusressel/fan2go/internal/configuration"
	"github.com/markusressel/fan2go/internal/hwmon"
	"github.com/markusressel/fan2go/internal/sensors"
	"github.com/markusressel/fan2go/internal/util"
	"github.com/prometheus/client_golang/prometheus"
)

// driver `sensor` (C08): real HwmonSensor / FileSensor / CmdSensor objects, seeded by the real
// initializeSensors (or created by sensors.NewSensor and SetMovingAvg), polled through the real
// updateSensor with configuration.CurrentConfig.TempRollingWindowSize = n. Every poll first puts
// the outside world into the state described by one step (file content, missing file, directory,
// injected EIO, command output / exit code / hang) and afterwards reads GetMovingAvg() bit-exactly.

// one state of the outside world for one read
type sensorStep struct {
	Fault string `json:"fault"` // "" | missing | empty | garbage | dir | eio | exit | nocmd | timeout | nonfinite
	Text  string `json:"text"`  // file content resp. command stdout
	Exit  int    `json:"exit"`  // command exit code
	Cls   string `json:"cls"`   // class the parsers must arrive at: err | int | float
	Z     int64  `json:"z"`     // cls=int
	F     string `json:"f"`     // cls=float: exact hex float, or nan / +inf / -inf
}

type sensorIn struct {
	Kind     string             `json:"kind"` // hwmon | file | cmd
	N        int                `json:"n"`
	InitMode string             `json:"initMode"` // read | set
	InitStep sensorStep         `json:"initStep"`
	InitSet  string             `json:"initSet"` // hex float
	Steps    []sensorStep       `json:"steps"`
	Monitor  bool               `json:"monitor,omitempty"` // run through the real monitor loop (drv_sensor_mon.go); steps = planned reads
	PollUs   int                `json:"pollUs,omitempty"`  // monitor polling rate in microseconds
	Startup  bool               `json:"startup,omitempty"` // created by the real start-up glue (drv_sensor_startup.go)
	Chip     *sensorStartupChip `json:"chip,omitempty"`    // startup + hwmon: the fake chip
}

type sensorObs struct {
	Panic string   `json:"panic"`
	Init  string   `json:"init"`
	Avgs  []string `json:"avgs"`
	Errs  []bool   `json:"errs"`
}

func sensorParseF(s string) float64 {
	switch s {
	case "nan":
		return math.NaN()
	case "+inf":
		return math.Inf(1)
	case "-inf":
		return math.Inf(-1)
	}
	return pF(s)
}
func sensorFmtF(x float64) string {
	switch {
	case math.IsNaN(x):
		return "nan"
	case math.IsInf(x, 1):
		return "+inf"
	case math.IsInf(x, -1):
		return "-inf"
	}
	return jF(x)
}

func (s sensorStep) coq() string {
	switch s.Cls {
	case "int":
		return "(ValZ " + cZ64(s.Z) + ")"
	case "float":
		return "(ValF " + cF(sensorParseF(s.F)) + ")"
	}
	return "ReadErr"
}

var sensorCaseNo int

type sensorWorld struct {
	kind    string
	dir     string
	path    string // value file (hwmon/file) resp. script (cmd)
	eio     bool
	timeout bool
}

func sensorShQuote(s string) string { return "'" + strings.ReplaceAll(s, "'", `'\''`) + "'" }

func (w *sensorWorld) apply(s sensorStep) {
	w.eio = false
	must := func(err error) {
		if err != nil {
			panic(fmt.Sprintf("harness: %v", err))
		}
	}
	must(os.RemoveAll(w.path))
	if w.kind == "cmd" {
		if s.Fault == "nocmd" {
			return
		}
		body := "#!/bin/sh\n"
		if s.Fault == "timeout" {
			body += "exec sleep 4\n"
		}
		body += "printf '%s' " + sensorShQuote(s.Text) + "\nexit " + strconv.Itoa(s.Exit) + "\n"
		must(os.WriteFile(w.path, []byte(body), 0755))
		must(os.Chmod(w.path, 0755))
		return
	}
	switch s.Fault {
	case "missing":
	case "dir":
		must(os.Mkdir(w.path, 0755))
	case "eio":
		must(os.WriteFile(w.path, []byte(s.Text), 0644))
		w.eio = true
	default:
		must(os.WriteFile(w.path, []byte(s.Text), 0644))
	}
}

func sensorRun(ctx *Ctx, in sensorIn) (sensorObs, string) {
	sensorCaseNo++
	id := "verif_sensor_" + itoa(sensorCaseNo)
	dir := filepath.Join(ctx.WorkDir, "s"+itoa(sensorCaseNo))
	if err := os.MkdirAll(dir, 0755); err != nil {
		panic(err)
	}
	defer os.RemoveAll(dir)
	w := &sensorWorld{kind: in.Kind, dir: dir}
	cfg := configuration.SensorConfig{ID: id}
	var controllers []*hwmon.HwMonController
	switch in.Kind {
	case "hwmon":
		w.path = filepath.Join(dir, "temp1_input")
		cfg.HwMon = &configuration.HwMonSensorConfig{Platform: "verifplat", Index: 1, TempInput: w.path}
		controllers = []*hwmon.HwMonController{{Name: "verif", Platform: "verifplat",
			Sensors: map[int]*sensors.HwmonSensor{1: {Index: 1, Input: w.path}}}}
	case "file":
		w.path = filepath.Join(dir, "value")
		cfg.File = &configuration.FileSensorConfig{Path: w.path}
	case "cmd":
		w.path = filepath.Join(dir, "sensor.sh")
		cfg.Cmd = &configuration.CmdSensorConfig{Exec: w.path, Args: []string{}}
	default:
		panic("harness: unknown kind " + in.Kind)
	}
	util.VerifReadHook = func(path string) ([]byte, error, bool) {
		if w.eio && path == w.path {
			return nil, &os.PathError{Op: "read", Path: path, Err: syscall.EIO}, true
		}
		return nil, nil, false
	}
	defer func() { util.VerifReadHook = nil }()
	configuration.CurrentConfig.TempRollingWindowSize = in.N

	var obs sensorObs
	obs.Avgs = []string{}
	obs.Errs = []bool{}
	var sensor sensors.Sensor
	wd := sensorWatchdog(in.Kind)
	// every call into the real code runs under the watchdog (drv_sensor_guard.go)
	call := func(where string, f func()) bool {
		if r := sensorGuard(wd, f); r != "" {
			obs.Panic = where + ": " + r
			return false
		}
		return true
	}
	harness := catch(func() {
		if in.InitMode == "set" {
			// a readable value is in place; the average is then set directly
			w.apply(sensorStep{Text: "0\n"})
			if !call("NewSensor+SetMovingAvg", func() {
				s, err := sensors.NewSensor(cfg)
				if err != nil {
					panic(err)
				}
				s.SetMovingAvg(sensorParseF(in.InitSet))
				sensor = s
			}) {
				return
			}
		} else {
			w.apply(in.InitStep)
			// initializeSensors registers a prometheus collector on the default registerer: fresh one per case
			prometheus.DefaultRegisterer = prometheus.NewRegistry()
			configuration.CurrentConfig.Sensors = []configuration.SensorConfig{cfg}
			if !call("initializeSensors", func() {
				if err := internal.VerifInitializeSensors(controllers); err != nil {
					panic(err)
				}
				s, ok := sensors.GetSensor(id)
				if !ok {
					panic("sensor not registered")
				}
				sensor = s
			}) {
				return
			}
		}
		var avg float64
		if !call("GetMovingAvg after seeding", func() { avg = sensor.GetMovingAvg() }) {
			return
		}
		obs.Init = sensorFmtF(avg)
		for k, st := range in.Steps {
			w.apply(st)
			var err error
			if !call("updateSensor poll "+itoa(k), func() { err = internal.VerifUpdateSensor(sensor) }) {
				return
			}
			if !call("GetMovingAvg after poll "+itoa(k), func() { avg = sensor.GetMovingAvg() }) {
				return
			}
			obs.Avgs = append(obs.Avgs, sensorFmtF(avg))
			obs.Errs = append(obs.Errs, err != nil)
		}
	})
	if harness != "" {
		obs.Panic = harness
	}
	if obs.Init == "" {
		obs.Init = "nan"
	}
	kind := map[string]string{"hwmon": "KHwmon", "file": "KFile", "cmd": "KCmd"}[in.Kind]
	init := "(InitRead " + in.InitStep.coq() + ")"
	if in.InitMode == "set" {
		init = "(InitSet " + cF(sensorParseF(in.InitSet)) + ")"
	}
	reads := make([]string, len(in.Steps))
	for i, s := range in.Steps {
		reads[i] = s.coq()
	}
	avgs := make([]string, len(obs.Avgs))
	for i, a := range obs.Avgs {
		avgs[i] = cF(sensorParseF(a))
	}
	errs := make([]string, len(obs.Errs))
	for i, e := range obs.Errs {
		errs[i] = cBool(e)
	}
	coq := cRec("mkCase", kind, cZ(in.N), init, cList(reads), cBool(obs.Panic == ""), cF(sensorParseF(obs.Init)), cList(avgs), cList(errs))
	return obs, coq
}

// ---- generators ----

// text renderings of an integer that strconv.Atoi(strings.TrimSpace(.)) accepts
func sensorIntText(rng *Rng, z int64) string {
	s := strconv.FormatInt(z, 10)
	switch rng.Intn(8) {
	case 0:
		return s
	case 1:
		return " " + s + " \n"
	case 2:
		if z >= 0 {
			return "+" + s + "\n"
		}
	case 3:
		if z >= 0 {
			return "00" + s + "\n"
		}
	case 4:
		return "\t" + s + "\r\n"
	}
	return s + "\n"
}

func sensorOkInt(rng *Rng, z int64) sensorStep {
	return sensorStep{Text: sensorIntText(rng, z), Cls: "int", Z: z}
}

// a float as a command prints it; ParseFloat must return exactly f
func sensorOkFloat(rng *Rng, f float64) sensorStep {
	var t string
	switch rng.Intn(6) {
	case 0:
		t = strconv.FormatFloat(f, 'x', -1, 64)
	case 1:
		t = strconv.FormatFloat(f, 'e', -1, 64)
	default:
		t = strconv.FormatFloat(f, 'g', -1, 64)
	}
	if rng.Chance(3, 4) {
		t += "\n"
	}
	return sensorStep{Text: t, Cls: "float", F: sensorFmtF(f)}
}

var sensorFileGarbage = []string{"abc\n", "12.5\n", "nan\n", "inf\n", "1e3\n", "0x10\n", "9223372036854775808\n", "--5\n", "4 5\n", "\n", "   \n", "45000C\n", "\x00\x00"}
var sensorCmdGarbage = []string{"abc\n", "", "\n", " 45.5\n", "45.5 C\n", "45,5\n", "1e400\n", "-1e999\n", "4 5\n", "nanx\n", "in\n", "0x\n", "--1\n", "45.5\n46.5\n", "1__0\n", "+nan\n", "-NAN\n", "infx\n"}
var sensorCmdNonFinite = []struct {
	t string
	f float64
}{{"nan", math.NaN()}, {"NaN\n", math.NaN()}, {"inf\n", math.Inf(1)}, {"+Inf\n", math.Inf(1)}, {"-inf\n", math.Inf(-1)},
	{"Infinity\n", math.Inf(1)}, {"-Infinity\n", math.Inf(-1)}, {"iNf", math.Inf(1)}}

// a faulty read for the given backend
func sensorFaultStep(rng *Rng, kind string, thorough bool, valid sensorStep) sensorStep {
	if kind == "cmd" {
		k := rng.Intn(10)
		switch {
		case k <= 1:
			// non-zero exit, with output that would otherwise be a fine number
			return sensorStep{Fault: "exit", Text: valid.Text, Exit: rng.Pick([]int{1, 2, 127, 255}), Cls: "err"}
		case k <= 3:
			return sensorStep{Fault: "garbage", Text: sensorCmdGarbage[rng.Intn(len(sensorCmdGarbage))], Cls: "err"}
		case k == 4:
			return sensorStep{Fault: "nocmd", Cls: "err"}
		case k == 5 && thorough && rng.Chance(1, 40):
			return sensorStep{Fault: "timeout", Text: valid.Text, Cls: "err"}
		default:
			nf := sensorCmdNonFinite[rng.Intn(len(sensorCmdNonFinite))]
			return sensorStep{Fault: "nonfinite", Text: nf.t, Cls: "float", F: sensorFmtF(nf.f)}
		}
	}
	switch rng.Intn(6) {
	case 0:
		return sensorStep{Fault: "missing", Cls: "err"}
	case 1:
		return sensorStep{Fault: "empty", Text: "", Cls: "err"}
	case 2:
		return sensorStep{Fault: "dir", Cls: "err"}
	case 3:
		return sensorStep{Fault: "eio", Text: valid.Text, Cls: "err"}
	default:
		return sensorStep{Fault: "garbage", Text: sensorFileGarbage[rng.Intn(len(sensorFileGarbage))], Cls: "err"}
	}
}

// value streams: a profile yields the next valid reading given the previous one
type sensorProfile struct {
	name string
	next func(rng *Rng, prev float64, integer bool) float64
}

func sensorRoundIf(integer bool, v float64) float64 {
	if integer {
		return math.Trunc(v)
	}
	return v
}

var sensorProfiles = []sensorProfile{
	{"millideg", func(rng *Rng, prev float64, integer bool) float64 {
		return sensorRoundIf(integer, float64(rng.Range(20000, 95000)))
	}},
	{"drift", func(rng *Rng, prev float64, integer bool) float64 {
		if integer {
			return prev + float64(rng.Range(-1500, 1500))
		}
		return prev + float64(rng.Range(-1500, 1500))/1000
	}},
	{"degrees", func(rng *Rng, prev float64, integer bool) float64 {
		if integer {
			return float64(rng.Range(-40, 120))
		}
		return float64(rng.Range(-40000, 120000)) / 1000 // decimals: not dyadic
	}},
	{"tiny", func(rng *Rng, prev float64, integer bool) float64 {
		if integer {
			return float64(rng.Range(-3, 3))
		}
		return math.Ldexp(float64(rng.Range(-1000, 1000)), -rng.Range(0, 1080))
	}},
	{"mixed-sign", func(rng *Rng, prev float64, integer bool) float64 {
		m := math.Pow(10, float64(rng.Range(0, 9)))
		return sensorRoundIf(integer, (rng.Float01()*2-1)*m)
	}},
	{"large-1e15", func(rng *Rng, prev float64, integer bool) float64 {
		m := math.Pow(10, float64(rng.Range(9, 15)))
		return math.Trunc((rng.Float01()*2 - 1) * m)
	}},
	{"near-2^52", func(rng *Rng, prev float64, integer bool) float64 {
		v := float64(int64(1)<<52 - int64(rng.Range(0, 4)))
		if rng.Bool() {
			v = -v
		}
		return v
	}},
}

// hostile magnitudes (outside the guard of C08_hull for n = 1, some also for n >= 2): recorded finding D20
func sensorHostileValue(rng *Rng, integer bool) float64 {
	if integer {
		vs := []int64{-(1 << 53), 3, 1<<53 + 2, 1 << 62, -(1 << 62), (1 << 53) - 1, -(1<<53 - 1), 1, 1<<52 + 1, 9007199254740993}
		return float64(vs[rng.Intn(len(vs))])
	}
	vs := []float64{1e308, -1e308, math.MaxFloat64, -math.MaxFloat64, -9007199254740992, 3, 0.5, -1.5, 1.5, 4503599627370499, 1e300, -1e300,
		5e-324, -5e-324, 2.2250738585072014e-308, 0.1, 45.3, 1e-14}
	return vs[rng.Intn(len(vs))]
}

func sensorGenCase(rng *Rng, thorough bool, hostile bool) (sensorIn, []string) {
	kinds := []string{"hwmon", "file", "cmd"}
	kind := kinds[rng.Intn(3)]
	integer := kind != "cmd" || rng.Chance(1, 4)
	in := sensorIn{Kind: kind}
	switch rng.Intn(10) {
	case 0:
		in.N = 1
	case 1:
		in.N = 2
	case 2:
		in.N = 10
	default:
		in.N = rng.Range(1, 50)
	}
	if hostile && rng.Chance(1, 6) {
		in.N = rng.Pick([]int{1, 1, 2, 3, 1000000, 1 << 40})
	}
	tags := []string{"kind=" + kind, "n=" + sensorNBucket(in.N)}
	prof := sensorProfiles[rng.Intn(len(sensorProfiles))]
	if hostile {
		tags = append(tags, "hostile")
	} else {
		tags = append(tags, "profile="+prof.name)
	}
	prev := 0.0
	mk := func() sensorStep {
		var v float64
		if hostile && rng.Chance(2, 3) {
			v = sensorHostileValue(rng, integer)
		} else {
			v = prof.next(rng, prev, integer)
		}
		if integer && math.Abs(v) >= 9.2e18 {
			v = math.Copysign(9.2e18, v)
		}
		prev = v
		if kind != "cmd" {
			return sensorOkInt(rng, int64(v))
		}
		if integer && math.Abs(v) < 9e15 && rng.Bool() {
			// a command printing a plain integer
			return sensorStep{Text: strconv.FormatInt(int64(v), 10) + "\n", Cls: "float", F: sensorFmtF(float64(int64(v)))}
		}
		return sensorOkFloat(rng, v)
	}
	faultP := []int{0, 1, 3, 8}[rng.Intn(4)] // out of 10
	tags = append(tags, "faultrate="+itoa(faultP*10)+"%")
	maxLen := 40
	if thorough {
		maxLen = 120
	}
	length := rng.Range(3, maxLen)
	// seeding
	first := mk()
	switch {
	case rng.Chance(1, 6):
		in.InitMode = "set"
		v := prof.next(rng, prev, false)
		if hostile {
			v = sensorHostileValue(rng, integer)
		}
		if in.N == 1 && !hostile {
			v = math.Trunc(v)
		}
		in.InitSet = sensorFmtF(v)
		tags = append(tags, "init=set")
	case rng.Chance(faultP, 12):
		in.InitMode = "read"
		in.InitStep = sensorFaultStep(rng, kind, thorough, first)
		tags = append(tags, "init=fault:"+in.InitStep.Fault)
	default:
		in.InitMode = "read"
		in.InitStep = first
		tags = append(tags, "init=read")
	}
	hold := 0
	var held sensorStep
	for i := 0; i < length; i++ {
		if hold > 0 {
			// constant reading for a while (convergence)
			hold--
			in.Steps = append(in.Steps, held)
			continue
		}
		valid := mk()
		if rng.Chance(faultP, 10) {
			f := sensorFaultStep(rng, kind, thorough, valid)
			in.Steps = append(in.Steps, f)
			tags = append(tags, "fault="+f.Fault)
			continue
		}
		in.Steps = append(in.Steps, valid)
		if rng.Chance(1, 8) {
			hold = rng.Range(2, 12)
			held = valid
			tags = append(tags, "constant-run")
		}
	}
	return in, sensorUniq(tags)
}

func sensorNBucket(n int) string {
	switch {
	case n == 1:
		return "1"
	case n == 2:
		return "2"
	case n <= 10:
		return "3-10"
	case n <= 50:
		return "11-50"
	}
	return ">50"
}

func sensorUniq(xs []string) []string {
	seen := map[string]bool{}
	var res []string
	for _, x := range xs {
		if !seen[x] {
			seen[x] = true
			res = append(res, x)
		}
	}
	return res
}

func init() {
	drivers["sensor"] = func(ctx *Ctx) {
		emit := func(in sensorIn, tags ...string) {
			var obs sensorObs
			var coq string
			if in.Monitor {
				obs, coq = sensorMonRun(ctx, in)
			} else if in.Startup {
				o, c := sensorStartupRun(ctx, []sensorIn{in})
				obs, coq = o[0], c[0]
			} else {
				obs, coq = sensorRun(ctx, in)
			}
			distinct := map[string]bool{obs.Init: true}
			for _, a := range obs.Avgs {
				distinct[a] = true
			}
			ctx.Emit(Record{In: in, Obs: obs, Coq: coq, Tags: tags, NonTrv: len(distinct) >= 2})
		}
		sensorHungInStream = 0
		for _, raw := range append(ctx.Corpus, ctx.Replay...) {
			var in sensorIn
			if sensorStreamStopped() {
				break
			}
			if json.Unmarshal(raw, &in) == nil && in.Kind != "" {
				emit(in, "corpus")
			}
		}
		if ctx.Replay != nil {
			return
		}
		rng := NewRng(ctx.Seed, "sensor")
		n := ctx.Param("n", 600)
		nh := ctx.Param("hostile", 60)
		thorough := !ctx.Quick()
		sensorHungInStream = 0
		for i := 0; i < n && !sensorStreamStopped(); i++ {
			in, tags := sensorGenCase(rng, thorough, false)
			emit(in, tags...)
		}
		// the real monitor loop (ticker) over a hook-served file: failure streaks of 1..3 windows
		mr := NewRng(ctx.Seed, "sensor-monitor")
		sensorHungInStream = 0
		for i := 0; i < ctx.Param("monitor", 30) && !sensorStreamStopped(); i++ {
			in, tags := sensorMonGen(mr)
			emit(in, tags...)
		}
		// sensors created by the real start-up glue (GetChips on a fake chip + initializeSensors): one hwmon,
		// one file and one cmd sensor per InitializeObjects call
		sr := NewRng(ctx.Seed, "sensor-startup")
		sensorHungInStream = 0
		for i := 0; i < ctx.Param("startup", 40) && !sensorStreamStopped(); i++ {
			var ins []sensorIn
			var tagss [][]string
			hin, htags := sensorStartupGenHwmon(sr)
			ins, tagss = append(ins, hin), append(tagss, htags)
			for _, kind := range []string{"file", "cmd"} {
				oin, otags := sensorStartupGenOther(sr, kind)
				ins, tagss = append(ins, oin), append(tagss, otags)
			}
			obss, coqs := sensorStartupRun(ctx, ins)
			for j := range ins {
				distinct := map[string]bool{obss[j].Init: true}
				for _, a := range obss[j].Avgs {
					distinct[a] = true
				}
				ctx.Emit(Record{In: ins[j], Obs: obss[j], Coq: coqs[j], Tags: tagss[j], NonTrv: len(distinct) >= 2})
			}
		}
		hr := NewRng(ctx.Seed, "sensor-hostile")
		sensorHungInStream = 0
		for i := 0; i < nh && !sensorStreamStopped(); i++ {
			in, tags := sensorGenCase(hr, thorough, true)
			emit(in, tags...)
		}
	}
}
