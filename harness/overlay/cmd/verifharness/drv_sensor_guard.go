//go:build verif

package main

import "time"

// Per-call watchdog of the sensor drivers (C08): every call into the real code runs on its own
// goroutine; a call that does not return within the watchdog time is the observation "hung" for that
// poll (recorded in obs.Panic, i.e. o_ok = false: the model never produces it and the observer rejects
// it -- the smoothed value must follow later readings). The case ends there, the stuck goroutine is
// abandoned (every case builds fresh sensor objects) and the driver continues; a stream stops after
// sensorMaxHung hung cases to bound the time.

const sensorMaxHung = 3

var sensorHungInStream int

// command sensors may legitimately take the 2 s command timeout (thorough tier)
func sensorWatchdog(kind string) time.Duration {
	if kind == "cmd" {
		return 6 * time.Second
	}
	return 2 * time.Second
}

// sensorGuard runs f under the watchdog: "" = returned, "hung", or "panic: <text>".
// Values f assigns to captured variables may be read by the caller only when "" is returned.
func sensorGuard(d time.Duration, f func()) string {
	done := make(chan string, 1)
	go func() { done <- catch(f) }()
	t := time.NewTimer(d)
	defer t.Stop()
	select {
	case p := <-done:
		if p != "" {
			return "panic: " + p
		}
		return ""
	case <-t.C:
		sensorHungInStream++
		return "hung"
	}
}

func sensorStreamStopped() bool { return sensorHungInStream >= sensorMaxHung }
