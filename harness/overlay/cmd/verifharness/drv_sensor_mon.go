//go:build verif

package main

import (
	"context"
	"os"
	"path/filepath"
	"sync"
	"sync/atomic"
	"syscall"
	"time"

	"github.com/markusressel/fan2go/internal"
	"github.com/markusressel/fan2go/internal/configuration"
	"github.com/markusressel/fan2go/internal/hwmon"
	"github.com/markusressel/fan2go/internal/sensors"
	"github.com/markusressel/fan2go/internal/util"
	"github.com/prometheus/client_golang/prometheus"
)

// Monitor-loop scenario of driver `sensor` (C08): the REAL sensor monitor
// (internal.NewSensorMonitor(sensor, pollingRate).Run(ctx), ticker and all) polls a real
// HwmonSensor / FileSensor whose reads are served by util.VerifReadHook from a planned
// sequence of steps (good values, then a streak of failed reads, then good values again).
//
// Nothing here depends on how many ticks fire or when: the hook runs inside the monitor
// goroutine, once per poll, and records (a) which step it served and (b) GetMovingAvg()
// at that moment = the average after the previous poll. Run handles one tick at a time, so
// this is the exact per-poll sequence; the last average is read after Run has returned.
// When the plan is exhausted every further read fails (recorded as one more ReadErr step).
// The case is then judged like a direct-call case: bit-exact against the model on the
// sequence that was actually served, and by the hull / skip / contraction observer.

type sensorMonServed struct {
	step sensorStep
	avg  float64 // GetMovingAvg() when this read started
}

func sensorMonServe(s sensorStep, path string) ([]byte, error, bool) {
	switch s.Fault {
	case "missing", "nocmd":
		return nil, &os.PathError{Op: "open", Path: path, Err: syscall.ENOENT}, true
	case "dir":
		return nil, &os.PathError{Op: "read", Path: path, Err: syscall.EISDIR}, true
	case "eio":
		return nil, &os.PathError{Op: "read", Path: path, Err: syscall.EIO}, true
	}
	return []byte(s.Text), nil, true
}

func sensorMonRun(ctx *Ctx, in sensorIn) (sensorObs, string) {
	sensorCaseNo++
	id := "verif_sensor_" + itoa(sensorCaseNo)
	dir := filepath.Join(ctx.WorkDir, "m"+itoa(sensorCaseNo))
	if err := os.MkdirAll(dir, 0755); err != nil {
		panic(err)
	}
	defer os.RemoveAll(dir)
	cfg := configuration.SensorConfig{ID: id}
	var controllers []*hwmon.HwMonController
	var path string
	switch in.Kind {
	case "hwmon":
		path = filepath.Join(dir, "temp1_input")
		cfg.HwMon = &configuration.HwMonSensorConfig{Platform: "verifplat", Index: 1, TempInput: path}
		controllers = []*hwmon.HwMonController{{Name: "verif", Platform: "verifplat",
			Sensors: map[int]*sensors.HwmonSensor{1: {Index: 1, Input: path}}}}
	case "file":
		path = filepath.Join(dir, "value")
		cfg.File = &configuration.FileSensorConfig{Path: path}
	default:
		panic("harness: monitor scenario supports hwmon and file sensors, not " + in.Kind)
	}
	configuration.CurrentConfig.TempRollingWindowSize = in.N

	var mu sync.Mutex
	var sensor sensors.Sensor
	var served []sensorMonServed
	seeding := true
	planDone := make(chan struct{})
	var once sync.Once
	var lastProgress atomic.Int64 // unix nanoseconds of the last sign of life of the monitor goroutine
	lastProgress.Store(time.Now().UnixNano())
	util.VerifReadHook = func(p string) ([]byte, error, bool) {
		if p != path {
			return nil, nil, false
		}
		mu.Lock()
		seed, sn := seeding, sensor
		mu.Unlock()
		if seed {
			return sensorMonServe(in.InitStep, path)
		}
		lastProgress.Store(time.Now().UnixNano())
		// not under mu: if the code under test blocks here (broken lock discipline) only the monitor
		// goroutine is stuck and the stall watchdog below ends the case
		avg := sn.GetMovingAvg()
		mu.Lock()
		defer mu.Unlock()
		var st sensorStep
		if len(served) < len(in.Steps) {
			st = in.Steps[len(served)]
		} else {
			st = sensorStep{Fault: "missing", Cls: "err"}
			once.Do(func() { close(planDone) })
		}
		served = append(served, sensorMonServed{step: st, avg: avg})
		lastProgress.Store(time.Now().UnixNano())
		return sensorMonServe(st, path)
	}
	defer func() { util.VerifReadHook = nil }()

	var obs sensorObs
	obs.Avgs = []string{}
	obs.Errs = []bool{}
	wd := sensorWatchdog(in.Kind)
	hung := false
	harness := catch(func() {
		prometheus.DefaultRegisterer = prometheus.NewRegistry()
		configuration.CurrentConfig.Sensors = []configuration.SensorConfig{cfg}
		var s sensors.Sensor
		var avg float64
		if r := sensorGuard(wd, func() {
			if err := internal.VerifInitializeSensors(controllers); err != nil {
				panic(err)
			}
			var ok bool
			s, ok = sensors.GetSensor(id)
			if !ok {
				panic("sensor not registered")
			}
			avg = s.GetMovingAvg()
		}); r != "" {
			obs.Panic, hung = "initializeSensors: "+r, true
			return
		}
		mu.Lock()
		sensor = s
		seeding = false
		mu.Unlock()
		obs.Init = sensorFmtF(avg)

		poll := time.Duration(in.PollUs) * time.Microsecond
		if poll <= 0 {
			poll = 2 * time.Millisecond
		}
		mon := internal.NewSensorMonitor(s, poll)
		rctx, cancel := context.WithCancel(context.Background())
		defer cancel()
		finished := make(chan string, 1)
		lastProgress.Store(time.Now().UnixNano())
		go func() {
			finished <- catch(func() { _ = mon.Run(rctx) })
		}()
		// generous: the plan needs len(steps) ticks; under load ticks are late or dropped.
		// Stall watchdog: no sign of life from the monitor goroutine for 3 s = the poll hung.
		deadline := time.Now().Add(5*time.Second + time.Duration(len(in.Steps))*poll*20)
		tick := time.NewTicker(10 * time.Millisecond)
		defer tick.Stop()
	wait:
		for {
			select {
			case <-planDone:
				break wait
			case p := <-finished:
				panic("monitor goroutine ended early: " + p)
			case <-tick.C:
				if time.Since(time.Unix(0, lastProgress.Load())) > 3*time.Second {
					sensorHungInStream++
					obs.Panic, hung = "monitor loop: hung (no poll for 3 s)", true
					return
				}
				if time.Now().After(deadline) {
					break wait
				}
			}
		}
		cancel()
		select {
		case p := <-finished:
			if p != "" {
				panic("monitor goroutine: " + p)
			}
		case <-time.After(3 * time.Second):
			sensorHungInStream++
			obs.Panic, hung = "monitor loop: hung (Run did not return after cancellation)", true
		}
	})
	if harness != "" {
		obs.Panic = harness
	}
	mu.Lock()
	log := append([]sensorMonServed{}, served...)
	mu.Unlock()
	if obs.Init == "" {
		obs.Init = "nan"
	}
	// average after poll k = average seen when read k+1 started; the last one is read now
	for k := range log {
		var a float64
		if k+1 < len(log) {
			a = log[k+1].avg
		} else if sensor != nil && !hung {
			if r := sensorGuard(wd, func() { a = sensor.GetMovingAvg() }); r != "" {
				obs.Panic, hung = "GetMovingAvg after the last poll: "+r, true
				break
			}
		}
		obs.Avgs = append(obs.Avgs, sensorFmtF(a))
	}
	kind := map[string]string{"hwmon": "KHwmon", "file": "KFile"}[in.Kind]
	reads := make([]string, len(log))
	for i, s := range log {
		reads[i] = s.step.coq()
	}
	avgs := make([]string, len(obs.Avgs))
	for i, a := range obs.Avgs {
		avgs[i] = cF(sensorParseF(a))
	}
	// whether Run saw an error is not observable from outside (it only logs): mkMonCase takes
	// the error flags from the model, so only the averages are compared
	coq := cRec("mkMonCase", kind, cZ(in.N), "(InitRead "+in.InitStep.coq()+")", cList(reads),
		cBool(obs.Panic == ""), cF(sensorParseF(obs.Init)), cList(avgs))
	return obs, coq
}

// plan: good values, a streak of failed reads of 1..3*window(+2) polls, good values again
// (a constant run, so the average must close in on it), optionally a second streak
func sensorMonGen(rng *Rng) (sensorIn, []string) {
	kind := []string{"hwmon", "file"}[rng.Intn(2)]
	in := sensorIn{Kind: kind, Monitor: true, InitMode: "read"}
	in.N = rng.Range(1, 10)
	in.PollUs = rng.Pick([]int{2000, 3000, 5000})
	tags := []string{"monitor-loop", "kind=" + kind, "n=" + sensorNBucket(in.N)}
	val := func() sensorStep { return sensorOkInt(rng, int64(rng.Range(20000, 95000))) }
	in.InitStep = val()
	good := func(k int, constant bool) {
		v := val()
		for i := 0; i < k; i++ {
			if !constant {
				v = val()
			}
			in.Steps = append(in.Steps, v)
		}
	}
	streak := func(k int) {
		f := sensorFaultStep(rng, kind, false, val())
		for i := 0; i < k; i++ {
			if rng.Chance(1, 3) {
				f = sensorFaultStep(rng, kind, false, val())
			}
			in.Steps = append(in.Steps, f)
		}
		tags = append(tags, "streak/window="+itoa((k+in.N-1)/in.N))
	}
	good(rng.Range(1, 4), false)
	streak(rng.Range(1, 3*in.N+2))
	good(rng.Range(3, 8), true)
	if rng.Bool() {
		streak(rng.Range(in.N, 2*in.N+1))
		good(rng.Range(2, 5), rng.Bool())
	}
	return in, sensorUniq(tags)
}
