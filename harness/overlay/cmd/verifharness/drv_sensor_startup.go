//go:build verif

package main

import (
	"fmt"
	"os"
	"path/filepath"
	"strconv"
	"syscall"

	"github.com/markusressel/fan2go/internal"
	"github.com/markusressel/fan2go/internal/configuration"
	"github.com/markusressel/fan2go/internal/sensors"
	"github.com/markusressel/fan2go/internal/util"
	"github.com/prometheus/client_golang/prometheus"
)

// Start-up stream of driver `sensor` (C08): the sensors are created by the REAL start-up glue
// internal.InitializeObjects() = hwmon.GetChips() (gosensors stand-in on a fake sysfs tree rooted at
// VERIF_HWMON_ROOT) + initializeSensors (start-up read included) + initializeCurves + initializeFans.
//   hwmon: a fake chip with tempN_input and, depending on the case, tempN_max / tempN_min / tempN_crit /
//          tempN_label (plus a decoy temp feature with its own attributes before or after it), readings
//          below / inside / above the advertised range;
//   file, cmd: configured next to it, seeded by the same start-up read.
// Afterwards every sensor is polled through the real updateSensor exactly like the direct cases and
// judged by the same model (the value is what the input file / command says) and observer.

type sensorStartupChip struct {
	Index    int  `json:"index"`              // index the configuration names (1 or 2)
	Decoy    int  `json:"decoy"`              // 0 none, 1 decoy feature before, 2 after the target
	Max      *int `json:"max,omitempty"`      // tempN_max content (millidegrees)
	Min      *int `json:"min,omitempty"`      // tempN_min
	Crit     *int `json:"crit,omitempty"`     // tempN_crit
	Label    bool `json:"label,omitempty"`    // tempN_label present
	DecoyMax int  `json:"decoyMax,omitempty"` // decoy tempM_max / tempM_min
	DecoyMin int  `json:"decoyMin,omitempty"`
}

func sensorStartupWrite(path string, text string) {
	if err := os.WriteFile(path, []byte(text), 0644); err != nil {
		panic(fmt.Sprintf("harness: %v", err))
	}
}

// sensorStartupRun creates all sensors of ins with ONE call of InitializeObjects, then polls each.
func sensorStartupRun(ctx *Ctx, ins []sensorIn) ([]sensorObs, []string) {
	sensorCaseNo++
	dir := filepath.Join(ctx.WorkDir, "u"+itoa(sensorCaseNo))
	root := filepath.Join(dir, "hwmonroot")
	if err := os.MkdirAll(root, 0755); err != nil {
		panic(err)
	}
	defer os.RemoveAll(dir)
	worlds := make([]*sensorWorld, len(ins))
	ids := make([]string, len(ins))
	var cfgs []configuration.SensorConfig
	var order string
	for i, in := range ins {
		ids[i] = "verif_sensor_" + itoa(sensorCaseNo) + "_" + itoa(i)
		w := &sensorWorld{kind: in.Kind, dir: dir}
		worlds[i] = w
		cfg := configuration.SensorConfig{ID: ids[i]}
		switch in.Kind {
		case "hwmon":
			ch := in.Chip
			if ch == nil {
				ch = &sensorStartupChip{Index: 1}
			}
			chipName := "verifchip" + itoa(i)
			cdir := filepath.Join(root, "hwmon"+itoa(i))
			if err := os.MkdirAll(cdir, 0755); err != nil {
				panic(err)
			}
			order += "hwmon" + itoa(i) + "\n"
			sensorStartupWrite(filepath.Join(cdir, "name"), chipName+"\n")
			// feature numbers: the target is temp3, a decoy before it is temp1, after it temp7
			target := "temp3"
			if ch.Decoy == 1 {
				sensorStartupWrite(filepath.Join(cdir, "temp1_input"), "33000\n")
				sensorStartupWrite(filepath.Join(cdir, "temp1_max"), strconv.Itoa(ch.DecoyMax)+"\n")
				sensorStartupWrite(filepath.Join(cdir, "temp1_min"), strconv.Itoa(ch.DecoyMin)+"\n")
			}
			if ch.Decoy == 2 {
				sensorStartupWrite(filepath.Join(cdir, "temp7_input"), "33000\n")
				sensorStartupWrite(filepath.Join(cdir, "temp7_max"), strconv.Itoa(ch.DecoyMax)+"\n")
				sensorStartupWrite(filepath.Join(cdir, "temp7_min"), strconv.Itoa(ch.DecoyMin)+"\n")
			}
			if ch.Max != nil {
				sensorStartupWrite(filepath.Join(cdir, target+"_max"), strconv.Itoa(*ch.Max)+"\n")
			}
			if ch.Min != nil {
				sensorStartupWrite(filepath.Join(cdir, target+"_min"), strconv.Itoa(*ch.Min)+"\n")
			}
			if ch.Crit != nil {
				sensorStartupWrite(filepath.Join(cdir, target+"_crit"), strconv.Itoa(*ch.Crit)+"\n")
			}
			if ch.Label {
				sensorStartupWrite(filepath.Join(cdir, target+"_label"), "CPU\n")
			}
			w.path = filepath.Join(cdir, target+"_input")
			cfg.HwMon = &configuration.HwMonSensorConfig{Platform: chipName, Index: ch.Index}
		case "file":
			w.path = filepath.Join(dir, "value"+itoa(i))
			cfg.File = &configuration.FileSensorConfig{Path: w.path}
		case "cmd":
			w.path = filepath.Join(dir, "sensor"+itoa(i)+".sh")
			cfg.Cmd = &configuration.CmdSensorConfig{Exec: w.path, Args: []string{}}
		default:
			panic("harness: unknown kind " + in.Kind)
		}
		cfgs = append(cfgs, cfg)
	}
	sensorStartupWrite(filepath.Join(root, "order"), order)
	util.VerifReadHook = func(path string) ([]byte, error, bool) {
		for _, w := range worlds {
			if w.eio && path == w.path {
				return nil, &os.PathError{Op: "read", Path: path, Err: syscall.EIO}, true
			}
		}
		return nil, nil, false
	}
	defer func() { util.VerifReadHook = nil }()
	oldRoot, hadRoot := os.LookupEnv("VERIF_HWMON_ROOT")
	os.Setenv("VERIF_HWMON_ROOT", root)
	defer func() {
		if hadRoot {
			os.Setenv("VERIF_HWMON_ROOT", oldRoot)
		} else {
			os.Unsetenv("VERIF_HWMON_ROOT")
		}
	}()

	obs := make([]sensorObs, len(ins))
	for i := range obs {
		obs[i].Avgs = []string{}
		obs[i].Errs = []bool{}
		obs[i].Init = "nan"
	}
	savedCurves, savedFans := configuration.CurrentConfig.Curves, configuration.CurrentConfig.Fans
	defer func() { configuration.CurrentConfig.Curves, configuration.CurrentConfig.Fans = savedCurves, savedFans }()
	p := catch(func() {
		// the outside world as the daemon finds it at start-up
		for i, in := range ins {
			worlds[i].apply(in.InitStep)
		}
		prometheus.DefaultRegisterer = prometheus.NewRegistry()
		configuration.CurrentConfig.Sensors = cfgs
		configuration.CurrentConfig.Curves = nil
		configuration.CurrentConfig.Fans = nil
	})
	if p == "" {
		// every call into the real code runs under the watchdog (drv_sensor_guard.go)
		if r := sensorGuard(sensorWatchdog("cmd"), func() {
			if _, err := internal.InitializeObjects(); err != nil {
				panic(err)
			}
		}); r != "" {
			p = "InitializeObjects: " + r
		}
	}
	for i, in := range ins {
		obs[i].Panic = p
		if p != "" {
			continue
		}
		wd := sensorWatchdog(in.Kind)
		i := i
		call := func(where string, f func()) bool {
			if r := sensorGuard(wd, f); r != "" {
				obs[i].Panic = where + ": " + r
				return false
			}
			return true
		}
		configuration.CurrentConfig.TempRollingWindowSize = in.N
		harness := catch(func() {
			var s sensors.Sensor
			var avg float64
			if !call("GetSensor+GetMovingAvg after start-up", func() {
				var ok bool
				s, ok = sensors.GetSensor(ids[i])
				if !ok {
					panic("sensor not registered: " + ids[i])
				}
				avg = s.GetMovingAvg()
			}) {
				return
			}
			obs[i].Init = sensorFmtF(avg)
			for k, st := range in.Steps {
				worlds[i].apply(st)
				var err error
				if !call("updateSensor poll "+itoa(k), func() { err = internal.VerifUpdateSensor(s) }) {
					return
				}
				if !call("GetMovingAvg after poll "+itoa(k), func() { avg = s.GetMovingAvg() }) {
					return
				}
				obs[i].Avgs = append(obs[i].Avgs, sensorFmtF(avg))
				obs[i].Errs = append(obs[i].Errs, err != nil)
			}
		})
		worlds[i].eio = false
		if harness != "" {
			obs[i].Panic = harness
		}
	}
	coqs := make([]string, len(ins))
	for i, in := range ins {
		kind := map[string]string{"hwmon": "KHwmon", "file": "KFile", "cmd": "KCmd"}[in.Kind]
		reads := make([]string, len(in.Steps))
		for j, s := range in.Steps {
			reads[j] = s.coq()
		}
		avgs := make([]string, len(obs[i].Avgs))
		for j, a := range obs[i].Avgs {
			avgs[j] = cF(sensorParseF(a))
		}
		errs := make([]string, len(obs[i].Errs))
		for j, e := range obs[i].Errs {
			errs[j] = cBool(e)
		}
		coqs[i] = cRec("mkCase", kind, cZ(in.N), "(InitRead "+in.InitStep.coq()+")", cList(reads),
			cBool(obs[i].Panic == ""), cF(sensorParseF(obs[i].Init)), cList(avgs), cList(errs))
	}
	return obs, coqs
}

func sensorIntPtr(v int) *int { return &v }

// a hwmon sensor on a chip advertising (or not) a range; readings below / inside / above it
func sensorStartupGenHwmon(rng *Rng) (sensorIn, []string) {
	in := sensorIn{Kind: "hwmon", Startup: true, InitMode: "read"}
	in.N = rng.Pick([]int{1, 2, 3, 5, 10, 10, 20, rng.Range(1, 50)})
	ch := &sensorStartupChip{Index: 1, Decoy: rng.Intn(3), Label: rng.Bool()}
	if ch.Decoy == 1 {
		ch.Index = 2
	}
	ch.DecoyMax = rng.Pick([]int{40000, 45000, 120000})
	ch.DecoyMin = rng.Pick([]int{-20000, 0, 30000})
	lo, hi := rng.Pick([]int{-10000, 0, 5000, 20000}), rng.Pick([]int{55000, 60000, 70000, 85000, 100000})
	attr := rng.Intn(6)
	tags := []string{"startup", "kind=hwmon", "n=" + sensorNBucket(in.N)}
	switch attr {
	case 0:
		tags = append(tags, "attrs=none")
	case 1:
		ch.Max = sensorIntPtr(hi)
		tags = append(tags, "attrs=max")
	case 2:
		ch.Min = sensorIntPtr(lo)
		tags = append(tags, "attrs=min")
	case 3:
		ch.Crit = sensorIntPtr(hi + 10000)
		tags = append(tags, "attrs=crit")
	default:
		ch.Max, ch.Min = sensorIntPtr(hi), sensorIntPtr(lo)
		if rng.Bool() {
			ch.Crit = sensorIntPtr(hi + 10000)
		}
		tags = append(tags, "attrs=max+min")
	}
	in.Chip = ch
	region := func() int64 {
		switch rng.Intn(4) {
		case 0:
			tags = append(tags, "reading=below")
			return int64(lo - rng.Range(1000, 40000))
		case 1:
			tags = append(tags, "reading=above")
			return int64(hi + rng.Range(1000, 40000))
		default:
			tags = append(tags, "reading=inside")
			return int64(rng.Range(lo, hi))
		}
	}
	valid := func() sensorStep { return sensorOkInt(rng, region()) }
	// start-up read: the input file must exist for the chip to expose the sensor at all
	if rng.Chance(1, 6) {
		in.InitStep = sensorFaultStep(rng, "hwmon", false, valid())
		for in.InitStep.Fault == "missing" {
			in.InitStep = sensorFaultStep(rng, "hwmon", false, valid())
		}
		tags = append(tags, "init=fault:"+in.InitStep.Fault)
	} else {
		in.InitStep = valid()
		tags = append(tags, "init=read")
	}
	length := rng.Range(4, 30)
	for len(in.Steps) < length {
		if rng.Chance(1, 8) {
			f := sensorFaultStep(rng, "hwmon", false, valid())
			in.Steps = append(in.Steps, f)
			tags = append(tags, "fault="+f.Fault)
			continue
		}
		v := valid()
		in.Steps = append(in.Steps, v)
		if rng.Chance(1, 3) {
			// a constant run: the average must close in on it, wherever it lies relative to the range
			for k := rng.Range(2, 10); k > 0; k-- {
				in.Steps = append(in.Steps, v)
			}
			tags = append(tags, "constant-run")
		}
	}
	return in, sensorUniq(tags)
}

// file / cmd sensors for the start-up stream: the direct-case generator, start-up read included
func sensorStartupGenOther(rng *Rng, kind string) (sensorIn, []string) {
	for {
		in, tags := sensorGenCase(rng, false, false)
		if in.Kind != kind || in.InitMode != "read" {
			continue
		}
		if len(in.Steps) > 25 {
			in.Steps = in.Steps[:25]
		}
		in.Startup = true
		return in, sensorUniq(append([]string{"startup"}, tags...))
	}
}
