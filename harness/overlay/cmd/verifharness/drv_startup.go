//go:build verif

package main

// driver `startup` (C15) and the fake-fan environment shared with driver
// `parinit` (C16).  Everything here runs the REAL DefaultFanController.Run /
// RunInitializationSequence on real HwMonFan / FileFan / CmdFan objects (temp
// files and root-owned scripts), with the real bbolt persistence on a temp file.
// The harness only (a) answers device reads/writes (file hooks), (b) replaces
// sleeps (virtual clock here, scaled real time in parinit), (c) logs every
// device write, RPM read and persistence call with a sequence number.

import (
	"context"
	"encoding/json"
	"errors"
	"fmt"
	"os"
	"path/filepath"
	"sort"
	"strconv"
	"strings"
	"sync"
	"sync/atomic"
	"time"

	fancmd "github.com/markusressel/fan2go/cmd/fan"
	"github.com/markusressel/fan2go/internal/configuration"
	"github.com/markusressel/fan2go/internal/control_loop"
	"github.com/markusressel/fan2go/internal/controller"
	"github.com/markusressel/fan2go/internal/fans"
	"github.com/markusressel/fan2go/internal/hwmon"
	"github.com/markusressel/fan2go/internal/persistence"
	"github.com/markusressel/fan2go/internal/util"
	"github.com/prometheus/client_golang/prometheus"
	"github.com/spf13/viper"
	bolt "go.etcd.io/bbolt"
)

// ---------------------------------------------------------------- inputs
type startupFanSpec struct {
	Id          int      `json:"id"`
	Kind        string   `json:"kind"` // hwmon | file | cmd
	PwmReadable bool     `json:"pwm_readable"`
	Rpm         bool     `json:"rpm"`
	Dev         [][2]int `json:"dev"`     // device response: a write of w reads back as v; identity where not listed
	HasMap      bool     `json:"has_map"` // configured pwmMap present
	Map         [][2]int `json:"map"`
	Min         *int     `json:"min"`
	Max         *int     `json:"max"`
	SettleMs    int      `json:"settle_ms"` // parinit: (virtual) ms the RPM needs to follow a PWM change
	DelayMs     int      `json:"delay_ms"`  // parinit: (virtual) start delay
	// parinit fault injection: "" | "pwm-write" (PWM writes fail from write number FaultArg on) |
	// "rpm-read" (RPM reads fail while the device shows PWM value FaultArg) | "ctl" (every curve evaluation fails)
	// Discover (hwmon with RPM input only): the fan is bound the way the daemon binds it - a chip directory in a
	// sysfs-like tree, hwmon.GetChips() + UpdateFanConfigFromHwMonControllers(platform, index) at EVERY start - and
	// between two starts of a history the chip directory is renumbered (hwmonN -> hwmonN+1) and another chip appears before it
	Discover bool   `json:"discover,omitempty"`
	Fault    string `json:"fault,omitempty"`
	FaultArg int    `json:"fault_arg,omitempty"`
}
type startupDbEntry struct {
	Id     int      `json:"id"`
	Data   bool     `json:"data"`
	HasMap bool     `json:"has_map"`
	Map    [][2]int `json:"map"`
}
type startupCmd struct {
	Op string `json:"op"` // start | stop | reset | init
	Id int    `json:"id"`
}
type startupIn struct {
	Par   bool `json:"par"`
	Cobra bool `json:"cobra"` // `fan reset` of a file fan goes through the real cobra command with a generated config file
	// Concurrent: every command is a start of a distinct fan and all of them are launched together on the one
	// database file (the way the daemon starts its controllers); HoldMs: a second user of the database file
	// (another fan2go process such as `fan2go fan curve`) has it open for these many ms at a time during start-up
	Concurrent bool  `json:"concurrent"`
	// Cli: the whole history runs the way a user drives fan2go: a fan2go.yaml in one directory, the working directory
	// in another; `fan init` / `fan reset` are the REAL cobra commands of cmd/fan, a start does what the daemon does
	// (load the file through viper, fans.NewFan from the loaded entry, persistence.NewPersistence(loaded dbPath), Run).
	// RelDb: dbPath is written as a relative path ("fan2go.db"), otherwise absolute. File fans only.
	Cli   bool `json:"cli"`
	RelDb bool `json:"rel_db"`
	HoldMs     []int `json:"hold_ms"`
	Fans []startupFanSpec `json:"fans"`
	Db   []startupDbEntry `json:"db"`
	Cmds []startupCmd     `json:"cmds"`
}
type startupStepObs struct {
	Acts    []string `json:"acts"`
	HasData bool     `json:"has_data"`
	HasMap  bool     `json:"has_map"`
	Final   [][2]int `json:"final"` // controller's pwmMap after a start (nil = nil map)
	HasFin  bool     `json:"has_final"`
	Writes  int      `json:"pwm_writes"`
	// C05: after a start, the controller's third-party counter once Cycles control cycles have completed, and whether
	// anything but the controller wrote the fan's files during that start (never, unless a scenario injects it)
	Cycles    int  `json:"cycles"`
	Count     int  `json:"third_party_count"`
	Disturbed bool `json:"disturbed"`
}
type startupObs struct {
	Steps []startupStepObs `json:"steps"`
}

// ---------------------------------------------------------------- environment
type startupEv struct {
	Seq  int
	Fan  int
	Kind string // W (pwm write) E (mode write) R (rpm read) S (sleep) P (persistence) EVAL RET
	Val  int
	Op   string
	Rst  bool // logged while restorePwmEnabled of this fan was running
}

type startupDev struct {
	spec    startupFanSpec
	dir     string
	pwmPath string
	enPath  string
	rpmPath string
	logPath string // cmd fans: the scripts' own log
	logOff  int
	// RPM model: the speed follows the shown PWM value within settle time
	rpmFrom float64
	rpmTo   float64
	rpmT0   time.Duration
	shown     int // what the device shows
	nWrites   int // PWM writes attempted
	restoring int // > 0 while restorePwmEnabled runs
	root      string // Discover: the hwmon tree
	chipNo    int    // Discover: current N of hwmonN
	starts    int    // Discover: starts so far
}

type startupEnv struct {
	mu      sync.Mutex
	seq     int
	events  []startupEv
	byPath  map[string]*startupDev
	devs    map[int]*startupDev
	dir     string
	dbPath  string
	virtual bool
	vnow    time.Duration
	t0      time.Time
	scale   int64 // parinit: real = virtual / scale
	// parinit: close `fired` when fan watchFan has logged its watchN-th event of kind watchKind
	watchFan  int
	watchKind string
	watchN    int
	watchCnt  int
	fired     chan struct{}
}

func startupPairsToMap(p [][2]int) map[int]int {
	m := map[int]int{}
	for _, kv := range p {
		m[kv[0]] = kv[1]
	}
	return m
}
func startupMapToPairs(m map[int]int) [][2]int {
	keys := make([]int, 0, len(m))
	for k := range m {
		keys = append(keys, k)
	}
	sort.Ints(keys)
	res := make([][2]int, 0, len(keys))
	for _, k := range keys {
		res = append(res, [2]int{k, m[k]})
	}
	return res
}

func (e *startupEnv) now() time.Duration {
	if e.virtual {
		return e.vnow
	}
	return time.Since(e.t0) * time.Duration(e.scale)
}

func (e *startupEnv) log(fan int, kind string, val int, op string) int {
	e.seq++
	rst := false
	if d, ok := e.devs[fan]; ok {
		rst = d.restoring > 0
	}
	e.events = append(e.events, startupEv{Seq: e.seq, Fan: fan, Kind: kind, Val: val, Op: op, Rst: rst})
	if e.fired != nil && fan == e.watchFan && kind == e.watchKind {
		e.watchCnt++
		if e.watchCnt == e.watchN {
			close(e.fired)
			e.fired = nil
		}
	}
	return e.seq
}

func (d *startupDev) respond(w int) int {
	for _, kv := range d.spec.Dev {
		if kv[0] == w {
			return kv[1]
		}
	}
	return w
}

func (d *startupDev) rpmAt(now time.Duration) float64 {
	settle := time.Duration(d.spec.SettleMs) * time.Millisecond
	if settle <= 0 {
		return d.rpmTo
	}
	x := float64(now-d.rpmT0) / float64(settle)
	if x >= 1 {
		return d.rpmTo
	}
	if x < 0 {
		x = 0
	}
	return d.rpmFrom + (d.rpmTo-d.rpmFrom)*x
}

func (d *startupDev) shownChanged(e *startupEnv, shown int) {
	now := e.now()
	cur := d.rpmAt(now)
	d.rpmFrom = cur
	d.rpmT0 = now
	if shown <= 0 {
		d.rpmTo = 0
	} else {
		d.rpmTo = float64(300 + 10*shown)
	}
}

func startupNewEnv(dir string, virtual bool, scale int64) *startupEnv {
	real, err := filepath.EvalSymlinks(dir)
	if err == nil {
		dir = real
	}
	e := &startupEnv{byPath: map[string]*startupDev{}, devs: map[int]*startupDev{}, dir: dir,
		dbPath: filepath.Join(dir, "fan2go.db"), virtual: virtual, t0: time.Now(), scale: scale}
	util.VerifAfterWrite = e.afterWrite
	util.VerifReadHook = e.readHook
	util.VerifWriteHook = e.writeHook
	util.VerifMarkHook = e.markHook
	if virtual {
		util.VerifSleepHook = func(d time.Duration) {
			e.mu.Lock()
			e.vnow += d
			e.mu.Unlock()
		}
	} else {
		util.VerifSleepHook = nil
		util.VerifSleepNum = 1
		util.VerifSleepDen = scale
	}
	return e
}

func (e *startupEnv) close() {
	util.VerifAfterWrite = nil
	util.VerifReadHook = nil
	util.VerifWriteHook = nil
	util.VerifMarkHook = nil
	util.VerifSleepHook = nil
	util.VerifSleepNum = 1
	util.VerifSleepDen = 1
}

// writeHook injects write faults (the real write is performed unless a fault answers)
func (e *startupEnv) writeHook(path string, data []byte) (error, bool) {
	e.mu.Lock()
	defer e.mu.Unlock()
	d, ok := e.byPath[path]
	if !ok || path != d.pwmPath {
		return nil, false
	}
	d.nWrites++
	if d.spec.Fault == "pwm-write" && d.nWrites >= d.spec.FaultArg {
		return errors.New("injected write fault"), true
	}
	return nil, false
}

// markHook: begin / end of restorePwmEnabled of a fan ("fan<id>")
func (e *startupEnv) markHook(kind string, id string) {
	n, err := strconv.Atoi(strings.TrimPrefix(id, "fan"))
	if err != nil {
		return
	}
	e.mu.Lock()
	defer e.mu.Unlock()
	if d, ok := e.devs[n]; ok {
		switch kind {
		case "restore-begin":
			d.restoring++
		case "restore-end":
			d.restoring--
		}
	}
}

func (e *startupEnv) afterWrite(path string, data []byte) {
	e.mu.Lock()
	defer e.mu.Unlock()
	d, ok := e.byPath[path]
	if !ok {
		return
	}
	v, err := strconv.Atoi(strings.TrimSpace(string(data)))
	if err != nil {
		return
	}
	switch path {
	case d.pwmPath:
		shown := d.respond(v)
		if shown != v {
			_ = os.WriteFile(path, []byte(strconv.Itoa(shown)), 0644)
		}
		d.shown = shown
		d.shownChanged(e, shown)
		e.log(d.spec.Id, "W", v, "")
	case d.enPath:
		e.log(d.spec.Id, "E", v, "")
	}
}

func (e *startupEnv) readHook(path string) ([]byte, error, bool) {
	e.mu.Lock()
	defer e.mu.Unlock()
	d, ok := e.byPath[path]
	if !ok {
		return nil, nil, false
	}
	switch path {
	case d.rpmPath:
		if d.spec.Fault == "rpm-read" && d.shown == d.spec.FaultArg {
			return nil, errors.New("injected read fault"), true
		}
		rpm := int(d.rpmAt(e.now()))
		e.log(d.spec.Id, "R", rpm, "")
		return []byte(strconv.Itoa(rpm) + "\n"), nil, true
	case d.pwmPath:
		if !d.spec.PwmReadable {
			return nil, os.ErrPermission, true
		}
	}
	return nil, nil, false
}

// flushCmdLog moves what a cmd fan's scripts logged since the last call into the event log
func (e *startupEnv) flushCmdLog(d *startupDev) {
	if d.logPath == "" {
		return
	}
	data, err := os.ReadFile(d.logPath)
	if err != nil {
		return
	}
	e.mu.Lock()
	defer e.mu.Unlock()
	if len(data) <= d.logOff {
		return
	}
	chunk := string(data[d.logOff:])
	last := strings.LastIndex(chunk, "\n")
	if last < 0 {
		return
	}
	for _, line := range strings.Split(chunk[:last], "\n") {
		f := strings.Fields(line)
		if len(f) == 2 && f[0] == "W" {
			v, _ := strconv.Atoi(f[1])
			e.log(d.spec.Id, "W", v, "")
		} else if len(f) >= 1 && f[0] == "R" {
			e.log(d.spec.Id, "R", 1000, "")
		}
	}
	d.logOff += last + 1
}

func startupWriteScript(path, body string) {
	if err := os.WriteFile(path, []byte("#!/bin/sh\n"+body), 0755); err != nil {
		panic(err)
	}
	_ = os.Chmod(path, 0755)
}

// addDevice creates the files / scripts of one fake fan
func (e *startupEnv) addDevice(spec startupFanSpec) *startupDev {
	dir := filepath.Join(e.dir, "fan"+strconv.Itoa(spec.Id))
	root, chipNo := "", 0
	if spec.Discover && spec.Kind == "hwmon" {
		root = filepath.Join(e.dir, "hwroot")
		chipNo = 2 + 100*spec.Id // renumbering never collides with another fan of the fleet
		dir = filepath.Join(root, "hwmon"+strconv.Itoa(chipNo))
	}
	if err := os.MkdirAll(dir, 0755); err != nil {
		panic(err)
	}
	d := &startupDev{spec: spec, dir: dir, root: root, chipNo: chipNo}
	if root != "" {
		_ = os.WriteFile(filepath.Join(dir, "name"), []byte("fakechip"+strconv.Itoa(spec.Id)+"\n"), 0644)
		os.Setenv("VERIF_HWMON_ROOT", root)
	}
	d.pwmPath = filepath.Join(dir, "pwm1")
	_ = os.WriteFile(d.pwmPath, []byte("120"), 0644)
	d.shown = 120
	d.rpmTo = 1500
	d.rpmFrom = 1500
	switch spec.Kind {
	case "hwmon":
		d.enPath = filepath.Join(dir, "pwm1_enable")
		_ = os.WriteFile(d.enPath, []byte("2"), 0644)
		d.rpmPath = filepath.Join(dir, "fan1_input")
		if spec.Rpm {
			_ = os.WriteFile(d.rpmPath, []byte("1500"), 0644)
		}
	case "file":
		if spec.Rpm {
			d.rpmPath = filepath.Join(dir, "rpm")
			_ = os.WriteFile(d.rpmPath, []byte("1500"), 0644)
		}
	case "cmd":
		d.logPath = filepath.Join(dir, "log")
		_ = os.WriteFile(d.logPath, nil, 0644)
		startupWriteScript(filepath.Join(dir, "set.sh"), fmt.Sprintf("echo \"W $1\" >> %s\necho \"$1\" > %s\n", d.logPath, d.pwmPath))
		startupWriteScript(filepath.Join(dir, "get.sh"), fmt.Sprintf("cat %s\n", d.pwmPath))
		startupWriteScript(filepath.Join(dir, "rpm.sh"), fmt.Sprintf("echo R >> %s\necho 1000\n", d.logPath))
	}
	e.mu.Lock()
	e.byPath[d.pwmPath] = d
	if d.enPath != "" {
		e.byPath[d.enPath] = d
	}
	if d.rpmPath != "" {
		e.byPath[d.rpmPath] = d
	}
	e.devs[spec.Id] = d
	e.mu.Unlock()
	return d
}

// moveChip renumbers the chip directory of a discovered fan (hwmonN -> hwmonN+1, as a changed driver load order does)
// and makes another chip appear before it in the enumeration
func (e *startupEnv) moveChip(d *startupDev) {
	other := filepath.Join(d.root, "hwmon0")
	if _, err := os.Stat(other); err != nil {
		_ = os.MkdirAll(other, 0755)
		_ = os.WriteFile(filepath.Join(other, "name"), []byte("otherchip\n"), 0644)
		_ = os.WriteFile(filepath.Join(other, "temp1_input"), []byte("40000\n"), 0644)
	}
	e.mu.Lock()
	defer e.mu.Unlock()
	d.chipNo++
	newDir := filepath.Join(d.root, "hwmon"+strconv.Itoa(d.chipNo))
	if err := os.Rename(d.dir, newDir); err != nil {
		panic(err)
	}
	delete(e.byPath, d.pwmPath)
	delete(e.byPath, d.enPath)
	delete(e.byPath, d.rpmPath)
	d.dir = newDir
	d.pwmPath, d.enPath, d.rpmPath = filepath.Join(newDir, "pwm1"), filepath.Join(newDir, "pwm1_enable"), filepath.Join(newDir, "fan1_input")
	e.byPath[d.pwmPath], e.byPath[d.enPath], e.byPath[d.rpmPath] = d, d, d
}

// newFan builds the real fan object the way a fresh process would (fans.NewFan)
func (d *startupDev) newFan() fans.Fan {
	cfg := configuration.FanConfig{ID: "fan" + strconv.Itoa(d.spec.Id), Curve: "startup_curve"}
	if d.spec.Min != nil {
		v := *d.spec.Min
		cfg.MinPwm = &v
	}
	if d.spec.Max != nil {
		v := *d.spec.Max
		cfg.MaxPwm = &v
	}
	if d.spec.HasMap {
		m := startupPairsToMap(d.spec.Map)
		cfg.PwmMap = &m
	}
	switch d.spec.Kind {
	case "hwmon":
		cfg.HwMon = &configuration.HwMonFanConfig{Platform: "fake", Index: 1, RpmChannel: 1, PwmChannel: 1,
			SysfsPath: d.dir, RpmInputPath: d.rpmPath, PwmPath: d.pwmPath, PwmEnablePath: d.enPath}
		if d.root != "" {
			// as the daemon (internal/backend.go) and the fan commands do: platform + index from the configuration,
			// everything else from the discovered chips
			os.Setenv("VERIF_HWMON_ROOT", d.root)
			cfg.HwMon = &configuration.HwMonFanConfig{Platform: "fakechip" + strconv.Itoa(d.spec.Id), Index: 1}
			if err := hwmon.UpdateFanConfigFromHwMonControllers(hwmon.GetChips(), &cfg); err != nil {
				panic("startup: discovered fan not found: " + err.Error())
			}
			if cfg.HwMon.PwmPath != d.pwmPath {
				panic("startup: discovery bound fan" + strconv.Itoa(d.spec.Id) + " to " + cfg.HwMon.PwmPath + " instead of " + d.pwmPath)
			}
		}
	case "file":
		cfg.File = &configuration.FileFanConfig{Path: d.pwmPath, RpmPath: d.rpmPath}
	case "cmd":
		c := &configuration.CmdFanConfig{SetPwm: &configuration.ExecConfig{Exec: filepath.Join(d.dir, "set.sh"), Args: []string{"%pwm%"}}}
		if d.spec.PwmReadable {
			c.GetPwm = &configuration.ExecConfig{Exec: filepath.Join(d.dir, "get.sh")}
		}
		if d.spec.Rpm {
			c.GetRpm = &configuration.ExecConfig{Exec: filepath.Join(d.dir, "rpm.sh")}
		}
		cfg.Cmd = c
	}
	fan, err := fans.NewFan(cfg)
	if err != nil {
		panic(err)
	}
	return fan
}

// ---- persistence: the real one, every call logged (behaviour-neutral decorator)
type startupPersistence struct {
	inner persistence.Persistence
	env   *startupEnv
	dev   *startupDev
}

func (p *startupPersistence) ev(op string, ok bool) {
	p.env.flushCmdLog(p.dev)
	p.env.mu.Lock()
	v := 0
	if ok {
		v = 1
	}
	p.env.log(p.dev.spec.Id, "P", v, op)
	p.env.mu.Unlock()
}
func (p *startupPersistence) Init() error { return p.inner.Init() }
func (p *startupPersistence) LoadFanPwmData(fan fans.Fan) (map[int]float64, error) {
	m, err := p.inner.LoadFanPwmData(fan)
	p.ev("LD", err == nil)
	return m, err
}
func (p *startupPersistence) SaveFanPwmData(fan fans.Fan) error {
	err := p.inner.SaveFanPwmData(fan)
	p.ev("SD", err == nil)
	return err
}
func (p *startupPersistence) DeleteFanPwmData(fan fans.Fan) error {
	err := p.inner.DeleteFanPwmData(fan)
	p.ev("DD", err == nil)
	return err
}
func (p *startupPersistence) LoadFanPwmMap(fanId string) (map[int]int, error) {
	m, err := p.inner.LoadFanPwmMap(fanId)
	p.ev("LM", err == nil && m != nil)
	return m, err
}
func (p *startupPersistence) SaveFanPwmMap(fanId string, pwmMap map[int]int) error {
	err := p.inner.SaveFanPwmMap(fanId, pwmMap)
	p.ev("SM", err == nil)
	return err
}
func (p *startupPersistence) DeleteFanPwmMap(fanId string) error {
	err := p.inner.DeleteFanPwmMap(fanId)
	p.ev("DM", err == nil)
	return err
}

// ---- a curve whose first evaluation marks the first regulation cycle
type startupCurve struct {
	once  sync.Once
	first chan struct{}
	hook  func()
	fail  bool // every evaluation fails (control-loop fault)
	evals int32
}

func (c *startupCurve) GetId() string { return "startup_curve" }
func (c *startupCurve) Evaluate() (int, error) {
	atomic.AddInt32(&c.evals, 1)
	c.once.Do(func() {
		if c.hook != nil {
			c.hook()
		}
		close(c.first)
	})
	if c.fail {
		return 0, errors.New("injected curve fault")
	}
	return 128, nil
}
func (c *startupCurve) CurrentValue() int { return 128 }

// one running controller
type startupProc struct {
	dev    *startupDev
	ctl    *controller.DefaultFanController
	cancel context.CancelFunc
	done   chan error
	curve  *startupCurve
}

func (e *startupEnv) launch(d *startupDev, updateRate time.Duration) *startupProc {
	return e.launchWith(d, d.newFan(), persistence.NewPersistence(e.dbPath), updateRate)
}

// launchWith: the fan object and the persistence are the caller's (e.g. built from a loaded configuration file)
func (e *startupEnv) launchWith(d *startupDev, fan fans.Fan, inner persistence.Persistence, updateRate time.Duration) *startupProc {
	pers := &startupPersistence{inner: inner, env: e, dev: d}
	curve := &startupCurve{first: make(chan struct{}), fail: d.spec.Fault == "ctl"}
	curve.hook = func() {
		e.flushCmdLog(d)
		e.mu.Lock()
		e.log(d.spec.Id, "EVAL", 0, "")
		e.mu.Unlock()
	}
	ctl := controller.VerifNewController(pers, fan, curve, control_loop.NewDirectControlLoop(nil), updateRate)
	ctx, cancel := context.WithCancel(context.Background())
	p := &startupProc{dev: d, ctl: ctl, cancel: cancel, done: make(chan error, 1), curve: curve}
	go func() {
		var err error
		if pm := catch(func() { err = ctl.Run(ctx) }); pm != "" {
			err = errors.New("panic: " + pm)
		}
		e.flushCmdLog(d)
		e.mu.Lock()
		e.log(d.spec.Id, "RET", 0, "")
		e.mu.Unlock()
		p.done <- err
	}()
	return p
}

// runInitDirect does for one fan what cmd/fan/init.go does (delete both entries, RunInitializationSequence on a
// fresh controller); ready() is called right before the sequence (start barrier of simultaneous runs)
func (e *startupEnv) runInitDirect(d *startupDev, ready func()) error {
	fan := d.newFan()
	pers := &startupPersistence{inner: persistence.NewPersistence(e.dbPath), env: e, dev: d}
	ctl := controller.VerifNewController(pers, fan, &startupCurve{first: make(chan struct{})}, control_loop.NewDirectControlLoop(nil), 2*time.Millisecond)
	err := pers.inner.DeleteFanPwmData(fan)
	if err == nil {
		err = pers.inner.DeleteFanPwmMap(fan.GetId())
	}
	ready()
	if err == nil {
		if pm := catch(func() { err = ctl.RunInitializationSequence() }); pm != "" {
			err = errors.New("panic: " + pm)
		}
	}
	e.flushCmdLog(d)
	e.mu.Lock()
	e.log(d.spec.Id, "RET", 0, "")
	e.mu.Unlock()
	return err
}

// cyclesAndCount waits until n control cycles have completed (the (n+1)-th evaluation has begun) and reads the
// controller's third-party counter
func (p *startupProc) cyclesAndCount(n int) (int, int) {
	deadline := time.Now().Add(10 * time.Second)
	for int(atomic.LoadInt32(&p.curve.evals)) < n+1 && time.Now().Before(deadline) {
		select {
		case err := <-p.done:
			p.done <- err
			deadline = time.Now()
		default:
			time.Sleep(500 * time.Microsecond)
		}
	}
	done := int(atomic.LoadInt32(&p.curve.evals)) - 1
	if done < 0 {
		done = 0
	}
	if done > n {
		done = n
	}
	return done, p.ctl.GetStatistics().UnexpectedPwmValueCount
}

// waitFirstCycle blocks until the first regulation cycle or the return of Run; reports (regulating, err)
func (p *startupProc) waitFirstCycle(timeout time.Duration) (bool, error) {
	select {
	case <-p.curve.first:
		return true, nil
	case err := <-p.done:
		p.done <- err
		return false, err
	case <-time.After(timeout):
		panic("startup: controller neither regulates nor returns")
	}
}

func (p *startupProc) stop() {
	p.cancel()
	select {
	case <-p.done:
	case <-time.After(20 * time.Second):
		panic("startup: controller does not stop")
	}
}

// dbFlags reads the stored entries of one fan through the real persistence
func (e *startupEnv) dbFlags(d *startupDev) (bool, bool) {
	p := persistence.NewPersistence(e.dbPath)
	fan := d.newFan()
	_, err1 := p.LoadFanPwmData(fan)
	m, err2 := p.LoadFanPwmMap(fan.GetId())
	return err1 == nil, err2 == nil && m != nil
}

// preload stores what an earlier session would have left behind
func (e *startupEnv) preload(d *startupDev, ent startupDbEntry) {
	p := persistence.NewPersistence(e.dbPath)
	if err := p.Init(); err != nil {
		panic(err)
	}
	if ent.Data {
		data := map[int]float64{}
		for i := 0; i <= 255; i += 15 {
			data[i] = float64(300 + 10*i)
		}
		data[0] = 0
		var fan fans.Fan = d.newFan()
		if hw, ok := fan.(*fans.HwMonFan); ok {
			hw.FanCurveData = &data
		}
		if err := p.SaveFanPwmData(fan); err != nil {
			panic(err)
		}
	}
	if ent.HasMap {
		if err := p.SaveFanPwmMap("fan"+strconv.Itoa(d.spec.Id), startupPairsToMap(ent.Map)); err != nil {
			panic(err)
		}
	}
}

// classify turns the logged events of one fan (from index `from`) into the observable actions
func (e *startupEnv) classify(fanId int, from int) ([]string, int) {
	e.mu.Lock()
	evs := append([]startupEv{}, e.events[from:]...)
	e.mu.Unlock()
	var mine []startupEv
	for _, ev := range evs {
		if ev.Fan != fanId {
			continue
		}
		if ev.Kind == "W" || ev.Kind == "R" || ev.Kind == "P" || ev.Kind == "EVAL" || ev.Kind == "RET" {
			mine = append(mine, ev)
		}
	}
	acts := []string{}
	measured := false
	writes := 0
	for i := 0; i < len(mine); i++ {
		ev := mine[i]
		switch ev.Kind {
		case "EVAL":
			acts = append(acts, "Regulate")
			return acts, writes
		case "RET":
			return acts, writes
		case "P":
			switch {
			case ev.Op == "LD" && ev.Val == 1:
				acts = append(acts, "LoadedData")
			case ev.Op == "LM" && ev.Val == 1:
				acts = append(acts, "LoadedMap")
			case ev.Op == "SD" && ev.Val == 1:
				acts = append(acts, "SavedData")
			case ev.Op == "SM" && ev.Val == 1:
				acts = append(acts, "SavedMap")
			}
		case "R":
			if !measured {
				measured = true
				acts = append(acts, "MeasureRpm")
			}
		case "W":
			writes++
			if ev.Val == 255 && i+255 < len(mine) {
				full := true
				for k := 1; k <= 255; k++ {
					if mine[i+k].Kind != "W" || mine[i+k].Val != 255-k {
						full = false
						break
					}
				}
				if full {
					acts = append(acts, "Sweep")
					writes += 255
					i += 255
				}
			}
		}
	}
	return acts, writes
}

func startupSetGlobals(par bool) {
	configuration.CurrentConfig.RunFanInitializationInParallel = par
	configuration.CurrentConfig.MaxRpmDiffForSettledFan = 20
	configuration.CurrentConfig.FanResponseDelay = 2
	configuration.CurrentConfig.RpmRollingWindowSize = 10
	configuration.CurrentConfig.TempSensorPollingRate = 200 * time.Millisecond
	configuration.CurrentConfig.RpmPollingRate = time.Hour // the RPM monitor never ticks: every RPM read before the first cycle is the measurement's
	configuration.CurrentConfig.ControllerAdjustmentTickRate = 2 * time.Millisecond
}

// ---------------------------------------------------------------- one case
var startupCaseNo int

func startupRun(ctx *Ctx, in startupIn) startupObs {
	startupCaseNo++
	dir := filepath.Join(ctx.WorkDir, "case"+strconv.Itoa(startupCaseNo))
	if err := os.MkdirAll(dir, 0755); err != nil {
		panic(err)
	}
	defer os.RemoveAll(dir)
	env := startupNewEnv(dir, true, 1)
	defer env.close()
	if in.Cli {
		return startupRunCli(env, in)
	}
	startupSetGlobals(in.Par)
	configuration.CurrentConfig.DbPath = env.dbPath // as in the daemon: the database the controllers use is the configured one
	for _, f := range in.Fans {
		env.addDevice(f)
	}
	for _, ent := range in.Db {
		if d, ok := env.devs[ent.Id]; ok {
			env.preload(d, ent)
		}
	}
	if in.Concurrent {
		return startupRunConcurrent(env, in)
	}
	running := map[int]*startupProc{}
	stop := func(id int) {
		if p, ok := running[id]; ok {
			p.stop()
			delete(running, id)
		}
	}
	var obs startupObs
	for _, c := range in.Cmds {
		d, ok := env.devs[c.Id]
		if !ok {
			obs.Steps = append(obs.Steps, startupStepObs{Acts: []string{}})
			continue
		}
		tStep := time.Now()
		stop(c.Id) // a second process for the same fan is never started while one runs
		env.mu.Lock()
		from := len(env.events)
		env.mu.Unlock()
		step := startupStepObs{Acts: []string{}}
		switch c.Op {
		case "start":
			if d.root != "" {
				if d.starts > 0 {
					env.moveChip(d)
				}
				d.starts++
			}
			p := env.launch(d, 2*time.Millisecond)
			reg, err := p.waitFirstCycle(60 * time.Second)
			step.Acts, step.Writes = env.classify(c.Id, from)
			if !reg {
				<-p.done
				if err != nil {
					step.Acts = append(step.Acts, "Err")
				}
			} else {
				running[c.Id] = p
			}
			if pm := p.ctl.VerifPwmMap(); pm != nil {
				step.Final = startupMapToPairs(pm)
				step.HasFin = true
			}
			if reg {
				step.Cycles, step.Count = p.cyclesAndCount(3)
			}
		case "stop":
		case "reset":
			if in.Cobra && d.spec.Kind == "file" {
				startupCobraReset(env, d)
				startupSetGlobals(in.Par) // LoadConfig replaced configuration.CurrentConfig
				configuration.CurrentConfig.DbPath = env.dbPath
			} else {
				// cmd/fan/reset.go: DeleteFanPwmData, DeleteFanPwmMap
				p := persistence.NewPersistence(env.dbPath)
				fan := d.newFan()
				if err := p.DeleteFanPwmData(fan); err == nil {
					_ = p.DeleteFanPwmMap(fan.GetId())
				}
			}
		case "init":
			// cmd/fan/init.go: delete both entries, then RunInitializationSequence on a fresh controller
			fan := d.newFan()
			pers := &startupPersistence{inner: persistence.NewPersistence(env.dbPath), env: env, dev: d}
			ctl := controller.VerifNewController(pers, fan, &startupCurve{first: make(chan struct{})}, control_loop.NewDirectControlLoop(nil), 2*time.Millisecond)
			var err error
			if err = pers.inner.DeleteFanPwmData(fan); err == nil {
				if err = pers.inner.DeleteFanPwmMap(fan.GetId()); err == nil {
					err = ctl.RunInitializationSequence()
				}
			}
			env.flushCmdLog(d)
			step.Acts, step.Writes = env.classify(c.Id, from)
			if err != nil {
				step.Acts = append(step.Acts, "Err")
			}
		}
		tCmd := time.Since(tStep)
		step.HasData, step.HasMap = env.dbFlags(d)
		obs.Steps = append(obs.Steps, step)
		if os.Getenv("STARTUP_TIMING") != "" {
			fmt.Fprintf(os.Stderr, "case %d %s %s fan%d: cmd %v flags %v acts %v\n", startupCaseNo, c.Op, d.spec.Kind, c.Id, tCmd, time.Since(tStep)-tCmd, step.Acts)
		}
	}
	for id := range running {
		stop(id)
	}
	return obs
}

// startupCobraReset runs the real `fan2go fan reset --id <fan>` command on a generated configuration file
func startupCobraReset(env *startupEnv, d *startupDev) {
	temp := filepath.Join(env.dir, "temp_input")
	_ = os.WriteFile(temp, []byte("40000"), 0644)
	id := "fan" + strconv.Itoa(d.spec.Id)
	yaml := "dbPath: " + env.dbPath + "\n" +
		"fans:\n  - id: " + id + "\n    curve: c1\n    file:\n      path: " + d.pwmPath + "\n"
	if d.rpmPath != "" {
		yaml += "      rpmPath: " + d.rpmPath + "\n"
	}
	yaml += "sensors:\n  - id: s1\n    file:\n      path: " + temp + "\n" +
		"curves:\n  - id: c1\n    linear:\n      sensor: s1\n      min: 40\n      max: 80\n"
	cfg := filepath.Join(env.dir, "fan2go.yaml")
	if err := os.WriteFile(cfg, []byte(yaml), 0644); err != nil {
		panic(err)
	}
	configuration.InitConfig(cfg)
	fancmd.Command.SetArgs([]string{"reset", "--id", id})
	if err := fancmd.Command.Execute(); err != nil {
		panic("cobra fan reset: " + err.Error())
	}
}

// ---- the history as a user drives it: configuration file, working directory elsewhere, real cobra commands ----
func startupCliLoad(cfg string) {
	viper.Reset()
	configuration.InitConfig(cfg)
	if used := configuration.DetectAndReadConfigFile(); used != cfg {
		panic("startup-cli: unexpected configuration file " + used)
	}
	configuration.LoadConfig()
	if err := configuration.Validate(cfg); err != nil {
		panic("startup-cli: generated configuration does not validate: " + err.Error())
	}
}

func startupRunCli(env *startupEnv, in startupIn) startupObs {
	etc := filepath.Join(env.dir, "etc")
	work := filepath.Join(env.dir, "work")
	for _, dir := range []string{etc, work, filepath.Join(env.dir, "var")} {
		if err := os.MkdirAll(dir, 0755); err != nil {
			panic(err)
		}
	}
	dbSetting := filepath.Join(env.dir, "var", "fan2go.db")
	env.dbPath = dbSetting
	if in.RelDb {
		dbSetting = "fan2go.db"
		env.dbPath = filepath.Join(work, "fan2go.db") // what a relative path means to every part of the unchanged program: relative to the working directory
	}
	for _, f := range in.Fans {
		if f.Kind != "file" {
			panic("startup-cli: file fans only")
		}
		env.addDevice(f)
	}
	old, err := os.Getwd()
	if err != nil {
		panic(err)
	}
	if err := os.Chdir(work); err != nil {
		panic(err)
	}
	defer os.Chdir(old)
	for _, ent := range in.Db {
		if d, ok := env.devs[ent.Id]; ok {
			env.preload(d, ent)
		}
	}
	temp := filepath.Join(env.dir, "temp_input")
	_ = os.WriteFile(temp, []byte("40000"), 0644)
	yaml := "dbPath: " + dbSetting + "\n" +
		"runFanInitializationInParallel: " + cBool(in.Par) + "\n" +
		"maxRpmDiffForSettledFan: 20.0\nfanResponseDelay: 2\ntempSensorPollingRate: 200ms\ntempRollingWindowSize: 10\n" +
		"rpmPollingRate: 1h\nrpmRollingWindowSize: 10\ncontrollerAdjustmentTickRate: 2ms\n" +
		"sensors:\n  - id: s1\n    file:\n      path: " + temp + "\n" +
		"curves:\n  - id: startup_curve\n    linear:\n      sensor: s1\n      min: 40\n      max: 80\n" +
		"fans:\n"
	for _, f := range in.Fans {
		d := env.devs[f.Id]
		yaml += "  - id: fan" + strconv.Itoa(f.Id) + "\n    curve: startup_curve\n    file:\n      path: " + d.pwmPath + "\n"
		if d.rpmPath != "" {
			yaml += "      rpmPath: " + d.rpmPath + "\n"
		}
	}
	cfg := filepath.Join(etc, "fan2go.yaml")
	if err := os.WriteFile(cfg, []byte(yaml), 0644); err != nil {
		panic(err)
	}
	defer func() { persistence.VerifWrapHook = nil }()
	running := map[int]*startupProc{}
	stop := func(id int) {
		if p, ok := running[id]; ok {
			p.stop()
			delete(running, id)
		}
	}
	cobra := func(d *startupDev, op string) error {
		persistence.VerifWrapHook = func(p persistence.Persistence) persistence.Persistence {
			return &startupPersistence{inner: p, env: env, dev: d}
		}
		viper.Reset()
		configuration.InitConfig(cfg)
		// every CLI invocation is a process of its own: its metric collectors are registered once per process
		prometheus.DefaultRegisterer = prometheus.NewRegistry()
		fancmd.Command.SetArgs([]string{op, "--id", "fan" + strconv.Itoa(d.spec.Id)})
		var err error
		if pm := catch(func() { err = fancmd.Command.Execute() }); pm != "" {
			err = errors.New("panic: " + pm)
		}
		persistence.VerifWrapHook = nil
		return err
	}
	var obs startupObs
	for _, c := range in.Cmds {
		d, ok := env.devs[c.Id]
		if !ok {
			obs.Steps = append(obs.Steps, startupStepObs{Acts: []string{}})
			continue
		}
		stop(c.Id)
		env.mu.Lock()
		from := len(env.events)
		env.mu.Unlock()
		step := startupStepObs{Acts: []string{}}
		switch c.Op {
		case "start":
			// what internal.RunDaemon does for this fan
			startupCliLoad(cfg)
			var fan fans.Fan
			for _, fc := range configuration.CurrentConfig.Fans {
				if fc.ID == "fan"+strconv.Itoa(c.Id) {
					f, err := fans.NewFan(fc)
					if err != nil {
						panic(err)
					}
					fan = f
				}
			}
			if fan == nil {
				panic("startup-cli: fan not in the loaded configuration")
			}
			p := env.launchWith(d, fan, persistence.NewPersistence(configuration.CurrentConfig.DbPath), 2*time.Millisecond)
			reg, err := p.waitFirstCycle(60 * time.Second)
			step.Acts, step.Writes = env.classify(c.Id, from)
			if !reg {
				<-p.done
				if err != nil {
					step.Acts = append(step.Acts, "Err")
				}
			} else {
				running[c.Id] = p
			}
			if pm := p.ctl.VerifPwmMap(); pm != nil {
				step.Final = startupMapToPairs(pm)
				step.HasFin = true
			}
			if reg {
				step.Cycles, step.Count = p.cyclesAndCount(3)
			}
		case "stop":
		case "reset":
			if err := cobra(d, "reset"); err != nil {
				panic("cobra fan reset: " + err.Error())
			}
		case "init":
			err := cobra(d, "init")
			step.Acts, step.Writes = env.classify(c.Id, from)
			if err != nil {
				step.Acts = append(step.Acts, "Err")
				if os.Getenv("STARTUP_TIMING") != "" {
					fmt.Fprintln(os.Stderr, "cobra fan init:", err)
				}
			}
		}
		// the stored entries as the CLI sees them (dbPath exactly as configured, from the working directory)
		startupCliLoad(cfg)
		p := persistence.NewPersistence(configuration.CurrentConfig.DbPath)
		fan := d.newFan()
		_, err1 := p.LoadFanPwmData(fan)
		m, err2 := p.LoadFanPwmMap(fan.GetId())
		step.HasData, step.HasMap = err1 == nil, err2 == nil && m != nil
		obs.Steps = append(obs.Steps, step)
	}
	for id := range running {
		stop(id)
	}
	return obs
}

func startupGenCli(rng *Rng, rel bool) (startupIn, []string) {
	in := startupIn{Par: rng.Bool(), Cli: true, RelDb: rel}
	tags := []string{"cli", "kind=file"}
	if rel {
		tags = append(tags, "dbpath-relative")
	} else {
		tags = append(tags, "dbpath-absolute")
	}
	nf := rng.Range(1, 2)
	for id := 1; id <= nf; id++ {
		f := startupFanSpec{Id: id, Kind: "file", PwmReadable: true, Rpm: rng.Chance(2, 3)}
		f.Dev, _ = startupGenDev(rng)
		in.Fans = append(in.Fans, f)
	}
	id := rng.Range(1, nf)
	// the histories the property names: init then start; start, restart; reset then start
	switch rng.Intn(3) {
	case 0:
		in.Cmds = []startupCmd{{"init", id}, {"start", id}, {"stop", id}, {"start", id}, {"reset", id}, {"start", id}}
	case 1:
		in.Cmds = []startupCmd{{"start", id}, {"stop", id}, {"start", id}, {"stop", id}, {"init", id}, {"start", id}}
	default:
		in.Cmds = []startupCmd{{"start", id}, {"stop", id}, {"reset", id}, {"start", id}, {"stop", id}, {"init", id}, {"start", id}, {"stop", id}, {"start", id}}
	}
	if nf == 2 {
		other := 3 - id
		in.Cmds = append([]startupCmd{{"start", other}}, in.Cmds...)
		in.Cmds = append(in.Cmds, startupCmd{"stop", other}, startupCmd{"start", other})
	}
	return in, tags
}

// startupRunConcurrent launches the controllers of all commands (starts of distinct fans) together on the one
// bbolt file, optionally while another user of the file keeps opening it. The observation has the shape of
// the sequential one: one step per command, in command order.
func startupRunConcurrent(env *startupEnv, in startupIn) startupObs {
	env.mu.Lock()
	from := len(env.events)
	env.mu.Unlock()
	holderDone := make(chan struct{})
	if len(in.HoldMs) > 0 {
		first := make(chan struct{})
		go func() {
			defer close(holderDone)
			for i, ms := range in.HoldMs {
				db, err := bolt.Open(env.dbPath, 0600, &bolt.Options{Timeout: time.Minute})
				if i == 0 {
					close(first)
				}
				if err == nil {
					time.Sleep(time.Duration(ms) * time.Millisecond)
					_ = db.Close()
				}
				// waiting openers poll the file lock every 50 ms: leave them a window
				time.Sleep(80 * time.Millisecond)
			}
		}()
		<-first
	} else {
		close(holderDone)
	}
	procs := make([]*startupProc, len(in.Cmds))
	for i, c := range in.Cmds {
		if d, ok := env.devs[c.Id]; ok && c.Op == "start" {
			procs[i] = env.launch(d, 2*time.Millisecond)
		}
	}
	var obs startupObs
	regs := make([]bool, len(in.Cmds))
	errs := make([]error, len(in.Cmds))
	for i, p := range procs {
		if p != nil {
			regs[i], errs[i] = p.waitFirstCycle(180 * time.Second)
		}
	}
	for i, c := range in.Cmds {
		step := startupStepObs{Acts: []string{}}
		p := procs[i]
		if p == nil {
			obs.Steps = append(obs.Steps, step)
			continue
		}
		step.Acts, step.Writes = env.classify(c.Id, from)
		if !regs[i] {
			<-p.done
			if errs[i] != nil {
				step.Acts = append(step.Acts, "Err")
			}
		}
		if pm := p.ctl.VerifPwmMap(); pm != nil {
			step.Final = startupMapToPairs(pm)
			step.HasFin = true
		}
		if regs[i] {
			step.Cycles, step.Count = p.cyclesAndCount(3)
		}
		obs.Steps = append(obs.Steps, step)
	}
	for i, p := range procs {
		if p != nil && regs[i] {
			p.stop()
		}
	}
	<-holderDone
	for i, c := range in.Cmds {
		if d, ok := env.devs[c.Id]; ok && procs[i] != nil {
			obs.Steps[i].HasData, obs.Steps[i].HasMap = env.dbFlags(d)
		}
	}
	return obs
}

// startupGenConcurrent: K already analysed fans (RPM data and PWM map stored for each, hwmon and file mixed)
// whose controllers start together; with or without a second user of the database file
func startupGenConcurrent(rng *Rng, k int, hold bool) (startupIn, []string) {
	in := startupIn{Par: rng.Bool(), Concurrent: true}
	tags := []string{"concurrent", "concurrent-k=" + itoa(k)}
	for id := 1; id <= k; id++ {
		f := startupFanSpec{Id: id, Kind: "hwmon", PwmReadable: true, Rpm: true}
		if rng.Chance(1, 3) {
			f.Kind = "file"
		}
		f.Dev, _ = startupGenDev(rng)
		in.Fans = append(in.Fans, f)
		ent := startupDbEntry{Id: id, Data: true, HasMap: true}
		for w := 0; w <= 255; w++ {
			ent.Map = append(ent.Map, [2]int{w, startupDevApply(f.Dev, w)})
		}
		in.Db = append(in.Db, ent)
		in.Cmds = append(in.Cmds, startupCmd{"start", id})
	}
	if hold {
		n := rng.Range(2, 4)
		for i := 0; i < n; i++ {
			in.HoldMs = append(in.HoldMs, rng.Range(50, 300))
		}
		tags = append(tags, "db-held-by-second-user")
	}
	return in, tags
}

// ---------------------------------------------------------------- Coq rendering
func startupCPairs(p [][2]int) string {
	s := make([]string, len(p))
	for i, kv := range p {
		s[i] = "(" + cZ(kv[0]) + ", " + cZ(kv[1]) + ")"
	}
	return cList(s)
}
func startupCOptMap(has bool, p [][2]int) string {
	if !has {
		return "None"
	}
	return "(Some " + startupCPairs(p) + ")"
}
func startupCKind(k string) string {
	switch k {
	case "hwmon":
		return "HwMon"
	case "file":
		return "FileK"
	}
	return "CmdK"
}
func startupCFan(f startupFanSpec, par bool) string {
	return "(" + cZ(f.Id) + ", (mkFanCfg " + startupCKind(f.Kind) + " " + startupCOptMap(f.HasMap, f.Map) + " " + cOptZ(f.Min) + " " + cOptZ(f.Max) + " " + cBool(par) +
		", mkCaps " + cBool(f.PwmReadable) + " " + cBool(f.Rpm) + " " + startupCPairs(f.Dev) + "))"
}
func startupCoq(in startupIn, obs startupObs) string {
	fl := make([]string, len(in.Fans))
	for i, f := range in.Fans {
		fl[i] = startupCFan(f, in.Par)
	}
	db := make([]string, len(in.Db))
	for i, e := range in.Db {
		db[i] = "(" + cZ(e.Id) + ", mkEntry " + cBool(e.Data) + " " + startupCOptMap(e.HasMap, e.Map) + ")"
	}
	cm := make([]string, len(in.Cmds))
	for i, c := range in.Cmds {
		cm[i] = map[string]string{"start": "Start ", "stop": "Stop ", "reset": "Reset ", "init": "Init "}[c.Op] + cZ(c.Id)
	}
	st := make([]string, len(obs.Steps))
	for i, s := range obs.Steps {
		st[i] = "mkOStep " + cList(s.Acts) + " " + cBool(s.HasData) + " " + cBool(s.HasMap) + " " + startupCOptMap(s.HasFin, s.Final)
	}
	c05 := make([]string, len(obs.Steps))
	for i, s := range obs.Steps {
		c05[i] = "(" + cBool(s.Disturbed) + ", " + cZ(s.Cycles) + ", " + cZ(s.Count) + ")"
	}
	return cRec("mkCase", cList(fl), cList(db), cList(cm), cList(st), cList(c05))
}

// ---------------------------------------------------------------- generators
func startupIdentityPairs() [][2]int {
	p := make([][2]int, 256)
	for i := range p {
		p[i] = [2]int{i, i}
	}
	return p
}

// idempotent device responses: identity, quantiser, clamp, coarse levels
func startupGenDev(rng *Rng) ([][2]int, string) {
	switch rng.Intn(5) {
	case 0, 1:
		return [][2]int{}, "dev-identity"
	case 2:
		q := rng.Pick([]int{2, 5, 16, 51, 64, 85})
		var p [][2]int
		for w := 0; w <= 255; w++ {
			if (w/q)*q != w {
				p = append(p, [2]int{w, (w / q) * q})
			}
		}
		return p, "dev-quant"
	case 3:
		lo := rng.Range(1, 60)
		var p [][2]int
		for w := 0; w < lo; w++ {
			p = append(p, [2]int{w, lo})
		}
		return p, "dev-floor"
	default:
		levels := []int{0, 128, 255}
		var p [][2]int
		for w := 0; w <= 255; w++ {
			best := levels[0]
			for _, l := range levels {
				if l <= w {
					best = l
				}
			}
			if best != w {
				p = append(p, [2]int{w, best})
			}
		}
		return p, "dev-levels"
	}
}

func startupDevApply(dev [][2]int, w int) int {
	for _, kv := range dev {
		if kv[0] == w {
			return kv[1]
		}
	}
	return w
}

// a user map: mostly consistent with the device (outputs are values the device shows), sometimes not
func startupGenMap(rng *Rng, dev [][2]int) ([][2]int, string) {
	switch rng.Intn(6) {
	case 0:
		return [][2]int{{0, 0}, {64, 128}, {192, 255}}, "map-readme"
	case 1:
		return startupIdentityPairs(), "map-identity"
	case 2:
		// hostile: outputs the device does not show / out of range
		return [][2]int{{0, 3}, {100, 300}, {255, 77}}, "map-hostile"
	case 3:
		// (an empty map is not generated: regulation indexes an empty slice, which is C11's business)
		v := startupDevApply(dev, rng.Range(0, 255))
		return [][2]int{{rng.Range(0, 255), v}}, "map-single"
	default:
		n := rng.Range(2, 9)
		set := map[int]bool{}
		for len(set) < n {
			set[rng.Range(0, 255)] = true
		}
		var ks []int
		for k := range set {
			ks = append(ks, k)
		}
		sort.Ints(ks)
		var p [][2]int
		for _, k := range ks {
			p = append(p, [2]int{k, startupDevApply(dev, rng.Range(0, 255))})
		}
		return p, "map-sparse"
	}
}

func startupGenFan(rng *Rng, id int, allowCmdSweep bool) (startupFanSpec, []string) {
	f := startupFanSpec{Id: id}
	var tags []string
	switch rng.Intn(10) {
	case 0, 1, 2, 3, 4, 5:
		f.Kind = "hwmon"
	case 6, 7, 8:
		f.Kind = "file"
	default:
		f.Kind = "cmd"
	}
	tags = append(tags, "kind="+f.Kind)
	f.PwmReadable = rng.Chance(4, 5)
	f.Rpm = rng.Chance(4, 5)
	if f.Kind == "cmd" {
		f.Dev = [][2]int{}
		if f.PwmReadable && !allowCmdSweep {
			f.PwmReadable = false
		}
	} else {
		var t string
		f.Dev, t = startupGenDev(rng)
		tags = append(tags, t)
	}
	if rng.Chance(1, 4) {
		var t string
		f.HasMap = true
		f.Map, t = startupGenMap(rng, f.Dev)
		tags = append(tags, "cfgmap", t)
	}
	switch rng.Intn(6) {
	case 0, 1:
		lo, hi := rng.Range(0, 100), rng.Range(150, 255)
		f.Min, f.Max = &lo, &hi
		tags = append(tags, "minmax")
	case 2:
		lo := rng.Range(0, 100)
		f.Min = &lo
		tags = append(tags, "min-only")
	case 3:
		hi := rng.Range(150, 255)
		f.Max = &hi
		tags = append(tags, "max-only")
	}
	if f.Kind == "hwmon" && f.Rpm && rng.Bool() {
		f.Discover = true
		tags = append(tags, "hwmon-discovered+renumbered")
	}
	if !f.PwmReadable {
		tags = append(tags, "pwm-unreadable")
	}
	if !f.Rpm {
		tags = append(tags, "no-rpm")
	}
	return f, tags
}

func startupGenCase(rng *Rng, cmdSweepBudget *int) (startupIn, []string) {
	in := startupIn{Par: rng.Bool()}
	var tags []string
	nf := rng.Pick([]int{1, 1, 2, 2, 3})
	for i := 1; i <= nf; i++ {
		allow := *cmdSweepBudget > 0
		f, t := startupGenFan(rng, i, allow)
		if f.Kind == "cmd" && f.PwmReadable {
			*cmdSweepBudget--
		}
		in.Fans = append(in.Fans, f)
		tags = append(tags, t...)
		// what an earlier session left behind
		switch rng.Intn(6) {
		case 0, 1:
			// both stored (map as a sweep of this device would have produced it, or a foreign one)
			ent := startupDbEntry{Id: i, Data: true, HasMap: true}
			if rng.Chance(3, 4) {
				for w := 0; w <= 255; w++ {
					ent.Map = append(ent.Map, [2]int{w, startupDevApply(f.Dev, w)})
				}
			} else {
				ent.Map, _ = startupGenMap(rng, f.Dev)
				if len(ent.Map) == 0 {
					ent.Map = [][2]int{{0, 0}, {255, 255}}
				}
			}
			in.Db = append(in.Db, ent)
			tags = append(tags, "db-both")
		case 2:
			in.Db = append(in.Db, startupDbEntry{Id: i, Data: true})
			tags = append(tags, "db-data-only")
		case 3:
			in.Db = append(in.Db, startupDbEntry{Id: i, HasMap: true, Map: [][2]int{{0, 0}, {100, startupDevApply(f.Dev, 100)}, {255, startupDevApply(f.Dev, 255)}}})
			tags = append(tags, "db-map-only")
		default:
			tags = append(tags, "db-empty")
		}
	}
	n := rng.Range(2, 7)
	for i := 0; i < n; i++ {
		id := rng.Range(1, nf)
		switch x := rng.Intn(12); {
		case x < 6:
			in.Cmds = append(in.Cmds, startupCmd{"start", id})
		case x < 8:
			in.Cmds = append(in.Cmds, startupCmd{"stop", id})
		case x < 10:
			in.Cmds = append(in.Cmds, startupCmd{"reset", id})
		default:
			in.Cmds = append(in.Cmds, startupCmd{"init", id})
		}
	}
	in.Cobra = rng.Bool()
	// every case ends with two consecutive starts of one fan: the second one is a restart
	id := rng.Range(1, nf)
	in.Cmds = append(in.Cmds, startupCmd{"start", id}, startupCmd{"stop", id}, startupCmd{"start", id})
	return in, tags
}

func startupObsTags(in startupIn, obs startupObs) ([]string, bool) {
	var tags []string
	starts := 0
	seen := map[string]bool{}
	add := func(t string) {
		if !seen[t] {
			seen[t] = true
			tags = append(tags, t)
		}
	}
	kinds := map[int]string{}
	for _, f := range in.Fans {
		kinds[f.Id] = f.Kind
	}
	for i, c := range in.Cmds {
		add("cmd-" + c.Op)
		if c.Op == "reset" && in.Cobra && kinds[c.Id] == "file" {
			add("cobra-fan-reset")
		}
		if i >= len(obs.Steps) {
			continue
		}
		if c.Op == "start" {
			starts++
		}
		for _, a := range obs.Steps[i].Acts {
			add("obs-" + c.Op + "-" + a)
		}
		if c.Op == "start" && obs.Steps[i].Cycles > 0 {
			add("c05-cycles-after-start=" + itoa(obs.Steps[i].Cycles))
			if obs.Steps[i].Count > 0 {
				add("c05-third-party-counted")
			}
		}
	}
	return tags, starts >= 2
}

func init() {
	drivers["startup"] = func(ctx *Ctx) {
		emit := func(in startupIn, tags ...string) {
			obs := startupRun(ctx, in)
			ot, nontrivial := startupObsTags(in, obs)
			ctx.Emit(Record{In: in, Obs: obs, Coq: startupCoq(in, obs), Tags: append(tags, ot...), NonTrv: nontrivial})
		}
		for _, raw := range append(ctx.Corpus, ctx.Replay...) {
			var in startupIn
			if json.Unmarshal(raw, &in) == nil && len(in.Fans) > 0 {
				emit(in, "corpus")
			}
		}
		if ctx.Replay != nil {
			return
		}
		rng := NewRng(ctx.Seed, "startup")
		// (a) the systematic grid: kind x pwm readable x rpm x cfg map x min+max x stored state, each: start, stop, start
		id := func(v int) *int { return &v }
		for _, kind := range []string{"hwmon", "file", "cmd"} {
			for _, readable := range []bool{true, false} {
				if kind == "cmd" && readable {
					continue // one cmd sweep costs 512 process launches; covered once below
				}
				for _, rpm := range []bool{true, false} {
					for _, cfgmap := range []bool{false, true} {
						for _, mm := range []bool{false, true} {
							for dbs := 0; dbs < 4; dbs++ {
								f := startupFanSpec{Id: 1, Kind: kind, PwmReadable: readable, Rpm: rpm, Dev: [][2]int{}}
								f.Discover = kind == "hwmon" && rpm && rng.Bool()
								if kind != "cmd" && rng.Bool() {
									f.Dev, _ = startupGenDev(rng)
								}
								if cfgmap {
									f.HasMap = true
									f.Map = [][2]int{{0, 0}, {64, startupDevApply(f.Dev, 128)}, {192, startupDevApply(f.Dev, 255)}}
								}
								if mm {
									f.Min, f.Max = id(30), id(220)
								}
								in := startupIn{Par: rng.Bool(), Cobra: kind == "file", Fans: []startupFanSpec{f}}
								ent := startupDbEntry{Id: 1, Data: dbs&1 != 0, HasMap: dbs&2 != 0}
								if ent.HasMap {
									for w := 0; w <= 255; w++ {
										ent.Map = append(ent.Map, [2]int{w, startupDevApply(f.Dev, w)})
									}
								}
								if dbs != 0 {
									in.Db = []startupDbEntry{ent}
								}
								in.Cmds = []startupCmd{{"start", 1}, {"stop", 1}, {"start", 1}}
								if rng.Chance(1, 3) {
									in.Cmds = append(in.Cmds, startupCmd{"reset", 1}, startupCmd{"start", 1})
								} else if rng.Chance(1, 3) {
									in.Cmds = append(in.Cmds, startupCmd{"init", 1}, startupCmd{"start", 1})
								}
								emit(in, "grid", "kind="+kind)
							}
						}
					}
				}
			}
		}
		// one cmd fan that can read its PWM back (sweeps through the scripts)
		emit(startupIn{Par: false, Fans: []startupFanSpec{{Id: 1, Kind: "cmd", PwmReadable: true, Rpm: true, Dev: [][2]int{}}},
			Cmds: []startupCmd{{"start", 1}, {"stop", 1}, {"start", 1}}}, "grid", "kind=cmd", "cmd-sweep")
		// (a') already analysed fans whose controllers start together on ONE database file (as the daemon starts them),
		// half of them while a second user of the file has it open: stored data must still be found and reused
		nc := ctx.Param("nc", 10)
		if !ctx.Quick() {
			nc = ctx.Param("nc", 80)
		}
		for i := 0; i < nc; i++ {
			in, tags := startupGenConcurrent(rng, 2+i%5, i%2 == 1)
			emit(in, tags...)
		}
		// (a'') histories driven like a user does: config file in one directory, working directory in another, dbPath
		// relative / absolute, `fan init` and `fan reset` through the real cobra commands
		ncli := ctx.Param("ncli", 6)
		if !ctx.Quick() {
			ncli = ctx.Param("ncli", 40)
		}
		for i := 0; i < ncli; i++ {
			in, tags := startupGenCli(rng, i%2 == 0)
			emit(in, tags...)
		}
		// (b) random fleets and command sequences
		n := ctx.Param("n", 120)
		budget := 1
		if !ctx.Quick() {
			n = ctx.Param("n", 1500)
			budget = 10
		}
		for i := 0; i < n; i++ {
			in, tags := startupGenCase(rng, &budget)
			emit(in, append(tags, "random")...)
		}
	}
}
