//go:build verif

// verifharness: correspondence drivers. Exists only in /verif and is injected
// into the fan2go module at build time with `go build -overlay`.
package main

import (
	"bufio"
	"encoding/json"
	"fmt"
	"os"
	"sort"
	"strconv"
	"strings"

	"github.com/pterm/pterm"
)

type driverFn func(ctx *Ctx)

var drivers = map[string]driverFn{}

// Ctx carries the seed, tier, optional replay inputs and the output stream.
type Ctx struct {
	Seed    uint64
	Tier    string
	Replay  []json.RawMessage // when non-nil: run exactly these inputs
	Corpus  []json.RawMessage // run first, before generated cases
	out     *bufio.Writer
	n       int
	WorkDir string
	Params  map[string]string
}

// Record is one line of driver output.
type Record struct {
	Idx    int         `json:"idx"`
	In     interface{} `json:"in"`            // enough to re-run the case
	Obs    interface{} `json:"obs"`           // what the implementation did
	Coq    string      `json:"coq"`           // Coq term of the driver's case type
	Tags   []string    `json:"tags"`          // for the input-distribution report
	NonTrv bool        `json:"nontrivial"`    // by the driver's stated rule
	Key    string      `json:"key,omitempty"` // distinctness key (default: Coq term)
}

func (c *Ctx) Emit(r Record) {
	r.Idx = c.n
	c.n++
	b, err := json.Marshal(r)
	if err != nil {
		panic(err)
	}
	c.out.Write(b)
	c.out.WriteByte('\n')
}

func (c *Ctx) Quick() bool { return c.Tier != "thorough" }

func (c *Ctx) Param(name string, def int) int {
	if v, ok := c.Params[name]; ok {
		n, err := strconv.Atoi(v)
		if err == nil {
			return n
		}
	}
	return def
}

func main() {
	if len(os.Args) < 2 {
		var names []string
		for n := range drivers {
			names = append(names, n)
		}
		sort.Strings(names)
		fmt.Fprintln(os.Stderr, "usage: verifharness <driver> [--seed n] [--tier t] [--replay file] [--corpus file] [--work dir] [--out file] [k=v ...]\ndrivers:", strings.Join(names, " "))
		os.Exit(2)
	}
	pterm.DisableOutput()
	name := os.Args[1]
	ctx := &Ctx{Seed: 1, Tier: "quick", Params: map[string]string{}}
	outPath := ""
	args := os.Args[2:]
	for i := 0; i < len(args); i++ {
		switch args[i] {
		case "--seed":
			i++
			s, _ := strconv.ParseUint(args[i], 10, 64)
			ctx.Seed = s
		case "--tier":
			i++
			ctx.Tier = args[i]
		case "--replay":
			i++
			ctx.Replay = readInputs(args[i])
			if ctx.Replay == nil {
				ctx.Replay = []json.RawMessage{}
			}
		case "--corpus":
			i++
			ctx.Corpus = readInputs(args[i])
		case "--work":
			i++
			ctx.WorkDir = args[i]
		case "--out":
			i++
			outPath = args[i]
		default:
			if kv := strings.SplitN(args[i], "=", 2); len(kv) == 2 {
				ctx.Params[kv[0]] = kv[1]
			}
		}
	}
	if ctx.WorkDir == "" {
		d, err := os.MkdirTemp("", "verifharness")
		if err != nil {
			panic(err)
		}
		ctx.WorkDir = d
		defer os.RemoveAll(d)
	}
	f := os.Stdout
	if outPath != "" {
		var err error
		f, err = os.Create(outPath)
		if err != nil {
			panic(err)
		}
		defer f.Close()
	}
	ctx.out = bufio.NewWriterSize(f, 1<<20)
	defer ctx.out.Flush()
	d, ok := drivers[name]
	if !ok {
		fmt.Fprintln(os.Stderr, "unknown driver", name)
		os.Exit(2)
	}
	d(ctx)
}

// readInputs reads a JSON-lines file; each line either a bare input or a record with an "in" field.
func readInputs(path string) []json.RawMessage {
	// a replay file written by ./check: one (indented) JSON object with an "in" field
	if whole, err := os.ReadFile(path); err == nil {
		var probe map[string]json.RawMessage
		if json.Unmarshal(whole, &probe) == nil {
			if in, ok := probe["in"]; ok {
				return []json.RawMessage{in}
			}
			if sm, ok := probe["smallest_mismatch"]; ok {
				var inner map[string]json.RawMessage
				if json.Unmarshal(sm, &inner) == nil {
					if in, ok := inner["in"]; ok {
						return []json.RawMessage{in}
					}
				}
			}
		}
	}
	f, err := os.Open(path)
	if err != nil {
		return nil
	}
	defer f.Close()
	var res []json.RawMessage
	sc := bufio.NewScanner(f)
	sc.Buffer(make([]byte, 1<<20), 1<<26)
	for sc.Scan() {
		line := strings.TrimSpace(sc.Text())
		if line == "" {
			continue
		}
		var probe map[string]json.RawMessage
		if err := json.Unmarshal([]byte(line), &probe); err == nil {
			if in, ok := probe["in"]; ok {
				res = append(res, in)
				continue
			}
		}
		res = append(res, json.RawMessage(line))
	}
	return res
}
