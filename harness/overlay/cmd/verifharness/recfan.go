//go:build verif

package main

import (
	"github.com/markusressel/fan2go/internal/fans"
)

// RecFan is a fans.Fan that only records what is asked of it (no device).
type RecFan struct {
	Id        string
	Writes    []int
	CanRead   bool
	Shown     int
	MinP      int
	MaxP      int
	NeverStop bool
}

func (f *RecFan) GetId() string                   { return f.Id }
func (f *RecFan) GetMinPwm() int                  { return f.MinP }
func (f *RecFan) SetMinPwm(pwm int, force bool)   {}
func (f *RecFan) GetStartPwm() int                { return 1 }
func (f *RecFan) SetStartPwm(pwm int, force bool) {}
func (f *RecFan) GetMaxPwm() int                  { return f.MaxP }
func (f *RecFan) SetMaxPwm(pwm int, force bool)   {}
func (f *RecFan) GetRpm() (int, error)            { return 0, nil }
func (f *RecFan) GetRpmAvg() float64              { return 0 }
func (f *RecFan) SetRpmAvg(rpm float64)           {}
func (f *RecFan) GetPwm() (int, error)            { return f.Shown, nil }
func (f *RecFan) SetPwm(pwm int) error {
	f.Writes = append(f.Writes, pwm)
	f.Shown = pwm
	return nil
}
func (f *RecFan) GetFanRpmCurveData() *map[int]float64            { return &map[int]float64{} }
func (f *RecFan) AttachFanRpmCurveData(d *map[int]float64) error  { return nil }
func (f *RecFan) UpdateFanRpmCurveValue(pwm int, rpm float64)     {}
func (f *RecFan) GetCurveId() string                              { return "" }
func (f *RecFan) ShouldNeverStop() bool                           { return f.NeverStop }
func (f *RecFan) GetPwmEnabled() (int, error)                     { return 1, nil }
func (f *RecFan) SetPwmEnabled(value fans.ControlMode) error      { return nil }
func (f *RecFan) IsPwmAuto() (bool, error)                        { return false, nil }
func (f *RecFan) Supports(feature fans.FeatureFlag) bool {
	if feature == fans.FeaturePwmSensor {
		return f.CanRead
	}
	return false
}
