//go:build verif

package configuration

// Accessors for the C11 correspondence driver (compiled only with -tags verif
// through the build overlay; behaviour-neutral).

// VerifReadInConfig is the unexported readInConfig (viper.ReadInConfig) without
// the ui.FatalWithoutStacktrace/os.Exit wrapper of DetectAndReadConfigFile.
func VerifReadInConfig() error { return readInConfig() }
