//go:build verif

package controller

import (
	"time"

	"github.com/markusressel/fan2go/internal/control_loop"
	"github.com/markusressel/fan2go/internal/curves"
	"github.com/markusressel/fan2go/internal/fans"
	"github.com/markusressel/fan2go/internal/persistence"
)

// Accessors for unexported identifiers, compiled only with -tags verif through
// the build overlay; nothing here changes behaviour.

func VerifNewController(pers persistence.Persistence, fan fans.Fan, curve curves.SpeedCurve,
	loop control_loop.ControlLoop, updateRate time.Duration) *DefaultFanController {
	return &DefaultFanController{
		persistence:                 pers,
		fan:                         fan,
		curve:                       curve,
		updateRate:                  updateRate,
		pwmValuesWithDistinctTarget: []int{},
		pwmMap:                      nil,
		controlLoop:                 loop,
	}
}

func (f *DefaultFanController) VerifSetPwmMap(m map[int]int) {
	f.pwmMap = m
	f.updateDistinctPwmValues()
}
func (f *DefaultFanController) VerifPwmMap() map[int]int         { return f.pwmMap }
func (f *DefaultFanController) VerifDistinct() []int             { return f.pwmValuesWithDistinctTarget }
func (f *DefaultFanController) VerifSetPwm(t int) error          { return f.setPwm(t) }
func (f *DefaultFanController) VerifCalculateTargetPwm() (int, error) { return f.calculateTargetPwm() }
func (f *DefaultFanController) VerifMeasureRpm()                 { f.measureRpm(f.fan) }
func (f *DefaultFanController) VerifRestore()                    { f.restorePwmEnabled() }
func (f *DefaultFanController) VerifComputePwmMap() error        { return f.computePwmMap() }
// the number of stall raises as exported in the statistics (not the private field, so that a refactoring of the
// controller's internals does not stop the harness from building)
func (f *DefaultFanController) VerifMinPwmOffset() int           { return f.GetStatistics().MinPwmOffset }
func (f *DefaultFanController) VerifSetOriginal(mode fans.ControlMode, pwm int) {
	f.originalPwmEnabled = mode
	f.originalPwmValue = pwm
}
func (f *DefaultFanController) VerifLastSetPwm() (int, bool) {
	if f.lastSetPwm == nil {
		return 0, false
	}
	return *f.lastSetPwm, true
}
func (f *DefaultFanController) VerifControlLoop() control_loop.ControlLoop { return f.controlLoop }
func (f *DefaultFanController) VerifUpdateDistinct()            { f.updateDistinctPwmValues() }
func VerifTrySetManualPwm(fan fans.Fan) error { return trySetManualPwm(fan) }
