//go:build verif

package controller

// Accessors used by the C03/C09 drivers (restore, faults); behaviour-neutral.

func (f *DefaultFanController) VerifGetPwm() (int, error) { return f.getPwm() }
func (f *DefaultFanController) VerifOriginal() (int, int) {
	return int(f.originalPwmEnabled), f.originalPwmValue
}
