//go:build verif

package curves

// VerifResetRegistry empties the global speed-curve registry between harness cases.
func VerifResetRegistry() { speedCurveMap.Clear() }
