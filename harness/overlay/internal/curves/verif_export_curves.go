//go:build verif

package curves

// Accessors for the correspondence harness (driver `curves`); behaviour-neutral.

// VerifResetCurves empties the global curve registry (cases must not see each other's curves).
func VerifResetCurves() { speedCurveMap.Clear() }
