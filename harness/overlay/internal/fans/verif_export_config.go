//go:build verif

package fans

// VerifResetRegistry empties the global fan registry between harness cases.
func VerifResetRegistry() { fanMap.Clear() }
