//go:build verif

package persistence

// VerifWrapHook lets the correspondence harness observe the persistence calls of the `fan init` / `fan reset`
// cobra commands (cmd/fan/init.go, reset.go are rewritten at build time to pass their persistence through
// VerifWrap). With no hook installed VerifWrap is the identity; a hook must be behaviour-neutral.
var VerifWrapHook func(p Persistence) Persistence

func VerifWrap(p Persistence) Persistence {
	if h := VerifWrapHook; h != nil {
		return h(p)
	}
	return p
}
