//go:build verif

package persistence

import bolt "go.etcd.io/bbolt"

// Every write transaction of persistence.go (db.Update / db.Batch / tx.Commit) is routed through these
// wrappers by a build-time source rewrite declared in /verif/lib/props/C14.py. With no hook installed they
// are the identity. The receivers are taken by method set, so a source that wraps *bolt.DB in its own handle type still builds. The C14 crash driver installs VerifAfterCommit in its worker processes to count committed
// transactions and to die (SIGKILL to itself) immediately after the k-th one.
var VerifAfterCommit func(err error)

func verifUpdate(db interface {
	Update(func(tx *bolt.Tx) error) error
}, fn func(tx *bolt.Tx) error) error {
	err := db.Update(fn)
	if h := VerifAfterCommit; h != nil {
		h(err)
	}
	return err
}

func verifBatch(db interface {
	Batch(func(tx *bolt.Tx) error) error
}, fn func(tx *bolt.Tx) error) error {
	err := db.Batch(fn)
	if h := VerifAfterCommit; h != nil {
		h(err)
	}
	return err
}

func verifCommit(tx interface{ Commit() error }) error {
	err := tx.Commit()
	if h := VerifAfterCommit; h != nil {
		h(err)
	}
	return err
}
