//go:build verif

package sensors

// VerifResetRegistry empties the global sensor registry between harness cases.
func VerifResetRegistry() { sensorMap.Clear() }
