//go:build verif

package sensors

import (
	"errors"

	"github.com/markusressel/fan2go/internal/configuration"
)

// VerifResetSensors empties the global sensor registry.
func VerifResetSensors() { sensorMap.Clear() }

// VerifSensor is an overlay-only Sensor whose GetValue result (value or error) and moving
// average are set directly by the harness (PID curves call GetValue, which no real sensor
// can be made to return arbitrary float64 values / errors from).
type VerifSensor struct {
	Id  string
	Val float64
	Err bool
	Avg float64
}

func (s *VerifSensor) GetId() string                         { return s.Id }
func (s *VerifSensor) GetConfig() configuration.SensorConfig { return configuration.SensorConfig{ID: s.Id} }
func (s *VerifSensor) GetValue() (float64, error) {
	if s.Err {
		return 0, errors.New("verif: sensor read error")
	}
	return s.Val, nil
}
func (s *VerifSensor) GetMovingAvg() float64    { return s.Avg }
func (s *VerifSensor) SetMovingAvg(avg float64) { s.Avg = avg }
