//go:build verif

package util

import (
	"io"
	"os"
	"sync"
	"time"

	"github.com/natefinch/atomic"
)

// Hook points used by the correspondence harness. With no hook installed every
// function behaves exactly like the call it replaces.

var (
	verifMu sync.Mutex
	// virtual clock: when VerifVirtualClock is true, VerifNow returns VerifClock
	VerifVirtualClock bool
	VerifClock        time.Time = time.Unix(1_700_000_000, 0)
	// sleep scaling: real sleep = d * VerifSleepNum / VerifSleepDen (0 = no sleep)
	VerifSleepNum int64 = 1
	VerifSleepDen int64 = 1
	VerifSleepHook func(d time.Duration)

	// file-layer hooks: return handled=true to replace the real operation
	VerifReadHook  func(path string) (data []byte, err error, handled bool)
	VerifWriteHook func(path string, data []byte) (err error, handled bool)
	// called after every successful real write (device response functions)
	VerifAfterWrite func(path string, data []byte)
)

func VerifNow() time.Time {
	verifMu.Lock()
	defer verifMu.Unlock()
	if VerifVirtualClock {
		return VerifClock
	}
	return time.Now()
}

func VerifAdvance(d time.Duration) {
	verifMu.Lock()
	defer verifMu.Unlock()
	VerifClock = VerifClock.Add(d)
}

func VerifSleep(d time.Duration) {
	if VerifSleepHook != nil {
		VerifSleepHook(d)
		return
	}
	if VerifSleepDen <= 0 || VerifSleepNum <= 0 {
		return
	}
	time.Sleep(time.Duration(int64(d) * VerifSleepNum / VerifSleepDen))
}

func VerifReadFile(path string) ([]byte, error) {
	if h := VerifReadHook; h != nil {
		if data, err, handled := h(path); handled {
			return data, err
		}
	}
	return os.ReadFile(path)
}

func VerifWriteFile(path string, data []byte, perm os.FileMode) error {
	if h := VerifWriteHook; h != nil {
		if err, handled := h(path, data); handled {
			return err
		}
	}
	err := os.WriteFile(path, data, perm)
	if err == nil && VerifAfterWrite != nil {
		VerifAfterWrite(path, data)
	}
	return err
}

func VerifAtomicWriteFile(path string, r io.Reader) error {
	data, _ := io.ReadAll(r)
	if h := VerifWriteHook; h != nil {
		if err, handled := h(path, data); handled {
			return err
		}
	}
	err := atomic.WriteFile(path, bytesReader(data))
	if err == nil && VerifAfterWrite != nil {
		VerifAfterWrite(path, data)
	}
	return err
}

type sliceReader struct {
	b []byte
	i int
}

func (s *sliceReader) Read(p []byte) (int, error) {
	if s.i >= len(s.b) {
		return 0, io.EOF
	}
	n := copy(p, s.b[s.i:])
	s.i += n
	return n, nil
}
func bytesReader(b []byte) io.Reader { return &sliceReader{b: b} }
