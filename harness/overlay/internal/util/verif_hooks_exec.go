//go:build verif

package util

import (
	"os"
	"sync"
)

// VerifStat replaces the os.Stat(file) call of CheckFilePermissionsForExecution
// in the harness build (textual rewrite declared in lib/props/C18.py). With no
// action registered for the path it is exactly os.Stat. An action lets a driver
// make the window between EvalSymlinks, Stat and the command start deterministic
// (another process changing the tree in between): it receives the real os.Stat
// as `real` and decides when to call it.
var verifStatActions sync.Map // resolved path -> func(path string, real func(string) (os.FileInfo, error)) (os.FileInfo, error)

// VerifStatCalls counts calls per path (lets a driver notice that the rewrite no longer applies).
var verifStatCalls sync.Map

func VerifStat(path string) (os.FileInfo, error) {
	if c, ok := verifStatCalls.Load(path); ok {
		*(c.(*int)) += 1
	}
	if a, ok := verifStatActions.Load(path); ok {
		return a.(func(string, func(string) (os.FileInfo, error)) (os.FileInfo, error))(path, os.Stat)
	}
	return os.Stat(path)
}

func VerifSetStatAction(path string, f func(path string, real func(string) (os.FileInfo, error)) (os.FileInfo, error)) *int {
	n := new(int)
	verifStatCalls.Store(path, n)
	verifStatActions.Store(path, f)
	return n
}

func VerifClearStatAction(path string) {
	verifStatActions.Delete(path)
	verifStatCalls.Delete(path)
}
