//go:build verif

package util

import "time"

// Hook points of the drivers `startup` / `parinit` (C15, C16). With no hook installed and the default
// sleep scale every function behaves exactly like the call it replaces.

// VerifScaleDur applies the sleep scale (VerifSleepNum / VerifSleepDen) to a duration, so that timers
// created by controller.go run on the same (scaled) time base as its rewritten time.Sleep calls.
func VerifScaleDur(d time.Duration) time.Duration {
	if VerifSleepDen <= 0 || VerifSleepNum <= 0 {
		return d
	}
	return time.Duration(int64(d) * VerifSleepNum / VerifSleepDen)
}

func VerifAfter(d time.Duration) <-chan time.Time { return time.After(VerifScaleDur(d)) }

func VerifNewTimer(d time.Duration) *time.Timer { return time.NewTimer(VerifScaleDur(d)) }

func VerifAfterFunc(d time.Duration, f func()) *time.Timer {
	return time.AfterFunc(VerifScaleDur(d), f)
}

// VerifMarkHook receives markers inserted into controller.go at build time (begin / end of restorePwmEnabled)
var VerifMarkHook func(kind string, id string)

func VerifMark(kind string, id string) {
	if h := VerifMarkHook; h != nil {
		h(kind, id)
	}
}
