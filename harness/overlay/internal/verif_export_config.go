//go:build verif

package internal

import (
	"github.com/markusressel/fan2go/internal/configuration"
	"github.com/markusressel/fan2go/internal/controller"
	"github.com/markusressel/fan2go/internal/fans"
	"github.com/markusressel/fan2go/internal/persistence"
)

// Accessors for the C11 correspondence driver: the real (unexported) start-up glue.

// VerifInitializeCurves is initializeCurves(): NewSpeedCurve + RegisterSpeedCurve for CurrentConfig.Curves.
func VerifInitializeCurves() error { return initializeCurves() }

// VerifInitializeFanControllers is initializeFanControllers(): control-loop selection + NewFanController.
func VerifInitializeFanControllers(pers persistence.Persistence, fanMap map[configuration.FanConfig]fans.Fan) (map[fans.Fan]controller.FanController, error) {
	return initializeFanControllers(pers, fanMap)
}
