//go:build verif

package internal

import (
	"github.com/markusressel/fan2go/internal/controller"
	"github.com/markusressel/fan2go/internal/fans"
	"github.com/markusressel/fan2go/internal/hwmon"
	"github.com/markusressel/fan2go/internal/persistence"
)

// VerifRaceInitialize is the start-up glue of RunDaemon for the C20 race driver: exactly the unexported
// initializeSensors / initializeCurves / initializeFans (= InitializeObjects with the given hwmon controllers
// instead of hwmon.GetChips()) followed by initializeFanControllers, all reading configuration.CurrentConfig.
// Behaviour-neutral; compiled only with -tags verif through the build overlay.
func VerifRaceInitialize(controllers []*hwmon.HwMonController, pers persistence.Persistence) (map[fans.Fan]controller.FanController, error) {
	if err := initializeSensors(controllers); err != nil {
		return nil, err
	}
	if err := initializeCurves(); err != nil {
		return nil, err
	}
	fanMap, err := initializeFans(controllers)
	if err != nil {
		return nil, err
	}
	return initializeFanControllers(pers, fanMap)
}
