//go:build verif

package internal

import (
	"github.com/markusressel/fan2go/internal/hwmon"
	"github.com/markusressel/fan2go/internal/sensors"
)

// Accessors for unexported identifiers of package internal used by the C08
// driver; compiled only with -tags verif through the build overlay; nothing
// here changes behaviour.

// VerifUpdateSensor is monitor.go's updateSensor (one poll of the sensor monitor).
func VerifUpdateSensor(s sensors.Sensor) error { return updateSensor(s) }

// VerifInitializeSensors is backend.go's initializeSensors (creates, seeds and registers
// every sensor of configuration.CurrentConfig.Sensors).
func VerifInitializeSensors(controllers []*hwmon.HwMonController) error {
	return initializeSensors(controllers)
}
