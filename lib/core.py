# Core of ./check: build the Coq development and the overlay harness from
# /repo's current working tree, run a driver, evaluate the model inside Coq,
# decide, write evidence.  See DESIGN.md section 3.
import fcntl, glob, hashlib, json, os, re, shutil, subprocess, sys, time
from concurrent.futures import ThreadPoolExecutor

VERIF = os.path.dirname(os.path.dirname(os.path.abspath(__file__)))
REPO = os.environ.get('VERIF_REPO', '/repo')
COQ = os.environ.get('VERIF_COQ') or os.path.join(VERIF, 'coq')   # VERIF_COQ: isolated copy of the development (seeded-change runs)
WORK = os.path.join(VERIF, 'work')
HARNESS = os.path.join(VERIF, 'harness')

GOENV = dict(os.environ, GOFLAGS='-mod=mod', GOPROXY='off', GOSUMDB='off', GOTOOLCHAIN='local',
             CGO_ENABLED='0')

HYGIENE_RE = re.compile(r'\b(Admitted|admit|Axiom|Parameter|Conjecture|Admit Obligations)\b|Unset Guard|bypass_check|type-in-type|impredicative-set|Unset Universe Checking|Unset Positivity')


def log(*a):
    print(*a, file=sys.stderr, flush=True)


def sh(cmd, cwd=None, env=None, timeout=None, check=False):
    p = subprocess.run(cmd, cwd=cwd, env=env, timeout=timeout, stdout=subprocess.PIPE,
                       stderr=subprocess.STDOUT, text=True, errors='replace')
    if check and p.returncode != 0:
        raise RuntimeError('command failed: %s\n%s' % (cmd, p.stdout[-4000:]))
    return p.returncode, p.stdout


class Lock:
    """coq.lock: builds take it exclusively, evaluations of compiled .vo files take it shared."""
    def __init__(self, name, shared=False):
        os.makedirs(WORK, exist_ok=True)
        if name == 'coq.lock' and os.environ.get('VERIF_COQ'):
            name = 'coq_%s.lock' % hashlib.sha1(COQ.encode()).hexdigest()[:10]
        self.path = os.path.join(WORK, name)
        self.shared = shared

    def __enter__(self):
        self.f = open(self.path, 'a')
        fcntl.flock(self.f, fcntl.LOCK_SH if self.shared else fcntl.LOCK_EX)
        return self

    def __exit__(self, *a):
        fcntl.flock(self.f, fcntl.LOCK_UN)
        self.f.close()


# ---------------------------------------------------------------- translators
def write_if_changed(path, text):
    try:
        if open(path).read() == text:
            return False
    except FileNotFoundError:
        pass
    os.makedirs(os.path.dirname(path), exist_ok=True)
    with open(path, 'w') as f:
        f.write(text)
    return True


def regenerate():
    """Re-translate coq/gen/*.v from /repo's working tree (DESIGN 2.5)."""
    sys.path.insert(0, os.path.join(VERIF, 'tools'))
    notes = []
    import importlib
    for name in sorted(os.path.basename(p)[:-3] for p in glob.glob(os.path.join(VERIF, 'tools', 'gen_*.py'))):
        try:
            mod = importlib.import_module(name)
            text, note = mod.generate(REPO)
            changed = write_if_changed(os.path.join(COQ, 'gen', mod.TARGET), text)
            notes.append('%s: %s%s' % (mod.TARGET, note, ' (changed)' if changed else ''))
        except Exception as e:  # fail closed for the files that import this module: it is emptied
            target = getattr(sys.modules.get(name), 'TARGET', name + '.v')
            write_if_changed(os.path.join(COQ, 'gen', target),
                             '(* translator %s failed on the current source: %s *)\n' % (name, str(e).replace('*)', '* )')))
            notes.append('TRANSLATOR-FAILED %s: %r' % (target, e))
    return notes


# ---------------------------------------------------------------- Coq build
COQ_DIRS = ['Go', 'gen', 'Model', 'Proofs', 'Obs', 'Drv', 'Props']
COQ_ARGS = ('-Q . F2G\n-arg -w -arg -notation-overridden,-inexact-float,-large-nat,-deprecated-hint-without-locality,'
            '-deprecated-syntactic-definition,-ambiguous-paths,-deprecated-instance-without-locality\n')


def coq_makefile():
    """_CoqProject lists every .v file under coq/{Go,gen,Model,Proofs,Obs,Drv,Props} (coqdep orders them)."""
    files = []
    for d in COQ_DIRS:
        files += sorted(os.path.relpath(f, COQ) for f in glob.glob(os.path.join(COQ, d, '**', '*.v'), recursive=True))
    proj = os.path.join(COQ, '_CoqProject')
    changed = write_if_changed(proj, COQ_ARGS + '\n'.join(files) + '\n')
    mk = os.path.join(COQ, 'Makefile.coq')
    if changed or not os.path.exists(mk) or os.path.getmtime(mk) < os.path.getmtime(proj):
        sh(['coq_makefile', '-f', '_CoqProject', '-o', 'Makefile.coq'], cwd=COQ, check=True)


def coq_make(targets, timeout=3000):
    """Full .vo build of the given targets (and what they depend on)."""
    coq_makefile()
    rc, out = sh(['timeout', str(timeout), 'make', '-f', 'Makefile.coq', '-j16', '-k'] + targets, cwd=COQ)
    return rc, out


def hygiene():
    bad = []
    for path in glob.glob(os.path.join(COQ, '**', '*.v'), recursive=True):
        txt = open(path).read()
        # strip comments (non-nested is enough for our sources; nested handled by loop)
        prev = None
        while prev != txt:
            prev = txt
            txt = re.sub(r'\(\*[^*(]*(?:\*(?!\))[^*(]*|\((?!\*)[^*(]*)*\*\)', ' ', txt)
        for m in HYGIENE_RE.finditer(txt):
            bad.append('%s: %s' % (os.path.relpath(path, COQ), m.group(0)))
    proj = open(os.path.join(COQ, '_CoqProject')).read()
    for m in re.finditer(r'type-in-type|impredicative-set|-vos|-vok', proj):
        bad.append('_CoqProject: ' + m.group(0))
    return bad


def theorems_in(vfile):
    txt = open(os.path.join(COQ, vfile)).read()
    return re.findall(r'^\s*(?:Theorem|Corollary)\s+([A-Za-z0-9_\']+)', txt, re.M)


def lemmas_in(vfile):
    txt = open(os.path.join(COQ, vfile)).read()
    return re.findall(r'^\s*(?:Theorem|Corollary|Lemma|Example|Fact|Proposition)\s+([A-Za-z0-9_\']+)', txt, re.M)


def print_assumptions(module, names, run_dir):
    """One coqc call printing the axioms every property theorem rests on."""
    src = 'From F2G Require Import %s.\n' % module
    for n in names:
        src += 'Print Assumptions %s.\n' % n
    path = os.path.join(run_dir, 'pa.v')
    open(path, 'w').write(src)
    with Lock('coq.lock', shared=True):
        rc, out = sh(['timeout', '300', 'coqc', '-Q', COQ, 'F2G', path], cwd=run_dir)
    res = {}
    if rc != 0:
        return None, out
    blocks = re.split(r'(?=^(?:Closed under the global context|Axioms:))', out, flags=re.M)
    blocks = [b for b in blocks if b.strip()]
    for n, b in zip(names, blocks):
        if b.startswith('Closed'):
            res[n] = []
        else:
            res[n] = sorted(set(re.findall(r'^([A-Za-z_][A-Za-z0-9_.\']*)\s*:', b, re.M)) - {'Axioms'})
    return res, out


def coqchk(modules, timeout=5400):
    """Re-check the compiled modules (and everything they depend on) with Coq's independent checker."""
    with Lock('coq.lock', shared=True):
        rc, out = sh(['timeout', str(timeout), 'coqchk', '-silent', '-o', '-Q', COQ, 'F2G'] + ['F2G.' + m for m in modules], cwd=COQ)
    res = {'rc': rc, 'modules': modules}
    m = re.search(r'\* Axioms:(.*?)\n\s*\n\* ', out, re.S)
    res['axioms'] = sorted(x.strip() for x in (m.group(1).split('\n') if m else []) if x.strip() and x.strip() != '<none>')
    for key, label in (('type_in_type', 'relying on type-in-type'), ('unsafe_fixpoints', 'relying on unsafe (co)fixpoints'),
                       ('assumed_positivity', 'whose positivity is assumed')):
        mm = re.search(re.escape(label) + r':\s*(.*?)\n\s*\n', out + '\n\n', re.S)
        res[key] = mm.group(1).strip() if mm else '?'
    if rc != 0:
        res['log_tail'] = out[-1500:]
    return res


# ---------------------------------------------------------------- harness build
REWRITES = [
    # (file relative to /repo, [(regex, replacement)], header to add after the package clause)
    ('internal/util/pid.go', [(r'\btime\.Now\(\)', 'VerifNow()')], None),
    ('internal/control_loop/direct.go', [(r'\btime\.Now\(\)', 'util.VerifNow()')], None),
    ('internal/controller/controller.go', [(r'\btime\.Sleep\(', 'util.VerifSleep(')], None),
    ('internal/util/file.go', [(r'\bos\.ReadFile\(', 'VerifReadFile('),
                               (r'\bos\.WriteFile\(', 'VerifWriteFile('),
                               (r'\batomic\.WriteFile\(', 'VerifAtomicWriteFile(')], None),
]


def all_rewrites():
    """REWRITES plus the rewrites declared by lib/props/*.py (SPEC['rewrites'] = [(file, [(regex, repl)], None)])."""
    res = {}
    for rel, subs, _ in REWRITES:
        res.setdefault(rel, [])
        res[rel] += [x for x in subs if x not in res[rel]]
    try:
        sys.path.insert(0, os.path.join(VERIF, 'lib'))
        import registry
        for spec in registry.PROPS.values():
            for rel, subs, _ in spec.get('rewrites', []):
                res.setdefault(rel, [])
                res[rel] += [tuple(x) for x in subs if tuple(x) not in res[rel]]
    except Exception as e:
        log('registry rewrites not loaded: %r' % (e,))
    return [(rel, subs, None) for rel, subs in res.items()]


def build_harness(run_dir, race=False, tags='verif', drivers=None):
    """go build -overlay of cmd/verifharness against /repo's working tree.
    drivers: when given, only cmd/verifharness/drv_<name>*.go of these drivers are compiled in (plus every
    non-drv_ file), so one property's check does not depend on another property's driver compiling."""
    t0 = time.time()
    notes = []
    ov = {}
    ovroot = os.path.join(HARNESS, 'overlay')
    for root, _, files in os.walk(ovroot):
        for fn in files:
            src = os.path.join(root, fn)
            rel = os.path.relpath(src, ovroot)
            if drivers is not None and os.path.dirname(rel) == os.path.join('cmd', 'verifharness') and fn.startswith('drv_'):
                stem = fn[4:-3] if fn.endswith('.go') else fn[4:]
                if not any(stem == d.replace('-', '_') or stem.startswith(d.replace('-', '_') + '_') for d in drivers):
                    continue
            ov[os.path.join(REPO, rel)] = src
    rw_dir = os.path.join(run_dir, 'rw')
    os.makedirs(rw_dir, exist_ok=True)
    for rel, subs, _ in all_rewrites():
        src = os.path.join(REPO, rel)
        try:
            txt = open(src).read()
        except FileNotFoundError:
            notes.append('REWRITE-FAILED %s: file missing' % rel)
            continue
        total = 0
        for pat, rep in subs:
            txt, n = re.subn(pat, rep, txt)
            total += n
        if total == 0 and rel not in ('internal/control_loop/direct.go', 'internal/util/exec.go'):
            notes.append('REWRITE-FAILED %s: no pattern matched' % rel)
        # imports that became unused / needed are fixed up by a tiny pass
        txt = fix_imports(rel, txt)
        dst = os.path.join(rw_dir, rel.replace('/', '__'))
        open(dst, 'w').write(txt)
        ov[src] = dst
    json.dump({'Replace': ov}, open(os.path.join(run_dir, 'overlay.json'), 'w'), indent=1)
    mod = open(os.path.join(REPO, 'go.mod')).read()
    mod += '\nreplace github.com/md14454/gosensors => %s\n' % os.path.join(HARNESS, 'gosensors_stub')
    modfile = os.path.join(run_dir, 'go.verif.mod')
    open(modfile, 'w').write(mod)
    shutil.copy(os.path.join(REPO, 'go.sum'), os.path.join(run_dir, 'go.verif.sum'))
    binpath = os.path.join(run_dir, 'harness-race' if race else 'harness')
    cmd = ['go', 'build', '-tags', tags, '-modfile=' + modfile, '-overlay=' + os.path.join(run_dir, 'overlay.json'),
           '-o', binpath]
    env = dict(GOENV)
    if race:
        cmd.insert(2, '-race')
        env['CGO_ENABLED'] = '1'
    cmd.append('./cmd/verifharness')
    rc, out = sh(cmd, cwd=REPO, env=env, timeout=900)
    notes.append('harness build %.1fs rc=%d' % (time.time() - t0, rc))
    if rc != 0:
        return None, notes, out
    return binpath, notes, out


def fix_imports(rel, txt):
    """After the textual rewrite, add/remove imports so the file still compiles."""
    def has_use(pkg):
        body = re.sub(r'import\s*\((?:.|\n)*?\)', '', txt, count=1)
        return re.search(r'\b%s\.' % re.escape(pkg), body) is not None

    def drop(imp):
        nonlocal txt
        txt = re.sub(r'\n\s*"%s"' % re.escape(imp), '', txt, count=1)

    def add(imp):
        nonlocal txt
        if '"%s"' % imp not in txt:
            txt = re.sub(r'import\s*\(', 'import (\n\t"%s"' % imp, txt, count=1)
    if rel == 'internal/util/pid.go':
        pass  # still uses time.Time
    if rel == 'internal/control_loop/direct.go':
        add('github.com/markusressel/fan2go/internal/util')
    if rel == 'internal/controller/controller.go':
        add('github.com/markusressel/fan2go/internal/util')
    if rel == 'internal/util/file.go':
        if not has_use('atomic'):
            drop('github.com/natefinch/atomic')
    if rel == 'internal/util/exec.go':
        if not has_use('exec'):
            drop('os/exec')
    return txt


# ---------------------------------------------------------------- driver + Coq evaluation
def run_driver(binpath, driver, run_dir, seed, tier, extra=None, corpus=None, replay=None, timeout=3000, env=None):
    out = os.path.join(run_dir, 'obs_%s.jsonl' % driver)
    cmd = ['timeout', str(timeout), binpath, driver, '--seed', str(seed), '--tier', tier, '--out', out,
           '--work', os.path.join(run_dir, 'drv_' + driver)]
    os.makedirs(os.path.join(run_dir, 'drv_' + driver), exist_ok=True)
    if corpus and os.path.exists(corpus):
        cmd += ['--corpus', corpus]
    if replay:
        cmd += ['--replay', replay]
    cmd += list(extra or [])
    e = dict(os.environ)
    if env:
        e.update(env)
    rc, txt = sh(cmd, cwd=run_dir, env=e)
    recs = []
    if os.path.exists(out):
        with open(out) as f:
            for line in f:
                line = line.strip()
                if line:
                    try:
                        recs.append(json.loads(line))
                    except Exception:
                        pass
    return rc, txt, recs


def coq_eval(drv_module, recs, run_dir, tag, shard=400, extra_defs='', jobs=12, timeout=1800):
    """Evaluate the model on every record inside Coq. Returns (M, F, K, log) with global indices."""
    shards = [recs[i:i + shard] for i in range(0, len(recs), shard)]
    results = [None] * len(shards)

    def work(si):
        part = shards[si]
        name = 'cases_%s_%d' % (tag, si)
        path = os.path.join(run_dir, name + '.v')
        with open(path, 'w') as f:
            f.write('From F2G Require Import Drv.Common %s.\nOpen Scope Z_scope.\n' % drv_module)
            f.write(extra_defs)
            for i, r in enumerate(part):
                f.write('Definition c%d : case := %s.\n' % (i, r['coq']))
            f.write('Definition cases : list case := [%s].\n' % '; '.join('c%d' % i for i in range(len(part))))
            f.write('Definition M := Eval vm_compute in bad_indices mismatch cases.\n')
            f.write('Definition F := Eval vm_compute in bad_indices (fun c => negb (holdsb c)) cases.\n')
            f.write('Definition K := Eval vm_compute in tagged finding_code cases.\n')
            f.write('Print M. Print F. Print K.\n')
        rc, out = sh(['timeout', str(timeout), 'coqc', '-noglob', '-Q', COQ, 'F2G', '-w', '-all', path], cwd=run_dir)
        return si, rc, out

    with Lock('coq.lock', shared=True), ThreadPoolExecutor(max_workers=jobs) as ex:
        for si, rc, out in ex.map(work, range(len(shards))):
            results[si] = (rc, out)
    M, F, K, logs = [], [], {}, []
    ok = True
    for si, (rc, out) in enumerate(results):
        base = si * shard
        if rc != 0:
            ok = False
            logs.append('shard %d: coqc rc=%d\n%s' % (si, rc, out[-3000:]))
            continue
        m = re.search(r'M\s*=\s*(\[.*?\])\s*:\s*list Z', out, re.S)
        f = re.search(r'F\s*=\s*(\[.*?\])\s*:\s*list Z', out, re.S)
        k = re.search(r'K\s*=\s*(\[.*?\])\s*:\s*list \(Z \* Z\)', out, re.S)
        if not (m and f and k):
            ok = False
            logs.append('shard %d: unparsable output\n%s' % (si, out[-3000:]))
            continue
        M += [base + int(x) for x in re.findall(r'-?\d+', m.group(1))]
        F += [base + int(x) for x in re.findall(r'-?\d+', f.group(1))]
        for a, b in re.findall(r'\(\s*(-?\d+)\s*,\s*(-?\d+)\s*\)', k.group(1)):
            K[base + int(a)] = int(b)
    return ok, M, F, K, '\n'.join(logs)


# ---------------------------------------------------------------- known findings
def load_findings():
    res = {'finding': [], 'fixed': []}
    path = os.path.join(VERIF, 'known_findings.txt')
    if not os.path.exists(path):
        return res
    for line in open(path):
        line = line.strip()
        if not line or line.startswith('#'):
            continue
        m = re.match(r'(finding|fixed):\s*property=(\S+)\s+(.*)$', line)
        if not m:
            continue
        kind, pid, rest = m.groups()
        key = None
        mk = re.match(r'key=(\S+)\s*(.*)$', rest)
        if mk:
            key, rest = mk.groups()
        res[kind].append({'property': pid, 'key': key, 'text': rest})
    return res


def write_evidence(pid, ev):
    # a run against another tree than /repo (VERIF_REPO: seeded-change experiments) must not replace the evidence
    # of /repo itself
    edir = os.path.join(VERIF, 'evidence') if REPO == '/repo' else os.path.join(WORK, 'evidence_other_tree')
    os.makedirs(edir, exist_ok=True)
    path = os.path.join(edir, pid + '.json')
    tmp = path + '.tmp'
    with open(tmp, 'w') as f:
        json.dump(ev, f, indent=1, sort_keys=True)
    os.replace(tmp, path)
    return path


def tree_digest():
    """Digest of the Go sources of /repo's working tree (recorded in the evidence)."""
    h = hashlib.sha256()
    for root, dirs, files in os.walk(REPO):
        dirs[:] = sorted(d for d in dirs if d not in ('.git', 'node_modules'))
        for fn in sorted(files):
            if fn.endswith('.go') or fn in ('go.mod', 'go.sum'):
                p = os.path.join(root, fn)
                h.update(os.path.relpath(p, REPO).encode())
                h.update(open(p, 'rb').read())
    return h.hexdigest()[:16]
