SPEC = dict(
    claimed=True,
    title="Every PWM value written while regulating stays inside the fan's limits",
    props_file='Props/C01.v', props_mod='Props.C01',
    props_extra=[('Props/C01Link.v', 'Props.C01Link')],
    proof_files=['Proofs/CtrlLinksC01Dev.v', 'Proofs/Rescale.v', 'Proofs/Ctrl.v', 'Drv/CtrlC01.v'],
    tie_vo=['Proofs/LeafTie.vo', 'Proofs/ConstsTie_basic.vo', 'Proofs/ConstsTie_clamp.vo', 'Proofs/ConstsTie_stall.vo', 'Proofs/LeafTie2_calcTarget.vo', 'Proofs/LeafTie2_DirectCycle.vo', 'Proofs/LeafTie2_PidCycle.vo', 'Proofs/LeafTie2_applyPwmMapping.vo', 'Proofs/LeafTie2_HwMonGetMinPwm.vo', 'Proofs/LeafTie2_HwMonGetMaxPwm.vo', 'Proofs/LeafTie2_HwMonGetRpmAvg.vo', 'Proofs/LeafTie2_HwMonSetRpmAvg.vo', 'Proofs/LeafTie2_HwMonShouldNeverStop.vo'],
    drivers=[dict(name='ctrl', drv_mod='Drv.CtrlC01', drv_file='Drv/CtrlC01.v', shard=100,
                  extra_mods=[('Drv.CtrlC01Dev', 'Drv/CtrlC01Dev.v')],
                  args={'quick': ['n=600'], 'thorough': ['n=4000']}, timeout={'quick': 900, 'thorough': 6000}),
             # the minimum/maximum the envelope is measured against are the configured ones (else the measured ones) also after RPM
             # curve data has been attached, and through the real start-up (Run: persistence -> attach -> regulate): the limits
             # (C13) and limitsrun drivers, whose observers require the limits of the model and every request inside them
             dict(name='limits', drv_mod='Drv.Limits', drv_file='Drv/Limits.v', shard=150,
                  args={'quick': ['n=300'], 'thorough': ['n=8000']}, timeout={'quick': 600, 'thorough': 3000}),
             dict(name='limitsrun', drv_mod='Drv.LimitsRun', drv_file='Drv/LimitsRun.v', shard=40,
                  args={'quick': [], 'thorough': ['reps=8']}, timeout={'quick': 600, 'thorough': 3000})],
    rule='seeded histories of 1..40 control cycles with interleaved RPM polls, external interference and device faults on real '
         'HwMonFan/FileFan/CmdFan objects driven through the real UpdateFanSpeed/measureRpm; generators random/stall/const/ext/fault; '
         'PWM maps identity/quantiser/sparse/monotone-sparse/plateau; algorithms direct, rate-limited, PID (default and random gains); '
         'curve values -500..800; dt 0, 1 ns, 50 ms..2 s, hours. Non-trivial = at least two control cycles; distinct = distinct case terms.',
    assumptions=['PWM map non-empty with strictly increasing keys (pm_ok); 0 <= min <= max <= 255', 'outputs of the PWM map are never -1'],
    trusted_base=['Print Assumptions: FloatAxioms.Leibniz.eqb_spec (stdlib axiom, used to lift the computed exactness of float64(max)-float64(min) on 0..255) and the kernel float/int63 primitives; no other axiom', 'hand-written model Model/Controller.v of calculateTargetPwm / ensureNoThirdPartyIsMessingWithUs / trySetManualPwm / setPwm / measureRpm, Model/Fan.v, Model/ControlLoop.v: agreement with the Go code is observed bit-exactly on the generated histories (driver ctrl), not proved', 'one control cycle is atomic in the model; interference during a cycle is represented by interference just before or just after it', 'the curve is a stub SpeedCurve in the driver (real curves: C06/C07); the PID clock is virtual (overlay rewrite of time.Now in util/pid.go)', 'gen/Consts.v regenerated from the source: clamp bounds, rescale divisor, stall threshold, post-raise average'],
    finding_codes={}, finding_text={},
    level_text='C01_envelope: for every fan kind and limits, every non-empty key-sorted PWM map, every control algorithm (incl. an arbitrary function of target/current), every initial device state and every finite history of polls, cycles (any curve value, dt, faults) and interference, the model never crashes, every request lies in [min,max] and every value handed to the fan is the map output at a nearest supported input (hence in 0..255 for maps with such outputs). Proved by an invariant over histories plus the exhaustive rescale lemmas on 0..255^3. The verified observer judges the same statement on the real controller for 600 (quick) / 4000 (thorough) generated histories (plus the limits and limitsrun cases) and the model is compared bit-exactly.',
    level_note='trusted: Coq kernel + FloatAxioms.Leibniz.eqb_spec; hand-written controller model tied to the code by the differential ctrl driver (bit-exact agreement observed, not proved); atomic cycles',
    design_ref='DESIGN.md section 5 C01',
)
