SPEC = dict(
    claimed=False,
    title="Every PWM value written while regulating stays inside the fan's limits",
    props_file='Props/C01.v', props_mod='Props.C01',
    proof_files=['Proofs/Rescale.v', 'Proofs/Ctrl.v', 'Drv/CtrlC01.v'],
    tie_vo=['Proofs/LeafTie.vo'],
    drivers=[dict(name='ctrl', drv_mod='Drv.CtrlC01', drv_file='Drv/CtrlC01.v', shard=100,
                  args={'quick': ['n=600'], 'thorough': ['n=12000']}, timeout={'quick': 900, 'thorough': 6000})],
    rule='seeded histories of 1..40 control cycles (interleaved RPM polls, external interference, device faults) on real '
         'HwMonFan/FileFan/CmdFan objects; generators random/stall/const/ext/fault; non-trivial = at least two control cycles; '
         'distinct = distinct case terms',
    assumptions=[], finding_codes={}, finding_text={},
    level_text='TODO', level_note='TODO',
)
