SPEC = dict(
    claimed=True,
    title='A never-stop fan is never driven below its minimum, and the minimum never drops',
    props_file='Props/C02.v', props_mod='Props.C02',
    props_extra=[('Props/C02Link.v', 'Props.C02Link')],
    proof_files=['Proofs/Rescale.v', 'Proofs/Ctrl.v', 'Drv/CtrlC02.v'],
    tie_vo=['Proofs/LeafTie.vo', 'Proofs/ConstsTie_basic.vo', 'Proofs/ConstsTie_clamp.vo', 'Proofs/ConstsTie_stall.vo', 'Proofs/LeafTie2_calcTarget.vo', 'Proofs/LeafTie2_DirectCycle.vo', 'Proofs/LeafTie2_PidCycle.vo', 'Proofs/LeafTie2_applyPwmMapping.vo', 'Proofs/LeafTie2_HwMonGetMinPwm.vo', 'Proofs/LeafTie2_HwMonGetMaxPwm.vo', 'Proofs/LeafTie2_HwMonGetRpmAvg.vo', 'Proofs/LeafTie2_HwMonSetRpmAvg.vo', 'Proofs/LeafTie2_HwMonShouldNeverStop.vo', 'Proofs/LeafTie2_HwMonSetMinPwm.vo'],
    drivers=[dict(name='ctrl', drv_mod='Drv.CtrlC02', drv_file='Drv/CtrlC02.v', shard=100,
                  args={'quick': ['n=600'], 'thorough': ['n=4000']}, timeout={'quick': 900, 'thorough': 6000}),
             # the minimum the floor is measured against is the configured minPwm (else the measured one) also after RPM curve
             # data is attached: the limits driver (C13) checks GetMinPwm after every attach / non-forced set
             dict(name='limits', drv_mod='Drv.Limits', drv_file='Drv/Limits.v', shard=150,
                  args={'quick': ['n=500'], 'thorough': ['n=8000']}, timeout={'quick': 600, 'thorough': 3000}),
             # ... and through the real start-up (Run: persistence -> attach -> regulate): the minimum a neverStop fan is started with
             # is the configured one, else the one MEASURED in the stored curve (no interpolated values), and every request stays above it
             dict(name='limitsrun', drv_mod='Drv.LimitsRun', drv_file='Drv/LimitsRun.v', shard=40,
                  args={'quick': [], 'thorough': ['reps=8']}, timeout={'quick': 600, 'thorough': 3000})],
    rule='seeded histories of 1..40 control cycles with interleaved RPM polls, external interference and device faults on real '
         'HwMonFan/FileFan/CmdFan objects driven through the real UpdateFanSpeed/measureRpm; generators random/stall/const/ext/fault; '
         'PWM maps identity/quantiser/sparse/monotone-sparse/plateau; algorithms direct, rate-limited, PID (default and random gains); '
         'curve values -500..800; dt 0, 1 ns, 50 ms..2 s, hours. Non-trivial = at least two control cycles; distinct = distinct case terms.',
    assumptions=['PWM map non-empty with strictly increasing keys (pm_ok); 0 <= min <= max <= 255', 'outputs of the PWM map are never -1'],
    trusted_base=['Print Assumptions: FloatAxioms.Leibniz.eqb_spec (stdlib axiom, used to lift the computed exactness of float64(max)-float64(min) on 0..255) and the kernel float/int63 primitives; no other axiom', 'hand-written model Model/Controller.v of calculateTargetPwm / ensureNoThirdPartyIsMessingWithUs / trySetManualPwm / setPwm / measureRpm, Model/Fan.v, Model/ControlLoop.v: agreement with the Go code is observed bit-exactly on the generated histories (driver ctrl), not proved', 'one control cycle is atomic in the model; interference during a cycle is represented by interference just before or just after it', 'the curve is a stub SpeedCurve in the driver (real curves: C06/C07); the PID clock is virtual (overlay rewrite of time.Now in util/pid.go)', 'gen/Consts.v regenerated from the source: clamp bounds, rescale divisor, stall threshold, post-raise average'],
    finding_codes={}, finding_text={},
    level_text='C02_floor / C02_raise_strict: after every event of every history the fan minimum is unchanged, the last request is at least minimum + number of stall raises so far, raises only grow by one and the request issued at a raise is the stalled request + 1; for all fan kinds, algorithms and RPM histories. The observer checks floor, monotone minimum and strict raise on the real controller; the model is compared bit-exactly.',
    level_note='trusted: Coq kernel + FloatAxioms.Leibniz.eqb_spec; hand-written controller model tied to the code by the differential ctrl driver (bit-exact agreement observed, not proved); atomic cycles',
    design_ref='DESIGN.md section 5 C02',
)
