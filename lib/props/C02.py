SPEC = dict(
    claimed=False,
    title='A never-stop fan is never driven below its minimum, and the minimum never drops',
    props_file='Props/C02.v', props_mod='Props.C02',
    proof_files=['Proofs/Rescale.v', 'Proofs/Ctrl.v', 'Drv/CtrlC02.v'],
    tie_vo=['Proofs/LeafTie.vo'],
    drivers=[dict(name='ctrl', drv_mod='Drv.CtrlC02', drv_file='Drv/CtrlC02.v', shard=100,
                  args={'quick': ['n=600'], 'thorough': ['n=12000']}, timeout={'quick': 900, 'thorough': 6000})],
    rule='seeded histories of 1..40 control cycles (interleaved RPM polls, external interference, device faults) on real '
         'HwMonFan/FileFan/CmdFan objects; generators random/stall/const/ext/fault; non-trivial = at least two control cycles; '
         'distinct = distinct case terms',
    assumptions=[], finding_codes={}, finding_text={},
    level_text='TODO', level_note='TODO',
)
