SPEC = dict(
    claimed=True,
    title='Stopping regulation hands the fan back or leaves it at full speed',
    props_file='Props/C03.v', props_mod='Props.C03',
    proof_files=['Proofs/Restore.v', 'Proofs/Daemon.v', 'Drv/Restore.v', 'Drv/Daemon.v', 'Drv/CtlRun.v'],
    tie_vo=['Proofs/ConstsTie_basic.vo', 'Proofs/ConstsTie_restore.vo'],
    drivers=[dict(name='restore', drv_mod='Drv.Restore', drv_file='Drv/Restore.v', shard=700,
                  timeout={'quick': 600, 'thorough': 1200}),
             dict(name='ctlrun', drv_mod='Drv.CtlRun', drv_file='Drv/CtlRun.v', shard=50,
                  args={'quick': ['reps=1'], 'thorough': ['reps=6']}, timeout={'quick': 600, 'thorough': 1800}),
             dict(name='daemon', drv_mod='Drv.Daemon', drv_file='Drv/Daemon.v', shard=50,
                  args={'quick': ['n=24'], 'thorough': ['n=400']}, timeout={'quick': 600, 'thorough': 3000})],
    rule='restore: exhaustive over backend (hwmon/file/cmd) x pwmN_enable present/absent x original mode {0,1,2,3,5} x original PWM '
         '{0,77,255,unreadable} x current device state {manual at 120, still in original mode at 33} x every verdict of the four driver '
         'operations of restorePwmEnabled (PWM write, mode write, read-back incl. EACCES/garbage, last-resort write); trySetManualPwm: every '
         'current mode x all verdicts of both mode writes and read-backs. Non-trivial = some verdict is a fault or the original mode is not manual; '
         'distinct = distinct case terms. daemon: the real internal.RunDaemon in a child process (fake hwmon tree, file fans, a cmd fan with a slow set '
         'script; sleeps scaled 1/20, 15-30 ms tick rates); scenarios: 1-3 SIGTERM/SIGINT sent when every fan is ticking / gathering (start-up wait) / the last fan '
         'entered its first-second delay, 4 further signals when the restore of the slow fan is seen, 5 the RPM sensor of a fan under initialisation fails while the '
         'others regulate (Run returns an error), 6/7 the PID sensor of fan 0 fails (control error; without/with RPM monitor, then signals); quick 24 schedules, thorough 400; '
         '8 SIGTERM when a not yet analysed fan starts its RPM measurement with UNSCALED sleeps (the analysis runs on for ~15 s; the process must live until it is complete and hand the fan back; 1 case in quick, 4 in thorough, run concurrently with the short ones); '
         'signals are sent on log markers only. ctlrun: the real DefaultFanController.Run in-process (real HwMonFan on temp files, real bbolt persistence decorated '
         'to fail single operations, stub curve that counts evaluations and injects the event at its 3rd evaluation): second load fails / is empty after a successful '
         'initialisation, hwmon fan without RPM input, control error with the device gone / present, cancellation while ticking, placeholder data not storable, failing '
         'initialisation, stalled at max PWM (at once / after raising the minimum), cancellation while a control cycle is in flight (curve evaluation blocked in cycle 1..3, released after the other actors returned) or with a tick pending, with and without RPM input (the device is judged again 250 ms after Run returned and the blocked cycle was released), cancellation after the database directory has disappeared (replaced by a plain file), cancellation / control error while a SECOND real controller (parallel initialisation disabled) is held inside its initialisation sequence (its RPM never settles), fatal control error / stall followed by 1.3 s (real time) of life before the shutdown (the hand-back must persist); x original mode {2,1,0} x pwm_enable present/absent.',
    assumptions=[
        'oracle (oklog/run): the first actor to return triggers every interrupt function once; Group.Run returns only after all actors returned',
        'oracle (runtime): os.Exit follows g.Run; a signal is delivered into the one-element buffer of the notify channel or dropped; a send on a closed channel panics the process',
        'oracle (scheduler): context cancellation is observed by a controller only at its tick select (any interleaving of the events of Model/Daemon.v is a schedule; disabled events are no-ops)',
        'C03_process speaks about every controller whose regulation began or whose fan was touched at all (initialisation sequence, PWM-map sweep)',
        'orig = the (mode, PWM) fan2go captured at start-up; equal to the device state when the two start-up reads succeed (capture_faithful)',
        'device oracle: every write is answered Ok (state changes), Refused (error) or Ignored (success reported, state unchanged); every read Ok / Fails / Garbage / PermissionDenied',
        'D22 hypothesis of C03_restore_local: not (mode write ignored AND read-back answered EACCES)',
    ],
    trusted_base=['hand-written model coq/Model/Restore.v of restorePwmEnabled / trySetManualPwm / SetPwmEnabled; agreement with the code observed on the exhaustive verdict space',
                  'hand-written transition system coq/Model/Daemon.v of RunDaemon / Run (phases, two run groups, signal actor); agreement with the real daemon observed on marker-driven process runs (exit status, final fan state)'],
    partial='C03_process is a theorem about the modelled process structure: OS signal delivery, goroutine scheduling and oklog/run are oracle hypotheses exercised by the daemon driver, not verified.',
    finding_codes={22: 'D22'},
    finding_text={'D22': 'HwMonFan.SetPwmEnabled tolerates EACCES on the read-back ("assuming it worked"): a silently ignored mode write is then believed and the fan stays in manual mode at its original PWM'},
    level_text='restorePwmEnabled proved safe for every backend, original state, device state and verdict combination (case analysis); the process model '
               'proved panic-free and safe on termination for every configuration and every schedule of any length with any number of signals (invariant, induction on the schedule); axiom-free.',
    level_note='trusted: Coq kernel; hand-written model of the restore path, agreement with the code observed exhaustively over the verdict space',
    design_ref='DESIGN.md section 5 C03',
)
