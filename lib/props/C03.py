SPEC = dict(
    claimed=True,
    title='Stopping regulation hands the fan back or leaves it at full speed',
    props_file='Props/C03.v', props_mod='Props.C03',
    proof_files=['Proofs/Restore.v', 'Drv/Restore.v'],
    tie_vo=[],
    drivers=[dict(name='restore', drv_mod='Drv.Restore', drv_file='Drv/Restore.v', shard=700,
                  timeout={'quick': 600, 'thorough': 1200})],
    rule='restore: exhaustive over backend (hwmon/file/cmd) x pwmN_enable present/absent x original mode {0,1,2,3,5} x original PWM '
         '{0,77,255,unreadable} x current device state {manual at 120, still in original mode at 33} x every verdict of the four driver '
         'operations of restorePwmEnabled (PWM write, mode write, read-back incl. EACCES/garbage, last-resort write); trySetManualPwm: every '
         'current mode x all verdicts of both mode writes and read-backs. Non-trivial = some verdict is a fault or the original mode is not manual; '
         'distinct = distinct case terms.',
    assumptions=[
        'orig = the (mode, PWM) fan2go captured at start-up; equal to the device state when the two start-up reads succeed (capture_faithful)',
        'device oracle: every write is answered Ok (state changes), Refused (error) or Ignored (success reported, state unchanged); every read Ok / Fails / Garbage / PermissionDenied',
        'D22 hypothesis of C03_restore_local: not (mode write ignored AND read-back answered EACCES)',
    ],
    trusted_base=['hand-written model coq/Model/Restore.v of restorePwmEnabled / trySetManualPwm / SetPwmEnabled; agreement with the code observed on the exhaustive verdict space'],
    partial='',
    finding_codes={22: 'D22'},
    finding_text={'D22': 'HwMonFan.SetPwmEnabled tolerates EACCES on the read-back ("assuming it worked"): a silently ignored mode write is then believed and the fan stays in manual mode at its original PWM'},
    level_text='restorePwmEnabled proved safe for every backend, original state, device state and verdict combination (case analysis, axiom-free).',
    level_note='trusted: Coq kernel; hand-written model of the restore path, agreement with the code observed exhaustively over the verdict space',
    design_ref='DESIGN.md section 5 C03',
)
