SPEC = dict(
    claimed=True,
    title='Constant curve value: request settles at one target, same for every algorithm',
    props_file='Props/C04.v', props_mod='Props.C04',
    proof_files=['Proofs/Rescale.v', 'Proofs/Ctrl.v', 'Proofs/CtrlC04.v', 'Drv/CtrlC04.v'],
    tie_vo=['Proofs/LeafTie.vo', 'Proofs/ConstsTie_basic.vo', 'Proofs/ConstsTie_clamp.vo', 'Proofs/ConstsTie_stall.vo', 'Proofs/ConstsTie_pid.vo'],
    drivers=[dict(name='ctrl', drv_mod='Drv.CtrlC04', drv_file='Drv/CtrlC04.v', shard=100,
                  args={'quick': ['n=500', 'pidlong=6'], 'thorough': ['n=10000', 'pidlong=40']}, timeout={'quick': 900, 'thorough': 6000})],
    rule='seeded histories of 1..40 control cycles with interleaved RPM polls, external interference and device faults on real '
         'HwMonFan/FileFan/CmdFan objects driven through the real UpdateFanSpeed/measureRpm; generators random/stall/const/ext/fault; '
         'PWM maps identity/quantiser/sparse/monotone-sparse/plateau; algorithms direct, rate-limited, PID (default and random gains); '
         'curve values -500..800; dt 0, 1 ns, 50 ms..2 s, hours. Non-trivial = at least two control cycles; distinct = distinct case terms.',
    assumptions=['PWM map non-empty with strictly increasing keys (pm_ok); 0 <= min <= max <= 255', 'outputs of the PWM map are never -1'],
    trusted_base=['Print Assumptions: FloatAxioms.Leibniz.eqb_spec (stdlib axiom, used to lift the computed exactness of float64(max)-float64(min) on 0..255) and the kernel float/int63 primitives; no other axiom', 'hand-written model Model/Controller.v of calculateTargetPwm / ensureNoThirdPartyIsMessingWithUs / trySetManualPwm / setPwm / measureRpm, Model/Fan.v, Model/ControlLoop.v: agreement with the Go code is observed bit-exactly on the generated histories (driver ctrl), not proved', 'one control cycle is atomic in the model; interference during a cycle is represented by interference just before or just after it', 'the curve is a stub SpeedCurve in the driver (real curves: C06/C07); the PID clock is virtual (overlay rewrite of time.Now in util/pid.go)', 'gen/Consts.v regenerated from the source: clamp bounds, rescale divisor, stall threshold, post-raise average'],
    partial='C04_pid_settles_full is not proved (global convergence of a rounded nonlinear recurrence): the PID clause is exploration only — 6 (quick) / 40 (thorough) long constant-curve runs through the real controller judged by the observer rule |request - steady| <= 1 after 450 cycles (dt >= 0.5 s) or 3100 cycles (dt >= 50 ms); a single tick period of hours (suspend/resume) winds the unbounded PID integral up and is outside the stated quantifier (tick periods 50 ms..2 s).',
    finding_codes={}, finding_text={},
    level_text='C04_shape (steady value = minimum at curve 0, maximum at 255, monotone, inside the limits), C04_direct (one cycle from any state reaches the steady value, independent of history, elapsed time and faults), C04_limited_run + C04_limited_requests (with maxPwmChangePerCycle = c >= 1 the requests change by at most c per cycle, move monotonically toward the same steady value and equal it from cycle ceil(255/c) on, a bound depending on c alone) are proved for every limit setting, curve value, start value and prior history on fans whose stall branch cannot fire. The PID clause (within one step of the steady value) is NOT proved: C04_pid_settles_full stays a visible Definition and is explored by simulation on the real controller (default gains, tick periods 0.5..2 s quick / 50 ms..2 s thorough, one hour of idling at 0 or 255 first).',
    level_note='trusted: Coq kernel + FloatAxioms.Leibniz.eqb_spec; hand-written controller model tied to the code by the differential ctrl driver (bit-exact agreement observed, not proved); atomic cycles',
    design_ref='DESIGN.md section 5 C04',
)
