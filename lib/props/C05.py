SPEC = dict(
    claimed=True,
    title='External interference with a fan is undone within one control cycle',
    props_file='Props/C05.v', props_mod='Props.C05',
    props_extra=[('Props/C05Link.v', 'Props.C05Link')],
    proof_files=['Proofs/Rescale.v', 'Proofs/Ctrl.v', 'Proofs/CtrlC05.v', 'Drv/CtrlC05.v', 'Drv/StartupC05.v'],
    tie_vo=['Proofs/LeafTie.vo', 'Proofs/ConstsTie_basic.vo', 'Proofs/ConstsTie_clamp.vo', 'Proofs/ConstsTie_stall.vo', 'Proofs/LeafTie2_calcTarget.vo', 'Proofs/LeafTie2_DirectCycle.vo', 'Proofs/LeafTie2_PidCycle.vo', 'Proofs/LeafTie2_applyPwmMapping.vo', 'Proofs/LeafTie2_HwMonGetMinPwm.vo', 'Proofs/LeafTie2_HwMonGetMaxPwm.vo', 'Proofs/LeafTie2_HwMonGetRpmAvg.vo', 'Proofs/LeafTie2_HwMonSetRpmAvg.vo', 'Proofs/LeafTie2_HwMonShouldNeverStop.vo'],
    drivers=[dict(name='ctrl', drv_mod='Drv.CtrlC05', drv_file='Drv/CtrlC05.v', shard=100, extra_mods=[('Drv.CtrlC04Step', 'Drv/CtrlC04Step.v')],
                  args={'quick': ['n=600'], 'thorough': ['n=4000']}, timeout={'quick': 900, 'thorough': 6000}),
             # the start-up driver of C15 as a second driver: the first control cycles after every kind of start
             dict(name='startup', drv_mod='Drv.StartupC05', drv_file='Drv/StartupC05.v', shard=30,
                  args={'quick': ['n=30', 'nc=4', 'ncli=4'], 'thorough': ['n=1500', 'nc=80', 'ncli=40']},
                  timeout={'quick': 600, 'thorough': 3000})],
    rule='seeded histories of 1..40 control cycles with interleaved RPM polls, external interference and device faults on real '
         'HwMonFan/FileFan/CmdFan objects driven through the real UpdateFanSpeed/measureRpm; generators random/stall/const/ext/fault; '
         'PWM maps identity/quantiser/sparse/monotone-sparse/plateau; algorithms direct, rate-limited, PID (default and random gains); '
         'curve values -500..800; dt 0, 1 ns, 50 ms..2 s, hours. Non-trivial = at least two control cycles; distinct = distinct case terms. Second driver `startup` (the start-up driver of C15, observer Drv/StartupC05.v): every start it performs - first start with PWM sweep and RPM-curve measurement through the real Run, restart, start after fan init / fan reset, configured pwmMap / minPwm+maxPwm, hwmon / file / cmd fans, concurrent starts on one database, CLI-driven histories - is followed by three real control cycles (ticker-driven UpdateFanSpeed); nothing but the controller writes the fan files and every write succeeds, so GetStatistics().UnexpectedPwmValueCount must be 0 after them; judged are the starts that meet the standing assumption reads_back (every output of the PWM map the start-up MODEL expects the controller to use after that start - configured, stored or measured by the start itself - is a value the fake device shows when written; configured/stored maps that contradict the device are generated too and not judged).',
    assumptions=['PWM map non-empty with strictly increasing keys (pm_ok); 0 <= min <= max <= 255', 'outputs of the PWM map are never -1'],
    trusted_base=['Print Assumptions: FloatAxioms.Leibniz.eqb_spec (stdlib axiom, used to lift the computed exactness of float64(max)-float64(min) on 0..255) and the kernel float/int63 primitives; no other axiom', 'hand-written model Model/Controller.v of calculateTargetPwm / ensureNoThirdPartyIsMessingWithUs / trySetManualPwm / setPwm / measureRpm, Model/Fan.v, Model/ControlLoop.v: agreement with the Go code is observed bit-exactly on the generated histories (driver ctrl), not proved', 'one control cycle is atomic in the model; interference during a cycle is represented by interference just before or just after it', 'the curve is a stub SpeedCurve in the driver (real curves: C06/C07); the PID clock is virtual (overlay rewrite of time.Now in util/pid.go)', 'gen/Consts.v regenerated from the source: clamp bounds, rescale divisor, stall threshold, post-raise average'],
    finding_codes={}, finding_text={},
    level_text='C05_reasserted (from any invariant state, i.e. after interference at any position: one cycle with a succeeding PWM write leaves the device at the dictated map output and in manual mode), C05_counted (a changed PWM is counted exactly once, an unchanged one never), C05_no_false_count (no count over any interference-free history with succeeding writes). The observer checks re-assertion, counting and no false count on the real controller with interference injected between cycles.',
    level_note='trusted: Coq kernel + FloatAxioms.Leibniz.eqb_spec; hand-written controller model tied to the code by the differential ctrl driver (bit-exact agreement observed, not proved); atomic cycles',
    design_ref='DESIGN.md section 5 C05',
)
