SPEC = dict(
    claimed=True,
    title='Curves evaluate to their documented function, always within 0..255',
    props_file='Props/C06.v', props_mod='Props.C06',
    props_extra=[('Props/C06Tree.v', 'Props.C06Tree'), ('Props/C06Link.v', 'Props.C06Link'), ('Props/C06Steps.v', 'Props.C06Steps'), ('Props/C06LinMid.v', 'Props.C06LinMid')],
    proof_files=['Proofs/StepsClose.v', 'Proofs/StepsCloseLink.v', 'Proofs/CurveTree.v', 'Proofs/CurveLinks.v', 'Proofs/CurveRange.v', 'Proofs/StepsFloat.v', 'Proofs/StepsSeg.v', 'Proofs/StepsMono.v', 'Proofs/CurveLinMid.v', 'Model/Curves.v', 'Proofs/CurveFloat.v', 'Proofs/CurveFn.v', 'Proofs/CurvePid.v', 'Proofs/CurveLin.v',
                 'Proofs/CurveLinMono.v', 'Proofs/CurvePidRange.v', 'Proofs/CurveSteps.v', 'Proofs/CurveMono.v', 'Drv/Curves.v'],
    tie_vo=['Proofs/LeafTie.vo', 'Proofs/LeafTie2_functionAgg.vo', 'Proofs/LeafTie2_linearEval.vo', 'Proofs/LeafTie2_PidLoop.vo'],
    drivers=[dict(name='curves', drv_mod='Drv.Curves', drv_file='Drv/Curves.v', shard=150,
                  args={'quick': ['n=1600'], 'thorough': ['n=30000']}, timeout={'quick': 600, 'thorough': 3000})],
    rule='seeded streams over real curves (curves.NewSpeedCurve + RegisterSpeedCurve) and sensors in the real registries: '
         'linear min/max (incl. wide ranges), step sets with 1..8 arbitrary temperatures and integer or fractional speeds, '
         'function trees of depth <= 4 with 1..8 members of all six types (shared members included), PID curves on the '
         'virtual clock (default/random/absurd finite gains, dt incl. 0, unchanged readings), and a hostile stream '
         '(min >= max, empty step map, 0 members, NaN/Inf readings and speeds, unregistered sensor, sensor read errors, '
         'non-finite gains); 1..6 successive Evaluate() calls per case at boundary temperatures +-1 m-degree, inside, '
         'negative, 1e300, subnormal. Non-trivial = some call returned a value strictly inside 0..255 or the root is a '
         'function/PID curve; distinct = distinct Coq case terms.',
    assumptions=['function curves have fewer than 2^40 members (int64 sum does not wrap)',
                 'time is an input: the PID loop sees the virtual clock (time.Now rewritten in util/pid.go)',
                 'Coerce/Ratio tie: gen/Leaf.v regenerated from internal/util/math.go, equal to the model by reflexivity'],
    trusted_base=['FloatAxioms + classical reals through Flocq for the float64(sum) >= 255 / float64(diff) < 0 steps and the PID range lemma (see print_assumptions)',
                  'hand-written model coq/Model/Curves.v of linear.go/functional.go/pid.go/curve.go; agreement observed on the generated cases',
                  'overlay-only sensor type VerifSensor (GetValue returns chosen float64 values / errors) for PID curves; linear curves read real FileSensor objects'],
    partial='Proved as ONE theorem over the whole curve graph (Props/C06Tree.v, C06_tree_full): for every acyclic registry graph and node, any depth / member count < 2^40, min/max leaves with min < max, steps leaves with speeds in [0,255], PID leaves: a returned value is in 0..255 unless a PID term of that call was NaN (ghost flag = failure of the boolean guard pid_guardb, the recorded class D18), every function node returns the code aggregate of its member values = the documented integer aggregate, an error occurs only when a PID leaf sensor read errs, a panic only when a leaf reads an unregistered sensor, OutOfFuel never. C06_range_full, C06_steps_range_full, C06_lin_minmax_mid_full are proved (Props/C06Link.v, C06Steps.v, C06LinMid.v). StepsDocClose (|value - exact piecewise-linear interpolant| <= 1/2 + 2^-10 for every steps curve with |key| < 2^20, speeds in [0,255], finite reading) is proved too (C06_StepsDocClose_proved), so the observer link C06_no_false_alarm_all holds for every case: model = implementation implies the observer passes or the case is D18. Hypotheses that remain: no registered sensor average is NaN (non-finite readings belong to C08); |min|,|max| < 2^40. Not modelled: ui.Fatal on an unknown function type, stack overflow on cyclic curve graphs (OutOfFuel in the model), concurrent Evaluate() of one curve object (exercised by the driver only).',
    finding_codes={1: 'D18'},
    finding_text={'D18': 'PID curve whose loop value is NaN (dt = 0 with unchanged reading, or inf-inf from finite absurd gains) returns int(NaN) = -2^63 instead of a value in 0..255 (curves/pid.go:34-37)'},
    level_text='Machine-checked: the six aggregation branches of functional.go equal their documented integer functions for any number (<2^40) of member values in 0..255; the min/max linear curve is total, within 0..255, 255/0 at the ends and monotone for EVERY non-NaN float64 temperature (Flocq bridge through each rounded operation); the PID curve value is within 0..255 whenever the PID term is not NaN and provably -2^63 otherwise (D18, two witnesses replayed on the real curve every run); registry evaluation equals tree evaluation on acyclic graphs; C06_tree_full assembles these by structural induction into one statement about every node of every acyclic curve graph (range, documented aggregate at every function node, errors only from PID sensor read errors, panics only from unregistered sensors). Every run evaluates the Coq model against the real curves/sensors registries on ~1600 generated cases and judges the implementation output with an exact-rational observer proved equivalent to its Prop.',
    level_note='trusted: Coq kernel + FloatAxioms/Flocq reals; hand-written model Model/Curves.v tied by differential runs; steps-form range and mid-ramp closeness proved in Props/C06Steps.v, Props/C06LinMid.v',
    design_ref='DESIGN.md section 5 C06',
)
