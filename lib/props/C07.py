SPEC = dict(
    claimed=True,
    title='Hotter never means slower',
    props_file='Props/C07.v', props_mod='Props.C07',
    props_extra=[('Props/C07Link.v', 'Props.C07Link'), ('Props/C07Steps.v', 'Props.C07Steps')],
    proof_files=['Proofs/CtrlLinksC07.v', 'Proofs/CurveLinksCtrl.v', 'Proofs/CurveLinksMono.v', 'Proofs/StepsFloat.v', 'Proofs/StepsSeg.v', 'Proofs/StepsMono.v', 'Model/Curves.v', 'Proofs/CurveFloat.v', 'Proofs/CurveFn.v', 'Proofs/CurveMono.v', 'Proofs/CurveSteps.v',
                 'Proofs/CurveLin.v', 'Proofs/CurveLinMono.v',
                 'Drv/CurvesMono.v', 'Drv/CurvesCtrl.v'],
    tie_vo=['Proofs/LeafTie.vo', 'Proofs/ConstsTie_basic.vo', 'Proofs/ConstsTie_clamp.vo', 'Proofs/LeafTie2_functionAgg.vo', 'Proofs/LeafTie2_linearEval.vo', 'Proofs/LeafTie2_clampTarget.vo', 'Proofs/LeafTie2_rescaleTarget.vo', 'Proofs/LeafTie2_DirectCycle.vo'],
    extra_driver_files=['curves'],
    drivers=[dict(name='ctrl', drv_mod='Drv.CtrlC07', drv_file='Drv/CtrlC07.v', shard=100,
                  args={'quick': ['n=300', 'modes=recover,stallmax,random,ext,fault,sweep'], 'thorough': ['n=2000', 'modes=recover,stallmax,random,ext,fault,stall,sweep']}, timeout={'quick': 900, 'thorough': 6000}),
             dict(name='ctrllag', drv_mod='Drv.CtrlLagC07', drv_file='Drv/CtrlLagC07.v', shard=100,
                  args={'quick': ['n=160', 'modes=random,const,recover,stallmax,fault'], 'thorough': ['n=1500', 'modes=random,const,recover,stallmax,fault,stall']}, timeout={'quick': 900, 'thorough': 6000}),
             dict(name='curvesmono', drv_mod='Drv.CurvesMono', drv_file='Drv/CurvesMono.v', shard=50,
                  args={'quick': ['n=700'], 'thorough': ['n=12000']}, timeout={'quick': 600, 'thorough': 3000}),
             dict(name='curvesctrl', drv_mod='Drv.CurvesCtrl', drv_file='Drv/CurvesCtrl.v', shard=8,
                  args={'quick': ['n=60'], 'thorough': ['n=1500']}, timeout={'quick': 600, 'thorough': 3000})],
    rule='curvesmono: real curves (linear min/max; steps with non-decreasing integer or fractional speeds; sum/max/min/average '
         'trees of depth <= 4 with 1..8 members; plus a stream outside the class) evaluated at pairs of sensor states A <= B: '
         'dense sweeps on the 1 m-degree grid around sampled breakpoints (and the adjacent float64 values), plus random pairs '
         '(equal, +1..100 m-degree, arbitrary floats, next float); a third of the cases are loaded as fan2go.yaml text through the real loader; the tick rate is non-zero (200ms default, 1s, 50ms); for a third of the function-curve roots a second consumer (another fan / function curve) evaluates members and sub-curves on its own at a hotter state just before the call at A, or at a colder state just before the call at B, with real sleeps beyond half a tick in between. curvesctrl: the real DefaultFanController with the direct '
         'algorithm over a real curve of value v for every v = 0..255, random fan limits and PWM maps (identity, quantiser, sparse '
         'non-decreasing, plateaus, non-monotone). Non-trivial = some pair with a strict increase / written(0) < written(255); '
         'distinct = distinct Coq case terms.',
    assumptions=['function curves have fewer than 2^40 members',
                 'PWM-map outputs are never -1 (sentinel of ExtractKeysWithDistinctValues)',
                 'request/written are exercised with the direct algorithm without rate limit (the property statement)'],
    trusted_base=['FloatAxioms + classical reals through Flocq where Print Assumptions lists them',
                  'hand-written models coq/Model/Curves.v, Model/Util.v (FindClosest/interpolate), Model/Controller.v (rescale_c, clamp_target); agreement observed on the generated cases'],
    partial='C07_steps_integer_full is now proved (Props/C07Steps.v: any non-empty step list with integer non-decreasing speeds in 0..255 is monotone, total and within 0..255 for ALL float temperatures, and is a leaf_mono leaf for C07_tree). For fractional speeds the statement is refuted (C07_steps_fractional_refuted, D19, recorded finding).',
    finding_codes={2: 'D19'},
    finding_text={'D19': 'steps curve with a non-integer speed dips by one just below a breakpoint (interpolated values are re-rounded to float32, exact step values are not; util/math.go:115)'},
    level_text='Machine-checked: min/max linear curves are monotone, total and within 0..255 for ALL float64 temperatures; sum/max/min/average preserve the pointwise order for any member count; trees of any depth over monotone leaves are monotone (structural induction); the request is monotone in the target for all fan limits (exhaustive rescale lemma) and the written value is monotone in the request for every non-decreasing PWM map (nearest specification of FindClosest). Refuted with a witness replayed on the real curve every run: steps with fractional speeds (D19). Every run sweeps real curves on the 1 m-degree grid and adjacent floats around breakpoints and the real controller for v = 0..255.',
    level_note='trusted: Coq kernel + FloatAxioms/Flocq reals; models tied by differential runs; integer-steps monotonicity proved in Props/C07Steps.v',
    design_ref='DESIGN.md section 5 C07',
)
