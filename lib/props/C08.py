SPEC = dict(
    claimed=True,
    title='Sensor smoothing stays within observed readings, converges, ignores failed reads',
    props_file='Props/C08.v', props_mod='Props.C08',
    props_extra=[('Props/C08Link.v', 'Props.C08Link')],
    proof_files=['Proofs/SensorFloat.v', 'Proofs/Sensor.v', 'Proofs/SensorLinks.v', 'Proofs/LeafTie.v', 'Drv/Sensor.v'],
    tie_vo=['Proofs/LeafTie.vo'],
    drivers=[dict(name='sensor', drv_mod='Drv.Sensor', drv_file='Drv/Sensor.v', shard=60,
                  args={'quick': ['n=600', 'hostile=60', 'monitor=30', 'startup=40'], 'thorough': ['n=6000', 'hostile=600', 'monitor=400', 'startup=600']},
                  timeout={'quick': 600, 'thorough': 3000})],
    rule='seeded random cases: backend in {hwmon, file, cmd} (real HwmonSensor/FileSensor/CmdSensor on temp files / root-owned 0755 scripts), '
         'window n in 1..50 (hostile stream also 1e6 and 2^40), initial average from the real initializeSensors (valid or failing first read) '
         'or NewSensor+SetMovingAvg, 3..40 polls (thorough: ..120) through the real updateSensor; value profiles millidegrees, drift, degrees '
         '(decimals for cmd), tiny/subnormal, mixed sign up to 1e9, large up to 1e15, near 2^52; constant runs of 2..12 polls; fault rate '
         '0/10/30/80% with faults missing file, empty file, non-numeric text, directory (EISDIR), injected EIO (util.VerifReadHook), '
         'command exit code 1/2/127/255, missing command, garbage output, nan/NaN/inf/+Inf/-inf/Infinity/-Infinity/iNf, (thorough) timeout; '
         'integer texts with spaces, +sign, leading zeros, CRLF; floats printed as %g, %e or hex. A separate hostile stream (tag hostile) '
         'uses magnitudes 2^53, 2^62, 1e300, 1e308, MaxFloat64, subnormals (finding D20). GetMovingAvg() is compared bit-exactly after '
         'every poll. Monitor-loop cases (tag monitor-loop, drv_sensor_mon.go): the REAL internal.NewSensorMonitor(sensor, 2-5 ms).Run(ctx) with its ticker polls a '
         'hwmon/file sensor whose reads are served by util.VerifReadHook from a plan (good values, a streak of failed reads of 1..3 windows, a constant '
         'good run, optionally a second streak), window 1..10; the hook runs once per poll inside the monitor goroutine and records the step served and '
         'GetMovingAvg() at that moment, so the exact per-poll sequence is known whatever the timing (no assertion depends on how many ticks fire); the '
         'case is judged bit-exactly against the model on the sequence actually served and by the same hull/skip/contraction observer. '
         'Start-up stream (tag startup, drv_sensor_startup.go): per case one hwmon, one file and one cmd sensor are created by ONE call of the real '
         'internal.InitializeObjects() = hwmon.GetChips() on a fake sysfs chip (gosensors stand-in, VERIF_HWMON_ROOT) + initializeSensors with its start-up read '
         '(valid or failing) + initializeCurves/initializeFans; the chip exposes tempN_input and none / max / min / crit / max+min(+crit) attributes, optional label, '
         'and a decoy temp feature with its own range before or after the configured index; readings lie below / inside / above the advertised range with constant '
         'runs; then every sensor is polled through the real updateSensor and judged like a direct case (the model is unchanged: the value is what the file says). '
         'Every call into the real code (initializeSensors / InitializeObjects, updateSensor, GetMovingAvg read-backs, the monitor loop) runs under a watchdog '
         '(2 s; 6 s for command sensors; monitor loop: no poll for 3 s): a call that does not return is the observation hung (o_ok = false: mismatch and observer '
         'failure), the case ends there and a stream stops after 3 hung cases. '
         'Non-trivial = at least two distinct averages in the observed sequence; distinct = distinct Coq case terms.',
    assumptions=[
        'reading classes: strconv.Atoi / strconv.ParseFloat / os.ReadFile / os/exec are not modelled; the model starts from the class '
        '(ReadErr | ValZ z | ValF f) of one read and the driver feeds the corresponding text through the real parsers (glue observed, not proved)',
        'UpdateSimpleMovingAvg tie: gen/Leaf.v regenerated from internal/util/math.go, equal to Util.upd_avg by reflexivity (Proofs/LeafTie.v)',
        'window size 1 <= n < 2^63 (Go int); integer readings |z| < 2^63 (every value Atoi can return except minInt)',
        'magnitude guard of C08_hull / C08_not_poisoned: |v| <= 2^1021 for window >= 2 (vacuous for integer readings: C08_int_unguarded); '
        'integers below 2^52 for window = 1. Outside the guard the statement is false: C08_hull_refuted_extreme, finding D20',
    ],
    trusted_base=[
        'Coq stdlib FloatAxioms (Prim2SF_valid, SF2Prim_Prim2SF, Prim2SF_SF2Prim, add_spec, sub_spec, mul_spec, div_spec, opp_spec, abs_spec, '
        'leb_spec, of_uint63_spec, ...) and Uint63 axioms, through Flocq 4.1 IEEE754.PrimFloat; classical reals of the stdlib '
        '(ClassicalDedekindReals.sig_forall_dec, sig_not_dec, Classical_Prop.classic, functional_extensionality_dep) wherever Flocq B2R lemmas are used; '
        'the exact list per theorem is in print_assumptions',
        'hand-written model of sensors/{hwmon,file,cmd}.go GetValue, monitor.go updateSensor and backend.go seeding: agreement with the code observed on the generated cases',
        'observer link (Props/C08Link.v): fz v = R_of v * 2^1074 is proved (C08_fz_is_real_value), the integer contraction check follows from C08_converges (C08_contractsb_model), and C08_no_false_alarm shows the observer can only fail on D20 where implementation and model agree',
    ],
    partial='C08_converges proves the binary64 contraction |x-avg\'| <= (1-1/n)|x-avg| + 2^-50(|avg|+|x|) + 2^-1074 per valid poll for windows '
            '2 <= n < 2^53 inside the guard (window 1: C08_window_one, the average is the reading); it is stated over the real values R_of of the '
            'floats, and the observer contractsb checks the same inequality in exact integer arithmetic (units of 2^-1074) on every observed poll; '
            'that the two readings of a float agree is proved in Props/C08Link.v (C08_fz_is_real_value, C08_contractsb_model). C08_converges_ideal is '
            'about the exact-arithmetic idealisation only. Timeouts of command sensors run only in the thorough tier. Parsing is exercised, not modelled.',
    finding_codes={1: 'D20'},
    finding_text={'D20': 'UpdateSimpleMovingAvg leaves the hull of the readings outside the magnitude guard: window 1 with values that are not integers below 2^52 '
                         '(upd(-2^53,1,3) = 4; 1-ulp overshoot on decimal readings), overflow to Inf then NaN at |v| > 2^1021 (+-1e308)'},
    level_text='Theorems C08_fault_skips (all backends, all windows, all averages), C08_not_poisoned and C08_hull (every finite reading sequence, every '
               'fault placement, every window 1 <= n < 2^63, induction over the sequence; binary64 arithmetic via Flocq: rounding monotonicity, exact '
               'small sums, DN/UP bracketing) hold for the model of the repaired code; the unguarded hull is refuted by computed witnesses (D20). '
               'C08_converges gives the geometric factor (1-1/n) with an explicit rounding slack for the binary64 arithmetic (Flocq error model). The model is tied to the Go code by the reflexivity lemma on the regenerated UpdateSimpleMovingAvg and by a differential run of real '
               'HwmonSensor/FileSensor/CmdSensor objects through the real initializeSensors and updateSensor with bit-exact comparison of every average.',
    level_note='trusted: Coq kernel + FloatAxioms/Flocq/classical reals; hand-written model of GetValue/updateSensor/seeding, agreement observed on generated cases; parsers and os/exec not modelled',
    design_ref='DESIGN.md section 5 C08',
)
