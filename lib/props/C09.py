SPEC = dict(
    claimed=True,
    title='A failing sensor or fan read/write never crashes the daemon',
    props_file='Props/C09.v', props_mod='Props.C09',
    proof_files=['Proofs/Faults.v', 'Proofs/FaultsOps.v', 'Proofs/PanicSites.v', 'Proofs/Daemon.v', 'Drv/Faults.v', 'Drv/Daemon.v', 'Drv/CtlRun.v', 'Drv/SensMon.v', 'Proofs/Restore.v'],
    tie_vo=['Proofs/ConstsTie_basic.vo', 'Proofs/ConstsTie_restore.vo'],
    drivers=[dict(name='faults', drv_mod='Drv.Faults', drv_file='Drv/Faults.v', shard=300,
                  timeout={'quick': 900, 'thorough': 3000}),
             dict(name='sensmon', drv_mod='Drv.SensMon', drv_file='Drv/SensMon.v', shard=60,
                  args={'quick': ['reps=1'], 'thorough': ['reps=8']}, timeout={'quick': 600, 'thorough': 1800}),
             dict(name='ctlrun', drv_mod='Drv.CtlRun', drv_file='Drv/CtlRun.v', shard=50,
                  args={'quick': ['reps=1'], 'thorough': ['reps=6']}, timeout={'quick': 600, 'thorough': 1800}),
             dict(name='daemon', drv_mod='Drv.Daemon', drv_file='Drv/Daemon.v', shard=50,
                  args={'quick': ['n=16', 'long=0'], 'thorough': ['n=200', 'long=1']}, timeout={'quick': 600, 'thorough': 3000})],
    rule='faults: closed loops of 6 cycles through the real updateSensor / measureRpm / UpdateFanSpeed (+ restorePwmEnabled on error) for '
         'hwmon/file/cmd fan x hwmon/file/cmd sensor x {linear, PID, function(max) of both, nested function with a PID leaf, nested function of linear leaves}; '
         'every single fault (kind x component x cycle; quick: every (combination, fault) at a seeded cycle plus random fill-up), sampled pairs, fault storms, '
         'stalled never-stop fans, command timeouts; per-operation plans (500 quick / 6000 thorough): a fault on exactly the i-th hooked file operation of a cycle for every i up to 25, both kinds, '
         'pairs within a cycle, "device gone from operation i on" (so that the writes of the restore fail too); stale-write shapes (80): a failed or ignored PWM write exactly in the cycle in which the '
         'request reaches a value at which it stays (saturated curve, direct algorithm) on fans whose PWM cannot be read back (cmd fan without getPwm, file/hwmon fan with an unreadable pwm file) or with a read fault in the next cycle. '
         'Garbage reads return one of 19 file shapes / 12 command-output shapes (empty, whitespace-only, "\\n", "abc", "12abc", "1 2", "-", "0x10", overlong digits, NUL bytes, 5000 digits, NaN, Inf ...) chosen from the case selector; '
         'whitespace-only content is forced for every file read kind (sensor, rpm, pwm, pwm_enable read-back; regime and per-operation). Observer clause "with the last good data": the sensor-monitor poll (the real updateSensor, all three '
         'sensor backends) of a cycle with a sensor fault leaves the moving average bit-identical, a good poll moves it by UpdateSimpleMovingAvg of the value shown. Observer clause "keeps regulating with the last good data": every cycle that ended without error and without a PWM-write fault (per-operation plans: without any fault) must leave the device at the PWM-map output of that cycle\'s request. sensmon: the real sensor monitor actor (NewSensorMonitor(...).Run with its ticker, 2 ms rate) on real hwmon/file/cmd sensors through fault-then-recovery poll sequences '
         '(1-3 good, 1-5 failed or garbage, then at least as many good polls; two bursts): no panic, all planned polls happen, it stops when cancelled, every observed average follows from the previous one with the last good data. '
         'Fault kind "lingering child" for cmd sensors and cmd fans (the command fails at once, an orphaned child keeps holding its stdout/stderr; also through the real Run in ctlrun scenario 15): the call must come back with an error; '
         'every call into the controller and every Run is bounded by the driver\'s watchdog, a call that does not come back is the observation "stuck" (neither regulating nor handed back) and fails the observer; leftover children are killed at the end of the case. '
         'Observer clause "never a made-up request": a cycle whose curve evaluation failed (sensor fault under a curve with a PID leaf) either stops regulation or keeps the request of the previous good cycle; '
         'single transient sensor faults under PID / function-of-PID / nested-PID curves for the direct and the PID control algorithm are generated explicitly. The escape "last-resort write failed" of a stop is only accepted when the operation log shows that the original mode was asked for first. daemon: process-level runs of the real RunDaemon (see C03) where a panic would be in another goroutine '
         '(scenario 5: a controller fails its initialisation; 6/7: the sensor of a PID curve fails while regulating). ctlrun: the real Run in-process (see C03), incl. a control '
         'error while the device directory has vanished, so that the writes of restorePwmEnabled fail too (a panic inside Run is recovered and reported). Non-trivial = at least one fault in the plan; distinct = distinct case terms.',
    assumptions=[
        'oracle: cy_stall (a never-stop fan found stalled at max PWM in that cycle) is taken from the observation; the numeric decision is the business of C10',
        'valid_config: function curves have at least one member and the PWM map is not empty (C11 is about configurations that violate this)',
        'regime plans: a fault regime lasts one whole cycle (all operations on the component during that cycle), PWM reads may additionally start failing at a given read index; '
        'per-operation plans: the fault of the k-th fallible operation of each cycle, k counted over all file operations of the cycle in program order (C09_no_crash_ops / C09_continues_ops; '
        'the driver compares the ORDER of the hooked file operations with the model trace, class by class)',
        'per-operation driver cases use file-backed fans and sensors (hwmon/file), where every operation is a hooked file access; command backends are covered by the regime plans',
        'panic sites: the list is syntactic (calls of panic / ui.Fatal / ui.FatalWithoutStacktrace / os.Exit under internal/); implicit panics (nil dereference, index, closed channel) are modelled by hand',
    ],
    trusted_base=['translator tools/gen_panic_sites.py (regex-level; output gen/PanicSites.v re-checked against the classification table on every run)',
                  'hand-written error-flow model coq/Model/Faults.v (value-abstract) of updateSensor / measureRpm / UpdateFanSpeed / curve evaluation; agreement observed on the generated fault plans',
                  'the driver re-states the four-line reaction of Run\'s control actor (error -> restorePwmEnabled -> stop); the real Run is exercised by the daemon driver'],
    partial='',
    finding_codes={13: 'D13', 5: 'D5'},
    finding_text={'D13': 'util.SafeCmdExecution: unchecked err.(*exec.ExitError) panics when a command cannot be started',
                  'D5': 'calculateTargetPwm: curve evaluation error -> ui.Fatal -> panic'},
    level_text='For every backend/curve combination and every fault plan of any length the closed loop never panics, stops only through a safe restore, '
               'and keeps regulating under RPM-read / PWM-write / mode-write / late PWM-read faults (induction over the plan, axiom-free).',
    level_note='trusted: Coq kernel; hand-written value-abstract error-flow model, agreement with the code observed on generated fault plans',
    design_ref='DESIGN.md section 5 C09',
)
