SPEC = dict(
    claimed=True,
    title='A stalled never-stop fan is noticed and pushed within a bounded time',
    props_file='Props/C10.v', props_mod='Props.C10',
    props_extra=[('Props/C10Link.v', 'Props.C10Link'), ('Props/C10Decay.v', 'Props.C10Decay')],
    proof_files=['Proofs/CtrlLinksC10Progress.v', 'Proofs/CtrlLinksC10Keep.v', 'Proofs/Rescale.v', 'Proofs/Ctrl.v', 'Proofs/CtrlC10.v', 'Proofs/Decay.v', 'Proofs/CtrlC10Decay.v', 'Drv/CtrlC10.v'],
    tie_vo=['Proofs/LeafTie.vo', 'Proofs/ConstsTie_basic.vo', 'Proofs/ConstsTie_clamp.vo', 'Proofs/ConstsTie_stall.vo', 'Proofs/LeafTie2_calcTarget.vo', 'Proofs/LeafTie2_DirectCycle.vo', 'Proofs/LeafTie2_PidCycle.vo', 'Proofs/LeafTie2_applyPwmMapping.vo', 'Proofs/LeafTie2_HwMonGetMinPwm.vo', 'Proofs/LeafTie2_HwMonGetMaxPwm.vo', 'Proofs/LeafTie2_HwMonGetRpmAvg.vo', 'Proofs/LeafTie2_HwMonSetRpmAvg.vo', 'Proofs/LeafTie2_HwMonShouldNeverStop.vo'],
    drivers=[dict(name='ctrl', drv_mod='Drv.CtrlC10', drv_file='Drv/CtrlC10.v', shard=100,
                  extra_mods=[('Drv.CtrlC10Progress', 'Drv/CtrlC10Progress.v'), ('Drv.CtrlC10Keep', 'Drv/CtrlC10Keep.v')],
                  args={'quick': ['n=600', 'modes=stall,stall,random,const,stallmax,recover,stallext'], 'thorough': ['n=4000']}, timeout={'quick': 900, 'thorough': 6000}),
             dict(name='ctlrun', drv_mod='Drv.CtlRunC10', drv_file='Drv/CtlRunC10.v', shard=50,
                  args={'quick': ['reps=1'], 'thorough': ['reps=6']}, timeout={'quick': 600, 'thorough': 1800})],
    # real Run through a stalled-at-max fan (b-restore's ctlrun driver): the controller must stop and restore
    # (appended below to the driver list)
    rule='seeded histories of 1..40 control cycles with interleaved RPM polls, external interference and device faults on real '
         'HwMonFan/FileFan/CmdFan objects driven through the real UpdateFanSpeed/measureRpm; generators random/stall/const/ext/fault; '
         'PWM maps identity/quantiser/sparse/monotone-sparse/plateau; algorithms direct, rate-limited, PID (default and random gains); '
         'curve values -500..800; dt 0, 1 ns, 50 ms..2 s, hours. Non-trivial = at least two control cycles; distinct = distinct case terms.',
    assumptions=['PWM map non-empty with strictly increasing keys (pm_ok); 0 <= min <= max <= 255', 'outputs of the PWM map are never -1'],
    trusted_base=['Print Assumptions: FloatAxioms.Leibniz.eqb_spec (stdlib axiom, used to lift the computed exactness of float64(max)-float64(min) on 0..255) and the kernel float/int63 primitives; no other axiom', 'hand-written model Model/Controller.v of calculateTargetPwm / ensureNoThirdPartyIsMessingWithUs / trySetManualPwm / setPwm / measureRpm, Model/Fan.v, Model/ControlLoop.v: agreement with the Go code is observed bit-exactly on the generated histories (driver ctrl), not proved', 'one control cycle is atomic in the model; interference during a cycle is represented by interference just before or just after it', 'the curve is a stub SpeedCurve in the driver (real curves: C06/C07); the PID clock is virtual (overlay rewrite of time.Now in util/pid.go)', 'gen/Consts.v regenerated from the source: clamp bounds, rescale divisor, stall threshold, post-raise average'],
    finding_codes={}, finding_text={},
    level_text='C10_stall_cycle (any fan kind, algorithm, state: a cycle that would repeat the request while the RPM average is below 1 raises by one step or, at maximum, reports ErrFanStalledAtMaxPwm), C10_no_false_stall, C10_file_cmd_one_poll (file/cmd fans: one poll of 0 RPM arms the test), C10_hwmon_keeps_raising (after a raise one more poll of 0 re-arms it; window sizes 1..1000 by computation), C10_hwmon_poll; C10_hwmon_detect_bound (Props/C10Decay.v): for every hwmon fan whose RPM average is any finite binary64 value in [0,A], every window n in 1..65536, after 2n(log2_up A + 1) polls of 0 RPM (and any larger number) the stall test is armed — proved for all floats through Flocq (geometric decay by 1-1/(2n) per poll). The observer judges the real controller: a cycle with average < 1 must change the request (raise or stall error), raises are +1 below the maximum, stall errors only at the maximum.',
    level_note='trusted: Coq kernel + FloatAxioms.Leibniz.eqb_spec; hand-written controller model tied to the code by the differential ctrl driver (bit-exact agreement observed, not proved); atomic cycles',
    design_ref='DESIGN.md section 5 C10',
)
