SPEC = dict(
    claimed=True,
    title='A configuration that validates can be run',
    props_file='Props/C11.v', props_mod='Props.C11',
    props_extra=[('Props/C11Link.v', 'Props.C11Link')],
    proof_files=['Proofs/ConfigGraph.v', 'Proofs/Config.v', 'Proofs/ConfigLinks.v', 'Drv/Config.v'],
    tie_vo=[],
    drivers=[dict(name='config', drv_mod='Drv.Config', drv_file='Drv/Config.v', shard=150,
                  timeout={'quick': 900, 'thorough': 6000})],
    rule='abstract configurations generated from the seed and RENDERED TO YAML TEXT, taken through viper -> mapstructure hooks -> '
         'configuration.Validate: (a) documented forms only (all sensor/fan/curve kinds, every spelling of controlAlgorithm, both step '
         'spellings, nested function curves in shuffled definition order); (b) one of 52 planted deviations per case (every validator rule, '
         'the four D15 shapes, permission failures), 8x each, then two at once; every subset of the three backend blocks (none, each single, each pair, all three) for a sensor, a curve and a fan entry; every way three sensors are used (by a linear curve, only by a pid curve, only by a pid curve nested in function curves, not at all); cross-kind references: kind-neutral ids (the SAME text as sensor, curve and/or fan id - legal, the validator keeps kinds apart) and references at all four sites (linear.sensor, pid.sensor, function member, fan.curve) naming an object of the wrong kind, the right kind, both or neither; empty mandatory strings: file sensor `path: ""` and cmd sensor `exec: ""` (not looked at by the validator: accepted, must still instantiate and run), explicit-empty spellings `id: ""`, `sensor: ""`, `curve: ""`, `curves: [""]`, hwmon fan `platform: ""`; (c) curve graphs with 2..8 nodes: random DAGs, an embedded '
         'cycle of every length 1..8, dangling references; (d) EVERY digraph incl. self-loops on 1..3 nodes (thorough: ..4). Ids are strings that are pairwise distinct but fall into groups differing only in letter case, surrounding blanks or unusual '
         'trailing characters ("c0", "C0", " c0 ", "c0.\u00e4/#"), member lists repeat ids (also consecutively). Every accepted configuration is handed to a '
         'persistent worker process that loads the same file through the real loader, runs the real Validate on its own CurrentConfig and then - from that '
         'same in-memory configuration - instantiates with the REAL start-up glue internal.InitializeObjects (hwmon.GetChips through the gosensors stand-in on a fixed fake hwmon tree, initializeSensors, initializeCurves, initializeFans) and initializeFanControllers, evaluates every curve under '
         '8 sensor environments (incl. NaN/Inf averages) and runs calculateTargetPwm for every fan; panics are recovered, a stack overflow (endless recursion) '
         ', a deadlock, any other death of the worker or an 8 s stall is attributed to the target it had started and ends the case (stack limit 4 MB; generation stops after 5 such cases, each of '
         'which is a failing input). Every 40th case and the corpus (about 50 documents per run) also go through the real command line entry '
         '`fan2go config validate -c file` (cmd/root.go, cobra, cmd/config/validate.go) in a child process; exit status and the "Config looks good" / '
         '"Validation failed" line must give the same verdict class. Observation outside C11 (b-startup): a hwmon fan without an RPM input is accepted but its '
         'controller can never start (RunInitializationSequence saves no PWM data) - C11 promises instantiation and crash-free evaluation, not a working start-up. '
         'Non-trivial = at least one curve and one fan or sensor; distinct = distinct (configuration, observation) terms.',
    assumptions=['perm_ok: the result of util.CheckFilePermissionsForExecution(config file) is an oracle argument of validate (exercised with modes 0644/0666)',
                 'Tarjan SCC (github.com/looplab/tarjan) is not modelled: the model decides the same criterion by peeling, proved exact (C11_cycle_check_exact, C11_scc_criterion); agreement observed on all digraphs <= 3 (thorough 4) nodes',
                 'sensor environments are values (moving averages, PID outputs); sensor READ failures are C09\'s subject',
                 'hwmon discovery runs for real but against the gosensors stand-in on a fixed fake tree (coretemp temp1..9, nct6798 fan/pwm1..9); discovery itself is C17\'s subject'],
    trusted_base=['Print Assumptions lists only kernel primitives (PrimFloat.*, PrimInt63.*) - no axiom; floats occur only as opaque data of the evaluator and in the `== 0` tests of the PID constants',
                  'YAML/viper/mapstructure decoding is not modelled; the driver checks that every rendered document decodes to exactly the abstract configuration handed to the model (o_decode)',
                  'hand-written model of validation.go, NewSensor/NewSpeedCurve/NewFan, initializeFanControllers, Evaluate of the three curve kinds (crash sites explicit)'],
    partial='',
    finding_codes={}, finding_text={},
    level_text='C11_sound / C11_runnable / C11_complete are proved for every abstract configuration (any number of entries, any graph), axiom-free; '
               'the model describes the validator after the D15 repair (empty function member list, non-nil empty steps map and controlAlgorithm {} are rejected). '
               'The model is tied to the code by a differential run through the real YAML loader, validator, constructors and evaluators; the verified observer '
               'holdsb judges the implementation\'s own verdict and run-time behaviour.',
    level_note='trusted: Coq kernel; hand-written model, agreement with the code observed on the generated cases; decoding checked per case, not modelled',
    design_ref='DESIGN.md section 5 C11',
)
