SPEC = dict(
    claimed=True,
    title='The fan receives the nearest value it supports',
    props_file='Props/C12.v', props_mod='Props.C12',
    props_extra=[('Props/C12Mono.v', 'Props.C12Mono'), ('Props/C12Default.v', 'Props.C12Default')],
    proof_files=['Proofs/Closest.v', 'Proofs/ClosestMono.v', 'Proofs/DefaultMap.v', 'Proofs/DefaultMapCtl.v', 'Proofs/LeafTie.v', 'Drv/Closest.v'],
    tie_vo=['Proofs/LeafTie.vo'],
    drivers=[dict(name='closest', drv_mod='Drv.Closest', drv_file='Drv/Closest.v', shard=300)],
    rule='exhaustive: every map over every subset of a small key universe with outputs from a small alphabet '
         '(quick: 6 keys x 3 outputs; thorough: 12 keys, sampled patterns), plus seeded random full-size maps '
         '(identity, quantiser, non-monotonic, constant, single entry, sparse user map), plus the default map the real controller computes for a fan '
         'without PWM read-back (route=default: cmd fan, no override, empty database; recorded as the identity on 0..255), and histories on one controller (prev=const|rev: the same controller held another map with the same keys before and derived its supported inputs from it); requests = every supported key, '
         'its neighbours, midpoints +-1, -50, 305 and random ones. Non-trivial = at least two supported inputs; '
         'distinct = distinct (map, requests, observation) terms.',
    assumptions=['PWM-map outputs are never -1 (the sentinel of ExtractKeysWithDistinctValues); outputs are PWM values',
                 'getClosest tie: gen/Leaf.v regenerated from internal/util/math.go, equal to the model by reflexivity'],
    finding_codes={}, finding_text={},
    level_text='Theorems C12_nearest/C12_exact/C12_supported/C12_written hold for every strictly sorted key list of any length and every '
               'integer request (induction on the binary-search interval, axiom-free); C12_selection_monotone / C12_supported_fixed_point / '
               'C12_written_monotone / C12_outputs_reachable (Props/C12Mono.v) add that the selection never inverts the order of two requests, that a supported '
               'request is handed through unchanged, that with non-decreasing outputs the written value is monotone in the request, and that every output value of the map stays reachable through a supported input; C12_default_map_is_identity / C12_default_map_clamps / C12_default_map_steady '
               '(Props/C12Default.v) derive the default map InterpolateLinearlyInt({0:0,255:255},0,255) from the interpolation model (float64 ratio, '
               'float32 rounding, truncation: the identity, which fails at 31 keys without the float32 rounding) and show every request through it is written clamped to 0..255; the model is tied to the Go code by a '
               'reflexivity lemma on the regenerated getClosest and by a differential run of the real FindClosest / '
               'ExtractKeysWithDistinctValues / setPwm on exhaustive small and random full-size maps.',
    level_note='trusted: Coq kernel (vm_compute over primitive floats for the 256-key default map); the stdlib axiom FloatAxioms.Leibniz.eqb_spec under C12_default_map_steady only (through Proofs/Rescale.v), every other C12 theorem is closed under the global context; hand-written model of FindClosest/ExtractKeysWithDistinctValues/setPwm, agreement with the code observed on the generated cases; outputs != -1',
    design_ref='DESIGN.md section 5 C12',
)
