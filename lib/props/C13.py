SPEC = dict(
    claimed=True,
    title='Measured fan limits follow the RPM curve; configured limits always win',
    props_file='Props/C13.v', props_mod='Props.C13',
    proof_files=['Proofs/Limits.v', 'Drv/Limits.v', 'Proofs/LimitsBridge.v', 'Drv/LimitsRun.v'],
    tie_vo=['Proofs/LimitsBridge.vo', 'Proofs/LeafTie2_ComputePwmBoundaries.vo', 'Proofs/LeafTie2_HwMonGetMinPwm.vo', 'Proofs/LeafTie2_HwMonGetStartPwm.vo', 'Proofs/LeafTie2_HwMonGetMaxPwm.vo', 'Proofs/LeafTie2_HwMonSetMinPwm.vo', 'Proofs/LeafTie2_HwMonSetStartPwm.vo', 'Proofs/LeafTie2_HwMonSetMaxPwm.vo'],
    drivers=[dict(name='limits', drv_mod='Drv.Limits', drv_file='Drv/Limits.v', shard=150,
                  args={'quick': ['n=900'], 'thorough': ['n=30000']},
                  timeout={'quick': 600, 'thorough': 3000}),
             # the limits a fan is REALLY started with: real DefaultFanController.Run, real bbolt persistence holding a stored
             # RPM curve (or nothing: placeholder / initialization sequence), real HwMonFan on temp files
             dict(name='limitsrun', drv_mod='Drv.LimitsRun', drv_file='Drv/LimitsRun.v', shard=40,
                  args={'quick': [], 'thorough': ['reps=8']}, timeout={'quick': 600, 'thorough': 3000})],
    rule='real fans.NewFan (hwmon, file, cmd) + AttachFanRpmCurveData/SetMinPwm/SetStartPwm/SetMaxPwm; after every call the '
         'returned error and GetMinPwm/GetStartPwm/GetMaxPwm are observed. Structured part: all 8 combinations of configured '
         'minPwm/startPwm/maxPwm x neverStop x 12 curve families (ramp, capped, non-monotone, plateaus, all-zero, single point, '
         'fractional RPM 0.4/0.9/1.5, first non-zero at key 255, never stopping, NaN/Inf/negative/huge values, keys outside 0..255, '
         'several maxima) x {single attach, re-attach of a different family, then empty map, then nil}. Random part: 0..2 setter calls, '
         '1..3 attachments (sparse 1..24 keys or dense 256 keys; 1/7 empty or nil) with 0..2 setter calls in between (and, in a third of '
         'the cases, UpdateFanRpmCurveValue calls, the caller changing a map it handed over, attaching the same map object again, '
         'attaching the fan\'s OWN current map); aliasing part: 8 configurations x neverStop x 9 patterns (own map after updates, same '
         'object twice, caller mutates then re-attaches, older object then own, own without/before any attach, caller empties the map, '
         '...); the Coq case carries the content of the map AT CALL TIME. setters are '
         'non-forced except in 1/6 of the cases (config-wins is then not judged). Non-trivial = hwmon fan with at least one '
         'non-empty attachment; distinct = distinct case terms. Driver limitsrun: DefaultFanController.Run on a real HwMonFan (temp files) '
         'with real bbolt persistence: stored curve (dense ramp, 25-step sparse, random sparse, capped, placeholder-like, all-zero, '
         'fractional) x 8 configurations (values that also contradict the curve: maxPwm below measured start, startPwm above measured '
         'max, minPwm above startPwm) x neverStop, identity or coarse PWM map; nothing stored + minPwm/maxPwm (placeholder); nothing '
         'stored (initialization sequence on a simulated coarse device). Observed when the first control cycle starts: the three getters; '
         'then the request of every control cycle. Expected: model boundaries of the STORED curve, requests = rescaled curve value.',
    assumptions=['curve data reaches ComputePwmBoundaries through sort.Ints over the map keys: the model takes the key-sorted association list (distinct keys)',
                 'int(rpm) is the amd64 conversion (NaN, +-Inf, |x| >= 2^63 -> -2^63, i.e. "not spinning"); theorems are stated over whole r = f2i r for ALL float64 values',
                 'C13_start needs every key <= 255 (PWM values); C13_max needs no range assumption',
                 'config-wins is stated for call sequences without force=true (the only forced call in fan2go was controller.go SetMinPwm(offset,true), defect D1 handled under C01/C02)'],
    trusted_base=['hand-written model coq/Model/Fan.v + coq/Model/Limits.v of NewFan, the limit getters/setters, ComputePwmBoundaries, AttachFanRpmCurveData; agreement observed on the generated cases',
                  'Print Assumptions of every C13 theorem: only the kernel primitives PrimFloat.float/abs/div/eqb/ltb/frshiftexp/normfr_mantissa and PrimInt63.int/eqb/land/lsr (they occur in the type of the fan record and in f2i); no FloatAxioms, no classical axioms, none of our own'],
    partial='',
    finding_codes={16: 'D16'},
    finding_text={'D16': 're-attachment keeps the previously MEASURED start PWM (ComputePwmBoundaries treats fan.GetStartPwm() as a user override)'},
    level_text='C13_start/C13_max/C13_empty/C13_config_wins/C13_no_neverstop/C13_reattach_full are proved for every key-sorted curve of any '
               'length with arbitrary float64 RPM values, every configuration and every finite sequence of attach/set calls (induction over '
               'the curve and over the call sequence). The model is tied to the code by a differential run of the real fans package; the '
               'verified observer holdsb judges the implementation\'s own observations.',
    level_note='trusted: Coq kernel; hand-written model of internal/fans limits code, agreement with the code observed on generated cases',
    design_ref='DESIGN.md section 5 C13',
)
