SPEC = dict(
    claimed=True,
    title='Stored fan data round-trips and is isolated per fan and per kind',
    props_file='Props/C14.v', props_mod='Props.C14',
    proof_files=['Proofs/Persist.v', 'Proofs/PersistDrv.v', 'Drv/Persist.v'],
    tie_vo=['Proofs/ConstsTie_buckets.vo'],
    # every write transaction of persistence.go goes through a counting hook (identity unless a crash worker
    # installs it): deterministic crash points "die right after the k-th committed transaction".
    # Fails closed: no match => REWRITE-FAILED => correspondence broken.
    rewrites=[('internal/persistence/persistence.go',
               [(r'\b(\w+)\.Update\(', r'verifUpdate(\1, '),
                (r'\b(\w+)\.Batch\(', r'verifBatch(\1, '),
                (r'\b(\w+)\.Commit\(\)', r'verifCommit(\1)')], None)],
    drivers=[dict(name='persist', drv_mod='Drv.Persist', drv_file='Drv/Persist.v', shard=40,
                  args={'quick': ['n=150', 'steps=14', 'kills=32', 'killops=40', 'diskkills=1'],
                        'thorough': ['n=1500', 'steps=24', 'kills=320', 'killops=60', 'diskkills=1']},
                  timeout={'quick': 600, 'thorough': 3000})],
    rule='seq cases: seeded random sequences of save / load / delete / reopen (new Persistence value) / foreign-bytes writes '
         '(21 blobs put directly with bbolt: truncated, non-JSON, wrong types, out-of-range, duplicate keys, null, whitespace) over 3-4 fan ids '
         '("fan1","fan10","Fan1","fan1 ") and both kinds through the real persistence.NewPersistence on a fresh bbolt file; values: nil and '
         'empty maps, negative / MinInt64 / MaxInt64 keys, fractional, 1e300, 5e-324, -0, MaxFloat64, arbitrary bit patterns, NaN/+-Inf '
         '(json rejects); after every step all 8 entries are loaded (two thirds of the foreign writes are first met by another operation); '
         'plus one table case per blob x kind. kill cases: a worker process executes a sequence (big values among them), is SIGKILLed at a '
         'seeded fraction of its calibrated run time, a fresh process loads all 8 entries; allowed = model state after the journalled '
         'completed operations with the in-flight one applied or not. crash-point cases (killat): every db.Update/db.Batch/tx.Commit of persistence.go is routed (build-time rewrite, fails closed) through a counting hook; for one systematic and one seeded sequence (first saves, overwrites, deletes of present/absent entries, loads, both kinds, three fans) and for EVERY k a worker kills itself (SIGKILL) right after its k-th committed transaction, a fresh process loads everything, judged by the same crash relation (on the unchanged tree every operation is one transaction). For RPM-curve data the saved value is the entry set of the fan\'s map '
         '(SaveFanPwmData copies it), so a nil map there counts as the empty map; float payloads are compared bit for bit. '
         'Non-trivial = at least two distinct entries saved and one load returned data (kill: killed after >= 2 completed operations); '
         'distinct = distinct case terms.',
    assumptions=['enc_dec (oracle): json.Unmarshal(json.Marshal(v)) = v for map[int]float64 / map[int]int, bit-exact for finite floats',
                 'enc_able (oracle): json.Marshal fails exactly when a float payload is NaN or +-Inf',
                 'bbolt (oracle): a db.Update transaction interrupted by SIGKILL takes effect entirely or not at all (CrashDuring o committed); '
                 'the model cannot exhibit a torn page; power loss / fsync lies are outside the property and outside the runs',
                 'the harness table of foreign blobs states which of them encoding/json rejects per kind; a wrong entry shows up as a mismatch',
                 'fan ids are distinct non-empty strings (bbolt rejects the empty key); the fan passed to SaveFanPwmData has curve data attached (non-nil pointer)',
                 'gen/Consts.BucketsDistinct regenerated from persistence.go: the refinement proof needs the two bucket names to differ'],
    trusted_base=['Print Assumptions: all C14 theorems are closed under the global context (no axioms)',
                  'hand-written model of persistence.go (Model/Persist.v); bbolt, encoding/json, the file system are modelled, not verified'],
    partial='PARTIAL by construction: crash atomicity (bbolt under SIGKILL) and JSON fidelity are Section hypotheses / the committed flag of the model, '
            'exercised by the kill runs and the hostile-value runs but not proved; every other clause (round trip, frame, not-found, idempotent delete, '
            'discarded undecodable entry) is proved for all operation sequences.',
    finding_codes={}, finding_text={},
    level_text='C14_refines / C14_history: for every sequence of save, load, delete, reopen, foreign-bytes and kill-during-operation events the model of '
               'persistence.go (two bbolt buckets of raw bytes with bucket-exists flags, the six API functions line by line) abstracts to two maps '
               'id -> value and every output is the one the history dictates (induction over the sequence, std++ gmap, axiom-free). Corollaries: round '
               'trip until overwritten/deleted, frame per fan and per kind, load of a missing entry = not found, delete idempotent, undecodable entry '
               'reported as not found and discarded, kill during a save leaves the target old-or-new and everything else unchanged. The model is tied to '
               'the Go code by differential runs of the real wrapper on real bbolt files, including SIGKILLed worker processes.',
    level_note='trusted: Coq kernel; hand-written model; oracle hypotheses about encoding/json and bbolt atomicity (partial); agreement observed on generated cases',
    design_ref='DESIGN.md section 5 C14',
)
